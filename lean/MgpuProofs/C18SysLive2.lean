import MgpuProofs.C18SysLive
import MgpuProofs.C18SysValid
/-! C18 system level, part 6: as long as anything is in flight some move is enabled (no deadlock),
and under a fair schedule the system settles. -/
namespace C18

structure NodeSettled (A : Node) : Prop where
  l2 : A.l2 = []
  ioOut : A.s.io.reqOut = []
  ioRspIn : A.s.io.rspIn = []
  ioRspOut : A.s.io.rspOut = []
  ioTx : A.s.io.tx = []
  oiIn : A.s.oi.reqIn = []
  oiOut : A.s.oi.reqOut = []
  oiRspIn : A.s.oi.rspIn = []
  oiRspOut : A.s.oi.rspOut = []
  oiTx : A.s.oi.tx = []
  ctIn : A.s.ctIn = []
  ctOut : A.s.ctOut = []
  drain : A.s.draining = false
  l1 : A.s.pause = false → A.s.io.reqIn = []

/-- nothing in flight anywhere: every forwarded request has been answered and its answer taken by
    the L1 side, every control command processed and every acknowledgement taken; requests may
    remain only in the inside port of a paused engine -/
structure Settled (y : Sys) : Prop where
  netQ : y.netQ = []
  netR : y.netR = []
  node : ∀ (b : Nat) (B : Node), y.nodes[b]? = some B → NodeSettled B

/-- same move up to the data a responder chooses -/
def sameKind (o o0 : SOp) : Prop :=
  match o0 with
  | .l2ans b j _ => ∃ d, o = .l2ans b j d
  | _ => o = o0

structure CfgOk (y : Sys) : Prop where
  ok : ∀ (b : Nat) (B : Node), y.nodes[b]? = some B →
    0 < B.cfg.cap ∧ (0 < B.cfg.wReqOut ∧ 0 < B.cfg.wRspOut ∧ 0 < B.cfg.wReqIn ∧ 0 < B.cfg.wRspIn)

/-- the moves a fair environment must keep making for `n` nodes: every engine ticks, the network
    polls every outgoing port and tries its oldest message in each direction, every responder takes
    clones and tries its oldest outstanding one, the L1 side and the command processor keep taking -/
def fairList (n : Nat) : List SOp :=
  (List.range n).flatMap (fun a => [.tick a, .sendQ a, .l2take a, .l2ans a 0 none, .sendR a, .l1take a, .ctake a]) ++
  [.delivQ 0, .delivR 0]

theorem mem_fairList_node {n a : Nat} (h : a < n) {o : SOp}
    (ho : o ∈ [SOp.tick a, .sendQ a, .l2take a, .l2ans a 0 none, .sendR a, .l1take a, .ctake a]) :
    o ∈ fairList n :=
  List.mem_append_left _ (List.mem_flatMap.mpr ⟨a, List.mem_range.mpr h, ho⟩)

theorem eq_nil_of_count {α} [BEq α] [LawfulBEq α] {l : List α} (h : ∀ x, l.count x = 0) : l = [] := by
  cases l with
  | nil => rfl
  | cons a t => have := h a; simp at this

theorem tick_en {y : Sys} {a : Nat} {A : Node} (hA : y.nodes[a]? = some A) (hc : CfgOk y)
    (hnf : faulted A.s = false) (hns : ¬ Stuck A.cfg A.s) : En y (.tick a) :=
  ⟨A, hA, fun he => hns (tick_fixed_stuck A.cfg A.s (hc.ok a A hA).1 (hc.ok a A hA).2 hnf he)⟩

/-- **no deadlock**: in every state of the closed system that is not settled some move of the
    network, a responder, a taker or an engine changes the state -/
theorem exists_helpful (y : Sys) (hs : SInv y) (hv : SValid y) (hc : CfgOk y)
    (hnf : ∀ (b : Nat) (B : Node), y.nodes[b]? = some B → faulted B.s = false) (hns : ¬ Settled y) :
    ∃ o0, o0 ∈ fairList y.nodes.length ∧ isInput o0 = false ∧ ∀ o, sameKind o o0 → En y o := by
  -- 1. an answer waits for the L1 side
  by_cases h1 : ∃ (a : Nat) (A : Node), y.nodes[a]? = some A ∧ A.s.io.rspOut ≠ []
  · obtain ⟨a, A, hA, hne⟩ := h1
    exact ⟨.l1take a, mem_fairList_node (lt_of_getElem? hA) (by simp), rfl, fun o ho => by rw [show o = .l1take a from ho]; exact ⟨A, hA, hne⟩⟩
  have h1' : ∀ (a : Nat) (A : Node), y.nodes[a]? = some A → A.s.io.rspOut = [] := fun a A hA =>
    Classical.byContradiction fun hne => h1 ⟨a, A, hA, hne⟩
  -- 2. a control response waits for the command processor
  by_cases h2 : ∃ (a : Nat) (A : Node), y.nodes[a]? = some A ∧ A.s.ctOut ≠ []
  · obtain ⟨a, A, hA, hne⟩ := h2
    exact ⟨.ctake a, mem_fairList_node (lt_of_getElem? hA) (by simp), rfl, fun o ho => by rw [show o = .ctake a from ho]; exact ⟨A, hA, hne⟩⟩
  have h2' : ∀ (a : Nat) (A : Node), y.nodes[a]? = some A → A.s.ctOut = [] := fun a A hA =>
    Classical.byContradiction fun hne => h2 ⟨a, A, hA, hne⟩
  -- 3. a reply waits in an inside-channel incoming buffer
  by_cases h3 : ∃ (a : Nat) (A : Node), y.nodes[a]? = some A ∧ A.s.io.rspIn ≠ []
  · obtain ⟨a, A, hA, hne⟩ := h3
    refine ⟨.tick a, mem_fairList_node (lt_of_getElem? hA) (by simp), rfl, fun o ho => ?_⟩
    rw [show o = .tick a from ho]
    refine tick_en hA hc (hnf a A hA) fun hst => ?_
    rcases hst.inr with h | h
    · exact hne h
    · rw [h1' a A hA] at h; exact h (hc.ok a A hA).1
  have h3' : ∀ (a : Nat) (A : Node), y.nodes[a]? = some A → A.s.io.rspIn = [] := fun a A hA =>
    Classical.byContradiction fun hne => h3 ⟨a, A, hA, hne⟩
  -- 4. an answer is in the network
  by_cases h4n : y.netR ≠ []
  · cases hq : y.netR with
    | nil => exact absurd hq h4n
    | cons m rest =>
      have hm : y.netR[0]? = some m := by rw [hq]; rfl
      have hlt := hv.rdst m (by rw [hq]; exact List.mem_cons_self)
      obtain ⟨A, hA⟩ : ∃ A, y.nodes[m.dst]? = some A := ⟨y.nodes[m.dst], List.getElem?_eq_getElem hlt⟩
      refine ⟨.delivR 0, List.mem_append_right _ (by simp), rfl, fun o ho => ?_⟩
      rw [show o = .delivR 0 from ho]
      exact ⟨m, A, hm, hA, by rw [h3' _ A hA]; exact (hc.ok _ A hA).1⟩
  have h4 : y.netR = [] := Classical.byContradiction h4n
  -- 5. an answer waits for the network
  by_cases h5 : ∃ (b : Nat) (B : Node), y.nodes[b]? = some B ∧ B.s.oi.rspOut ≠ []
  · obtain ⟨b, B, hB, hne⟩ := h5
    cases ho : B.s.oi.rspOut with
    | nil => exact absurd ho hne
    | cons o rest =>
      have hc' := (hs.node b B hB).nm (o.rspTo, o.dst)
      have hpos : 0 < (upKA B.s.oi).count (o.rspTo, o.dst) := by
        simp only [upKA, ho, List.map_cons, List.count_append, List.count_cons, beq_self_eq_true, if_true]
        omega
      rw [← hc'] at hpos
      have hm := List.count_pos_iff.mp hpos
      simp only [nameKA, List.mem_map] at hm
      obtain ⟨x, hx, he⟩ := hm
      simp only [Prod.mk.injEq] at he
      obtain ⟨nm, r, ht⟩ := takeName_some_of_mem (k := o.rspTo) (l := B.names)
        (List.mem_map.mpr ⟨x, hx, he.1⟩)
      refine ⟨.sendR b, mem_fairList_node (lt_of_getElem? hB) (by simp), rfl, fun o' ho' => ?_⟩
      rw [show o' = .sendR b from ho']
      exact ⟨B, o, rest, nm, r, hB, ho, ht⟩
  have h5' : ∀ (b : Nat) (B : Node), y.nodes[b]? = some B → B.s.oi.rspOut = [] := fun b B hB =>
    Classical.byContradiction fun hne => h5 ⟨b, B, hB, hne⟩
  -- 6. a reply waits in an outside-channel incoming buffer
  by_cases h6 : ∃ (b : Nat) (B : Node), y.nodes[b]? = some B ∧ B.s.oi.rspIn ≠ []
  · obtain ⟨b, B, hB, hne⟩ := h6
    refine ⟨.tick b, mem_fairList_node (lt_of_getElem? hB) (by simp), rfl, fun o ho => ?_⟩
    rw [show o = .tick b from ho]
    refine tick_en hB hc (hnf b B hB) fun hst => ?_
    rcases hst.l2 with h | h
    · exact hne h
    · rw [h5' b B hB] at h; exact h (hc.ok b B hB).1
  have h6' : ∀ (b : Nat) (B : Node), y.nodes[b]? = some B → B.s.oi.rspIn = [] := fun b B hB =>
    Classical.byContradiction fun hne => h6 ⟨b, B, hB, hne⟩
  -- 7. a clone is outstanding at an L2 side
  by_cases h7 : ∃ (b : Nat) (B : Node), y.nodes[b]? = some B ∧ B.l2 ≠ []
  · obtain ⟨b, B, hB, hne⟩ := h7
    cases hq : B.l2 with
    | nil => exact absurd hq hne
    | cons q rest =>
      refine ⟨.l2ans b 0 none, mem_fairList_node (lt_of_getElem? hB) (by simp), rfl, fun o ho => ?_⟩
      obtain ⟨d, rfl⟩ := ho
      exact ⟨B, q, hB, by rw [hq]; rfl, by rw [h6' b B hB]; exact (hc.ok b B hB).1⟩
  have h7' : ∀ (b : Nat) (B : Node), y.nodes[b]? = some B → B.l2 = [] := fun b B hB =>
    Classical.byContradiction fun hne => h7 ⟨b, B, hB, hne⟩
  -- 8. a clone waits for the L2 side
  by_cases h8 : ∃ (b : Nat) (B : Node), y.nodes[b]? = some B ∧ B.s.oi.reqOut ≠ []
  · obtain ⟨b, B, hB, hne⟩ := h8
    exact ⟨.l2take b, mem_fairList_node (lt_of_getElem? hB) (by simp), rfl, fun o ho => by rw [show o = .l2take b from ho]; exact ⟨B, hB, hne⟩⟩
  have h8' : ∀ (b : Nat) (B : Node), y.nodes[b]? = some B → B.s.oi.reqOut = [] := fun b B hB =>
    Classical.byContradiction fun hne => h8 ⟨b, B, hB, hne⟩
  -- 9. a request from outside waits in the port
  by_cases h9 : ∃ (b : Nat) (B : Node), y.nodes[b]? = some B ∧ B.s.oi.reqIn ≠ []
  · obtain ⟨b, B, hB, hne⟩ := h9
    refine ⟨.tick b, mem_fairList_node (lt_of_getElem? hB) (by simp), rfl, fun o ho => ?_⟩
    rw [show o = .tick b from ho]
    refine tick_en hB hc (hnf b B hB) fun hst => ?_
    rcases hst.inq with h | h
    · exact hne h
    · rw [h8' b B hB] at h; exact h (hc.ok b B hB).1
  have h9' : ∀ (b : Nat) (B : Node), y.nodes[b]? = some B → B.s.oi.reqIn = [] := fun b B hB =>
    Classical.byContradiction fun hne => h9 ⟨b, B, hB, hne⟩
  -- 10. a clone is in the network
  by_cases h10n : y.netQ ≠ []
  · cases hq : y.netQ with
    | nil => exact absurd hq h10n
    | cons m rest =>
      have hm : y.netQ[0]? = some m := by rw [hq]; rfl
      have hlt := (hv.qdst m (by rw [hq]; exact List.mem_cons_self)).2
      obtain ⟨B, hB⟩ : ∃ B, y.nodes[m.c.dst]? = some B := ⟨y.nodes[m.c.dst], List.getElem?_eq_getElem hlt⟩
      refine ⟨.delivQ 0, List.mem_append_right _ (by simp), rfl, fun o ho => ?_⟩
      rw [show o = .delivQ 0 from ho]
      exact ⟨m, B, hm, hB, by rw [h9' _ B hB]; exact (hc.ok _ B hB).1⟩
  have h10 : y.netQ = [] := Classical.byContradiction h10n
  -- 11. a clone waits for the network
  by_cases h11 : ∃ (a : Nat) (A : Node), y.nodes[a]? = some A ∧ A.s.io.reqOut ≠ []
  · obtain ⟨a, A, hA, hne⟩ := h11
    exact ⟨.sendQ a, mem_fairList_node (lt_of_getElem? hA) (by simp), rfl, fun o ho => by rw [show o = .sendQ a from ho]; exact ⟨A, hA, hne⟩⟩
  have h11' : ∀ (a : Nat) (A : Node), y.nodes[a]? = some A → A.s.io.reqOut = [] := fun a A hA =>
    Classical.byContradiction fun hne => h11 ⟨a, A, hA, hne⟩
  -- 12. a control command waits
  by_cases h12 : ∃ (a : Nat) (A : Node), y.nodes[a]? = some A ∧ A.s.ctIn ≠ []
  · obtain ⟨a, A, hA, hne⟩ := h12
    refine ⟨.tick a, mem_fairList_node (lt_of_getElem? hA) (by simp), rfl, fun o ho => ?_⟩
    rw [show o = .tick a from ho]
    exact tick_en hA hc (hnf a A hA) fun hst => hne hst.ctl
  have h12' : ∀ (a : Nat) (A : Node), y.nodes[a]? = some A → A.s.ctIn = [] := fun a A hA =>
    Classical.byContradiction fun hne => h12 ⟨a, A, hA, hne⟩
  -- 13. an inside request waits at an engine that is not paused
  by_cases h13 : ∃ (a : Nat) (A : Node), y.nodes[a]? = some A ∧ A.s.pause = false ∧ A.s.io.reqIn ≠ []
  · obtain ⟨a, A, hA, hp, hne⟩ := h13
    refine ⟨.tick a, mem_fairList_node (lt_of_getElem? hA) (by simp), rfl, fun o ho => ?_⟩
    rw [show o = .tick a from ho]
    refine tick_en hA hc (hnf a A hA) fun hst => ?_
    rcases hst.l1 hp with h | h
    · exact hne h
    · rw [h11' a A hA] at h; exact h (hc.ok a A hA).1
  have h13' : ∀ (a : Nat) (A : Node), y.nodes[a]? = some A → A.s.pause = false → A.s.io.reqIn = [] := fun a A hA hp =>
    Classical.byContradiction fun hne => h13 ⟨a, A, hA, hp, hne⟩
  -- now every table is empty (conservation law)
  have hoitx : ∀ (b : Nat) (B : Node), y.nodes[b]? = some B → B.s.oi.tx = [] := by
    intro b B hB
    have hz : ∀ t, (txF B.s.oi).count t = 0 := by
      intro t
      have := (hs.node b B hB).l2 t
      simp only [dnF, h8' b B hB, h6' b B hB, h7' b B hB, List.map_nil, List.append_nil, List.count_nil] at this
      exact this
    exact List.map_eq_nil_iff.mp (eq_nil_of_count hz)
  have hnames : ∀ (b : Nat) (B : Node), y.nodes[b]? = some B → B.names = [] := by
    intro b B hB
    have hz : ∀ p, (nameKA B).count p = 0 := by
      intro p
      have := (hs.node b B hB).nm p
      simp only [upKA, h9' b B hB, hoitx b B hB, h5' b B hB, List.map_nil, List.append_nil, List.count_nil] at this
      exact this
    exact List.map_eq_nil_iff.mp (eq_nil_of_count hz)
  have hfm : y.nodes.flatMap nameToks = [] := by
    rw [List.flatMap_eq_nil_iff]
    intro B hB
    obtain ⟨b, hb, rfl⟩ := List.mem_iff_getElem.mp hB
    have := hnames b _ (List.getElem?_eq_getElem hb)
    simp only [nameToks, this, List.map_nil]
  have hiotx : ∀ (a : Nat) (A : Node), y.nodes[a]? = some A → A.s.io.tx = [] := by
    intro a A hA
    have hz : ∀ t, (txF A.s.io).count t = 0 := by
      intro t
      have := hs.g a A hA t
      simp only [dnF, h11' a A hA, h3' a A hA, h10, h4, hfm, List.map_nil, List.append_nil, List.count_nil] at this
      exact this
    exact List.map_eq_nil_iff.mp (eq_nil_of_count hz)
  -- 14. a drain waits for its acknowledgement
  by_cases h14 : ∃ (a : Nat) (A : Node), y.nodes[a]? = some A ∧ A.s.draining = true
  · obtain ⟨a, A, hA, hd⟩ := h14
    refine ⟨.tick a, mem_fairList_node (lt_of_getElem? hA) (by simp), rfl, fun o ho => ?_⟩
    rw [show o = .tick a from ho]
    refine tick_en hA hc (hnf a A hA) fun hst => ?_
    refine hst.drain hd ⟨hiotx a A hA, hoitx a A hA, ?_⟩
    rw [h2' a A hA]; exact (hc.ok a A hA).1
  -- otherwise the system is settled
  refine absurd ⟨h10, h4, fun b B hB => ?_⟩ hns
  refine ⟨h7' b B hB, h11' b B hB, h3' b B hB, h1' b B hB, hiotx b B hB, h9' b B hB, h8' b B hB,
    h6' b B hB, h5' b B hB, hoitx b B hB, h12' b B hB, h2' b B hB, ?_, h13' b B hB⟩
  cases hd : B.s.draining with
  | false => rfl
  | true => exact absurd ⟨b, B, hB, hd⟩ h14

/-! ### schedules -/

/-- the state after `t` moves of the infinite schedule `σ` -/
def sysAt (y0 : Sys) (σ : Nat → SOp) : Nat → Sys
  | 0 => y0
  | t + 1 => sstep (sysAt y0 σ t) (σ t)

theorem sysAt_length (y0 : Sys) (σ : Nat → SOp) : ∀ t, (sysAt y0 σ t).nodes.length = y0.nodes.length
  | 0 => rfl
  | t + 1 => by rw [sysAt, sstep_length, sysAt_length y0 σ t]

/-- what the liveness proof needs of every state on the way -/
structure Good (y : Sys) : Prop where
  inv : SInv y
  valid : SValid y
  cfg : CfgOk y
  nofault : ∀ (b : Nat) (B : Node), y.nodes[b]? = some B → faulted B.s = false

/-- if nothing changes until the helpful move comes, the helpful move changes it; so the measure
    drops by the time the helpful move is scheduled -/
theorem measure_drops (y0 : Sys) (σ : Nat → SOp) (hq : ∀ t, isInput (σ t) = false)
    (o0 : SOp) :
    ∀ d t, sameKind (σ (t + d)) o0 → (∀ o, sameKind o o0 → En (sysAt y0 σ t) o) →
      ∃ t', t ≤ t' ∧ sysMu (sysAt y0 σ (t' + 1)) < sysMu (sysAt y0 σ t) := by
  intro d
  induction d with
  | zero =>
    intro t hk hen
    exact ⟨t, Nat.le_refl _, en_lt _ _ (hen _ hk)⟩
  | succ d ih =>
    intro t hk hen
    rcases step_mono (sysAt y0 σ t) (σ t) (hq t) with he | hlt
    · have hst : sysAt y0 σ (t + 1) = sysAt y0 σ t := he
      have hk' : sameKind (σ (t + 1 + d)) o0 := by
        have : t + 1 + d = t + (d + 1) := by omega
        rw [this]; exact hk
      obtain ⟨t', h1, h2⟩ := ih (t + 1) hk' (by rw [hst]; exact hen)
      exact ⟨t', by omega, by rw [hst] at h2; exact h2⟩
    · exact ⟨t, Nat.le_refl _, hlt⟩

/-- **liveness core.** On every fair schedule without new requests and control commands, whose
    states are `Good`, the system settles. -/
theorem eventually_settled (y0 : Sys) (σ : Nat → SOp) (hq : ∀ t, isInput (σ t) = false)
    (hfair : ∀ o0 ∈ fairList y0.nodes.length, ∀ t, ∃ t', t ≤ t' ∧ sameKind (σ t') o0)
    (hg : ∀ t, Good (sysAt y0 σ t)) :
    ∀ m t, sysMu (sysAt y0 σ t) ≤ m → ∃ t', t ≤ t' ∧ Settled (sysAt y0 σ t') := by
  intro m
  induction m using Nat.strongRecOn with
  | _ m ih =>
    intro t hm
    by_cases hset : Settled (sysAt y0 σ t)
    · exact ⟨t, Nat.le_refl _, hset⟩
    · have g := hg t
      obtain ⟨o0, hmem, _, hen⟩ := exists_helpful _ g.inv g.valid g.cfg g.nofault hset
      rw [sysAt_length] at hmem
      obtain ⟨t1, ht1, hk⟩ := hfair o0 hmem t
      have hk' : sameKind (σ (t + (t1 - t))) o0 := by
        have : t + (t1 - t) = t1 := by omega
        rw [this]; exact hk
      obtain ⟨t2, h1, h2⟩ := measure_drops y0 σ hq o0 (t1 - t) t hk' hen
      obtain ⟨t3, h3, h4⟩ := ih (sysMu (sysAt y0 σ (t2 + 1))) (by omega) (t2 + 1) (Nat.le_refl _)
      exact ⟨t3, by omega, h4⟩

end C18
