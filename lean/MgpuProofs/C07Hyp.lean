import MgpuProofs.C07DispFresh
set_option linter.unusedVariables false
set_option linter.unusedSimpArgs false
/-! # C07 helper lemmas about the HYPOTHESES of the property theorems: which follow from the
reachable-state invariants (sizes of the emulator's files; `Alloc`/`Clean`; agreement of the two modes
from the dispatch on) and kernel-checked witnesses for those that cannot be dropped -/
namespace C07
open Gen

/-- `WriteReg` of the emulator never changes the size of a register file — for ANY register, count,
    lane and data, panicking or not -/
theorem emu_writeReg_sizes (e : EmuRF) (r rc lane : Nat) (d : List UInt8) :
    (e.writeReg r rc lane d).1.sfile.size = e.sfile.size ∧ (e.writeReg r rc lane d).1.vfile.size = e.vfile.size := by
  unfold EmuRF.writeReg
  by_cases cS : isSReg r = true
  · simp only [cS, if_true]
    split <;> simp [size_wr]
  by_cases cV : isVReg r = true
  · simp only [cS, cV, if_true, if_false, Bool.false_eq_true]
    split <;> simp [size_wr]
  simp only [cS, cV, if_false, Bool.false_eq_true]
  by_cases a1 : r = R_SCC
  · subst a1; cases d <;> simp [R_SCC]
  by_cases a2 : r = R_VCC
  · subst a2; simp [R_SCC, R_VCC, R_VCCLO, R_VCCHI, R_EXEC, R_EXECLO, R_EXECHI, R_M0]
    repeat' split
    all_goals simp_all
  by_cases a3 : r = R_VCCLO
  · subst a3; simp [R_SCC, R_VCC, R_VCCLO, R_VCCHI, R_EXEC, R_EXECLO, R_EXECHI, R_M0]
    repeat' split
    all_goals simp_all
  by_cases a4 : r = R_VCCHI
  · subst a4; simp [R_SCC, R_VCC, R_VCCLO, R_VCCHI, R_EXEC, R_EXECLO, R_EXECHI, R_M0]
    repeat' split
    all_goals simp_all
  by_cases a5 : r = R_EXEC
  · subst a5; simp [R_SCC, R_VCC, R_VCCLO, R_VCCHI, R_EXEC, R_EXECLO, R_EXECHI, R_M0]
    repeat' split
    all_goals simp_all
  by_cases a6 : r = R_EXECLO
  · subst a6; simp [R_SCC, R_VCC, R_VCCLO, R_VCCHI, R_EXEC, R_EXECLO, R_EXECHI, R_M0]
    repeat' split
    all_goals simp_all
  by_cases a7 : r = R_EXECHI
  · subst a7; simp [R_SCC, R_VCC, R_VCCLO, R_VCCHI, R_EXEC, R_EXECLO, R_EXECHI, R_M0]
    repeat' split
    all_goals simp_all
  by_cases a8 : r = R_M0
  · subst a8; simp [R_SCC, R_VCC, R_VCCLO, R_VCCHI, R_EXEC, R_EXECLO, R_EXECHI, R_M0]
    repeat' split
    all_goals simp_all
  simp [a1, a2, a3, a4, a5, a6, a7, a8]

theorem emu_writeReg_sized (e : EmuRF) (r rc lane : Nat) (d : List UInt8) (hs : e.Sized) :
    (e.writeReg r rc lane d).1.Sized := by
  obtain ⟨a, b⟩ := emu_writeReg_sizes e r rc lane d
  exact ⟨by rw [a]; exact hs.1, by rw [b]; exact hs.2⟩

theorem putAll_size : ∀ (l : List (Nat × Nat × Nat)) (f : File), (EmuRF.putAll f l).1.size = f.size := by
  intro l
  induction l with
  | nil => intro f; rfl
  | cons x l ih =>
    intro f
    obtain ⟨i, rc, v⟩ := x
    simp only [EmuRF.putAll]
    split
    · rw [ih, size_wr]
    · rfl

theorem writeAllV_sized : ∀ (l : List (Nat × Nat × Nat × List UInt8)) (e : EmuRF), e.Sized → (e.writeAllV l).1.Sized := by
  intro l
  induction l with
  | nil => intro e hs; exact hs
  | cons x l ih =>
    intro e hs
    obtain ⟨r, rc, lane, d⟩ := x
    have h1 := emu_writeReg_sized e r rc lane d hs
    simp only [EmuRF.writeAllV]
    rcases hw : e.writeReg r rc lane d with ⟨e', _ | f⟩
    · rw [hw] at h1; exact ih e' h1
    · rw [hw] at h1; exact h1

theorem emu_initWfRegs_sized (e : EmuRF) (d : DispInfo) (hs : e.Sized) : (e.initWfRegs d).1.Sized := by
  have h1 : ({ e with exec := d.exec, sfile := (EmuRF.putAll e.sfile (sgprInits d)).1 } : EmuRF).Sized :=
    ⟨by show (EmuRF.putAll e.sfile (sgprInits d)).1.size = 408; rw [putAll_size]; exact hs.1, hs.2⟩
  simp only [EmuRF.initWfRegs]
  split
  · exact h1
  · exact writeAllV_sized _ _ h1

end C07
