import MgpuProofs.C16World
/-! # C16 — `TInv`: what the translator waits for is on its way, and is not stale

For fixed contents of the translation service (`envT`), of the memory (`envM`) and fixed sets of
stale lookups / stale forwarded requests (`sT`, `sM`: those from before the last flush), the three
pipeline stages keep: every transaction still waiting for its translation has its lookup in the
translation port's outgoing buffer, in the service, or its reply in the incoming buffer; likewise
for every in-flight request; no held transaction / in-flight record carries a stale id. -/
namespace C16

structure TInv (envT : List TReq) (envM : List BReq) (sT : List TReq) (sM : List FwdLog) (s : St) : Prop where
  pt_ : ∀ t ∈ s.txs, t.done = false →
    t.treq ∈ s.trOut ∨ t.treq ∈ envT ∨ ∃ r ∈ s.trIn, r.rspTo = t.treq.tid
  pm : ∀ f ∈ s.infl, f.breq ∈ s.botOut ∨ f.breq ∈ envM ∨ ∃ r ∈ s.botIn, r.rspTo = f.breq.bid
  fT : ∀ t ∈ s.txs, ∀ q ∈ sT, q.tid ≠ t.treq.tid
  fM : ∀ f ∈ s.infl, ∀ l ∈ sM, l.breq.bid ≠ f.breq.bid
  sT : ∀ q ∈ sT, q.tid < s.nextT
  sM : ∀ l ∈ sM, l.breq.bid < s.nextB

variable {envT : List TReq} {envM : List BReq} {sT : List TReq} {sM : List FwdLog}

theorem translate_tinv (c : Cfg) (s : St) (h : TInv envT envM sT sM s) :
    TInv envT envM sT sM (translate c s).1 := by
  unfold translate
  split
  · exact h
  · rename_i a rest htop
    split
    · rename_i txs' hco
      refine ⟨?_, h.pm, ?_, h.fM, h.sT, h.sM⟩
      · intro t' ht' hd
        rcases coalesce_mem _ _ _ _ hco t' ht' with h1 | ⟨t, ht, _, rfl⟩
        · exact h.pt_ t' h1 hd
        · exact h.pt_ t ht hd
      · intro t' ht'
        rcases coalesce_mem _ _ _ _ hco t' ht' with h1 | ⟨t, ht, _, rfl⟩
        · exact h.fT t' h1
        · exact h.fT t ht
    · split
      · refine ⟨?_, h.pm, ?_, h.fM, ?_, h.sM⟩
        · intro t' ht' hd
          simp only [List.mem_append, List.mem_singleton] at ht'
          rcases ht' with h1 | rfl
          · rcases h.pt_ t' h1 hd with h2 | h2 | h2
            · exact Or.inl (List.mem_append_left _ h2)
            · exact Or.inr (Or.inl h2)
            · exact Or.inr (Or.inr h2)
          · exact Or.inl (by simp)
        · intro t' ht' q hq
          simp only [List.mem_append, List.mem_singleton] at ht'
          rcases ht' with h1 | rfl
          · exact h.fT t' h1 q hq
          · have := h.sT q hq
            show q.tid ≠ s.nextT
            omega
        · intro q hq
          have := h.sT q hq
          show q.tid < s.nextT + 1
          omega
      · exact h

theorem emit_tinv (c : Cfg) (s : St) (a : Acc) (p : Nat) (txs' : List Tx) (h : TInv envT envM sT sM s)
    (hpt : ∀ t ∈ txs', t.done = false →
      t.treq ∈ s.trOut ∨ t.treq ∈ envT ∨ ∃ r ∈ s.trIn, r.rspTo = t.treq.tid)
    (hfT : ∀ t ∈ txs', ∀ q ∈ sT, q.tid ≠ t.treq.tid) :
    TInv envT envM sT sM (emit c s a p txs') := by
  refine ⟨hpt, ?_, hfT, ?_, h.sT, ?_⟩
  · intro f hf
    simp only [emit, List.mem_append, List.mem_singleton] at hf
    rcases hf with h1 | rfl
    · rcases h.pm f h1 with h2 | h2 | h2
      · exact Or.inl (List.mem_append_left _ h2)
      · exact Or.inr (Or.inl h2)
      · exact Or.inr (Or.inr h2)
    · exact Or.inl (by simp [emit])
  · intro f hf l hl
    simp only [emit, List.mem_append, List.mem_singleton] at hf
    rcases hf with h1 | rfl
    · exact h.fM f h1 l hl
    · have := h.sM l hl
      show l.breq.bid ≠ s.nextB
      omega
  · intro l hl
    have := h.sM l hl
    show l.breq.bid < s.nextB + 1
    omega

/-- the reply at the head of the translation port is consumed; no waiting transaction needs it -/
theorem TInv.dropT {s : St} (h : TInv envT envM sT sM s) (r : TRsp) (rest : List TRsp)
    (htr : s.trIn = r :: rest) (hne : ∀ t ∈ s.txs, t.done = false → t.treq.tid ≠ r.rspTo)
    (ev' : List String) : TInv envT envM sT sM { s with trIn := rest, ev := ev' } := by
  refine ⟨?_, h.pm, h.fT, h.fM, h.sT, h.sM⟩
  intro t ht hd
  rcases h.pt_ t ht hd with h2 | h2 | ⟨r', hr', he⟩
  · exact Or.inl h2
  · exact Or.inr (Or.inl h2)
  · rw [htr] at hr'
    simp only [List.mem_cons] at hr'
    rcases hr' with rfl | hr'
    · exact absurd he.symm (hne t ht hd)
    · exact Or.inr (Or.inr ⟨r', hr', he⟩)

/-- the response at the head of the bottom port is consumed; no in-flight record needs it -/
theorem TInv.dropM {s : St} (h : TInv envT envM sT sM s) (r : BRsp) (rest : List BRsp)
    (hb : s.botIn = r :: rest) (hne : ∀ f ∈ s.infl, f.breq.bid ≠ r.rspTo)
    (ev' : List String) : TInv envT envM sT sM { s with botIn := rest, ev := ev' } := by
  refine ⟨h.pt_, ?_, h.fT, h.fM, h.sT, h.sM⟩
  intro f hf
  rcases h.pm f hf with h2 | h2 | ⟨r', hr', he⟩
  · exact Or.inl h2
  · exact Or.inr (Or.inl h2)
  · rw [hb] at hr'
    simp only [List.mem_cons] at hr'
    rcases hr' with rfl | hr'
    · exact absurd he.symm (hne f hf)
    · exact Or.inr (Or.inr ⟨r', hr', he⟩)

theorem parseTranslation_tinv (c : Cfg) (s : St) (h : TInv envT envM sT sM s) (hu : UInv s) :
    TInv envT envM sT sM (parseTranslation c s).1 := by
  unfold parseTranslation
  split
  · rename_i t txs' hp
    obtain ⟨ht, hpt, h3, _⟩ := popFirst_spec _ _ _ _ hp
    have hdone : t.done = true := by simp [isDrainable] at hpt; exact hpt.1
    split
    · rename_i a rs pg hr _
      split
      · apply emit_tinv c s a pg txs' h
        · intro t' ht' hd
          rcases h3 t' ht' with h1 | ⟨rfl, _⟩
          · exact h.pt_ t' h1 hd
          · simp [hdone] at hd
        · intro t' ht'
          rcases h3 t' ht' with h1 | ⟨rfl, _⟩
          · exact h.fT t' h1
          · exact h.fT t ht
      · exact h
    · exact h
  · split
    · exact h
    · rename_i r rest htr
      have hs1 : TInv envT envM sT sM { s with txs := markFirst (hasTid r.rspTo) r.paddr s.txs } := by
        refine ⟨?_, h.pm, ?_, h.fM, h.sT, h.sM⟩
        · intro t' ht' hd
          rcases markFirst_mem _ _ _ t' ht' with h1 | ⟨t, _, _, rfl⟩
          · exact h.pt_ t' h1 hd
          · simp at hd
        · intro t' ht'
          rcases markFirst_mem _ _ _ t' ht' with h1 | ⟨t, ht, _, rfl⟩
          · exact h.fT t' h1
          · exact h.fT t ht
      split
      · rename_i hnone
        exact h.dropT r rest htr (fun t ht _ => popFirst_markFirst_none _ _ _ hnone t ht) _
      · rename_i t txs' hp
        obtain ⟨ht, hpt, h3, _⟩ := popFirst_spec _ _ _ _ hp
        have hdone := popFirst_markFirst_done _ _ _ _ _ hp
        have htid : t.treq.tid = r.rspTo := by simpa [hasTid] using hpt
        have hnd : (txTids (markFirst (hasTid r.rspTo) r.paddr s.txs)).Nodup := by
          rw [markFirst_tids]; exact hu.tnd
        have hoth := popFirst_others _ _ _ _ hnd hp
        split
        · exact hs1
        · rename_i a rs hreq
          split
          · have hem := emit_tinv c { s with txs := markFirst (hasTid r.rspTo) r.paddr s.txs } a r.paddr txs' hs1
              (by
                intro t' ht' hd
                rcases h3 t' ht' with h1 | ⟨rfl, _⟩
                · exact hs1.pt_ t' h1 hd
                · simp [hdone] at hd)
              (by
                intro t' ht'
                rcases h3 t' ht' with h1 | ⟨rfl, _⟩
                · exact hs1.fT t' h1
                · exact hs1.fT t ht)
            exact hem.dropT r rest htr (by
              intro t' ht' hd
              rcases hoth t' ht' with rfl | ⟨_, h2⟩
              · simp [hdone] at hd
              · rw [← htid]; exact h2) _
          · exact hs1

theorem respond_tinv (c : Cfg) (s : St) (h : TInv envT envM sT sM s) (hu : UInv s) :
    TInv envT envM sT sM (respond c s).1 := by
  unfold respond
  split
  · exact h
  · rename_i r rest hb
    split
    · rename_i hnone
      exact h.dropM r rest hb (extract_none _ _ hnone) _
    · rename_i f infl' hx
      obtain ⟨_, _, hsub, _⟩ := extract_spec _ _ _ _ hx
      have hoth := extract_others _ _ _ _ hu.fnd hx
      split
      · refine ⟨h.pt_, ?_, h.fT, fun g hg => h.fM g (hsub g hg), h.sT, h.sM⟩
        intro g hg
        rcases h.pm g (hsub g hg) with h2 | h2 | ⟨r', hr', he⟩
        · exact Or.inl h2
        · exact Or.inr (Or.inl h2)
        · rw [hb] at hr'
          simp only [List.mem_cons] at hr'
          rcases hr' with rfl | hr'
          · exact absurd he.symm (hoth g hg)
          · exact Or.inr (Or.inr ⟨r', hr', he⟩)
      · exact h

/-- the pipeline part of a tick keeps `TInv` (together with `UInv`, which it needs) -/
theorem pipe_tinv (c : Cfg) (s : St) (h : TInv envT envM sT sM s) (hu : UInv s) :
    TInv envT envM sT sM (pipe c s).1 ∧ UInv (pipe c s).1 :=
  pipe_pres2 (P := fun s => TInv envT envM sT sM s ∧ UInv s) c
    (fun s hh _ => ⟨respond_tinv c s hh.1 hh.2, respond_uinv c s hh.2⟩)
    (fun s hh => ⟨parseTranslation_tinv c s hh.1 hh.2, parseTranslation_uinv c s hh.2⟩)
    (fun s hh _ => ⟨translate_tinv c s hh.1, translate_uinv c s hh.2⟩) s ⟨h, hu⟩

end C16
