import MgpuModel.C13
namespace C13
end C13
