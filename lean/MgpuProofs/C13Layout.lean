import MgpuModel.C13Core
/-! Read-after-render lemmas for the two metadata layouts of property C13. -/
namespace C13

/-! ## kernel descriptor (64 bytes) -/

structure KdInRange (f : KdFields) : Prop where
  lds : f.lds < 4294967296
  priv : f.priv < 4294967296
  kernarg : f.kernarg < 4294967296
  entry : f.entry < 18446744073709551616
  reserved40 : f.reserved40 < 4294967296
  rsrc3 : f.rsrc3 < 4294967296
  rsrc1 : f.rsrc1 < 4294967296
  rsrc2 : f.rsrc2 < 4294967296

macro "read_kd" : tactic => `(tactic|
  (simp only [renderKd, le32, le16, le64, List.cons_append, List.nil_append,
     u64, u32, u16, byteAt, List.getD_cons_succ, List.getD_cons_zero, UInt8.toNat_ofNat']; omega))

theorem kd_u32_0 (f : KdFields) (h : KdInRange f) : u32 (renderKd f) 0 = f.lds := by
  have := h.lds; read_kd
theorem kd_u32_4 (f : KdFields) (h : KdInRange f) : u32 (renderKd f) 4 = f.priv := by
  have := h.priv; read_kd
theorem kd_u32_8 (f : KdFields) (h : KdInRange f) : u32 (renderKd f) 8 = f.kernarg := by
  have := h.kernarg; read_kd
theorem kd_u64_16 (f : KdFields) (h : KdInRange f) : u64 (renderKd f) 16 = f.entry := by
  have := h.entry; read_kd
theorem kd_u32_40 (f : KdFields) (h : KdInRange f) : u32 (renderKd f) 40 = f.reserved40 := by
  have := h.reserved40; read_kd
theorem kd_u32_44 (f : KdFields) (h : KdInRange f) : u32 (renderKd f) 44 = f.rsrc3 := by
  have := h.rsrc3; read_kd
theorem kd_u32_48 (f : KdFields) (h : KdInRange f) : u32 (renderKd f) 48 = f.rsrc1 := by
  have := h.rsrc1; read_kd
theorem kd_u32_52 (f : KdFields) (h : KdInRange f) : u32 (renderKd f) 52 = f.rsrc2 := by
  have := h.rsrc2; read_kd

theorem renderKd_length (f : KdFields) : (renderKd f).length = 64 := by
  simp [renderKd, le32, le16, le64]

/-- what the (repaired) loader hands out for a descriptor laid out per the ABI -/
def kdLoaded (f : KdFields) : Meta :=
  { lds := f.lds
    priv := f.priv
    kernarg := f.kernarg
    entry := f.entry
    rsrc3 := f.rsrc3
    rsrc1 := f.rsrc1
    rsrc2 := (fixRsrc2 (BitVec.ofNat 32 f.rsrc2) (decide (f.kernarg > 0))).toNat
    wiVgpr := (f.rsrc1 % 64 + 1) * 4
    wfSgpr := (f.rsrc1 / 64 % 16 + 1) * 8
    enKernargPtr := decide (f.kernarg > 0) }

theorem parse_renderKd (f : KdFields) (h : KdInRange f) :
    parseV5KernelDescriptor (renderKd f) = kdLoaded f := by
  unfold parseV5KernelDescriptor kdLoaded
  simp only [kd_u32_0 f h, kd_u32_4 f h, kd_u32_8 f h, kd_u64_16 f h, kd_u32_44 f h, kd_u32_48 f h, kd_u32_52 f h,
    extractBits, Meta.mk.injEq, true_and]
  refine ⟨?_, ?_⟩ <;> omega

/-- what the loader handed out before the repair (every rsrc word one slot early) -/
def kdLoadedOld (f : KdFields) : Meta :=
  { lds := f.lds
    priv := f.priv
    kernarg := f.kernarg
    entry := f.entry
    rsrc3 := f.reserved40
    rsrc1 := f.rsrc3
    rsrc2 := (fixRsrc2 (BitVec.ofNat 32 f.rsrc1) (decide (f.kernarg > 0))).toNat
    wiVgpr := (f.rsrc3 % 64 + 1) * 4
    wfSgpr := (f.rsrc3 / 64 % 16 + 1) * 8
    enKernargPtr := decide (f.kernarg > 0) }

theorem parseOld_renderKd (f : KdFields) (h : KdInRange f) :
    parseV5KernelDescriptorOld (renderKd f) = kdLoadedOld f := by
  unfold parseV5KernelDescriptorOld kdLoadedOld
  simp only [kd_u32_0 f h, kd_u32_4 f h, kd_u32_8 f h, kd_u64_16 f h, kd_u32_40 f h, kd_u32_44 f h, kd_u32_48 f h,
    extractBits, Meta.mk.injEq, true_and]
  refine ⟨?_, ?_⟩ <;> omega

/-! ## V2/V3 header (256 bytes) -/

structure HdrInRange (m : Meta) : Prop where
  cvMajor : m.cvMajor < 4294967296
  cvMinor : m.cvMinor < 4294967296
  machineKind : m.machineKind < 65536
  mvMajor : m.mvMajor < 65536
  mvMinor : m.mvMinor < 65536
  mvStepping : m.mvStepping < 65536
  entry : m.entry < 18446744073709551616
  rsrc1 : m.rsrc1 < 4294967296
  rsrc2 : m.rsrc2 < 4294967296
  rsrc3 : m.rsrc3 = 0
  priv : m.priv < 4294967296
  lds : m.lds < 4294967296
  kernarg : m.kernarg < 18446744073709551616
  wfSgpr : m.wfSgpr < 65536
  wiVgpr : m.wiVgpr < 65536

macro "read_hdr" : tactic => `(tactic|
  (unfold renderHeader le64 le32 le16
   simp only [List.cons_append, List.nil_append,
     u64, u32, u16, byteAt, List.getD_cons_succ, List.getD_cons_zero, UInt8.toNat_ofNat']; omega))

section
variable (m : Meta) (s24 s32 s40 fhi gds bar : Nat) (tail : Bytes)

theorem hdr_u32_0 (h : HdrInRange m) : u32 (renderHeader m s24 s32 s40 fhi gds bar tail) 0 = m.cvMajor := by
  have := h.cvMajor; read_hdr
theorem hdr_u32_4 (h : HdrInRange m) : u32 (renderHeader m s24 s32 s40 fhi gds bar tail) 4 = m.cvMinor := by
  have := h.cvMinor; read_hdr
theorem hdr_u16_8 (h : HdrInRange m) : u16 (renderHeader m s24 s32 s40 fhi gds bar tail) 8 = m.machineKind := by
  have := h.machineKind; read_hdr
theorem hdr_u16_10 (h : HdrInRange m) : u16 (renderHeader m s24 s32 s40 fhi gds bar tail) 10 = m.mvMajor := by
  have := h.mvMajor; read_hdr
theorem hdr_u16_12 (h : HdrInRange m) : u16 (renderHeader m s24 s32 s40 fhi gds bar tail) 12 = m.mvMinor := by
  have := h.mvMinor; read_hdr
theorem hdr_u16_14 (h : HdrInRange m) : u16 (renderHeader m s24 s32 s40 fhi gds bar tail) 14 = m.mvStepping := by
  have := h.mvStepping; read_hdr
theorem hdr_u64_16 (h : HdrInRange m) : u64 (renderHeader m s24 s32 s40 fhi gds bar tail) 16 = m.entry := by
  have := h.entry; read_hdr
theorem hdr_u32_48 (h : HdrInRange m) : u32 (renderHeader m s24 s32 s40 fhi gds bar tail) 48 = m.rsrc1 := by
  have := h.rsrc1; read_hdr
theorem hdr_u32_52 (h : HdrInRange m) : u32 (renderHeader m s24 s32 s40 fhi gds bar tail) 52 = m.rsrc2 := by
  have := h.rsrc2; read_hdr
theorem hdr_u32_56 (hf : flagsOf m + 1024 * fhi < 4294967296) :
    u32 (renderHeader m s24 s32 s40 fhi gds bar tail) 56 = flagsOf m + 1024 * fhi := by
  read_hdr
theorem hdr_u32_60 (h : HdrInRange m) : u32 (renderHeader m s24 s32 s40 fhi gds bar tail) 60 = m.priv := by
  have := h.priv; read_hdr
theorem hdr_u32_64 (h : HdrInRange m) : u32 (renderHeader m s24 s32 s40 fhi gds bar tail) 64 = m.lds := by
  have := h.lds; read_hdr
theorem hdr_u64_72 (h : HdrInRange m) : u64 (renderHeader m s24 s32 s40 fhi gds bar tail) 72 = m.kernarg := by
  have := h.kernarg; read_hdr
theorem hdr_u16_84 (h : HdrInRange m) : u16 (renderHeader m s24 s32 s40 fhi gds bar tail) 84 = m.wfSgpr := by
  have := h.wfSgpr; read_hdr
theorem hdr_u16_86 (h : HdrInRange m) : u16 (renderHeader m s24 s32 s40 fhi gds bar tail) 86 = m.wiVgpr := by
  have := h.wiVgpr; read_hdr

theorem renderHeader_length : (renderHeader m s24 s32 s40 fhi gds bar tail).length = 88 + tail.length := by
  unfold renderHeader le64 le32 le16
  simp only [List.cons_append, List.nil_append, List.length_cons]
  omega

theorem renderHeader_drop (pad code : Bytes) (hp : pad.length = 168) :
    (renderHeader m s24 s32 s40 fhi gds bar (pad ++ code)).drop 256 = code := by
  unfold renderHeader le64 le32 le16
  simp only [List.cons_append, List.nil_append, List.drop_succ_cons]
  rw [List.drop_append, show 168 - pad.length = 0 by omega, List.drop_eq_nil_of_le (by omega)]
  rfl
end

theorem testBit_flags (b0 b1 b2 b3 b4 b5 b6 b7 b8 b9 : Bool) (hi : Nat) :
    let n := b0.toNat + 2 * b1.toNat + 4 * b2.toNat + 8 * b3.toNat + 16 * b4.toNat + 32 * b5.toNat + 64 * b6.toNat +
      128 * b7.toNat + 256 * b8.toNat + 512 * b9.toNat + 1024 * hi
    testBit n 0 = b0 ∧ testBit n 1 = b1 ∧ testBit n 2 = b2 ∧ testBit n 3 = b3 ∧ testBit n 4 = b4 ∧
    testBit n 5 = b5 ∧ testBit n 6 = b6 ∧ testBit n 7 = b7 ∧ testBit n 8 = b8 ∧ testBit n 9 = b9 := by
  intro n
  have e : ∀ (b : Bool) (x : Nat), x % 2 = b.toNat → (x % 2 == 1) = b := by
    intro b x hx; cases b <;> simp_all
  have h0 := Bool.toNat_le b0; have h1 := Bool.toNat_le b1; have h2 := Bool.toNat_le b2
  have h3 := Bool.toNat_le b3; have h4 := Bool.toNat_le b4; have h5 := Bool.toNat_le b5
  have h6 := Bool.toNat_le b6; have h7 := Bool.toNat_le b7; have h8 := Bool.toNat_le b8
  have h9 := Bool.toNat_le b9
  unfold testBit
  refine ⟨e _ _ ?_, e _ _ ?_, e _ _ ?_, e _ _ ?_, e _ _ ?_, e _ _ ?_, e _ _ ?_, e _ _ ?_, e _ _ ?_, e _ _ ?_⟩ <;>
    (simp only [n]; omega)

theorem parse_renderHeader (m : Meta) (s24 s32 s40 fhi gds bar : Nat) (tail : Bytes)
    (h : HdrInRange m) (hf : fhi < 4194304) :
    parseV2V3Header (renderHeader m s24 s32 s40 fhi gds bar tail) = m := by
  have hfl : flagsOf m + 1024 * fhi < 4294967296 := by
    unfold flagsOf
    have h0 := Bool.toNat_le m.enPrivSegBuf; have h1 := Bool.toNat_le m.enDispatchPtr
    have h2 := Bool.toNat_le m.enQueuePtr; have h3 := Bool.toNat_le m.enKernargPtr
    have h4 := Bool.toNat_le m.enDispatchID; have h5 := Bool.toNat_le m.enFlatScratch
    have h6 := Bool.toNat_le m.enPrivSegSize; have h7 := Bool.toNat_le m.enGridX
    have h8 := Bool.toNat_le m.enGridY; have h9 := Bool.toNat_le m.enGridZ
    omega
  have tb := testBit_flags m.enPrivSegBuf m.enDispatchPtr m.enQueuePtr m.enKernargPtr m.enDispatchID
    m.enFlatScratch m.enPrivSegSize m.enGridX m.enGridY m.enGridZ fhi
  simp only at tb
  have h3 := h.rsrc3
  unfold parseV2V3Header
  simp only [hdr_u32_0 m s24 s32 s40 fhi gds bar tail h, hdr_u32_4 m s24 s32 s40 fhi gds bar tail h,
    hdr_u16_8 m s24 s32 s40 fhi gds bar tail h, hdr_u16_10 m s24 s32 s40 fhi gds bar tail h,
    hdr_u16_12 m s24 s32 s40 fhi gds bar tail h, hdr_u16_14 m s24 s32 s40 fhi gds bar tail h,
    hdr_u64_16 m s24 s32 s40 fhi gds bar tail h, hdr_u32_48 m s24 s32 s40 fhi gds bar tail h,
    hdr_u32_52 m s24 s32 s40 fhi gds bar tail h, hdr_u32_56 m s24 s32 s40 fhi gds bar tail hfl,
    hdr_u32_60 m s24 s32 s40 fhi gds bar tail h, hdr_u32_64 m s24 s32 s40 fhi gds bar tail h,
    hdr_u64_72 m s24 s32 s40 fhi gds bar tail h, hdr_u16_84 m s24 s32 s40 fhi gds bar tail h,
    hdr_u16_86 m s24 s32 s40 fhi gds bar tail h]
  unfold flagsOf
  cases m
  simp only at tb h3 ⊢
  simp only [tb, h3]

/-! ## the rsrc2 rewriting, bit by bit -/

/-- bit 0 (private-segment wave offset) is cleared, bits 7 and 8 (workgroup id X, Y) are forced -/
theorem fixRsrc2_forced (r : BitVec 32) (b : Bool) :
    (fixRsrc2 r b).getLsbD 0 = false ∧ (fixRsrc2 r b).getLsbD 7 = true ∧ (fixRsrc2 r b).getLsbD 8 = true := by
  unfold fixRsrc2
  simp only []
  split <;> split <;> simp

/-- with kernel arguments, user_sgpr_count (bits 1..5) becomes 2 -/
theorem fixRsrc2_user_sgpr (r : BitVec 32) :
    (fixRsrc2 r true).getLsbD 1 = false ∧ (fixRsrc2 r true).getLsbD 2 = true ∧ (fixRsrc2 r true).getLsbD 3 = false ∧
    (fixRsrc2 r true).getLsbD 4 = false ∧ (fixRsrc2 r true).getLsbD 5 = false := by
  unfold fixRsrc2
  simp only [↓reduceIte, Bool.false_eq_true]
  split <;> simp

/-- without kernel arguments, user_sgpr_count is kept -/
theorem fixRsrc2_user_sgpr_kept (r : BitVec 32) :
    (fixRsrc2 r false).getLsbD 1 = r.getLsbD 1 ∧ (fixRsrc2 r false).getLsbD 2 = r.getLsbD 2 ∧ (fixRsrc2 r false).getLsbD 3 = r.getLsbD 3 ∧ (fixRsrc2 r false).getLsbD 4 = r.getLsbD 4 ∧ (fixRsrc2 r false).getLsbD 5 = r.getLsbD 5 := by
  unfold fixRsrc2
  simp only [↓reduceIte, Bool.false_eq_true]
  split <;> simp

/-- every bit other than 0, 1..5, 7, 8, 11, 12 is returned as stored -/
theorem fixRsrc2_preserved (r : BitVec 32) (b : Bool) :
    (fixRsrc2 r b).getLsbD 6 = r.getLsbD 6 ∧
    (fixRsrc2 r b).getLsbD 9 = r.getLsbD 9 ∧
    (fixRsrc2 r b).getLsbD 10 = r.getLsbD 10 ∧
    (fixRsrc2 r b).getLsbD 13 = r.getLsbD 13 ∧
    (fixRsrc2 r b).getLsbD 14 = r.getLsbD 14 ∧
    (fixRsrc2 r b).getLsbD 15 = r.getLsbD 15 ∧
    (fixRsrc2 r b).getLsbD 16 = r.getLsbD 16 ∧
    (fixRsrc2 r b).getLsbD 17 = r.getLsbD 17 ∧
    (fixRsrc2 r b).getLsbD 18 = r.getLsbD 18 ∧
    (fixRsrc2 r b).getLsbD 19 = r.getLsbD 19 ∧
    (fixRsrc2 r b).getLsbD 20 = r.getLsbD 20 ∧
    (fixRsrc2 r b).getLsbD 21 = r.getLsbD 21 ∧
    (fixRsrc2 r b).getLsbD 22 = r.getLsbD 22 ∧
    (fixRsrc2 r b).getLsbD 23 = r.getLsbD 23 ∧
    (fixRsrc2 r b).getLsbD 24 = r.getLsbD 24 ∧
    (fixRsrc2 r b).getLsbD 25 = r.getLsbD 25 ∧
    (fixRsrc2 r b).getLsbD 26 = r.getLsbD 26 ∧
    (fixRsrc2 r b).getLsbD 27 = r.getLsbD 27 ∧
    (fixRsrc2 r b).getLsbD 28 = r.getLsbD 28 ∧
    (fixRsrc2 r b).getLsbD 29 = r.getLsbD 29 ∧
    (fixRsrc2 r b).getLsbD 30 = r.getLsbD 30 ∧
    (fixRsrc2 r b).getLsbD 31 = r.getLsbD 31 := by
  unfold fixRsrc2
  simp only []
  split <;> split <;> simp

end C13
