import MgpuProofs.C09Fit2
/-! # C09 — `matchWfWithSIMDs` on a CU whose VGPR masks were all free: it places `n` wavefronts
    iff `n ≤ Σ_k min(free slots of SIMD k, VGPR regions that fit SIMD k)`. -/
namespace C09

theorem slotSum_ge (f : Nat → Nat) (k : Nat) : ∀ n, k < n → f k ≤ slotSum f n := by
  intro n
  induction n with
  | zero => intro h; omega
  | succ n ih =>
    intro h
    simp only [slotSum]
    by_cases hk : k = n
    · subst hk; omega
    · have := ih (by omega); omega

theorem mstair_next (M : Mask) (a len st : Nat) (h : MStair M a) : MStair (M.nextRegion len st).2 a := by
  cases M with
  | unl _ => trivial
  | lim m => exact h

theorem slotsOn_zero (sh : Option Nat) (req : Nat) : slotsOn 0 sh req = 0 := by
  unfold slotsOn
  cases sh with
  | none => rfl
  | some n => by_cases h : req = 0 <;> simp [h]

theorem room_lt (w : List Nat) (shs : List (Option Nat)) (req : Nat) (used : List Nat) (k : Nat)
    (h : Room w shs req used k) : k < w.length := by
  by_cases hk : k < w.length
  · exact hk
  · exfalso
    unfold Room at h
    have : w.getD k 0 = 0 := by simp [List.getD_eq_getElem?_getD, List.getElem?_eq_none (by omega : w.length ≤ k)]
    rw [this, slotsOn_zero] at h
    omega

/-- a SIMD was tested and not taken -/
theorem ES_skip (w : List Nat) (shs : List (Option Nat)) (req : Nat) (st : MatchSt) (h : ES w shs req st) :
    ES w shs req { st with
      vmasks := st.vmasks.set st.next ((st.vmasks.getD st.next (.lim [])).nextRegion req stFree).2,
      next := nextSimd w.length st.next } := by
  have hn := h.next
  have hlt : st.next < st.vmasks.length := by rw [h.vlen]; exact hn
  have hget : st.vmasks.getD st.next (.lim []) = st.vmasks[st.next] := by
    simp [List.getD_eq_getElem?_getD, hlt]
  refine { h with vlen := by simp [h.vlen], next := nextSimd_lt _ _ (by omega), shape := ?_, stair := ?_ }
  · intro k hk
    simp only [List.length_set] at hk
    simp only [List.getElem_set]
    split
    · rename_i e; subst e
      rw [hget, shape_nextRegion]; exact h.shape _ hk
    · exact h.shape k hk
  · intro k hk
    simp only [List.length_set] at hk
    simp only [List.getElem_set]
    split
    · rename_i e; subst e
      rw [hget]; exact mstair_next _ _ _ _ (h.stair _ hk)
    · exact h.stair k hk

theorem getD_set_nat (l : List Nat) (k v i : Nat) (hk : k < l.length) :
    (l.set k v).getD i 0 = if i = k then v else l.getD i 0 := by
  simp only [List.getD_eq_getElem?_getD, List.getElem?_set]
  by_cases e : k = i
  · subst e; simp [hk]
  · have : ¬ i = k := fun h => e h.symm
    simp [e, this]

/-- the do-while over SIMDs for one wavefront, on a staircase state -/
theorem simdTry_empty (w : List Nat) (shs : List (Option Nat)) (req : Nat) :
    ∀ (t : Nat) (st : MatchSt), ES w shs req st →
    ((∃ j, j < t ∧ Room w shs req st.used (orbit w.length j st.next)) →
      ∃ k off st', simdTry req w t st = (some (k, off), st') ∧ ES w shs req st' ∧
        Room w shs req st.used k ∧ st'.used = st.used.set k (st.used.getD k 0 + 1)) ∧
    ((∀ j, j < t → ¬ Room w shs req st.used (orbit w.length j st.next)) →
      (simdTry req w t st).1 = none) := by
  intro t
  induction t with
  | zero =>
    intro st _
    exact ⟨fun ⟨j, hj, _⟩ => by omega, fun _ => rfl⟩
  | succ t ih =>
    intro st h
    have hn := h.next
    have hlt : st.next < st.vmasks.length := by rw [h.vlen]; exact hn
    have hult : st.next < st.used.length := by rw [h.ulen]; exact hn
    have hget : st.vmasks.getD st.next (.lim []) = st.vmasks[st.next] := by
      simp [List.getD_eq_getElem?_getD, hlt]
    have hst := h.stair st.next hlt
    have hsh := h.shape st.next hlt
    obtain ⟨s1, s2⟩ := mstair_step st.vmasks[st.next] (st.used.getD st.next 0 * req) req hst
    by_cases hroom : Room w shs req st.used st.next
    · -- the SIMD under the pointer takes the wavefront
      have hr := (room_iff _ _ _ _).1 hroom
      rw [← hsh] at hr
      obtain ⟨off, e, stair'⟩ := s1 hr.2
      have hgt : w.getD st.next 0 > st.used.getD st.next 0 := hr.1
      have hres : simdTry req w (t + 1) st = (some (st.next, off),
          { vmasks := (st.vmasks.set st.next (st.vmasks[st.next].nextRegion req stFree).2).set st.next
              ((st.vmasks[st.next].nextRegion req stFree).2.setStatus off req stToRes),
            next := nextSimd w.length st.next,
            used := st.used.set st.next (st.used.getD st.next 0 + 1) }) := by
        simp only [simdTry, hget]
        rw [e]
        simp only [hgt, if_true]
      refine ⟨fun _ => ⟨st.next, off, _, hres, ?_, hroom, rfl⟩, fun hall => absurd hroom (hall 0 (by omega))⟩
      refine { vlen := by simp [h.vlen], ulen := by simp [h.ulen], slen := h.slen,
               next := nextSimd_lt _ _ (by omega), shape := ?_, stair := ?_, le := ?_ }
      · intro k hk
        simp only [List.length_set] at hk
        simp only [List.set_set, List.getElem_set]
        split
        · rename_i e'; subst e'
          rw [shape_setStatus, shape_nextRegion]; exact hsh
        · exact h.shape k hk
      · intro k hk
        simp only [List.length_set] at hk
        simp only [List.set_set, List.getElem_set]
        rw [getD_set_nat _ _ _ _ hult]
        split
        · rename_i e'; subst e'
          simp only [if_true]
          rw [Nat.succ_mul]; exact stair'
        · rename_i e'
          have : ¬ k = st.next := fun x => e' x.symm
          simp only [this, if_false]
          exact h.stair k hk
      · intro k hk
        rw [getD_set_nat _ _ _ _ hult]
        by_cases e' : k = st.next
        · subst e'; simp only [if_true]; unfold Room at hroom; omega
        · simp only [e', if_false]; exact h.le k hk
    · -- the SIMD under the pointer is skipped
      have hskip : simdTry req w (t + 1) st = simdTry req w t { st with
          vmasks := st.vmasks.set st.next ((st.vmasks.getD st.next (.lim [])).nextRegion req stFree).2,
          next := nextSimd w.length st.next } := by
        rcases hnr : (st.vmasks.getD st.next (.lim [])).nextRegion req stFree with ⟨_ | off, M1⟩
        · simp only [simdTry, hnr]
        · simp only [simdTry, hnr]
          have hngt : ¬ (w.getD st.next 0 > st.used.getD st.next 0) := by
            intro hgt
            apply hroom
            apply (room_iff _ _ _ _).2
            refine ⟨hgt, ?_⟩
            rw [← hsh]
            apply Classical.byContradiction
            intro hnf
            have := s2 hnf
            rw [← hget, hnr] at this
            cases this
          simp only [hngt, if_false]
      have hes := ES_skip w shs req st h
      obtain ⟨i1, i2⟩ := ih _ hes
      rw [hskip]
      constructor
      · intro ⟨j, hj, hr⟩
        cases j with
        | zero => exact absurd hr hroom
        | succ j => exact i1 ⟨j, by omega, hr⟩
      · intro hall
        exact i2 (fun j hj => hall (j + 1) (by omega))

/-- **`matchWfWithSIMDs` on a staircase state**: `n` wavefronts are placed iff `n ≤ Rem` -/
theorem matchLoop_empty (w : List Nat) (shs : List (Option Nat)) (req : Nat) :
    ∀ (n : Nat) (st : MatchSt), ES w shs req st →
    (n ≤ Rem w shs req st.used → ∃ ps, (matchLoop req w n st).1 = some ps) ∧
    (Rem w shs req st.used < n → (matchLoop req w n st).1 = none) := by
  intro n
  induction n with
  | zero =>
    intro st _
    exact ⟨fun _ => ⟨[], rfl⟩, fun h => by omega⟩
  | succ n ih =>
    intro st h
    obtain ⟨t1, t2⟩ := simdTry_empty w shs req w.length st h
    by_cases hR : 0 < Rem w shs req st.used
    · obtain ⟨k, hk, hfk⟩ := slotSum_pos _ _ hR
      have hroomk : Room w shs req st.used k := by unfold Room; omega
      obtain ⟨j, hj, hjk⟩ := orbit_reaches w.length st.next k h.next hk
      obtain ⟨k', off, st', hres, hes', hroom', hused'⟩ := t1 ⟨j, hj, by rw [hjk]; exact hroomk⟩
      have hk' := room_lt _ _ _ _ _ hroom'
      have hdec : Rem w shs req st'.used + 1 = Rem w shs req st.used := by
        unfold Rem
        apply slotSum_dec _ _ k' _ hk'
        · unfold Room at hroom'; omega
        · intro i
          rw [hused', getD_set_nat _ _ _ _ (by rw [h.ulen]; exact hk')]
          by_cases e : i = k'
          · subst e; simp only [if_true]; omega
          · simp only [e, if_false]
      obtain ⟨i1, i2⟩ := ih st' hes'
      have hml : matchLoop req w (n + 1) st =
          (((matchLoop req w n st').1).map ((k', off) :: ·), (matchLoop req w n st').2) := by
        simp only [matchLoop, hres]
      rw [hml]
      constructor
      · intro hle
        obtain ⟨ps, hps⟩ := i1 (by omega)
        exact ⟨(k', off) :: ps, by simp [hps]⟩
      · intro hlt
        have := i2 (by omega)
        simp [this]
    · have hnone : (simdTry req w w.length st).1 = none := by
        apply t2
        intro j _ hroom
        have hk := room_lt _ _ _ _ _ hroom
        have := slotSum_ge (fun k => slotsOn (w.getD k 0) (shs.getD k none) req - st.used.getD k 0) _ _ hk
        unfold Room at hroom
        unfold Rem at hR
        omega
      constructor
      · intro hle; omega
      · intro _
        rcases hx : simdTry req w w.length st with ⟨r, st1⟩
        rw [hx] at hnone
        simp only at hnone
        subst hnone
        simp only [matchLoop, hx]

end C09
