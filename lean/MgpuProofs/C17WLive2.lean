import MgpuProofs.C17WLive
import MgpuProofs.C17WInv
/-! C17, liveness for every width, part 2: what one `tickW` of the whole component does to bank `k` — the bank-level
step of `C17WLive` (`finalizeSingle` loop, `tickPipelines`, then accepts / bookkeeping). -/
namespace C17
namespace WLive
open WBnd

theorem AccStar.trans {c : Cfg} {a b d : WBank} (h1 : AccStar c a b) (h2 : AccStar c b d) : AccStar c a d := by
  induction h1 with
  | refl _ => exact h2
  | step it ha _ ih => exact .step it ha (ih h2)
  | other hl hp he ho _ ih => exact .other hl hp he ho (ih h2)

theorem accStar_meta (c : Cfg) (b b1 : WBank) (hl : b1.lanes = b.lanes) (hp : b1.post = b.post)
    (he : b1.early = b.early) (ho : b1.order = b.order) : AccStar c b b1 :=
  .other hl hp he ho (.refl _)

theorem delayGoW_acc (c : Cfg) : ∀ (dq : List (Item × Nat)) (b : WBank) (rem : List (Item × Nat)),
    AccStar c b (delayGoW c dq b rem).1
  | [], b, _ => .refl b
  | (it, n) :: rest, b, rem => by
    simp only [delayGoW]
    split
    · cases ha : accW c it b with
      | some b' => exact .step it ha (delayGoW_acc c rest b' rem)
      | none => exact delayGoW_acc c rest b _
    · exact delayGoW_acc c rest b _

theorem tickBankDelayW_acc (c : Cfg) (b : WBank) : AccStar c b (tickBankDelayW c b) :=
  (delayGoW_acc c b.dq b []).trans (accStar_meta c _ _ rfl rfl rfl rfl)

theorem dispatchBankW_acc (c : Cfg) (r : Req) (b b' : WBank) (h : dispatchBankW c r b = some b') : AccStar c b b' := by
  unfold dispatchBankW at h
  split at h
  · dsimp only at h
    split at h
    · split at h
      · cases ha : accW c (fresh r) b with
        | some b1 =>
          rw [ha] at h
          cases h
          exact .step (fresh r) ha (accStar_meta c _ _ rfl rfl rfl rfl)
        | none =>
          rw [ha] at h
          cases h
          exact accStar_meta c _ _ rfl rfl rfl rfl
      · cases h
        exact accStar_meta c _ _ rfl rfl rfl rfl
    · cases h
      exact accStar_meta c _ _ rfl rfl rfl rfl
  · exact .step (fresh r) h (.refl _)

theorem dispatchOneW_acc (c : Cfg) (k : Nat) (st : List WBank × List Req) (r : Req) (b : WBank)
    (hb : st.1[k]? = some b) : ∃ b', (dispatchOneW c st r).1[k]? = some b' ∧ AccStar c b b' := by
  unfold dispatchOneW
  cases hj : st.1[bankOf c r.addr]? with
  | none => exact ⟨b, hb, .refl b⟩
  | some bb =>
    dsimp only
    cases hd : dispatchBankW c r bb with
    | none => exact ⟨b, hb, .refl b⟩
    | some b'' =>
      dsimp only
      by_cases e : bankOf c r.addr = k
      · subst e
        rw [hb] at hj
        cases hj
        refine ⟨b'', ?_, dispatchBankW_acc c r _ _ hd⟩
        have hlt : bankOf c r.addr < st.1.length := by
          rcases Nat.lt_or_ge (bankOf c r.addr) st.1.length with h | h
          · exact h
          · rw [List.getElem?_eq_none h] at hb; cases hb
        simp [List.getElem?_set, hlt]
      · refine ⟨b, ?_, .refl b⟩
        rw [List.getElem?_set_ne e]
        exact hb

theorem fold_dispatch_acc (c : Cfg) (k : Nat) : ∀ (todo : List Req) (st : List WBank × List Req) (b : WBank),
    st.1[k]? = some b → ∃ b', (todo.foldl (dispatchOneW c) st).1[k]? = some b' ∧ AccStar c b b'
  | [], st, b, hb => ⟨b, hb, .refl b⟩
  | r :: todo, st, b, hb => by
    obtain ⟨b1, h1, a1⟩ := dispatchOneW_acc c k st r b hb
    obtain ⟨b2, h2, a2⟩ := fold_dispatch_acc c k todo _ b1 h1
    exact ⟨b2, h2, a1.trans a2⟩

/-! ### `finalizeBanks` -/

/-- the result of bank `b`'s `finalizeSingle` loop inside a `finalizeBanks` pass ending in state `s'` -/
def FinOf (c : Cfg) (b : WBank) (F : FinW) (s' : WState) : Prop :=
  (∃ log out resp pg, F = finalizeBankW c (b.order.length + b.post.length + 1) b log out resp pg) ∧
  F.fault = none ∧ ∀ r ∈ F.resp.map (·.req), r ∈ s'.resp.map (·.req)

theorem finAtW_resp_mono (c : Cfg) (s : WState) (j : Nat) (pg : Bool) (h : InvW c s) :
    ∀ r ∈ s.resp.map (·.req), r ∈ (finalizeAtW c s j pg).st.resp.map (·.req) := by
  unfold finalizeAtW
  cases hb : s.banks[j]? with
  | none => intro r hr; exact hr
  | some b =>
    dsimp only
    have hF := finalizeBankW_rel c (b.order.length + b.post.length + 1) b s.log s.outBuf s.resp pg
      (h.ok b (List.mem_of_getElem? hb)).core (List.nodup_append.1 (orderW_nodup c s h j b hb)).1
    obtain ⟨cm, done, _, _, e3, _⟩ := hF.ex
    intro r hr
    rw [e3]
    exact List.mem_append_left _ hr

theorem finFromW_resp_mono (c : Cfg) : ∀ (ks : List Nat) (s : WState) (pg : Bool), InvW c s →
    ∀ r ∈ s.resp.map (·.req), r ∈ (finalizeFromW c ks s pg).st.resp.map (·.req)
  | [], s, pg, _ => fun r hr => hr
  | j :: ks, s, pg, h => by
    intro r hr
    simp only [finalizeFromW]
    have h1 := finAtW_resp_mono c s j pg h r hr
    split
    · exact h1
    · exact finFromW_resp_mono c ks _ _ (finalizeAtW_inv c s j pg h) r h1

theorem finAtW_get_ne (c : Cfg) (s : WState) (j k : Nat) (pg : Bool) (hne : j ≠ k) :
    (finalizeAtW c s j pg).st.banks[k]? = s.banks[k]? := by
  unfold finalizeAtW
  cases hb : s.banks[j]? with
  | none => rfl
  | some b => dsimp only; rw [List.getElem?_set_ne hne]

theorem finFromW_frame (c : Cfg) (k : Nat) : ∀ (ks : List Nat) (s : WState) (pg : Bool), k ∉ ks →
    (finalizeFromW c ks s pg).st.banks[k]? = s.banks[k]?
  | [], s, pg, _ => rfl
  | j :: ks, s, pg, hk => by
    simp only [finalizeFromW]
    have hne : j ≠ k := fun e => hk (by simp [e])
    split
    · exact finAtW_get_ne c s j k pg hne
    · rw [finFromW_frame c k ks _ _ (fun h => hk (by simp [h]))]
      exact finAtW_get_ne c s j k pg hne

theorem finFromW_get (c : Cfg) (k : Nat) (b : WBank) : ∀ (ks : List Nat) (s : WState) (pg : Bool), InvW c s →
    ks.Nodup → k ∈ ks → s.banks[k]? = some b → (finalizeFromW c ks s pg).fault = none →
    ∃ F, FinOf c b F (finalizeFromW c ks s pg).st ∧ (finalizeFromW c ks s pg).st.banks[k]? = some F.bank
  | [], s, pg, _, _, hk, _, _ => by cases hk
  | j :: ks, s, pg, h, hnd, hk, hb, hnf => by
    simp only [finalizeFromW] at hnf ⊢
    have hnd' := List.nodup_cons.1 hnd
    split
    · rename_i hs
      rw [if_pos hs] at hnf
      rw [hnf] at hs
      cases hs
    · rename_i hs
      rw [if_neg hs] at hnf
      have hinv := finalizeAtW_inv c s j pg h
      by_cases e : j = k
      · subst e
        have hfr := finFromW_frame c j ks (finalizeAtW c s j pg).st (finalizeAtW c s j pg).prog hnd'.1
        have hmono := finFromW_resp_mono c ks (finalizeAtW c s j pg).st (finalizeAtW c s j pg).prog hinv
        rw [hfr]
        unfold finalizeAtW at hs hmono ⊢
        rw [hb] at hs hmono ⊢
        dsimp only at hs hmono ⊢
        refine ⟨finalizeBankW c (b.order.length + b.post.length + 1) b s.log s.outBuf s.resp pg,
          ⟨⟨_, _, _, _, rfl⟩, ?_, hmono⟩, ?_⟩
        · cases hf : (finalizeBankW c (b.order.length + b.post.length + 1) b s.log s.outBuf s.resp pg).fault with
          | none => rfl
          | some x => rw [hf] at hs; simp at hs
        · have hlt : j < s.banks.length := by
            rcases Nat.lt_or_ge j s.banks.length with h | h
            · exact h
            · rw [List.getElem?_eq_none h] at hb; cases hb
          simp [List.getElem?_set, hlt]
      · have hk' : k ∈ ks := by
          rcases List.mem_cons.1 hk with h | h
          · exact absurd h.symm e
          · exact h
        have hb' : (finalizeAtW c s j pg).st.banks[k]? = some b := by
          rw [finAtW_get_ne c s j k pg e]; exact hb
        exact finFromW_get c k b ks _ _ hinv hnd'.2 hk' hb' hnf

/-! ### the whole tick -/

theorem dispatchW_resp (c : Cfg) (s : WState) : (dispatchW c s).resp = s.resp := rfl

/-- bank `k` across one `tickW` that does not panic: its `finalizeSingle` loop `F` (whose responses are in the final
response list), then `tickPipelines`, then accepts / bookkeeping -/
theorem tickW_bank (c : Cfg) (s : WState) (h : InvW c s) (k : Nat) (b : WBank) (hb : s.banks[k]? = some b)
    (hnf : (tickFlagsW c s).2 = none) :
    ∃ F b3, FinOf c b F (tickW c s) ∧ (finalizeW c s).st.banks[k]? = some F.bank ∧
      AccStar c (tickBankPipeW c F.bank) b3 ∧ (tickW c s).banks[k]? = some b3 := by
  have hklt : k < s.banks.length := by
    rcases Nat.lt_or_ge k s.banks.length with h | h
    · exact h
    · rw [List.getElem?_eq_none h] at hb; cases hb
  unfold tickFlagsW at hnf
  unfold tickW
  dsimp only at hnf ⊢
  by_cases hf : (finalizeW c s).fault.isSome = true
  · rw [if_pos hf] at hnf
    dsimp only at hnf
    rw [hnf] at hf
    cases hf
  · rw [if_neg hf] at hnf ⊢
    have hfn : (finalizeW c s).fault = none := by
      cases hx : (finalizeW c s).fault with
      | none => rfl
      | some x => rw [hx] at hf; simp at hf
    by_cases hcv : convFault c (tickDelaysW c (tickPipesW c (finalizeW c s).st)).pending = true
    · rw [if_pos hcv] at hnf
      cases hnf
    · rw [if_neg hcv]
      obtain ⟨F, hF, hget⟩ := finFromW_get c k b (List.range s.banks.length) s false h List.nodup_range
        (List.mem_range.2 hklt) hb hfn
      have h2 : (tickPipesW c (finalizeW c s).st).banks[k]? = some (tickBankPipeW c F.bank) := by
        show ((finalizeW c s).st.banks.map (tickBankPipeW c))[k]? = _
        rw [List.getElem?_map]
        unfold finalizeW
        rw [hget]
        rfl
      have h3 : (tickDelaysW c (tickPipesW c (finalizeW c s).st)).banks[k]? =
          some (tickBankDelayW c (tickBankPipeW c F.bank)) := by
        show ((tickPipesW c (finalizeW c s).st).banks.map (tickBankDelayW c))[k]? = _
        rw [List.getElem?_map, h2]
        rfl
      obtain ⟨b3, h4, a4⟩ := fold_dispatch_acc c k (tickDelaysW c (tickPipesW c (finalizeW c s).st)).pending
        ((tickDelaysW c (tickPipesW c (finalizeW c s).st)).banks, []) _ h3
      refine ⟨F, b3, ?_, hget, (tickBankDelayW_acc c _).trans a4, h4⟩
      exact hF

end WLive
end C17
