import MgpuModel.C05_Rest
import MgpuProofs.C05Quiet
import MgpuProofs.Props.C12
/-! Helper lemmas for the rest-wait model `C05.R` (`MgpuModel/C05_Rest.lean`): the invariant that
    makes every `R` run a discipline-respecting `T` run, and the termination measure. -/
namespace C05
open C12 (APc RPc EPc Th)
namespace Rest

/-- whenever the application thread is between API calls and not in the rest-wait, the simulator is at rest -/
structure RInv (s : R.St) : Prop where
  idle : s.t.p.a = .idle → s.resting = true ∨ T.quiescent s.t
  rest : s.resting = true → s.t.p.a = .idle

/-! ### protocol-level facts about `C12.step` -/

/-- `runAsync` and `runEngine` never move the application thread into or out of `idle`, and neither
    can move when the system is at rest -/
theorem c12_other_step {p p' : C12.St} {t : Th} (ht : t ≠ .app) (hs : C12.step p t = some p') :
    (p'.a = .idle ↔ p.a = .idle) ∧ ¬ (p.r = .idle ∧ p.e = .none) := by
  cases t
  · exact absurd rfl ht
  · simp only [C12.step] at hs
    split at hs
    · simp at hs
    · split at hs
      · simp at hs
      · injection hs with hs; subst hs; simp_all
    · by_cases hrun : p.running = true <;> by_cases hsend : p.a = .sending <;>
        simp only [hrun, hsend, if_true, if_false] at hs <;>
        (injection hs with hs; subst hs; simp_all)
  · simp only [C12.step] at hs
    split at hs
    · simp at hs
    · injection hs with hs; subst hs; simp_all
    · split at hs <;> (injection hs with hs; subst hs; simp_all)
    · split at hs <;> (injection hs with hs; subst hs; simp_all)
    · split at hs
      · split at hs <;> (injection hs with hs; subst hs; simp_all)
      · injection hs with hs; subst hs; simp_all
    · injection hs with hs; subst hs; simp_all
    · split at hs <;> (injection hs with hs; subst hs; simp_all)

/-- an application step ends in `idle` only as an Enqueue from `idle` (which leaves `runAsync` and
    the engine alone) or as the return of the Drain body -/
theorem c12_app_step {p p' : C12.St} (hs : C12.step p .app = some p') :
    (p'.a = .idle → (p.a = .idle ∧ p'.r = p.r ∧ p'.e = p.e) ∨ (p.a = .chk ∧ p.cmds = [])) ∧
    (p.a = .chk → p.cmds = [] → p'.a = .idle) := by
  simp only [C12.step] at hs
  split at hs
  · split at hs
    · simp at hs
    · injection hs with hs; subst hs; simp_all
    · injection hs with hs; subst hs; simp_all
  · split at hs <;> (injection hs with hs; subst hs; simp_all)
  · simp at hs
  · split at hs <;> (injection hs with hs; subst hs; simp_all)
  · split at hs <;> (injection hs with hs; subst hs; simp_all)
  · simp at hs

theorem c12_eng_none {p : C12.St} (h : C12.step p .eng = none) : p.e = .none := by
  simp only [C12.step] at h
  split at h
  · assumption
  · simp at h
  · split at h <;> simp at h
  · split at h <;> simp at h
  · split at h
    · split at h <;> simp at h
    · simp at h
  · simp at h
  · split at h <;> simp at h

theorem c12_async_none {p : C12.St} (h : C12.step p .async = none) (he : p.e = .none) : p.r = .idle := by
  simp only [C12.step] at h
  split at h
  · assumption
  · split at h
    · simp_all
    · simp at h
  · by_cases hrun : p.running = true <;> by_cases hsend : p.a = .sending <;>
      simp [hrun, hsend] at h

theorem tstep_none {s : T.St} {t : Th} (h : T.step s t = none) : C12.step s.p t = none := by
  cases hp : C12.step s.p t with
  | none => rfl
  | some p' =>
    obtain ⟨s', hs', _⟩ := T.step_lift s t p' hp
    rw [h] at hs'
    cases hs'

/-! ### inversion of `R.step` -/

theorem step_other {s s' : R.St} {t : Th} (ht : t ≠ .app) (hs : R.step s t = some s') :
    T.step s.t t = some s'.t ∧ s'.resting = s.resting := by
  cases t
  · exact absurd rfl ht
  · simp only [R.step] at hs
    cases hT : T.step s.t .async with
    | none => simp [hT] at hs
    | some t' => simp only [hT] at hs; injection hs with hs; subst hs; exact ⟨rfl, rfl⟩
  · simp only [R.step] at hs
    cases hT : T.step s.t .eng with
    | none => simp [hT] at hs
    | some t' => simp only [hT] at hs; injection hs with hs; subst hs; exact ⟨rfl, rfl⟩

theorem step_app {s s' : R.St} (hs : R.step s .app = some s') :
    (s.resting = true ∧ T.quiescent s.t ∧ s' = { s with resting := false }) ∨
    (s.resting = false ∧ T.step s.t .app = some s'.t ∧ s'.resting = R.isReturn s.t) := by
  simp only [R.step] at hs
  by_cases hr : s.resting = true
  · simp only [hr, if_true] at hs
    by_cases hq : T.quiescent s.t
    · simp only [hq, if_true] at hs
      injection hs with hs
      exact Or.inl ⟨hr, hq, hs.symm⟩
    · simp [hq] at hs
  · have hr' : s.resting = false := by simpa using hr
    simp only [hr', Bool.false_eq_true, if_false] at hs
    cases hT : T.step s.t .app with
    | none => simp [hT] at hs
    | some t' =>
      simp only [hT] at hs; injection hs with hs; subst hs
      exact Or.inr ⟨hr', rfl, rfl⟩

theorem isReturn_iff (s : T.St) : R.isReturn s = true ↔ s.p.a = .chk ∧ s.p.cmds = [] := by
  simp [R.isReturn]

/-! ### the invariant -/

theorem rinv_init (rounds : List Nat) : RInv (R.init rounds) := by
  constructor
  · intro _
    exact Or.inr ⟨rfl, rfl⟩
  · intro h
    simp [R.init] at h

theorem rinv_step {s s' : R.St} (t : Th) (h : RInv s) (hs : R.step s t = some s') : RInv s' := by
  by_cases ht : t = .app
  · subst ht
    rcases step_app hs with ⟨_, hq, rfl⟩ | ⟨hr, hT, hres⟩
    · exact ⟨fun _ => Or.inr hq, fun hf => by simp at hf⟩
    · have hp := c12_app_step (T.step_proj hT)
      constructor
      · intro ha
        rcases hp.1 ha with ⟨ha0, hr0, he0⟩ | hret
        · rcases h.idle ha0 with hres0 | hq
          · rw [hr] at hres0; cases hres0
          · refine Or.inr ?_
            obtain ⟨q1, q2⟩ := hq
            exact ⟨hr0.trans q1, he0.trans q2⟩
        · exact Or.inl (hres.trans ((isReturn_iff s.t).2 hret))
      · intro hres'
        rw [hres] at hres'
        obtain ⟨ha, hc⟩ := (isReturn_iff s.t).1 hres'
        exact hp.2 ha hc
  · obtain ⟨hT, hres⟩ := step_other ht hs
    obtain ⟨hiff, hnq⟩ := c12_other_step ht (T.step_proj hT)
    constructor
    · intro ha
      have ha0 := hiff.1 ha
      rcases h.idle ha0 with hres0 | hq
      · exact Or.inl (hres.trans hres0)
      · exact absurd hq hnq
    · intro hres'
      exact hiff.2 (h.rest (hres.symm.trans hres'))

theorem rinv_run (ts : List Th) : ∀ {s s' : R.St}, RInv s → R.runSched s ts = some s' → RInv s' := by
  induction ts with
  | nil => intro s s' hi h; simp [R.runSched] at h; subst h; exact hi
  | cons t ts ih =>
    intro s s' hi h
    simp only [R.runSched] at h
    cases hs : R.step s t with
    | none => simp [hs] at h
    | some s1 =>
      simp only [hs] at h
      exact ih (rinv_step t hi hs) h

theorem finished_quiescent {s : R.St} (h : RInv s) (hf : R.finished s) : T.quiescent s.t := by
  obtain ⟨⟨ha, _⟩, hr⟩ := hf
  rcases h.idle ha with hres | hq
  · rw [hr] at hres; cases hres
  · exact hq

/-- every R run is, rest-wait steps deleted, a discipline-respecting T run -/
theorem runSched_runQ (ts : List Th) : ∀ {s s' : R.St}, RInv s → R.runSched s ts = some s' →
    ∃ ts', T.runQ s.t ts' = some s'.t ∧ ts'.length ≤ ts.length := by
  induction ts with
  | nil =>
    intro s s' _ h
    simp [R.runSched] at h; subst h
    exact ⟨[], rfl, Nat.le_refl _⟩
  | cons t ts ih =>
    intro s s' hi h
    simp only [R.runSched] at h
    cases hs : R.step s t with
    | none => simp [hs] at h
    | some s1 =>
      simp only [hs] at h
      obtain ⟨ts'', hrun, hlen⟩ := ih (rinv_step t hi hs) h
      by_cases ht : t = .app
      · subst ht
        rcases step_app hs with ⟨_, _, rfl⟩ | ⟨hr, hT, _⟩
        · exact ⟨ts'', hrun, by simp only [List.length_cons]; omega⟩
        · refine ⟨.app :: ts'', ?_, by simp only [List.length_cons]; omega⟩
          have hq : T.qAllowed s.t .app := by
            intro _ ha
            rcases hi.idle ha with hres | hq
            · rw [hr] at hres; cases hres
            · exact hq
          simp only [T.runQ, hq, if_true, hT]
          exact hrun
      · obtain ⟨hT, _⟩ := step_other ht hs
        refine ⟨t :: ts'', ?_, by simp only [List.length_cons]; omega⟩
        have hq : T.qAllowed s.t t := fun h' => absurd h' ht
        simp only [T.runQ, hq, if_true, hT]
        exact hrun

theorem reach_proj {s : R.St} (h : R.Reach s) : T.Reach s.t := by
  induction h with
  | init rounds => exact T.Reach.init rounds
  | step t _ hs ih =>
    by_cases ht : t = .app
    · subst ht
      rcases step_app hs with ⟨_, _, rfl⟩ | ⟨_, hT, _⟩
      · exact ih
      · exact T.Reach.step .app ih hT
    · exact T.Reach.step t ih (step_other ht hs).1

theorem rinv_reach {s : R.St} (h : R.Reach s) : RInv s := by
  induction h with
  | init rounds => exact rinv_init rounds
  | step t _ hs ih => exact rinv_step t ih hs

def measure (s : R.St) : Nat := 2 * C12.measure s.t.p + R.restBit s

theorem restBit_le (s : R.St) : R.restBit s ≤ 1 := by
  unfold R.restBit; split <;> omega

theorem measure_decreases {s s' : R.St} (h : R.Reach s) (t : Th) (hs : R.step s t = some s') : measure s' < measure s := by
  have hreach : C12.Reach s.t.p := T.reach_proj (reach_proj h)
  have hb := restBit_le s'
  by_cases ht : t = .app
  · subst ht
    rcases step_app hs with ⟨hr, _, rfl⟩ | ⟨_, hT, _⟩
    · simp [measure, R.restBit, hr]
    · have := C12.measure_decreases hreach .app (T.step_proj hT)
      unfold measure; omega
  · have := C12.measure_decreases hreach t (T.step_proj (step_other ht hs).1)
    unfold measure; omega

theorem no_stuck {s : R.St} (h : R.Reach s) (hst : R.stuck s) : R.finished s := by
  have hasync : T.step s.t .async = none := by
    have := hst .async
    simp only [R.step] at this
    cases hT : T.step s.t .async with
    | none => rfl
    | some t' => simp [hT] at this
  have heng : T.step s.t .eng = none := by
    have := hst .eng
    simp only [R.step] at this
    cases hT : T.step s.t .eng with
    | none => rfl
    | some t' => simp [hT] at this
  have happ := hst .app
  simp only [R.step] at happ
  by_cases hr : s.resting = true
  · simp only [hr, if_true] at happ
    have he := c12_eng_none (tstep_none heng)
    have hrr := c12_async_none (tstep_none hasync) he
    have hq : T.quiescent s.t := ⟨hrr, he⟩
    simp [hq] at happ
  · have hr' : s.resting = false := by simpa using hr
    simp only [hr', Bool.false_eq_true, if_false] at happ
    have happT : T.step s.t .app = none := by
      cases hT : T.step s.t .app with
      | none => rfl
      | some t' => simp [hT] at happ
    have hstuck : C12.stuck s.t.p := by
      intro t
      cases t
      · exact tstep_none happT
      · exact tstep_none hasync
      · exact tstep_none heng
    exact ⟨C12.no_stuck_state (T.reach_proj (reach_proj h)) hstuck, hr'⟩

end Rest
end C05
