import MgpuModel.C09_Part
/-! # C09 — the partition placement algorithm conserves the grid

Invariant `PI s D` (`D` = the work-groups placed so far): partition `j` has fetched
`disp[j] + [a pending work-group]` groups from its builder, which started at `j·per`; the pending one is
`j·per + disp[j]`; `disp[j] ≤ per`; `D` has no duplicates and consists exactly of the ranges
`[j·per, j·per + disp[j])`. It is kept by `nextWG` (fetch / steal) and by a placement, whatever the CUs
answer. When `HasNext` turns false, `D` is a permutation of `0 … numWG−1`. -/
namespace C09

theorem getD_set {α : Type} (l : List α) (i j : Nat) (a d : α) :
    (l.set i a).getD j d = if i = j ∧ i < l.length then a else l.getD j d := by
  simp only [List.getD_eq_getElem?_getD, List.getElem?_set]
  by_cases hij : i = j
  · subst hij
    by_cases hi : i < l.length
    · simp [hi]
    · simp [hi]
  · simp [hij]

def Part.dispAt (s : Part) (j : Nat) : Nat := s.disp.getD j 0
def Part.curAt (s : Part) (j : Nat) : Option Nat := s.cur.getD j none
def Part.posAt (s : Part) (j : Nat) : Nat := s.pos.getD j 0

/-- the state after partition `i` fetched its next work-group -/
def Part.fetched (s : Part) (i : Nat) : Part :=
  { s with pos := s.pos.set i (s.pos.getD i 0 + 1), cur := s.cur.set i (some (s.pos.getD i 0)) }

/-- the state after the pending work-group of partition `src` was placed -/
def Part.placed (s : Part) (src nx : Nat) : Part :=
  { s with cur := s.cur.set src none, disp := s.disp.set src (s.disp.getD src 0 + 1), nd := s.nd + 1, next := nx }

structure PI (s : Part) (D : List Nat) : Prop where
  hn : 0 < s.n
  hper : 0 < s.per
  /-- the partitions cover the grid -/
  hcov : s.numWG ≤ s.n * s.per
  lpos : s.pos.length = s.n
  lcur : s.cur.length = s.n
  ldisp : s.disp.length = s.n
  hcur : ∀ j, j < s.n → ∀ w, s.curAt j = some w →
    w = j * s.per + s.dispAt j ∧ s.posAt j = w + 1 ∧ w < s.numWG ∧ s.dispAt j < s.per
  hnone : ∀ j, j < s.n → s.curAt j = none → s.posAt j = j * s.per + s.dispAt j
  hle : ∀ j, j < s.n → s.dispAt j ≤ s.per
  hin : ∀ j, j < s.n → 0 < s.dispAt j → j * s.per + s.dispAt j ≤ s.numWG
  hD : ∀ w, w ∈ D ↔ ∃ j, j < s.n ∧ j * s.per ≤ w ∧ w < j * s.per + s.dispAt j
  hnd : D.Nodup
  hcnt : s.nd = D.length

/-- `nextWG` keeps the invariant; a returned work-group is the pending one of the partition it names -/
theorem nextWG_spec (s : Part) (D : List Nat) (i : Nat) (h : PI s D) (hi : i < s.n) :
    PI (s.nextWG i).1 D ∧ (s.nextWG i).1.next = s.next ∧ (s.nextWG i).1.n = s.n ∧
    (s.nextWG i).1.nd = s.nd ∧ (s.nextWG i).1.numWG = s.numWG ∧
    ∀ w src, (s.nextWG i).2 = some (w, src) → src < s.n ∧ (s.nextWG i).1.curAt src = some w := by
  unfold Part.nextWG
  by_cases hge : s.disp.getD i 0 ≥ s.per
  · simp only [hge, if_true]
    cases hfd : (List.range s.n).find? (fun j => (s.cur.getD j none).isSome) with
    | none => exact ⟨h, rfl, rfl, rfl, rfl, fun w src hc => by cases hc⟩
    | some j =>
      simp only []
      have hj : j < s.n := List.mem_range.1 (List.mem_of_find?_eq_some hfd)
      cases hc : s.cur.getD j none with
      | none => exact ⟨h, rfl, rfl, rfl, rfl, fun w src hc => by cases hc⟩
      | some w =>
        refine ⟨h, rfl, rfl, rfl, rfl, ?_⟩
        intro w' src he
        injection he with he; injection he with e1 e2
        subst e1; subst e2
        exact ⟨hj, hc⟩
  · simp only [hge, if_false]
    cases hc : s.cur.getD i none with
    | some w =>
      refine ⟨h, rfl, rfl, rfl, rfl, ?_⟩
      intro w' src he
      injection he with he; injection he with e1 e2
      subst e1; subst e2
      exact ⟨hi, hc⟩
    | none =>
      simp only []
      by_cases hp : s.pos.getD i 0 < s.numWG
      · rw [if_pos hp]
        have hpi := h.hnone i hi hc
        have hpi : s.pos.getD i 0 = i * s.per + s.disp.getD i 0 := hpi
        have hcur' : ∀ j, (s.fetched i).curAt j =
            if i = j then some (s.pos.getD i 0) else s.curAt j := by
          intro j
          show (s.cur.set i _).getD j none = _
          rw [getD_set, h.lcur]
          by_cases hij : i = j
          · subst hij; simp [hi]
          · simp [hij]; rfl
        have hpos' : ∀ j, (s.fetched i).posAt j =
            if i = j then s.pos.getD i 0 + 1 else s.posAt j := by
          intro j
          show (s.pos.set i _).getD j 0 = _
          rw [getD_set, h.lpos]
          by_cases hij : i = j
          · subst hij; simp [hi]
          · simp [hij]; rfl
        show PI (s.fetched i) D ∧ (s.fetched i).next = s.next ∧ (s.fetched i).n = s.n ∧
          (s.fetched i).nd = s.nd ∧ (s.fetched i).numWG = s.numWG ∧
          ∀ w src, some (s.pos.getD i 0, i) = some (w, src) → src < s.n ∧ (s.fetched i).curAt src = some w
        refine ⟨?_, rfl, rfl, rfl, rfl, ?_⟩
        · exact {
            hn := h.hn, hper := h.hper, hcov := h.hcov
            lpos := by show (s.pos.set i _).length = s.n; rw [List.length_set]; exact h.lpos
            lcur := by show (s.cur.set i _).length = s.n; rw [List.length_set]; exact h.lcur
            ldisp := h.ldisp
            hcur := by
              intro j hj w hw
              rw [hcur' j] at hw
              rw [hpos' j]
              by_cases hij : i = j
              · subst hij
                simp only [if_true] at hw ⊢
                injection hw with hw
                subst hw
                exact ⟨hpi, rfl, hp, by show s.disp.getD i 0 < s.per; omega⟩
              · simp only [hij, if_false] at hw ⊢
                exact h.hcur j hj w hw
            hnone := by
              intro j hj hw
              rw [hcur' j] at hw
              rw [hpos' j]
              by_cases hij : i = j
              · simp [hij] at hw
              · simp only [hij, if_false] at hw ⊢
                exact h.hnone j hj hw
            hle := h.hle, hin := h.hin, hD := h.hD, hnd := h.hnd, hcnt := h.hcnt }
        · intro w' src he
          injection he with he; injection he with e1 e2
          subst e1; subst e2
          refine ⟨hi, ?_⟩
          rw [hcur' i]; simp
      · rw [if_neg hp]
        exact ⟨h, rfl, rfl, rfl, rfl, fun w src hc => by cases hc⟩

/-- placing the pending work-group of partition `src` -/
theorem place_spec (s : Part) (D : List Nat) (src w nx : Nat) (h : PI s D) (hs : src < s.n)
    (hc : s.curAt src = some w) :
    PI (s.placed src nx) (w :: D) := by
  obtain ⟨c1, c2, c3, c4⟩ := h.hcur src hs w hc
  have hcur' : ∀ j, (s.placed src nx).curAt j = if src = j then none else s.curAt j := by
    intro j
    show (s.cur.set src _).getD j none = _
    rw [getD_set, h.lcur]
    by_cases hij : src = j
    · subst hij; simp [hs]
    · simp [hij]; rfl
  have hdisp' : ∀ j, (s.placed src nx).dispAt j = if src = j then s.dispAt src + 1 else s.dispAt j := by
    intro j
    show (s.disp.set src _).getD j 0 = _
    rw [getD_set, h.ldisp]
    by_cases hij : src = j
    · subst hij; simp [hs]; rfl
    · simp [hij]; rfl
  have hpos' : ∀ j, (s.placed src nx).posAt j = s.posAt j := fun j => rfl
  -- a work-group index lies in the range of one partition only
  have huniq : ∀ j, j < s.n → j ≠ src → ¬ (j * s.per ≤ w ∧ w < j * s.per + s.dispAt j) := by
    intro j hj hne ⟨a1, a2⟩
    have hlej := h.hle j hj
    rcases Nat.lt_or_gt_of_ne hne with hlt | hgt
    · have := Nat.mul_le_mul_right s.per (show j + 1 ≤ src by omega)
      rw [Nat.add_mul, Nat.one_mul] at this
      omega
    · have := Nat.mul_le_mul_right s.per (show src + 1 ≤ j by omega)
      rw [Nat.add_mul, Nat.one_mul] at this
      omega
  have hnew : w ∉ D := by
    intro hw
    obtain ⟨j, hj, a1, a2⟩ := (h.hD w).1 hw
    by_cases hjs : j = src
    · subst hjs; omega
    · exact huniq j hj hjs ⟨a1, a2⟩
  have eP : (s.placed src nx).per = s.per := rfl
  have eN : (s.placed src nx).n = s.n := rfl
  have eW : (s.placed src nx).numWG = s.numWG := rfl
  exact {
    hn := h.hn, hper := h.hper, hcov := h.hcov, lpos := h.lpos
    lcur := by show (s.cur.set src _).length = s.n; rw [List.length_set]; exact h.lcur
    ldisp := by show (s.disp.set src _).length = s.n; rw [List.length_set]; exact h.ldisp
    hcur := by
      intro j hj w' hw
      simp only [eP, eN, eW] at *
      rw [hcur' j] at hw
      rw [hdisp' j, hpos' j]
      by_cases hij : src = j
      · simp [hij] at hw
      · simp only [hij, if_false] at hw ⊢
        exact h.hcur j hj w' hw
    hnone := by
      intro j hj hw
      simp only [eP, eN, eW] at *
      rw [hdisp' j, hpos' j]
      by_cases hij : src = j
      · subst hij; simp only [↓reduceIte]; omega
      · rw [hcur' j] at hw
        simp only [hij, if_false] at hw ⊢
        exact h.hnone j hj hw
    hle := by
      intro j hj
      simp only [eP, eN, eW] at *
      rw [hdisp' j]
      by_cases hij : src = j
      · subst hij; simp only [↓reduceIte]; omega
      · simp only [hij, if_false]; exact h.hle j hj
    hin := by
      intro j hj hpos
      simp only [eP, eN, eW] at *
      rw [hdisp' j] at hpos ⊢
      by_cases hij : src = j
      · subst hij; simp only [↓reduceIte]; omega
      · simp only [hij, if_false] at hpos ⊢; exact h.hin j hj hpos
    hD := by
      intro x
      simp only [eP, eN]
      constructor
      · intro hx
        rcases List.mem_cons.1 hx with e | e
        · subst e
          refine ⟨src, hs, by omega, ?_⟩
          rw [hdisp' src]; simp only [↓reduceIte]; omega
        · obtain ⟨j, hj, a1, a2⟩ := (h.hD x).1 e
          refine ⟨j, hj, a1, ?_⟩
          rw [hdisp' j]
          by_cases hij : src = j
          · subst hij; simp only [↓reduceIte]; omega
          · simp only [hij, if_false]; exact a2
      · rintro ⟨j, hj, a1, a2⟩
        rw [hdisp' j] at a2
        by_cases hij : src = j
        · subst hij
          simp only [↓reduceIte] at a2
          by_cases hxw : x = w
          · rw [hxw]; exact List.mem_cons_self
          · exact List.mem_cons_of_mem _ ((h.hD x).2 ⟨src, hj, a1, by omega⟩)
        · simp only [hij, if_false] at a2
          exact List.mem_cons_of_mem _ ((h.hD x).2 ⟨j, hj, a1, a2⟩)
    hnd := List.nodup_cons.2 ⟨hnew, h.hnd⟩
    hcnt := by show s.nd + 1 = (w :: D).length; rw [List.length_cons, h.hcnt] }

/-- the loop of `Next` -/
theorem nextGo_spec : ∀ (k idx : Nat) (s : Part) (fails : List Bool) (D : List Nat), PI s D →
    ((Part.nextGo k idx s fails).2.2 = none → PI (Part.nextGo k idx s fails).1 D) ∧
    (∀ c w, (Part.nextGo k idx s fails).2.2 = some (c, w) →
      PI (Part.nextGo k idx s fails).1 (w :: D) ∧ c < s.n) ∧
    (Part.nextGo k idx s fails).1.numWG = s.numWG ∧ (Part.nextGo k idx s fails).1.n = s.n := by
  intro k
  induction k with
  | zero => intro idx s fails D h; exact ⟨fun _ => h, fun c w hc => (by cases hc), rfl, rfl⟩
  | succ k ih =>
    intro idx s fails D h
    have hi : (idx + s.next) % s.n < s.n := Nat.mod_lt _ h.hn
    obtain ⟨p1, p2, p3, p4, p5, p6⟩ := nextWG_spec s D _ h hi
    simp only [Part.nextGo]
    rcases hr : s.nextWG ((idx + s.next) % s.n) with ⟨s1, res⟩
    rw [hr] at p1 p2 p3 p4 p5 p6
    simp only at p1 p2 p3 p4 p5 p6
    cases res with
    | none =>
      simp only []
      obtain ⟨q1, q2, q3, q4⟩ := ih (idx + 1) s1 fails D p1
      exact ⟨q1, fun c w hc => by rw [← p3]; exact q2 c w hc, by rw [q3, p5], by rw [q4, p3]⟩
    | some ws =>
      obtain ⟨w, src⟩ := ws
      simp only []
      obtain ⟨hsrc, hcw⟩ := p6 w src rfl
      by_cases hfl : fails.headD false = true
      · simp only [hfl, if_true]
        obtain ⟨q1, q2, q3, q4⟩ := ih (idx + 1) s1 fails.tail D p1
        exact ⟨q1, fun c w hc => by rw [← p3]; exact q2 c w hc, by rw [q3, p5], by rw [q4, p3]⟩
      · simp only [hfl, Bool.false_eq_true, if_false]
        refine ⟨fun hc => (by cases hc), ?_, p5, p3⟩
        intro c w' hc
        injection hc with hc; injection hc with e1 e2
        subst e1; subst e2
        exact ⟨place_spec s1 D src w _ p1 (by rw [p3]; exact hsrc) hcw, hi⟩

theorem nextStep_spec (s : Part) (fails : List Bool) (D : List Nat) (h : PI s D) :
    ((s.nextStep fails).2.2 = none → PI (s.nextStep fails).1 D) ∧
    (∀ c w, (s.nextStep fails).2.2 = some (c, w) → PI (s.nextStep fails).1 (w :: D) ∧ c < s.n) ∧
    (s.nextStep fails).1.numWG = s.numWG ∧ (s.nextStep fails).1.n = s.n := by
  unfold Part.nextStep
  by_cases hge : s.nd ≥ s.numWG
  · rw [if_pos hge]; exact ⟨fun _ => h, fun c w hc => (by cases hc), rfl, rfl⟩
  · rw [if_neg hge]; exact nextGo_spec s.n 0 s fails D h

/-- the work-groups of a list of `Next` results -/
def wgsOf (evs : List (Option (Nat × Nat))) : List Nat := evs.filterMap (fun e => e.map (·.2))

theorem run_spec : ∀ (k : Nat) (s : Part) (fails : List Bool) (acc : List (Option (Nat × Nat))),
    PI s (wgsOf acc) → (∀ c w, some (c, w) ∈ acc → c < s.n) →
    ∃ s' D', PI s' D' ∧ wgsOf (Part.run k s fails acc).1 = D'.reverse ∧ s'.numWG = s.numWG ∧
      ((Part.run k s fails acc).2 = false → s'.numWG ≤ s'.nd) ∧
      (∀ c w, some (c, w) ∈ (Part.run k s fails acc).1 → c < s.n) := by
  intro k
  induction k with
  | zero =>
    intro s fails acc h hc
    refine ⟨s, wgsOf acc, h, ?_, rfl, ?_, ?_⟩
    · simp [Part.run, wgsOf, List.filterMap_reverse]
    · intro hb; simp only [Part.run, decide_eq_false_iff_not] at hb; omega
    · intro c w hm; simp only [Part.run, List.mem_reverse] at hm; exact hc c w hm
  | succ k ih =>
    intro s fails acc h hc
    simp only [Part.run]
    by_cases hlt : s.nd < s.numWG
    · simp only [hlt, if_true]
      obtain ⟨n1, n2, n3, n4⟩ := nextStep_spec s fails (wgsOf acc) h
      have hacc : PI (s.nextStep fails).1 (wgsOf ((s.nextStep fails).2.2 :: acc)) ∧
          ∀ c w, some (c, w) ∈ (s.nextStep fails).2.2 :: acc → c < (s.nextStep fails).1.n := by
        cases hr : (s.nextStep fails).2.2 with
        | none =>
          refine ⟨by simpa [wgsOf] using n1 hr, ?_⟩
          intro c w hm
          rcases List.mem_cons.1 hm with e | e
          · cases e
          · rw [n4]; exact hc c w e
        | some cw =>
          obtain ⟨c0, w0⟩ := cw
          obtain ⟨m1, m2⟩ := n2 c0 w0 hr
          refine ⟨by simpa [wgsOf] using m1, ?_⟩
          intro c w hm
          rw [n4]
          rcases List.mem_cons.1 hm with e | e
          · injection e with e; injection e with e1 e2; subst e1; exact m2
          · exact hc c w e
      obtain ⟨s', D', r1, r2, r3, r4, r5⟩ := ih _ (s.nextStep fails).2.1 _ hacc.1 hacc.2
      exact ⟨s', D', r1, r2, by rw [r3, n3], r4, fun c w hm => by rw [← n4]; exact r5 c w hm⟩
    · simp only [hlt, if_false]
      refine ⟨s, wgsOf acc, h, ?_, rfl, fun _ => by omega, ?_⟩
      · simp [wgsOf, List.filterMap_reverse]
      · intro c w hm; simp only [List.mem_reverse] at hm; exact hc c w hm

theorem start_PI (numWG n : Nat) (hn : 0 < n) : PI (Part.start numWG n) [] := by
  have hcur : ∀ j, (Part.start numWG n).curAt j = none := by
    intro j
    simp only [Part.curAt, Part.start, List.getD_eq_getElem?_getD, List.getElem?_replicate]
    split <;> rfl
  have hdisp : ∀ j, (Part.start numWG n).dispAt j = 0 := by
    intro j
    simp only [Part.dispAt, Part.start, List.getD_eq_getElem?_getD, List.getElem?_replicate]
    split <;> rfl
  have hpos : ∀ j, j < n → (Part.start numWG n).posAt j = j * ((numWG - 1) / n + 1) := by
    intro j hj
    simp [Part.posAt, Part.start, List.getD_eq_getElem?_getD, hj]
  exact {
    hn := hn
    hper := Nat.succ_pos _
    hcov := by
      show numWG ≤ n * ((numWG - 1) / n + 1)
      have := Nat.lt_mul_div_succ (numWG - 1) hn
      omega
    lpos := by simp [Part.start]
    lcur := by simp [Part.start]
    ldisp := by simp [Part.start]
    hcur := fun j _ w hw => by rw [hcur j] at hw; cases hw
    hnone := fun j hj _ => by rw [hdisp j, hpos j hj]; rfl
    hle := fun j _ => by rw [hdisp j]; exact Nat.zero_le _
    hin := fun j _ hp => by rw [hdisp j] at hp; omega
    hD := fun w => ⟨fun hw => (by cases hw), fun ⟨j, _, a1, a2⟩ => (by rw [hdisp j] at a2; omega)⟩
    hnd := List.nodup_nil
    hcnt := rfl }

/-- pigeonhole: a duplicate-free list of numbers below `n` that has at least `n` entries is a
    permutation of `0 … n−1` -/
theorem perm_range_of_nodup (D : List Nat) (n : Nat) (hnd : D.Nodup) (hlt : ∀ w ∈ D, w < n)
    (hlen : n ≤ D.length) : D.Perm (List.range n) := by
  rw [List.perm_ext_iff_of_nodup hnd List.nodup_range]
  intro a
  constructor
  · intro ha; exact List.mem_range.2 (hlt a ha)
  · intro ha
    by_cases hin : a ∈ D
    · exact hin
    · exfalso
      have hsub : D ⊆ (List.range n).erase a := by
        intro x hx
        have hxa : x ≠ a := fun e => hin (e ▸ hx)
        exact (List.mem_erase_of_ne hxa).2 (List.mem_range.2 (hlt x hx))
      have h1 := List.Nodup.length_le_of_subset hnd hsub
      have h2 : ((List.range n).erase a).length = n - 1 := by
        rw [List.length_erase]; simp [ha]
      have : 0 < n := by have := List.mem_range.1 ha; omega
      omega

/-- **`partition_conserves`**, on the executable model -/
theorem part_conserves (numWG n fuel : Nat) (fails : List Bool) (hn : 0 < n) :
    (wgsOf (Part.run fuel (Part.start numWG n) fails []).1).Nodup ∧
    (∀ w ∈ wgsOf (Part.run fuel (Part.start numWG n) fails []).1, w < numWG) ∧
    (∀ c w, some (c, w) ∈ (Part.run fuel (Part.start numWG n) fails []).1 → c < n) ∧
    ((Part.run fuel (Part.start numWG n) fails []).2 = false →
      (wgsOf (Part.run fuel (Part.start numWG n) fails []).1).Perm (List.range numWG)) := by
  obtain ⟨s', D', r1, r2, r3, r4, r5⟩ := run_spec fuel (Part.start numWG n) fails []
    (by simpa [wgsOf] using start_PI numWG n hn) (fun c w hm => by cases hm)
  have hnw : s'.numWG = numWG := r3
  have hlt : ∀ w ∈ D', w < numWG := by
    intro w hw
    obtain ⟨j, hj, a1, a2⟩ := (r1.hD w).1 hw
    have := r1.hin j hj (by omega)
    omega
  rw [r2]
  refine ⟨(List.reverse_perm D').nodup_iff.2 r1.hnd, fun w hw => hlt w (List.mem_reverse.1 hw), r5, ?_⟩
  intro hb
  have := r4 hb
  exact (List.reverse_perm D').trans (perm_range_of_nodup D' numWG r1.hnd hlt (by rw [← r1.hcnt]; omega))

/-! ## the loop never gets stuck when the refusals are finitely many -/

/-- number of refusals still to come -/
def countT (fails : List Bool) : Nat := (fails.filter (· = true)).length

theorem countT_tail_le (fails : List Bool) : countT fails.tail ≤ countT fails := by
  cases fails with
  | nil => exact Nat.le_refl _
  | cons b bs =>
    simp only [countT, List.tail_cons, List.filter_cons]
    split <;> simp <;> omega

theorem countT_tail_lt (fails : List Bool) (h : fails.headD false = true) : countT fails.tail < countT fails := by
  cases fails with
  | nil => simp at h
  | cons b bs =>
    simp only [List.headD_cons] at h
    subst h
    simp [countT]

/-- partition `j` can offer a work-group to its own CU -/
def avail (s : Part) (j : Nat) : Prop :=
  s.dispAt j < s.per ∧ (s.curAt j ≠ none ∨ s.posAt j < s.numWG)

theorem nextWG_none (s : Part) (i : Nat) (h : (s.nextWG i).2 = none) : (s.nextWG i).1 = s ∧ ¬ avail s i := by
  unfold Part.nextWG at h ⊢
  by_cases hge : s.disp.getD i 0 ≥ s.per
  · have hna : ¬ avail s i := fun ha => by have := ha.1; unfold Part.dispAt at this; omega
    simp only [hge, if_true] at h ⊢
    cases hfd : (List.range s.n).find? (fun j => (s.cur.getD j none).isSome) with
    | none => exact ⟨rfl, hna⟩
    | some j =>
      rw [hfd] at h
      simp only [] at h ⊢
      cases hc : s.cur.getD j none with
      | none => exact ⟨rfl, hna⟩
      | some w => rw [hc] at h; cases h
  · simp only [hge, if_false] at h ⊢
    cases hc : s.cur.getD i none with
    | some w => rw [hc] at h; cases h
    | none =>
      rw [hc] at h
      simp only [] at h ⊢
      by_cases hp : s.pos.getD i 0 < s.numWG
      · rw [if_pos hp] at h; cases h
      · rw [if_neg hp]
        refine ⟨rfl, ?_⟩
        rintro ⟨_, ha | ha⟩
        · exact ha hc
        · exact hp ha

/-- monotonicity of the loop: refusals are only consumed; without a placement the counter stays -/
theorem nextGo_mono : ∀ (k idx : Nat) (s : Part) (fails : List Bool) (D : List Nat), PI s D →
    countT (Part.nextGo k idx s fails).2.1 ≤ countT fails ∧
    ((Part.nextGo k idx s fails).2.2 = none → (Part.nextGo k idx s fails).1.nd = s.nd) ∧
    ((Part.nextGo k idx s fails).2.2 ≠ none → (Part.nextGo k idx s fails).1.nd = s.nd + 1) := by
  intro k
  induction k with
  | zero => intro idx s fails D _; exact ⟨Nat.le_refl _, fun _ => rfl, fun h => absurd rfl h⟩
  | succ k ih =>
    intro idx s fails D h
    have hi : (idx + s.next) % s.n < s.n := Nat.mod_lt _ h.hn
    obtain ⟨p1, p2, p3, p4, p5, p6⟩ := nextWG_spec s D _ h hi
    simp only [Part.nextGo]
    rcases hr : s.nextWG ((idx + s.next) % s.n) with ⟨s1, res⟩
    rw [hr] at p1 p4
    simp only at p1 p4
    cases res with
    | none =>
      simp only []
      obtain ⟨q1, q2, q3⟩ := ih (idx + 1) s1 fails D p1
      exact ⟨q1, fun hc => by rw [q2 hc, p4], fun hc => by rw [q3 hc, p4]⟩
    | some ws =>
      obtain ⟨w, src⟩ := ws
      simp only []
      by_cases hfl : fails.headD false = true
      · simp only [hfl, if_true]
        obtain ⟨q1, q2, q3⟩ := ih (idx + 1) s1 fails.tail D p1
        exact ⟨Nat.le_trans q1 (countT_tail_le fails), fun hc => by rw [q2 hc, p4], fun hc => by rw [q3 hc, p4]⟩
      · simp only [hfl, Bool.false_eq_true, if_false]
        exact ⟨countT_tail_le fails, fun hc => (by cases hc), fun _ => (by show s1.nd + 1 = _; rw [p4])⟩

/-- if one of the partitions the loop still visits can offer a work-group and nothing is placed, a
    refusal was consumed -/
theorem nextGo_progress : ∀ (k idx : Nat) (s : Part) (fails : List Bool) (D : List Nat), PI s D →
    (∃ d, d < k ∧ avail s ((idx + d + s.next) % s.n)) →
    (Part.nextGo k idx s fails).2.2 = none →
    countT (Part.nextGo k idx s fails).2.1 < countT fails := by
  intro k
  induction k with
  | zero => intro idx s fails D _ ⟨d, hd, _⟩; omega
  | succ k ih =>
    intro idx s fails D h ⟨d, hd, hav⟩
    have hi : (idx + s.next) % s.n < s.n := Nat.mod_lt _ h.hn
    obtain ⟨p1, p2, p3, p4, p5, p6⟩ := nextWG_spec s D _ h hi
    have hnone := nextWG_none s ((idx + s.next) % s.n)
    simp only [Part.nextGo]
    rcases hr : s.nextWG ((idx + s.next) % s.n) with ⟨s1, res⟩
    rw [hr] at p1 p2 hnone
    simp only at p1 p2 hnone
    cases res with
    | none =>
      simp only []
      obtain ⟨e1, e2⟩ := hnone rfl
      subst e1
      intro hres
      refine ih (idx + 1) s1 fails D p1 ?_ hres
      have hd0 : d ≠ 0 := by
        intro e; subst e; exact e2 (by simpa using hav)
      refine ⟨d - 1, by omega, ?_⟩
      have : idx + 1 + (d - 1) = idx + d := by omega
      rw [this]; exact hav
    | some ws =>
      obtain ⟨w, src⟩ := ws
      simp only []
      by_cases hfl : fails.headD false = true
      · simp only [hfl, if_true]
        intro _
        exact Nat.lt_of_le_of_lt (nextGo_mono k (idx + 1) s1 fails.tail D p1).1 (countT_tail_lt fails hfl)
      · simp only [hfl, Bool.false_eq_true, if_false]
        intro hc; cases hc

/-- the loop of `Next` visits every partition -/
theorem visits_all (n next j : Nat) (hn : 0 < n) (hj : j < n) : ∃ d, d < n ∧ (0 + d + next) % n = j := by
  have hq := Nat.div_add_mod next n
  have hr : next % n < n := Nat.mod_lt _ hn
  by_cases hge : next % n ≤ j
  · refine ⟨j - next % n, by omega, ?_⟩
    have : 0 + (j - next % n) + next = j + n * (next / n) := by omega
    rw [this, Nat.add_mul_mod_self_left, Nat.mod_eq_of_lt hj]
  · refine ⟨j + n - next % n, by omega, ?_⟩
    have hm : n * (next / n + 1) = n * (next / n) + n := Nat.mul_succ _ _
    have : 0 + (j + n - next % n) + next = j + n * (next / n + 1) := by omega
    rw [this, Nat.add_mul_mod_self_left, Nat.mod_eq_of_lt hj]

/-- while work-groups are left, some partition can offer one -/
theorem avail_exists (s : Part) (D : List Nat) (h : PI s D) (hlt : s.nd < s.numWG) : ∃ j, j < s.n ∧ avail s j := by
  -- a work-group that was not placed yet
  have hw : ∃ w, w < s.numWG ∧ w ∉ D := by
    apply Classical.byContradiction
    intro hno
    have hsub : List.range s.numWG ⊆ D := by
      intro w hw
      apply Classical.byContradiction
      intro hnw
      exact hno ⟨w, List.mem_range.1 hw, hnw⟩
    have := List.Nodup.length_le_of_subset List.nodup_range hsub
    rw [List.length_range, ← h.hcnt] at this
    omega
  obtain ⟨w, hwlt, hwD⟩ := hw
  have hper := h.hper
  have hj : w / s.per < s.n := Nat.div_lt_of_lt_mul (by rw [Nat.mul_comm]; exact Nat.lt_of_lt_of_le hwlt h.hcov)
  have h1 : w / s.per * s.per ≤ w := Nat.div_mul_le_self w s.per
  have h2 : w < s.per * (w / s.per + 1) := Nat.lt_mul_div_succ w hper
  have h2' : w < w / s.per * s.per + s.per := by
    rw [Nat.mul_succ, Nat.mul_comm] at h2; exact h2
  refine ⟨w / s.per, hj, ?_⟩
  have hnot : ¬ (w / s.per * s.per ≤ w ∧ w < w / s.per * s.per + s.dispAt (w / s.per)) :=
    fun hc => hwD ((h.hD w).2 ⟨_, hj, hc.1, hc.2⟩)
  have hd : s.dispAt (w / s.per) < s.per := by
    apply Classical.byContradiction
    intro hge
    exact hnot ⟨h1, by omega⟩
  refine ⟨hd, ?_⟩
  cases hc : s.curAt (w / s.per) with
  | some x => left; simp
  | none =>
    right
    rw [h.hnone _ hj hc]
    have : ¬ w < w / s.per * s.per + s.dispAt (w / s.per) := fun hc' => hnot ⟨h1, hc'⟩
    omega

/-- one `Next` while work-groups are left: a placement, or a refusal was consumed -/
theorem nextStep_progress (s : Part) (fails : List Bool) (D : List Nat) (h : PI s D) (hlt : s.nd < s.numWG) :
    s.numWG - (s.nextStep fails).1.nd + countT (s.nextStep fails).2.1 < s.numWG - s.nd + countT fails := by
  unfold Part.nextStep
  have hge : ¬ s.nd ≥ s.numWG := by omega
  rw [if_neg hge]
  obtain ⟨m1, m2, m3⟩ := nextGo_mono s.n 0 s fails D h
  cases hres : (Part.nextGo s.n 0 s fails).2.2 with
  | none =>
    obtain ⟨j, hj, hav⟩ := avail_exists s D h hlt
    obtain ⟨d, hd, he⟩ := visits_all s.n s.next j h.hn hj
    have := nextGo_progress s.n 0 s fails D h ⟨d, hd, by rw [he]; exact hav⟩ hres
    rw [m2 hres]
    omega
  | some cw =>
    have := m3 (by rw [hres]; simp)
    rw [this]
    omega

theorem run_not_stuck : ∀ (k : Nat) (s : Part) (fails : List Bool) (acc : List (Option (Nat × Nat))) (D : List Nat),
    PI s D → s.numWG - s.nd + countT fails ≤ k → (Part.run k s fails acc).2 = false := by
  intro k
  induction k with
  | zero =>
    intro s fails acc D _ hk
    simp only [Part.run, decide_eq_false_iff_not]
    omega
  | succ k ih =>
    intro s fails acc D h hk
    simp only [Part.run]
    by_cases hlt : s.nd < s.numWG
    · simp only [hlt, if_true]
      have hp := nextStep_progress s fails D h hlt
      obtain ⟨n1, n2, n3, _⟩ := nextStep_spec s fails D h
      cases hr : (s.nextStep fails).2.2 with
      | none => exact ih _ _ _ D (n1 hr) (by rw [n3]; omega)
      | some cw =>
        obtain ⟨c0, w0⟩ := cw
        exact ih _ _ _ (w0 :: D) (n2 c0 w0 hr).1 (by rw [n3]; omega)
    · simp only [hlt, if_false]

/-- with `numWG + #refusals` calls of `Next` the loop ends because every work-group was placed -/
theorem part_never_stuck (numWG n fuel : Nat) (fails : List Bool) (hn : 0 < n)
    (hfuel : numWG + countT fails ≤ fuel) :
    (Part.run fuel (Part.start numWG n) fails []).2 = false :=
  run_not_stuck fuel _ fails [] [] (start_PI numWG n hn) (by show numWG - 0 + _ ≤ _; omega)

end C09
