import MgpuProofs.C07DispDefs
set_option linter.unusedVariables false
set_option linter.unusedSimpArgs false
/-! # C07 helper lemmas: the return path of scalar loads (`executeSMEMLoad` destination +
`handleScalarDataLoadReturn`). Repaired (`TimingRF.smemReturn`): the destination is SDATA's own
register advanced by the piece offset, written through the register ACCESSOR = `WriteOperandBytes`.
Before the repair (`TimingRF.smemReturnOld`): `insts.SReg(RegIndex()+k)` written through the FILE. -/
namespace C07
open Gen

theorem knownReg_lt (r : Nat) (h : r < 400) : knownReg r = true := by
  unfold knownReg
  have : 400 ≤ regs.size := by decide +kernel
  exact decide_eq_true (by omega)

/-- the raw register-file write at an SGPR is the accessor's write of that SGPR -/
theorem raw_write_s (t : TimingRF) (wi i rc lane : Nat) (d : List UInt8) (hi : i < 102) :
    t.writeOperandBytes wi (R_S0 + i) rc lane d =
      ({ t with sfile := (SimpleRF.write t.sfile S_STRIDE (R_S0 + i) rc lane (t.wf wi).soff d).1 },
       (SimpleRF.write t.sfile S_STRIDE (R_S0 + i) rc lane (t.wf wi).soff d).2) := by
  obtain ⟨n1, n2, n3, n4, n5, n6, n7, n8⟩ := s_not_special i hi
  have hS := isSReg_s i hi
  have hwo : TimingRF.waveOffset (t.wfs.getD wi default) (R_S0 + i) = (t.wf wi).soff := waveOffset_s _ i
  simp only [TimingRF.writeOperandBytes, TimingRF.writeReg, hwo, n1, n2, n3, n4, n5, n6, n7, n8, hS,
    Bool.false_or, Bool.true_or, Bool.false_eq_true, if_false, if_true, SimpleRF.write, SimpleRF.regOffset,
    TimingRF.getRegOffset]
  repeat' split
  all_goals rfl

/-- `smemDstReg` of an SGPR: `s[i+k]` -/
theorem smemDst_s (i k : Nat) (hi : i + k < 102) : TimingRF.smemDst (R_S0 + i) k = R_S0 + (i + k) := by
  have hS := isSReg_s i (by omega)
  simp only [TimingRF.smemDst, hS, if_true, TimingRF.sregAt, regIndex_s i (by omega), Int.ofNat_eq_natCast]
  omega

/-- `smemDstReg` of the first piece is SDATA's own register, whatever it is -/
theorem smemDst_zero (r : Nat) : TimingRF.smemDst r 0 = r := by
  unfold TimingRF.smemDst
  split
  · rename_i hS
    have : R_S0 ≤ r := by
      unfold isSReg at hS
      simp only [Bool.and_eq_true, decide_eq_true_eq] at hS
      exact hS.1
    simp only [TimingRF.sregAt, regIndex, hS, if_true, Int.ofNat_eq_natCast]
    omega
  · rfl

/-- **the repaired return path is the operand write**: whenever the destination register exists and
    is not a VGPR (SDATA is a 7-bit scalar operand: never a VGPR), piece `k` of a scalar load is
    `WriteOperandBytes` of the `len(data)/4` registers from `smemDstReg(SDATA, k)` on -/
theorem smem_return_operand_write (t : TimingRF) (wi r k : Nat) (data : List UInt8)
    (hk : knownReg (TimingRF.smemDst r k) = true) (hV : isVReg (TimingRF.smemDst r k) = false) :
    t.smemReturn wi r k data = t.writeOperandBytes wi (TimingRF.smemDst r k) (data.length / 4) 0 data := by
  simp only [TimingRF.smemReturn, hk, Bool.not_true, Bool.false_eq_true, if_false, TimingRF.writeOperandBytes,
    TimingRF.waveOffset, hV]

/-- **scalar load returning into SGPRs = the operand write of those SGPRs.** Piece `k` (in dwords) of a
    load whose SDATA is `s i`: the return path writes registers `s[i+k …]` exactly as
    `WriteOperandBytes` of that SGPR operand with `RegCount = len(data)/4` does. -/
theorem smem_return_sgpr (t : TimingRF) (wi i k : Nat) (data : List UInt8) (hi : i + k < 102) :
    t.smemReturn wi (R_S0 + i) k data = t.writeOperandBytes wi (R_S0 + (i + k)) (data.length / 4) 0 data := by
  have hk : knownReg (R_S0 + (i + k)) = true := knownReg_lt _ (by simp only [R_S0]; omega)
  have := smem_return_operand_write t wi (R_S0 + i) k data (by rw [smemDst_s i k hi]; exact hk)
    (by rw [smemDst_s i k hi]; exact isVReg_s _)
  rw [this, smemDst_s i k hi]

/-- before the repair the same held for SGPR destinations (the raw register-file write at an SGPR is
    the accessor's write of that SGPR) -/
theorem smem_return_sgpr_before_fix (t : TimingRF) (wi i k : Nat) (data : List UInt8) (hi : i + k < 102) :
    t.smemReturnOld wi (R_S0 + i) k data = t.writeOperandBytes wi (R_S0 + (i + k)) (data.length / 4) 0 data := by
  have hS := isSReg_s i (by omega)
  have hidx : TimingRF.sregAt (TimingRF.regIndexInt (R_S0 + i) + Int.ofNat k) = R_S0 + (i + k) := by
    simp only [TimingRF.sregAt, TimingRF.regIndexInt, hS, Bool.true_or, if_true, regIndex_s i (by omega),
      Int.ofNat_eq_natCast]
    omega
  have hk : knownReg (R_S0 + (i + k)) = true := knownReg_lt _ (by simp only [R_S0]; omega)
  rw [raw_write_s t wi (i + k) _ 0 data hi]
  simp only [TimingRF.smemReturnOld, hidx, hk, Bool.not_true, Bool.false_eq_true, if_false, TimingRF.wf]

/-- BEFORE THE REPAIR: destination of a scalar load whose SDATA is neither an SGPR nor a VGPR (VCC, M0, EXEC, …):
    `RegIndex()` is −1, `insts.SReg(−1 + k)` is `Regs[S0 − 1 + k]` -/
theorem smem_dst_special (r k : Nat) (hS : isSReg r = false) (hV : isVReg r = false) :
    TimingRF.sregAt (TimingRF.regIndexInt r + Int.ofNat k) = R_V255 + k := by
  simp only [TimingRF.sregAt, TimingRF.regIndexInt, hS, hV, Bool.or_self, Bool.false_eq_true, if_false, R_S0, R_V255,
    Int.ofNat_eq_natCast]
  omega

/-- **BEFORE THE REPAIR a scalar load into a special register never reached that register**: for SDATA = VCC / M0 / EXEC …
    and the first piece (`k = 0`) the return path leaves every wavefront record (hence VCC, EXEC, SCC,
    M0 of every wavefront) and every vector file alone, and the only bytes of the scalar file that can
    change are `[SRegOffset + 1020, SRegOffset + 1020 + len(data))` — beyond the loader's own SGPR
    window (a wavefront owns at most 102 SGPRs = 408 bytes). -/
theorem smem_return_special_before_fix (t : TimingRF) (wi r : Nat) (data : List UInt8)
    (hS : isSReg r = false) (hV : isVReg r = false) :
    (t.smemReturnOld wi r 0 data).1.wfs = t.wfs ∧ (t.smemReturnOld wi r 0 data).1.vfiles = t.vfiles ∧
    (∀ p, ¬ ((t.wf wi).soff + 1020 ≤ p ∧ p < (t.wf wi).soff + 1020 + 4 * cnt (data.length / 4)) →
      get (t.smemReturnOld wi r 0 data).1.sfile p = get t.sfile p) ∧
    ((t.wf wi).ns ≤ 102 → ∀ p, (t.wf wi).soff + 1020 ≤ p → ¬ ownS (t.wf wi) p) := by
  have hd : TimingRF.sregAt (TimingRF.regIndexInt r + Int.ofNat 0) = 257 := by
    rw [smem_dst_special r 0 hS hV]; rfl
  have hk : knownReg 257 = true := knownReg_lt _ (by omega)
  have hv255 : isVReg 257 = true := by decide
  have hs255 : isSReg 257 = false := by decide
  have hri : regIndex 257 = 255 := by decide
  refine ⟨?_, ?_, ?_, ?_⟩
  · simp only [TimingRF.smemReturnOld, hd, hk, Bool.not_true, Bool.false_eq_true, if_false]
  · simp only [TimingRF.smemReturnOld, hd, hk, Bool.not_true, Bool.false_eq_true, if_false]
  · intro p hp
    simp only [TimingRF.smemReturnOld, hd, hk, Bool.not_true, Bool.false_eq_true, if_false, SimpleRF.write,
      SimpleRF.regOffset, hs255, hv255, if_true, hri, S_STRIDE, Nat.mul_zero, Nat.zero_mul, Nat.add_zero, TimingRF.wf,
      cnt_beq] at hp ⊢
    split
    · split
      · rfl
      · apply get_wr_out
        rw [List.length_take]
        omega
    · rfl
  · intro hns p hp hown
    unfold ownS at hown
    omega

end C07
