import MgpuProofs.C10BuddyTrip2
import MgpuProofs.C10BuddyTrip4
import MgpuProofs.C10BuddyTrip5
import MgpuProofs.C10BuddyTrip6
/-!
Buddy allocator, round trips — part 3: device-level operations and whole histories keep the bundle `TCore`
(tree invariant + no two free siblings + every allocated block holds a tracked page + exact tracker counts +
bit-field sizes and valid bits), the tracked pages are exactly the live pages, and the consequences:
the empty tracker map means a fresh device (`core_collapse`), everything can be given back (`core_give_back`),
free blocks and accounted blocks partition the device (`core_conservation`).
-/
namespace C10.Buddy

/-- an `allocateMultiplePages(n)` request asks for at least one page -/
def AmPos : Op → Prop
  | .am n => 1 ≤ n
  | _ => True

structure TCore (F base : Nat) (s : State) : Prop where
  f : FInv F s
  n : NInv F s
  e : EAll F s
  keys : Keys s
  cnt : CntEq s
  nb : NB F s
  bv : BV F s
  hbase : s.base = base

theorem core_init (F base : Nat) : TCore F base (init base (4096 * 2 ^ F)) := by
  have hsplit : ∀ l k, ¬ SplitN F (init base (4096 * 2 ^ F)) l k := by
    intro l k hs
    have := hs.2
    simp [init] at this
  refine ⟨finv_init F base, ?_, ?_, ?_, ?_, nb_init F base, bv_init F base, rfl⟩
  · intro l k _ _ hs
    exact absurd hs (hsplit l k)
  · intro l k _ hk hu
    exfalso
    cases l with
    | zero =>
      have e : k = 0 := by simpa using hk
      subst e
      apply hu.2.2
      show addr base F 0 0 ∈ lvl (init base (4096 * 2 ^ F)).free 0
      simp [addr, init, lvl]
    | succ l0 => exact hsplit _ _ (hu.1 l0 rfl)
  · simp [Keys, init]
  · intro id ia num e
    simp [init] at e

/-! ## steps -/

theorem core_allocMulti {F base : Nat} {s s' : State} {n : Nat} {pages : List Nat} (h : TCore F base s) (hn : 1 ≤ n)
    (ha : allocMultiPos s n = .ok (pages, s')) :
    TCore F base s' ∧ (∀ q, Tracked s' q ↔ (q ∈ pages ∨ Tracked s q)) ∧ pages.Nodup ∧ ∀ q ∈ pages, ¬ Tracked s q := by
  obtain ⟨f', b', -⟩ := finv_allocMulti h.f ha
  obtain ⟨N', E', K', C', T', P', Q'⟩ := trip_allocMulti h.f h.n h.e h.keys h.cnt ha
  exact ⟨⟨f', N', E' hn, K', C', (allocMulti_nbits ha).trans h.nb, bv_allocMulti h.f h.bv ha, b'.trans h.hbase⟩,
    T', P', Q'⟩

theorem core_popOne {F base : Nat} {s s' : State} {p : Nat} (h : TCore F base s) (hp : popOne s = .ok (p, s')) :
    TCore F base s' ∧ (∀ q, Tracked s' q ↔ (q = p ∨ Tracked s q)) ∧ ¬ Tracked s p := by
  unfold popOne at hp
  rw [allocMulti_pos s (by decide)] at hp
  split at hp
  · cases hp
  · split at hp
    · cases hp
    · rename_i ps s1 ha
      simp only [] at hp
      split at hp
      · injection hp with hp
        injection hp with h1 h2
        subst h2
        obtain ⟨c, T, -, Q⟩ := core_allocMulti h (Nat.le_refl 1) ha
        obtain ⟨i, level, blk, rest, -, -, -, -, hpages, -⟩ := allocMulti_ok ha (by rw [h.f.hlen]; omega)
        have e : ps = [p] := by rw [hpages, ← h1, hpages]; rfl
        subst e
        refine ⟨c, ?_, Q p (by simp)⟩
        intro q
        rw [T q]
        simp
      · cases hp

theorem core_popN {F base : Nat} : ∀ (k : Nat) (s s' : State) (ps : List Nat), TCore F base s →
    popN k s = .ok (ps, s') →
    TCore F base s' ∧ (∀ q, Tracked s' q ↔ (q ∈ ps ∨ Tracked s q)) ∧ ps.Nodup ∧ ∀ q ∈ ps, ¬ Tracked s q := by
  intro k
  induction k with
  | zero =>
    intro s s' ps h hp
    simp only [popN] at hp
    injection hp with hp
    injection hp with h1 h2
    subst h1; subst h2
    exact ⟨h, by simp, List.nodup_nil, by simp⟩
  | succ k ih =>
    intro s s' ps h hp
    simp only [popN] at hp
    split at hp
    · cases hp
    · rename_i p s1 h1
      split at hp
      · cases hp
      · rename_i ps' s2 h2
        injection hp with hp
        injection hp with e1 e2
        subst e1; subst e2
        obtain ⟨c1, T1, Q1⟩ := core_popOne h h1
        obtain ⟨c2, T2, P2, Q2⟩ := ih _ _ _ c1 h2
        refine ⟨c2, ?_, ?_, ?_⟩
        · intro q
          rw [T2 q, T1 q, List.mem_cons]
          constructor
          · rintro (hq | hq | hq)
            · exact Or.inl (Or.inr hq)
            · exact Or.inl (Or.inl hq)
            · exact Or.inr hq
          · rintro ((hq | hq) | hq)
            · exact Or.inr (Or.inl hq)
            · exact Or.inl hq
            · exact Or.inr (Or.inr hq)
        · refine List.nodup_cons.mpr ⟨?_, P2⟩
          intro hmem
          exact Q2 p hmem ((T1 p).mpr (Or.inl rfl))
        · intro q hq
          rcases List.mem_cons.mp hq with rfl | hq
          · exact Q1
          · intro ht
            exact Q2 q hq ((T1 q).mpr (Or.inr ht))

theorem core_amOp {F base : Nat} {s s' : State} {ps : List Nat} {n : Nat} (h : TCore F base s) (hn : 1 ≤ n)
    (hp : amOp s n = .ok (ps, s')) :
    TCore F base s' ∧ (∀ q, Tracked s' q ↔ (q ∈ ps ∨ Tracked s q)) ∧ ps.Nodup ∧ ∀ q ∈ ps, ¬ Tracked s q := by
  unfold amOp at hp
  rw [allocMulti_pos s (by omega)] at hp
  split at hp
  · cases hp
  · split at hp
    · cases hp
    · rename_i ps1 s1 ha
      split at hp
      · injection hp with hp
        injection hp with h1 h2
        subst h1; subst h2
        exact core_allocMulti h hn ha
      · cases hp

theorem core_addSingle {F base : Nat} {s s' : State} {p : Nat} (h : TCore F base s) (ha : addSingle s p = .ok s') :
    TCore F base s' ∧ ∀ q, Tracked s' q ↔ (Tracked s q ∧ q ≠ p) := by
  obtain ⟨f', b', -⟩ := finv_addSingle h.f ha
  obtain ⟨N', E', K', C', T'⟩ := trip_addSingle h.f h.n h.e h.keys h.cnt ha
  obtain ⟨s'', e'', n''⟩ := addSingle_total (p := p) h.f h.nb
  rw [ha] at e''
  injection e'' with e''
  subst e''
  exact ⟨⟨f', N', E', K', C', n''.trans h.nb, bv_addSingle h.f h.bv ha, b'.trans h.hbase⟩, T'⟩

theorem core_addAll {F base : Nat} : ∀ (ps : List Nat) (s s' : State), TCore F base s → addAll ps s = .ok s' →
    TCore F base s' ∧ ∀ q, Tracked s' q ↔ (Tracked s q ∧ q ∉ ps) := by
  intro ps
  induction ps with
  | nil =>
    intro s s' h ha
    simp only [addAll] at ha
    injection ha with ha
    subst ha
    exact ⟨h, by simp⟩
  | cons p ps ih =>
    intro s s' h ha
    simp only [addAll] at ha
    split at ha
    · cases ha
    · rename_i s1 h1
      obtain ⟨c1, T1⟩ := core_addSingle h h1
      obtain ⟨c2, T2⟩ := ih s1 s' c1 ha
      refine ⟨c2, ?_⟩
      intro q
      rw [T2 q, T1 q, List.mem_cons]
      constructor
      · rintro ⟨⟨a, b⟩, c⟩
        exact ⟨a, fun hh => hh.elim b c⟩
      · rintro ⟨a, b⟩
        exact ⟨⟨a, fun hh => b (Or.inl hh)⟩, fun hh => b (Or.inr hh)⟩

/-! ## histories -/

/-- every history (legal or not; requests for no page included: they change nothing) keeps the bundle, and the pages with a
`blockTracking` entry are exactly the live pages, each once -/
theorem core_runLive {F base : Nat} : ∀ (ops : List Op) (s : State) (live : List Nat),
    TCore F base s → (∀ p, Tracked s p ↔ p ∈ live) → live.Nodup →
    TCore F base (runLive s live ops).st ∧ (∀ p, Tracked (runLive s live ops).st p ↔ p ∈ (runLive s live ops).live) ∧
      (runLive s live ops).live.Nodup := by
  intro ops
  induction ops with
  | nil =>
    intro s live h hl hn
    exact ⟨h, hl, hn⟩
  | cons op ops ih =>
    intro s live h hl hn
    have halloc : ∀ (out : List Nat) (s1 : State), TCore F base s1 →
        (∀ q, Tracked s1 q ↔ (q ∈ out ∨ Tracked s q)) → out.Nodup → (∀ q ∈ out, ¬ Tracked s q) →
        TCore F base (runLive s1 (live ++ out) ops).st ∧
        (∀ p, Tracked (runLive s1 (live ++ out) ops).st p ↔ p ∈ (runLive s1 (live ++ out) ops).live) ∧
          (runLive s1 (live ++ out) ops).live.Nodup := by
      intro out s1 c1 T1 P1 Q1
      apply ih s1 _ c1
      · intro p
        rw [T1 p, hl p, List.mem_append]
        exact Or.comm
      · refine List.nodup_append.mpr ⟨hn, P1, ?_⟩
        intro a ha b hb' e
        subst e
        exact Q1 a hb' ((hl a).mpr ha)
    cases op with
    | add ps =>
      simp only [runLive]
      split
      · rename_i hlegal
        split
        · exact ⟨h, hl, hn⟩
        · rename_i out s1 hstep
          simp only [step] at hstep
          split at hstep
          · cases hstep
          · rename_i s2 hadd
            injection hstep with hstep
            injection hstep with _ e
            subst e
            obtain ⟨c1, T1⟩ := core_addAll ps s s2 h hadd
            apply ih s2 _ c1
            · intro p
              rw [T1 p, hl p, List.mem_filter]
              simp
            · exact hn.filter _
      · exact ⟨h, hl, hn⟩
    | pop k =>
      simp only [runLive]
      split
      · exact ⟨h, hl, hn⟩
      · rename_i out s1 hstep
        simp only [step] at hstep
        obtain ⟨c1, T1, P1, Q1⟩ := core_popN k s s1 out h hstep
        exact halloc out s1 c1 T1 P1 Q1
    | am n =>
      simp only [runLive]
      split
      · exact ⟨h, hl, hn⟩
      · rename_i out s1 hstep
        simp only [step] at hstep
        by_cases hn0 : n = 0
        · -- `allocateMultiplePages(0)`: no page, no block, no tracker — the state is unchanged
          subst hn0
          obtain ⟨rfl, rfl⟩ := amOp_zero_ok hstep
          exact halloc [] _ h (fun q => by simp) List.nodup_nil (fun q hq => by cases hq)
        · obtain ⟨c1, T1, P1, Q1⟩ := core_amOp h (by omega) hstep
          exact halloc out s1 c1 T1 P1 Q1

/-! ## consequences -/

/-- no tracked page ⇒ the state is the fresh device (apart from the retired trackers) -/
theorem core_collapse {F base : Nat} {s : State} (h : TCore F base s) (hT : ∀ p, ¬ Tracked s p) :
    s.free = [base] :: List.replicate F [] ∧ s.split = [] ∧ s.merge = [] ∧ s.track = [] := by
  have hU : ∀ l k, l ≤ F → k < 2 ^ l → ¬ UsedN F s l k := by
    intro l k hl hk hu
    obtain ⟨p, id, hp, -, -⟩ := h.e l k hl hk hu
    exact hT p ⟨id, hp⟩
  obtain ⟨hns, hroot, hnf, hnm⟩ := tree_collapse h.f.tree h.n hU
  have hb := h.hbase
  have haddr0 : addr s.base F 0 0 = base := by simp [addr, hb]
  refine ⟨?_, ?_, ?_, ?_⟩
  · apply free_eq_fresh h.f.hlen
    · apply eq_singleton_of_nodup (h.f.fnodup 0)
      · rw [← haddr0]; exact hroot
      · intro x hx
        obtain ⟨k, hk, rfl⟩ := h.f.fnode 0 x hx
        have e : k = 0 := by simpa using hk
        subst e
        exact haddr0
    · intro l
      apply List.eq_nil_iff_forall_not_mem.mpr
      intro a ha
      obtain ⟨k, hk, rfl⟩ := h.f.fnode (l + 1) a ha
      exact hnf l k (h.f.level_le ha) hk ha
  · exact bv_split_nil h.bv (fun l k hl hk => hns l k (by omega) hk)
  · exact bv_merge_nil h.bv hnm
  · apply List.eq_nil_iff_forall_not_mem.mpr
    rintro ⟨p, id⟩ hp
    exact hT p ⟨id, hp⟩

/-- returning every live page succeeds and restores the fresh device -/
theorem core_give_back {F base : Nat} {s : State} {live : List Nat} (h : TCore F base s)
    (hl : ∀ p, Tracked s p ↔ p ∈ live) :
    ∃ s', addAll live s = .ok s' ∧ s'.free = [base] :: List.replicate F [] ∧ s'.split = [] ∧ s'.merge = [] ∧
      s'.track = [] := by
  obtain ⟨s', e, -⟩ := addAll_total live s h.f h.nb
  obtain ⟨c, T⟩ := core_addAll live s s' h e
  refine ⟨s', e, core_collapse c ?_⟩
  intro p hp
  obtain ⟨a, b⟩ := (T p).mp hp
  exact b ((hl p).mp a)

/-- page `q` lies inside a block of a free list -/
def InFreeBlock (s : State) (q : Nat) : Prop := ∃ l a, a ∈ lvl s.free l ∧ inBlock s.size a l q

/-- page `q` lies inside the block of a live page `p`: `p` is mapped to a tracker `(a, num)` that still counts
pages, and the block `freeBlock` would release for it (`levelOfBlock(a)`) contains both `p` and `q` -/
def Accounted (s : State) (live : List Nat) (q : Nat) : Prop :=
  ∃ p ∈ live, ∃ id a num lv, (p, id) ∈ s.track ∧ s.trk[id]? = some (a, num) ∧ 0 < num ∧
    levelOf s a (s.free.length - 1) = .ok lv ∧ inBlock s.size a lv q ∧ inBlock s.size a lv p

theorem core_conservation {F base : Nat} {s : State} {live : List Nat} (h : TCore F base s)
    (hl : ∀ p, Tracked s p ↔ p ∈ live) (j : Nat) (hj : j < 2 ^ F) :
    (InFreeBlock s (base + 4096 * j) ∨ Accounted s live (base + 4096 * j)) ∧
    ¬ (InFreeBlock s (base + 4096 * j) ∧ Accounted s live (base + 4096 * j)) := by
  have hb := h.hbase
  have hsz := h.f.hsize
  have hlenF : s.free.length - 1 = F := by rw [h.f.hlen]; omega
  -- the block of a tracked page, as `Accounted` sees it
  have hacc : ∀ p id a num lv, (p, id) ∈ s.track → s.trk[id]? = some (a, num) →
      levelOf s a (s.free.length - 1) = .ok lv →
      ∃ k, lv ≤ F ∧ k < 2 ^ lv ∧ a = addr s.base F lv k ∧ UsedN F s lv k := by
    intro p id a num lv hp e hlv
    obtain ⟨l2, k2, num2, hl2, hk2, e2, hu2, -, -⟩ := h.f.D p id hp
    rw [e] at e2
    injection e2 with e2
    injection e2 with e2 _
    subst e2
    rw [levelOf_total h.f h.nb hl2 hk2 hu2.1 hu2.2.1] at hlv
    injection hlv with hlv
    subst hlv
    exact ⟨k2, hl2, hk2, rfl, hu2⟩
  refine ⟨?_, ?_⟩
  · obtain ⟨l, k, hl', hk, hex, hns, c1, c2⟩ := leaf_cover h.f.tree s.base j hj
    rw [hb] at c1 c2
    by_cases hf : FreeN F s l k
    · left
      refine ⟨l, addr s.base F l k, hf, ?_⟩
      unfold inBlock
      rw [hsz, hb]
      exact ⟨c1, c2⟩
    · right
      obtain ⟨p, id, hp, g1, g2⟩ := h.e l k hl' hk ⟨hex, hns, hf⟩
      obtain ⟨l2, k2, num2, hl2, hk2, e2, hu2, r1, r2⟩ := h.f.D p id hp
      obtain ⟨q1, q2⟩ := leaf_overlap h.f.tree hl' hk hl2 hk2 hex hns hu2.1 hu2.2.1 g1 g2 r1 r2
      subst q1; subst q2
      have hnum : 0 < num2 := by
        have c := h.cnt id _ _ e2
        have : 0 < (s.track.filter (fun e => e.2 == id)).length :=
          List.length_pos_of_mem (List.mem_filter.mpr ⟨hp, by simp⟩)
        omega
      refine ⟨p, (hl p).mp ⟨id, hp⟩, id, addr s.base F l k, num2, l, hp, e2, hnum,
        levelOf_total h.f h.nb hl' hk hex hns, ?_, ?_⟩
      · unfold inBlock
        rw [hsz, hb]
        exact ⟨c1, c2⟩
      · unfold inBlock
        rw [hsz]
        exact ⟨g1, g2⟩
  · rintro ⟨⟨l, a, ha, hin⟩, ⟨p, -, id, a', num, lv, hp, e, -, hlv, hin', -⟩⟩
    obtain ⟨k, hk, rfl⟩ := h.f.fnode l a ha
    have hlF := h.f.level_le ha
    obtain ⟨fex, fns⟩ := h.f.tree.A l k hlF hk ha
    obtain ⟨k2, hl2, hk2, rfl, hu2⟩ := hacc p id a' num lv hp e hlv
    unfold inBlock at hin hin'
    rw [hsz] at hin hin'
    obtain ⟨q1, q2⟩ := leaf_overlap h.f.tree hlF hk hl2 hk2 fex fns hu2.1 hu2.2.1 hin.1 hin.2 hin'.1 hin'.2
    subst q1; subst q2
    exact hu2.2.2 ha

end C10.Buddy
