import MgpuModel.C14_Flush
/-! # C14 flush / restart — invariant of one memory path (`Chan`) and its preservation by every
channel operation of `MgpuModel/C14_Flush.lean`. -/
namespace C14.Flush

/-- number of records of wavefront `w` whose answer decrements the counters -/
def cnt (l : List Entry) (w : Nat) : Nat := (l.filter (fun e => e.wf == w && e.last)).length

theorem cnt_append (a b : List Entry) (w : Nat) : cnt (a ++ b) w = cnt a w + cnt b w := by
  simp [cnt, List.filter_append]

theorem cnt_nil (w : Nat) : cnt [] w = 0 := rfl

theorem ids_append (a b : List Entry) : ids (a ++ b) = ids a ++ ids b := by simp [ids]

theorem mem_ids {l : List Entry} {i : Nat} : i ∈ ids l ↔ ∃ e ∈ l, e.id = i := by simp [ids]

/-- the invariant of one memory path. `nextId`: the next fresh record id; `paused` / `sending`:
    `isPaused` / `isSendingOutShadowBufferReqs` of the compute unit. -/
structure ChanOK (c : Chan) (nextId : Nat) (paused sending : Bool) : Prop where
  /-- in-flight list followed by shadow list is in issue order (so no record occurs twice) -/
  sorted : (ids (c.inf ++ c.sh)).Pairwise (· < ·)
  /-- every record ever created is either answered or in exactly one of the two lists -/
  cons : (c.applied ++ ids (c.inf ++ c.sh)).Perm c.issued
  issuedNodup : c.issued.Nodup
  bound : ∀ i ∈ c.issued, i < nextId
  sentBound : ∀ r ∈ c.sent, r.1 < nextId
  /-- no request ID is put on the port twice -/
  sentNodup : c.sent.Nodup
  /-- requests of a record that were sent carry a generation up to the record's current one -/
  genBound : ∀ e ∈ c.inf ++ c.sh, ∀ g, (e.id, g) ∈ c.sent → g ≤ e.gen
  /-- a queued request belongs to an in-flight record that was never sent -/
  unitSub : ∀ i ∈ c.unit, (∃ e ∈ c.inf, e.id = i ∧ e.gen = 0) ∧ ∀ g, (i, g) ∉ c.sent
  unitNodup : c.unit.Nodup
  /-- no orphan: the current request of an in-flight record is queued in the unit or was sent -/
  noOrphan : ∀ e ∈ c.inf, e.id ∈ c.unit ∨ (e.id, e.gen) ∈ c.sent
  pausedUnit : paused = true → c.unit = []
  runningSh : paused = false → c.sh = []
  /-- paused and not re-sending: nothing is in flight -/
  pausedIdle : paused = true → sending = false → c.inf = []
  /-- the records saved by the last flush: those already re-sent, then those still waiting, in order -/
  resentEq : c.resent ++ ids c.sh = c.flushed
  flushedNodup : c.flushed.Nodup
  /-- the memory side answers only requests it has received -/
  inpSent : ∀ r ∈ c.inp, r ∈ c.sent

theorem ChanOK.empty (n : Nat) (p q : Bool) : ChanOK Chan.empty n p q := by
  constructor <;> simp [Chan.empty, ids]

theorem ChanOK.idsNodup {c : Chan} {n p q} (h : ChanOK c n p q) : (ids (c.inf ++ c.sh)).Nodup :=
  h.sorted.imp (fun hlt => Nat.ne_of_lt hlt)

theorem ChanOK.mono {c : Chan} {n m p q} (h : ChanOK c n p q) (hnm : n ≤ m) : ChanOK c m p q :=
  { h with bound := fun i hi => Nat.lt_of_lt_of_le (h.bound i hi) hnm
           sentBound := fun r hr => Nat.lt_of_lt_of_le (h.sentBound r hr) hnm }

theorem ChanOK.mem_issued {c : Chan} {n p q} (h : ChanOK c n p q) {e : Entry} (he : e ∈ c.inf ++ c.sh) :
    e.id ∈ c.issued :=
  h.cons.mem_iff.mp (List.mem_append_right _ (mem_ids.mpr ⟨e, he, rfl⟩))

/-- two records of the lists with the same id are the same record -/
theorem ChanOK.eq_of_id {c : Chan} {n p q} (h : ChanOK c n p q) {a b : Entry}
    (ha : a ∈ c.inf ++ c.sh) (hb : b ∈ c.inf ++ c.sh) (hid : a.id = b.id) : a = b := by
  have hn := h.idsNodup
  generalize c.inf ++ c.sh = l at ha hb hn
  induction l with
  | nil => cases ha
  | cons x xs ih =>
    simp only [ids, List.map_cons, List.nodup_cons, List.mem_map, not_exists, not_and] at hn
    rcases List.mem_cons.mp ha with rfl | ha' <;> rcases List.mem_cons.mp hb with rfl | hb'
    · rfl
    · exact absurd hid.symm (hn.1 b hb')
    · exact absurd hid (hn.1 a ha')
    · exact ih ha' hb' (by simpa [ids] using hn.2)

/-! ## records created by one instruction -/

theorem ids_mkEntries (base w n : Nat) : ids (mkEntries base w n) = (List.range n).map (base + ·) := by
  simp [ids, mkEntries, List.map_map, Function.comp_def]

theorem mkEntries_gen {base w n : Nat} {e : Entry} (he : e ∈ mkEntries base w n) : e.gen = 0 := by
  simp only [mkEntries, List.mem_map, List.mem_range] at he
  obtain ⟨i, _, rfl⟩ := he; rfl

theorem mem_ids_mkEntries {base w n i : Nat} : i ∈ ids (mkEntries base w n) ↔ base ≤ i ∧ i < base + n := by
  rw [ids_mkEntries]
  simp only [List.mem_map, List.mem_range]
  constructor
  · rintro ⟨j, hj, rfl⟩; omega
  · rintro ⟨h1, h2⟩; exact ⟨i - base, by omega, by omega⟩

theorem ids_mkEntries_sorted (base w n : Nat) : (ids (mkEntries base w n)).Pairwise (· < ·) := by
  rw [ids_mkEntries, List.pairwise_map]
  exact (List.pairwise_lt_range (n := n)).imp (by intro a b h; omega)

theorem ids_mkEntries_nodup (base w n : Nat) : (ids (mkEntries base w n)).Nodup :=
  (ids_mkEntries_sorted base w n).imp (fun h => Nat.ne_of_lt h)

/-- exactly the last record of an instruction carries the counter decrement -/
theorem cnt_mkEntries (base w n w' : Nat) (hn : 0 < n) :
    cnt (mkEntries base w n) w' = if w = w' then 1 else 0 := by
  unfold cnt mkEntries
  rw [List.filter_map, List.length_map]
  by_cases hw : w = w'
  · subst hw
    have : (List.range n).filter ((fun e : Entry => e.wf == w && e.last) ∘
        fun i => ({ id := base + i, wf := w, last := i + 1 == n, gen := 0 } : Entry)) =
        (List.range n).filter (fun i => i + 1 == n) := by
      apply List.filter_congr; intro i _; simp
    rw [this, if_pos rfl]
    have h2 : (List.range n).filter (fun i => i + 1 == n) = [n - 1] := by
      obtain ⟨m, rfl⟩ : ∃ m, n = m + 1 := ⟨n - 1, by omega⟩
      rw [List.range_succ, List.filter_append]
      have : (List.range m).filter (fun i => i + 1 == m + 1) = [] := by
        apply List.filter_eq_nil_iff.mpr; intro i hi; simp at hi ⊢; omega
      simp only [this, List.nil_append]
      simp
    rw [h2]; rfl
  · rw [if_neg hw]
    have : (List.range n).filter ((fun e : Entry => e.wf == w' && e.last) ∘
        fun i => ({ id := base + i, wf := w, last := i + 1 == n, gen := 0 } : Entry)) = [] := by
      apply List.filter_eq_nil_iff.mpr; intro i _; simp [hw]
    rw [this]; rfl

/-! ## issue -/

theorem ChanOK.issueQ {c : Chan} {n : Nat} {q : Bool} (h : ChanOK c n false q) (w k : Nat) :
    ChanOK (c.issueQ (mkEntries n w k)) (n + k) false q := by
  have hsh : c.sh = [] := h.runningSh rfl
  have hold : ∀ i ∈ ids c.inf, i < n := by
    intro i hi
    obtain ⟨e, he, rfl⟩ := mem_ids.mp hi
    exact h.bound _ (h.mem_issued (List.mem_append_left _ he))
  have hsorted0 : (ids c.inf).Pairwise (· < ·) := by simpa [hsh] using h.sorted
  have hfresh : ∀ i ∈ ids (mkEntries n w k), i ∉ c.issued := by
    intro i hi hiss
    have := h.bound i hiss
    have := (mem_ids_mkEntries.mp hi).1
    omega
  refine
    { sorted := ?_, cons := ?_, issuedNodup := ?_, bound := ?_, sentBound := ?_, sentNodup := h.sentNodup,
      genBound := ?_, unitSub := ?_, unitNodup := ?_, noOrphan := ?_, pausedUnit := (by intro hp; cases hp),
      runningSh := fun _ => hsh, pausedIdle := (by intro hp; cases hp), resentEq := h.resentEq, flushedNodup := h.flushedNodup, inpSent := h.inpSent }
  · simp only [Chan.issueQ, hsh, List.append_nil, ids_append]
    rw [List.pairwise_append]
    refine ⟨hsorted0, ids_mkEntries_sorted _ _ _, ?_⟩
    intro a ha b hb
    have := hold a ha
    have := (mem_ids_mkEntries.mp hb).1
    omega
  · simp only [Chan.issueQ, hsh, List.append_nil, ids_append]
    have := h.cons
    simp only [hsh, List.append_nil] at this
    rw [← List.append_assoc]
    exact this.append_right _
  · simp only [Chan.issueQ]
    rw [List.nodup_append]
    exact ⟨h.issuedNodup, ids_mkEntries_nodup _ _ _, fun a ha b hb hab => hfresh b hb (hab ▸ ha)⟩
  · intro i hi
    simp only [Chan.issueQ, List.mem_append] at hi
    rcases hi with hi | hi
    · have := h.bound i hi; omega
    · exact (mem_ids_mkEntries.mp hi).2
  · intro r hr
    have := h.sentBound r hr; simp only [Chan.issueQ] at hr ⊢; omega
  · intro e he g hg
    simp only [Chan.issueQ, hsh, List.append_nil, List.mem_append] at he hg
    rcases he with he | he
    · exact h.genBound e (List.mem_append_left _ he) g hg
    · have h1 := h.sentBound _ hg
      have h2 := (mem_ids_mkEntries.mp (mem_ids.mpr ⟨e, he, rfl⟩)).1
      simp at h1; omega
  · intro i hi
    simp only [Chan.issueQ, List.mem_append] at hi ⊢
    rcases hi with hi | hi
    · obtain ⟨⟨e, he, h1, h2⟩, h3⟩ := h.unitSub i hi
      exact ⟨⟨e, Or.inl he, h1, h2⟩, h3⟩
    · obtain ⟨e, he, rfl⟩ := mem_ids.mp hi
      refine ⟨⟨e, Or.inr he, rfl, mkEntries_gen he⟩, ?_⟩
      intro g hg
      have h1 := h.sentBound _ hg
      have h2 := (mem_ids_mkEntries.mp hi).1
      simp at h1; omega
  · simp only [Chan.issueQ]
    rw [List.nodup_append]
    refine ⟨h.unitNodup, ids_mkEntries_nodup _ _ _, ?_⟩
    intro a ha b hb hab
    obtain ⟨⟨e, he, h1, _⟩, _⟩ := h.unitSub a ha
    have := hold a (mem_ids.mpr ⟨e, he, h1⟩)
    have := (mem_ids_mkEntries.mp hb).1
    omega
  · intro e he
    simp only [Chan.issueQ, List.mem_append] at he ⊢
    rcases he with he | he
    · rcases h.noOrphan e he with h1 | h1
      · exact Or.inl (Or.inl h1)
      · exact Or.inr h1
    · exact Or.inl (Or.inr (mem_ids.mpr ⟨e, he, rfl⟩))

theorem ChanOK.issueSent {c : Chan} {n : Nat} {q : Bool} (h : ChanOK c n false q) (w : Nat) (l : Bool) :
    ChanOK (c.issueSent { id := n, wf := w, last := l, gen := 0 }) (n + 1) false q := by
  have hsh : c.sh = [] := h.runningSh rfl
  have hold : ∀ i ∈ ids c.inf, i < n := by
    intro i hi
    obtain ⟨e, he, rfl⟩ := mem_ids.mp hi
    exact h.bound _ (h.mem_issued (List.mem_append_left _ he))
  have hsorted0 : (ids c.inf).Pairwise (· < ·) := by simpa [hsh] using h.sorted
  have hns : ∀ g, (n, g) ∉ c.sent := fun g hg => by have := h.sentBound _ hg; simp at this
  refine
    { sorted := ?_, cons := ?_, issuedNodup := ?_, bound := ?_, sentBound := ?_, sentNodup := ?_,
      genBound := ?_, unitSub := ?_, unitNodup := h.unitNodup, noOrphan := ?_, pausedUnit := (by intro hp; cases hp),
      runningSh := fun _ => hsh, pausedIdle := (by intro hp; cases hp), resentEq := h.resentEq, flushedNodup := h.flushedNodup, inpSent := ?_ }
  · simp only [Chan.issueSent, hsh, List.append_nil, ids_append]
    rw [List.pairwise_append]
    refine ⟨hsorted0, by simp [ids], ?_⟩
    intro a ha b hb
    simp [ids] at hb; subst hb; exact hold a ha
  · simp only [Chan.issueSent, hsh, List.append_nil, ids_append]
    have := h.cons
    simp only [hsh, List.append_nil] at this
    rw [← List.append_assoc]
    exact this.append_right _
  · simp only [Chan.issueSent]
    rw [List.nodup_append]
    refine ⟨h.issuedNodup, by simp, ?_⟩
    intro a ha b hb hab
    simp at hb; subst hb; subst hab
    have := h.bound _ ha; omega
  · intro i hi
    simp only [Chan.issueSent, List.mem_append, List.mem_singleton] at hi
    rcases hi with hi | rfl
    · have := h.bound i hi; omega
    · omega
  · intro r hr
    simp only [Chan.issueSent, List.mem_append, List.mem_singleton] at hr
    rcases hr with hr | rfl
    · have := h.sentBound r hr; omega
    · simp
  · simp only [Chan.issueSent]
    rw [List.nodup_append]
    refine ⟨h.sentNodup, by simp, ?_⟩
    intro a ha b hb hab
    simp at hb; subst hb; subst hab
    exact hns 0 ha
  · intro e he g hg
    simp only [Chan.issueSent, hsh, List.append_nil, List.mem_append, List.mem_singleton] at he hg
    rcases he with he | rfl
    · rcases hg with hg | hg
      · exact h.genBound e (List.mem_append_left _ he) g hg
      · have := hold e.id (mem_ids.mpr ⟨e, he, rfl⟩)
        simp at hg; omega
    · rcases hg with hg | hg
      · exact absurd hg (hns g)
      · simp at hg; omega
  · intro i hi
    simp only [Chan.issueSent] at hi ⊢
    obtain ⟨⟨e, he, h1, h2⟩, h3⟩ := h.unitSub i hi
    refine ⟨⟨e, List.mem_append_left _ he, h1, h2⟩, ?_⟩
    intro g hg
    simp only [List.mem_append, List.mem_singleton] at hg
    rcases hg with hg | hg
    · exact h3 g hg
    · have := hold i (mem_ids.mpr ⟨e, he, h1⟩)
      simp at hg; omega
  · intro e he
    simp only [Chan.issueSent, List.mem_append, List.mem_singleton] at he ⊢
    rcases he with he | rfl
    · rcases h.noOrphan e he with h1 | h1
      · exact Or.inl h1
      · exact Or.inr (Or.inl h1)
    · exact Or.inr (Or.inr rfl)
  · intro r hr
    simp only [Chan.issueSent] at hr ⊢
    exact List.mem_append_left _ (h.inpSent r hr)

/-! ## the unit sends queued requests -/

theorem ChanOK.usend {c : Chan} {n : Nat} {p q : Bool} (h : ChanOK c n p q) (cap k : Nat) :
    ChanOK (c.usend cap k).1 n p q := by
  simp only [Chan.usend]
  generalize min k (min c.unit.length (cap - c.out.length)) = m
  have htake : ∀ i ∈ c.unit.take m, i ∈ c.unit := fun i hi => List.mem_of_mem_take hi
  have hdrop : ∀ i ∈ c.unit.drop m, i ∈ c.unit := fun i hi => List.mem_of_mem_drop hi
  have hsplit : c.unit.take m ++ c.unit.drop m = c.unit := List.take_append_drop m c.unit
  have hdisj : ∀ i ∈ c.unit.take m, i ∉ c.unit.drop m := by
    have hn := h.unitNodup
    rw [← hsplit, List.nodup_append] at hn
    intro i hi hd
    exact hn.2.2 i hi i hd rfl
  have hmemrs : ∀ r : Req, r ∈ (c.unit.take m).map (fun i => (i, 0)) ↔ r.1 ∈ c.unit.take m ∧ r.2 = 0 := by
    intro r
    simp only [List.mem_map]
    constructor
    · rintro ⟨i, hi, rfl⟩; exact ⟨hi, rfl⟩
    · rintro ⟨h1, h2⟩; exact ⟨r.1, h1, by cases r; simp_all⟩
  refine
    { sorted := h.sorted, cons := h.cons, issuedNodup := h.issuedNodup, bound := h.bound, sentBound := ?_,
      sentNodup := ?_, genBound := ?_, unitSub := ?_, unitNodup := ?_, noOrphan := ?_, pausedUnit := ?_,
      runningSh := h.runningSh, pausedIdle := h.pausedIdle, resentEq := h.resentEq, flushedNodup := h.flushedNodup, inpSent := ?_ }
  · intro r hr
    simp only [List.mem_append] at hr
    rcases hr with hr | hr
    · exact h.sentBound r hr
    · obtain ⟨h1, _⟩ := (hmemrs r).mp hr
      obtain ⟨⟨e, he, h2, _⟩, _⟩ := h.unitSub r.1 (htake _ h1)
      exact h2 ▸ h.bound _ (h.mem_issued (List.mem_append_left _ he))
  · rw [List.nodup_append]
    refine ⟨h.sentNodup, ?_, ?_⟩
    · have hn := h.unitNodup
      rw [← hsplit, List.nodup_append] at hn
      exact List.Pairwise.map _ (fun a b hab h => hab (by simpa using h)) hn.1
    · intro a ha b hb hab
      subst hab
      obtain ⟨h1, h2⟩ := (hmemrs a).mp hb
      exact (h.unitSub a.1 (htake _ h1)).2 a.2 (by cases a; exact ha)
  · intro e he g hg
    simp only [List.mem_append] at hg
    rcases hg with hg | hg
    · exact h.genBound e he g hg
    · have := ((hmemrs (e.id, g)).mp hg).2
      simp at this; omega
  · intro i hi
    obtain ⟨h1, h2⟩ := h.unitSub i (hdrop i hi)
    refine ⟨h1, ?_⟩
    intro g hg
    simp only [List.mem_append] at hg
    rcases hg with hg | hg
    · exact h2 g hg
    · exact hdisj i ((hmemrs (i, g)).mp hg).1 hi
  · have hn := h.unitNodup
    rw [← hsplit, List.nodup_append] at hn
    exact hn.2.1
  · intro e he
    rcases h.noOrphan e he with h1 | h1
    · rw [← hsplit, List.mem_append] at h1
      rcases h1 with h1 | h1
      · right
        obtain ⟨⟨e', he', hid, hgen⟩, _⟩ := h.unitSub e.id (htake _ h1)
        have : e' = e := h.eq_of_id (List.mem_append_left _ he') (List.mem_append_left _ he) hid
        subst this
        exact List.mem_append_right _ ((hmemrs (e'.id, e'.gen)).mpr ⟨h1, hgen⟩)
      · exact Or.inl h1
    · exact Or.inr (List.mem_append_left _ h1)
  · intro hp
    simp [h.pausedUnit hp]
  · intro r hr
    exact List.mem_append_left _ (h.inpSent r hr)

/-! ## port traffic -/

theorem ChanOK.deliver {c : Chan} {n : Nat} {p q : Bool} (h : ChanOK c n p q) (cap : Nat) (r : Req)
    (hr : r ∈ c.sent) : ChanOK (c.deliver cap r).1 n p q := by
  unfold Chan.deliver
  split
  · refine { h with inpSent := ?_ }
    intro x hx
    simp only [List.mem_append, List.mem_singleton] at hx
    rcases hx with hx | rfl
    · exact h.inpSent x hx
    · exact hr
  · exact h

theorem ChanOK.take {c : Chan} {n : Nat} {p q : Bool} (h : ChanOK c n p q) (k : Nat) :
    ChanOK (c.take k).1 n p q := { h with }

theorem ChanOK.foreign {c : Chan} {n : Nat} {p q : Bool} (h : ChanOK c n p q) (cap k : Nat) :
    ChanOK (c.foreign cap k).1 n p q := { h with }

theorem ChanOK.setInp {c : Chan} {n : Nat} {p q : Bool} (h : ChanOK c n p q) (l : List Req)
    (hl : ∀ r ∈ l, r ∈ c.inp) : ChanOK { c with inp := l } n p q :=
  { h with inpSent := fun r hr => h.inpSent r (hl r hr) }

/-! ## a response -/

theorem find_erase {α} (p : α → Bool) : ∀ (l : List α) (e : α), l.find? p = some e →
    ∃ l1 l2, l = l1 ++ e :: l2 ∧ l.eraseP p = l1 ++ l2 ∧ p e = true
  | [], _, h => by simp at h
  | x :: xs, e, h => by
    by_cases hx : p x = true
    · simp only [List.find?_cons, hx] at h
      cases h
      exact ⟨[], xs, rfl, by simp [hx], hx⟩
    · have hx' : p x = false := by simpa using hx
      simp only [List.find?_cons, hx'] at h
      obtain ⟨l1, l2, h1, h2, h3⟩ := find_erase p xs e h
      exact ⟨x :: l1, l2, by simp [h1], by simp [hx', h2], h3⟩

/-- what a matched response does to a path -/
theorem respond_some {c : Chan} {r : Req} {c' : Chan} {e : Entry} (h : c.respond r = (c', some e)) :
    ∃ l1 l2, c.inf = l1 ++ e :: l2 ∧ (e.id, e.gen) = r ∧
      c' = { c with inf := l1 ++ l2, applied := c.applied ++ [e.id] } := by
  unfold Chan.respond at h
  split at h
  · cases h
  · rename_i e' hf
    obtain ⟨l1, l2, h1, h2, h3⟩ := find_erase _ _ _ hf
    simp only [Prod.mk.injEq, Option.some.injEq] at h
    obtain ⟨hc, he⟩ := h
    subst he
    refine ⟨l1, l2, h1, ?_, ?_⟩
    · simp only [Entry.is, Bool.and_eq_true, beq_iff_eq] at h3
      cases r; simp_all
    · rw [← hc, h2]

theorem respond_none {c : Chan} {r : Req} {c' : Chan} (h : c.respond r = (c', none)) : c' = c := by
  unfold Chan.respond at h
  split at h
  · simp only [Prod.mk.injEq] at h; exact h.1.symm
  · simp at h

theorem ChanOK.respond {c : Chan} {n : Nat} {p q : Bool} (h : ChanOK c n p q) (r : Req) (hr : r ∈ c.sent) :
    ChanOK (c.respond r).1 n p q := by
  rcases hres : c.respond r with ⟨c', _ | e⟩
  · rw [respond_none hres]; exact h
  · obtain ⟨l1, l2, hinf, hreq, rfl⟩ := respond_some hres
    have hsub : ∀ x, x ∈ l1 ++ l2 → x ∈ c.inf := by
      intro x hx; rw [hinf]; simp only [List.mem_append, List.mem_cons] at hx ⊢
      rcases hx with hx | hx
      · exact Or.inl hx
      · exact Or.inr (Or.inr hx)
    have he : e ∈ c.inf := by rw [hinf]; simp
    have hnotunit : e.id ∉ c.unit := fun hu => (h.unitSub _ hu).2 e.gen (hreq ▸ hr)
    have hnodup := h.idsNodup
    have hne : ∀ x ∈ l1 ++ l2, x.id ≠ e.id := by
      intro x hx hid
      rw [hinf] at hnodup
      simp only [ids, List.map_append, List.map_cons, List.append_assoc] at hnodup
      have h1 := List.nodup_append.mp hnodup
      have h2 := List.nodup_cons.mp h1.2.1
      rcases List.mem_append.mp hx with hx | hx
      · exact h1.2.2 x.id (List.mem_map_of_mem hx) e.id (by simp) hid
      · exact h2.1 (by rw [← hid]; exact List.mem_append_left _ (List.mem_map_of_mem hx))
    refine
      { sorted := ?_, cons := ?_, issuedNodup := h.issuedNodup, bound := h.bound, sentBound := h.sentBound,
        sentNodup := h.sentNodup, genBound := ?_, unitSub := ?_, unitNodup := h.unitNodup, noOrphan := ?_,
        pausedUnit := h.pausedUnit, runningSh := h.runningSh, pausedIdle := ?_, resentEq := h.resentEq,
        flushedNodup := h.flushedNodup, inpSent := h.inpSent }
    · have := h.sorted
      rw [hinf] at this
      simp only [ids, List.map_append, List.map_cons, List.append_assoc] at this ⊢
      refine this.sublist ?_
      exact List.Sublist.append_left (List.sublist_cons_self _ _) _
    · have := h.cons
      rw [hinf] at this
      refine List.Perm.trans ?_ this
      simp only [ids, List.map_append, List.map_cons, List.append_assoc]
      refine List.Perm.append_left _ ?_
      refine List.Perm.trans ?_ (List.perm_middle.symm)
      simp
    · intro x hx g hg
      rcases List.mem_append.mp hx with hx | hx
      · exact h.genBound x (List.mem_append_left _ (hsub x hx)) g hg
      · exact h.genBound x (List.mem_append_right _ hx) g hg
    · intro i hi
      obtain ⟨⟨x, hx, h1, h2⟩, h3⟩ := h.unitSub i hi
      refine ⟨⟨x, ?_, h1, h2⟩, h3⟩
      rw [hinf] at hx
      simp only [List.mem_append, List.mem_cons] at hx ⊢
      rcases hx with hx | rfl | hx
      · exact Or.inl hx
      · exact absurd (h1 ▸ hi) hnotunit
      · exact Or.inr hx
    · intro x hx
      exact h.noOrphan x (hsub x hx)
    · intro hp hq
      have := h.pausedIdle hp hq
      rw [this] at he; cases he

/-- a response naming the current request of an in-flight record is accepted by that record -/
theorem respond_current {c : Chan} {n : Nat} {p q : Bool} (h : ChanOK c n p q) {e : Entry} (he : e ∈ c.inf) :
    (c.respond (e.id, e.gen)).2 = some e := by
  unfold Chan.respond
  have hex : ∃ x, c.inf.find? (Entry.is (e.id, e.gen)) = some x := by
    cases hf : c.inf.find? (Entry.is (e.id, e.gen)) with
    | some x => exact ⟨x, rfl⟩
    | none =>
      have := List.find?_eq_none.mp hf e he
      simp [Entry.is] at this
  obtain ⟨x, hx⟩ := hex
  rw [hx]
  have hxm := List.mem_of_find?_eq_some hx
  have hxp := List.find?_some hx
  simp only [Entry.is, Bool.and_eq_true, beq_iff_eq] at hxp
  have : x = e := h.eq_of_id (List.mem_append_left _ hxm) (List.mem_append_left _ he) hxp.1
  simp [this]

/-! ## flush -/

/-- `reInsertShadowBufferReqsToOriginalBuffers ; flushPipeline` while the shadow lists are being re-sent -/
theorem ChanOK.reinsertFlush {c : Chan} {n : Nat} (h : ChanOK c n true true) :
    ChanOK c.reinsert.flush n true false := by
  refine
    { sorted := ?_, cons := ?_, issuedNodup := h.issuedNodup, bound := h.bound, sentBound := h.sentBound,
      sentNodup := h.sentNodup, genBound := ?_, unitSub := (by intro i hi; cases hi), unitNodup := List.nodup_nil,
      noOrphan := (by intro e he; cases he), pausedUnit := fun _ => rfl, runningSh := (by intro hp; cases hp),
      pausedIdle := fun _ _ => rfl, resentEq := ?_, flushedNodup := ?_, inpSent := h.inpSent }
  · simpa [Chan.reinsert, Chan.flush] using h.sorted
  · simpa [Chan.reinsert, Chan.flush] using h.cons
  · simpa [Chan.reinsert, Chan.flush] using h.genBound
  · simp [Chan.reinsert, Chan.flush]
  · simpa [Chan.reinsert, Chan.flush] using h.idsNodup

/-- `flushPipeline` of a running unit (its shadow lists are empty) -/
theorem ChanOK.flushRunning {c : Chan} {n : Nat} {q : Bool} (h : ChanOK c n false q) :
    ChanOK c.flush n true false := by
  have hsh : c.sh = [] := h.runningSh rfl
  refine
    { sorted := ?_, cons := ?_, issuedNodup := h.issuedNodup, bound := h.bound, sentBound := h.sentBound,
      sentNodup := h.sentNodup, genBound := ?_, unitSub := (by intro i hi; cases hi), unitNodup := List.nodup_nil,
      noOrphan := (by intro e he; cases he), pausedUnit := fun _ => rfl, runningSh := (by intro hp; cases hp),
      pausedIdle := fun _ _ => rfl, resentEq := ?_, flushedNodup := ?_, inpSent := h.inpSent }
  · simpa [Chan.flush, hsh] using h.sorted
  · simpa [Chan.flush, hsh] using h.cons
  · simpa [Chan.flush, hsh] using h.genBound
  · simp [Chan.flush]
  · simpa [Chan.flush, hsh] using h.idsNodup

/-! ## re-sending the shadow list -/

theorem ChanOK.drain {c : Chan} {n : Nat} (h : ChanOK c n true true) (cap : Nat) :
    ChanOK (c.drain cap) n true true := by
  unfold Chan.drain
  rcases hsh : c.sh with _ | ⟨e, rest⟩
  · exact h
  · have hunit : c.unit = [] := h.pausedUnit rfl
    have hemem : e ∈ c.inf ++ c.sh := by rw [hsh]; simp
    have hfresh : (e.id, e.gen + 1) ∉ c.sent := fun hs => by
      have := h.genBound e hemem _ hs; omega
    have hother : ∀ x ∈ c.inf ++ rest, x.id ≠ e.id := by
      intro x hx hid
      have hn := h.idsNodup
      rw [hsh] at hn
      simp only [ids, List.map_append, List.map_cons] at hn
      have h1 := List.nodup_append.mp hn
      have h2 := List.nodup_cons.mp h1.2.1
      rcases List.mem_append.mp hx with hx | hx
      · exact h1.2.2 x.id (List.mem_map_of_mem hx) e.id (by simp) hid
      · exact h2.1 (by rw [← hid]; exact List.mem_map_of_mem hx)
    simp only
    split
    · -- the port takes the request
      refine
        { sorted := ?_, cons := ?_, issuedNodup := h.issuedNodup, bound := h.bound, sentBound := ?_,
          sentNodup := ?_, genBound := ?_, unitSub := (by rw [hunit]; intro i hi; cases hi),
          unitNodup := h.unitNodup, noOrphan := ?_, pausedUnit := h.pausedUnit,
          runningSh := (by intro hp; cases hp), pausedIdle := (by intro _ hq; cases hq), resentEq := ?_,
          flushedNodup := h.flushedNodup, inpSent := fun r hr => List.mem_append_left _ (h.inpSent r hr) }
      · have := h.sorted; rw [hsh] at this; simpa [ids] using this
      · have := h.cons; rw [hsh] at this; simpa [ids] using this
      · intro r hr
        simp only [List.mem_append, List.mem_singleton] at hr
        rcases hr with hr | rfl
        · exact h.sentBound r hr
        · exact h.bound _ (h.mem_issued hemem)
      · rw [List.nodup_append]
        refine ⟨h.sentNodup, by simp, ?_⟩
        intro a ha b hb hab
        simp at hb; subst hb; subst hab
        exact hfresh ha
      · intro x hx g hg
        simp only [List.mem_append, List.mem_singleton] at hx hg
        rcases hx with (hx | rfl) | hx
        · rcases hg with hg | hg
          · exact h.genBound x (List.mem_append_left _ hx) g hg
          · exact absurd (by simpa using congrArg Prod.fst hg) (hother x (List.mem_append_left _ hx))
        · rcases hg with hg | hg
          · have := h.genBound e hemem g hg; simp; omega
          · simp at hg; simp [hg]
        · rcases hg with hg | hg
          · exact h.genBound x (by rw [hsh]; simp [hx]) g hg
          · exact absurd (by simpa using congrArg Prod.fst hg) (hother x (List.mem_append_right _ hx))
      · intro x hx
        simp only [List.mem_append, List.mem_singleton] at hx
        rcases hx with hx | rfl
        · rcases h.noOrphan x hx with h1 | h1
          · rw [hunit] at h1; cases h1
          · exact Or.inr (List.mem_append_left _ h1)
        · exact Or.inr (by simp)
      · have := h.resentEq; rw [hsh] at this; simpa [ids] using this
    · -- the port is full: only the request ID changes
      refine
        { sorted := ?_, cons := ?_, issuedNodup := h.issuedNodup, bound := h.bound, sentBound := h.sentBound,
          sentNodup := h.sentNodup, genBound := ?_, unitSub := h.unitSub, unitNodup := h.unitNodup,
          noOrphan := h.noOrphan, pausedUnit := h.pausedUnit, runningSh := (by intro hp; cases hp),
          pausedIdle := (by intro _ hq; cases hq), resentEq := ?_, flushedNodup := h.flushedNodup,
          inpSent := h.inpSent }
      · have := h.sorted; rw [hsh] at this; simpa [ids] using this
      · have := h.cons; rw [hsh] at this; simpa [ids] using this
      · intro x hx g hg
        simp only [List.mem_append, List.mem_cons] at hx
        rcases hx with hx | rfl | hx
        · exact h.genBound x (List.mem_append_left _ hx) g hg
        · have := h.genBound e hemem g hg; simp; omega
        · exact h.genBound x (by rw [hsh]; simp [hx]) g hg
      · have := h.resentEq; rw [hsh] at this; simpa [ids] using this

/-- all shadow lists are empty: `checkShadowBuffers` resumes the unit -/
theorem ChanOK.resume {c : Chan} {n : Nat} {q : Bool} (h : ChanOK c n true q) (hsh : c.sh = []) :
    ChanOK c n false false :=
  { h with pausedUnit := by intro hp; cases hp
           runningSh := fun _ => hsh
           pausedIdle := by intro hp; cases hp }

/-- a restart request sets `isSendingOutShadowBufferReqs` -/
theorem ChanOK.startSending {c : Chan} {n : Nat} {p q : Bool} (h : ChanOK c n p q) : ChanOK c n p true :=
  { h with pausedIdle := by intro _ hq; cases hq }

end C14.Flush
