import MgpuProofs.C09Grid
/-! # C09 — a lexicographic progress measure for the command-processor tick

`(U, F, C)` on the accounting view: `U` = work still to be started (per queued launch `NumWG + 2`, per
dispatching kernel `NumWG − mapped + 1`: taking a launch, sending a `MapWGReq` and sending the response
each lower it by one), `F` = requests in flight, `C` = overhead cycles left. Each atomic step lowers
it lexicographically, hence so does every tick that reports progress; a tick that reports none leaves
the view unchanged. (A completion message is only taken from the port together with at least one
in-flight request, so unread messages need no component of their own.) -/
namespace C09

def sumTo (f : Nat → Nat) : Nat → Nat
  | 0 => 0
  | n + 1 => sumTo f n + f n

theorem sumTo_congr (f g : Nat → Nat) : ∀ n, (∀ j, j < n → f j = g j) → sumTo f n = sumTo g n := by
  intro n
  induction n with
  | zero => intro _; rfl
  | succ n ih =>
    intro h
    simp only [sumTo]
    rw [ih (fun j hj => h j (by omega)), h n (by omega)]

theorem sumTo_update (f : Nat → Nat) (i a : Nat) : ∀ n, i < n →
    sumTo (fun j => if j = i then a else f j) n + f i = sumTo f n + a := by
  intro n
  induction n with
  | zero => intro h; omega
  | succ n ih =>
    intro h
    simp only [sumTo]
    by_cases hin : i = n
    · subst hin
      have : sumTo (fun j => if j = i then a else f j) i = sumTo f i :=
        sumTo_congr _ _ i (fun j hj => by simp [show j ≠ i by omega])
      rw [this]; simp
      omega
    · have := ih (by omega)
      have hn : ¬ n = i := fun e => hin e.symm
      simp only [hn, if_false]
      omega

/-- the sum of a per-dispatcher quantity after rewriting dispatcher `i` -/
theorem sumTo_upd (g : DV → Nat) (v : V) (i : Nat) (d : DV) (n : Nat) (hi : i < n) :
    sumTo (fun j => g ((v.upd i d).ds j)) n + g (v.ds i) = sumTo (fun j => g (v.ds j)) n + g d := by
  have : (fun j => g ((v.upd i d).ds j)) = (fun j => if j = i then g d else g (v.ds j)) := by
    funext j
    show g (if j = i then d else v.ds j) = _
    split <;> rfl
  rw [this]
  exact sumTo_update (fun j => g (v.ds j)) i (g d) n hi

def DV.u (d : DV) : Nat := match d.kern with | some k => k.numWG - d.nd + 1 | none => 0

def V.U (v : V) : Nat := (v.drvIn.map (fun k => k.numWG + 2)).sum + sumTo (fun j => (v.ds j).u) v.n
def V.F (v : V) : Nat := sumTo (fun j => (v.ds j).infl.length) v.n
def V.C (v : V) : Nat := sumTo (fun j => (v.ds j).cyc) v.n

/-- the progress measure -/
def V.mu (v : V) : Nat × Nat × Nat := (v.U, v.F, v.C)

/-- lexicographic order on triples -/
def lt3 (a b : Nat × Nat × Nat) : Prop :=
  a.1 < b.1 ∨ (a.1 = b.1 ∧ (a.2.1 < b.2.1 ∨ (a.2.1 = b.2.1 ∧ a.2.2 < b.2.2)))

theorem lt3_trans {a b c : Nat × Nat × Nat} (h1 : lt3 a b) (h2 : lt3 b c) : lt3 a c := by
  unfold lt3 at *; omega

theorem lt3_wf : WellFounded lt3 := by
  have hw : WellFounded (Prod.Lex (fun a b : Nat => a < b) (Prod.Lex (fun a b : Nat => a < b) (fun a b : Nat => a < b))) :=
    (Prod.lex (ha := Nat.lt_wfRel) (hb := Prod.lex (ha := Nat.lt_wfRel) (hb := Nat.lt_wfRel))).wf
  refine Subrelation.wf ?_ hw
  intro a b h
  obtain ⟨a1, a2, a3⟩ := a
  obtain ⟨b1, b2, b3⟩ := b
  unfold lt3 at h
  simp only at h
  rcases h with h | ⟨h1, h | ⟨h2, h3⟩⟩
  · exact Prod.Lex.left _ _ h
  · subst h1; exact Prod.Lex.right _ (Prod.Lex.left _ _ h)
  · subst h1; subst h2; exact Prod.Lex.right _ (Prod.Lex.right _ h3)

theorem filter_ne_length_lt (l : List Nat) (r : Nat) (h : r ∈ l) : (l.filter (· ≠ r)).length < l.length := by
  induction l with
  | nil => cases h
  | cons x xs ih =>
    by_cases hx : x = r
    · have : List.filter (fun y => decide (y ≠ r)) (x :: xs) = List.filter (fun y => decide (y ≠ r)) xs :=
        List.filter_cons_of_neg (by simp [hx])
      rw [this]
      have := List.length_filter_le (fun y => decide (y ≠ r)) xs
      simp only [List.length_cons]
      omega
    · have hr : r ∈ xs := by
        rcases List.mem_cons.1 h with e | e
        · exact absurd e.symm hx
        · exact e
      have := ih hr
      have h2 : List.filter (fun y => decide (y ≠ r)) (x :: xs) = x :: List.filter (fun y => decide (y ≠ r)) xs :=
        List.filter_cons_of_pos (by simp [hx])
      rw [h2]
      simp only [List.length_cons]
      omega

theorem mu_upd (w : V) (i : Nat) (d : DV) (hi : i < w.n) :
    (w.upd i d).U + (w.ds i).u = w.U + d.u ∧
    (w.upd i d).F + (w.ds i).infl.length = w.F + d.infl.length ∧
    (w.upd i d).C + (w.ds i).cyc = w.C + d.cyc := by
  have hU := sumTo_upd DV.u w i d w.n hi
  have hF := sumTo_upd (fun d => d.infl.length) w i d w.n hi
  have hC := sumTo_upd (fun d => d.cyc) w i d w.n hi
  refine ⟨?_, hF, hC⟩
  show (List.map (fun k => k.numWG + 2) w.drvIn).sum + sumTo (fun j => ((w.upd i d).ds j).u) w.n + _ =
    (List.map (fun k => k.numWG + 2) w.drvIn).sum + sumTo (fun j => (w.ds j).u) w.n + _
  omega

theorem lt3_mk {a b c a' b' c' : Nat} (h : a' < a ∨ (a' = a ∧ (b' < b ∨ (b' = b ∧ c' < c)))) :
    lt3 (a', b', c') (a, b, c) := h

/-- **every atomic step lowers the measure** -/
theorem VStep_mu {v v' : V} (s : VStep v v') : lt3 v'.mu v.mu := by
  cases s with
  | cyc i c hi hc =>
    obtain ⟨hU, hF, hC⟩ := mu_upd v i { v.ds i with cyc := c } hi
    have e1 : DV.u { v.ds i with cyc := c } = (v.ds i).u := rfl
    have e2 : (({ v.ds i with cyc := c } : DV)).infl.length = (v.ds i).infl.length := rfl
    have e3 : (({ v.ds i with cyc := c } : DV)).cyc = c := rfl
    apply lt3_mk
    omega
  | map i k c locs hi hk hlt hr =>
    obtain ⟨hU, _, _⟩ := mu_upd ({ v with log := .map v.nextReq c k.id (v.ds i).nd locs :: v.log, nextReq := v.nextReq + 1, cuRoom := v.cuRoom - 1 } : V) i
      { v.ds i with nd := (v.ds i).nd + 1, infl := v.nextReq :: (v.ds i).infl, cyc := 0 } hi
    have e1 : DV.u { v.ds i with nd := (v.ds i).nd + 1, infl := v.nextReq :: (v.ds i).infl, cyc := 0 }
        = k.numWG - ((v.ds i).nd + 1) + 1 := by simp [DV.u, hk]
    have e2 : (v.ds i).u = k.numWG - (v.ds i).nd + 1 := by simp [DV.u, hk]
    have g1 : (({ v with log := .map v.nextReq c k.id (v.ds i).nd locs :: v.log, nextReq := v.nextReq + 1, cuRoom := v.cuRoom - 1 } : V)).U = v.U := rfl
    have g2 : (({ v with log := .map v.nextReq c k.id (v.ds i).nd locs :: v.log, nextReq := v.nextReq + 1, cuRoom := v.cuRoom - 1 } : V)).ds i = v.ds i := rfl
    rw [g1, g2] at hU
    apply lt3_mk
    omega
  | done i r cyc' hi hr =>
    obtain ⟨hU, hF, _⟩ := mu_upd ({ v with done := r :: v.done } : V) i
      { v.ds i with nc := (v.ds i).nc + 1, infl := (v.ds i).infl.filter (· ≠ r), cyc := cyc' } hi
    have e1 : DV.u { v.ds i with nc := (v.ds i).nc + 1, infl := (v.ds i).infl.filter (· ≠ r), cyc := cyc' }
        = (v.ds i).u := rfl
    have e2 : (({ v.ds i with nc := (v.ds i).nc + 1, infl := (v.ds i).infl.filter (· ≠ r), cyc := cyc' } : DV)).infl.length
        = ((v.ds i).infl.filter (· ≠ r)).length := rfl
    have hlt := filter_ne_length_lt _ r hr
    have g1 : (({ v with done := r :: v.done } : V)).U = v.U := rfl
    have g2 : (({ v with done := r :: v.done } : V)).ds i = v.ds i := rfl
    have g3 : (({ v with done := r :: v.done } : V)).F = v.F := rfl
    rw [g1, g2] at hU
    rw [g2, g3] at hF
    apply lt3_mk
    omega
  | rsp i k hi hk hnd hnc hfl hr =>
    obtain ⟨hU, _, _⟩ := mu_upd ({ v with log := .rsp k.id :: v.log, drvRoom := v.drvRoom - 1 } : V) i
      { v.ds i with kern := none } hi
    have e1 : DV.u { v.ds i with kern := none } = 0 := rfl
    have e2 : (v.ds i).u = k.numWG - (v.ds i).nd + 1 := by simp [DV.u, hk]
    have g1 : (({ v with log := .rsp k.id :: v.log, drvRoom := v.drvRoom - 1 } : V)).U = v.U := rfl
    have g2 : (({ v with log := .rsp k.id :: v.log, drvRoom := v.drvRoom - 1 } : V)).ds i = v.ds i := rfl
    rw [g1, g2] at hU
    apply lt3_mk
    omega
  | start i k rest cyc' hi hd hk =>
    obtain ⟨hU, _, _⟩ := mu_upd ({ v with drvIn := rest } : V) i
      { v.ds i with kern := some k, nd := 0, nc := 0, cyc := cyc' } hi
    have e1 : DV.u { v.ds i with kern := some k, nd := 0, nc := 0, cyc := cyc' } = k.numWG + 1 := by
      simp [DV.u]
    have e2 : (v.ds i).u = 0 := by simp [DV.u, hk]
    have g1 : (({ v with drvIn := rest } : V)).U + (k.numWG + 2) = v.U := by
      show (List.map (fun k => k.numWG + 2) rest).sum + sumTo (fun j => (v.ds j).u) v.n + _ =
        (List.map (fun k => k.numWG + 2) v.drvIn).sum + sumTo (fun j => (v.ds j).u) v.n
      rw [hd, List.map_cons, List.sum_cons]; omega
    have g2 : (({ v with drvIn := rest } : V)).ds i = v.ds i := rfl
    rw [g2] at hU
    apply lt3_mk
    omega

theorem Steps_mu {b : Bool} {v v' : V} (s : Steps b v v') :
    (b = true → lt3 v'.mu v.mu) ∧ (b = false → v' = v) := by
  induction s with
  | refl v => exact ⟨fun h => (by cases h), fun _ => rfl⟩
  | cons st rest ih =>
    rename_i b' w w' w''
    refine ⟨fun _ => ?_, fun h => (by cases h)⟩
    have h1 := VStep_mu st
    cases b' with
    | true => exact lt3_trans (ih.1 rfl) h1
    | false => rw [ih.2 rfl]; exact h1

/-- **`dispatch_progress`** on states satisfying the accounting invariant -/
theorem cpTick_mu (cp : CP) (h : DCI cp) :
    ((cpTick cp).2 = true → lt3 (cpTick cp).1.view.mu cp.view.mu) ∧
    ((cpTick cp).2 = false → (cpTick cp).1.view = cp.view) :=
  Steps_mu (cpTick_steps cp h)

end C09
