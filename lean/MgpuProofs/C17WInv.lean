import MgpuProofs.C17WDefs
/-! C17, every pipeline width: the invariant `InvW` holds in every reachable state of the model of the repaired
component (`runW`), for every configuration. -/
namespace C17

/-! ### bags of items -/

theorem tickLanes_perm (c : Cfg) : ∀ (lanes : List Lane) (post : List Item),
    ((tickLanes c post lanes).1 ++ (tickLanes c post lanes).2.flatMap laneItems).Perm
      (post ++ lanes.flatMap laneItems) := by
  intro lanes
  induction lanes with
  | nil => intro post; simp [tickLanes]
  | cons l ls ih =>
    intro post
    simp only [tickLanes, List.flatMap_cons]
    have h1 := tickLane_items c post l
    have h2 := ih (tickLane c post l).1
    rw [List.perm_iff_count] at *
    intro y
    have h1' := congrArg (List.count y) h1
    have h2' := h2 y
    simp only [List.count_append] at *
    omega

theorem acceptLanes_perm (x : Item × Nat) : ∀ (lanes lanes' : List Lane), acceptLanes x lanes = some lanes' →
    (lanes'.flatMap laneItems).Perm (lanes.flatMap laneItems ++ [x.1]) := by
  intro lanes
  induction lanes with
  | nil => intro lanes' h; simp [acceptLanes] at h
  | cons l ls ih =>
    intro lanes' h
    simp only [acceptLanes] at h
    cases ha : acceptLane x l with
    | some l' =>
      rw [ha] at h
      simp only [Option.some.injEq] at h
      subst h
      have hi := acceptLane_items x l l' ha
      simp only [List.flatMap_cons, hi]
      rw [List.perm_iff_count]
      intro y
      simp only [List.count_append]
      omega
    | none =>
      rw [ha] at h
      simp only [Option.map_eq_some_iff] at h
      obtain ⟨ls', h2, rfl⟩ := h
      have := ih ls' h2
      simp only [List.flatMap_cons]
      rw [List.perm_iff_count] at *
      intro y
      have := this y
      simp only [List.count_append] at *
      omega

theorem acceptLanes_none_indep (x y : Item × Nat) : ∀ (lanes : List Lane), acceptLanes x lanes = none →
    acceptLanes y lanes = none := by
  intro lanes
  induction lanes with
  | nil => intro _; rfl
  | cons l ls ih =>
    intro h
    simp only [acceptLanes] at h ⊢
    cases ha : acceptLane x l with
    | some l' => rw [ha] at h; simp at h
    | none =>
      rw [ha] at h
      rw [acceptLane_none_indep x y l ha]
      simp only [Option.map_eq_none_iff] at h ⊢
      exact ih h

/-! ### the part of `BankOk` that does not mention the delay queue; congruence under permutation of the bag -/

structure CoreOk (b : WBank) : Prop where
  perm : ((wItems b).map (·.req)).Perm b.order
  comm : ∀ it ∈ wItems b, it.committed = true → b.order.head? = some it.req

/-- the not yet committed part of `order` -/
def uncOrd (b : WBank) : List Req := if hasC b then b.order.drop 1 else b.order

theorem wBankUnc_eq (b : WBank) : wBankUnc b = uncOrd b ++ b.dq.map (·.1.req) := rfl

theorem BankOk.core {c : Cfg} {b : WBank} (h : BankOk c b) : CoreOk b := ⟨h.perm, h.comm⟩

theorem bankOk_of_core (c : Cfg) (b b' : WBank) (h : BankOk c b) (hc : CoreOk b') (hd : b'.dq = b.dq) : BankOk c b' :=
  ⟨hc.perm, hc.comm, by rw [hd]; exact h.dqf, by rw [hd]; exact h.norow⟩

theorem hasC_congr (b b' : WBank) (hp : (wItems b').Perm (wItems b)) : hasC b' = hasC b := by
  rw [Bool.eq_iff_iff, hasC_iff, hasC_iff]
  constructor
  · rintro ⟨it, hm, hc⟩; exact ⟨it, hp.mem_iff.1 hm, hc⟩
  · rintro ⟨it, hm, hc⟩; exact ⟨it, hp.mem_iff.2 hm, hc⟩

theorem coreOk_congr (b b' : WBank) (hp : (wItems b').Perm (wItems b)) (ho : b'.order = b.order) (h : CoreOk b) :
    CoreOk b' :=
  ⟨by rw [ho]; exact (hp.map _).trans h.perm, fun it hm hc => by rw [ho]; exact h.comm it (hp.mem_iff.1 hm) hc⟩

theorem uncOrd_congr (b b' : WBank) (hp : (wItems b').Perm (wItems b)) (ho : b'.order = b.order) :
    uncOrd b' = uncOrd b := by
  unfold uncOrd; rw [hasC_congr b b' hp, ho]

theorem hasC_order_ne (b : WBank) (h : CoreOk b) (hc : hasC b = true) : b.order ≠ [] := by
  obtain ⟨it, hm, hcm⟩ := (hasC_iff b).1 hc
  have := h.comm it hm hcm
  intro he; rw [he] at this; simp at this

/-- a new, uncommitted item enters at the young end -/
theorem core_acc (b b' : WBank) (it : Item) (hit : it.committed = false)
    (hp : (wItems b').Perm (wItems b ++ [it])) (ho : b'.order = b.order ++ [it.req]) (h : CoreOk b) :
    CoreOk b' ∧ hasC b' = hasC b ∧ uncOrd b' = uncOrd b ++ [it.req] := by
  have hh : hasC b' = hasC b := by
    rw [Bool.eq_iff_iff, hasC_iff, hasC_iff]
    constructor
    · rintro ⟨x, hm, hc⟩
      have := hp.mem_iff.1 hm
      simp only [List.mem_append, List.mem_singleton] at this
      rcases this with hx | rfl
      · exact ⟨x, hx, hc⟩
      · rw [hit] at hc; cases hc
    · rintro ⟨x, hm, hc⟩; exact ⟨x, hp.mem_iff.2 (by simp [hm]), hc⟩
  refine ⟨⟨?_, ?_⟩, hh, ?_⟩
  · rw [ho]
    have := (hp.map (·.req))
    simp only [List.map_append, List.map_cons, List.map_nil] at this
    exact this.trans (h.perm.append_right _)
  · intro x hm hc
    have := hp.mem_iff.1 hm
    simp only [List.mem_append, List.mem_singleton] at this
    rcases this with hx | rfl
    · have h1 := h.comm x hx hc
      rw [ho]
      cases hb : b.order with
      | nil => rw [hb] at h1; simp at h1
      | cons o os => rw [hb] at h1; simpa using h1
    · rw [hit] at hc; cases hc
  · unfold uncOrd
    rw [hh, ho]
    cases hcb : hasC b with
    | false => simp
    | true =>
      have hne := hasC_order_ne b h hcb
      cases hb : b.order with
      | nil => exact absurd hb hne
      | cons o os => simp

/-! ### `accW` -/

theorem accW_spec (c : Cfg) (it : Item) (b b' : WBank) (h : accW c it b = some b') :
    b'.order = b.order ++ [it.req] ∧ (wItems b').Perm (wItems b ++ [it]) ∧ b'.dq = b.dq ∧ b'.early = b.early ∧
    b'.post = b.post ∧ b'.lastRow = b.lastRow := by
  unfold accW at h
  split at h
  · cases ha : acceptLanes (it, c.lat - 1) b.lanes with
    | none => rw [ha] at h; simp at h
    | some lanes' =>
      rw [ha] at h
      simp only [Option.some.injEq] at h
      subst h
      refine ⟨rfl, ?_, rfl, rfl, rfl, rfl⟩
      have hp := acceptLanes_perm _ _ _ ha
      simp only [wItems]
      rw [List.perm_iff_count] at *
      intro y
      have := hp y
      simp only [List.count_append] at *
      omega
  · simp at h

theorem accW_none_indep (c : Cfg) (it it' : Item) (b : WBank) (h : accW c it b = none) : accW c it' b = none := by
  unfold accW at h ⊢
  split
  · rename_i he
    rw [if_pos he] at h
    cases ha : acceptLanes (it, c.lat - 1) b.lanes with
    | none => rw [acceptLanes_none_indep _ (it', c.lat - 1) _ ha]
    | some l => rw [ha] at h; simp at h
  · rfl

/-! ### tickPipelines -/

theorem pipeW_spec (c : Cfg) (b : WBank) :
    (wItems (tickBankPipeW c b)).Perm (wItems b) ∧ (tickBankPipeW c b).order = b.order ∧
    (tickBankPipeW c b).dq = b.dq := by
  refine ⟨?_, rfl, rfl⟩
  have hp := tickLanes_perm c b.lanes b.post
  simp only [wItems, tickBankPipeW]
  rw [List.perm_iff_count] at *
  intro y
  have := hp y
  simp only [List.count_append] at *
  omega

theorem pipeW_bankOk (c : Cfg) (b : WBank) (h : BankOk c b) : BankOk c (tickBankPipeW c b) := by
  obtain ⟨hp, ho, hd⟩ := pipeW_spec c b
  exact bankOk_of_core c b _ h (coreOk_congr b _ hp ho h.core) hd

theorem pipeW_reqs (c : Cfg) (b : WBank) : wBankReqs (tickBankPipeW c b) = wBankReqs b := rfl

theorem pipeW_unc (c : Cfg) (b : WBank) : wBankUnc (tickBankPipeW c b) = wBankUnc b := by
  obtain ⟨hp, ho, hd⟩ := pipeW_spec c b
  rw [wBankUnc_eq, wBankUnc_eq, uncOrd_congr b _ hp ho, hd]


/-! ### tickDelayQueues -/

theorem delayGoW_core (c : Cfg) : ∀ (dq : List (Item × Nat)) (b : WBank) (rem : List (Item × Nat)),
    CoreOk b → (∀ p ∈ dq, p.1.committed = false) → (∀ p ∈ rem, p.1.committed = false) →
    CoreOk (delayGoW c dq b rem).1 ∧ (∀ p ∈ (delayGoW c dq b rem).2, p.1.committed = false) ∧
    ∃ X, (delayGoW c dq b rem).1.order = b.order ++ X ∧ uncOrd (delayGoW c dq b rem).1 = uncOrd b ++ X ∧
      X ++ (delayGoW c dq b rem).2.map (·.1.req) = rem.map (·.1.req) ++ dq.map (·.1.req) := by
  intro dq
  induction dq with
  | nil => intro b rem hb _ hr; exact ⟨hb, hr, [], by simp [delayGoW]⟩
  | cons d rest ih =>
    intro b rem hb hd hr
    obtain ⟨it, n⟩ := d
    have hit : it.committed = false := hd (it, n) (by simp)
    have hrest : ∀ p ∈ rest, p.1.committed = false := fun p hp => hd p (by simp [hp])
    have hrem' : ∀ p ∈ rem ++ [(it, n - 1)], p.1.committed = false := by
      intro p hp
      simp only [List.mem_append, List.mem_singleton] at hp
      rcases hp with hp | rfl
      · exact hr p hp
      · exact hit
    have stay : CoreOk (delayGoW c rest b (rem ++ [(it, n - 1)])).1 ∧
        (∀ p ∈ (delayGoW c rest b (rem ++ [(it, n - 1)])).2, p.1.committed = false) ∧
        ∃ X, (delayGoW c rest b (rem ++ [(it, n - 1)])).1.order = b.order ++ X ∧
          uncOrd (delayGoW c rest b (rem ++ [(it, n - 1)])).1 = uncOrd b ++ X ∧
          X ++ (delayGoW c rest b (rem ++ [(it, n - 1)])).2.map (·.1.req)
            = rem.map (·.1.req) ++ ((it, n) :: rest).map (·.1.req) := by
      obtain ⟨h1, h2, X, h3, h4, h5⟩ := ih b (rem ++ [(it, n - 1)]) hb hrest hrem'
      exact ⟨h1, h2, X, h3, h4, by rw [h5]; simp⟩
    simp only [delayGoW]
    split
    · rename_i hc
      cases ha : accW c it b with
      | none => exact stay
      | some b' =>
        have hr0 : rem = [] := by simpa using hc.2
        subst hr0
        obtain ⟨ho, hp, _⟩ := accW_spec c it b b' ha
        obtain ⟨hb', _, hu⟩ := core_acc b b' it hit hp ho hb
        obtain ⟨h1, h2, X, h3, h4, h5⟩ := ih b' [] hb' hrest hr
        refine ⟨h1, h2, it.req :: X, ?_, ?_, ?_⟩
        · rw [h3, ho]; simp
        · rw [h4, hu]; simp
        · simp only [List.cons_append, h5]; simp
    · exact stay

theorem delayGoW_nil (c : Cfg) (b : WBank) (rem : List (Item × Nat)) : delayGoW c [] b rem = (b, rem) := rfl

theorem delayW_spec (c : Cfg) (b : WBank) (h : BankOk c b) :
    BankOk c (tickBankDelayW c b) ∧ wBankReqs (tickBankDelayW c b) = wBankReqs b ∧
    wBankUnc (tickBankDelayW c b) = wBankUnc b := by
  obtain ⟨h1, h2, X, h3, h4, h5⟩ := delayGoW_core c b.dq b [] h.core h.dqf (by simp)
  simp only [List.map_nil, List.nil_append] at h5
  refine ⟨⟨h1.perm, h1.comm, h2, ?_⟩, ?_, ?_⟩
  · intro hr
    have := h.norow hr
    simp only [tickBankDelayW, this, delayGoW_nil]
  · show (delayGoW c b.dq b []).1.order ++ (delayGoW c b.dq b []).2.map (·.1.req) = b.order ++ b.dq.map (·.1.req)
    rw [h3, List.append_assoc, h5]
  · show uncOrd (delayGoW c b.dq b []).1 ++ (delayGoW c b.dq b []).2.map (·.1.req) = uncOrd b ++ b.dq.map (·.1.req)
    rw [h4, List.append_assoc, h5]

/-! ### dispatchPending -/

theorem bank_acc (c : Cfg) (r : Req) (b b' : WBank) (h : BankOk c b) (hdq : b.dq = [])
    (hp : (wItems b').Perm (wItems b ++ [fresh r])) (ho : b'.order = b.order ++ [r]) (hd : b'.dq = b.dq) :
    BankOk c b' ∧ wBankReqs b' = wBankReqs b ++ [r] ∧ wBankUnc b' = wBankUnc b ++ [r] := by
  obtain ⟨hc, _, hu⟩ := core_acc b b' (fresh r) rfl hp ho h.core
  refine ⟨bankOk_of_core c b b' h hc hd, ?_, ?_⟩
  · simp only [wBankReqs, ho, hd, hdq]; simp
  · rw [wBankUnc_eq, wBankUnc_eq, hu, hd, hdq]; simp [fresh]

theorem bank_enq (c : Cfg) (r : Req) (n : Nat) (b b' : WBank) (h : BankOk c b) (hrm : rowMode c)
    (hp : (wItems b').Perm (wItems b)) (ho : b'.order = b.order) (hd : b'.dq = b.dq ++ [(fresh r, n)]) :
    BankOk c b' ∧ wBankReqs b' = wBankReqs b ++ [r] ∧ wBankUnc b' = wBankUnc b ++ [r] := by
  have hc := coreOk_congr b b' hp ho h.core
  refine ⟨⟨hc.perm, hc.comm, ?_, fun hn => absurd hrm hn⟩, ?_, ?_⟩
  · intro p hpm
    rw [hd] at hpm
    simp only [List.mem_append, List.mem_singleton] at hpm
    rcases hpm with hpm | rfl
    · exact h.dqf p hpm
    · rfl
  · simp only [wBankReqs, ho, hd]; simp [fresh]
  · rw [wBankUnc_eq, wBankUnc_eq, uncOrd_congr b b' hp ho, hd]; simp [fresh]

theorem dispatchBankW_some (c : Cfg) (r : Req) (b b' : WBank) (h : BankOk c b) (hd : dispatchBankW c r b = some b') :
    BankOk c b' ∧ wBankReqs b' = wBankReqs b ++ [r] ∧ wBankUnc b' = wBankUnc b ++ [r] := by
  unfold dispatchBankW at hd
  by_cases hrm : c.row > 0 ∧ c.miss > 0
  · have hrm' : rowMode c := hrm
    rw [if_pos hrm] at hd
    dsimp only at hd
    by_cases hrow : b.lastRow = some (rowOf c r.addr)
    · rw [if_pos hrow] at hd
      by_cases hdq : b.dq.isEmpty = true
      · have hdq' : b.dq = [] := by simpa using hdq
        rw [if_pos hdq] at hd
        cases ha : accW c (fresh r) b with
        | none =>
          rw [ha] at hd; simp only [Option.some.injEq] at hd; subst hd
          exact bank_enq c r 0 b _ h hrm' (List.Perm.refl _) rfl rfl
        | some b1 =>
          rw [ha] at hd; simp only [Option.some.injEq] at hd; subst hd
          obtain ⟨ho, hp, hd1, _⟩ := accW_spec c _ b b1 ha
          exact bank_acc c r b _ h hdq' hp ho hd1
      · rw [if_neg hdq] at hd; simp only [Option.some.injEq] at hd; subst hd
        exact bank_enq c r 0 b _ h hrm' (List.Perm.refl _) rfl rfl
    · rw [if_neg hrow] at hd; simp only [Option.some.injEq] at hd; subst hd
      exact bank_enq c r c.miss b _ h hrm' (List.Perm.refl _) rfl rfl
  · rw [if_neg hrm] at hd
    obtain ⟨ho, hp, hd1, _⟩ := accW_spec c _ b b' hd
    exact bank_acc c r b b' h (h.norow hrm) hp ho hd1

theorem dispatchBankW_none (c : Cfg) (r r' : Req) (b : WBank) (hb : dispatchBankW c r b = none) :
    dispatchBankW c r' b = none := by
  unfold dispatchBankW at hb ⊢
  by_cases hrm : c.row > 0 ∧ c.miss > 0
  · rw [if_pos hrm] at hb
    dsimp only at hb
    exfalso
    by_cases hrow : b.lastRow = some (rowOf c r.addr)
    · rw [if_pos hrow] at hb
      by_cases hdq : b.dq.isEmpty = true
      · rw [if_pos hdq] at hb
        cases ha : accW c (fresh r) b <;> rw [ha] at hb <;> simp at hb
      · rw [if_neg hdq] at hb; simp at hb
    · rw [if_neg hrow] at hb; simp at hb
  · rw [if_neg hrm] at hb ⊢
    exact accW_none_indep c _ _ b hb


def atB (f : WBank → List Req) (bs : List WBank) (k : Nat) : List Req := match bs[k]? with
  | some b => f b
  | none => []

theorem wBankChain_atB (bs : List WBank) (k : Nat) : wBankChain bs k = atB wBankReqs bs k := rfl
theorem wBankUncAt_atB (bs : List WBank) (k : Nat) : wBankUncAt bs k = atB wBankUnc bs k := rfl

theorem atB_map (f : WBank → List Req) (g : WBank → WBank) (bs : List WBank) (k : Nat)
    (h : ∀ b ∈ bs, f (g b) = f b) : atB f (bs.map g) k = atB f bs k := by
  unfold atB
  rw [List.getElem?_map]
  cases hb : bs[k]? with
  | none => rfl
  | some b => simp [h b (List.mem_of_getElem? hb)]

def OkAll (c : Cfg) (bs : List WBank) : Prop := ∀ b ∈ bs, BankOk c b

def NremW (c : Cfg) (st : List WBank × List Req) : Prop :=
  ∀ r' ∈ st.2, ∀ b, st.1[bankOf c r'.addr]? = some b → ∀ r, dispatchBankW c r b = none

/-- `f` of a bank grows by the dispatched request -/
def Grows (c : Cfg) (f : WBank → List Req) : Prop :=
  ∀ r b b', BankOk c b → dispatchBankW c r b = some b' → f b' = f b ++ [r]

theorem grows_reqs (c : Cfg) : Grows c wBankReqs := fun r b b' h hd => (dispatchBankW_some c r b b' h hd).2.1
theorem grows_unc (c : Cfg) : Grows c wBankUnc := fun r b b' h hd => (dispatchBankW_some c r b b' h hd).2.2

theorem dispatchOneW_step (c : Cfg) (k : Nat) (f : WBank → List Req) (hf : Grows c f)
    (st : List WBank × List Req) (r : Req) (hw : OkAll c st.1) (hn : NremW c st) :
    OkAll c (dispatchOneW c st r).1 ∧ NremW c (dispatchOneW c st r) ∧
    ∀ X, atB f (dispatchOneW c st r).1 k ++ ((dispatchOneW c st r).2 ++ X).filter (inB c k)
       = atB f st.1 k ++ (st.2 ++ r :: X).filter (inB c k) := by
  cases hlook : st.1[bankOf c r.addr]? with
  | none =>
    have e : dispatchOneW c st r = (st.1, st.2 ++ [r]) := by simp [dispatchOneW, hlook]
    rw [e]
    refine ⟨hw, ?_, ?_⟩
    · intro r' hr' b hb
      simp only [List.mem_append, List.mem_singleton] at hr'
      rcases hr' with hr' | rfl
      · exact hn r' hr' b hb
      · simp only at hb; rw [hlook] at hb; cases hb
    · intro X; simp
  | some b =>
    have hbm := List.mem_of_getElem? hlook
    have hok := hw b hbm
    cases hd : dispatchBankW c r b with
    | none =>
      have e : dispatchOneW c st r = (st.1, st.2 ++ [r]) := by simp [dispatchOneW, hlook, hd]
      rw [e]
      refine ⟨hw, ?_, ?_⟩
      · intro r' hr' b2 hb2
        simp only [List.mem_append, List.mem_singleton] at hr'
        rcases hr' with hr' | rfl
        · exact hn r' hr' b2 hb2
        · simp only at hb2; rw [hlook] at hb2; cases hb2
          intro r2; exact dispatchBankW_none c _ r2 b hd
      · intro X; simp
    | some b' =>
      have e : dispatchOneW c st r = (st.1.set (bankOf c r.addr) b', st.2) := by simp [dispatchOneW, hlook, hd]
      rw [e]
      have hok' := (dispatchBankW_some c r b b' hok hd).1
      have hi := hf r b b' hok hd
      have hne : ∀ r' ∈ st.2, bankOf c r'.addr ≠ bankOf c r.addr := by
        intro r' hr' he
        have := hn r' hr' b (by rw [he]; exact hlook) r
        rw [hd] at this; cases this
      refine ⟨?_, ?_, ?_⟩
      · intro x hx
        rcases List.mem_or_eq_of_mem_set hx with hx | rfl
        · exact hw x hx
        · exact hok'
      · intro r' hr' b2 hb2
        simp only at hb2 hr'
        rw [List.getElem?_set_ne (Ne.symm (hne r' hr'))] at hb2
        exact hn r' hr' b2 hb2
      · intro X
        simp only
        by_cases hk : bankOf c r.addr = k
        · subst hk
          have hlt : bankOf c r.addr < st.1.length := (List.getElem?_eq_some_iff.1 hlook).1
          have hfl : st.2.filter (inB c (bankOf c r.addr)) = [] := by
            rw [List.filter_eq_nil_iff]; intro r' hr'; simpa [inB] using hne r' hr'
          simp [atB, List.getElem?_set_self hlt, hlook, hi, List.filter_append, hfl, inB]
        · have : inB c k r = false := by simp [inB, hk]
          simp [atB, List.getElem?_set_ne hk, List.filter_append, this]

theorem dispatchW_fold (c : Cfg) (k : Nat) (f : WBank → List Req) (hf : Grows c f) (tail : List Req) :
    ∀ (todo : List Req) (st : List WBank × List Req), OkAll c st.1 → NremW c st →
    OkAll c (todo.foldl (dispatchOneW c) st).1 ∧
    atB f (todo.foldl (dispatchOneW c) st).1 k ++ ((todo.foldl (dispatchOneW c) st).2 ++ tail).filter (inB c k)
      = atB f st.1 k ++ (st.2 ++ (todo ++ tail)).filter (inB c k) := by
  intro todo
  induction todo with
  | nil => intro st hw _; exact ⟨hw, by simp⟩
  | cons r rest ih =>
    intro st hw hn
    obtain ⟨hw', hn', hc⟩ := dispatchOneW_step c k f hf st r hw hn
    obtain ⟨hw'', hc''⟩ := ih _ hw' hn'
    refine ⟨hw'', ?_⟩
    simp only [List.foldl_cons]
    rw [hc'', hc (rest ++ tail)]; simp

theorem dispatchW_spec (c : Cfg) (s : WState) (k : Nat) (hw : OkAll c s.banks) :
    OkAll c (dispatchW c s).banks ∧ chainW c (dispatchW c s) k = chainW c s k ∧
    uncW c (dispatchW c s) k = uncW c s k := by
  obtain ⟨h1, h2⟩ := dispatchW_fold c k wBankReqs (grows_reqs c) s.topIn s.pending (s.banks, []) hw
    (by intro r' hr'; simp at hr')
  obtain ⟨_, h3⟩ := dispatchW_fold c k wBankUnc (grows_unc c) s.topIn s.pending (s.banks, []) hw
    (by intro r' hr'; simp at hr')
  refine ⟨h1, ?_, ?_⟩
  · simpa [chainW, dispatchW, wBankChain_atB] using h2
  · simpa [uncW, dispatchW, wBankUncAt_atB] using h3


/-! ### finalizeBanks: one bank -/

/-- what the `finalizeSingle` loop of one bank does, free of the bank number: `cm` = the requests it commits (in
order), `done` = the requests it answers (in order) -/
structure FinRel (b : WBank) (log : List Req) (resp : List Rsp) (F : FinW) : Prop where
  ok : CoreOk F.bank
  dq : F.bank.dq = b.dq
  ex : ∃ cm done, F.log = cm.reverse ++ log ∧ cm ++ uncOrd F.bank = uncOrd b ∧
        F.resp.map (·.req) = resp.map (·.req) ++ done ∧ done ++ F.bank.order = b.order

theorem finRel_refl (b : WBank) (log : List Req) (resp out : List Rsp) (fault : Option String) (pg : Bool)
    (h : CoreOk b) : FinRel b log resp ⟨b, log, out, resp, fault, pg⟩ :=
  ⟨h, rfl, [], [], by simp⟩

theorem core_remove (b : WBank) (o : Req) (os : List Req) (it : Item) (W1 : List Item)
    (h : CoreOk b) (ho : b.order = o :: os) (hnd : b.order.Nodup) (hp : (wItems b).Perm (it :: W1))
    (hit : it.req = o) :
    (W1.map (·.req)).Perm os ∧ (∀ x ∈ W1, x.committed = false) ∧ hasC b = it.committed := by
  have h1 : (o :: W1.map (·.req)).Perm (o :: os) := by
    have := (hp.map (·.req)).symm.trans h.perm
    rw [ho] at this
    simpa [hit] using this
  have hW := h1.cons_inv
  have hno : o ∉ os := by rw [ho] at hnd; exact (List.nodup_cons.1 hnd).1
  have hu : ∀ x ∈ W1, x.committed = false := by
    intro x hx
    cases hc : x.committed with
    | false => rfl
    | true =>
      exfalso
      have hm : x ∈ wItems b := hp.mem_iff.2 (by simp [hx])
      have := h.comm x hm hc
      rw [ho] at this
      simp only [List.head?_cons, Option.some.injEq] at this
      apply hno
      rw [this]
      exact hW.mem_iff.1 (List.mem_map.2 ⟨x, hx, rfl⟩)
  refine ⟨hW, hu, ?_⟩
  rw [Bool.eq_iff_iff, hasC_iff]
  constructor
  · rintro ⟨x, hm, hc⟩
    have := hp.mem_iff.1 hm
    simp only [List.mem_cons] at this
    rcases this with rfl | hx
    · exact hc
    · rw [hu x hx] at hc; cases hc
  · intro hc; exact ⟨it, hp.mem_iff.2 (by simp), hc⟩

theorem core_of_unc (b1 : WBank) (hp : ((wItems b1).map (·.req)).Perm b1.order)
    (hu : ∀ x ∈ wItems b1, x.committed = false) : CoreOk b1 ∧ uncOrd b1 = b1.order := by
  have hh : hasC b1 = false := by
    cases hc : hasC b1 with
    | false => rfl
    | true =>
      obtain ⟨x, hm, hx⟩ := (hasC_iff b1).1 hc
      rw [hu x hm] at hx; cases hx
  refine ⟨⟨hp, ?_⟩, by simp [uncOrd, hh]⟩
  intro x hm hx
  rw [hu x hm] at hx; cases hx

theorem core_of_head (b2 : WBank) (o : Req) (os : List Req) (it' : Item) (W1 : List Item) (ho : b2.order = o :: os)
    (hp : (wItems b2).Perm (it' :: W1)) (h1 : it'.req = o) (h2 : it'.committed = true)
    (hW : (W1.map (·.req)).Perm os) (hu : ∀ x ∈ W1, x.committed = false) : CoreOk b2 ∧ uncOrd b2 = os := by
  have hh : hasC b2 = true := (hasC_iff b2).2 ⟨it', hp.mem_iff.2 (by simp), h2⟩
  refine ⟨⟨?_, ?_⟩, by simp [uncOrd, hh, ho]⟩
  · rw [ho]
    have := hp.map (·.req)
    simp only [List.map_cons, h1] at this
    exact this.trans (hW.cons o)
  · intro x hm hx
    have := hp.mem_iff.1 hm
    simp only [List.mem_cons] at this
    rcases this with rfl | hxw
    · rw [ho, h1]; rfl
    · rw [hu x hxw] at hx; cases hx

/-- the oldest request of the bank (`it`, wherever it sits) is finalized: what follows for both outcomes -/
theorem fin_head (b : WBank) (o : Req) (os : List Req) (it it' : Item) (W1 : List Item) (log log' : List Req)
    (h : CoreOk b) (ho : b.order = o :: os) (hnd : b.order.Nodup) (hp : (wItems b).Perm (it :: W1))
    (hit : it.req = o) (hcm : commit it log = some (it', log')) :
    (∀ b1 : WBank, b1.order = os → (wItems b1).Perm W1 → b1.dq = b.dq →
        CoreOk b1 ∧ b1.order.Nodup ∧
        ∀ resp F, FinRel b1 log' (resp ++ [rspOf it']) F → FinRel b log resp F) ∧
    (∀ b2 : WBank, b2.order = b.order → (wItems b2).Perm (it' :: W1) → b2.dq = b.dq →
        ∀ out resp pg, FinRel b log resp ⟨b2, log', out, resp, none, pg⟩) := by
  obtain ⟨hW, hu, hhc⟩ := core_remove b o os it W1 h ho hnd hp hit
  obtain ⟨c1, c2, c3⟩ := commit_spec it it' log log' hcm
  have hub : uncOrd b = if it.committed then os else o :: os := by
    unfold uncOrd; rw [hhc, ho]; cases it.committed <;> simp
  constructor
  · intro b1 ho1 hp1 hd1
    have hu1 : ∀ x ∈ wItems b1, x.committed = false := fun x hx => hu x (hp1.mem_iff.1 hx)
    obtain ⟨hc1, hu1'⟩ := core_of_unc b1 (by rw [ho1]; exact (hp1.map _).trans hW) hu1
    refine ⟨hc1, by rw [ho1]; rw [ho] at hnd; exact (List.nodup_cons.1 hnd).2, ?_⟩
    intro resp F hF
    obtain ⟨cm1, done1, e1, e2, e3, e4⟩ := hF.ex
    refine ⟨hF.ok, hF.dq.trans hd1, (if it.committed then [] else [o]) ++ cm1, o :: done1, ?_, ?_, ?_, ?_⟩
    · rw [e1, c3, hit]; cases it.committed <;> simp
    · rw [List.append_assoc, e2, hu1', ho1, hub]; cases it.committed <;> simp
    · rw [e3]; simp [rspOf, c1, hit]
    · rw [List.cons_append, e4, ho1, ho]
  · intro b2 ho2 hp2 hd2 out resp pg
    obtain ⟨hc2, hu2⟩ := core_of_head b2 o os it' W1 (ho2.trans ho) hp2 (c1.trans hit) c2 hW hu
    refine ⟨hc2, hd2, if it.committed then [] else [o], [], ?_, ?_, ?_, ?_⟩
    · show log' = _
      rw [c3, hit]; cases it.committed <;> simp
    · show _ ++ uncOrd b2 = _
      rw [hu2, hub]; cases it.committed <;> simp
    · simp
    · exact ho2

theorem early_split (o : Req) (it it' : Item) : ∀ (l : List Item), (l.map (·.req)).Nodup → it ∈ l → it.req = o →
    l.Perm (it :: l.filter (fun e => !decide (e.req = o))) ∧
    (l.map (fun e => if e.req = o then it' else e)).Perm (it' :: l.filter (fun e => !decide (e.req = o))) := by
  intro l
  induction l with
  | nil => intro _ hm; cases hm
  | cons a t ih =>
    intro hnd hm hit
    simp only [List.map_cons, List.nodup_cons] at hnd
    by_cases ha : a.req = o
    · have hnone : ∀ e ∈ t, e.req ≠ o := by
        intro e he heq
        exact hnd.1 (List.mem_map.2 ⟨e, he, heq.trans ha.symm⟩)
      have hai : it = a := by
        simp only [List.mem_cons] at hm
        rcases hm with rfl | hm
        · rfl
        · exact absurd hit (hnone it hm)
      subst hai
      have hf : t.filter (fun e => !decide (e.req = o)) = t := by
        rw [List.filter_eq_self]; intro e he; simp [hnone e he]
      have hmp : t.map (fun e => if e.req = o then it' else e) = t := by
        have : t.map (fun e => if e.req = o then it' else e) = t.map id :=
          List.map_congr_left (fun e he => by simp [hnone e he])
        rw [this, List.map_id]
      simp only [List.filter_cons, List.map_cons, ha, decide_true, Bool.not_true, hf, hmp, if_true]
      exact ⟨List.Perm.refl _, List.Perm.refl _⟩
    · have hm' : it ∈ t := by
        simp only [List.mem_cons] at hm
        rcases hm with rfl | hm
        · exact absurd hit ha
        · exact hm
      obtain ⟨i1, i2⟩ := ih hnd.2 hm' hit
      simp only [List.filter_cons, List.map_cons, ha, decide_false, Bool.not_false, if_true, if_false]
      exact ⟨(i1.cons a).trans (List.Perm.swap _ _ _), (i2.cons a).trans (List.Perm.swap _ _ _)⟩


theorem finalizeBankW_rel (c : Cfg) : ∀ (fuel : Nat) (b : WBank) (log : List Req) (out resp : List Rsp) (pg : Bool),
    CoreOk b → b.order.Nodup → FinRel b log resp (finalizeBankW c fuel b log out resp pg) := by
  intro fuel
  induction fuel with
  | zero => intro b log out resp pg h _; exact finRel_refl b log resp out none pg h
  | succ fuel ih =>
    intro b log out resp pg h hnd
    cases ho : b.order with
    | nil => simp only [finalizeBankW, ho]; exact finRel_refl b log resp out none pg h
    | cons o os =>
      simp only [finalizeBankW, ho]
      have hndi : ((wItems b).map (·.req)).Nodup := h.perm.nodup_iff.2 hnd
      cases hfind : b.early.find? (fun it => decide (it.req = o)) with
      | some it =>
        simp only []
        have hmem : it ∈ b.early := List.mem_of_find?_eq_some hfind
        have hit : it.req = o := by simpa using List.find?_some hfind
        split
        · exact finRel_refl b log resp out _ pg h
        cases hcm : commit it log with
        | none => exact finRel_refl b log resp out _ pg h
        | some p =>
          obtain ⟨it', log'⟩ := p
          have hnde : (b.early.map (·.req)).Nodup := by
            refine List.Nodup.sublist ?_ hndi
            exact List.Sublist.map _ (List.sublist_append_right _ _)
          obtain ⟨s1, s2⟩ := early_split o it it' b.early hnde hmem hit
          have hp : (wItems b).Perm
              (it :: (b.post ++ b.lanes.flatMap laneItems ++ b.early.filter (fun e => !decide (e.req = o)))) := by
            simp only [wItems]
            rw [List.perm_iff_count] at *
            intro y
            have := s1 y
            simp only [List.count_append, List.count_cons] at *
            omega
          obtain ⟨f1, f2⟩ := fin_head b o os it it' _ log log' h ho hnd hp hit hcm
          simp only []
          split
          · obtain ⟨g1, g2, g3⟩ := f1 { b with order := os, early := b.early.filter (fun e => !decide (e.req = o)) }
              rfl (List.Perm.refl _) rfl
            exact g3 resp _ (ih _ log' _ _ true g1 g2)
          · refine f2 { b with order := o :: os, early := b.early.map (fun e => if e.req = o then it' else e) } ho.symm ?_ rfl out resp pg
            simp only [wItems]
            rw [List.perm_iff_count] at *
            intro y
            have := s2 y
            simp only [List.count_append, List.count_cons] at *
            omega
      | none =>
        simp only []
        cases hpost : b.post with
        | nil => exact finRel_refl b log resp out none pg h
        | cons hd t =>
          simp only []
          split
          · rename_i hit
            split
            · exact finRel_refl b log resp out _ pg h
            cases hcm : commit hd log with
            | none => exact finRel_refl b log resp out _ pg h
            | some p =>
              obtain ⟨it', log'⟩ := p
              have hp : (wItems b).Perm (hd :: (t ++ b.lanes.flatMap laneItems ++ b.early)) := by
                simp only [wItems, hpost]; simp
              obtain ⟨f1, f2⟩ := fin_head b o os hd it' _ log log' h ho hnd hp hit hcm
              simp only []
              split
              · obtain ⟨g1, g2, g3⟩ := f1 { b with order := os, post := t } rfl (List.Perm.refl _) rfl
                exact g3 resp _ (ih _ log' _ _ true g1 g2)
              · exact f2 { b with order := o :: os, post := it' :: t } ho.symm (by simp [wItems]) rfl out resp pg
          · have hp3 : (wItems { b with order := o :: os, post := t, early := b.early ++ [hd] }).Perm (wItems b) := by
              simp only [wItems, hpost]
              rw [List.perm_iff_count]
              intro y
              simp only [List.count_append, List.count_cons, List.count_nil]
              omega
            have hc3 := coreOk_congr b { b with order := o :: os, post := t, early := b.early ++ [hd] } hp3 ho.symm h
            have hF := ih { b with order := o :: os, post := t, early := b.early ++ [hd] } log out resp true hc3
              (by rw [ho] at hnd; exact hnd)
            obtain ⟨cm, done, e1, e2, e3, e4⟩ := hF.ex
            exact ⟨hF.ok, hF.dq, cm, done, e1, by rw [e2]; exact uncOrd_congr b _ hp3 ho.symm, e3, e4.trans ho.symm⟩


theorem uncOrd_sub (b : WBank) : ∀ r ∈ uncOrd b, r ∈ b.order := by
  intro r hr
  unfold uncOrd at hr
  split at hr
  · exact List.mem_of_mem_drop hr
  · exact hr

theorem filter_eq_self_of {α : Type} (q : α → Bool) (l : List α) (h : ∀ x ∈ l, q x = true) : l.filter q = l :=
  List.filter_eq_self.2 h

theorem filter_eq_nil_of {α : Type} (q : α → Bool) (l : List α) (h : ∀ x ∈ l, q x = false) : l.filter q = [] := by
  rw [List.filter_eq_nil_iff]; intro x hx; simp [h x hx]

/-- for the bank's own number (`q` holds on everything in the bank) -/
theorem finRel_true (q : Req → Bool) (b : WBank) (log : List Req) (resp : List Rsp) (F : FinW)
    (hq : ∀ r ∈ b.order, q r = true) (h : FinRel b log resp F) :
    (F.log.filter q).reverse ++ wBankUnc F.bank = (log.filter q).reverse ++ wBankUnc b ∧
    (F.resp.map (·.req)).filter q ++ wBankReqs F.bank = (resp.map (·.req)).filter q ++ wBankReqs b := by
  obtain ⟨cm, done, e1, e2, e3, e4⟩ := h.ex
  have hcm : cm.filter q = cm := filter_eq_self_of q cm (fun r hr => hq r (uncOrd_sub b r (by rw [← e2]; simp [hr])))
  have hdn : done.filter q = done := filter_eq_self_of q done (fun r hr => hq r (by rw [← e4]; simp [hr]))
  constructor
  · rw [wBankUnc_eq, wBankUnc_eq, e1, List.filter_append, List.reverse_append, List.filter_reverse,
      List.reverse_reverse, hcm, h.dq, List.append_assoc, ← List.append_assoc cm, e2]
  · simp only [wBankReqs]
    rw [e3, List.filter_append, hdn, h.dq, List.append_assoc, ← List.append_assoc done, e4]

/-- for every other bank number (`q` fails on everything in the bank) -/
theorem finRel_false (q : Req → Bool) (b : WBank) (log : List Req) (resp : List Rsp) (F : FinW)
    (hq : ∀ r ∈ b.order, q r = false) (h : FinRel b log resp F) :
    F.log.filter q = log.filter q ∧ (F.resp.map (·.req)).filter q = (resp.map (·.req)).filter q := by
  obtain ⟨cm, done, e1, e2, e3, e4⟩ := h.ex
  have hcm : cm.filter q = [] := filter_eq_nil_of q cm (fun r hr => hq r (uncOrd_sub b r (by rw [← e2]; simp [hr])))
  have hdn : done.filter q = [] := filter_eq_nil_of q done (fun r hr => hq r (by rw [← e4]; simp [hr]))
  constructor
  · rw [e1, List.filter_append, List.filter_reverse, hcm]; rfl
  · rw [e3, List.filter_append, hdn, List.append_nil]

/-! ### facts read off the invariant -/

theorem arrivedW_nodup (c : Cfg) (s : WState) (h : InvW c s) : s.arrived.Nodup := nodup_of_ids _ h.ids

theorem orderW_in_bank (c : Cfg) (s : WState) (h : InvW c s) (k : Nat) (b : WBank) (hb : s.banks[k]? = some b) :
    ∀ r ∈ wBankReqs b, inB c k r = true ∧ r ∈ s.arrived := by
  intro r hr
  have hrk := h.r k
  unfold RW at hrk
  have : r ∈ s.arrived.filter (inB c k) := by
    rw [← hrk]; simp [chainW, wBankChain, hb, hr]
  exact ⟨(List.mem_filter.1 this).2, (List.mem_filter.1 this).1⟩

theorem orderW_nodup (c : Cfg) (s : WState) (h : InvW c s) (k : Nat) (b : WBank) (hb : s.banks[k]? = some b) :
    (wBankReqs b).Nodup := by
  have hn : (s.arrived.filter (inB c k)).Nodup := (arrivedW_nodup c s h).filter _
  have hrk := h.r k
  unfold RW at hrk
  rw [← hrk] at hn
  simp only [chainW, wBankChain, hb] at hn
  exact (List.nodup_append.1 (List.nodup_append.1 hn).2.1).1

/-! ### finalizeBanks: the state -/

theorem finalizeAtW_inv (c : Cfg) (s : WState) (k : Nat) (pg : Bool) (h : InvW c s) :
    InvW c (finalizeAtW c s k pg).st := by
  unfold finalizeAtW
  cases hb : s.banks[k]? with
  | none => exact h
  | some b =>
    simp only []
    have hok := h.ok b (List.mem_of_getElem? hb)
    have hin := orderW_in_bank c s h k b hb
    have hndo : b.order.Nodup := (List.nodup_append.1 (orderW_nodup c s h k b hb)).1
    have hino : ∀ r ∈ b.order, inB c k r = true := fun r hr => (hin r (by simp [wBankReqs, hr])).1
    have hF := finalizeBankW_rel c (b.order.length + b.post.length + 1) b s.log s.outBuf s.resp pg hok.core hndo
    generalize finalizeBankW c (b.order.length + b.post.length + 1) b s.log s.outBuf s.resp pg = F at hF ⊢
    have hlt : k < s.banks.length := (List.getElem?_eq_some_iff.1 hb).1
    obtain ⟨ft1, ft2⟩ := finRel_true (inB c k) b s.log s.resp F hino hF
    have hother : ∀ j, k ≠ j → ∀ r ∈ b.order, inB c j r = false := by
      intro j hj r hr
      have := hino r hr
      simp only [inB, beq_iff_eq] at this
      simp [inB, this, hj]
    refine ⟨?_, ?_, ?_, h.ids⟩
    · intro x hx
      rcases List.mem_or_eq_of_mem_set hx with hx | rfl
      · exact h.ok x hx
      · exact bankOk_of_core c b _ hok hF.ok hF.dq
    · intro j
      by_cases hj : k = j
      · subst hj
        have hi := h.i k
        simp only [IW, uncW, wBankUncAt, hb] at hi
        simp only [IW, uncW, wBankUncAt, List.getElem?_set_self hlt]
        rw [← List.append_assoc, ft1, List.append_assoc]; exact hi
      · obtain ⟨ff1, _⟩ := finRel_false (inB c j) b s.log s.resp F (hother j hj) hF
        have hi := h.i j
        simp only [IW, uncW, wBankUncAt] at hi
        simp only [IW, uncW, wBankUncAt, List.getElem?_set_ne hj, ff1]
        exact hi
    · intro j
      by_cases hj : k = j
      · subst hj
        have hi := h.r k
        simp only [RW, chainW, wBankChain, hb] at hi
        simp only [RW, chainW, wBankChain, List.getElem?_set_self hlt]
        rw [← List.append_assoc, ft2, List.append_assoc]; exact hi
      · obtain ⟨_, ff2⟩ := finRel_false (inB c j) b s.log s.resp F (hother j hj) hF
        have hi := h.r j
        simp only [RW, chainW, wBankChain] at hi
        simp only [RW, chainW, wBankChain, List.getElem?_set_ne hj, ff2]
        exact hi

theorem finalizeFromW_inv (c : Cfg) : ∀ (ks : List Nat) (s : WState) (pg : Bool), InvW c s →
    InvW c (finalizeFromW c ks s pg).st := by
  intro ks
  induction ks with
  | nil => intro s pg h; exact h
  | cons k ks ih =>
    intro s pg h
    simp only [finalizeFromW]
    split
    · exact finalizeAtW_inv c s k pg h
    · exact ih _ _ (finalizeAtW_inv c s k pg h)

theorem finalizeW_inv (c : Cfg) (s : WState) (h : InvW c s) : InvW c (finalizeW c s).st :=
  finalizeFromW_inv c _ s false h

theorem finalizeAtW_arrived (c : Cfg) (s : WState) (k : Nat) (pg : Bool) :
    (finalizeAtW c s k pg).st.arrived = s.arrived := by
  unfold finalizeAtW; split <;> rfl

theorem finalizeFromW_arrived (c : Cfg) : ∀ (ks : List Nat) (s : WState) (pg : Bool),
    (finalizeFromW c ks s pg).st.arrived = s.arrived := by
  intro ks
  induction ks with
  | nil => intro s pg; rfl
  | cons k ks ih =>
    intro s pg
    simp only [finalizeFromW]
    split
    · exact finalizeAtW_arrived c s k pg
    · rw [ih, finalizeAtW_arrived]

/-! ### the other phases -/

theorem tickPipesW_inv (c : Cfg) (s : WState) (h : InvW c s) : InvW c (tickPipesW c s) := by
  have e1 : ∀ k, atB wBankReqs (s.banks.map (tickBankPipeW c)) k = atB wBankReqs s.banks k :=
    fun k => atB_map _ _ _ k (fun b _ => pipeW_reqs c b)
  have e2 : ∀ k, atB wBankUnc (s.banks.map (tickBankPipeW c)) k = atB wBankUnc s.banks k :=
    fun k => atB_map _ _ _ k (fun b _ => pipeW_unc c b)
  refine ⟨?_, ?_, ?_, h.ids⟩
  · intro b' hb'
    obtain ⟨b, hb, rfl⟩ := List.mem_map.1 hb'
    exact pipeW_bankOk c b (h.ok b hb)
  · intro k
    have := h.i k
    simp only [IW, uncW, wBankUncAt_atB] at this
    simp only [IW, uncW, wBankUncAt_atB, tickPipesW, e2 k]
    exact this
  · intro k
    have := h.r k
    simp only [RW, chainW, wBankChain_atB] at this
    simp only [RW, chainW, wBankChain_atB, tickPipesW, e1 k]
    exact this

theorem tickDelaysW_inv (c : Cfg) (s : WState) (h : InvW c s) : InvW c (tickDelaysW c s) := by
  have e1 : ∀ k, atB wBankReqs (s.banks.map (tickBankDelayW c)) k = atB wBankReqs s.banks k :=
    fun k => atB_map _ _ _ k (fun b hb => (delayW_spec c b (h.ok b hb)).2.1)
  have e2 : ∀ k, atB wBankUnc (s.banks.map (tickBankDelayW c)) k = atB wBankUnc s.banks k :=
    fun k => atB_map _ _ _ k (fun b hb => (delayW_spec c b (h.ok b hb)).2.2)
  refine ⟨?_, ?_, ?_, h.ids⟩
  · intro b' hb'
    obtain ⟨b, hb, rfl⟩ := List.mem_map.1 hb'
    exact (delayW_spec c b (h.ok b hb)).1
  · intro k
    have := h.i k
    simp only [IW, uncW, wBankUncAt_atB] at this
    simp only [IW, uncW, wBankUncAt_atB, tickDelaysW, e2 k]
    exact this
  · intro k
    have := h.r k
    simp only [RW, chainW, wBankChain_atB] at this
    simp only [RW, chainW, wBankChain_atB, tickDelaysW, e1 k]
    exact this

theorem dispatchW_inv (c : Cfg) (s : WState) (h : InvW c s) : InvW c (dispatchW c s) :=
  ⟨(dispatchW_spec c s 0 h.ok).1,
   fun k => by have := h.i k; unfold IW at this ⊢; rw [(dispatchW_spec c s k h.ok).2.2]; exact this,
   fun k => by have := h.r k; unfold RW at this ⊢; rw [(dispatchW_spec c s k h.ok).2.1]; exact this, h.ids⟩

theorem drainTopW_inv (c : Cfg) (s : WState) (h : InvW c s) : InvW c (drainTopW s) :=
  ⟨h.ok, fun k => by have := h.i k; simpa [IW, uncW, drainTopW] using this,
    fun k => by have := h.r k; simpa [RW, chainW, drainTopW] using this, h.ids⟩

theorem tickW_inv (c : Cfg) (s : WState) (h : InvW c s) : InvW c (tickW c s) := by
  unfold tickW
  have h1 : InvW c (finalizeW c s).st := finalizeW_inv c s h
  simp only
  split
  · exact h1
  · split
    · exact tickDelaysW_inv c _ (tickPipesW_inv c _ h1)
    · exact drainTopW_inv c _ (dispatchW_inv c _ (tickDelaysW_inv c _ (tickPipesW_inv c _ h1)))

theorem tickW_arrived (c : Cfg) (s : WState) : (tickW c s).arrived = s.arrived := by
  unfold tickW
  simp only
  split
  · exact finalizeFromW_arrived c _ s false
  · split
    · show (finalizeW c s).st.arrived = s.arrived
      exact finalizeFromW_arrived c _ s false
    · show (finalizeW c s).st.arrived = s.arrived
      exact finalizeFromW_arrived c _ s false

theorem deliverW_inv (c : Cfg) (s : WState) (kind : Kind) (addr len : Nat) (data : List Nat)
    (mask : Option (List Bool)) (h : InvW c s) : InvW c (deliverW c s kind addr len data mask) := by
  unfold deliverW
  split
  · refine ⟨h.ok, ?_, ?_, ?_⟩
    · intro k
      have := h.i k
      simp only [IW, uncW] at this ⊢
      simp only [← List.append_assoc, List.filter_append]
      rw [← this]; simp [List.filter_append]
    · intro k
      have := h.r k
      simp only [RW, chainW] at this ⊢
      simp only [← List.append_assoc, List.filter_append]
      rw [← this]; simp [List.filter_append]
    · simp [h.ids, List.range_succ]
  · exact h

theorem step_invW (c : Cfg) (s : WState) (op : Op) (h : InvW c s) : InvW c (stepW c s op) := by
  cases op with
  | deliver k a l d m => exact deliverW_inv c s k a l d m h
  | tick => exact tickW_inv c s h
  | out k =>
    exact ⟨h.ok, fun j => by have := h.i j; simpa [IW, uncW, stepW] using this,
      fun j => by have := h.r j; simpa [RW, chainW, stepW] using this, h.ids⟩

theorem stepW_arrived_mono (c : Cfg) (s : WState) (op : Op) (r : Req) (hr : r ∈ s.arrived) :
    r ∈ (stepW c s op).arrived := by
  cases op with
  | deliver k a l d m =>
    simp only [stepW, deliverW]
    split
    · simp [hr]
    · exact hr
  | tick => simp only [stepW, tickW_arrived]; exact hr
  | out k => exact hr

theorem flatMap_replicate_nil (w : Nat) (l : Lane) (h : laneItems l = []) :
    (List.replicate w l).flatMap laneItems = [] := by
  induction w with
  | zero => rfl
  | succ w ih => simp [List.replicate_succ, h, ih]

theorem wItems_empty (c : Cfg) : wItems (emptyBankW c) = [] := by
  simp [wItems, emptyBankW, flatMap_replicate_nil _ _ (laneItems_replicate c.depth)]

theorem init_invW (c : Cfg) : InvW c (initW c) := by
  have hr : wBankReqs (emptyBankW c) = [] := rfl
  have hu : wBankUnc (emptyBankW c) = [] := by simp [wBankUnc, emptyBankW]
  have hc : ∀ (f : WBank → List Req), f (emptyBankW c) = [] → ∀ k, atB f (initW c).banks k = [] := by
    intro f hf k
    simp only [atB, initW]
    cases hg : (List.replicate c.banks (emptyBankW c))[k]? with
    | none => rfl
    | some b =>
      have := List.mem_of_getElem? hg
      rw [List.mem_replicate] at this
      simp [this.2, hf]
  refine ⟨?_, ?_, ?_, by simp [initW]⟩
  · intro b hbm
    have := (List.mem_replicate.1 hbm).2
    subst this
    refine ⟨?_, ?_, ?_, fun _ => rfl⟩
    · rw [wItems_empty]; exact List.Perm.refl _
    · intro it hm; rw [wItems_empty] at hm; cases hm
    · intro p hp; cases hp
  · intro k
    simp only [IW, uncW, wBankUncAt_atB, hc _ hu k]
    simp [initW]
  · intro k
    simp only [RW, chainW, wBankChain_atB, hc _ hr k]
    simp [initW]

theorem run_invW (c : Cfg) (ops : List Op) : InvW c (runW c ops) := by
  unfold runW
  have : ∀ (ops : List Op) (s : WState), InvW c s → InvW c (ops.foldl (stepW c) s) := by
    intro ops
    induction ops with
    | nil => intro s h; exact h
    | cons o os ih => intro s h; exact ih _ (step_invW c s o h)
  exact this ops _ (init_invW c)

end C17
