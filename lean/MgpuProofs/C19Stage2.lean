import MgpuProofs.C19Stage
/-! Helper lemmas for C19 (closed system): the stages that consume data (`processDataPullRsp`) and
    write-done responses (`processWriteDoneRspFromMemCtrl`); the whole tick. -/
namespace C19

variable {live : List Live} {vx vy : DirV} {q : Pmc}

theorem lookup_of_mem_keys (l : List (Nat × Nat)) (k : Nat) (h : k ∈ l.map Prod.fst) :
    ∃ a, l.lookup k = some a ∧ (k, a) ∈ l := by
  induction l with
  | nil => simp at h
  | cons e l ih =>
    obtain ⟨k', a'⟩ := e
    by_cases hk : k = k'
    · subst hk; exact ⟨a', by simp [List.lookup], by simp⟩
    · have : k ∈ l.map Prod.fst := by
        simp only [List.map_cons, List.mem_cons] at h
        rcases h with h | h
        · exact absurd h hk
        · exact h
      obtain ⟨a, h1, h2⟩ := ih this
      refine ⟨a, ?_, List.mem_cons_of_mem _ h2⟩
      simp only [List.lookup]
      have : (k == k') = false := by simpa using hk
      rw [this]; exact h1

theorem loop_moving {p : Nat} {r : MigReq} {S : List Nat} {b dones : Nat} {memR : Mem} (rs : List PullRsp) :
    ∀ (q : Pmc) (T0 : List Tok), Moving p r S b (T0 ++ rs.map tRsp) q.map dones memR →
      ∃ ws mp' nid' wlog',
        pullRspLoop q rs = { q with writeReqs := q.writeReqs ++ ws, map := mp', nid := nid', wlog := wlog' } ∧
        Moving p r S b (T0 ++ ws.map tWr) mp' dones memR := by
  induction rs with
  | nil =>
    intro q T0 h
    exact ⟨[], q.map, q.nid, q.wlog, by simp [pullRspLoop], by simpa using h⟩
  | cons x xs ih =>
    intro q T0 h
    have h' : Moving p r S b (Tok.dt x.id x.data :: (T0 ++ xs.map tRsp)) q.map dones memR := by
      refine h.perm ?_
      simp only [List.map_cons, tRsp]
      count_perm
    have hmem : x.id ∈ q.map.map Prod.fst := h'.cn.mem_iff.mp (by simp)
    obtain ⟨a, hlook, hin⟩ := lookup_of_mem_keys _ _ hmem
    have h2 := h'.pull hin
    obtain ⟨ws, mp', nid', wlog', e1, e2⟩ := ih
      { q with writeReqs := q.writeReqs ++ [MReq.write (fresh q) a x.data],
               map := q.map.filter (fun e => e.1 != x.id), nid := q.nid + 1,
               wlog := q.wlog ++ [(x.id, a, x.data)] }
      (T0 ++ [Tok.wr a x.data]) (h2.perm (by count_perm))
    refine ⟨MReq.write (fresh q) a x.data :: ws, mp', nid', wlog', ?_, e2.perm ?_⟩
    · simp only [pullRspLoop, hlook, e1]
      simp
    · simp only [List.map_cons, tWr]
      count_perm

theorem both_pullRsp (h : Both vx vy live q) :
    (pullRsp q).1.fault = q.fault ∧ Both vx vy live (pullRsp q).1 := by
  obtain ⟨hx, hy⟩ := h
  unfold pullRsp
  split
  · exact ⟨rfl, hx, hy⟩
  · rename_i hne
    by_cases hc : q.cur.isSome = true ∧ q.handling = true
    · obtain ⟨hc1, hc2⟩ := hc
      obtain ⟨r, hr⟩ := Option.isSome_iff_exists.mp hc1
      obtain ⟨ℓ, hl, hlp, hlr, b, hm⟩ := hx.mv r hr hc2
      have hm' : Moving vx.p r ℓ.snap b (toks { vx with rq := { q with recvData := [] } } ++ q.recvData.map tRsp)
          q.map q.dones vx.memR := by
        refine hm.perm ?_
        simp only [toks, reqSide, List.map_nil]
        count_perm
      obtain ⟨ws, mp', nid', wlog', e1, e2⟩ := loop_moving q.recvData q _ hm'
      simp only [e1]
      refine ⟨trivial, ?_, hy.own_same _ rfl rfl rfl rfl rfl rfl rfl rfl rfl⟩
      exact {
        sf := hx.sf
        co := hx.co
        ph := hx.ph
        idn := hx.idn
        lk := hx.lk
        lm := hx.lm
        cj := hx.cj
        wd := hx.wd
        mi := hx.mi
        wf := hx.wf
        dn := hx.dn
        sr := hx.sr
        rt1 := hx.rt1
        rt2 := hx.rt2
        rt3 := hx.rt3
        rp := hx.rp
        rd1 := hx.rd1
        rd2 := hx.rd2
        mv := by
          intro r' hr' _
          have : r = r' := by
            have : q.cur = some r' := hr'
            rw [hr] at this; injection this
          subst this
          refine ⟨ℓ, hl, hlp, hlr, b, e2.perm ?_⟩
          simp only [toks, reqSide, List.map_append, List.map_nil]
          count_perm
        nm := by
          intro hn'
          exact absurd ⟨hc1, hc2⟩ hn' }
    · obtain ⟨n1, _⟩ := hx.nm hc
      simp only [toks, reqSide, List.append_eq_nil_iff, List.map_eq_nil_iff] at n1
      exact absurd (by simp [n1]) hne

theorem eq_of_nodup_map {α β : Type} (f : α → β) (l : List α) (hn : (l.map f).Nodup) {a b : α}
    (ha : a ∈ l) (hb : b ∈ l) (e : f a = f b) : a = b := by
  induction l with
  | nil => cases ha
  | cons x l ih =>
    simp only [List.map_cons, List.nodup_cons, List.mem_map, not_exists, not_and] at hn
    rcases List.mem_cons.mp ha with h1 | h1 <;> rcases List.mem_cons.mp hb with h2 | h2
    · rw [h1, h2]
    · rw [h1] at e; exact absurd e.symm (hn.1 b h2)
    · rw [h2] at e; exact absurd e (hn.1 a h1)
    · exact ih hn.2 h1 h2

theorem live_unique {p : Nat} (hn : ((live.filter (fun ℓ => ℓ.p == p)).map (·.r.id)).Nodup) {a b : Live}
    (ha : a ∈ live) (hb : b ∈ live) (pa : a.p = p) (pb : b.p = p) (e : a.r.id = b.r.id) : a = b :=
  eq_of_nodup_map (·.r.id) _ hn (List.mem_filter.mpr ⟨ha, by simp [pa]⟩) (List.mem_filter.mpr ⟨hb, by simp [pb]⟩) e

theorem both_writeDone (h : Both vx vy live q) (hph : Phase (key q)) :
    (writeDone q).1.fault = q.fault ∧ Both vx vy live (writeDone q).1 ∧ Phase (key (writeDone q).1) ∧
      (writeDone q).1.wdone = none := by
  obtain ⟨hx, hy⟩ := h
  unfold writeDone
  cases hw : q.wdone with
  | none => exact ⟨rfl, ⟨hx, hy⟩, hph, hw⟩
  | some w =>
    simp only
    have hT : (toks { vx with rq := q }).Perm (Tok.dn :: toks { vx with rq := { q with wdone := none } }) := by
      simp only [toks, reqSide, hw]
      count_perm
    by_cases hc : q.cur.isSome = true ∧ q.handling = true
    · obtain ⟨hc1, hc2⟩ := hc
      obtain ⟨r, hr⟩ := Option.isSome_iff_exists.mp hc1
      obtain ⟨ℓ, hl, hlp, hlr, b, hm⟩ := hx.mv r hr hc2
      have hm0 := hm.perm hT.symm
      have hln := hm0.ln
      simp only [List.length_cons] at hln
      cases hph with
      | idle _ g2 => simp only [key] at g2; rw [hr] at g2; cases g2
      | done S r' _ g2 => simp only [key] at g2; rw [hr] at g2; cases g2
      | moving S r' g1 g2 g3 g4 g5 g6 g7 =>
        simp only [key] at g1 g2 g3 g4 g5 g6 g7
        have : r' = r := by rw [hr] at g2; injection g2 with g2; exact g2.symm
        subst this
        have hnc : (r'.size / unit : Nat) = nCh r' := rfl
        have hd : (q.dones : Nat) = q.dones := rfl
        have hpend : q.pending = ((toks { vx with rq := { q with wdone := none } }).length : Int) + 1 := by
          have hln' : (((toks { vx with rq := { q with wdone := none } }).length + 1 + q.dones : Nat) : Int) =
              ((r'.size / unit : Nat) : Int) := by rw [hln]; rfl
          omega
        have h1 : ¬ (q.pending - 1 < 0) := by omega
        simp only [h1, if_false]
        obtain ⟨w1, w2, w3, w4, w5, w6⟩ := hx.wf ℓ hl hlp
        by_cases h2 : q.pending - 1 = 0
        · simp only [h2, if_true, hr]
          have hlen : (toks { vx with rq := { q with wdone := none } }).length = 0 := by omega
          have hnil := List.eq_nil_of_length_eq_zero hlen
          rw [hnil] at hm0
          obtain ⟨f1, f2⟩ := hm0.finish (by rw [← hlr]; exact w3)
          have hdn : q.dones + 1 = r'.size / unit := by rw [hnc, ← hln, hlen]; omega
          refine ⟨trivial, ⟨?_, hy.own_same _ rfl rfl rfl rfl rfl rfl rfl rfl rfl⟩,
            Phase.done S r' g1 rfl g3 g4 rfl rfl hdn (by omega), trivial⟩
          exact {
            sf := hx.sf
            co := hx.co
            ph := Or.inl (Phase.done S r' g1 rfl g3 g4 rfl rfl hdn (by omega))
            idn := hx.idn
            lk := by simpa [activeId, hr] using hx.lk
            lm := by
              intro r'' hr''
              rcases hr'' with hr'' | hr''
              · cases hr''
              · exact hx.lm r'' (Or.inr hr'')
            cj := hx.cj
            wd := by simp
            mi := hx.mi
            wf := hx.wf
            dn := by
              intro ℓ' hl' hp' hid
              rcases hid with hid | hid
              · exact hx.dn ℓ' hl' hp' (Or.inl hid)
              · have hid' : ℓ.r.id = ℓ'.r.id := by
                  have : some r'.id = some ℓ'.r.id := hid
                  injection this with this
                  rw [hlr]; exact this
                have := live_unique hx.idn hl hl' hlp hp' hid'
                subst this
                rw [hlr]; exact f2
            sr := hx.sr
            rt1 := hx.rt1
            rt2 := hx.rt2
            rt3 := hx.rt3
            rp := hx.rp
            rd1 := hx.rd1
            rd2 := hx.rd2
            mv := by intro r'' hr''; cases hr''
            nm := fun _ => ⟨hnil, f1⟩ }
        · simp only [h2, if_false]
          have hlt : q.dones + 1 < nCh r' := by omega
          have hph' : Phase (key { q with pending := q.pending - 1, wdone := none, dones := q.dones + 1 }) :=
            Phase.moving S r' g1 g2 g3 g4 g5
              (by show q.pending - 1 = ((r'.size / unit : Nat) : Int) - ((q.dones + 1 : Nat) : Int); omega)
              (by show 0 ≤ q.pending - 1; omega)
          refine ⟨trivial, ⟨?_, hy.own_same _ rfl rfl rfl rfl rfl rfl rfl rfl rfl⟩, hph', trivial⟩
          exact {
            sf := hx.sf
            co := hx.co
            ph := Or.inl hph'
            idn := hx.idn
            lk := hx.lk
            lm := hx.lm
            cj := hx.cj
            wd := by simp
            mi := hx.mi
            wf := hx.wf
            dn := hx.dn
            sr := hx.sr
            rt1 := hx.rt1
            rt2 := hx.rt2
            rt3 := hx.rt3
            rp := hx.rp
            rd1 := hx.rd1
            rd2 := hx.rd2
            mv := by
              intro r'' hr'' _
              have : r' = r'' := by
                have : q.cur = some r'' := hr''
                rw [hr] at this; injection this
              subst this
              exact ⟨ℓ, hl, hlp, hlr, b, hm0.count hlt⟩
            nm := fun hn' => absurd ⟨hc1, hc2⟩ hn' }
    · obtain ⟨n1, _⟩ := hx.nm hc
      rw [n1] at hT
      exact absurd hT.symm (List.cons_ne_nil _ _ ∘ List.Perm.eq_nil)

theorem stage_chain (P Q : Pmc → Prop) (f : Pmc → Pmc × Bool) (x : Pmc × Bool)
    (hf : ∀ p, p.fault = none → P p → (f p).1.fault = none ∧ Q (f p).1)
    (hx : x.1.fault = none ∧ P x.1) : (stage f x).1.fault = none ∧ Q (stage f x).1 := by
  unfold stage
  simp only [hx.1, Option.isSome_none, Bool.false_eq_true, if_false]
  exact hf x.1 hx.1 hx.2

/-- the whole tick keeps the invariant of both directions, never panics, ends with the write-done
    slot empty and the completion protocol in one of its three stable phases -/
theorem both_tick (h : Both vx vy live q) (hph : Phase (key q)) (hf : q.fault = none) :
    (tick q).1.fault = none ∧ Both vx vy live (tick q).1 ∧ Phase (key (tick q).1) ∧ (tick q).1.wdone = none := by
  unfold tick
  let P1 : Pmc → Prop := fun p => Both vx vy live p ∧ Phase (key p)
  let P2 : Pmc → Prop := fun p => Both vx vy live p
  let P3 : Pmc → Prop := fun p => Both vx vy live p ∧ Phase (key p) ∧ p.wdone = none
  have g0 : (q, false).1.fault = none ∧ P1 (q, false).1 := ⟨hf, h, hph⟩
  have g1 := stage_chain P1 P1 sendPull _ (fun p hp hP => by
    obtain ⟨a, b⟩ := both_sendPull hP.1
    exact ⟨a.trans hp, b, by rw [key_sendPull]; exact hP.2⟩) g0
  have g2 := stage_chain P1 P1 sendRead _ (fun p hp hP => by
    obtain ⟨a, b⟩ := both_sendRead hP.1
    exact ⟨a.trans hp, b, by rw [key_sendRead]; exact hP.2⟩) g1
  have g3 := stage_chain P1 P1 sendComplete _ (fun p hp hP => by
    obtain ⟨a, b⟩ := both_sendComplete hP.1 hP.2
    exact ⟨a.trans hp, b, (phase_sendComplete p hP.2).1⟩) g2
  have g4 := stage_chain P1 P1 sendRsp _ (fun p hp hP => by
    obtain ⟨a, b⟩ := both_sendRsp hP.1
    exact ⟨a.trans hp, b, by rw [key_sendRsp]; exact hP.2⟩) g3
  have g5 := stage_chain P1 P1 sendWrite _ (fun p hp hP => by
    obtain ⟨a, b⟩ := both_sendWrite hP.1
    exact ⟨a.trans hp, b, by rw [key_sendWrite]; exact hP.2⟩) g4
  have g6 := stage_chain P1 P1 fromOutside _ (fun p hp hP => by
    obtain ⟨a, b⟩ := both_fromOutside hP.1
    exact ⟨a.trans hp, b, by rw [key_fromOutside]; exact hP.2⟩) g5
  have g7 := stage_chain P1 P2 fromCtrl _ (fun p hp hP => by
    obtain ⟨a, b⟩ := both_fromCtrl hP.1 hP.2
    exact ⟨a.trans hp, b⟩) g6
  have g8 := stage_chain P2 P2 fromMem _ (fun p hp hP => by
    obtain ⟨a, b⟩ := both_fromMem hP
    exact ⟨a.trans hp, b⟩) g7
  have g9 := stage_chain P2 P1 startMigration _ (fun p hp hP => by
    obtain ⟨a, b, c⟩ := both_startMigration hP
    exact ⟨a.trans hp, b, c⟩) g8
  have g10 := stage_chain P1 P1 readPage _ (fun p hp hP => by
    obtain ⟨a, b⟩ := both_readPage hP.1
    exact ⟨a.trans hp, b, by rw [key_readPage]; exact hP.2⟩) g9
  have g11 := stage_chain P1 P1 dataReadyRsp _ (fun p hp hP => by
    obtain ⟨a, b⟩ := both_dataReadyRsp hP.1
    exact ⟨a.trans hp, b, by rw [key_dataReadyRsp]; exact hP.2⟩) g10
  have g12 := stage_chain P1 P1 pullRsp _ (fun p hp hP => by
    obtain ⟨a, b⟩ := both_pullRsp hP.1
    exact ⟨a.trans hp, b, by rw [key_pullRsp]; exact hP.2⟩) g11
  have g13 := stage_chain P1 P3 writeDone _ (fun p hp hP => by
    obtain ⟨a, b, c, d⟩ := both_writeDone hP.1 hP.2
    exact ⟨a.trans hp, b, c, d⟩) g12
  exact g13

end C19
