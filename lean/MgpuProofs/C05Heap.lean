import MgpuModel.C05_Engine
/-!
# C05.Eng — `container/heap` on `sim.eventHeap`: permutation and min-heap order

`up`, `down`, `push`, `pop` of `MgpuModel/C05_Engine.lean` keep the multiset of events
(`*_perm`) and the min-heap order on event times (`push_inv`, `pop_inv`); `pop` returns the root,
which is a minimum (`pop_root`, `pop_min`).

The comparison `less` is the regenerated operator token (`Gen.C05Engine.eventHeapLess`); `less_eq`
is the only place where the token is read, and it fails to elaborate for any other token.
-/
namespace C05
namespace Eng

/-! ## the operator tokens -/

theorem cmp_lt (a b : Nat) : cmp "<" a b = decide (a < b) := by simp [cmp]
theorem cmp_le (a b : Nat) : cmp "<=" a b = decide (a ≤ b) := by simp [cmp]

theorem less_eq (h : Heap) (i j : Nat) : less h i j = decide ((nth h i).time < (nth h j).time) := by
  simp [less, cmp, Gen.C05Engine.eventHeapLess]

theorem less_iff (h : Heap) (i j : Nat) : less h i j = true ↔ (nth h i).time < (nth h j).time := by
  rw [less_eq]; exact decide_eq_true_iff

/-- min-heap order on times: every non-root element is not earlier than its parent -/
def HeapInv (h : Heap) : Prop := ∀ i, 0 < i → i < h.length → (nth h ((i - 1) / 2)).time ≤ (nth h i).time

/-- min-heap order on the first `n` positions -/
def HeapInvN (h : Heap) (n : Nat) : Prop := ∀ k, 0 < k → k < n → (nth h ((k - 1) / 2)).time ≤ (nth h k).time

theorem heapInv_nil : HeapInv [] := by
  intro i _ hi; simp at hi

theorem heapInvN_length (h : Heap) : HeapInvN h h.length ↔ HeapInv h := Iff.rfl

/-! ## `nth`, `set`, `swap` -/

theorem nth_eq_getElem (h : Heap) (i : Nat) (hi : i < h.length) : nth h i = h[i] := by
  unfold nth; rw [List.getD_eq_getElem?_getD, List.getElem?_eq_getElem hi]; rfl

theorem nth_set (h : Heap) (i k : Nat) (x : Ev) :
    nth (h.set i x) k = if i = k ∧ i < h.length then x else nth h k := by
  unfold nth
  rw [List.getD_eq_getElem?_getD, List.getD_eq_getElem?_getD, List.getElem?_set]
  by_cases hik : i = k
  · subst hik
    by_cases hl : i < h.length
    · simp [hl]
    · simp [hl]
  · simp [hik]

theorem swap_length (h : Heap) (i j : Nat) : (swap h i j).length = h.length := by
  simp [swap]

theorem nth_swap (h : Heap) (i j k : Nat) (hi : i < h.length) (hj : j < h.length) :
    nth (swap h i j) k = if k = j then nth h i else if k = i then nth h j else nth h k := by
  unfold swap
  rw [nth_set, nth_set, List.length_set]
  by_cases h1 : k = j
  · subst h1; simp [hj]
  · by_cases h2 : k = i
    · subst h2; simp [hi, h1, Ne.symm h1]
    · simp [h1, h2, Ne.symm h1, Ne.symm h2]

theorem swap_self (h : Heap) (i : Nat) : swap h i i = h := by
  apply List.ext_getElem?
  intro k
  unfold swap
  rw [List.getElem?_set, List.getElem?_set, List.length_set]
  by_cases hik : i = k
  · subst hik
    by_cases hl : i < h.length
    · simp [hl, nth_eq_getElem h i hl]
    · simp [hl]
  · simp [hik]

private theorem count_getElem_pos (h : Heap) (i : Nat) (hi : i < h.length) (b : Ev) (hb : (h[i] == b) = true) :
    0 < h.count b := by
  rw [List.count_pos_iff]
  have : h[i] = b := by simpa using hb
  rw [← this]; exact List.getElem_mem hi

theorem swap_perm (h : Heap) (i j : Nat) (hi : i < h.length) (hj : j < h.length) : (swap h i j).Perm h := by
  by_cases hij : i = j
  · subst hij; rw [swap_self]
  rw [List.perm_iff_count]
  intro b
  unfold swap
  rw [nth_eq_getElem h i hi, nth_eq_getElem h j hj]
  have hj' : j < (h.set i h[j]).length := by rw [List.length_set]; exact hj
  rw [List.count_set hj', List.count_set hi, List.getElem_set]
  simp only [hij, if_false]
  have h1 := count_getElem_pos h i hi b
  have h2 := count_getElem_pos h j hj b
  by_cases c1 : (h[i] == b) = true <;> by_cases c2 : (h[j] == b) = true <;> simp [c1, c2] <;>
    (first | (have := h1 c1; omega) | (have := h2 c2; omega) | skip)

/-! ## `up` -/

theorem up_length (h : Heap) (j : Nat) : (up h j).length = h.length := by
  induction h, j using up.induct with
  | case1 h => unfold up; simp
  | case2 h j hj hl ih => rw [up, if_neg hj, if_pos hl, ih, swap_length]
  | case3 h j hj hl => rw [up, if_neg hj, if_neg hl]

theorem up_perm (h : Heap) (j : Nat) (hj : j < h.length) : (up h j).Perm h := by
  induction h, j using up.induct with
  | case1 h => unfold up; simp
  | case2 h j hj0 hl ih =>
    rw [up, if_neg hj0, if_pos hl]
    have hp : (j - 1) / 2 < h.length := by omega
    exact (ih (by rw [swap_length]; exact hp)).trans (swap_perm h _ _ hp hj)
  | case3 h j hj0 hl => rw [up, if_neg hj0, if_neg hl]

/-- what `up h j` needs: the heap order holds everywhere except between `j` and its parent, and
    the parent of `j` is not later than the children of `j` -/
structure UpInv (h : Heap) (j : Nat) : Prop where
  a : ∀ k, 0 < k → k < h.length → k ≠ j → (nth h ((k - 1) / 2)).time ≤ (nth h k).time
  b : ∀ k, 0 < k → k < h.length → (k - 1) / 2 = j → 0 < j →
    (nth h ((j - 1) / 2)).time ≤ (nth h k).time

theorem up_inv (h : Heap) (j : Nat) (hj : j < h.length) (hu : UpInv h j) : HeapInv (up h j) := by
  induction h, j using up.induct with
  | case1 h =>
    unfold up; simp only [if_true]
    intro k hk hkl
    exact hu.a k hk hkl (by omega)
  | case2 h j hj0 hl ih =>
    rw [up, if_neg hj0, if_pos hl]
    have hp : (j - 1) / 2 < h.length := by omega
    have hlt := (less_iff h j ((j - 1) / 2)).1 hl
    apply ih (by rw [swap_length]; exact hp)
    have hn : ∀ k, nth (swap h ((j - 1) / 2) j) k
        = if k = j then nth h ((j - 1) / 2) else if k = (j - 1) / 2 then nth h j else nth h k :=
      fun k => nth_swap h _ _ k hp hj
    constructor
    · intro k hk0 hkl hkp
      rw [swap_length] at hkl
      rw [hn k, hn ((k - 1) / 2)]
      by_cases hkj : k = j
      · subst hkj
        have e1 : ¬ ((k - 1) / 2 = k) := by omega
        simp only [e1, if_false, if_true]
        omega
      · simp only [hkj, hkp, if_false]
        by_cases c1 : (k - 1) / 2 = j
        · simp only [c1, if_true]
          have := hu.b k hk0 hkl c1 (by omega)
          exact this
        · simp only [c1, if_false]
          by_cases c2 : (k - 1) / 2 = (j - 1) / 2
          · simp only [c2, if_true]
            have := hu.a k hk0 hkl hkj
            rw [c2] at this
            omega
          · simp only [c2, if_false]
            exact hu.a k hk0 hkl hkj
    · intro k hk0 hkl hkp hp0
      rw [swap_length] at hkl
      rw [hn k, hn (((j - 1) / 2 - 1) / 2)]
      have e1 : ¬ (((j - 1) / 2 - 1) / 2 = j) := by omega
      have e2 : ¬ (((j - 1) / 2 - 1) / 2 = (j - 1) / 2) := by omega
      have e3 : ¬ (k = (j - 1) / 2) := by omega
      simp only [e1, e2, e3, if_false]
      have hpp := hu.a ((j - 1) / 2) hp0 hp (by omega)
      by_cases hkj : k = j
      · simp only [hkj, if_true]; exact hpp
      · simp only [hkj, if_false]
        have := hu.a k hk0 hkl hkj
        rw [hkp] at this
        omega
  | case3 h j hj0 hl =>
    rw [up, if_neg hj0, if_neg hl]
    have hnl : ¬ (nth h j).time < (nth h ((j - 1) / 2)).time := fun c => hl ((less_iff _ _ _).2 c)
    intro k hk0 hkl
    by_cases hkj : k = j
    · subst hkj; omega
    · exact hu.a k hk0 hkl hkj

/-! ## `push` -/

theorem nth_append_left (h : Heap) (x : Ev) (k : Nat) (hk : k < h.length) : nth (h ++ [x]) k = nth h k := by
  unfold nth
  rw [List.getD_eq_getElem?_getD, List.getD_eq_getElem?_getD, List.getElem?_append]
  simp [hk]

theorem nth_append_last (h : Heap) (x : Ev) : nth (h ++ [x]) h.length = x := by
  unfold nth
  rw [List.getD_eq_getElem?_getD, List.getElem?_append]
  simp

theorem push_length (h : Heap) (x : Ev) : (push h x).length = h.length + 1 := by
  unfold push; rw [up_length]; simp

theorem push_perm (h : Heap) (x : Ev) : (push h x).Perm (x :: h) := by
  unfold push
  exact (up_perm (h ++ [x]) h.length (by simp)).trans (List.perm_append_singleton x h)

theorem push_inv (h : Heap) (x : Ev) (hh : HeapInv h) : HeapInv (push h x) := by
  unfold push
  apply up_inv _ _ (by simp)
  constructor
  · intro k hk0 hkl hkn
    have hkl' : k < h.length := by
      have : (h ++ [x]).length = h.length + 1 := by simp
      omega
    rw [nth_append_left h x k hkl', nth_append_left h x _ (by omega)]
    exact hh k hk0 hkl'
  · intro k hk0 hkl hkp _
    have : (h ++ [x]).length = h.length + 1 := by simp
    omega

/-! ## `down` -/

theorem down_length (h : Heap) (i n : Nat) : (down h i n).length = h.length := by
  induction h, i using down.induct n with
  | case1 h i hn hl ih => rw [down, dif_pos hn, if_pos hl, ih, swap_length]
  | case2 h i hn hl => rw [down, dif_pos hn, if_neg hl]
  | case3 h i hn => rw [down, dif_neg hn]

theorem down_perm (h : Heap) (i n : Nat) (hn : n ≤ h.length) : (down h i n).Perm h := by
  induction h, i using down.induct n with
  | case1 h i hn' hl ih =>
    rw [down, dif_pos hn', if_pos hl]
    have hc := child_lt h i n hn'
    exact (ih (by rw [swap_length]; exact hn)).trans (swap_perm h _ _ (by omega) (by omega))
  | case2 h i hn' hl => rw [down, dif_pos hn', if_neg hl]
  | case3 h i hn' => rw [down, dif_neg hn']

/-- `down h i n` leaves the positions from `n` on alone -/
theorem down_nth_ge (h : Heap) (i n k : Nat) (hn : n ≤ h.length) (hk : n ≤ k) :
    nth (down h i n) k = nth h k := by
  induction h, i using down.induct n with
  | case1 h i hn' hl ih =>
    rw [down, dif_pos hn', if_pos hl]
    have hc := child_lt h i n hn'
    rw [ih (by rw [swap_length]; exact hn), nth_swap h _ _ k (by omega) (by omega)]
    have e1 : ¬ k = child h i n := by omega
    have e2 : ¬ k = i := by omega
    simp only [e1, e2, if_false]
  | case2 h i hn' hl => rw [down, dif_pos hn', if_neg hl]
  | case3 h i hn' => rw [down, dif_neg hn']

theorem child_cases (h : Heap) (i n : Nat) : child h i n = 2 * i + 1 ∨ child h i n = 2 * i + 2 := by
  unfold child; split <;> simp

/-- the chosen child is not later than any child of `i` below `n` -/
theorem child_min (h : Heap) (i n k : Nat) (hk0 : 0 < k) (hkn : k < n) (hkp : (k - 1) / 2 = i) :
    (nth h (child h i n)).time ≤ (nth h k).time := by
  have hk : k = 2 * i + 1 ∨ k = 2 * i + 2 := by omega
  unfold child
  by_cases hr : 2 * i + 2 < n
  · by_cases hl : less h (2 * i + 2) (2 * i + 1) = true
    · simp only [hr, hl, decide_true, Bool.and_self, if_true]
      have := (less_iff _ _ _).1 hl
      rcases hk with hk | hk <;> subst hk <;> omega
    · simp only [hl, Bool.and_false, Bool.false_eq_true, if_false]
      have : ¬ (nth h (2 * i + 2)).time < (nth h (2 * i + 1)).time := fun c => hl ((less_iff _ _ _).2 c)
      rcases hk with hk | hk <;> subst hk <;> omega
  · have hdec : decide (2 * i + 2 < n) = false := by simp [hr]
    simp only [hdec, Bool.false_and, Bool.false_eq_true, if_false]
    rcases hk with hk | hk <;> subst hk <;> omega

/-- what `down h i n` needs: on the first `n` positions the heap order holds everywhere except
    between `i` and its children, and the parent of `i` is not later than the children of `i` -/
structure DownInv (h : Heap) (i n : Nat) : Prop where
  a : ∀ k, 0 < k → k < n → (k - 1) / 2 ≠ i → (nth h ((k - 1) / 2)).time ≤ (nth h k).time
  b : ∀ k, 0 < k → k < n → (k - 1) / 2 = i → 0 < i → (nth h ((i - 1) / 2)).time ≤ (nth h k).time

theorem down_inv (h : Heap) (i n : Nat) (hn : n ≤ h.length) (hd : DownInv h i n) :
    HeapInvN (down h i n) n := by
  induction h, i using down.induct n with
  | case1 h i hn' hl ih =>
    rw [down, dif_pos hn', if_pos hl]
    have hcn := child_lt h i n hn'
    have hci := child_gt h i n
    have hcc := child_cases h i n
    have hlt := (less_iff h _ _).1 hl
    have hcp : (child h i n - 1) / 2 = i := by omega
    apply ih (by rw [swap_length]; exact hn)
    have hsw : ∀ k, nth (swap h i (child h i n)) k
        = if k = child h i n then nth h i else if k = i then nth h (child h i n) else nth h k :=
      fun k => nth_swap h _ _ k (by omega) (by omega)
    have hmin := child_min h i n
    generalize child h i n = c at *
    constructor
    · intro k hk0 hkn hkp
      rw [hsw k, hsw ((k - 1) / 2)]
      by_cases hkc : k = c
      · subst hkc
        have e1 : ¬ (i = k) := by omega
        simp only [e1, hcp, if_false, if_true]
        omega
      · simp only [hkc, hkp, if_false]
        by_cases hki : k = i
        · subst hki
          have e1 : ¬ ((k - 1) / 2 = k) := by omega
          simp only [e1, if_false, if_true]
          exact hd.b c (by omega) hcn hcp hk0
        · simp only [hki, if_false]
          by_cases c1 : (k - 1) / 2 = i
          · simp only [c1, if_true]
            exact hmin k hk0 hkn c1
          · simp only [c1, if_false]
            exact hd.a k hk0 hkn c1
    · intro k hk0 hkn hkp hc0
      rw [hsw k, hsw ((c - 1) / 2)]
      have e1 : ¬ (k = c) := by omega
      have e2 : ¬ (k = i) := by omega
      have e3 : ¬ (i = c) := by omega
      simp only [e1, e2, e3, hcp, if_false, if_true]
      have := hd.a k hk0 hkn (by omega)
      rw [hkp] at this
      exact this
  | case2 h i hn' hl =>
    rw [down, dif_pos hn', if_neg hl]
    have hnl : ¬ (nth h (child h i n)).time < (nth h i).time := fun c => hl ((less_iff _ _ _).2 c)
    intro k hk0 hkn
    by_cases c1 : (k - 1) / 2 = i
    · have := child_min h i n k hk0 hkn c1
      rw [c1]; omega
    · exact hd.a k hk0 hkn c1
  | case3 h i hn' =>
    rw [down, dif_neg hn']
    intro k hk0 hkn
    exact hd.a k hk0 hkn (by omega)

/-! ## the root is a minimum -/

theorem root_le_nth {h : Heap} (hh : HeapInv h) : ∀ k, k < h.length → (nth h 0).time ≤ (nth h k).time := by
  intro k
  induction k using Nat.strongRecOn with
  | _ k ih =>
    intro hk
    by_cases h0 : k = 0
    · subst h0; exact Nat.le_refl _
    · have h1 := ih ((k - 1) / 2) (by omega) (by omega)
      have h2 := hh k (by omega) hk
      omega

theorem root_min {h : Heap} (hh : HeapInv h) : ∀ y ∈ h, (nth h 0).time ≤ y.time := by
  intro y hy
  obtain ⟨k, hk, rfl⟩ := List.mem_iff_getElem.1 hy
  rw [← nth_eq_getElem h k hk]; exact root_le_nth hh k hk

/-! ## `pop` -/

theorem pop_eq_none (h : Heap) : pop h = none ↔ h = [] := by
  unfold pop
  by_cases hne : h = []
  · simp [hne]
  · simp [hne]

theorem pop_some {h h' : Heap} {x : Ev} (hp : pop h = some (x, h')) :
    h ≠ [] ∧ x = nth (down (swap h 0 (h.length - 1)) 0 (h.length - 1)) (h.length - 1) ∧
      h' = (down (swap h 0 (h.length - 1)) 0 (h.length - 1)).take (h.length - 1) := by
  unfold pop at hp
  by_cases hne : h = []
  · simp [hne] at hp
  · rw [if_neg hne] at hp
    simp only [Option.some.injEq, Prod.mk.injEq] at hp
    exact ⟨hne, hp.1.symm, hp.2.symm⟩

theorem pop_isSome {h : Heap} (hne : h ≠ []) : ∃ x h', pop h = some (x, h') := by
  unfold pop; rw [if_neg hne]; exact ⟨_, _, rfl⟩

theorem pop_root {h h' : Heap} {x : Ev} (hp : pop h = some (x, h')) : x = nth h 0 := by
  obtain ⟨hne, hx, _⟩ := pop_some hp
  have hl : 0 < h.length := List.length_pos_iff.2 hne
  rw [hx, down_nth_ge _ _ _ _ (by rw [swap_length]; omega) (Nat.le_refl _),
    nth_swap h 0 (h.length - 1) _ hl (by omega)]
  simp

theorem take_append_last (l : Heap) (n : Nat) (hl : l.length = n + 1) : l = l.take n ++ [nth l n] := by
  have h1 : l.drop n = [nth l n] := by
    rw [List.drop_eq_getElem_cons (by omega), List.drop_eq_nil_of_le (by omega), nth_eq_getElem l n (by omega)]
  rw [← h1, List.take_append_drop]

theorem pop_perm {h h' : Heap} {x : Ev} (hp : pop h = some (x, h')) : h.Perm (x :: h') := by
  obtain ⟨hne, hx, hh'⟩ := pop_some hp
  have hl : 0 < h.length := List.length_pos_iff.2 hne
  have hlen : (down (swap h 0 (h.length - 1)) 0 (h.length - 1)).length = (h.length - 1) + 1 := by
    rw [down_length, swap_length]; omega
  have e := take_append_last _ _ hlen
  rw [← hx, ← hh'] at e
  have p1 : (down (swap h 0 (h.length - 1)) 0 (h.length - 1)).Perm h :=
    (down_perm _ _ _ (by rw [swap_length]; omega)).trans (swap_perm h _ _ hl (by omega))
  rw [e] at p1
  exact p1.symm.trans (List.perm_append_singleton x h')

theorem nth_take (l : Heap) (n k : Nat) (hk : k < n) : nth (l.take n) k = nth l k := by
  unfold nth
  rw [List.getD_eq_getElem?_getD, List.getD_eq_getElem?_getD, List.getElem?_take, if_pos hk]

theorem pop_inv {h h' : Heap} {x : Ev} (hh : HeapInv h) (hp : pop h = some (x, h')) : HeapInv h' := by
  obtain ⟨hne, _, hh'⟩ := pop_some hp
  have hl : 0 < h.length := List.length_pos_iff.2 hne
  have hsw : ∀ k, nth (swap h 0 (h.length - 1)) k
      = if k = h.length - 1 then nth h 0 else if k = 0 then nth h (h.length - 1) else nth h k :=
    fun k => nth_swap h 0 _ k hl (by omega)
  have hd : DownInv (swap h 0 (h.length - 1)) 0 (h.length - 1) := by
    constructor
    · intro k hk0 hkn hkp
      rw [hsw k, hsw ((k - 1) / 2)]
      have e1 : ¬ k = h.length - 1 := by omega
      have e2 : ¬ k = 0 := by omega
      have e3 : ¬ (k - 1) / 2 = h.length - 1 := by omega
      simp only [e1, e2, e3, hkp, if_false]
      exact hh k hk0 (by omega)
    · intro k _ _ _ h0; exact absurd h0 (Nat.lt_irrefl 0)
  have hN := down_inv _ 0 _ (by rw [swap_length]; omega) hd
  have hlen : (down (swap h 0 (h.length - 1)) 0 (h.length - 1)).length = h.length := by
    rw [down_length, swap_length]
  intro k hk0 hkl
  rw [hh', List.length_take, hlen] at hkl
  have hkn : k < h.length - 1 := by omega
  rw [hh', nth_take _ _ _ hkn, nth_take _ _ _ (by omega)]
  exact hN k hk0 hkn

theorem pop_min {h h' : Heap} {x : Ev} (hh : HeapInv h) (hp : pop h = some (x, h')) :
    ∀ y ∈ h, x.time ≤ y.time := by
  rw [pop_root hp]; exact root_min hh

end Eng
end C05
