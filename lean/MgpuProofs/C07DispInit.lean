import MgpuProofs.C07DispDefs
set_option linter.unusedVariables false
set_option linter.unusedSimpArgs false
/-! # C07 helper lemmas: `DispatchWf` / `initWfRegs` are the location copy followed by a sequence of
ordinary operand writes (`initOps`); hence the state of a new wavefront (`freshMap`) -/
namespace C07
open Gen


/-! ## sizes -/

theorem write_size (f : File) (stride r rc lane off : Nat) (data : List UInt8) :
    (SimpleRF.write f stride r rc lane off data).1.size = f.size := by
  unfold SimpleRF.write
  cases SimpleRF.regOffset stride r off lane with
  | error e => rfl
  | ok o =>
    simp only
    generalize (if (rc == 0) = true then 1 else rc) = rc'
    by_cases h1 : o + rc' * 4 ≤ f.size
    · by_cases h2 : data.length < rc' * 4
      · simp [h1, h2]
      · simp [h1, h2]
    · simp [h1]

theorem writeAll_size (stride off : Nat) (l : List (Nat × Nat × Nat × List UInt8)) :
    ∀ f : File, (SimpleRF.writeAll f stride off l).1.size = f.size := by
  induction l with
  | nil => intro f; rfl
  | cons x l ih =>
    intro f
    obtain ⟨r, rc, lane, data⟩ := x
    simp only [SimpleRF.writeAll]
    split
    · rename_i f' heq
      rw [ih f']
      have := write_size f stride r rc lane off data
      rw [heq] at this
      exact this
    · rename_i f' e heq
      have := write_size f stride r rc lane off data
      rw [heq] at this
      exact this

theorem init_shape (t : TimingRF) (wi : Nat) (d : DispInfo) :
    (t.initRegisters wi d).1.wfs = t.wfs ∧ (t.initRegisters wi d).1.sfile.size = t.sfile.size ∧
    (t.initRegisters wi d).1.vfiles.size = t.vfiles.size ∧
    ∀ x : TWf, ((t.initRegisters wi d).1.vfileOf x).size = (t.vfileOf x).size := by
  unfold TimingRF.initRegisters
  simp only
  split
  · exact ⟨rfl, writeAll_size _ _ _ _, rfl, fun _ => rfl⟩
  · split
    · rename_i hs
      refine ⟨rfl, writeAll_size _ _ _ _, by simp, fun x => ?_⟩
      simp only [TimingRF.vfileOf, get_setIfInBounds_file]
      by_cases e : x.simd = (t.wfs.getD wi default).simd
      · rw [if_pos ⟨e, hs⟩, writeAll_size, e]
      · rw [if_neg (fun h => e h.1)]
    · exact ⟨rfl, writeAll_size _ _ _ _, rfl, fun _ => rfl⟩

/-- **T1** `setWfInfo` + `initRegisters`, whatever happens (fault or not): the record of wavefront `wi`
    gets the location and `InitExecMask`, keeps its register counts and its other special registers; no
    other record, no file size changes -/
theorem dispatch_shape (t : TimingRF) (wi simd soff voff : Nat) (d : DispInfo) (hwi : wi < t.wfs.size) :
    ((t.dispatchWf wi simd soff voff d).1.wf wi).layout = (simd, soff, voff, (t.wf wi).ns, (t.wf wi).nv) ∧
    ((t.dispatchWf wi simd soff voff d).1.wf wi).exec = d.exec ∧
    ((t.dispatchWf wi simd soff voff d).1.wf wi).vcc = (t.wf wi).vcc ∧
    ((t.dispatchWf wi simd soff voff d).1.wf wi).scc = (t.wf wi).scc ∧
    ((t.dispatchWf wi simd soff voff d).1.wf wi).m0 = (t.wf wi).m0 ∧
    (∀ wj, wj ≠ wi → (t.dispatchWf wi simd soff voff d).1.wf wj = t.wf wj) ∧
    (t.dispatchWf wi simd soff voff d).1.wfs.size = t.wfs.size ∧
    (t.dispatchWf wi simd soff voff d).1.sfile.size = t.sfile.size ∧
    (t.dispatchWf wi simd soff voff d).1.vfiles.size = t.vfiles.size ∧
    (∀ x : TWf, ((t.dispatchWf wi simd soff voff d).1.vfileOf x).size = (t.vfileOf x).size) := by
  obtain ⟨i1, i2, i3, i4⟩ := init_shape (t.setWfInfo wi simd soff voff d) wi d
  have hwf : ∀ j, (t.dispatchWf wi simd soff voff d).1.wf j = (t.setWfInfo wi simd soff voff d).wf j := by
    intro j; simp only [TimingRF.wf, TimingRF.dispatchWf, i1]
  have hsame : (t.setWfInfo wi simd soff voff d).wf wi =
      { t.wf wi with simd := simd, soff := soff, voff := voff, exec := d.exec } :=
    wf_setWf_same t wi _ hwi
  have hother : ∀ wj, wj ≠ wi → (t.setWfInfo wi simd soff voff d).wf wj = t.wf wj :=
    fun wj h => wf_setWf_other t wi wj _ h
  refine ⟨by rw [hwf, hsame]; rfl, by rw [hwf, hsame], by rw [hwf, hsame], by rw [hwf, hsame], by rw [hwf, hsame],
    fun wj h => by rw [hwf, hother wj h], ?_, i2, i3, i4⟩
  show (TimingRF.initRegisters _ wi d).1.wfs.size = _
  rw [i1]
  simp [TimingRF.setWfInfo, TimingRF.setWf]


/-! ## the ABI writes -/

theorem mem_opt {α : Type} (c : Bool) (a x : α) (h : x ∈ (if c = true then [a] else [])) : x = a := by
  cases c
  · simp at h
  · simpa using h

/-- every scalar ABI register is one or two dwords -/
theorem sgprInits_rc (d : DispInfo) : ∀ x ∈ sgprInits d, x.2.1 = 1 ∨ x.2.1 = 2 := by
  intro x hx
  simp only [sgprInits, List.mem_append] at hx
  rcases hx with ((((((hx | hx) | hx) | hx) | hx) | hx) | hx) | hx <;>
    (have := mem_opt _ _ _ hx; subst this; simp)

/-- `AbiFits` says exactly that every initialising write is a supported access with data of the
    operand's width -/
theorem abiFits_ok (d : DispInfo) (ns nv : Nat) (h : AbiFits d ns nv) : ∀ o ∈ initOps d, o.Ok ns nv := by
  obtain ⟨hs, hv⟩ := h
  intro o ho
  simp only [initOps, List.mem_append, List.mem_map, List.mem_flatMap, List.mem_range] at ho
  rcases ho with ⟨x, hx, rfl⟩ | ⟨lane, hl, x, hx, rfl⟩
  · have hrc := sgprInits_rc d x hx
    have hb := hs x hx
    have hc : cnt x.2.1 = x.2.1 := by unfold cnt; rw [if_neg (by omega)]
    refine ⟨⟨by show x.2.1 ≤ 16; omega, by show x.1 + cnt x.2.1 ≤ ns; omega⟩, ?_⟩
    rw [width_s, toLE_length, hc]
  · have hb := hv lane hl x hx
    have hc : cnt 1 = 1 := rfl
    refine ⟨⟨by show 1 ≤ 16; omega, by show x.1 + cnt 1 ≤ nv; omega, hl⟩, ?_⟩
    rw [width_v, toLE_length, hc]


/-! ## `initRegisters` as a sequence of operand writes -/

/-- the state after one access of wavefront `wi` -/
def stepW (wi : Nat) (t : TimingRF) (o : Op) : TimingRF := (t.step wi o).1

theorem exec_map_fst (wi : Nat) (ops : List Op) : ∀ t : TimingRF,
    (t.exec (ops.map fun o => (wi, o))).1 = ops.foldl (stepW wi) t := by
  induction ops with
  | nil => intro t; rfl
  | cons o ops ih => intro t; simp only [List.map_cons, TimingRF.exec, List.foldl_cons, ih]; rfl

/-- `WriteOperandBytes` on an SGPR is `SRegFile.Write` at the wavefront's `SRegOffset` -/
theorem wob_s (t : TimingRF) (wi i rc lane : Nat) (data : List UInt8) (hi : i < 102) :
    t.writeOperandBytes wi (R_S0 + i) rc lane data =
      ({ t with sfile := (SimpleRF.write t.sfile S_STRIDE (R_S0 + i) rc lane (t.wf wi).soff data).1 },
       (SimpleRF.write t.sfile S_STRIDE (R_S0 + i) rc lane (t.wf wi).soff data).2) := by
  obtain ⟨n1, n2, n3, n4, n5, n6, n7, n8⟩ := s_not_special i hi
  simp only [TimingRF.writeOperandBytes, TimingRF.writeReg, SimpleRF.write, SimpleRF.regOffset, TimingRF.wf,
    n1, n2, n3, n4, n5, n6, n7, n8, isSReg_s i hi, waveOffset_s, TimingRF.getRegOffset, Bool.true_or,
    Bool.or_self, Bool.false_eq_true, ↓reduceIte]
  generalize (if (rc == 0) = true then 1 else rc) = rc'
  generalize regIndex (R_S0 + i) * 4 + (t.wfs.getD wi default).soff = o
  by_cases h1 : o + rc' * 4 ≤ t.sfile.size
  · by_cases h2 : data.length < rc' * 4
    · rw [if_pos h1, if_pos h1, if_pos h2, if_pos h2]
    · rw [if_pos h1, if_pos h1, if_neg h2, if_neg h2]
  · rw [if_neg h1, if_neg h1]

theorem write_s_ok (f : File) (i rc soff ns v : Nat) (hrc : 1 ≤ rc) (hin : i + rc ≤ ns) (hns : ns ≤ 102)
    (hf : soff + 4 * ns ≤ f.size) :
    (SimpleRF.write f S_STRIDE (R_S0 + i) rc 0 soff (toLE (4 * rc) v)).2 = none := by
  have hi : i < 102 := by omega
  have hz : (rc == 0) = false := by simp; omega
  simp only [SimpleRF.write, SimpleRF.regOffset, isSReg_s i hi, regIndex_s i hi, hz, toLE_length,
    Bool.false_eq_true, ↓reduceIte]
  rw [if_pos (by omega), if_neg (by omega)]

def sW (x : Nat × Nat × Nat) : Nat × Nat × Nat × List UInt8 := (R_S0 + x.1, x.2.1, 0, toLE (4 * x.2.1) x.2.2)
def sOp (x : Nat × Nat × Nat) : Op := Op.wb ⟨.s x.1, x.2.1, 0⟩ (toLE (4 * x.2.1) x.2.2)

theorem writeAll_cons_ok (f : File) (stride off r rc lane : Nat) (data : List UInt8)
    (rest : List (Nat × Nat × Nat × List UInt8)) (h : (SimpleRF.write f stride r rc lane off data).2 = none) :
    SimpleRF.writeAll f stride off ((r, rc, lane, data) :: rest) =
      SimpleRF.writeAll (SimpleRF.write f stride r rc lane off data).1 stride off rest := by
  have hp : SimpleRF.write f stride r rc lane off data = ((SimpleRF.write f stride r rc lane off data).1, none) :=
    Prod.ext rfl h
  simp only [SimpleRF.writeAll]
  rw [hp]

/-- the scalar half: the writes succeed and are the operand writes, one by one -/
theorem sgpr_seq (wi : Nat) (L : List (Nat × Nat × Nat)) : ∀ t : TimingRF,
    (t.wf wi).soff + 4 * (t.wf wi).ns ≤ t.sfile.size → (t.wf wi).ns ≤ 102 →
    (∀ x ∈ L, 1 ≤ x.2.1 ∧ x.1 + x.2.1 ≤ (t.wf wi).ns) →
    (SimpleRF.writeAll t.sfile S_STRIDE (t.wf wi).soff (L.map sW)).2 = none ∧
    (L.map sOp).foldl (stepW wi) t =
      { t with sfile := (SimpleRF.writeAll t.sfile S_STRIDE (t.wf wi).soff (L.map sW)).1 } := by
  induction L with
  | nil => intro t _ _ _; exact ⟨rfl, rfl⟩
  | cons x L ih =>
    intro t hf hns H
    obtain ⟨hx1, hx2⟩ := H x (by simp)
    have hi : x.1 < 102 := by omega
    have hok := write_s_ok t.sfile x.1 x.2.1 (t.wf wi).soff (t.wf wi).ns x.2.2 hx1 hx2 hns hf
    have hstep : stepW wi t (sOp x) = { t with sfile :=
        (SimpleRF.write t.sfile S_STRIDE (R_S0 + x.1) x.2.1 0 (t.wf wi).soff (toLE (4 * x.2.1) x.2.2)).1 } := by
      simp only [stepW, sOp, TimingRF.step, Kind.reg, wob_s t wi x.1 x.2.1 0 _ hi]
    have hsz := write_size t.sfile S_STRIDE (R_S0 + x.1) x.2.1 0 (t.wf wi).soff (toLE (4 * x.2.1) x.2.2)
    have hcons := writeAll_cons_ok t.sfile S_STRIDE (t.wf wi).soff (R_S0 + x.1) x.2.1 0 (toLE (4 * x.2.1) x.2.2)
      (L.map sW) hok
    generalize (SimpleRF.write t.sfile S_STRIDE (R_S0 + x.1) x.2.1 0 (t.wf wi).soff (toLE (4 * x.2.1) x.2.2)).1 = f'
      at hstep hsz hcons
    obtain ⟨ih1, ih2⟩ := ih { t with sfile := f' } (by show (t.wf wi).soff + 4 * (t.wf wi).ns ≤ f'.size; omega) hns
      (fun y hy => H y (by simp [hy]))
    have hm : (x :: L).map sW = (R_S0 + x.1, x.2.1, 0, toLE (4 * x.2.1) x.2.2) :: L.map sW := rfl
    rw [hm, hcons, List.map_cons, List.foldl_cons, hstep]
    exact ⟨ih1, ih2⟩

def vW (y : Nat × Nat × Nat) : Nat × Nat × Nat × List UInt8 := (R_V0 + y.1, 1, y.2.1, toLE 4 y.2.2)
def vOp (y : Nat × Nat × Nat) : Op := Op.wb ⟨.v y.1, 1, y.2.1⟩ (toLE 4 y.2.2)

theorem set_getD_self (a : Array File) (i : Nat) : a.setIfInBounds i (a.getD i #[]) = a := by
  apply Array.ext
  · simp
  · intro j h1 h2
    rw [Array.getElem_setIfInBounds]
    split
    · subst_vars; simp [Array.getD_eq_getD_getElem?, h2]
    · rfl

theorem write_v_ok (f : File) (i lane voff nv v : Nat) (hin : i + 1 ≤ nv) (hl : lane < 64)
    (hrow : voff + 4 * nv ≤ 1024) (hf : 65536 ≤ f.size) :
    (SimpleRF.write f LANE_STRIDE (R_V0 + i) 1 lane voff (toLE 4 v)).2 = none := by
  have hi : i < 256 := by omega
  simp only [SimpleRF.write, SimpleRF.regOffset, isSReg_v i hi, isVReg_v i hi, regIndex_v i hi, LANE_STRIDE,
    toLE_length, Bool.false_eq_true, show ((1 : Nat) == 0) = false from rfl, ↓reduceIte]
  rw [if_pos (by omega), if_neg (by omega)]

/-- `WriteOperandBytes` on a VGPR is `VRegFile[SIMDID].Write` at the wavefront's `VRegOffset` -/
theorem wob_v (t : TimingRF) (wi i rc lane : Nat) (data : List UInt8) (hi : i < 256)
    (hok : (SimpleRF.write (t.vfileOf (t.wf wi)) LANE_STRIDE (R_V0 + i) rc lane (t.wf wi).voff data).2 = none) :
    t.writeOperandBytes wi (R_V0 + i) rc lane data =
      ({ t with vfiles := t.vfiles.setIfInBounds (t.wf wi).simd (SimpleRF.write (t.vfileOf (t.wf wi)) LANE_STRIDE (R_V0 + i) rc lane (t.wf wi).voff data).1 }, none) := by
  obtain ⟨n1, n2, n3, n4, n5, n6, n7, n8⟩ := v_not_special i hi
  generalize hw : t.wf wi = w at hok ⊢
  have hw' : t.wfs.getD wi default = w := hw
  simp only [TimingRF.writeOperandBytes, TimingRF.writeReg, SimpleRF.write, SimpleRF.regOffset, hw',
    n1, n2, n3, n4, n5, n6, n7, n8, isSReg_v i hi, isVReg_v i hi, waveOffset_v _ i hi, TimingRF.getRegOffset,
    Bool.or_true, Bool.or_self, Bool.or_false, Bool.false_eq_true, ↓reduceIte] at hok ⊢
  generalize (if (rc == 0) = true then 1 else rc) = rc' at hok ⊢
  generalize regIndex (R_V0 + i) * 4 + lane * LANE_STRIDE + w.voff = o at hok ⊢
  by_cases h1 : o + rc' * 4 ≤ (t.vfileOf w).size
  · by_cases h2 : data.length < rc' * 4
    · rw [if_pos h1, if_pos h2] at hok; cases hok
    · rw [if_pos h1, if_pos h1, if_neg h2, if_neg h2]
  · rw [if_neg h1] at hok; cases hok

/-- the vector half: the model writes a local copy of the wavefront's vector file and stores it once,
    the operand writes store after every write; the states agree -/
theorem vgpr_seq (wi : Nat) (K : List (Nat × Nat × Nat)) : ∀ t : TimingRF,
    (t.wf wi).simd < t.vfiles.size → 65536 ≤ (t.vfileOf (t.wf wi)).size →
    (t.wf wi).voff + 4 * (t.wf wi).nv ≤ 1024 →
    (∀ y ∈ K, y.1 + 1 ≤ (t.wf wi).nv ∧ y.2.1 < 64) →
    (SimpleRF.writeAll (t.vfileOf (t.wf wi)) LANE_STRIDE (t.wf wi).voff (K.map vW)).2 = none ∧
    (K.map vOp).foldl (stepW wi) t =
      { t with vfiles := t.vfiles.setIfInBounds (t.wf wi).simd ((SimpleRF.writeAll (t.vfileOf (t.wf wi)) LANE_STRIDE (t.wf wi).voff (K.map vW)).1) } := by
  induction K with
  | nil =>
    intro t _ _ _ _
    refine ⟨rfl, ?_⟩
    show t = { t with vfiles := t.vfiles.setIfInBounds (t.wf wi).simd (t.vfiles.getD (t.wf wi).simd #[]) }
    rw [set_getD_self]
  | cons y K ih =>
    intro t hs hf hrow H
    obtain ⟨hy1, hy2⟩ := H y (by simp)
    have hi : y.1 < 256 := by omega
    have hok := write_v_ok (t.vfileOf (t.wf wi)) y.1 y.2.1 (t.wf wi).voff (t.wf wi).nv y.2.2 hy1 hy2 hrow hf
    have hstep : stepW wi t (vOp y) = { t with vfiles := t.vfiles.setIfInBounds (t.wf wi).simd ((SimpleRF.write (t.vfileOf (t.wf wi)) LANE_STRIDE (R_V0 + y.1) 1 y.2.1 (t.wf wi).voff (toLE 4 y.2.2)).1) } := by
      simp only [stepW, vOp, TimingRF.step, Kind.reg, wob_v t wi y.1 1 y.2.1 _ hi hok]
    have hsz := write_size (t.vfileOf (t.wf wi)) LANE_STRIDE (R_V0 + y.1) 1 y.2.1 (t.wf wi).voff (toLE 4 y.2.2)
    have hcons := writeAll_cons_ok (t.vfileOf (t.wf wi)) LANE_STRIDE (t.wf wi).voff (R_V0 + y.1) 1 y.2.1 (toLE 4 y.2.2)
      (K.map vW) hok
    generalize (SimpleRF.write (t.vfileOf (t.wf wi)) LANE_STRIDE (R_V0 + y.1) 1 y.2.1 (t.wf wi).voff (toLE 4 y.2.2)).1 = f'
      at hstep hsz hcons
    have hvf : ({ t with vfiles := t.vfiles.setIfInBounds (t.wf wi).simd f' } : TimingRF).vfileOf (t.wf wi) = f' := by
      rw [vfileOf_set t _ f' _ hs, if_pos rfl]
    obtain ⟨ih1, ih2⟩ := ih { t with vfiles := t.vfiles.setIfInBounds (t.wf wi).simd f' }
      (by show (t.wf wi).simd < (t.vfiles.setIfInBounds (t.wf wi).simd f').size; rw [Array.size_setIfInBounds]; exact hs)
      (by show 65536 ≤ (({ t with vfiles := t.vfiles.setIfInBounds (t.wf wi).simd f' } : TimingRF).vfileOf (t.wf wi)).size
          rw [hvf]; omega)
      hrow (fun z hz => H z (by simp [hz]))
    have hm : (y :: K).map vW = (R_V0 + y.1, 1, y.2.1, toLE 4 y.2.2) :: K.map vW := rfl
    rw [hm, hcons, List.map_cons, List.foldl_cons, hstep]
    have hwf : ({ t with vfiles := t.vfiles.setIfInBounds (t.wf wi).simd f' } : TimingRF).wf wi = t.wf wi := rfl
    rw [hwf, hvf] at ih1 ih2
    refine ⟨ih1, ?_⟩
    rw [ih2]
    show ({ t with vfiles := (t.vfiles.setIfInBounds (t.wf wi).simd f').setIfInBounds (t.wf wi).simd _ } : TimingRF) = _
    rw [Array.setIfInBounds_setIfInBounds]

/-- all VGPR writes as `(v index, lane, value)` -/
def vList (d : DispInfo) : List (Nat × Nat × Nat) :=
  (List.range 64).flatMap fun lane => (laneInits d lane).map fun x => (x.1, lane, x.2)

theorem vgprWrites_eq (d : DispInfo) : vgprWrites d = (vList d).map vW := by
  simp only [vgprWrites, vList, List.map_flatMap, List.map_map]
  rfl

theorem initOps_eq (d : DispInfo) : initOps d = (sgprInits d).map sOp ++ (vList d).map vOp := by
  simp only [initOps, vList, List.map_flatMap, List.map_map]
  rfl

/-- `initRegisters` of a wavefront whose windows lie inside the files and whose ABI registers lie inside
    its register counts: no panic, and the state is that after the operand writes `initOps` -/
theorem init_is_sequence (t : TimingRF) (wi : Nat) (d : DispInfo) (hf : Fits t (t.wf wi))
    (hfit : AbiFits d (t.wf wi).ns (t.wf wi).nv) :
    t.initRegisters wi d = ((t.exec ((initOps d).map fun o => (wi, o))).1, none) := by
  obtain ⟨f1, f2, f3, f4, f5⟩ := hf
  obtain ⟨as, av⟩ := hfit
  have hS : sgprWrites d = (sgprInits d).map sW := rfl
  obtain ⟨s1, s2⟩ := sgpr_seq wi (sgprInits d) t f1 f2
    (fun x hx => ⟨by have := sgprInits_rc d x hx; omega, as x hx⟩)
  have hV : ∀ y ∈ vList d, y.1 + 1 ≤ (t.wf wi).nv ∧ y.2.1 < 64 := by
    intro y hy
    simp only [vList, List.mem_flatMap, List.mem_map, List.mem_range] at hy
    obtain ⟨lane, hl, x, hx, rfl⟩ := hy
    exact ⟨av lane hl x hx, hl⟩
  obtain ⟨v1, v2⟩ := vgpr_seq wi (vList d)
    { t with sfile := (SimpleRF.writeAll t.sfile S_STRIDE (t.wf wi).soff ((sgprInits d).map sW)).1 } f3 f4 f5 hV
  rw [exec_map_fst, initOps_eq, List.foldl_append, s2, v2]
  have hw : t.wfs.getD wi default = t.wf wi := rfl
  simp only [TimingRF.initRegisters, hS, vgprWrites_eq, hw, s1]
  rw [if_pos f3]
  exact Prod.ext rfl v1

/-- **T2** with the location inside the files, disjoint from the other wavefronts (`Alloc` after
    `setWfInfo`) and the ABI registers inside the register counts, `DispatchWf` does not panic and is
    `setWfInfo` followed by the operand writes `initOps` of that wavefront -/
theorem dispatch_is_init_sequence (t : TimingRF) (wi simd soff voff : Nat) (d : DispInfo) (hwi : wi < t.wfs.size)
    (hA : Alloc (t.setWfInfo wi simd soff voff d))
    (hfit : AbiFits d (t.wf wi).ns (t.wf wi).nv) :
    t.dispatchWf wi simd soff voff d =
      (((t.setWfInfo wi simd soff voff d).exec ((initOps d).map fun o => (wi, o))).1, none) := by
  have hwi' : wi < (t.setWfInfo wi simd soff voff d).wfs.size := by
    simpa [TimingRF.setWfInfo, TimingRF.setWf] using hwi
  have hsame : (t.setWfInfo wi simd soff voff d).wf wi =
      { t.wf wi with simd := simd, soff := soff, voff := voff, exec := d.exec } :=
    wf_setWf_same t wi _ hwi
  refine init_is_sequence (t.setWfInfo wi simd soff voff d) wi d (hA.fits wi hwi') ?_
  rw [hsame]
  exact hfit

end C07
