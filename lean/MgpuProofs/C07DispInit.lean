import MgpuProofs.C07DispDefs
set_option linter.unusedVariables false
set_option linter.unusedSimpArgs false
/-! # C07 helper lemmas: `DispatchWf` / `initWfRegs` are the location copy followed by a sequence of
ordinary operand writes (`initOps`); hence the state of a new wavefront (`freshMap`) -/
namespace C07
open Gen

/-- **T1** `setWfInfo` + `initRegisters`, whatever happens (fault or not): the record of wavefront `wi`
    gets the location and `InitExecMask`, keeps its register counts and its other special registers; no
    other record, no file size changes -/
theorem dispatch_shape (t : TimingRF) (wi simd soff voff : Nat) (d : DispInfo) (hwi : wi < t.wfs.size) :
    ((t.dispatchWf wi simd soff voff d).1.wf wi).layout = (simd, soff, voff, (t.wf wi).ns, (t.wf wi).nv) ∧
    ((t.dispatchWf wi simd soff voff d).1.wf wi).exec = d.exec ∧
    ((t.dispatchWf wi simd soff voff d).1.wf wi).vcc = (t.wf wi).vcc ∧
    ((t.dispatchWf wi simd soff voff d).1.wf wi).scc = (t.wf wi).scc ∧
    ((t.dispatchWf wi simd soff voff d).1.wf wi).m0 = (t.wf wi).m0 ∧
    (∀ wj, wj ≠ wi → (t.dispatchWf wi simd soff voff d).1.wf wj = t.wf wj) ∧
    (t.dispatchWf wi simd soff voff d).1.wfs.size = t.wfs.size ∧
    (t.dispatchWf wi simd soff voff d).1.sfile.size = t.sfile.size ∧
    (t.dispatchWf wi simd soff voff d).1.vfiles.size = t.vfiles.size ∧
    (∀ x : TWf, ((t.dispatchWf wi simd soff voff d).1.vfileOf x).size = (t.vfileOf x).size) := by
  sorry

/-- `AbiFits` says exactly that every initialising write is a supported access with data of the
    operand's width -/
theorem abiFits_ok (d : DispInfo) (ns nv : Nat) (h : AbiFits d ns nv) : ∀ o ∈ initOps d, o.Ok ns nv := by
  sorry

/-- **T2** with the location inside the files, disjoint from the other wavefronts (`Alloc` after
    `setWfInfo`) and the ABI registers inside the register counts, `DispatchWf` does not panic and is
    `setWfInfo` followed by the operand writes `initOps` of that wavefront -/
theorem dispatch_is_init_sequence (t : TimingRF) (wi simd soff voff : Nat) (d : DispInfo) (hwi : wi < t.wfs.size)
    (hA : Alloc (t.setWfInfo wi simd soff voff d))
    (hfit : AbiFits d (t.wf wi).ns (t.wf wi).nv) :
    t.dispatchWf wi simd soff voff d =
      (((t.setWfInfo wi simd soff voff d).exec ((initOps d).map fun o => (wi, o))).1, none) := by
  sorry

end C07
