import MgpuModel.C14
/-! # C14 — basic facts about the scheduler model (no invariant needed) -/
namespace C14

/-! ## field lemmas of the wavefront transformers -/

@[simp] theorem setReady_id (w : Wf) : (setReady w).id = w.id := rfl
@[simp] theorem setReady_wg (w : Wf) : (setReady w).wg = w.wg := rfl
@[simp] theorem setReady_state (w : Wf) : (setReady w).state = .ready := rfl
@[simp] theorem setReady_arr (w : Wf) : (setReady w).arr = w.arr := rfl
@[simp] theorem setReady_bar (w : Wf) : (setReady w).bar = w.bar := rfl
@[simp] theorem setReady_op (w : Wf) : (setReady w).op = w.op := rfl
@[simp] theorem complete_id (w : Wf) : (complete w).id = w.id := rfl
@[simp] theorem complete_wg (w : Wf) : (complete w).wg = w.wg := rfl
@[simp] theorem complete_state (w : Wf) : (complete w).state = .completed := rfl
@[simp] theorem complete_arr (w : Wf) : (complete w).arr = w.arr := rfl
@[simp] theorem complete_bar (w : Wf) : (complete w).bar = w.bar := rfl
@[simp] theorem complete_op (w : Wf) : (complete w).op = w.op := rfl

@[simp] theorem park_id (w : Wf) : (park w).id = w.id := rfl
@[simp] theorem park_wg (w : Wf) : (park w).wg = w.wg := rfl
@[simp] theorem park_state (w : Wf) : (park w).state = .atBarrier := rfl
@[simp] theorem park_arr (w : Wf) : (park w).arr = w.arr := rfl
@[simp] theorem park_bar (w : Wf) : (park w).bar = w.bar := rfl
@[simp] theorem park_op (w : Wf) : (park w).op = w.op := rfl

theorem release_id (g : Nat) (w : Wf) : (release g w).id = w.id := by
  unfold release; split <;> rfl
theorem release_wg (g : Nat) (w : Wf) : (release g w).wg = w.wg := by
  unfold release; split <;> rfl
theorem release_op (g : Nat) (w : Wf) : (release g w).op = w.op := by
  unfold release; split <;> rfl
theorem release_arr (g : Nat) (w : Wf) : (release g w).arr = w.arr := by
  unfold release; split <;> rfl
theorem release_hit (g : Nat) (w : Wf) (h : w.wg = g) (hc : w.state ≠ .completed) :
    (release g w).state = .ready ∧ (release g w).bar = w.bar + 1 ∧ (release g w).pc = w.pc + 1 := by
  unfold release; rw [if_pos ⟨h, hc⟩]; exact ⟨rfl, rfl, rfl⟩
theorem release_miss (g : Nat) (w : Wf) (h : w.wg ≠ g ∨ w.state = .completed) : release g w = w := by
  unfold release
  rw [if_neg]
  intro hh
  cases h with
  | inl h => exact h hh.1
  | inr h => exact hh.2 h

theorem mem_updWf {wfs : List Wf} {i : Nat} {f : Wf → Wf} {w' : Wf} :
    w' ∈ updWf wfs i f ↔ ∃ w ∈ wfs, w' = if w.id = i then f w else w := by
  unfold updWf
  simp only [List.mem_map]
  constructor
  · rintro ⟨w, hw, rfl⟩; exact ⟨w, hw, rfl⟩
  · rintro ⟨w, hw, rfl⟩; exact ⟨w, hw, rfl⟩

theorem getWf_some {wfs : List Wf} {i : Nat} {w : Wf} (h : getWf wfs i = some w) : w ∈ wfs ∧ w.id = i := by
  unfold getWf at h
  refine ⟨List.mem_of_find?_eq_some h, ?_⟩
  have := List.find?_some h
  simpa using this

/-! ## the barrier buffer never exceeds its capacity -/

theorem passBarrier_buf_le (g : Nat) (s : State) : (passBarrier g s).buf.length ≤ s.buf.length := by
  unfold passBarrier; simp only; exact List.length_filter_le _ _

theorem evalSBarrier_buf (c : Cfg) (s : State) (w : Wf) (h : s.buf.length ≤ c.bufSize) :
    (evalSBarrier c s w).s.buf.length ≤ c.bufSize := by
  unfold evalSBarrier
  simp only
  split
  · exact Nat.le_trans (passBarrier_buf_le _ _) h
  · split
    · simp only [List.length_append, List.length_cons, List.length_nil]; omega
    · exact h

theorem evalSEndPgm_buf (c : Cfg) (s : State) (w : Wf) (h : s.buf.length ≤ c.bufSize) :
    (evalSEndPgm c s w).s.buf.length ≤ c.bufSize := by
  unfold evalSEndPgm
  split
  · exact h
  · split
    · split <;> exact h
    · split
      · exact Nat.le_trans (passBarrier_buf_le _ _) h
      · split <;> exact h

theorem evalSWaitCnt_buf (s : State) (w : Wf) : (evalSWaitCnt s w).s.buf = s.buf := by
  unfold evalSWaitCnt; split <;> rfl

theorem evalInst_buf (c : Cfg) (s : State) (w : Wf) (h : s.buf.length ≤ c.bufSize) :
    (evalInst c s w).s.buf.length ≤ c.bufSize := by
  unfold evalInst
  split
  · exact evalSEndPgm_buf c _ w h
  · split
    · exact evalSBarrier_buf c _ w h
    · split
      · rw [evalSWaitCnt_buf]; exact h
      · exact h

theorem finishOne_buf (i g : Nat) (e : Ev) : (finishOne i g e).buf = e.s.buf := by
  unfold finishOne
  simp only
  split <;> split <;> rfl

theorem evalOne_buf (c : Cfg) (sp : State × Bool) (i : Nat) (h : sp.1.buf.length ≤ c.bufSize) :
    (evalOne c sp i).1.buf.length ≤ c.bufSize := by
  unfold evalOne
  split
  · exact h
  · split
    · exact h
    · split
      · exact h
      · simp only [finishOne_buf]; exact evalInst_buf c _ _ h

theorem evalInternal_buf (c : Cfg) (s : State) (h : s.buf.length ≤ c.bufSize) :
    (evalInternal c s).1.buf.length ≤ c.bufSize := by
  unfold evalInternal
  have : ∀ (l : List Nat) (sp : State × Bool), sp.1.buf.length ≤ c.bufSize →
      (l.foldl (evalOne c) sp).1.buf.length ≤ c.bufSize := by
    intro l
    induction l with
    | nil => intro sp h; exact h
    | cons i l ih => intro sp h; exact ih _ (evalOne_buf c sp i h)
  exact this _ _ h

theorem wfComp_buf (c : Cfg) (s : State) (i : Nat) : (wfComp c s i).1.buf = s.buf := by
  unfold wfComp
  split
  · rfl
  · simp only; split
    · split <;> rfl
    · rfl

theorem step_buf (c : Cfg) (s : State) (o : Op) (h : s.buf.length ≤ c.bufSize) :
    (step c s o).1.buf.length ≤ c.bufSize := by
  cases o with
  | eval => exact evalInternal_buf c s h
  | wfComp i => simp only [step]; rw [wfComp_buf]; exact h
  | _ => exact h

theorem run_buf (c : Cfg) (s : State) (ops : List Op) (h : s.buf.length ≤ c.bufSize) :
    (run c s ops).buf.length ≤ c.bufSize := by
  unfold run
  induction ops generalizing s with
  | nil => exact h
  | cons o ops ih => exact ih _ (step_buf c s o h)

end C14
