import MgpuProofs.C01KernImg
import MgpuProofs.C01ReluFwdWave
/-! # C01 — the kernel-argument image of `GPUOperator.ReluForward` (`reluForwardKernelArgs`) -/
set_option linter.unusedSimpArgs false
set_option linter.unusedVariables false
set_option maxRecDepth 100000
namespace C01.Emu
open C03V Copy

/-- `gputensor.reluForwardKernelArgs{In, Out, Count, Padding, OffsetX, OffsetY, OffsetZ}` -/
def reluFwdArgs (src dst count lo : Nat) : List Nat :=
  le8 src ++ le8 dst ++ le4 count ++ le4 0 ++ le8 lo ++ le8 0 ++ le8 0

namespace ReluFwd

theorem relufwd_img (c : Map.Cfg) (src : Nat) (hlim : c.lim < 2 ^ 32) (hlo : c.lo < 2 ^ 32) (hsrc : src < 2 ^ 64)
    (hdst : c.dst < 2 ^ 64) (tail pk : List Nat) (m : Mem)
    (hpk : 8 ≤ pk.length) (h4 : pk.getD 4 0 = 64) (h5 : pk.getD 5 0 = 0)
    (hsep : c.ka + 48 ≤ c.pa ∨ c.pa + pk.length ≤ c.ka) :
    Img c src (get (install c.pa pk (install c.ka (reluFwdArgs src c.dst c.lim c.lo ++ tail) m))) := by
  have hlen : (reluFwdArgs src c.dst c.lim c.lo).length = 48 := rfl
  have fk : ∀ i, i < 48 → get (install c.pa pk (install c.ka (reluFwdArgs src c.dst c.lim c.lo ++ tail) m)) (c.ka + i) =
      (reluFwdArgs src c.dst c.lim c.lo).getD i 0 :=
    fun i hi => get_image c.ka c.pa _ tail pk m (by rw [hlen]; exact hsep) i (by rw [hlen]; exact hi)
  have hwg := packet_wg c.ka c.pa (reluFwdArgs src c.dst c.lim c.lo ++ tail) pk m hpk h4 h5
  generalize get (install c.pa pk (install c.ka (reluFwdArgs src c.dst c.lim c.lo ++ tail) m)) = f at fk hwg ⊢
  refine ⟨hwg, ?_, ?_, ?_, ?_, ?_, ?_⟩
  · rw [(rd32_lo f (c.ka + 16) _ (fk 16 (by decide)) (by rw [Nat.add_assoc]; exact fk (16 + 1) (by decide)) (by rw [Nat.add_assoc]; exact fk (16 + 2) (by decide)) (by rw [Nat.add_assoc]; exact fk (16 + 3) (by decide)))]; exact Nat.mod_eq_of_lt hlim
  · rw [(rd32_lo f (c.ka + 24) _ (fk 24 (by decide)) (by rw [Nat.add_assoc]; exact fk (24 + 1) (by decide)) (by rw [Nat.add_assoc]; exact fk (24 + 2) (by decide)) (by rw [Nat.add_assoc]; exact fk (24 + 3) (by decide)))]; exact Nat.mod_eq_of_lt hlo
  · exact (rd32_lo f (c.ka + 0) _ (fk 0 (by decide)) (by rw [Nat.add_assoc]; exact fk (0 + 1) (by decide)) (by rw [Nat.add_assoc]; exact fk (0 + 2) (by decide)) (by rw [Nat.add_assoc]; exact fk (0 + 3) (by decide)))
  · exact (rd32_hi f (c.ka + 4) _ hsrc (fk 4 (by decide)) (by rw [Nat.add_assoc]; exact fk (4 + 1) (by decide)) (by rw [Nat.add_assoc]; exact fk (4 + 2) (by decide)) (by rw [Nat.add_assoc]; exact fk (4 + 3) (by decide)))
  · exact (rd32_lo f (c.ka + 8) _ (fk 8 (by decide)) (by rw [Nat.add_assoc]; exact fk (8 + 1) (by decide)) (by rw [Nat.add_assoc]; exact fk (8 + 2) (by decide)) (by rw [Nat.add_assoc]; exact fk (8 + 3) (by decide)))
  · exact (rd32_hi f (c.ka + 12) _ hdst (fk 12 (by decide)) (by rw [Nat.add_assoc]; exact fk (12 + 1) (by decide)) (by rw [Nat.add_assoc]; exact fk (12 + 2) (by decide)) (by rw [Nat.add_assoc]; exact fk (12 + 3) (by decide)))

end ReluFwd
end C01.Emu
