import MgpuModel.C13Frame
import MgpuProofs.C13Elf
/-! Helper lemmas for `Props/C13Writer.lean`: reading back what `writeRaw` / `writeElf` wrote. -/
namespace C13
namespace Elf

theorem byteAt_append_right (a b : Bytes) (j : Nat) : byteAt (a ++ b) (a.length + j) = byteAt b j := by
  unfold byteAt
  rw [List.getD_eq_getElem?_getD, List.getD_eq_getElem?_getD, List.getElem?_append_right (by omega)]
  rw [Nat.add_sub_cancel_left]

theorem u16_append_right (a b : Bytes) (o : Nat) : u16 (a ++ b) (a.length + o) = u16 b o := by
  unfold C13.u16; simp only [Nat.add_assoc, byteAt_append_right]

theorem u32_append_right (a b : Bytes) (o : Nat) : u32 (a ++ b) (a.length + o) = u32 b o := by
  unfold C13.u32; simp only [Nat.add_assoc, byteAt_append_right]

theorem u64_append_right (a b : Bytes) (o : Nat) : u64 (a ++ b) (a.length + o) = u64 b o := by
  unfold C13.u64; simp only [Nat.add_assoc, u32_append_right]

theorem shdrAt_append_right (a b : Bytes) (o : Nat) : shdrAt (a ++ b) (a.length + o) = shdrAt b o := by
  unfold Elf.shdrAt; simp only [Nat.add_assoc, u32_append_right, u64_append_right]

theorem encShdr_length (s : Shdr) : (encShdr s).length = 64 := by
  simp [encShdr, le32, le64]

theorem shdrWF_iff (s : Shdr) : shdrWF s = true ↔
    s.nameIdx < 4294967296 ∧ s.type < 4294967296 ∧ s.flags < 18446744073709551616 ∧
    s.addr < 18446744073709551616 ∧ s.off < I63 ∧ s.size < I63 ∧ s.link < 4294967296 ∧
    ¬ (s.flags / SHF_COMPRESSED % 2 == 1) = true := by
  unfold shdrWF U64
  simp only [Bool.and_eq_true, decide_eq_true_eq, Bool.not_eq_true', and_assoc, Bool.not_eq_true]

theorem shdrAt_encShdr (s : Shdr) (rest : Bytes) (h : shdrWF s = true) : shdrAt (encShdr s ++ rest) 0 = s := by
  obtain ⟨h1, h2, h3, h4, h5, h6, h7, _⟩ := (shdrWF_iff s).1 h
  have h5' : s.off < 18446744073709551616 := by unfold I63 at h5; omega
  have h6' : s.size < 18446744073709551616 := by unfold I63 at h6; omega
  cases s
  simp only [Elf.shdrAt, encShdr, le32, le64, List.cons_append, List.nil_append,
     u64, u32, byteAt, List.getD_cons_succ, List.getD_cons_zero, UInt8.toNat_ofNat', Shdr.mk.injEq,
     Nat.zero_add] at *
  refine ⟨?_, ?_, ?_, ?_, ?_, ?_, ?_⟩ <;> omega

theorem flatten_enc_length (shs : List Shdr) : ((shs.map encShdr).flatten).length = 64 * shs.length := by
  induction shs with
  | nil => rfl
  | cons s rest ih => simp only [List.map_cons, List.flatten_cons, List.length_append, encShdr_length, ih, List.length_cons]; omega

/-- the `i`-th entry of a written section header table reads back -/
theorem shdrAt_table (shs : List Shdr) (blob : Bytes) (hw : shs.all shdrWF = true) (i : Nat) (hi : i < shs.length) :
    shdrAt ((shs.map encShdr).flatten ++ blob) (i * 64) = shs[i] := by
  induction shs generalizing i with
  | nil => simp at hi
  | cons s rest ih =>
    simp only [List.all_cons, Bool.and_eq_true] at hw
    simp only [List.map_cons, List.flatten_cons, List.append_assoc]
    cases i with
    | zero => simp only [Nat.zero_mul, List.getElem_cons_zero]; exact shdrAt_encShdr s _ hw.1
    | succ j =>
      have : (j + 1) * 64 = (encShdr s).length + j * 64 := by rw [encShdr_length]; omega
      rw [this, shdrAt_append_right]
      simp only [List.getElem_cons_succ]
      exact ih hw.2 j (by simpa using hi)

theorem encEhdr_length (r : Raw) : (encEhdr r).length = 64 := by
  simp [encEhdr, le16, le32, le64]

theorem writeRaw_length (r : Raw) : (writeRaw r).length = 64 + 64 * r.shs.length + r.blob.length := by
  unfold writeRaw
  simp only [List.length_append, encEhdr_length, flatten_enc_length]; omega

macro "read_ehdr" : tactic => `(tactic|
  (simp only [writeRaw, encEhdr, le32, le16, le64, List.cons_append, List.nil_append,
     u64, u32, u16, byteAt, List.getD_cons_succ, List.getD_cons_zero, UInt8.toNat_ofNat']))

theorem ehdr_b0 (r : Raw) : byteAt (writeRaw r) 0 = 0x7f := by read_ehdr; rfl
theorem ehdr_b1 (r : Raw) : byteAt (writeRaw r) 1 = 0x45 := by read_ehdr; rfl
theorem ehdr_b2 (r : Raw) : byteAt (writeRaw r) 2 = 0x4c := by read_ehdr; rfl
theorem ehdr_b3 (r : Raw) : byteAt (writeRaw r) 3 = 0x46 := by read_ehdr; rfl
theorem ehdr_b4 (r : Raw) : byteAt (writeRaw r) 4 = 2 := by read_ehdr; rfl
theorem ehdr_b5 (r : Raw) : byteAt (writeRaw r) 5 = 1 := by read_ehdr; rfl
theorem ehdr_b6 (r : Raw) : byteAt (writeRaw r) 6 = 1 := by read_ehdr; rfl
theorem ehdr_b20 (r : Raw) : byteAt (writeRaw r) 20 = 1 := by read_ehdr
theorem ehdr_phoff (r : Raw) : u64 (writeRaw r) 32 = 0 := by read_ehdr
theorem ehdr_shoff (r : Raw) : u64 (writeRaw r) 40 = 64 := by read_ehdr
theorem ehdr_phentsize (r : Raw) : u16 (writeRaw r) 54 = 0 := by read_ehdr
theorem ehdr_phnum (r : Raw) : u16 (writeRaw r) 56 = 0 := by read_ehdr
theorem ehdr_shentsize (r : Raw) : u16 (writeRaw r) 58 = 64 := by read_ehdr
theorem ehdr_shnum (r : Raw) (h : r.shs.length < 65536) : u16 (writeRaw r) 60 = r.shs.length := by
  read_ehdr; omega
theorem ehdr_shstrndx (r : Raw) (h : r.shstrndx < 65536) : u16 (writeRaw r) 62 = r.shstrndx := by
  read_ehdr; omega

theorem rawWF_iff (r : Raw) : rawWF r = true ↔
    0 < r.shs.length ∧ r.shs.length < 65536 ∧ r.shstrndx < r.shs.length ∧ r.shs.all shdrWF = true := by
  unfold rawWF
  simp only [Bool.and_eq_true, decide_eq_true_eq, and_assoc]

theorem parseHeaders_writeRaw (r : Raw) (h : rawWF r = true) : parseHeaders (writeRaw r) = .ok r.shs r.shstrndx := by
  obtain ⟨hpos, hlt, hndx, hall⟩ := (rawWF_iff r).1 h
  have hmap : (List.range r.shs.length).map (fun i => shdrAt (writeRaw r) (64 + i * 64)) = r.shs := by
    apply List.ext_getElem
    · simp
    · intro i h1 h2
      simp only [List.getElem_map, List.getElem_range]
      unfold writeRaw
      have e : 64 + i * 64 = (encEhdr r).length + i * 64 := by rw [encEhdr_length]
      rw [e, shdrAt_append_right]
      exact shdrAt_table r.shs r.blob hall i h2
  unfold parseHeaders
  simp only [ehdr_b0, ehdr_b1, ehdr_b2, ehdr_b3, ehdr_b4, ehdr_b5, ehdr_b6, ehdr_b20, ehdr_phoff, ehdr_shoff,
    ehdr_phentsize, ehdr_phnum, ehdr_shentsize, ehdr_shnum r hlt, ehdr_shstrndx r (by omega), writeRaw_length, hmap]
  have hc : (r.shs.any fun s => s.flags / SHF_COMPRESSED % 2 == 1) = false := by
    rw [List.any_eq_false]; intro s hs
    exact ((shdrWF_iff s).1 (List.all_eq_true.1 hall s hs)).2.2.2.2.2.2.2
  have ho : (r.shs.any fun s => decide (s.off ≥ I63) || decide (s.size ≥ I63)) = false := by
    rw [List.any_eq_false]; intro s hs
    obtain ⟨_, _, _, _, h5, h6, _⟩ := (shdrWF_iff s).1 (List.all_eq_true.1 hall s hs)
    simp only [ge_iff_le, Bool.or_eq_true, decide_eq_true_eq, not_or, Nat.not_le]
    exact ⟨h5, h6⟩
  have hr : (readAt (writeRaw r) 64 (r.shs.length * 64)).isNone = false := by
    unfold readAt
    rw [if_neg (by omega), if_pos (by rw [writeRaw_length]; omega)]; rfl
  have hr0 : (readAt (writeRaw r) 0 (0 * 0)).isNone = false := rfl
  have hn0 : (r.shs.length == 0) = false := by
    cases hq : r.shs.length with
    | zero => omega
    | succ n => rfl
  rw [if_neg (by omega), if_neg (by decide), if_neg (by decide), if_neg (by decide), if_neg (by decide),
    if_neg (by decide), if_neg (by omega), if_neg (by decide), if_neg (by decide), if_neg (by simp),
    if_neg (by simp only [Bool.and_eq_true, decide_eq_true_eq]; omega), if_neg (by decide),
    if_neg (by rw [hr0]; decide), if_neg (by simp), if_neg (by rw [hn0]; decide),
    if_neg (by simp), if_neg (by rw [hr]; decide), if_neg (by rw [hc]; decide), if_neg (by rw [ho]; decide)]

/-! ## payload: section contents and names -/

theorem readAt_append_right (a b : Bytes) (o z : Nat) : readAt (a ++ b) (a.length + o) z = readAt b o z := by
  unfold readAt
  have hd : (a ++ b).drop (a.length + o) = b.drop o := by
    rw [← List.drop_drop, List.drop_left]
  rw [hd, List.length_append]
  split
  · rfl
  · by_cases h : o + z ≤ b.length
    · rw [if_pos h, if_pos (by omega)]
    · rw [if_neg h, if_neg (by omega)]

theorem secData_head (pre d rest : Bytes) (sh : Shdr) (ho : sh.off = pre.length) (hz : sh.size = d.length)
    (hnb : sh.type = SHT_NOBITS → d = []) : secData (pre ++ (d ++ rest)) sh = some d := by
  unfold secData
  split
  · rename_i ht
    have := hnb ht; subst this
    rw [if_pos (by rw [hz]; rfl)]
  · have := readAt_append_right pre (d ++ rest) 0 d.length
    rw [Nat.add_zero] at this
    rw [ho, hz, this]
    unfold readAt
    split
    · rename_i h0; rw [List.length_eq_zero_iff.1 h0]
    · rw [if_pos (by simp)]
      simp

theorem mkSecs_data (l : List WSec) (pre post : Bytes) (nOff : Nat)
    (hnb : ∀ s, s ∈ l → s.type = SHT_NOBITS → s.data = []) :
    (mkSecs nOff pre.length l).map (fun e => secData (pre ++ ((l.map (·.data)).flatten ++ post)) e.sh) =
      l.map (fun s => some s.data) := by
  induction l generalizing pre nOff with
  | nil => rfl
  | cons s rest ih =>
    simp only [mkSecs, List.map_cons, List.flatten_cons, List.append_assoc, List.cons.injEq]
    refine ⟨secData_head pre s.data _ _ rfl rfl (hnb s (List.mem_cons_self ..)), ?_⟩
    have := ih (pre ++ s.data) (nOff + (s.name.length + 1)) (fun x hx => hnb x (List.mem_cons_of_mem _ hx))
    simp only [List.length_append, List.append_assoc] at this
    exact this

theorem mkSecs_length (l : List WSec) (nOff dOff : Nat) : (mkSecs nOff dOff l).length = l.length := by
  induction l generalizing nOff dOff with
  | nil => rfl
  | cons s rest ih => simp only [mkSecs, List.length_cons, ih]

/-- the fields of the reported sections that do not depend on the layout -/
theorem mkSecs_static (l : List WSec) (nOff dOff : Nat) :
    (mkSecs nOff dOff l).map (fun e => (e.name, e.sh.type, e.sh.link, e.sh.addr, e.sh.flags, e.sh.size)) =
      l.map (fun s => (strOf s.name, s.type, s.link, s.addr, s.flags, s.data.length)) := by
  induction l generalizing nOff dOff with
  | nil => rfl
  | cons s rest ih => simp only [mkSecs, List.map_cons, ih]

theorem getString_at (pre nm more : Bytes) (hn : noNul nm = true) :
    getString (pre ++ (nm ++ 0 :: more)) pre.length = some nm := by
  unfold getString
  rw [if_neg (by simp; omega), List.drop_left]
  rw [if_pos (by simp)]
  congr 1
  rw [List.takeWhile_append_of_pos]
  · simp
  · intro a ha
    unfold noNul at hn
    exact List.all_eq_true.1 hn a ha

theorem strTab_cons (n : Bytes) (rest : List Bytes) : strTab (n :: rest) = n ++ 0 :: strTab rest := by
  simp [strTab]

theorem nameAll_mkSecs (l : List WSec) (pre post : Bytes) (dOff : Nat) (hn : ∀ s, s ∈ l → noNul s.name = true) :
    nameAll (pre ++ (strTab (l.map (·.name)) ++ post)) ((mkSecs pre.length dOff l).map (·.sh)) =
      some (mkSecs pre.length dOff l) := by
  induction l generalizing pre dOff with
  | nil => rfl
  | cons s rest ih =>
    have ih' := ih (pre ++ (s.name ++ [0])) (dOff + s.data.length) (fun x hx => hn x (List.mem_cons_of_mem _ hx))
    simp only [List.length_append, List.length_cons, List.length_nil, Nat.zero_add, List.append_assoc,
      List.cons_append, List.nil_append] at ih'
    simp only [mkSecs, List.map_cons, strTab_cons, nameAll, List.append_assoc, List.cons_append]
    rw [getString_at pre s.name _ (hn s (List.mem_cons_self ..)), ih']

/-- entry `i` of the reported sections: its static fields and its data are those of entry `i` of the description -/
theorem mkSecs_getElem? (l : List WSec) (pre post : Bytes) (nOff : Nat)
    (hnb : ∀ s, s ∈ l → s.type = SHT_NOBITS → s.data = []) (i : Nat) (e : ESection)
    (h : (mkSecs nOff pre.length l)[i]? = some e) :
    ∃ s, l[i]? = some s ∧ secData (pre ++ ((l.map (·.data)).flatten ++ post)) e.sh = some s.data ∧
      e.name = strOf s.name ∧ e.sh.type = s.type ∧ e.sh.link = s.link ∧ e.sh.addr = s.addr := by
  have h1 := congrArg (fun L => L[i]?) (mkSecs_data l pre post nOff hnb)
  have h2 := congrArg (fun L => L[i]?) (mkSecs_static l nOff pre.length)
  simp only [List.getElem?_map, h, Option.map_some] at h1 h2
  cases hl : l[i]? with
  | none => rw [hl] at h1; cases h1
  | some s =>
    rw [hl] at h1 h2
    simp only [Option.map_some, Option.some.injEq, Prod.mk.injEq] at h1 h2
    exact ⟨s, rfl, h1, h2.1, h2.2.1, h2.2.2.1, h2.2.2.2.1⟩

theorem strTab_length_cons (n : Bytes) (rest : List Bytes) :
    (strTab (n :: rest)).length = n.length + 1 + (strTab rest).length := by
  rw [strTab_cons]; simp only [List.length_append, List.length_cons]; omega

theorem mkSecs_bounds (l : List WSec) (nOff dOff : Nat) (e : ESection) (he : e ∈ mkSecs nOff dOff l) :
    ∃ s, s ∈ l ∧ e.sh.type = s.type ∧ e.sh.flags = s.flags ∧ e.sh.addr = s.addr ∧ e.sh.link = s.link ∧
      e.sh.nameIdx < nOff + (strTab (l.map (·.name))).length ∧
      e.sh.off + e.sh.size ≤ dOff + ((l.map (·.data)).flatten).length := by
  induction l generalizing nOff dOff with
  | nil => simp [mkSecs] at he
  | cons s rest ih =>
    simp only [mkSecs, List.mem_cons] at he
    simp only [List.map_cons, strTab_length_cons, List.flatten_cons, List.length_append]
    rcases he with he | he
    · subst he
      exact ⟨s, List.mem_cons_self .., rfl, rfl, rfl, rfl, by simp only; omega, by simp only; omega⟩
    · obtain ⟨x, hx, h1, h2, h3, h4, h5, h6⟩ := ih _ _ he
      exact ⟨x, List.mem_cons_of_mem _ hx, h1, h2, h3, h4, by omega, by omega⟩

/-! ## symbols -/

def symRd (d strs : Bytes) (o : Nat) : Symbol :=
  { name := match getString strs (u32 d o) with
            | some n => strOf n
            | none => ""
    value := u64 d (o + 8)
    size := u64 d (o + 16)
    shndx := u16 d (o + 6) }

theorem symAt_eq (d strs : Bytes) (i : Nat) : symAt d strs i = symRd d strs (24 * (i + 1)) := rfl

theorem symRd_append_right (a b strs : Bytes) (o : Nat) : symRd (a ++ b) strs (a.length + o) = symRd b strs o := by
  unfold symRd; simp only [Nat.add_assoc, u32_append_right, u64_append_right, u16_append_right]

def specSym (s : WSym) : Symbol := { name := strOf s.name, value := s.value, size := s.size, shndx := s.shndx }

theorem wsymWF_iff (s : WSym) : wsymWF s = true ↔
    noNul s.name = true ∧ s.value < 18446744073709551616 ∧ s.size < 18446744073709551616 ∧ s.shndx < 65536 := by
  unfold wsymWF U64
  simp only [Bool.and_eq_true, decide_eq_true_eq, and_assoc]

theorem encSym_length (n : Nat) (s : WSym) : (encSym n s).length = 24 := by
  simp [encSym, le16, le32, le64]

theorem symRd_head (s : WSym) (rest pre more : Bytes) (hw : wsymWF s = true) (hp : pre.length < 4294967296) :
    symRd (encSym pre.length s ++ rest) (pre ++ (s.name ++ 0 :: more)) 0 = specSym s := by
  obtain ⟨h1, h2, h3, h4⟩ := (wsymWF_iff s).1 hw
  have e1 : u32 (encSym pre.length s ++ rest) 0 = pre.length := by
    simp only [encSym, le32, le16, le64, List.cons_append, List.nil_append,
      u32, byteAt, List.getD_cons_succ, List.getD_cons_zero, UInt8.toNat_ofNat']; omega
  have e2 : u64 (encSym pre.length s ++ rest) (0 + 8) = s.value := by
    simp only [encSym, le32, le16, le64, List.cons_append, List.nil_append,
      u64, u32, byteAt, List.getD_cons_succ, List.getD_cons_zero, UInt8.toNat_ofNat']; omega
  have e3 : u64 (encSym pre.length s ++ rest) (0 + 16) = s.size := by
    simp only [encSym, le32, le16, le64, List.cons_append, List.nil_append,
      u64, u32, byteAt, List.getD_cons_succ, List.getD_cons_zero, UInt8.toNat_ofNat']; omega
  have e4 : u16 (encSym pre.length s ++ rest) (0 + 6) = s.shndx := by
    simp only [encSym, le32, le16, le64, List.cons_append, List.nil_append,
      u16, byteAt, List.getD_cons_succ, List.getD_cons_zero, UInt8.toNat_ofNat']; omega
  unfold symRd specSym
  rw [e1, e2, e3, e4, getString_at pre s.name more h1]

theorem symRd_table (syms : List WSym) (P pre post : Bytes) (hw : syms.all wsymWF = true)
    (hb : pre.length + (strTab (syms.map (·.name))).length < 4294967296) (i : Nat) (hi : i < syms.length) :
    symRd (P ++ encSyms pre.length syms) (pre ++ (strTab (syms.map (·.name)) ++ post)) (P.length + 24 * i) =
      specSym syms[i] := by
  induction syms generalizing P pre i with
  | nil => simp at hi
  | cons s rest ih =>
    simp only [List.all_cons, Bool.and_eq_true] at hw
    simp only [List.map_cons, strTab_length_cons] at hb
    rw [symRd_append_right]
    simp only [encSyms, List.map_cons, strTab_cons, List.append_assoc, List.cons_append]
    cases i with
    | zero =>
      simp only [Nat.mul_zero, List.getElem_cons_zero]
      exact symRd_head s _ pre _ hw.1 (by omega)
    | succ j =>
      have e : 24 * (j + 1) = (encSym pre.length s).length + 24 * j := by rw [encSym_length]; omega
      rw [e, symRd_append_right]
      have := ih [] (pre ++ (s.name ++ [0])) hw.2
        (by simp only [List.length_append, List.length_cons, List.length_nil]; omega) j (by simpa using hi)
      simp only [List.nil_append, List.length_nil, Nat.zero_add, List.length_append, List.length_cons,
        List.append_assoc, List.cons_append] at this
      simp only [List.getElem_cons_succ]
      exact this

theorem encSyms_length (syms : List WSym) (n : Nat) : (encSyms n syms).length = 24 * syms.length := by
  induction syms generalizing n with
  | nil => rfl
  | cons s rest ih => simp only [encSyms, List.length_append, encSym_length, ih, List.length_cons]; omega

/-! ## assembly -/

def secOK (s : WSec) : Prop :=
  s.type < 4294967296 ∧ s.flags < 18446744073709551616 ∧ ¬ (s.flags / SHF_COMPRESSED % 2 == 1) = true ∧
  s.addr < 18446744073709551616 ∧ s.link < 4294967296 ∧ (s.type = SHT_NOBITS → s.data = []) ∧ noNul s.name = true

structure SpecOK (sp : Spec) : Prop where
  secs : ∀ s, s ∈ sp.secs → wsecWF s = true
  syms : sp.syms.all wsymWF = true
  count : sp.secs.length + 4 < 65536
  symStr : (strTab ([] :: sp.syms.map (·.name))).length < 4294967296
  secStr : (strTab ([] :: (sp.secs.map (·.name) ++ [symtabName, strtabName, shstrtabName]))).length < 4294967296
  size : baseOff sp + (((allSecs sp).map (·.data)).flatten).length < I63

theorem specWF_iff (sp : Spec) : specWF sp = true ↔ SpecOK sp := by
  unfold specWF
  simp only [Bool.and_eq_true, decide_eq_true_eq, List.all_eq_true]
  constructor
  · rintro ⟨⟨⟨⟨⟨h1, h2⟩, h3⟩, h4⟩, h5⟩, h6⟩
    exact ⟨h1, List.all_eq_true.2 h2, h3, h4, h5, h6⟩
  · intro h
    exact ⟨⟨⟨⟨⟨h.secs, List.all_eq_true.1 h.syms⟩, h.count⟩, h.symStr⟩, h.secStr⟩, h.size⟩

theorem wsecWF_ok (s : WSec) (h : wsecWF s = true) : secOK s ∧ s.type ≠ SHT_SYMTAB := by
  unfold wsecWF U64 at h
  simp only [Bool.and_eq_true, decide_eq_true_eq, Bool.or_eq_true, Bool.not_eq_true', List.isEmpty_iff] at h
  obtain ⟨⟨⟨⟨⟨⟨⟨h1, h2⟩, h3⟩, h4⟩, h5⟩, h6⟩, h7⟩, h8⟩ := h
  refine ⟨⟨h2, h4, by rw [h5]; decide, h6, h7, fun ht => ?_, h1⟩, h3⟩
  rcases h8 with h8 | h8
  · exact absurd ht h8
  · exact h8

theorem allSecs_names (sp : Spec) :
    (allSecs sp).map (·.name) = [] :: (sp.secs.map (·.name) ++ [symtabName, strtabName, shstrtabName]) := by
  simp [allSecs]

theorem allSecs_length (sp : Spec) : (allSecs sp).length = sp.secs.length + 4 := by
  simp [allSecs]

theorem allSecs_mem (sp : Spec) (s : WSec) (hs : s ∈ allSecs sp) :
    s = { name := [], type := 0, flags := 0, addr := 0, link := 0, data := [] } ∨ s ∈ sp.secs ∨ s.type = SHT_SYMTAB ∧ s.link = sp.secs.length + 2 ∧ s.flags = 0 ∧ s.addr = 0 ∧ s.name = symtabName ∧
      s.data = List.replicate 24 0 ++ encSyms 1 sp.syms ∨
    s.type = SHT_STRTAB ∧ s.link = 0 ∧ s.flags = 0 ∧ s.addr = 0 ∧ (s.name = strtabName ∨ s.name = shstrtabName) := by
  simp only [allSecs, List.mem_cons, List.mem_append, List.not_mem_nil, or_false] at hs
  rcases hs with h | h | h | h | h
  · left; exact h
  · right; left; exact h
  · right; right; left; subst h; exact ⟨rfl, rfl, rfl, rfl, rfl, rfl⟩
  · right; right; right; subst h; exact ⟨rfl, rfl, rfl, rfl, Or.inl rfl⟩
  · right; right; right; subst h; exact ⟨rfl, rfl, rfl, rfl, Or.inr rfl⟩

theorem allSecs_ok (sp : Spec) (h : SpecOK sp) (s : WSec) (hs : s ∈ allSecs sp) : secOK s := by
  have hc := h.count
  rcases allSecs_mem sp s hs with h0 | h0 | ⟨h1, h2, h3, h4, h5, _⟩ | ⟨h1, h2, h3, h4, h5⟩
  · subst h0
    exact ⟨by decide, by decide, by decide, by decide, by decide, fun _ => rfl, by decide⟩
  · exact (wsecWF_ok s (h.secs s h0)).1
  · refine ⟨by rw [h1]; decide, by rw [h3]; decide, by rw [h3]; decide, by rw [h4]; decide, by omega,
      fun ht => ?_, by rw [h5]; decide⟩
    rw [h1] at ht; exact absurd ht (by decide)
  · refine ⟨by rw [h1]; decide, by rw [h3]; decide, by rw [h3]; decide, by rw [h4]; decide, by omega,
      fun ht => ?_, by rcases h5 with h5 | h5 <;> rw [h5] <;> decide⟩
    rw [h1] at ht; exact absurd ht (by decide)

theorem layout_wf (sp : Spec) (h : SpecOK sp) : rawWF (layout sp) = true := by
  rw [rawWF_iff]
  have hlen : (layout sp).shs.length = sp.secs.length + 4 := by
    simp only [layout, specSecs, List.length_map, mkSecs_length, allSecs_length]
  have hc := h.count
  refine ⟨by omega, by omega, by rw [hlen]; simp only [layout]; omega, ?_⟩
  rw [List.all_eq_true]
  intro x hx
  simp only [layout, List.mem_map] at hx
  obtain ⟨e, he, rfl⟩ := hx
  obtain ⟨s, hs, h1, h2, h3, h4, h5, h6⟩ := mkSecs_bounds _ _ _ e he
  obtain ⟨o1, o2, o3, o4, o5, _, _⟩ := allSecs_ok sp h s hs
  rw [allSecs_names] at h5
  have h7 := h.secStr
  have h8 := h.size
  rw [shdrWF_iff]
  refine ⟨by omega, by omega, by omega, by omega, by omega, by omega, by omega, by rw [h2]; exact o3⟩

def preOf (sp : Spec) : Bytes := encEhdr (layout sp) ++ (((layout sp).shs.map encShdr).flatten)

theorem writeElf_split (sp : Spec) : writeElf sp = preOf sp ++ (((allSecs sp).map (·.data)).flatten ++ []) := by
  unfold writeElf writeRaw preOf; simp only [layout, List.append_nil, List.append_assoc]

theorem specSecs_length (sp : Spec) : (specSecs sp).length = sp.secs.length + 4 := by
  simp only [specSecs, mkSecs_length, allSecs_length]

theorem preOf_length (sp : Spec) : (preOf sp).length = baseOff sp := by
  unfold preOf baseOff
  rw [List.length_append, encEhdr_length, flatten_enc_length]
  simp only [layout, List.length_map, specSecs_length]

theorem specSecs_getElem? (sp : Spec) (h : SpecOK sp) (i : Nat) (e : ESection) (he : (specSecs sp)[i]? = some e) :
    ∃ s, (allSecs sp)[i]? = some s ∧ secData (writeElf sp) e.sh = some s.data ∧
      e.name = strOf s.name ∧ e.sh.type = s.type ∧ e.sh.link = s.link ∧ e.sh.addr = s.addr := by
  rw [writeElf_split]
  unfold specSecs at he
  rw [← preOf_length] at he
  exact mkSecs_getElem? _ _ [] 0 (fun s hs => (allSecs_ok sp h s hs).2.2.2.2.2.1) i e he

theorem tail3 {α : Type} (x : α) (l : List α) (a b c : α) (k : Nat) :
    (x :: (l ++ [a, b, c]))[l.length + (k + 1)]? = [a, b, c][k]? := by
  rw [← Nat.add_assoc, List.getElem?_cons_succ, List.getElem?_append_right (by omega), Nat.add_sub_cancel_left]

/-- **`elf.NewFile` reads back the sections of the description** -/
theorem parse_writeElf' (sp : Spec) (h : SpecOK sp) : parse (writeElf sp) = .ok (specSecs sp) := by
  have hlen := specSecs_length sp
  obtain ⟨e, he⟩ : ∃ e, (specSecs sp)[sp.secs.length + (2 + 1)]? = some e :=
    ⟨_, List.getElem?_eq_getElem (by omega)⟩
  obtain ⟨s, hs, hd, hn, ht, _, _⟩ := specSecs_getElem? sp h _ e he
  unfold allSecs at hs
  rw [tail3] at hs
  simp only [List.getElem?_cons_succ, List.getElem?_cons_zero, Option.some.injEq] at hs
  subst hs
  simp only at hd ht
  have hG : (layout sp).shs[(layout sp).shstrndx]? = some e.sh := by
    simp only [layout, List.getElem?_map]
    rw [show sp.secs.length + 3 = sp.secs.length + (2 + 1) from rfl, he]; rfl
  have hE : (layout sp).shs.isEmpty = false := by
    cases hq : (layout sp).shs with
    | nil => rw [hq] at hG; simp at hG
    | cons a b => rfl
  have hN : ¬ (layout sp).shstrndx = 0 := by simp only [layout]; omega
  unfold parse
  unfold writeElf at hd ⊢
  rw [parseHeaders_writeRaw _ (layout_wf sp h)]
  simp only [hE, Bool.false_eq_true, if_false, if_neg hN, hG, ht, ne_eq, not_true_eq_false, hd]
  have := nameAll_mkSecs (allSecs sp) [] [] (baseOff sp) (fun s hs => (allSecs_ok sp h s hs).2.2.2.2.2.2)
  simp only [List.nil_append, List.append_nil, List.length_nil, allSecs_names] at this
  simp only [layout, specSecs]
  rw [this]

theorem zdebug_symtab : zdebug (strOf symtabName) = false := by decide +kernel
theorem zdebug_strtab : zdebug (strOf strtabName) = false := by decide +kernel

theorem specSyms_table (sp : Spec) (h : SpecOK sp) :
    (List.range sp.syms.length).map
      (symAt (List.replicate 24 0 ++ encSyms 1 sp.syms) (strTab ([] :: sp.syms.map (·.name)))) = specSyms sp := by
  apply List.ext_getElem
  · simp [specSyms]
  · intro i h1 h2
    have hi : i < sp.syms.length := by simpa using h1
    simp only [List.getElem_map, List.getElem_range, specSyms, symAt_eq]
    have hs := h.symStr
    rw [strTab_length_cons] at hs
    have := symRd_table sp.syms (List.replicate 24 0) [0] [] h.syms
      (by simp only [List.length_cons, List.length_nil]; omega) i hi
    simp only [List.length_replicate, List.append_nil, List.length_cons, List.length_nil, Nat.zero_add] at this
    rw [strTab_cons, List.nil_append, show 24 * (i + 1) = 24 + 24 * i by omega]
    exact this

/-- **`Symbols()` reads back the symbols of the description** -/
theorem symbolsOf_writeElf' (sp : Spec) (h : SpecOK sp) :
    symbolsOf (writeElf sp) (specSecs sp) = .ok (specSyms sp) := by
  have hlen := specSecs_length sp
  -- the string table the symbol table links to
  obtain ⟨e2, he2⟩ : ∃ e, (specSecs sp)[sp.secs.length + (1 + 1)]? = some e :=
    ⟨_, List.getElem?_eq_getElem (by omega)⟩
  obtain ⟨s2, hs2, hd2, hn2, _, _, _⟩ := specSecs_getElem? sp h _ e2 he2
  unfold allSecs at hs2
  rw [tail3] at hs2
  simp only [List.getElem?_cons_succ, List.getElem?_cons_zero, Option.some.injEq] at hs2
  subst hs2
  simp only at hd2 hn2
  -- a symbol table exists
  obtain ⟨e1, he1⟩ : ∃ e, (specSecs sp)[sp.secs.length + (0 + 1)]? = some e :=
    ⟨_, List.getElem?_eq_getElem (by omega)⟩
  obtain ⟨s1, hs1, _, _, ht1, _, _⟩ := specSecs_getElem? sp h _ e1 he1
  unfold allSecs at hs1
  rw [tail3] at hs1
  simp only [List.getElem?_cons_zero, Option.some.injEq] at hs1
  subst hs1
  simp only at ht1
  unfold symbolsOf
  cases hq : (specSecs sp).find? (fun s => s.sh.type == SHT_SYMTAB) with
  | none =>
    have := List.find?_eq_none.1 hq e1 (List.mem_of_getElem? he1)
    rw [ht1] at this
    exact absurd rfl this
  | some st =>
    have hp := List.find?_some hq
    have hty : st.sh.type = SHT_SYMTAB := eq_of_beq hp
    obtain ⟨i, hi⟩ := List.getElem?_of_mem (List.mem_of_find?_eq_some hq)
    obtain ⟨s, hs, hd, hn, ht, hl, _⟩ := specSecs_getElem? sp h i st hi
    have hsm : s ∈ allSecs sp := List.mem_of_getElem? hs
    rcases allSecs_mem sp s hsm with h0 | h0 | ⟨_, h2, _, _, h5, h6⟩ | ⟨h1, _⟩
    · rw [h0] at ht; rw [hty] at ht; exact absurd ht (by decide)
    · exact absurd (ht.symm.trans hty) (wsecWF_ok s (h.secs s h0)).2
    · have hdl : (List.replicate 24 (0 : UInt8) ++ encSyms 1 sp.syms).length = 24 + 24 * sp.syms.length := by
        rw [List.length_append, List.length_replicate, encSyms_length]
      simp only
      rw [hn, h5, zdebug_symtab, hd, h6, hl, h2]
      simp only [Bool.false_eq_true, if_false, hdl]
      rw [if_neg (by omega), if_neg (by omega), show sp.secs.length + 2 = sp.secs.length + (1 + 1) from rfl, he2]
      simp only [hn2, zdebug_strtab, hd2, Bool.false_eq_true, if_false]
      rw [if_neg (by omega), show (24 + 24 * sp.syms.length) / 24 - 1 = sp.syms.length by omega,
        specSyms_table sp h]
    · rw [h1] at ht; rw [hty] at ht; exact absurd ht (by decide)

theorem sectionsOf_writeElf' (sp : Spec) (h : SpecOK sp) :
    sectionsOf (writeElf sp) (specSecs sp) = (specView sp).sections := by
  apply List.ext_getElem?
  intro i
  simp only [sectionsOf, specView, List.getElem?_map]
  cases he : (specSecs sp)[i]? with
  | none =>
    have : (allSecs sp)[i]? = none := by
      rw [List.getElem?_eq_none_iff] at he ⊢
      rw [allSecs_length]; rw [specSecs_length] at he; exact he
    rw [this]; rfl
  | some e =>
    obtain ⟨s, hs, hd, hn, _, _, ha⟩ := specSecs_getElem? sp h i e he
    rw [hs]
    simp only [Option.map_some, hd, hn, ha]

theorem readAt_writeRaw (r : Raw) (o z : Nat) :
    readAt (writeRaw r) (64 + 64 * r.shs.length + o) z = readAt r.blob o z := by
  unfold writeRaw
  rw [← List.append_assoc]
  have : 64 + 64 * r.shs.length = (encEhdr r ++ (r.shs.map encShdr).flatten).length := by
    rw [List.length_append, encEhdr_length, flatten_enc_length]
  rw [this, readAt_append_right]

end Elf
end C13
