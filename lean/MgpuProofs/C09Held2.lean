import MgpuProofs.C09Held1
/-! # C09 — `HI` through `dispatchNextWG` and `completeOne`; no fault can arise there -/
namespace C09

theorem nwfOf_le (k : Kern) (idx : Nat) (h : k.wx ≤ 1024) : (k.dem idx).nwf ≤ 16 := by
  show (min k.wx (k.gx - idx * k.wx) + 63) / 64 ≤ 16
  have : min k.wx (k.gx - idx * k.wx) ≤ 1024 := Nat.le_trans (Nat.min_le_left _ _) h
  omega

theorem resident_getD_mem (pool : List CU) (c : Nat) (e : Nat × Dem × List Loc)
    (he : e ∈ (pool.getD c default).resident) : ∃ cu ∈ pool, e ∈ cu.resident := by
  by_cases hc : c < pool.length
  · have hg : pool.getD c default = pool[c] := by simp [List.getD_eq_getElem?_getD, hc]
    rw [hg] at he
    exact ⟨_, List.getElem_mem hc, he⟩
  · have hg : pool.getD c default = default := by
      simp only [List.getD_eq_getElem?_getD]
      rw [List.getElem?_eq_none (by omega)]; rfl
    rw [hg] at he; cases he

/-- first half of `dispatchNextWG`: a newly placed work-group has a fresh key and is resident -/
theorem pre_HI (caps : List (List Nat)) (cp : CP) (i : Nat) (hdc : DCI cp) (hinv : CPInv true caps cp)
    (h : HI cp) (hs : ∀ k, (cp.disp i).kern = some k → k.wx ≤ 1024) (hnf : cp.fault = none) :
    HI (pre cp i).1 ∧ (pre cp i).1.fault = none := by
  cases hcw : (cp.disp i).currWG with
  | some dl => rw [pre_some cp i dl hcw]; exact ⟨h, hnf⟩
  | none =>
    by_cases hn : (cp.disp i).alg.hasNext = true
    · rw [pre_none_yes cp i hcw hn]
      have hi : i < cp.disps.length := by
        by_cases hi : i < cp.disps.length
        · exact hi
        · rw [disp_oob cp i hi] at hn; simp [default, Alg.hasNext, Alg.numWG] at hn
      have hd := hdc i
      cases hk : (cp.disp i).kern with
      | none => have := (hd.idle hk).2.2.2; rw [this] at hn; cases hn
      | some k =>
        have hak := hd.algK k hk
        have hsm := hs k hk
        obtain ⟨a', hdj, _, _, hlen, _⟩ := algNext_shape cp i
        obtain ⟨r1, r2, r3, r4⟩ := algNext_resident cp i k hak
        have hinv' := algNext_inv true caps cp i hinv hn
        have hdisp : ∀ j, (((algNext cp i).1.setDisp i
            { (algNext cp i).1.disp i with currWG := (algNext cp i).2 }).disp j) =
            if i = j then { cp.disp i with alg := a', currWG := (algNext cp i).2 } else cp.disp j := by
          intro j
          rw [disp_setDisp, hlen]
          by_cases e : i = j
          · subst e; simp only [hi, and_self, if_true]; rw [hdj i]; simp [hi]
          · have : ¬ (i = j ∧ i < cp.disps.length) := fun x => e x.1
            simp only [this, if_false, e]; rw [hdj j]; simp [this]
        -- no fault: `Next` can only raise "twice", which the invariant excludes
        have hf' : (algNext cp i).1.fault = none := by
          rcases r4 with e | e
          · rw [e]; exact hnf
          · exact absurd e (hinv'.noTwice rfl)
        refine ⟨?_, hf'⟩
        -- who holds what afterwards
        have hholds : ∀ j dl, Holds ((algNext cp i).1.setDisp i
            { (algNext cp i).1.disp i with currWG := (algNext cp i).2 }) j dl →
            Holds cp j dl ∨ (j = i ∧ (algNext cp i).2 = some dl) := by
          intro j dl hh
          unfold Holds at hh ⊢
          rw [hdisp j] at hh
          by_cases e : i = j
          · subst e
            simp only [if_true] at hh
            rcases hh with hh | hh
            · exact Or.inl (Or.inl hh)
            · exact Or.inr ⟨rfl, hh⟩
          · simp only [e, if_false] at hh; exact Or.inl hh
        -- the key of a newly placed work-group is resident nowhere before the call
        have hfresh : ∀ dl, (algNext cp i).2 = some dl →
            ∀ c, ∀ e ∈ (cp.pool.getD c default).resident, e.1 ≠ dl.key := by
          intro dl hdl c e he
          obtain ⟨cu, hcu, he'⟩ := resident_getD_mem _ _ _ he
          obtain ⟨_, f1, f2⟩ := r3 dl hdl
          cases hc : (cp.disp i).alg.currWG with
          | none =>
            rw [(f1 hc).1]
            exact Nat.ne_of_lt (hinv.res rfl cu hcu e he')
          | some w =>
            rw [(f2 w hc).1]
            exact (hinv.cur rfl i w.1 w.2 hc).2 cu hcu e he'
        have hnotheld : ∀ dl, (algNext cp i).2 = some dl → ∀ j dl', Holds cp j dl' → dl'.key ≠ dl.key := by
          intro dl hdl j dl' hh
          obtain ⟨d, _, hr⟩ := h.res j dl' hh
          exact hfresh dl hdl _ _ hr
        refine ⟨?_, ?_, ?_⟩
        · intro j dl hh
          rcases hholds j dl hh with ho | ⟨_, hnew⟩
          · obtain ⟨d, d1, d2⟩ := h.res j dl ho
            exact ⟨d, d1, r1 _ _ d2⟩
          · exact ⟨k.dem dl.idx, nwfOf_le k dl.idx hsm, (r3 dl hnew).1⟩
        · intro j j' dl dl' h1 h2 hkey
          rcases hholds j dl h1 with o1 | ⟨e1, n1⟩ <;> rcases hholds j' dl' h2 with o2 | ⟨e2, n2⟩
          · exact h.uniq j j' dl dl' o1 o2 hkey
          · exact absurd hkey (hnotheld dl' n2 j dl o1)
          · exact absurd hkey.symm (hnotheld dl n1 j' dl' o2)
          · rw [n1] at n2; injection n2 with n2
            exact ⟨e1.trans e2.symm, n2⟩
        · intro j
          unfold Disp.keys
          rw [hdisp j]
          by_cases e : i = j
          · subst e
            simp only [if_true]
            refine ⟨(h.once i).1, ?_⟩
            intro dl hdl hmem
            obtain ⟨x, hx, hxk⟩ := List.mem_map.1 hmem
            exact hnotheld dl hdl i x.2 (Or.inl ⟨x.1, hx⟩) hxk
          · simp only [e, if_false]; exact h.once j
    · rw [pre_none_no cp i hcw hn]; exact ⟨h, hnf⟩

/-- second half of `dispatchNextWG`: the placed work-group becomes in flight; the latency-table index is
    in range because the group has at most 16 wavefronts -/
theorem tail_HI (caps : List (List Nat)) (cp1 : CP) (i : Nat) (cur : Option DLoc)
    (hcur : (cp1.disp i).currWG = cur) (hinv : CPInv true caps cp1) (h : HI cp1) (hnf : cp1.fault = none) :
    HI (tailF cp1 i cur).1 ∧ (tailF cp1 i cur).1.fault = none := by
  obtain ⟨s1, s2⟩ := tail_spec cp1 i cur
  have p1 := tail_pool1 cp1 i cur
  cases hb : (tailF cp1 i cur).2 with
  | false => rw [s1 hb]; exact ⟨h, hnf⟩
  | true =>
    obtain ⟨dl, rfl, _, _, hdj⟩ := s2 hb
    have hi : i < cp1.disps.length := by
      by_cases hi : i < cp1.disps.length
      · exact hi
      · rw [disp_oob cp1 i hi] at hcur; cases hcur
    have hheld : Holds cp1 i dl := Or.inr hcur
    -- at most 16 wavefronts
    have hlen16 : dl.locs.length ≤ 16 := by
      obtain ⟨d, d1, d2⟩ := h.res i dl hheld
      obtain ⟨cu, hcu, he⟩ := resident_getD_mem _ _ _ d2
      have hp := hinv.pool (by rw [hnf]; intro x; cases x)
      obtain ⟨c, hc, rfl⟩ := List.getElem_of_mem hcu
      have := (hp.2 c hc).locLen _ he
      simp only at this
      omega
    have hfault : (tailF cp1 i (some dl)).1.fault = none := by
      unfold tailF
      simp only []
      have h1 : ¬ cp1.fault.isSome = true := by rw [hnf]; simp
      have h2 : ¬ cp1.cuRoom = 0 := by
        intro h0
        unfold tailF at hb
        simp only [h1, h0, if_true] at hb
        simp at hb
      have h3 : ¬ dl.locs.length > 16 := by omega
      simp only [h1, h2, h3, if_false]
      exact hnf
    refine ⟨?_, hfault⟩
    have hholds : ∀ j dl', Holds (tailF cp1 i (some dl)).1 j dl' ↔ Holds cp1 j dl' := by
      intro j dl'
      unfold Holds
      rw [hdj j]
      by_cases e : i = j
      · subst e
        simp only [hi, and_self, if_true, hcur]
        constructor
        · rintro (⟨r, hr⟩ | hr)
          · rcases List.mem_cons.1 hr with hr | hr
            · injection hr with _ hr; subst hr; exact Or.inr rfl
            · exact Or.inl ⟨r, hr⟩
          · cases hr
        · rintro (⟨r, hr⟩ | hr)
          · exact Or.inl ⟨r, List.mem_cons_of_mem _ hr⟩
          · injection hr with hr; subst hr; exact Or.inl ⟨_, List.mem_cons_self⟩
      · have : ¬ (i = j ∧ i < cp1.disps.length) := fun x => e x.1
        simp only [this, if_false]
    refine ⟨?_, ?_, ?_⟩
    · intro j dl' hh
      obtain ⟨d, d1, d2⟩ := h.res j dl' ((hholds j dl').1 hh)
      exact ⟨d, d1, by rw [p1]; exact d2⟩
    · intro j j' d1 d2 h1 h2
      exact h.uniq j j' d1 d2 ((hholds j d1).1 h1) ((hholds j' d2).1 h2)
    · intro j
      unfold Disp.keys
      rw [hdj j]
      by_cases e : i = j
      · subst e
        simp only [hi, and_self, if_true, List.map_cons, List.nodup_cons]
        have := h.once i
        unfold Disp.keys at this
        exact ⟨⟨this.2 dl hcur, this.1⟩, by intro dl' hdl'; cases hdl'⟩
      · have : ¬ (i = j ∧ i < cp1.disps.length) := fun x => e x.1
        simp only [this, if_false]; exact h.once j

theorem setDisp_congr_inv (caps : List (List Nat)) (cp : CP) (i : Nat) (d : Disp) (h : CPInv true caps cp)
    (hk : d.kern = (cp.disp i).kern) (ha : d.alg = (cp.disp i).alg) : CPInv true caps (cp.setDisp i d) :=
  CPInv_congr true caps _ _ h rfl rfl Iff.rfl (fun k hk => hk) (setDisp_frame _ i _ hk ha)

theorem pre_inv (caps : List (List Nat)) (cp : CP) (i : Nat) (h : CPInv true caps cp) :
    CPInv true caps (pre cp i).1 := by
  cases hcw : (cp.disp i).currWG with
  | some dl => rw [pre_some cp i dl hcw]; exact h
  | none =>
    by_cases hn : (cp.disp i).alg.hasNext = true
    · rw [pre_none_yes cp i hcw hn]
      exact setDisp_congr_inv caps _ i _ (algNext_inv true caps cp i h hn) rfl rfl
    · rw [pre_none_no cp i hcw hn]; exact h

theorem dispatchNextWG_HI (caps : List (List Nat)) (cp : CP) (i : Nat) (hdc : DCI cp)
    (hinv : CPInv true caps cp) (h : HI cp) (hs : ∀ k, (cp.disp i).kern = some k → k.wx ≤ 1024)
    (hnf : cp.fault = none) :
    HI (dispatchNextWG cp i).1 ∧ (dispatchNextWG cp i).1.fault = none ∧
    ((dispatchNextWG cp i).1.disp i).kern = (cp.disp i).kern := by
  rw [dispatchNextWG_eq]
  obtain ⟨_, h2, _, _, hk, _⟩ := pre_spec cp i hdc
  obtain ⟨a1, a2⟩ := pre_HI caps cp i hdc hinv h hs hnf
  obtain ⟨b1, b2⟩ := tail_HI caps _ i _ h2 (pre_inv caps cp i hinv) a1 a2
  refine ⟨b1, b2, ?_⟩
  obtain ⟨s1, s2⟩ := tail_spec (pre cp i).1 i (pre cp i).2
  cases hb : (tailF (pre cp i).1 i (pre cp i).2).2 with
  | false => rw [s1 hb]; exact hk
  | true =>
    obtain ⟨dl, _, _, _, hdj⟩ := s2 hb
    rw [hdj i]
    split
    · exact hk
    · exact hk

theorem dispatchLoop_HI (caps : List (List Nat)) (i : Nat) : ∀ (n : Nat) (cp : CP), DCI cp →
    CPInv true caps cp → HI cp → (∀ k, (cp.disp i).kern = some k → k.wx ≤ 1024) → cp.fault = none →
    HI (dispatchLoop i n cp).1 ∧ (dispatchLoop i n cp).1.fault = none := by
  intro n
  induction n with
  | zero => intro cp _ _ h _ hnf; exact ⟨h, hnf⟩
  | succ n ih =>
    intro cp hdc hinv h hs hnf
    obtain ⟨h1, f1, k1⟩ := dispatchNextWG_HI caps cp i hdc hinv h hs hnf
    have d1 := dispatchNextWG_DCI cp i hdc
    have i1 := dispatchNextWG_inv true caps cp i hinv
    simp only [dispatchLoop]
    by_cases hc : (!(dispatchNextWG cp i).2 || decide (((dispatchNextWG cp i).1.disp i).cycleLeft > 0)
        || (dispatchNextWG cp i).1.fault.isSome) = true
    · simp only [hc, if_true]; exact ⟨h1, f1⟩
    · simp only [hc]; exact ih _ d1 i1 h1 (by rw [k1]; exact hs) f1

/-- removing one in-flight request together with its work-group's residency keeps `HI` -/
theorem HI_remove (cp X : CP) (i x : Nat) (dl : DLoc) (cu' : CU) (h : HI cp)
    (hmem : (x, dl) ∈ (cp.disp i).inflight)
    (hri : ∀ e, e ∈ cu'.resident ↔ e ∈ (cp.pool.getD dl.cu default).resident ∧ e.1 ≠ dl.key)
    (hpool : ∀ c, X.pool.getD c default =
      if c = dl.cu ∧ dl.cu < cp.pool.length then cu' else cp.pool.getD c default)
    (hdisp : ∀ j, (X.disp j).inflight = (if i = j ∧ i < cp.disps.length
        then (cp.disp i).inflight.filter (·.1 ≠ x) else (cp.disp j).inflight) ∧
      (X.disp j).currWG = (cp.disp j).currWG) : HI X := by
  have hheld : Holds cp i dl := Or.inl ⟨x, hmem⟩
  have hkeyin : dl.key ∈ (cp.disp i).keys := List.mem_map.2 ⟨(x, dl), hmem, rfl⟩
  have hilt : i < cp.disps.length := by
    by_cases hi : i < cp.disps.length
    · exact hi
    · rw [disp_oob cp i hi] at hmem; cases hmem
  have hholds : ∀ j dl', Holds X j dl' → Holds cp j dl' ∧ dl'.key ≠ dl.key := by
    intro j dl' hh
    unfold Holds at hh
    rw [(hdisp j).1, (hdisp j).2] at hh
    by_cases hc : i = j ∧ i < cp.disps.length
    · obtain ⟨rfl, _⟩ := hc
      simp only [hilt, and_self, if_true] at hh
      rcases hh with ⟨r, hr⟩ | hr
      · obtain ⟨hr1, hr2⟩ := List.mem_filter.1 hr
        simp only [ne_eq, decide_eq_true_eq] at hr2
        refine ⟨Or.inl ⟨r, hr1⟩, ?_⟩
        intro hk
        have := inj_of_nodup_map (fun e : Nat × DLoc => e.2.key) _ (h.once i).1 (r, dl') hr1 (x, dl) hmem hk
        injection this with t1 _
        exact hr2 t1
      · refine ⟨Or.inr hr, ?_⟩
        intro hk
        exact (h.once i).2 dl' hr (by rw [hk]; exact hkeyin)
    · simp only [hc, if_false] at hh
      refine ⟨hh, ?_⟩
      intro hk
      have := (h.uniq j i dl' dl hh hheld hk).1
      exact hc ⟨this.symm, hilt⟩
  refine ⟨?_, ?_, ?_⟩
  · intro j dl' hh
    obtain ⟨ho, hne⟩ := hholds j dl' hh
    obtain ⟨d, d1, d2⟩ := h.res j dl' ho
    refine ⟨d, d1, ?_⟩
    rw [hpool]
    split
    · rename_i hc
      rw [hc.1] at d2
      exact (hri _).2 ⟨d2, hne⟩
    · exact d2
  · intro j j' d1 d2 h1 h2
    exact h.uniq j j' d1 d2 (hholds j d1 h1).1 (hholds j' d2 h2).1
  · intro j
    unfold Disp.keys
    rw [(hdisp j).1, (hdisp j).2]
    by_cases hc : i = j ∧ i < cp.disps.length
    · obtain ⟨rfl, _⟩ := hc
      simp only [hilt, and_self, if_true]
      have ho := h.once i
      unfold Disp.keys at ho
      have hsub : (((cp.disp i).inflight.filter (·.1 ≠ x)).map (·.2.key)).Sublist
          ((cp.disp i).inflight.map (·.2.key)) := List.Sublist.map _ (List.filter_sublist)
      refine ⟨ho.1.sublist hsub, ?_⟩
      intro dl' hdl' hm
      exact ho.2 dl' hdl' (hsub.subset hm)
    · simp only [hc, if_false]; exact h.once j

/-- the owner consumes one completion: the work-group is resident (no "work-group not found"), leaves
    the CU and the in-flight list together; nobody else's work-group is touched -/
theorem completeOne_HI (cp : CP) (i id : Nat) (h : HI cp) (hnf : cp.fault = none) :
    HI (completeOne cp i id) ∧ (completeOne cp i id).fault = none := by
  unfold completeOne
  cases hfind : (cp.disp i).inflight.find? (·.1 = id) with
  | none => simp only [hfind]; exact ⟨h, hnf⟩
  | some xdl =>
    obtain ⟨x, dl⟩ := xdl
    simp only [hfind]
    have hx : x = id := by
      have := List.find?_some hfind; simpa using this
    have hmem : (x, dl) ∈ (cp.disp i).inflight := List.mem_of_find?_eq_some hfind
    subst hx
    have hheld : Holds cp i dl := Or.inl ⟨x, hmem⟩
    obtain ⟨d0, _, hres0⟩ := h.res i dl hheld
    cases hf : free (cp.pool.getD dl.cu default) dl.key with
    | none =>
      exfalso
      unfold free at hf
      cases hfd : (cp.pool.getD dl.cu default).resident.find? (·.1 = dl.key) with
      | none =>
        rw [List.find?_eq_none] at hfd
        have := hfd _ hres0
        simp at this
      | some e => rw [hfd] at hf; simp at hf
    | some cu' =>
      simp only []
      have hri := free_resident_iff _ _ _ hf
      refine ⟨HI_remove cp _ i x dl cu' h hmem hri (fun c => getD_set_cu _ _ _ _) ?_, hnf⟩
      intro j
      rw [disp_setDisp]
      split
      · rename_i hc; obtain ⟨rfl, hlt⟩ := hc
        exact ⟨rfl, rfl⟩
      · exact ⟨rfl, rfl⟩

end C09
