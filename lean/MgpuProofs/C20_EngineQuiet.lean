import MgpuModel.C20_Engine
import MgpuProofs.C20_Measure
/-! # C20 — "`Tick` returned false" means "nothing changed" (repaired code)

For every component: if the tick of a component whose flag is clear reports no progress, the state
is literally unchanged (`Inert`); for a connection everything but the round-robin pointer is unchanged.
The list-length hypotheses come from `Lens` (`C20_EngineLens.lean`). -/
namespace C20
namespace Quiet
open Meas

theorem upd_get_id {α} [Inhabited α] (l : List α) (i : Nat) (h : i < l.length) : upd l i (get l i) = l := by
  induction l generalizing i with
  | nil => cases h
  | cons x xs ih =>
    cases i with
    | zero => rfl
    | succ i => simp only [upd, get]; rw [ih i (by simpa using h)]

theorem quiet_tickDriver (s : Sys) (ha : s.dAwake = false) (h : awakeOf (tickDriver s) .drv = false) :
    tickDriver s = s := by
  revert h
  unfold tickDriver
  extract_lets d p s1
  intro h
  have h1 : awakeOf s1 .drv = false := by
    rw [← h]; symm
    split
    · rw [AW_wmGpu _ _ _ _ (by intro _ h; cases h)]
    · rfl
  have h2 : (d.2 || p.2.1) = false := h1
  simp only [Bool.or_eq_false_iff] at h2
  have hd : d.1 = s.l0 := dispatch_false _ h2.1
  have hp : p = (d.1, false, false, false) := procUp_false _ h2.2
  have hpw : p.2.2.2 = false := by rw [hp]
  rw [if_neg (by rw [hpw]; simp)]
  show ({ s with l0 := p.1, dAwake := d.2 || p.2.1 } : Sys) = s
  rw [hp, h2.1]
  show ({ s with l0 := d.1, dAwake := false } : Sys) = s
  rw [hd, ← ha]

theorem quiet_tickGpu (s : Sys) (g : Nat) (hl : s.legacy = false) (hl1 : g < s.l1.length)
    (hlg : g < s.gpus.length) (ha : (get s.gpus g).awake = false)
    (h : awakeOf (tickGpu s g) (.gpu g) = false) : tickGpu s g = s := by
  revert h
  unfold tickGpu
  extract_lets gp r d p2 d1 t p fin s1 s2
  intro h
  have hs2 : awakeOf s2 (.gpu g) = awakeOf s1 (.gpu g) := by
    simp only [s2]; split
    · rw [AW_wmGpu_others]; rfl
    · rfl
  have h1 : awakeOf s1 (.gpu g) = false := by
    rw [← h, ← hs2]; symm
    split
    · rw [AW_wmSm _ _ _ _ (by intro _ h; cases h)]
    · rfl
  have h2 : (r.2.2 || p2 || t.2.2.2.1 || p.2.1) = false := by
    rw [← h1]; show _ = (get (upd s.gpus g _) g).awake; rw [get_upd_self]
  have h2' := h2
  simp only [Bool.or_eq_false_iff] at h2
  obtain ⟨⟨⟨hr, hp2⟩, ht⟩, hp⟩ := h2
  have hd2 : d.2 = false := by simpa [p2, hl] using hp2
  have hrE : r = (s.l0, gp.fin, false) := by
    revert hr; simp only [r]; split
    · intro _; rfl
    · split
      · intro _; rfl
      · intro h; simp at h
  have htE : t = (r.1, d.1, r.2.1, false, false) := by
    revert ht; simp only [t]; split
    · intro _; rfl
    · intro h; simp at h
  have hdE : d.1 = get s.l1 g := dispatch_false _ hd2
  have hpE : p = (t.2.1, false, false, false) := procUp_false _ hp
  have c1 : p.2.2.2 = false := by rw [hpE]
  have c2 : t.2.2.2.2 = false := by rw [htE]
  rw [if_neg (by rw [c1]; simp)]
  simp only [s2]; rw [if_neg (by rw [c2]; simp)]
  have hfin : fin = gp.fin := by
    simp only [fin]; rw [hpE]; simp only [Bool.false_and]; rw [if_neg (by simp), htE, hrE]
  show ({ s with l0 := t.1, l1 := upd s.l1 g p.1,
                 gpus := upd s.gpus g { awake := r.2.2 || p2 || t.2.2.2.1 || p.2.1, fin := fin } } : Sys) = s
  rw [h2', hfin]
  have e1 : t.1 = s.l0 := by rw [htE, hrE]
  have e2 : p.1 = get s.l1 g := by rw [hpE, htE, hdE]
  have e3 : ({ awake := false, fin := gp.fin } : Gpu) = get s.gpus g := by
    show _ = gp
    have : gp.awake = false := ha
    cases hgp : gp with
    | mk a f => rw [hgp] at this; simp only at this; rw [this]
  rw [e1, e2, e3, upd_get_id _ _ hl1, upd_get_id _ _ hlg]

theorem quiet_tickSm (s : Sys) (m : Nat) (hl : s.legacy = false) (hl1 : m / s.S < s.l1.length)
    (hl2 : m < s.l2.length) (hlm : m < s.sms.length) (ha : (get s.sms m).awake = false)
    (h : awakeOf (tickSm s m) (.sm m) = false) : tickSm s m = s := by
  revert h
  unfold tickSm
  extract_lets g j sm lg r d p2 d1 t p fin s1 s2
  intro h
  have hs2 : awakeOf s2 (.sm m) = awakeOf s1 (.sm m) := by
    simp only [s2]; split
    · rw [AW_wmSm_others, AW_wakeGpu _ _ _ (by intro h; cases h)]
    · rfl
  have h1 : awakeOf s1 (.sm m) = false := by
    rw [← h, ← hs2]; symm
    split
    · rw [AW_wmSub _ _ _ _ (by intro _ h; cases h)]
    · rfl
  have h2 : (r.2.2 || p2 || t.2.2.2.2.1 || p.2.1) = false := by
    rw [← h1]; show _ = (get (upd s.sms m _) m).awake; rw [get_upd_self]
  have h2' := h2
  simp only [Bool.or_eq_false_iff] at h2
  obtain ⟨⟨⟨hr, hp2⟩, ht⟩, hp⟩ := h2
  have hd2 : d.2 = false := by simpa [p2, hl] using hp2
  have hrE : r = (lg, sm.fin, false) := by
    revert hr; simp only [r]; split
    · intro _; rfl
    · split
      · intro _; rfl
      · intro h; simp at h
  have htE : t = (r.1, d.1, r.2.1, sm.warps, false, false) := by
    revert ht; simp only [t]; split
    · intro _; rfl
    · intro h; simp at h
  have hdE : d.1 = get s.l2 m := dispatch_false _ hd2
  have hpE : p = (t.2.1, false, false, false) := procUp_false _ hp
  have c1 : p.2.2.2 = false := by rw [hpE]
  have c2 : t.2.2.2.2.2 = false := by rw [htE]
  rw [if_neg (by rw [c1]; simp)]
  simp only [s2]; rw [if_neg (by rw [c2]; simp)]
  have hfin : fin = sm.fin := by
    simp only [fin]; rw [hpE]; simp only [Bool.false_and]; rw [if_neg (by simp), htE, hrE]
  show ({ s with l1 := upd s.l1 g t.1, l2 := upd s.l2 m p.1,
                 sms := upd s.sms m { awake := r.2.2 || p2 || t.2.2.2.2.1 || p.2.1, fin := fin,
                                      warps := t.2.2.2.1 } } : Sys) = s
  rw [h2', hfin]
  have e1 : t.1 = get s.l1 g := by rw [htE, hrE]
  have e2 : p.1 = get s.l2 m := by rw [hpE, htE, hdE]
  have e4 : t.2.2.2.1 = sm.warps := by rw [htE]
  have e3 : ({ awake := false, fin := sm.fin, warps := sm.warps } : Smx) = get s.sms m := by
    show _ = sm
    have : sm.awake = false := ha
    cases hsm : sm with
    | mk a f w => rw [hsm] at this; simp only at this; rw [this]
  rw [e1, e2, e4, e3, upd_get_id _ _ hl1, upd_get_id _ _ hl2, upd_get_id _ _ hlm]

theorem quiet_tickSub (s : Sys) (u : Nat) (hl2 : u / s.C < s.l2.length) (hlu : u < s.subs.length)
    (ha : (get s.subs u).awake = false) (h : awakeOf (tickSub s u) (.sub u) = false) :
    tickSub s u = s := by
  revert h
  unfold tickSub
  extract_lets m j sc lm r q
  split
  · intro h
    have h2 : (r.2.2 || q.2.2) = false := by
      rw [← h]; show _ = (get (upd s.subs u _) u).awake; rw [get_upd_self]
    have h2' := h2
    simp only [Bool.or_eq_false_iff] at h2
    have hrE : r = (lm, sc.fin, false) := by
      have hr := h2.1
      revert hr; simp only [r]; split
      · intro _; rfl
      · split
        · intro _; rfl
        · intro h; simp at h
    have hqE : q = (sc.rem, r.2.1, false) := by
      have hq := h2.2
      revert hq; simp only [q]; split
      · intro _; rfl
      · intro h; simp at h
    rw [h2']
    have e1 : r.1 = get s.l2 m := by rw [hrE]
    have e2 : q.1 = sc.rem := by rw [hqE]
    have e3 : q.2.1 = sc.fin := by rw [hqE, hrE]
    rw [e1, e2, e3]
    have e4 : ({ sc with awake := false, rem := sc.rem, fin := sc.fin } : Sub) = get s.subs u := by
      show _ = sc
      have : sc.awake = false := ha
      cases hsc : sc with
      | mk a r f i => rw [hsc] at this; simp only at this; rw [this]
    rw [e4, upd_get_id _ _ hl2, upd_get_id _ _ hlu]
  · intro h
    exfalso
    dsimp only at h
    split at h
    · rw [AW_wmSub_others, AW_wakeSm _ _ _ (by intro h; cases h)] at h
      simp [awakeOf, get_upd_self] at h
    · simp [awakeOf, get_upd_self] at h

/-- a connection tick without progress leaves the layer as it was, up to the round-robin pointer -/
theorem connTick_sameButRR {α : Type} (l : Level α) (ha : l.connAwake = false)
    (h : l.connTick.l.connAwake = false) : Level.SameButRR l l.connTick.l := by
  obtain ⟨⟨b1, b2, b3, b4⟩, _⟩ := connTick_noprogress l h
  obtain ⟨p1, p2, p3, p4⟩ := connTick_parent_fields l
  exact ⟨p1, p2, p3, p4, b1, b2, b3, b4, h.trans ha.symm⟩

theorem quiet_tickConn0 (s : Sys) (ha : s.l0.connAwake = false)
    (h : awakeOf (tickConn0 s) .c0 = false) : Inert s (tickConn0 s) .c0 := by
  revert h
  unfold tickConn0
  extract_lets o s1
  intro h
  rw [AW_wmGpu _ _ _ _ (by intro _ h; cases h)] at h
  obtain ⟨w1, w2⟩ := connTick_noprog_wakes s.l0 h
  refine ⟨s.l0.connTick.l, ?_, connTick_sameButRR s.l0 ha h⟩
  show wakeMany wakeGpu id s1 s.l0.connTick.wakeChi = _
  rw [w2]
  show ({ s with l0 := s.l0.connTick.l, dAwake := s.dAwake || s.l0.connTick.wakePar } : Sys) = _
  rw [w1, Bool.or_false]

theorem quiet_tickConn1 (s : Sys) (g : Nat) (ha : (get s.l1 g).connAwake = false)
    (h : awakeOf (tickConn1 s g) (.c1 g) = false) : Inert s (tickConn1 s g) (.c1 g) := by
  revert h
  unfold tickConn1
  extract_lets o s1 s2
  intro h
  rw [AW_wmSm _ _ _ _ (by intro _ h; cases h)] at h
  have h1 : awakeOf s1 (.c1 g) = false := by
    rw [← h]; symm
    simp only [s2]; split
    · rw [AW_wakeGpu _ _ _ (by intro h; cases h)]
    · rfl
  have h2 : (get s.l1 g).connTick.l.connAwake = false := by
    rw [← h1]; show _ = (get (upd s.l1 g _) g).connAwake; rw [get_upd_self]
  obtain ⟨w1, w2⟩ := connTick_noprog_wakes _ h2
  refine ⟨(get s.l1 g).connTick.l, ?_, connTick_sameButRR _ ha h2⟩
  have e2 : s2 = s1 := by
    show (if (get s.l1 g).connTick.wakePar = true then wakeGpu s1 g else s1) = s1
    rw [w1]; rfl
  show wakeMany wakeSm (fun k => g * s.S + k) s2 (get s.l1 g).connTick.wakeChi = _
  rw [w2, e2]; rfl

theorem quiet_tickConn2 (s : Sys) (m : Nat) (ha : (get s.l2 m).connAwake = false)
    (h : awakeOf (tickConn2 s m) (.c2 m) = false) : Inert s (tickConn2 s m) (.c2 m) := by
  revert h
  unfold tickConn2
  extract_lets o s1 s2
  intro h
  rw [AW_wmSub _ _ _ _ (by intro _ h; cases h)] at h
  have h1 : awakeOf s1 (.c2 m) = false := by
    rw [← h]; symm
    simp only [s2]; split
    · rw [AW_wakeSm _ _ _ (by intro h; cases h)]
    · rfl
  have h2 : (get s.l2 m).connTick.l.connAwake = false := by
    rw [← h1]; show _ = (get (upd s.l2 m _) m).connAwake; rw [get_upd_self]
  obtain ⟨w1, w2⟩ := connTick_noprog_wakes _ h2
  refine ⟨(get s.l2 m).connTick.l, ?_, connTick_sameButRR _ ha h2⟩
  have e2 : s2 = s1 := by
    show (if (get s.l2 m).connTick.wakePar = true then wakeSm s1 m else s1) = s1
    rw [w1]; rfl
  show wakeMany wakeSub (fun k => m * s.C + k) s2 (get s.l2 m).connTick.wakeChi = _
  rw [w2, e2]; rfl

end Quiet
end C20
