import MgpuProofs.C10Comp
import MgpuProofs.C10BuddyTrip3
import MgpuProofs.C10BuddyTrip4
/-!
C10 (composition): the buddy model meets the device specification `Spec` of the allocator layer. The assumptions are
discharged from the invariants behind `buddy_conservation` (`TCore`, `core_runLive`: the tracked pages are exactly the
pages handed out and not given back, each once; every tracked page lies in the block of a counting tracker) and behind
`buddy_disjoint_any_history` (`FInv.safe`: no tracked page inside a free block, free blocks pairwise disjoint).
-/
namespace C10.Comp
open C10

/-! ## the device ranges -/

theorem bdevs_base_le : ∀ (Fs : List Nat) (b j : Nat) (dv : Dev), (bdevsFrom b Fs)[j]? = some dv → b ≤ dv.base := by
  intro Fs
  induction Fs with
  | nil => intro b j dv h; simp [bdevsFrom] at h
  | cons F Fs ih =>
    intro b j dv h
    cases j with
    | zero =>
      simp [bdevsFrom] at h
      subst h
      exact Nat.le_refl _
    | succ j =>
      simp [bdevsFrom] at h
      have := ih _ _ _ h
      omega

theorem bdevs_size : ∀ (Fs : List Nat) (b j : Nat) (dv : Dev), (bdevsFrom b Fs)[j]? = some dv →
    ∃ F, dv.size = 4096 * 2 ^ F := by
  intro Fs
  induction Fs with
  | nil => intro b j dv h; simp [bdevsFrom] at h
  | cons F Fs ih =>
    intro b j dv h
    cases j with
    | zero =>
      simp [bdevsFrom] at h
      subst h
      exact ⟨F, rfl⟩
    | succ j =>
      simp [bdevsFrom] at h
      exact ih _ _ _ h

theorem devOfFrom_bdevs : ∀ (Fs : List Nat) (b k j : Nat) (dv : Dev) (p : Nat), (bdevsFrom b Fs)[j]? = some dv →
    dv.base ≤ p → p < dv.base + dv.size → devOfFrom (bdevsFrom b Fs) k p = some (k + j) := by
  intro Fs
  induction Fs with
  | nil => intro b k j dv p h; simp [bdevsFrom] at h
  | cons F Fs ih =>
    intro b k j dv p h h1 h2
    cases j with
    | zero =>
      simp [bdevsFrom] at h
      subst h
      simp only at h1 h2
      simp [bdevsFrom, devOfFrom, inRange, h1, h2]
    | succ j =>
      simp [bdevsFrom] at h
      have hb := bdevs_base_le _ _ _ _ h
      have hnot : ¬ p < b + 4096 * 2 ^ F := by omega
      simp only [bdevsFrom, devOfFrom, inRange]
      simp only [hnot, decide_false, Bool.and_false, Bool.false_eq_true, ↓reduceIte]
      rw [ih _ (k + 1) j dv p h h1 h2]
      congr 1
      omega

theorem devOf_bdevs {Fs : List Nat} {b j : Nat} {dv : Dev} {p : Nat} (h : (bdevsFrom b Fs)[j]? = some dv)
    (h1 : dv.base ≤ p) (h2 : p < dv.base + dv.size) : devOf (bdevsFrom b Fs) p = some j := by
  unfold devOf
  rw [devOfFrom_bdevs Fs b 0 j dv p h h1 h2]
  simp

/-! ## the buddy state as a device of the allocator layer -/

/-- device `d` is a buddy state in its invariant, `l` = the pages it handed out and did not get back -/
def BGood (devs : List Dev) (d : Nat) (m : Buddy.State) (l : List Nat) : Prop :=
  ∃ dv F, devs[d]? = some dv ∧ dv.size = 4096 * 2 ^ F ∧ Buddy.TCore F dv.base m ∧
    (∀ p, Buddy.Tracked m p ↔ p ∈ l) ∧ l.Nodup

theorem liftB_ok {α : Type} {x : Except Buddy.Fault α} {a : α} (h : liftB x = .ok a) : x = .ok a := by
  cases x with
  | ok b => simp [liftB] at h; rw [h]
  | error e => simp [liftB] at h

theorem inDev_range {F : Nat} {dv : Dev} {m : Buddy.State} {p : Nat} (hc : Buddy.TCore F dv.base m)
    (hsz : dv.size = 4096 * 2 ^ F) (h : Buddy.inDev m p = true) : dv.base ≤ p ∧ p < dv.base + dv.size := by
  unfold Buddy.inDev at h
  rw [hc.hbase, hc.f.hsize, ← hsz] at h
  simpa using h

theorem bgood_held {devs : List Dev} {d : Nat} {m : Buddy.State} {l : List Nat} {p : Nat}
    (h : BGood devs d m l) (hp : p ∈ l) : Buddy.Accounted m [p] p ∧ ¬ Buddy.InFreeBlock m p := by
  obtain ⟨dv, F, -, -, hc, ht, -⟩ := h
  obtain ⟨id, hid⟩ := (ht p).mpr hp
  constructor
  · obtain ⟨l2, k2, num2, hl2, hk2, e2, hu2, r1, r2⟩ := hc.f.D p id hid
    have hnum : 0 < num2 := by
      have c := hc.cnt id _ _ e2
      have : 0 < (m.track.filter (fun e => e.2 == id)).length :=
        List.length_pos_of_mem (List.mem_filter.mpr ⟨hid, by simp⟩)
      omega
    have hin : Buddy.inBlock m.size (Buddy.addr m.base F l2 k2) l2 p := by
      unfold Buddy.inBlock
      rw [hc.f.hsize]
      exact ⟨r1, r2⟩
    exact ⟨p, List.mem_singleton.mpr rfl, id, _, num2, l2, hid, e2, hnum,
      Buddy.levelOf_total hc.f hc.nb hl2 hk2 hu2.1 hu2.2.1, hin, hin⟩
  · rintro ⟨lv, a, ha, hin⟩
    have hsafe := (hc.f.safe l (fun q hq => (ht q).mpr hq)).1
    have hlv : lv < m.free.length := by
      have := hc.f.level_le ha
      rw [hc.f.hlen]
      omega
    exact hsafe p hp lv hlv a ha hin

/-- the specification of the allocator layer, met by buddy devices laid out as `bdevsFrom b Fs` -/
def BSpec (b : Nat) (Fs : List Nat) : Spec buddyIface (bdevsFrom b Fs) where
  Good := BGood (bdevsFrom b Fs)
  Held := fun m p => Buddy.Accounted m [p] p
  InFree := Buddy.InFreeBlock
  alloc := by
    intro d m l p m' h ha
    obtain ⟨dv, F, hdv, hsz, hc, ht, hn⟩ := h
    have hpop : Buddy.popOne m = .ok (p, m') := liftB_ok ha
    have hrun : Buddy.runLive m l [.pop 1] = ⟨true, l ++ [p], m'⟩ := by
      simp [Buddy.runLive, Buddy.step, Buddy.popN, hpop]
    obtain ⟨c1, t1, n1⟩ := Buddy.core_runLive [.pop 1] m l hc ht hn
    rw [hrun] at c1 t1 n1
    simp only at c1 t1 n1
    have hin : Buddy.inDev m' p = true := by
      unfold Buddy.popOne at hpop
      split at hpop
      · cases hpop
      · split at hpop
        · cases hpop
        · rename_i ps s' _
          simp only at hpop
          split at hpop
          · rename_i hi
            injection hpop with hpop
            injection hpop with e1 e2
            subst e1; subst e2
            exact hi
          · cases hpop
    obtain ⟨r1, r2⟩ := inDev_range c1 hsz hin
    refine ⟨⟨dv, F, hdv, hsz, c1, t1, n1⟩, ?_, devOf_bdevs hdv r1 r2⟩
    intro c
    have := (List.nodup_append.mp n1).2.2 p c p (List.mem_singleton.mpr rfl)
    exact this rfl
  multi := by
    intro d m l n ps m' h ha
    obtain ⟨dv, F, hdv, hsz, hc, ht, hn⟩ := h
    have ham : Buddy.amOp m n = .ok (ps, m') := liftB_ok ha
    have hrun : Buddy.runLive m l [.am n] = ⟨true, l ++ ps, m'⟩ := by
      simp [Buddy.runLive, Buddy.step, ham]
    obtain ⟨c1, t1, n1⟩ := Buddy.core_runLive [.am n] m l hc ht hn
    rw [hrun] at c1 t1 n1
    simp only at c1 t1 n1
    have hin : ∀ p ∈ ps, Buddy.inDev m' p = true := by
      unfold Buddy.amOp at ham
      split at ham
      · cases ham
      · split at ham
        · cases ham
        · rename_i qs s' _
          split at ham
          · rename_i hi
            injection ham with ham
            injection ham with e1 e2
            subst e1; subst e2
            exact List.all_eq_true.mp hi
          · cases ham
    obtain ⟨-, n2, n3⟩ := List.nodup_append.mp n1
    refine ⟨⟨dv, F, hdv, hsz, c1, t1, n1⟩, n2, ?_⟩
    intro p hp
    obtain ⟨r1, r2⟩ := inDev_range c1 hsz (hin p hp)
    exact ⟨fun c => n3 p c p hp rfl, devOf_bdevs hdv r1 r2⟩
  multi_len := by
    intro d m l n ps m' h ha
    obtain ⟨dv, F, hdv, hsz, hc, ht, hn⟩ := h
    have ham : Buddy.amOp m n = .ok (ps, m') := liftB_ok ha
    by_cases h0 : n = 0
    · subst h0
      rw [(Buddy.amOp_zero_ok ham).1]
      rfl
    · unfold Buddy.amOp at ham
      split at ham
      · cases ham
      · rw [Buddy.allocMulti_pos m h0] at ham
        split at ham
        · cases ham
        · rename_i qs s' hq
          split at ham
          · injection ham with ham
            injection ham with e1 e2
            subst e1
            obtain ⟨i, level, blk, rest, -, -, -, -, hpg, -⟩ :=
              Buddy.allocMulti_ok hq (by rw [hc.f.hlen]; omega)
            rw [hpg, Buddy.pagesFrom_length]
          · cases ham
  add := by
    intro d m l p m' h hp ha
    obtain ⟨dv, F, hdv, hsz, hc, ht, hn⟩ := h
    have hadd : Buddy.addSingle m p = .ok m' := liftB_ok ha
    have hrun : Buddy.runLive m l [.add [p]] = ⟨true, l.filter (fun q => !([p].contains q)), m'⟩ := by
      simp [Buddy.runLive, Buddy.step, Buddy.addAll, hadd, hp]
    obtain ⟨c1, t1, n1⟩ := Buddy.core_runLive [.add [p]] m l hc ht hn
    rw [hrun] at c1 t1 n1
    exact ⟨dv, F, hdv, hsz, c1, t1, n1⟩
  held := fun h hp => bgood_held h hp

/-- Build + RegisterGPU establishes the invariant of the composed system -/
theorem ginv_binit (Fs : List Nat) : GInv (BSpec 4096 Fs) (binit Fs) (fun _ => []) := by
  refine { hd := rfl, len := by simp [binit], good := ?_, nodup := by simp [binit], live := ?_, pid := ?_,
           mir := ?_, mwf := ?_ }
  · intro d m hm
    simp only [binit, List.getElem?_map] at hm
    cases hdv : (bdevsFrom 4096 Fs)[d]? with
    | none => rw [hdv] at hm; cases hm
    | some dv =>
      rw [hdv] at hm
      simp only [Option.map_some] at hm
      injection hm with hm
      subst hm
      obtain ⟨F, hF⟩ := bdevs_size _ _ _ _ hdv
      rw [hF]
      exact ⟨dv, F, hdv, hF, Buddy.core_init F dv.base, by simp [Buddy.Tracked, Buddy.init], List.nodup_nil⟩
  · intro e he; simp [binit] at he
  · intro e he; simp [binit] at he
  · intro e he; simp [binit] at he
  · intro e he; simp [binit] at he

theorem tight_binit (Fs : List Nat) : Tight (bdevsFrom 4096 Fs) (binit Fs) (fun _ => []) [] :=
  { own := fun _ _ h => (by cases h), tight := fun _ _ h => (by cases h) }

end C10.Comp
