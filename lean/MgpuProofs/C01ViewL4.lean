import MgpuProofs.C01ViewL
/-! # C01 — the 16-byte global loads / stores of `matrixTranspose` as view transformers (with LDS component)

`flat_load_dwordx4 v[D:D+3], v[A:A+1]` and `flat_store_dwordx4 v[A:A+1], v[S:S+3]` (GCN3: no offset, no scalar base).
Loads: four VGPRs per active lane from the view's memory (`loadCells16`).  Stores: the view's memory changed by the 16
bytes per active lane (`storePairs16`), LDS untouched. -/
set_option linter.unusedSimpArgs false
set_option maxRecDepth 100000
namespace C01
namespace Emu
open C03V

/-- little-endian value of `n` memory bytes at `a` (64-bit address wrap, as `St.memRead`) -/
def rdM (m : Nat → Nat) (a n : Nat) : Nat := leNat ((List.range n).map fun i => m ((a + i) % 2 ^ 64))

/-- the flat address a lane's register pair holds -/
def vAddr (V : View) (A l : Nat) : Nat := (V.rv A l + V.rv (A + 1) l * 2 ^ 32) % 2 ^ 64

def loadCells16 (V : View) (A D l : Nat) : List Wr := wrVN D l (16 / 4) (rdM V.mem (vAddr V A l) 16)

theorem step_flat_load16 (P : Program) (hP : P.cdna3 = false) (base k A D : Nat) (hA : A + 1 < 256)
    (hd : DecV ((P.code.drop k).take 8) 17 23 8) (name : String)
    (hex : ∀ st, exec false st (((P.code.drop k).take 8).take 8) =
      some (name, (activeLanes st).flatMap fun l => wrVN D l (16 / 4) (st.memRead (gAddr st A l) 16)))
    (st : St) (V : View) (L : Nat → Nat) (h : SeesL st V L) (hpc : V.pc = base + k) :
    ∃ st', step P base st = .ok (st', .next) ∧
      SeesL st'
        { V with pc := base + k + 8,
                 rv := fun r l => if V.exec.testBit l = true then sel (isV (r * 64 + l)) (loadCells16 V A D l) (V.rv r l)
                                  else V.rv r l } L := by
  have hpc' : st.pc = base + k := h.sees.pc.trans hpc
  refine ⟨_, step_vec P hP base k st hpc' 17 23 8 hd (by omega) name _ (hex _), ?_⟩
  generalize hst1 : ({ st with pc := base + k + 8 } : St) = st1
  have h1 : Sees st1 { V with pc := base + k + 8 } := by rw [← hst1]; exact h.sees.setPc _
  have hlds1 : st1.rlds = L := by rw [← hst1]; exact funext h.lds
  have hmem1 : st1.rmem = V.mem := funext h1.mem
  have hws : ((activeLanes st1).flatMap fun l => wrVN D l (16 / 4) (st1.memRead (gAddr st1 A l) 16)) =
      (lanesOf V.exec).flatMap (loadCells16 V A D) := by
    rw [activeLanes_eq, h1.exec]
    apply flatMap_congr'
    intro l hl
    have hl64 : l < 64 := ((mem_lanesOf _ _).mp hl).1
    show wrVN D l (16 / 4) (st1.memRead (gAddr st1 A l) 16) = loadCells16 V A D l
    unfold loadCells16 St.memRead rdM vAddr
    rw [gAddr_eq, h1.rv A l (by omega) hl64, h1.rv (A + 1) l hA hl64, hmem1]
  rw [hws]
  have hcell : ∀ w ∈ (lanesOf V.exec).flatMap (loadCells16 V A D), ∃ r' l', l' < 64 ∧ w.1 = Cell.v r' l' := by
    intro w hw
    obtain ⟨l, hl, hwl⟩ := List.mem_flatMap.mp hw
    obtain ⟨r', hr'⟩ := mem_wrVN _ _ _ _ w hwl
    exact ⟨r', l, ((mem_lanesOf _ _).mp hl).1, hr'⟩
  have blind : ∀ (p : Cell → Bool), (∀ r l, p (.v r l) = false) → ∀ d,
      sel p ((lanesOf V.exec).flatMap (loadCells16 V A D)) d = d := by
    intro p hp d
    apply sel_none
    intro w hw
    obtain ⟨r', l', _, hl⟩ := hcell w hw
    rw [hl, hp]
  have hml := mem_applyWrs_of_none st1 ((lanesOf V.exec).flatMap (loadCells16 V A D)) (by
    intro w hw
    obtain ⟨r', l', _, hl⟩ := hcell w hw
    rw [hl])
  refine ⟨⟨by rw [size_s_applyWrs]; exact h1.ssz, by rw [size_v_applyWrs]; exact h1.vsz, ?_, ?_, ?_, ?_, ?_, ?_⟩, ?_⟩
  · rw [pc_applyWrs, blind _ (fun _ _ => rfl)]; exact h1.pc
  · rw [exec_applyWrs, blind _ (fun _ _ => rfl)]; exact h1.exec
  · rw [vcc_applyWrs, blind _ (fun _ _ => rfl)]; exact h1.vcc
  · intro j hj
    rw [rs_applyWrs _ _ _ (by rw [h1.ssz]; exact hj), blind _ (fun _ _ => rfl)]
    exact h1.rs j hj
  · intro r l hr hl
    rw [rv_applyWrs _ _ _ _ (by rw [h1.vsz]; omega)]
    rw [sel_flatMap_single (isV (r * 64 + l)) (loadCells16 V A D) l (lanesOf V.exec) _ (lanesOf_nodup _) (by
      intro l' hl' hne w hw
      obtain ⟨r', hr'⟩ := mem_wrVN _ _ _ _ w hw
      rw [hr']
      have := ((mem_lanesOf _ _).mp hl').1
      simp only [isV, beq_eq_false_iff_ne, ne_eq]
      omega)]
    show _ = if V.exec.testBit l = true then sel (isV (r * 64 + l)) (loadCells16 V A D l) (V.rv r l) else V.rv r l
    rw [h1.rv r l hr hl]
    by_cases hx : V.exec.testBit l = true
    · rw [if_pos ((mem_lanesOf _ _).mpr ⟨hl, hx⟩), if_pos hx]
    · rw [if_neg (fun hc => hx ((mem_lanesOf _ _).mp hc).2), if_neg hx]
  · intro x
    show (applyWrs st1 _).rmem x = _
    unfold St.rmem
    rw [hml.1]
    exact h1.mem x
  · intro a
    show (applyWrs st1 _).rlds a = _
    unfold St.rlds
    rw [hml.2]
    show st1.rlds a = L a
    rw [hlds1]

/-! ## store -/

/-- little-endian bytes of `x` at `a …` (64-bit address wrap) as (address, byte) pairs -/
def bytePairsM (a n x : Nat) : List (Nat × Nat) := (bytesOf n x).zipIdx.map fun p => ((a + p.2) % 2 ^ 64, p.1)

theorem wrMemBytes_eq (a n x : Nat) : wrMemBytes a n x = (bytePairsM a n x).map fun p => (Cell.mem p.1, p.2) := by
  unfold wrMemBytes bytePairsM
  rw [List.map_map]
  rfl

/-- committing memory cells: only the memory list changes, and its content changes by `applyWrites` -/
theorem applyWrs_mem (ps : List (Nat × Nat)) : ∀ st : St,
    ∃ M', applyWrs st (ps.map fun p => (Cell.mem p.1, p.2)) = { st with mem := M' } ∧
      get M' = applyWrites ps (get st.mem) := by
  induction ps with
  | nil => intro st; exact ⟨st.mem, rfl, rfl⟩
  | cons p ps ih =>
    intro st
    obtain ⟨M', h1, h2⟩ := ih { st with mem := (p.1, p.2) :: st.mem }
    refine ⟨M', ?_, ?_⟩
    · rw [List.map_cons, applyWrs_cons]
      exact h1
    · rw [h2]
      show applyWrites ps (get ((p.1, p.2) :: st.mem)) = applyWrites ps (fun x => if x = p.1 then p.2 else get st.mem x)
      congr 1
      funext x
      exact get_cons _ _ _ _

/-- the 16 bytes per active lane of `flat_store_dwordx4 v[A:A+1], v[S:S+3]`, read off the view -/
def storePairs16 (V : View) (A S : Nat) : List (Nat × Nat) :=
  (lanesOf V.exec).flatMap fun l =>
    bytePairsM (vAddr V A l) 16
      (V.rv S l + V.rv (S + 1) l * 2 ^ (32 * 1) + V.rv (S + 2) l * 2 ^ (32 * 2) + V.rv (S + 3) l * 2 ^ (32 * 3))

theorem rvN4 (st : St) (r l : Nat) : st.rvN r l 4 =
    st.rv r l + st.rv (r + 1) l * 2 ^ (32 * 1) + st.rv (r + 2) l * 2 ^ (32 * 2) + st.rv (r + 3) l * 2 ^ (32 * 3) := by
  unfold St.rvN
  rw [show List.range 4 = [0, 1, 2, 3] from rfl]
  rw [List.foldl_cons, List.foldl_cons, List.foldl_cons, List.foldl_cons, List.foldl_nil]
  rw [Nat.zero_add, Nat.add_zero, Nat.mul_zero, Nat.pow_zero, Nat.mul_one]

theorem step_flat_store16 (P : Program) (hP : P.cdna3 = false) (base k A S : Nat) (hA : A + 1 < 256) (hS : S + 3 < 256)
    (hd : DecV ((P.code.drop k).take 8) 17 31 8) (name : String)
    (hex : ∀ st, exec false st (((P.code.drop k).take 8).take 8) =
      some (name, (activeLanes st).flatMap fun l => wrMemBytes (gAddr st A l) 16 (st.rvN S l ((16 + 3) / 4))))
    (st : St) (V : View) (L : Nat → Nat) (h : SeesL st V L) (hpc : V.pc = base + k) :
    ∃ st', step P base st = .ok (st', .next) ∧
      SeesL st' { V with pc := base + k + 8, mem := applyWrites (storePairs16 V A S) V.mem } L := by
  have hpc' : st.pc = base + k := h.sees.pc.trans hpc
  refine ⟨_, step_vec P hP base k st hpc' 17 31 8 hd (by omega) name _ (hex _), ?_⟩
  generalize hst1 : ({ st with pc := base + k + 8 } : St) = st1
  have h1 : Sees st1 { V with pc := base + k + 8 } := by rw [← hst1]; exact h.sees.setPc _
  have hlds1 : st1.rlds = L := by rw [← hst1]; exact funext h.lds
  have hws : ((activeLanes st1).flatMap fun l => wrMemBytes (gAddr st1 A l) 16 (st1.rvN S l ((16 + 3) / 4))) =
      (storePairs16 V A S).map fun p => (Cell.mem p.1, p.2) := by
    unfold storePairs16
    rw [List.map_flatMap, activeLanes_eq, h1.exec]
    apply flatMap_congr'
    intro l hl
    have hl64 : l < 64 := ((mem_lanesOf _ _).mp hl).1
    show wrMemBytes (gAddr st1 A l) 16 (st1.rvN S l 4) = _
    rw [wrMemBytes_eq, gAddr_eq, rvN4, h1.rv A l (by omega) hl64, h1.rv (A + 1) l hA hl64, h1.rv S l (by omega) hl64,
      h1.rv (S + 1) l (by omega) hl64, h1.rv (S + 2) l (by omega) hl64, h1.rv (S + 3) l hS hl64]
    rfl
  rw [hws]
  obtain ⟨M', hM, hg⟩ := applyWrs_mem (storePairs16 V A S) st1
  rw [hM]
  refine ⟨⟨h1.ssz, h1.vsz, h1.pc, h1.exec, h1.vcc, h1.rs, h1.rv, fun a => ?_⟩, fun a => ?_⟩
  · show get M' a = _
    rw [hg]
    have : get st1.mem = V.mem := funext h1.mem
    rw [this]
  · show st1.rlds a = L a
    rw [hlds1]

/-! ## the shipped bytes: first load (byte 320) and first store (byte 608) -/
theorem ttw320 : ttWin 320 = [0x0, 0x0, 0x5c, 0xdc, 0x2, 0x0, 0x0, 0x2] := by decide +kernel
theorem ttx320 (st : St) : exec false st [0x0, 0x0, 0x5c, 0xdc, 0x2, 0x0, 0x0, 0x2] =
    some ("load_dwordx4", (activeLanes st).flatMap fun l => wrVN 2 l (16 / 4) (st.memRead (gAddr st 2 l) 16)) := rfl
theorem ttw608 : ttWin 608 = [0x0, 0x0, 0x7c, 0xdc, 0x15, 0x8, 0x0, 0x0] := by decide +kernel
theorem ttx608 (st : St) : exec false st [0x0, 0x0, 0x7c, 0xdc, 0x15, 0x8, 0x0, 0x0] =
    some ("store_dwordx4", (activeLanes st).flatMap fun l => wrMemBytes (gAddr st 21 l) 16 (st.rvN 8 l ((16 + 3) / 4))) := rfl

end Emu
end C01
