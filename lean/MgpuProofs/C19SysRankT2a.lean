import MgpuProofs.C19SysRank
/-! # C19 — the closed system: the progress measure under the driver's stages `sendToGPUs`, `sendToMMU`,
    `sendMigrationReqToCP`, `parseFromMMU` and `processReturnReq` on every answer but a shootdown
    acknowledgement (`rank_sGpu`, `rank_sMmu`, `rank_sMig`, `rank_parse`, `rank_ret_other`).

Only `s.drv` changes and neither `migLog` nor `ngpu` does, so the GPUs' sum, the world and the completions
on their way back weigh the same (`t2a_L`); what remains is the driver's own part `t2a_dl` of `L` and `R`
(`t2a_R`, `t2a_curRem`: `curRem` read off the phase's counter). No gaps: all five statements are proved. -/
namespace C19
namespace SY
open CP (Cp Cls K Sub Cmd Ans)
open DR (Drv MmuReq MigCmd)

theorem t2a_pigeon : ∀ (n : Nat) (l : List Nat), l.Nodup → (∀ x ∈ l, x < n) → l.length ≤ n := by
  intro n
  induction n with
  | zero =>
    intro l _ h
    cases l with
    | nil => simp
    | cons a t => exact absurd (h a List.mem_cons_self) (by omega)
  | succ n ih =>
    intro l hn h
    have h1 := ih (l.erase n) (hn.erase n) (fun x hx => by
      have hx' := (hn.mem_erase_iff).1 hx
      have := h x hx'.2
      omega)
    by_cases hm : n ∈ l
    · rw [List.length_erase_of_mem hm] at h1; omega
    · rw [List.erase_of_not_mem hm] at h1; omega

theorem t2a_wmOf {d d' : Drv} (h : d'.migLog = d.migLog) : wmOf d' = wmOf d := by
  funext id; unfold wmOf; rw [h]

/-- the driver's own part of `L`, the weights read off `s` -/
def t2a_dl (s : Sys) (d : Drv) : Nat :=
  sumN (d.toSend.map fun e => wq s e + 2) + sumN (d.gpuOut.map fun e => wq s e + 1) + d.gpuIn.length +
  (if d.toMMU.isSome then 2 else 0) + d.mmuOut.length

theorem t2a_L (s : Sys) (d' : Drv) (hm : d'.migLog = s.drv.migLog) (hn : d'.ngpu = s.drv.ngpu) :
    L { s with drv := d' } =
      t2a_dl s d' + gsum s + measure s.w.sys + 5 * s.w.live.length + 4 * (s.back 0 + s.back 1) := by
  have hw : wmOf d' = wmOf s.drv := t2a_wmOf hm
  have hq : (fun e => wq { s with drv := d' } e) = fun e => wq s e := by
    funext e; unfold wq; show wCmd (s.cp e.1) (wmOf d') e.2 = _; rw [hw]
  have hg : gsum { s with drv := d' } = gsum s := by
    unfold gsum; show sumN ((List.range d'.ngpu).map fun g => gmeas (wmOf d') (s.cp g) (s.cm g)) = _
    rw [hw, hn]
  unfold L drvL t2a_dl
  rw [hg]
  simp only [hq]

theorem t2a_L0 (s : Sys) :
    L s = t2a_dl s s.drv + gsum s + measure s.w.sys + 5 * s.w.live.length + 4 * (s.back 0 + s.back 1) := rfl

theorem t2a_L_lt (s : Sys) (d' : Drv) (hm : d'.migLog = s.drv.migLog) (hn : d'.ngpu = s.drv.ngpu)
    (h : t2a_dl s d' < t2a_dl s s.drv) : L { s with drv := d' } < L s := by
  rw [t2a_L s d' hm hn, t2a_L0 s]; omega

theorem t2a_R (s : Sys) (d' : Drv) (hn : d'.ngpu = s.drv.ngpu) :
    R { s with drv := d' } = curRem d' + sumN (d'.mmuIn.map fun r => 2 * pagesN s.drv r + 7) := by
  unfold R pagesN
  show curRem d' + sumN (d'.mmuIn.map fun r => 2 * (migOrder d'.ngpu r.map).length + 7) = _
  rw [hn]

def t2a_ph (d : Drv) (r : MmuReq) : PK → Nat
  | .drain => 2 * pagesN d r + 5
  | .shoot => 2 * pagesN d r + 4
  | .mig => 2 * d.toCP.length + (if d.one then 1 else 0) + 2
  | .restart => 2
  | .rdma => 1

theorem t2a_curRem {d : Drv} {r : MmuReq} {p : PK} {n : Nat} (hc : d.cur = some r) (hn : 0 < n)
    (h : Ctrs d (some p) n) : curRem d = t2a_ph d r p := by
  obtain ⟨c1, c2, c3, c4, c5⟩ := h
  unfold curRem
  rw [hc]
  have hn' : ¬ (n = 0) := by omega
  cases p <;> simp [c1, c2, c3, c4, c5, t2a_ph, hn]

theorem t2a_curRem_none {d : Drv} (hc : d.cur = none) : curRem d = 0 := by
  unfold curRem; rw [hc]

theorem t2a_sum_snoc (f : (Nat × Cmd) → Nat) (l : List (Nat × Cmd)) (a : Nat × Cmd) :
    sumN ((l ++ [a]).map f) = sumN (l.map f) + f a := by
  simp [sumN]

theorem t2a_sum_cons (f : (Nat × Cmd) → Nat) (l : List (Nat × Cmd)) (a : Nat × Cmd) :
    sumN ((a :: l).map f) = f a + sumN (l.map f) := by
  simp [sumN]

theorem t2a_R0 (s : Sys) : R s = curRem s.drv + sumN (s.drv.mmuIn.map fun r => 2 * pagesN s.drv r + 7) := by
  unfold R; rfl

theorem t2a_curRem_congr {d d' : Drv} (h0 : d'.cur = d.cur) (h1 : d'.drain = d.drain) (h2 : d'.shoot = d.shoot)
    (h3 : d'.mig = d.mig) (h4 : d'.restart = d.restart) (h5 : d'.rdma = d.rdma) (h6 : d'.toCP = d.toCP)
    (h7 : d'.one = d.one) (h8 : d'.ngpu = d.ngpu) : curRem d' = curRem d := by
  unfold curRem pagesN
  rw [h0, h1, h2, h3, h4, h5, h6, h7, h8]

/-- `R` unchanged, the driver's part of `L` smaller -/
theorem t2a_decL (s : Sys) (d' : Drv) (P : Prop) (hm : d'.migLog = s.drv.migLog) (hn : d'.ngpu = s.drv.ngpu)
    (hmi : d'.mmuIn = s.drv.mmuIn) (hcur : curRem d' = curRem s.drv) (hL : t2a_dl s d' < t2a_dl s s.drv) :
    LexLe (rank { s with drv := d' }) (rank s) ∧ (P → LexLt (rank { s with drv := d' }) (rank s)) := by
  have hR : R { s with drv := d' } = R s := by rw [t2a_R s d' hn, t2a_R0 s, hmi, hcur]
  have hL' := t2a_L_lt s d' hm hn hL
  unfold LexLe LexLt rank
  exact ⟨Or.inr ⟨hR, Nat.le_of_lt hL'⟩, fun _ => Or.inr ⟨hR, hL'⟩⟩

/-- `R` smaller -/
theorem t2a_decR (s : Sys) (d' : Drv) (P : Prop) (hn : d'.ngpu = s.drv.ngpu)
    (hR : curRem d' + sumN (d'.mmuIn.map fun r => 2 * pagesN s.drv r + 7) <
      curRem s.drv + sumN (s.drv.mmuIn.map fun r => 2 * pagesN s.drv r + 7)) :
    LexLe (rank { s with drv := d' }) (rank s) ∧ (P → LexLt (rank { s with drv := d' }) (rank s)) := by
  have hR' : R { s with drv := d' } < R s := by rw [t2a_R s d' hn, t2a_R0 s]; exact hR
  unfold LexLe LexLt rank
  exact ⟨Or.inl hR', fun _ => Or.inl hR'⟩

theorem t2a_w1 {a b : Nat × Nat} {P : Prop} (h : LexLe a b ∧ (True → LexLt a b)) :
    LexLe a b ∧ (P → LexLt a b) := ⟨h.1, fun _ => h.2 trivial⟩

theorem t2a_w2 {a b : Nat × Nat} {P Q : Prop} (h : LexLe a b ∧ (True → LexLt a b)) :
    LexLe a b ∧ (P → Q → LexLt a b) := ⟨h.1, fun _ _ => h.2 trivial⟩

/-! ## `sendToGPUs` -/

theorem t2a_room {s : Sys} (I : Inv s) (hts : s.drv.toSend ≠ []) : s.drv.gpuOut.length < s.drv.capGpuOut := by
  have hcap := I.caps.2
  rcases I.ph with ⟨di, _, _, _⟩ | ⟨p, r, σ, loc, hp, hh, hc, hr, hct, htc, ho, hb, hw, hm, hpg, hrh⟩ |
      ⟨r, fl, ws, _, _, _, _, mp, _, _, _⟩
  · exact absurd di.toSend hts
  · have hw : σ.wait ≠ [] := by
      intro e; apply hts; rw [hb.toSend, e]; rfl
    have hwl : 0 < σ.wait.length := List.length_pos_iff.mpr hw
    have hlen : σ.all.length ≤ s.drv.ngpu := by
      apply t2a_pigeon _ _ (split_nodup hb.perm (targets_nodup hr p))
      intro x hx
      have hx' := hb.perm.mem_iff.1 hx
      cases p <;> simp only [targets] at hx'
      · exact List.mem_range.1 hx'
      · exact accT_lt hr hx'
      · cases hx'
      · exact accT_lt hr hx'
      · exact List.mem_range.1 hx'
    rw [hb.gpuOut, List.length_map]
    simp only [Split.all, List.length_append] at hlen
    omega
  · exact absurd mp.toSend hts

theorem rank_sGpu {s : Sys} (I : Inv s) :
    LexLe (rank { s with drv := s.drv.sGpu.1 }) (rank s) ∧
    (s.drv.toSend ≠ [] → LexLt (rank { s with drv := s.drv.sGpu.1 }) (rank s)) := by
  rw [c1_sGpu_eq _ I.nf]
  split
  · rename_i hts
    exact ⟨LexLe.refl _, fun h => absurd hts h⟩
  · rename_i m rest hts
    have hroom := t2a_room I (by rw [hts]; exact List.cons_ne_nil _ _)
    rw [if_pos hroom]
    refine t2a_decL s _ _ ?_ ?_ ?_ ?_ ?_
    · rfl
    · rfl
    · rfl
    · exact t2a_curRem_congr rfl rfl rfl rfl rfl rfl rfl rfl rfl
    · simp only [t2a_dl, hts, t2a_sum_snoc, t2a_sum_cons]
      omega

/-! ## `sendToMMU` -/

theorem rank_sMmu {s : Sys} (I : Inv s) :
    LexLe (rank { s with drv := s.drv.sMmu.1 }) (rank s) ∧
    (s.drv.toMMU ≠ none → s.drv.mmuOut = [] → LexLt (rank { s with drv := s.drv.sMmu.1 }) (rank s)) := by
  rw [c1_sMmu_eq _ I.nf]
  split
  · rename_i ht
    exact ⟨LexLe.refl _, fun h => absurd ht h⟩
  · rename_i a ht
    by_cases hl : s.drv.mmuOut.length < 1
    · rw [if_pos hl]
      refine ⟨?_, fun _ _ => ?_⟩
      · refine (t2a_decL s _ True ?_ ?_ ?_ ?_ ?_).1
        · rfl
        · rfl
        · rfl
        · exact t2a_curRem_congr rfl rfl rfl rfl rfl rfl rfl rfl rfl
        · simp only [t2a_dl, ht, List.length_append, List.length_cons, List.length_nil, Option.isSome_none,
            Option.isSome_some, Bool.false_eq_true, if_false, if_true]
          omega
      · refine (t2a_decL s _ True ?_ ?_ ?_ ?_ ?_).2 trivial
        · rfl
        · rfl
        · rfl
        · exact t2a_curRem_congr rfl rfl rfl rfl rfl rfl rfl rfl rfl
        · simp only [t2a_dl, ht, List.length_append, List.length_cons, List.length_nil, Option.isSome_none,
            Option.isSome_some, Bool.false_eq_true, if_false, if_true]
          omega
    · rw [if_neg hl]
      refine ⟨LexLe.refl _, fun _ h => ?_⟩
      rw [h] at hl; exact absurd (by decide) hl

/-! ## `sendMigrationReqToCP` -/

theorem rank_sMig {s : Sys} (I : Inv s) :
    LexLe (rank { s with drv := s.drv.sMig.1 }) (rank s) ∧
    (s.drv.toCP ≠ [] → s.drv.one = false → LexLt (rank { s with drv := s.drv.sMig.1 }) (rank s)) := by
  rw [c1_sMig_eq _ I.nf]
  split
  · rename_i htc
    exact ⟨LexLe.refl _, fun h => absurd htc h⟩
  · rename_i m rest htc
    by_cases ho : s.drv.one = true
    · rw [if_pos ho]
      exact ⟨LexLe.refl _, fun _ h => by rw [ho] at h; cases h⟩
    · rw [if_neg ho]
      have ho' : s.drv.one = false := by simpa using ho
      rcases I.ph with ⟨di, _, _, _⟩ | ⟨p, r, σ, loc, hp, hh, hc, hr, hct, htc', ho'', hb, hw, hm, hpg, hrh⟩ |
          ⟨r, fl, ws, hh, hc, hr, hct, mp, hw, hm, hrh⟩
      · rw [di.toCP] at htc; cases htc
      · rw [htc'] at htc; cases htc
      · have hfl : fl = none := by
          have := mp.one; rw [ho'] at this
          cases fl with
          | none => rfl
          | some x => cases this
        subst hfl
        have hroom : s.drv.gpuOut.length < s.drv.capGpuOut := by
          rw [mp.gpuOut]; simp only [flOut, List.length_nil]
          have := I.caps.2; have := I.ng.1; omega
        rw [if_pos hroom]
        refine t2a_w2 (t2a_decR s _ True ?_ ?_)
        · rfl
        · rw [t2a_curRem hc mp.pos hct, t2a_curRem (p := .mig) (n := s.drv.mig) (r := r) ?_ mp.pos ?_]
          · simp only [t2a_ph, htc, ho', List.length_cons, Bool.false_eq_true, if_false, if_true]
            omega
          · exact hc
          · exact c1_ctrs hct

/-! ## `parseFromMMU` -/

theorem rank_parse {s : Sys} (I : Inv s) :
    LexLe (rank { s with drv := s.drv.parse.1 }) (rank s) ∧
    (s.drv.handling = false → s.drv.mmuIn ≠ [] → LexLt (rank { s with drv := s.drv.parse.1 }) (rank s)) := by
  rw [c1_parse_eq _ I.nf]
  by_cases hh : s.drv.handling = true
  · rw [if_pos hh]
    exact ⟨LexLe.refl _, fun h => by rw [hh] at h; cases h⟩
  · rw [if_neg hh]
    split
    · rename_i hmi
      exact ⟨LexLe.refl _, fun _ h => absurd hmi h⟩
    · rename_i r rest hmi
      rcases I.ph with ⟨di, gi, hw, hm⟩ | ⟨_, _, _, _, _, hh', _, _, _, _, _, _, _, _, _, _⟩ |
          ⟨_, _, _, hh', _, _, _, _, _, _, _⟩
      rotate_left
      · exact absurd hh' hh
      · exact absurd hh' hh
      have hrest : rest = [] := by
        have := hm.cap.1; rw [hmi] at this
        cases rest with
        | nil => rfl
        | cons _ _ => simp only [List.length_cons] at this; omega
      subst hrest
      have hc := di.ctrs
      simp only [Ctrs, reduceCtorEq, ↓reduceIte] at hc
      have hng := I.ng
      have hd : (s.drv.drain + s.drv.ngpu) % CP.w64 = s.drv.ngpu := by
        rw [hc.1, Nat.zero_add, Nat.mod_eq_of_lt hng.2.1]
      have h1 : curRem s.drv = 0 := t2a_curRem_none di.cur
      have hpos : 0 < s.drv.ngpu := by omega
      refine t2a_w2 (t2a_decR s _ True ?_ ?_)
      · rfl
      · rw [h1, t2a_curRem (p := .drain) (n := s.drv.ngpu) (r := r) ?_ hpos ?_]
        · simp only [t2a_ph, hmi, sumN, List.map_cons, List.map_nil, List.sum_cons, List.sum_nil, pagesN]
          omega
        · rfl
        · exact ⟨by simp [hd], by simp [hc.2.1], by simp [hc.2.2.1], by simp [hc.2.2.2.1], by simp [hc.2.2.2.2]⟩

/-! ## `processReturnReq`, every answer but a shootdown acknowledgement -/

theorem t2a_ret_nil {s : Sys} (I : Inv s) (hin : s.drv.gpuIn = []) : s.drv.ret.1 = s.drv := by
  have hf : s.drv.fault.isSome = false := by rw [I.nf]; rfl
  unfold Drv.ret; rw [hf, hin]; rfl

theorem t2a_ph_congr {d d' : Drv} (r : MmuReq) (p : PK) (h6 : d'.toCP = d.toCP) (h7 : d'.one = d.one)
    (h8 : d'.ngpu = d.ngpu) : t2a_ph d' r p = t2a_ph d r p := by
  cases p <;> simp only [t2a_ph, pagesN, h6, h7, h8]

/-- not the last answer of a broadcast phase: one answer less in the port, `R` unchanged -/
theorem t2a_notlast {s : Sys} {p : PK} {r : MmuReq} {σ : Split} {loc : Nat → BLoc} (P : Prop)
    (hc : s.drv.cur = some r) (hct0 : Ctrs s.drv (some p) σ.open_) (hb : Bcast s p r σ loc)
    {b0 : Nat} {bk' : List Nat} (hbk : σ.bk = b0 :: bk') (dr sh mg rs rd : Nat)
    (hct : Ctrs { drain := dr, shoot := sh, mig := mg, restart := rs, rdma := rd } (some p) (σ.open_ - 1))
    (hne : σ.open_ - 1 ≠ 0) :
    LexLe (rank { s with drv := (c2_upd s.drv dr sh mg rs rd (List.replicate bk'.length (ansOf (cmdOf p r)))
      s.drv.toSend s.drv.cur s.drv.handling) }) (rank s) ∧
    (P → LexLt (rank { s with drv := (c2_upd s.drv dr sh mg rs rd (List.replicate bk'.length (ansOf (cmdOf p r)))
      s.drv.toSend s.drv.cur s.drv.handling) }) (rank s)) := by
  refine t2a_decL s _ _ ?_ ?_ ?_ ?_ ?_
  · rfl
  · rfl
  · rfl
  · rw [t2a_curRem hc hb.pos hct0, t2a_curRem (p := p) (n := σ.open_ - 1) (r := r) ?_ (by omega) ?_]
    · exact t2a_ph_congr r p rfl rfl rfl
    · exact hc
    · exact c1_ctrs hct
  · simp only [t2a_dl, hb.gpuIn, hbk, List.length_replicate, List.length_cons]
    omega

theorem rank_ret_other {s : Sys} (I : Inv s) (hns : ∀ rest, s.drv.gpuIn ≠ Ans.shoot :: rest) :
    LexLe (rank { s with drv := s.drv.ret.1 }) (rank s) ∧
    (s.drv.gpuIn ≠ [] → LexLt (rank { s with drv := s.drv.ret.1 }) (rank s)) := by
  have nf := I.nf
  have ng := I.ng
  by_cases hnil : s.drv.gpuIn = []
  · rw [t2a_ret_nil I hnil]
    exact ⟨LexLe.refl _, fun h => absurd hnil h⟩
  obtain ⟨a, rest, hin⟩ : ∃ a rest, s.drv.gpuIn = a :: rest := by
    cases hg : s.drv.gpuIn with
    | nil => exact absurd hg hnil
    | cons a rest => exact ⟨a, rest, rfl⟩
  cases I.ph with
  | idle di _ _ _ => exact absurd di.gpuIn hnil
  | bcast p r σ loc hp hh hc hr hct htc hone hb hw hm hpg hrh =>
    obtain ⟨hans, b0, bk', hbk, hrest⟩ := c2_head hb hin
    have hpos := hb.pos
    have hct0 := hct
    obtain ⟨c1, c2, c3, c4, c5⟩ := hct
    cases p
    · -- drain
      simp only [cmdOf, ansOf] at hans
      subst hans
      simp at c1 c2 c3 c4 c5
      by_cases hne : σ.open_ - 1 = 0
      · obtain ⟨hwt, hst, hat, rfl⟩ := c2_last hbk hne
        have hrest' : rest = [] := hrest
        subst hrest'
        have hts : s.drv.toSend = [] := by rw [hb.toSend, hwt]; rfl
        have e : s.drv.ret.1 = c2_upd s.drv 0 r.acc.length s.drv.mig s.drv.restart s.drv.rdma []
            ((accT r).map (fun g => (g, Cmd.shoot r.id))) s.drv.cur s.drv.handling := by
          rw [c2_ret_drain nf hin hc, c2_dec (by omega), c1, if_pos hne, hne, Nat.mod_eq_of_lt hr.accLt,
            c2_toAcc (.shoot r.id) r.acc { s.drv with drain := 0, gpuIn := [], shoot := r.acc.length } nf hr.accIn]
          simp only [hts, List.nil_append, accT, List.map_map]
          rfl
        rw [e]
        have hal : 0 < r.acc.length := List.length_pos_iff.2 hr.accNe
        refine t2a_w1 (t2a_decR s _ True ?_ ?_)
        · rfl
        · rw [t2a_curRem hc hpos hct0, t2a_curRem (p := .shoot) (n := r.acc.length) (r := r) ?_ hal ?_]
          · simp only [t2a_ph, pagesN]
            omega
          · exact hc
          · simp [Ctrs, c3, c4, c5]
      · subst hrest
        have e : s.drv.ret.1 = c2_upd s.drv (σ.open_ - 1) s.drv.shoot s.drv.mig s.drv.restart s.drv.rdma
            (List.replicate bk'.length (ansOf (cmdOf .drain r))) s.drv.toSend s.drv.cur s.drv.handling := by
          rw [c2_ret_drain nf hin hc, c2_dec (by omega), c1, if_neg hne]
          rfl
        rw [e]
        exact t2a_notlast _ hc hct0 hb hbk _ _ _ _ _ (by simp [Ctrs, c2, c3, c4, c5]) hne
    · -- shootdown: excluded
      simp only [cmdOf, ansOf] at hans
      subst hans
      exact absurd hin (hns rest)
    · exact absurd rfl hp
    · -- GPU restart
      simp only [cmdOf, ansOf] at hans
      subst hans
      simp at c1 c2 c3 c4 c5
      by_cases hne : σ.open_ - 1 = 0
      · obtain ⟨hwt, hst, hat, rfl⟩ := c2_last hbk hne
        have hrest' : rest = [] := hrest
        subst hrest'
        have hts : s.drv.toSend = [] := by rw [hb.toSend, hwt]; rfl
        have e : s.drv.ret.1 = c2_upd s.drv s.drv.drain s.drv.shoot s.drv.mig 0 s.drv.ngpu []
            ((List.range s.drv.ngpu).map (fun g => (g, Cmd.rdmaRestart))) s.drv.cur s.drv.handling := by
          rw [c2_ret_restart nf hin, c2_dec (by omega), c4, if_pos hne, hne, c5, Nat.zero_add,
            Nat.mod_eq_of_lt ng.2.1, hts, List.nil_append]
        rw [e]
        have hnp : 0 < s.drv.ngpu := by omega
        refine t2a_w1 (t2a_decR s _ True ?_ ?_)
        · rfl
        · rw [t2a_curRem hc hpos hct0, t2a_curRem (p := .rdma) (n := s.drv.ngpu) (r := r) ?_ hnp ?_]
          · simp only [t2a_ph]
            omega
          · exact hc
          · simp [Ctrs, c1, c2, c3]
      · subst hrest
        have e : s.drv.ret.1 = c2_upd s.drv s.drv.drain s.drv.shoot s.drv.mig (σ.open_ - 1) s.drv.rdma
            (List.replicate bk'.length (ansOf (cmdOf .restart r))) s.drv.toSend s.drv.cur s.drv.handling := by
          rw [c2_ret_restart nf hin, c2_dec (by omega), c4, if_neg hne]
          rfl
        rw [e]
        exact t2a_notlast _ hc hct0 hb hbk _ _ _ _ _ (by simp [Ctrs, c1, c2, c3, c5]) hne
    · -- RDMA restart
      simp only [cmdOf, ansOf] at hans
      subst hans
      simp at c1 c2 c3 c4 c5
      by_cases hne : σ.open_ - 1 = 0
      · obtain ⟨hwt, hst, hat, rfl⟩ := c2_last hbk hne
        have hrest' : rest = [] := hrest
        subst hrest'
        have e : s.drv.ret.1 = c2_upd s.drv s.drv.drain s.drv.shoot s.drv.mig s.drv.restart 0 []
            s.drv.toSend none false := by
          rw [c2_ret_rdma nf hin, c2_dec (by omega), c5, if_pos hne, hne]
        rw [e]
        refine t2a_w1 (t2a_decR s _ True ?_ ?_)
        · rfl
        · rw [t2a_curRem hc hpos hct0, t2a_curRem_none (d := c2_upd _ _ _ _ _ _ _ _ _ _) rfl]
          simp only [t2a_ph]
          omega
      · subst hrest
        have e : s.drv.ret.1 = c2_upd s.drv s.drv.drain s.drv.shoot s.drv.mig s.drv.restart (σ.open_ - 1)
            (List.replicate bk'.length (ansOf (cmdOf .rdma r))) s.drv.toSend s.drv.cur s.drv.handling := by
          rw [c2_ret_rdma nf hin, c2_dec (by omega), c5, if_neg hne]
          rfl
        rw [e]
        exact t2a_notlast _ hc hct0 hb hbk _ _ _ _ _ (by simp [Ctrs, c1, c2, c3, c4]) hne
  | mig r fl ws hh hc rq ct mp wi mi rh =>
    have hg := mp.gpuIn
    rw [hin] at hg
    obtain ⟨m, rfl, rfl, rfl⟩ : ∃ m, fl = some (m, .bk) ∧ a = .mig ∧ rest = [] := by
      rcases fl with _ | ⟨m, at_⟩
      · simp [flIn] at hg
      · cases at_ with
        | sent => simp [flIn] at hg
        | atG l => simp [flIn] at hg
        | bk =>
          simp only [flIn, List.cons.injEq] at hg
          exact ⟨m, rfl, hg.1, hg.2⟩
    have hmig : s.drv.mig = s.drv.toCP.length + 1 := mp.ctr
    have hone : s.drv.one = true := mp.one
    have h0 := t2a_curRem hc mp.pos ct
    obtain ⟨c1, c2, c3, c4, c5⟩ := ct
    obtain ⟨d0, l0, _, _, hrel, _, _, _⟩ := c4_rel I hone
    by_cases he : s.drv.toCP = []
    · have hd : CP.dec s.drv.mig = 0 := by rw [hmig, c4_dec_succ, he]; rfl
      have hr0 : s.drv.restart = 0 := by simpa using c4
      have htm : s.drv.toMMU = none := (mi.fresh (by simp)).1
      have hal : 0 < r.acc.length := List.length_pos_iff.2 rq.accNe
      rw [c4_ret_zero s.drv [] r _ nf hin hone hrel hd hc hr0 rq.accLt rq.accIn htm]
      refine t2a_w1 (t2a_decR s _ True ?_ ?_)
      · rfl
      · rw [h0, t2a_curRem (p := .restart) (n := r.acc.length) (r := r) ?_ hal ?_]
        · simp only [t2a_ph, he, hone, List.length_nil, if_true]
          omega
        · exact hc
        · exact ⟨c1, c2, rfl, by simp, c5⟩
    · have hpos : 0 < s.drv.toCP.length := List.length_pos_iff.mpr he
      have hdec : CP.dec s.drv.mig = s.drv.toCP.length := by rw [hmig, c4_dec_succ]
      have hd : CP.dec s.drv.mig ≠ 0 := by rw [hdec]; omega
      rw [c4_ret_ne s.drv [] _ nf hin hone hrel hd]
      refine t2a_w1 (t2a_decR s _ True ?_ ?_)
      · rfl
      · rw [h0, t2a_curRem (p := .mig) (n := CP.dec s.drv.mig) (r := r) ?_ (by omega) ?_]
        · simp only [t2a_ph, hone, Bool.false_eq_true, if_false, if_true]
          omega
        · exact hc
        · exact ⟨c1, c2, by simp, c4, c5⟩

end SY
end C19
