import MgpuProofs.C09CUPool
/-! # C09, timing compute unit — the protocol invariant
`TInv`: a WGCompletionMsg is in the trace iff every wavefront of its MapWGReq is Completed, at most
once, to the requester; the pools hold exactly the wavefronts of the unanswered requests. -/
namespace C09.CUSide

def shapes (s : TState) : List Shape := s.wgs.map fun g => (g.id, g.wfs.map (·.simd))
def sentIds (s : TState) : List Nat := s.sent.map (·.1)
def AllDone (g : WG) : Prop := ∀ w ∈ g.wfs, w.st = .done

structure TInv (s : TState) : Prop where
  ids : ((shapes s).map (·.1)).Nodup
  sentKnown : ∀ p ∈ s.sent, ∃ g ∈ s.wgs, g.id = p.1 ∧ g.src = p.2
  sentNodup : (sentIds s).Nodup
  sentIff : ∀ g ∈ s.wgs, g.id ∈ sentIds s ↔ AllDone g
  nonempty : ∀ g ∈ s.wgs, g.wfs ≠ []
  pool : PoolInv (shapes s) (sentIds s) s.pools
  noFault : s.fault = none

/-- state of wavefront `w` of request `id` -/
def wfSt (s : TState) (id w : Nat) : Option WSt := (findWG s id).bind fun g => g.wfs[w]?.map (·.st)

/-- what the dispatcher and the CU's own arbiters guarantee: fresh request ids with at least one
    wavefront and SIMD ids of this CU; only Ready wavefronts are issued; only an issued (Running)
    wavefront has its instruction evaluated -/
def TLegal (s : TState) : TOp → Prop
  | .map id _ simds => id ∉ s.wgs.map (·.id) ∧ simds ≠ [] ∧ ∀ x ∈ simds, x < s.pools.length
  | .issue id w => wfSt s id w = some .ready
  | .nop id w => wfSt s id w = some .running
  | .endp id w => wfSt s id w = some .running
  | .bar id w => wfSt s id w = some .running
  | .room _ => True

theorem setSt_get (wfs : List Wf) (w j : Nat) (st : WSt) :
    (setSt wfs w st)[j]? = if w = j then wfs[j]?.map (fun x => { x with st := st }) else wfs[j]? :=
  getElem?_updAt _ _ _ _

theorem map_simd_setSt (wfs : List Wf) (w : Nat) (st : WSt) :
    (setSt wfs w st).map (·.simd) = wfs.map (·.simd) := by
  apply List.ext_getElem?
  intro j
  rw [List.getElem?_map, List.getElem?_map, setSt_get]
  by_cases h : w = j
  · subst h; cases wfs[w]? <;> simp
  · simp [h]

theorem map_simd_release (wfs : List Wf) : (release wfs).map (·.simd) = wfs.map (·.simd) := by
  induction wfs with
  | nil => rfl
  | cons a l ih =>
    simp only [release, List.map_cons] at ih ⊢
    rw [ih]; split <;> rfl

theorem release_get (wfs : List Wf) (j : Nat) :
    (release wfs)[j]? = wfs[j]?.map (fun x => if x.st = .done then x else { x with st := .ready }) := by
  simp [release]

theorem shapes_map (wgs : List WG) (h : WG → WG) (hid : ∀ g, (h g).id = g.id)
    (hsimd : ∀ g, (h g).wfs.map (·.simd) = g.wfs.map (·.simd)) :
    (wgs.map h).map (fun g => ((g.id, g.wfs.map (·.simd)) : Shape)) =
      wgs.map (fun g => ((g.id, g.wfs.map (·.simd)) : Shape)) := by
  rw [List.map_map]
  apply List.map_congr_left
  intro g _
  simp [hid, hsimd]

theorem wgs_ids (s : TState) : (shapes s).map (·.1) = s.wgs.map (·.id) := by
  simp [shapes, List.map_map, Function.comp_def]

theorem found {s : TState} {id : Nat} {g0 : WG} (h : findWG s id = some g0) : g0 ∈ s.wgs ∧ g0.id = id := by
  refine ⟨List.mem_of_find?_eq_some h, ?_⟩
  have := List.find?_some h
  simpa using this

theorem found_unique {s : TState} (hI : TInv s) {id : Nat} {g0 g : WG} (h : findWG s id = some g0)
    (hg : g ∈ s.wgs) (hid : g.id = id) : g = g0 := by
  have hf := found h
  have hn := hI.ids
  rw [wgs_ids] at hn
  exact uniq_of_nodup_map (·.id) s.wgs hn g hg g0 hf.1 (by rw [hid, hf.2])

theorem legal_found {s : TState} {id w : Nat} {st : WSt} (h : wfSt s id w = some st) :
    ∃ g0 x, findWG s id = some g0 ∧ g0.wfs[w]? = some x ∧ x.st = st := by
  unfold wfSt at h
  cases hf : findWG s id with
  | none => simp [hf] at h
  | some g0 =>
    simp only [hf, Option.bind_some] at h
    cases hx : g0.wfs[w]? with
    | none => simp [hx] at h
    | some x => exact ⟨g0, x, rfl, hx, by simpa [hx] using h⟩

/-- an update of the wavefront states that keeps ids, requesters and SIMDs and does not change
    whether a work-group has ended keeps the invariant -/
theorem tinv_upd {s : TState} (hI : TInv s) (h : WG → WG)
    (hid : ∀ g, (h g).id = g.id) (hsrc : ∀ g, (h g).src = g.src)
    (hsimd : ∀ g, (h g).wfs.map (·.simd) = g.wfs.map (·.simd))
    (hdone : ∀ g ∈ s.wgs, (AllDone (h g) ↔ AllDone g)) :
    TInv { s with wgs := s.wgs.map h } := by
  have hsh : shapes { s with wgs := s.wgs.map h } = shapes s := shapes_map s.wgs h hid hsimd
  refine ⟨by rw [hsh]; exact hI.ids, ?_, hI.sentNodup, ?_, ?_, by rw [hsh]; exact hI.pool, hI.noFault⟩
  · intro p hp
    obtain ⟨g, hg, h1, h2⟩ := hI.sentKnown p hp
    exact ⟨h g, List.mem_map.mpr ⟨g, hg, rfl⟩, by rw [hid, h1], by rw [hsrc, h2]⟩
  · intro g' hg'
    obtain ⟨g, hg, rfl⟩ := List.mem_map.mp hg'
    rw [hid, hdone g hg]
    exact hI.sentIff g hg
  · intro g' hg'
    obtain ⟨g, hg, rfl⟩ := List.mem_map.mp hg'
    intro hc
    have := hsimd g
    rw [hc] at this
    exact hI.nonempty g hg (by simpa using this.symm)

/-- a wavefront that is not Completed -/
theorem not_allDone_of {g : WG} {j : Nat} {x : Wf} (hx : g.wfs[j]? = some x) (hst : x.st ≠ .done) :
    ¬ AllDone g := fun h => hst (h x (List.mem_of_getElem? hx))

theorem tinv_target {s : TState} (hI : TInv s) {id : Nat} {g0 : WG} (hf : findWG s id = some g0)
    (f : WG → WG) (hid : ∀ g, (f g).id = g.id) (hsrc : ∀ g, (f g).src = g.src)
    (hsimd : ∀ g, (f g).wfs.map (·.simd) = g.wfs.map (·.simd))
    (h0 : ¬ AllDone g0) (h1 : ¬ AllDone (f g0)) : TInv (onWG s id f) := by
  unfold onWG
  apply tinv_upd hI (fun g => if g.id = id then f g else g)
  · intro g; split <;> simp [hid]
  · intro g; split <;> simp [hsrc]
  · intro g; split <;> simp [hsimd]
  · intro g hg
    by_cases hgi : g.id = id
    · have := found_unique hI hf hg hgi
      subst this
      simp [hgi, h0, h1]
    · simp [hgi]

/-! ### the steps -/

theorem tinv_init (caps : List Nat) (room : Nat) : TInv (tinit caps room) := by
  refine ⟨by simp [tinit, shapes], by simp [tinit], by simp [tinit, sentIds], by simp [tinit],
    by simp [tinit], ?_, rfl⟩
  intro sd l hl
  simp only [tinit, List.getElem?_map] at hl
  cases h : caps[sd]? with
  | none => simp [h] at hl
  | some c =>
    simp only [h, Option.map_some, Option.some.injEq] at hl
    subst hl
    simp [shapes, tinit]

theorem shapes_add (s : TState) (pl : List (List (Nat × Nat))) (id src : Nat) (simds : List Nat) :
    shapes { s with pools := pl, wgs := s.wgs ++ [⟨id, src, simds.map fun x => ⟨x, .ready⟩⟩] }
      = shapes s ++ [(id, simds)] := by
  simp [shapes, List.map_map, Function.comp_def]

theorem tinv_map {s : TState} (hI : TInv s) (id src : Nat) (simds : List Nat)
    (hL : TLegal s (.map id src simds)) : TInv (mapWG s id src simds) := by
  obtain ⟨hfresh, hne, hrange⟩ := hL
  have hany : (simds.any fun x => decide (s.pools.length ≤ x)) = false := by
    rw [Bool.eq_false_iff]
    intro hc
    obtain ⟨x, hx, hx'⟩ := List.any_eq_true.mp hc
    have := hrange x hx
    simp at hx'
    omega
  unfold mapWG
  rw [hany]
  simp only [Bool.false_eq_true, if_false]
  have hns : id ∉ sentIds s := by
    intro hc
    obtain ⟨p, hp, hp1⟩ := List.mem_map.mp hc
    obtain ⟨g, hg, h1, _⟩ := hI.sentKnown p hp
    exact hfresh (List.mem_map.mpr ⟨g, hg, by rw [h1, hp1]⟩)
  have hsh := shapes_add s (addAll s.pools id simds 0) id src simds
  refine ⟨?_, ?_, hI.sentNodup, ?_, ?_, ?_, hI.noFault⟩
  · rw [hsh, List.map_append, List.nodup_append]
    refine ⟨hI.ids, by simp, ?_⟩
    intro a ha b hb hab
    simp only [List.map_cons, List.map_nil, List.mem_singleton] at hb
    subst hab; subst hb
    rw [wgs_ids] at ha
    exact hfresh ha
  · intro p hp
    obtain ⟨g, hg, h1, h2⟩ := hI.sentKnown p hp
    exact ⟨g, List.mem_append_left _ hg, h1, h2⟩
  · intro g hg
    rcases List.mem_append.mp hg with hg | hg
    · exact hI.sentIff g hg
    · simp only [List.mem_singleton] at hg
      subst hg
      constructor
      · intro hc; exact absurd hc hns
      · intro hd
        exfalso
        cases simds with
        | nil => exact hne rfl
        | cons x rest =>
          have := hd { simd := x, st := .ready } (by simp)
          simp at this
  · intro g hg
    rcases List.mem_append.mp hg with hg | hg
    · exact hI.nonempty g hg
    · simp only [List.mem_singleton] at hg
      subst hg
      simpa using hne
  · rw [hsh]
    have hf : id ∉ (shapes s).map (·.1) := by rw [wgs_ids]; exact hfresh
    exact poolInv_add hI.pool id simds hf hns

/-- the wavefronts other than `w` are all Completed -/
def OthersDone (wfs : List Wf) (w : Nat) : Prop := ∀ j x, wfs[j]? = some x → j ≠ w → x.st = .done

theorem others_done_iff (wfs : List Wf) (w : Nat) :
    ((wfs.eraseIdx w).all (fun x => decide (x.st = .done)) = true) ↔ OthersDone wfs w := by
  rw [List.all_eq_true]
  constructor
  · intro h j x hx hj
    have := h x (List.mem_eraseIdx_iff_getElem?.mpr ⟨j, hj, hx⟩)
    simpa using this
  · intro h x hx
    obtain ⟨j, hj, hjx⟩ := List.mem_eraseIdx_iff_getElem?.mp hx
    simpa using h j x hjx hj

theorem not_othersDone {wfs : List Wf} {w : Nat} (h : ¬ OthersDone wfs w) :
    ∃ j x, wfs[j]? = some x ∧ j ≠ w ∧ x.st ≠ .done := by
  false_or_by_contra
  rename_i hc
  apply h
  intro j x hx hj
  false_or_by_contra
  rename_i hc2
  exact hc ⟨j, x, hx, hj, hc2⟩

/-- the branch taken by `evalSEndPgm` -/
theorem endBranch_cases (g : WG) (w room : Nat) :
    (OthersDone g.wfs w ∧ ((room = 0 ∧ endBranch g w room = .retry) ∨ (room ≠ 0 ∧ endBranch g w room = .sent))) ∨
    (¬ OthersDone g.wfs w ∧ (endBranch g w room = .pass ∨ endBranch g w room = .completed ∨
      (endBranch g w room = .never ∧ (g.wfs.any fun x => decide (x.st = .running ∨ x.st = .ready)) = false))) := by
  unfold endBranch
  by_cases h1 : ((g.wfs.eraseIdx w).all fun x => decide (x.st = .done)) = true
  · left
    refine ⟨(others_done_iff _ _).mp h1, ?_⟩
    simp only [if_pos h1]
    by_cases h2 : room = 0
    · left; exact ⟨h2, if_pos h2⟩
    · right; exact ⟨h2, if_neg h2⟩
  · right
    refine ⟨fun hc => h1 ((others_done_iff _ _).mpr hc), ?_⟩
    simp only [if_neg h1]
    by_cases h2 : ((g.wfs.eraseIdx w).all fun x => decide (x.st = .barrier ∨ x.st = .done)) = true
    · left; exact if_pos h2
    · simp only [if_neg h2]
      by_cases h3 : (g.wfs.any fun x => decide (x.st = .running ∨ x.st = .ready)) = true
      · right; left; exact if_pos h3
      · right; right; exact ⟨if_neg h3, by simpa using h3⟩

theorem tinv_endp {s : TState} (hI : TInv s) (id w : Nat) (hL : TLegal s (.endp id w)) :
    TInv (endPgm s id w).1 := by
  obtain ⟨g0, x0, hf, hx0, hrun⟩ := legal_found hL
  have hw : ¬ g0.wfs.length ≤ w := by
    have := (List.getElem?_eq_some_iff.mp hx0).1; omega
  have h0 : ¬ AllDone g0 := not_allDone_of hx0 (by rw [hrun]; decide)
  have hfm := found hf
  have hany : (g0.wfs.any fun x => decide (x.st = .running ∨ x.st = .ready)) = true :=
    List.any_eq_true.mpr ⟨x0, List.mem_of_getElem? hx0, by simp [hrun]⟩
  unfold endPgm
  simp only [hf, hw, if_false]
  rcases endBranch_cases g0 w s.room with ⟨hothers, ⟨_, hb⟩ | ⟨_, hb⟩⟩ | ⟨hnot, hb | hb | ⟨_, hb⟩⟩
  · rw [hb]; exact hI
  · -- the message is sent
    rw [hb]
    simp only
    have hns : id ∉ sentIds s := by
      intro hc
      have := (hI.sentIff g0 hfm.1).mp (by rw [hfm.2]; exact hc)
      exact h0 this
    let f : WG → WG := fun g => if g.id = id then { g with wfs := setSt g.wfs w .done } else g
    have hfid : ∀ g, (f g).id = g.id := by intro g; simp only [f]; split <;> rfl
    have hfsrc : ∀ g, (f g).src = g.src := by intro g; simp only [f]; split <;> rfl
    have hfsimd : ∀ g, (f g).wfs.map (·.simd) = g.wfs.map (·.simd) := by
      intro g; simp only [f]; split
      · exact map_simd_setSt _ _ _
      · rfl
    have hsh : (s.wgs.map f).map (fun g => ((g.id, g.wfs.map (·.simd)) : Shape)) = shapes s :=
      shapes_map s.wgs f hfid hfsimd
    refine ⟨?_, ?_, ?_, ?_, ?_, ?_, hI.noFault⟩
    · show ((List.map (fun g => ((g.id, g.wfs.map (·.simd)) : Shape)) (s.wgs.map f)).map (·.1)).Nodup
      rw [hsh]; exact hI.ids
    · intro p hp
      show ∃ g ∈ s.wgs.map f, g.id = p.1 ∧ g.src = p.2
      rcases List.mem_append.mp hp with hp | hp
      · obtain ⟨g, hg, h1, h2⟩ := hI.sentKnown p hp
        exact ⟨f g, List.mem_map.mpr ⟨g, hg, rfl⟩, by rw [hfid, h1], by rw [hfsrc, h2]⟩
      · simp only [List.mem_singleton] at hp
        subst hp
        exact ⟨f g0, List.mem_map.mpr ⟨g0, hfm.1, rfl⟩, by rw [hfid, hfm.2], by rw [hfsrc]⟩
    · show ((s.sent ++ [(id, g0.src)]).map (·.1)).Nodup
      rw [List.map_append, List.nodup_append]
      refine ⟨hI.sentNodup, by simp, ?_⟩
      intro a ha b hb hab
      simp only [List.map_cons, List.map_nil, List.mem_singleton] at hb
      subst hab; subst hb
      exact hns ha
    · intro g' hg'
      show g'.id ∈ (s.sent ++ [(id, g0.src)]).map (·.1) ↔ AllDone g'
      obtain ⟨g, hg, rfl⟩ := List.mem_map.mp hg'
      rw [hfid, List.map_append, List.mem_append]
      by_cases hgi : g.id = id
      · have := found_unique hI hf hg hgi
        subst this
        constructor
        · intro _ x hx
          simp only [hgi, if_true] at hx
          obtain ⟨j, hj⟩ := List.mem_iff_getElem?.mp hx
          rw [setSt_get] at hj
          by_cases hwj : w = j
          · subst hwj
            simp only [if_true, hx0, Option.map_some, Option.some.injEq] at hj
            rw [← hj]
          · simp only [hwj, if_false] at hj
            exact hothers j x hj (Ne.symm hwj)
        · intro _; right; simp [hgi]
      · simp only [hgi, if_false]
        constructor
        · rintro (h | h)
          · exact (hI.sentIff g hg).mp h
          · simp at h; exact absurd h hgi
        · intro h; left; exact (hI.sentIff g hg).mpr h
    · intro g' hg'
      obtain ⟨g, hg, rfl⟩ := List.mem_map.mp hg'
      intro hc
      have := hfsimd g
      rw [hc] at this
      exact hI.nonempty g hg (by simpa using this.symm)
    · show PoolInv ((s.wgs.map f).map (fun g => ((g.id, g.wfs.map (·.simd)) : Shape)))
        ((s.sent ++ [(id, g0.src)]).map (·.1)) (clearAll s.pools id (g0.wfs.map (·.simd)) 0)
      rw [hsh, List.map_append]
      have hin : (id, g0.wfs.map (·.simd)) ∈ shapes s :=
        List.mem_map.mpr ⟨g0, hfm.1, by rw [hfm.2]⟩
      exact poolInv_clear hI.pool id _ hin hI.ids
  · -- the others wait at the barrier: released, this one Completed
    rw [hb]
    simp only
    obtain ⟨j, x, hx, hj, hst⟩ := not_othersDone hnot
    apply tinv_target hI hf (fun g => { g with wfs := setSt (release g.wfs) w .done })
      (fun _ => rfl) (fun _ => rfl) (fun g => by simp only; rw [map_simd_setSt, map_simd_release]) h0
    refine not_allDone_of (j := j) (x := { x with st := .ready }) ?_ (by simp)
    show (setSt (release g0.wfs) w .done)[j]? = some _
    rw [setSt_get, release_get]; simp [Ne.symm hj, hx, hst]
  · -- somebody else still executes
    rw [hb]
    simp only
    obtain ⟨j, x, hx, hj, hst⟩ := not_othersDone hnot
    apply tinv_target hI hf (fun g => { g with wfs := setSt g.wfs w .done })
      (fun _ => rfl) (fun _ => rfl) (fun g => map_simd_setSt _ _ _) h0
    refine not_allDone_of (j := j) (x := x) ?_ hst
    show (setSt g0.wfs w .done)[j]? = some x
    rw [setSt_get]; simp [Ne.symm hj, hx]
  · rw [hany] at hb; cases hb

end C09.CUSide
