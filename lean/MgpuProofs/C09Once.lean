import MgpuProofs.C09Once1
import MgpuProofs.C09Res
/-! # C09 — "exactly once" accounting of the dispatchers: `DCI` is an invariant of every run, and the
    step-level consequences (`map_in_grid_order`, `rsp_only_when_complete`, `completion_counted_once`). -/
namespace C09

/-- build `DC` for a dispatcher that is busy with `k` -/
theorem DC_busy (n : Nat) (d : Disp) (k : Kern) (hk : d.kern = some k)
    (algK : d.alg.kern = some k)
    (cnt : d.nd + (if d.currWG.isSome then 1 else 0) = d.alg.numDispatched)
    (le : d.alg.numDispatched ≤ k.numWG)
    (fl : d.nc + d.inflight.length = d.nd)
    (cur : ∀ dl, d.currWG = some dl → dl.launch = k.id ∧ dl.idx = d.nd)
    (acur : ∀ key idx, d.alg.currWG = some (key, idx) →
      idx = d.alg.numDispatched ∧ d.alg.pos = idx + 1 ∧ idx < k.numWG)
    (apos : d.alg.currWG = none → d.alg.pos = d.alg.numDispatched)
    (ids : (d.inflight.map (·.1)).Nodup) (idlt : ∀ e ∈ d.inflight, e.1 < n) : DC n d := by
  have hk2 : ∀ k2, d.kern = some k2 → k2 = k := by
    intro k2 h2; rw [hk] at h2; injection h2 with h2; exact h2.symm
  exact {
    idle := by intro h; rw [hk] at h; cases h
    algK := by intro k2 h2; rw [hk2 k2 h2]; exact algK
    cnt := fun _ _ => cnt
    le := by intro k2 h2; rw [hk2 k2 h2]; exact le
    fl := fun _ _ => fl
    cur := by intro k2 dl h2; rw [hk2 k2 h2]; exact cur dl
    acur := by intro k2 key idx h2; rw [hk2 k2 h2]; exact acur key idx
    apos := fun _ _ => apos
    ids := ids
    idlt := idlt }

/-- the dispatcher after `algorithm.Next` and `d.currWG = result` -/
theorem DC_after_alg (n : Nat) (d : Disp) (k : Kern) (a' : Alg) (res : Option DLoc) (hd : DC n d)
    (hk : d.kern = some k) (hcw : d.currWG = none) (hn : d.alg.hasNext = true)
    (hstep : AlgStep d.alg a' res) : DC n { d with alg := a', currWG := res } := by
  have hak := hd.algK k hk
  have hcnt := hd.cnt k hk
  simp [hcw] at hcnt
  have hlt : d.alg.numDispatched < k.numWG := by simpa [Alg.hasNext, Alg.numWG, hak] using hn
  obtain ⟨hk', hs⟩ := hstep
  obtain ⟨hsome, hnone⟩ := hs k hak
  cases res with
  | none =>
    obtain ⟨e1, f1, f2⟩ := hnone rfl
    refine DC_busy n _ k hk (hk'.trans hak) ?_ ?_ (hd.fl k hk) ?_ ?_ ?_ hd.ids hd.idlt
    · show d.nd + 0 = a'.numDispatched; rw [e1]; simpa using hcnt
    · show a'.numDispatched ≤ _; rw [e1]; omega
    · intro dl h; cases h
    · intro key idx hc'
      have hc' : a'.currWG = some (key, idx) := hc'
      show idx = a'.numDispatched ∧ a'.pos = idx + 1 ∧ idx < k.numWG
      cases hac : d.alg.currWG with
      | none =>
        obtain ⟨⟨key', hkey'⟩, hp⟩ := f1 hac
        rw [hkey'] at hc'; injection hc' with hc'; injection hc' with _ hidx
        have := hd.apos k hk hac
        omega
      | some w =>
        obtain ⟨g1, g2⟩ := f2 w hac
        rw [g1] at hc'; injection hc' with hc'; subst hc'
        have := hd.acur k key idx hk hac
        omega
    · intro hc'
      have hc' : a'.currWG = none := hc'
      cases hac : d.alg.currWG with
      | none => obtain ⟨⟨key', hkey'⟩, _⟩ := f1 hac; rw [hkey'] at hc'; cases hc'
      | some w => obtain ⟨g1, _⟩ := f2 w hac; rw [g1] at hc'; cases hc'
  | some dl =>
    obtain ⟨e0, e1, e2, f1, f2⟩ := hsome dl rfl
    have hidx : dl.idx = d.nd ∧ a'.pos = a'.numDispatched := by
      cases hac : d.alg.currWG with
      | none => have := f1 hac; have := hd.apos k hk hac; omega
      | some w =>
        obtain ⟨key, idx⟩ := w
        have := f2 key idx hac; have := hd.acur k key idx hk hac; omega
    refine DC_busy n _ k hk (hk'.trans hak) ?_ ?_ (hd.fl k hk) ?_ ?_ ?_ hd.ids hd.idlt
    · show d.nd + 1 = a'.numDispatched; omega
    · show a'.numDispatched ≤ _; omega
    · intro dl' h; injection h with h; subst h; exact ⟨e0, hidx.1⟩
    · intro key idx hc'
      have hc' : a'.currWG = some (key, idx) := hc'
      rw [e1] at hc'; cases hc'
    · intro _; exact hidx.2

/-- first half of `dispatchNextWG`: obtain the work-group to send -/
def pre (cp : CP) (i : Nat) : CP × Option DLoc :=
  match (cp.disp i).currWG with
  | some dl => (cp, some dl)
  | none =>
    if (cp.disp i).alg.hasNext then
      let r := algNext cp i
      (r.1.setDisp i { r.1.disp i with currWG := r.2 }, r.2)
    else (cp, none)

/-- second half of `dispatchNextWG`: send the `MapWGReq` -/
def tailF (cp1 : CP) (i : Nat) (cur : Option DLoc) : CP × Bool :=
  match cur with
  | none => (cp1, false)
  | some dl =>
    if cp1.fault.isSome then (cp1, false) else
    if cp1.cuRoom = 0 then (cp1, false) else
    let d1 := cp1.disp i
    let id := cp1.nextReq
    let cp2 := ({ cp1 with cuRoom := cp1.cuRoom - 1, nextReq := id + 1 }).emit
                 (.map id dl.cu dl.launch dl.idx dl.locs)
    let cp3 := cp2.setDisp i { d1 with currWG := none, nd := d1.nd + 1,
                                       inflight := (id, dl) :: d1.inflight, cycleLeft := 0 }
    if dl.locs.length > 16 then ({ cp3 with fault := some "bounds" }, true) else (cp3, true)

theorem pre_some (cp : CP) (i : Nat) (dl : DLoc) (h : (cp.disp i).currWG = some dl) :
    pre cp i = (cp, some dl) := by
  unfold pre; simp only [h]

theorem pre_none_no (cp : CP) (i : Nat) (h : (cp.disp i).currWG = none)
    (hn : ¬ (cp.disp i).alg.hasNext = true) : pre cp i = (cp, none) := by
  unfold pre; simp only [h, hn]; rfl

theorem pre_none_yes (cp : CP) (i : Nat) (h : (cp.disp i).currWG = none)
    (hn : (cp.disp i).alg.hasNext = true) :
    pre cp i = ((algNext cp i).1.setDisp i { (algNext cp i).1.disp i with currWG := (algNext cp i).2 },
                (algNext cp i).2) := by
  unfold pre; simp only [h, hn]; rfl

theorem dispatchNextWG_eq (cp : CP) (i : Nat) :
    dispatchNextWG cp i = tailF (pre cp i).1 i (pre cp i).2 := by
  cases hc : (cp.disp i).currWG with
  | some dl => rw [pre_some cp i dl hc]; unfold dispatchNextWG; simp only [hc]; rfl
  | none =>
    by_cases hn : (cp.disp i).alg.hasNext = true
    · rw [pre_none_yes cp i hc hn]; unfold dispatchNextWG; simp only [hc, hn]; rfl
    · rw [pre_none_no cp i hc hn]; unfold dispatchNextWG; simp only [hc, hn]; rfl

theorem pre_spec (cp : CP) (i : Nat) (h : DCI cp) :
    DCI (pre cp i).1 ∧ ((pre cp i).1.disp i).currWG = (pre cp i).2 ∧
    (pre cp i).1.nextReq = cp.nextReq ∧ (pre cp i).1.log = cp.log ∧
    ((pre cp i).1.disp i).kern = (cp.disp i).kern ∧ ((pre cp i).1.disp i).nd = (cp.disp i).nd := by
  cases hcw : (cp.disp i).currWG with
  | some dl => rw [pre_some cp i dl hcw]; exact ⟨h, hcw, rfl, rfl, rfl, rfl⟩
  | none =>
    by_cases hn : (cp.disp i).alg.hasNext = true
    · rw [pre_none_yes cp i hcw hn]
      have hi : i < cp.disps.length := by
        by_cases hi : i < cp.disps.length
        · exact hi
        · rw [disp_oob cp i hi] at hn; simp [default, Alg.hasNext, Alg.numWG] at hn
      obtain ⟨a', hdj, hnr, hlog, hlen, hstep⟩ := algNext_shape cp i
      have hri : (algNext cp i).1.disp i = { cp.disp i with alg := a' } := by rw [hdj]; simp [hi]
      have hd1 : ∀ j, ((algNext cp i).1.setDisp i { (algNext cp i).1.disp i with currWG := (algNext cp i).2 }).disp j
          = if i = j ∧ i < cp.disps.length then { cp.disp i with alg := a', currWG := (algNext cp i).2 }
            else cp.disp j := by
        intro j
        rw [disp_setDisp, hlen]
        split
        · rw [hri]
        · rename_i hneg; rw [hdj j, if_neg hneg]
      have hdi := hd1 i
      simp only [hi, and_self, if_true] at hdi
      cases hk : (cp.disp i).kern with
      | none => have := ((h i).idle hk).2.2.2; rw [this] at hn; cases hn
      | some k =>
        refine ⟨DCI_frame i _ h (Nat.le_of_eq hnr.symm) hd1 ?_, ?_, hnr, hlog, ?_, ?_⟩
        · show DC (algNext cp i).1.nextReq _
          rw [hnr]
          exact DC_after_alg _ _ k a' _ (h i) hk hcw hn hstep
        · rw [hdi]
        · rw [hdi]; exact hk
        · rw [hdi]
    · rw [pre_none_no cp i hcw hn]; exact ⟨h, hcw, rfl, rfl, rfl, rfl⟩

theorem tail_spec (cp1 : CP) (i : Nat) (cur : Option DLoc) :
    ((tailF cp1 i cur).2 = false → (tailF cp1 i cur).1 = cp1) ∧
    ((tailF cp1 i cur).2 = true → ∃ dl, cur = some dl ∧
      (tailF cp1 i cur).1.log = .map cp1.nextReq dl.cu dl.launch dl.idx dl.locs :: cp1.log ∧
      (tailF cp1 i cur).1.nextReq = cp1.nextReq + 1 ∧
      ∀ j, (tailF cp1 i cur).1.disp j = if i = j ∧ i < cp1.disps.length then
        { cp1.disp i with currWG := none, nd := (cp1.disp i).nd + 1,
                          inflight := (cp1.nextReq, dl) :: (cp1.disp i).inflight, cycleLeft := 0 }
        else cp1.disp j) := by
  unfold tailF
  cases cur with
  | none => simp
  | some dl =>
    simp only []
    by_cases hf : cp1.fault.isSome = true
    · simp [hf]
    · by_cases hr : cp1.cuRoom = 0
      · simp [hf, hr]
      · by_cases hb : dl.locs.length > 16
        · simp only [hf, hr, hb, if_true, if_false]
          refine ⟨by simp, fun _ => ⟨dl, rfl, rfl, rfl, fun j => disp_setDisp _ i j _⟩⟩
        · simp only [hf, hr, hb, if_false]
          refine ⟨by simp, fun _ => ⟨dl, rfl, rfl, rfl, fun j => disp_setDisp _ i j _⟩⟩

theorem tail_DCI (cp1 : CP) (i : Nat) (cur : Option DLoc) (h : DCI cp1)
    (hcur : (cp1.disp i).currWG = cur) : DCI (tailF cp1 i cur).1 := by
  obtain ⟨s1, s2⟩ := tail_spec cp1 i cur
  cases hb : (tailF cp1 i cur).2 with
  | false => rw [s1 hb]; exact h
  | true =>
    obtain ⟨dl, rfl, _, hnr, hdj⟩ := s2 hb
    refine DCI_frame i _ h (by omega) hdj ?_
    rw [hnr]
    have hd := h i
    cases hk : (cp1.disp i).kern with
    | none => have := (hd.idle hk).1; rw [this] at hcur; cases hcur
    | some k =>
      have hcnt := hd.cnt k hk
      simp only [hcur, Option.isSome_some, if_true] at hcnt
      refine DC_busy _ _ k hk (hd.algK k hk) ?_ (hd.le k hk) ?_ ?_ (hd.acur k · · hk) (hd.apos k hk) ?_ ?_
      · show (cp1.disp i).nd + 1 + 0 = _; omega
      · show (cp1.disp i).nc + ((cp1.disp i).inflight.length + 1) = (cp1.disp i).nd + 1
        have := hd.fl k hk; omega
      · intro dl' h'; cases h'
      · show (List.map (·.1) ((cp1.nextReq, dl) :: (cp1.disp i).inflight)).Nodup
        rw [List.map_cons, List.nodup_cons]
        refine ⟨?_, hd.ids⟩
        intro hm
        obtain ⟨e, he, hee⟩ := List.mem_map.1 hm
        have := hd.idlt e he
        simp only at hee; omega
      · intro e he
        rcases List.mem_cons.1 he with he | he
        · subst he; simp
        · have := hd.idlt e he; omega

theorem dispatchNextWG_DCI (cp : CP) (i : Nat) (h : DCI cp) : DCI (dispatchNextWG cp i).1 := by
  rw [dispatchNextWG_eq]
  obtain ⟨h1, h2, _⟩ := pre_spec cp i h
  exact tail_DCI _ i _ h1 h2

/-- every `MapWGReq` of a dispatcher busy with `k` is for launch `k.id` and for the work-group whose index
    is the number mapped so far (`< numWG`), with a fresh request id; a failed attempt sends nothing -/
theorem map_in_grid_order (cp : CP) (i : Nat) (k : Kern) (h : DCI cp) (_hi : i < cp.disps.length)
    (hk : (cp.disp i).kern = some k) :
    ((dispatchNextWG cp i).2 = true → ∃ cu locs,
      (dispatchNextWG cp i).1.log = .map cp.nextReq cu k.id (cp.disp i).nd locs :: cp.log ∧
      (cp.disp i).nd < k.numWG ∧ ((dispatchNextWG cp i).1.disp i).nd = (cp.disp i).nd + 1 ∧
      (dispatchNextWG cp i).1.nextReq = cp.nextReq + 1) ∧
    ((dispatchNextWG cp i).2 = false → (dispatchNextWG cp i).1.log = cp.log) := by
  rw [dispatchNextWG_eq]
  obtain ⟨h1, h2, hnr, hlog, hkern, hnd⟩ := pre_spec cp i h
  obtain ⟨s1, s2⟩ := tail_spec (pre cp i).1 i (pre cp i).2
  constructor
  · intro hb
    obtain ⟨dl, hdl, hl, hn, hdj⟩ := s2 hb
    rw [hdl] at h2
    have hd1 := h1 i
    rw [hk] at hkern
    obtain ⟨c1, c2⟩ := hd1.cur k dl hkern h2
    have hcnt := hd1.cnt k hkern
    simp only [h2, Option.isSome_some, if_true] at hcnt
    have hle := hd1.le k hkern
    refine ⟨dl.cu, dl.locs, ?_, by omega, ?_, by omega⟩
    · rw [hl, hnr, hlog, c1, c2, hnd]
    · rw [hdj i]
      by_cases hi1 : i < (pre cp i).1.disps.length
      · simp only [hi1, and_self, if_true]; omega
      · exfalso
        have := disp_oob _ i hi1
        rw [this] at hkern; cases hkern
  · intro hb; rw [s1 hb]; exact hlog

theorem dispatchLoop_DCI (i : Nat) : ∀ (n : Nat) (cp : CP), DCI cp → DCI (dispatchLoop i n cp).1 := by
  intro n
  induction n with
  | zero => intro cp h; exact h
  | succ n ih =>
    intro cp h
    have h1 := dispatchNextWG_DCI cp i h
    simp only [dispatchLoop]
    by_cases hc : (!(dispatchNextWG cp i).2 || decide (((dispatchNextWG cp i).1.disp i).cycleLeft > 0)
        || (dispatchNextWG cp i).1.fault.isSome) = true
    · simp only [hc, if_true]; exact h1
    · simp only [hc]; exact ih _ h1

/-- a completion for a request id that is in flight: counted once, the entry leaves `inflight`;
    any other id changes nothing -/
theorem completion_counted_once (cp : CP) (i id : Nat) (h : DCI cp) (hi : i < cp.disps.length) :
    ((cp.disp i).inflight.find? (·.1 = id) = none → completeOne cp i id = cp) ∧
    (∀ e, (cp.disp i).inflight.find? (·.1 = id) = some e →
      ((completeOne cp i id).disp i).nc = (cp.disp i).nc + 1 ∧
      ((completeOne cp i id).disp i).inflight.length + 1 = (cp.disp i).inflight.length ∧
      (∀ e' ∈ ((completeOne cp i id).disp i).inflight, e'.1 ≠ id) ∧
      DCI (completeOne cp i id)) := by
  constructor
  · intro hf; unfold completeOne; simp only [hf]
  · intro e hf
    obtain ⟨x, dl⟩ := e
    have hd := h i
    obtain ⟨_, l1, l2, hl, hfilt⟩ := find_split id (cp.disp i).inflight (x, dl) hd.ids hf
    have hlen : ((cp.disp i).inflight.filter (·.1 ≠ id)).length + 1 = (cp.disp i).inflight.length := by
      rw [hfilt]; conv => rhs; rw [hl]
      simp only [List.length_append, List.length_cons]; omega
    have hdc : DC cp.nextReq { cp.disp i with
        inflight := (cp.disp i).inflight.filter (·.1 ≠ id), nc := (cp.disp i).nc + 1,
        cycleLeft := if (cp.disp i).nc + 1 = (cp.disp i).alg.numWG then cp.cfg.ko else (cp.disp i).cycleLeft } := by
      cases hk : (cp.disp i).kern with
      | none => have := (hd.idle hk).2.1; rw [this] at hf; cases hf
      | some k =>
        refine DC_busy _ _ k hk (hd.algK k hk) (hd.cnt k hk) (hd.le k hk) ?_ (hd.cur k · hk) (hd.acur k · · hk)
          (hd.apos k hk) ((List.filter_sublist.map _).nodup hd.ids) (fun e he => hd.idlt e (List.mem_filter.1 he).1)
        show (cp.disp i).nc + 1 + ((cp.disp i).inflight.filter (·.1 ≠ id)).length = (cp.disp i).nd
        have := hd.fl k hk; omega
    unfold completeOne
    simp only [hf]
    cases hfree : free (cp.pool.getD dl.cu default) dl.key with
    | none =>
      simp only []
      refine ⟨?_, ?_, ?_, DCI_frame i _ h (Nat.le_refl _) (fun j => disp_setDisp _ i j _) hdc⟩
      · simp [disp_setDisp, hi]
      · simp only [disp_setDisp]; simp only [hi, and_self, if_true]; exact hlen
      · simp only [disp_setDisp]; simp only [hi, and_self, if_true]; intro e' he'; simpa using (List.mem_filter.1 he').2
    | some cu' =>
      simp only []
      refine ⟨?_, ?_, ?_, DCI_frame i _ h (Nat.le_refl _) (fun j => disp_setDisp _ i j _) hdc⟩
      · simp [disp_setDisp, hi]
      · simp only [disp_setDisp]; simp only [hi, and_self, if_true]; exact hlen
      · simp only [disp_setDisp]; simp only [hi, and_self, if_true]; intro e' he'; simpa using (List.mem_filter.1 he').2

/-- `kernelCompleted` (the only guard under which `Tick` calls `completeKernel`) means: every work-group of
    the grid was mapped, every one completed, nothing is in flight or waiting -/
theorem rsp_only_when_complete (cp : CP) (i : Nat) (k : Kern) (h : DCI cp)
    (hk : (cp.disp i).kern = some k) (hkc : kernelCompleted (cp.disp i) = true) :
    (cp.disp i).nd = k.numWG ∧ (cp.disp i).nc = k.numWG ∧ (cp.disp i).inflight = [] ∧
    (cp.disp i).currWG = none := by
  have hd := h i
  simp only [kernelCompleted, Bool.and_eq_true, Bool.not_eq_true', decide_eq_false_iff_not] at hkc
  obtain ⟨⟨hcw0, hhn⟩, hnc⟩ := hkc
  have hcw : (cp.disp i).currWG = none := by
    cases hx : (cp.disp i).currWG with
    | none => rfl
    | some _ => rw [hx] at hcw0; simp at hcw0
  have hak := hd.algK k hk
  have hge : ¬ (cp.disp i).alg.numDispatched < k.numWG := by
    simpa [Alg.hasNext, Alg.numWG, hak] using hhn
  have hcnt := hd.cnt k hk
  simp [hcw] at hcnt
  have hle := hd.le k hk
  have hfl := hd.fl k hk
  refine ⟨by omega, by omega, ?_, hcw⟩
  have : (cp.disp i).inflight.length = 0 := by omega
  exact List.eq_nil_of_length_eq_zero this

/-! ## `DCI` is an invariant of every run -/

theorem completeOne_none (cp : CP) (i id : Nat) (hf : (cp.disp i).inflight.find? (·.1 = id) = none) :
    completeOne cp i id = cp := by
  unfold completeOne; simp only [hf]

theorem completeOne_DCI (cp : CP) (i id : Nat) (h : DCI cp) : DCI (completeOne cp i id) := by
  by_cases hi : i < cp.disps.length
  · cases hf : (cp.disp i).inflight.find? (·.1 = id) with
    | none => rw [completeOne_none cp i id hf]; exact h
    | some e => exact ((completion_counted_once cp i id h hi).2 e hf).2.2.2
  · have hf : (cp.disp i).inflight.find? (·.1 = id) = none := by rw [disp_oob cp i hi]; rfl
    rw [completeOne_none cp i id hf]; exact h

theorem consume_DCI (i : Nat) : ∀ (ids : List Nat) (cp : CP), DCI cp → DCI (consume i ids cp).1 := by
  intro ids
  induction ids with
  | nil => intro cp h; exact h
  | cons id ids ih =>
    intro cp h
    simp only [consume]
    split
    · exact ih _ (completeOne_DCI cp i id h)
    · exact ih cp h

theorem procMsgs_DCI (i : Nat) : ∀ (n : Nat) (cp : CP), DCI cp → DCI (procMsgs i n cp).1 := by
  intro n
  induction n with
  | zero => intro cp h; exact h
  | succ n ih =>
    intro cp h
    unfold procMsgs
    cases hcu : cp.cuIn with
    | nil => exact h
    | cons ids rest =>
      simp only []
      have h1 := consume_DCI i ids cp h
      split
      · exact h
      · split
        · exact h1
        · split
          · exact ih { (consume i ids cp).1 with cuIn := rest } h1
          · exact h1

/-- `completeKernel`: what is emitted, and that the dispatcher becomes idle -/
theorem completeKernel_log (cp : CP) (i : Nat) (k : Kern) (cp' : CP) (hi : i < cp.disps.length)
    (hk : (cp.disp i).kern = some k) (h : completeKernel cp i = (cp', true)) :
    cp'.log = .rsp k.id :: cp.log ∧ (cp'.disp i).kern = none := by
  unfold completeKernel at h
  simp only [hk] at h
  by_cases hr : cp.drvRoom = 0
  · simp [hr] at h
  · simp only [hr, if_false, Prod.mk.injEq, and_true] at h
    subst h
    refine ⟨rfl, ?_⟩
    simp only [disp_setDisp]
    have : i < (CP.emit { cp with drvRoom := cp.drvRoom - 1 } (Ev.rsp k.id)).disps.length := hi
    simp only [this, and_self, if_true]

theorem completeKernel_false (cp : CP) (i : Nat) (cp' : CP) (h : completeKernel cp i = (cp', false)) :
    cp' = cp := by
  unfold completeKernel at h
  cases hk : (cp.disp i).kern with
  | none => simp only [hk, Prod.mk.injEq, and_true] at h; exact h.symm
  | some k =>
    simp only [hk] at h
    by_cases hr : cp.drvRoom = 0
    · simp only [hr, if_true, Prod.mk.injEq, and_true] at h; exact h.symm
    · simp [hr] at h

theorem completeKernel_DCI (cp : CP) (i : Nat) (h : DCI cp) (hkc : kernelCompleted (cp.disp i) = true) :
    DCI (completeKernel cp i).1 := by
  unfold completeKernel
  cases hk : (cp.disp i).kern with
  | none => simp only [hk]; exact h
  | some k =>
    simp only [hk]
    by_cases hr : cp.drvRoom = 0
    · simp only [hr, if_true]; exact h
    · simp only [hr, if_false]
      have hd := h i
      obtain ⟨r1, r2, r3, r4⟩ := rsp_only_when_complete cp i k h hk hkc
      have hhn : (cp.disp i).alg.hasNext = false := by
        simp only [kernelCompleted, Bool.and_eq_true, Bool.not_eq_true'] at hkc
        exact hkc.1.2
      have hcnt := hd.cnt k hk
      simp [r4] at hcnt
      have hcn : (cp.disp i).alg.currWG = none := by
        cases hc : (cp.disp i).alg.currWG with
        | none => rfl
        | some w =>
          obtain ⟨key, idx⟩ := w
          have := hd.acur k key idx hk hc
          omega
      refine DCI_frame i { cp.disp i with kern := none, prev := (cp.disp i).nd } h (Nat.le_refl _)
        (fun j => disp_setDisp _ i j _) ?_
      exact {
        idle := fun _ => ⟨r4, r3, hcn, hhn⟩
        algK := by intro k2 h2; cases h2
        cnt := by intro k2 h2; cases h2
        le := by intro k2 h2; cases h2
        fl := by intro k2 h2; cases h2
        cur := by intro k2 dl h2; cases h2
        acur := by intro k2 key idx h2; cases h2
        apos := by intro k2 h2; cases h2
        ids := hd.ids
        idlt := hd.idlt }

theorem dispTick_DCI (cp : CP) (i : Nat) (h : DCI cp) : DCI (dispTick cp i).1 := by
  have key : ∀ r1 : CP × Bool, DCI r1.1 →
      DCI (if r1.1.fault.isSome then r1 else
        let r2 := procMsgs i 8 r1.1
        (r2.1, r1.2 || r2.2)).1 := by
    intro r1 hr1
    by_cases hf : r1.1.fault.isSome = true
    · simp only [hf, if_true]; exact hr1
    · simp only [hf]; exact procMsgs_DCI i 8 _ hr1
  unfold dispTick
  by_cases hc : (cp.disp i).cycleLeft > 0
  · simp only [hc, if_true]
    have hd := h i
    exact DCI_frame i _ h (Nat.le_refl _) (fun j => disp_setDisp _ i j _)
      ⟨hd.idle, hd.algK, hd.cnt, hd.le, hd.fl, hd.cur, hd.acur, hd.apos, hd.ids, hd.idlt⟩
  · simp only [hc, if_false]
    refine key _ ?_
    by_cases hks : (cp.disp i).kern.isSome = true
    · simp only [hks, if_true]
      by_cases hkc : kernelCompleted (cp.disp i) = true
      · simp only [hkc, if_true]; exact completeKernel_DCI cp i h hkc
      · simp only [hkc]; exact dispatchLoop_DCI i 8 cp h
    · simp only [hks]; exact h

theorem tickDispatchers_DCI : ∀ (is : List Nat) (cp : CP), DCI cp → DCI (tickDispatchers is cp).1 := by
  intro is
  induction is with
  | nil => intro cp h; exact h
  | cons i is ih =>
    intro cp h
    simp only [tickDispatchers]
    by_cases hf : cp.fault.isSome = true
    · simp only [hf, if_true]; exact h
    · simp only [hf]; exact ih _ (dispTick_DCI cp i h)

theorem handleLaunch_DCI (cp : CP) (h : DCI cp) : DCI (handleLaunch cp).1 := by
  refine handleLaunch_ind cp ?_ h
  unfold handleLaunchOld
  cases hdr : cp.drvIn with
  | nil => exact h
  | cons k rest =>
    simp only []
    cases hfa : findAvailable cp.disps with
    | none => exact h
    | some i =>
      simp only []
      unfold findAvailable at hfa
      rw [List.findIdx?_eq_some_iff_getElem] at hfa
      obtain ⟨hi, hp, _⟩ := hfa
      have hdi : cp.disp i = cp.disps[i] := by simp [CP.disp, List.getD_eq_getElem?_getD, hi]
      have hkn : (cp.disp i).kern = none := by
        rw [hdi]; cases hx : cp.disps[i].kern with
        | none => rfl
        | some _ => rw [hx] at hp; simp at hp
      have hd := h i
      obtain ⟨i1, i2, i3, _⟩ := hd.idle hkn
      refine DCI_frame i (startDispatching cp.cfg (cp.disp i) k) h (Nat.le_refl _)
        (fun j => disp_setDisp _ i j _) ?_
      refine DC_busy _ _ k rfl rfl ?_ (Nat.zero_le _) ?_ ?_ ?_ (fun _ => rfl) hd.ids hd.idlt
      · show 0 + (if (cp.disp i).currWG.isSome then 1 else 0) = 0
        rw [i1]; rfl
      · show 0 + (cp.disp i).inflight.length = 0
        rw [i2]; rfl
      · intro dl hc
        have : (cp.disp i).currWG = some dl := hc
        rw [i1] at this; cases this
      · intro key idx hc
        have : (cp.disp i).alg.currWG = some (key, idx) := hc
        rw [i3] at this; cases this

theorem cpTick_DCI (cp : CP) (h : DCI cp) : DCI (cpTick cp).1 := by
  have h1 := tickDispatchers_DCI (List.range cp.disps.length) cp h
  unfold cpTick
  by_cases hf : (tickDispatchers (List.range cp.disps.length) cp).1.fault.isSome = true
  · simp only [hf, if_true]; exact h1
  · simp only [hf]; exact handleLaunch_DCI _ (handleLaunch_DCI _ h1)

theorem step_DCI (cp : CP) (op : Op) (h : DCI cp) : DCI (step cp op) := by
  cases op with
  | tick => exact cpTick_DCI cp h
  | launch k => exact h
  | complete ids => exact h
  | cuRoom n => exact h
  | drvRoom n => exact h

theorem run_DCI : ∀ (ops : List Op) (cp : CP), DCI cp → DCI (run cp ops) := by
  intro ops
  induction ops with
  | nil => intro cp h; exact h
  | cons op ops ih => intro cp h; exact ih (step cp op) (step_DCI cp op h)

theorem mkCP_DCI (cfg : Cfg) (nd : Nat) (pool : List CU) : DCI (mkCP cfg nd pool) := by
  intro j
  have : (mkCP cfg nd pool).disp j = default := by
    simp only [mkCP, CP.disp, List.getD_eq_getElem?_getD, List.getElem?_replicate]
    split <;> rfl
  rw [this]; exact DC_default _

/-- the accounting invariant holds after every sequence of environment moves: any number of dispatchers,
    any pool, greedy or round-robin, arbitrary completion messages, back-pressure and faults -/
theorem dci_run (cfg : Cfg) (nd : Nat) (pool : List CU) (ops : List Op) :
    DCI (run (mkCP cfg nd pool) ops) :=
  run_DCI ops _ (mkCP_DCI cfg nd pool)

/-- concrete run (one dispatcher, the CU of `mkCU [2] (some 32) [some 512] (some 512)`): kernel 7 with two
    work-groups is mapped in grid order with request ids 0, 1, then answered once; `DCI` holds throughout -/
example :
    let cp := run (mkCP ⟨false, 0, 0, 0, 0⟩ 1
        [{ wfFree := [2], smask := .lim [0, 0], vmasks := [.lim [0, 0]], lmask := .lim [0, 0],
           nextSIMD := 0, resident := [] }])
      [.launch ⟨7, 128, 64, 16, 4, 256⟩, .tick, .tick, .tick, .complete [0, 1], .tick, .tick]
    DCI cp ∧ cp.fault = none ∧
    cp.log.reverse.map (fun e => match e with
      | .map r c l idx _ => (r, c, l, idx)
      | .rsp l => (999, 999, l, 999)) = [(0, 0, 7, 0), (1, 0, 7, 1), (999, 999, 7, 999)] :=
  ⟨dci_run _ _ _ _, by decide, by decide⟩

end C09
