import MgpuProofs.C09Tie2
/-! # C09 — a work-group that fits an empty CU is never refused by an idle pool

A tick without progress while the environment owes nothing leaves, at every dispatcher's turn, a pool
without residents (`TI` + nothing held); `ReserveResourceForWG` is complete on an empty CU
(`reserve_empty`); hence `RefusedIdle` is impossible for kernels whose work-groups fit. -/
namespace C09

/-! ## the exact post-state of a dispatcher tick without progress -/

theorem dispTick_false_post (cp : CP) (i : Nat) (hdc : DCI cp) (h : (dispTick cp i).2 = false)
    (hf : (dispTick cp i).1.fault = none) (hcr : 0 < cp.cuRoom) (hdr : 0 < cp.drvRoom) :
    (((cp.disp i).kern = none ∨ ¬ (cp.disp i).alg.hasNext = true) ∧ (dispTick cp i).1 = cp) ∨
    ((cp.disp i).currWG = none ∧ (cp.disp i).alg.hasNext = true ∧ (algNext cp i).2 = none ∧
      (dispTick cp i).1 = (algNext cp i).1.setDisp i { (algNext cp i).1.disp i with currWG := none }) := by
  have hc : (cp.disp i).cycleLeft = 0 := by
    by_cases hc : (cp.disp i).cycleLeft > 0
    · rw [cycle_pos_true cp i hc] at h; cases h
    · omega
  rw [dispTick_eq cp i hc] at h hf ⊢
  by_cases hft : (tickHead cp i).1.fault.isSome = true
  · simp only [hft, if_true] at hf
    rw [hf] at hft; cases hft
  · simp only [hft, Bool.false_eq_true, if_false] at h hf ⊢
    rw [Bool.or_eq_false_iff] at h
    obtain ⟨h1, h2⟩ := h
    obtain ⟨p1, _⟩ := procMsgs_false i 7 (tickHead cp i).1 h2
    rw [p1]
    cases hk : (cp.disp i).kern with
    | none => left; refine ⟨Or.inl rfl, ?_⟩; unfold tickHead; simp [hk]
    | some k =>
      have hks : (cp.disp i).kern.isSome = true := by rw [hk]; rfl
      unfold tickHead at h1 hft ⊢
      simp only [hks, if_true] at h1 hft ⊢
      by_cases hkc : kernelCompleted (cp.disp i) = true
      · simp only [hkc, if_true] at h1
        rw [(completeKernel_fires cp i k hk hdr).1] at h1; cases h1
      · simp only [hkc, Bool.false_eq_true, if_false] at h1 hft ⊢
        have hl := dispatchLoop_false i 7 cp h1
        rw [hl] at h1 hft ⊢
        rw [dispatchNextWG_eq] at h1 hft ⊢
        have s1 := (tail_spec (pre cp i).1 i (pre cp i).2).1 h1
        rw [s1] at hft ⊢
        have hcr' : (pre cp i).1.cuRoom = cp.cuRoom := congrArg V.cuRoom (pre_view cp i).1
        have hnone : (pre cp i).2 = none := by
          rcases tail_false_reason _ i _ h1 with h' | h' | h'
          · exact h'
          · exact absurd h' hft
          · rw [hcr'] at h'; omega
        cases hcw : (cp.disp i).currWG with
        | some dl => rw [pre_some cp i dl hcw] at hnone; cases hnone
        | none =>
          by_cases hn : (cp.disp i).alg.hasNext = true
          · right
            rw [pre_none_yes cp i hcw hn] at hnone ⊢
            simp only at hnone
            refine ⟨rfl, hn, hnone, ?_⟩
            simp only [hnone]
          · left; rw [pre_none_no cp i hcw hn]; exact ⟨Or.inr hn, rfl⟩

/-- same accounting view, same unread messages, same placed-but-unsent work-groups -/
structure Quiet (cp cp' : CP) : Prop where
  same : Same cp cp'
  curr : ∀ j, (cp'.disp j).currWG = (cp.disp j).currWG

theorem Quiet.refl (cp : CP) : Quiet cp cp := ⟨Same.refl _, fun _ => rfl⟩
theorem Quiet.trans {a b c : CP} (h1 : Quiet a b) (h2 : Quiet b c) : Quiet a c :=
  ⟨h1.same.trans h2.same, fun j => (h2.curr j).trans (h1.curr j)⟩

theorem dispTick_false_quiet (cp : CP) (i : Nat) (hdc : DCI cp) (h : (dispTick cp i).2 = false)
    (hf : (dispTick cp i).1.fault = none) (hcr : 0 < cp.cuRoom) (hdr : 0 < cp.drvRoom) :
    Quiet cp (dispTick cp i).1 := by
  refine ⟨dispTick_false_same cp i hdc h, ?_⟩
  rcases dispTick_false_post cp i hdc h hf hcr hdr with ⟨_, e⟩ | ⟨hcw, _, _, e⟩
  · rw [e]; intro j; rfl
  · rw [e]
    intro j
    obtain ⟨a', hdj, _, _, hlen, _⟩ := algNext_shape cp i
    rw [disp_setDisp]
    split
    · rename_i hc; obtain ⟨rfl, _⟩ := hc; rw [hcw]
    · rw [hdj j]
      split
      · rename_i hc; obtain ⟨rfl, _⟩ := hc; rfl
      · rfl

/-- a whole round of dispatcher ticks without progress, both ports having room: at each dispatcher's
    turn the state is quiet w.r.t. the start, reachable-invariants hold, and no fault is set -/
theorem tickDispatchers_quiet {S} (b : Bool) (caps : List (List Nat)) : ∀ (is : List Nat) (cp : CP),
    DCI cp → TI S cp → CPInv b caps cp → 0 < cp.cuRoom → 0 < cp.drvRoom →
    (tickDispatchers is cp).2 = false → (tickDispatchers is cp).1.fault = none →
    Quiet cp (tickDispatchers is cp).1 ∧
    ∀ i ∈ is, ∃ ci, Quiet cp ci ∧ DCI ci ∧ TI S ci ∧ CPInv b caps ci ∧ ci.fault = none ∧
      (dispTick ci i).2 = false ∧ (dispTick ci i).1.fault = none := by
  intro is
  induction is with
  | nil => intro cp _ _ _ _ _ _ _; exact ⟨Quiet.refl _, fun i hi => by cases hi⟩
  | cons i is ih =>
    intro cp hdc hti hinv hcr hdr hb hf
    by_cases hcf : cp.fault.isSome = true
    · rw [tickDispatchers_fault _ cp hcf] at hf
      rw [hf] at hcf; cases hcf
    · have hcf0 : cp.fault = none := by cases hx : cp.fault <;> simp_all
      simp only [tickDispatchers, hcf, Bool.false_eq_true, if_false] at hb hf ⊢
      rw [Bool.or_eq_false_iff] at hb
      obtain ⟨hb1, hb2⟩ := hb
      have hd1 := dispTick_DCI cp i hdc
      have ht1 := dispTick_TI cp i hdc hti
      have hi1 := dispTick_inv b caps cp i hinv
      have hf1 : (dispTick cp i).1.fault = none := by
        cases hx : (dispTick cp i).1.fault with
        | none => rfl
        | some f =>
          have : (dispTick cp i).1.fault.isSome = true := by rw [hx]; rfl
          rw [tickDispatchers_fault _ _ this] at hf
          rw [hx] at hf; cases hf
      have hq1 := dispTick_false_quiet cp i hdc hb1 hf1 hcr hdr
      have hcr1 : 0 < (dispTick cp i).1.cuRoom := by
        have := congrArg V.cuRoom hq1.same.1; simp only [CP.view] at this; omega
      have hdr1 : 0 < (dispTick cp i).1.drvRoom := by
        have := congrArg V.drvRoom hq1.same.1; simp only [CP.view] at this; omega
      obtain ⟨a1, a2⟩ := ih _ hd1 ht1 hi1 hcr1 hdr1 hb2 hf
      refine ⟨hq1.trans a1, ?_⟩
      intro j hj
      rcases List.mem_cons.1 hj with e | e
      · subst e; exact ⟨cp, Quiet.refl _, hdc, hti, hinv, hcf0, hb1, hf1⟩
      · obtain ⟨ci, c1, c2⟩ := a2 j e
        exact ⟨ci, hq1.trans c1, c2⟩

/-! ## the kernels at the dispatchers were launched -/

/-- every queued or dispatching kernel satisfies `Q` -/
def KQ (Q : Kern → Prop) (v : V) : Prop :=
  (∀ k ∈ v.drvIn, Q k) ∧ ∀ i k, (v.ds i).kern = some k → Q k

/-- every dispatching kernel satisfies `Q` (nothing is said about the launch queue) -/
def KD (Q : Kern → Prop) (v : V) : Prop := ∀ i k, (v.ds i).kern = some k → Q k

theorem KQ.kd {Q : Kern → Prop} {v : V} (h : KQ Q v) : KD Q v := h.2

theorem KQ_step {Q : Kern → Prop} {v v' : V} (h : KQ Q v) (s : VStep v v') : KQ Q v' := by
  obtain ⟨h1, h2⟩ := h
  cases s with
  | cyc i c hi hc =>
    refine ⟨h1, fun j k hk => ?_⟩
    by_cases hj : j = i
    · subst hj; rw [V.upd_same] at hk; exact h2 j k hk
    · rw [V.upd_other _ _ _ _ hj] at hk; exact h2 j k hk
  | map i k0 c locs hi hk0 hlt hr =>
    refine ⟨h1, fun j k hk => ?_⟩
    by_cases hj : j = i
    · subst hj; rw [V.upd_same] at hk; exact h2 j k hk
    · rw [V.upd_other _ _ _ _ hj] at hk; exact h2 j k hk
  | done i r cyc' hi hr =>
    refine ⟨h1, fun j k hk => ?_⟩
    by_cases hj : j = i
    · subst hj; rw [V.upd_same] at hk; exact h2 j k hk
    · rw [V.upd_other _ _ _ _ hj] at hk; exact h2 j k hk
  | rsp i k0 hi hk0 hnd hnc hfl hr =>
    refine ⟨h1, fun j k hk => ?_⟩
    by_cases hj : j = i
    · subst hj; rw [V.upd_same] at hk; cases hk
    · rw [V.upd_other _ _ _ _ hj] at hk; exact h2 j k hk
  | start i k0 rest cyc' hi hd hk0 =>
    refine ⟨fun k hk => h1 k (by rw [hd]; exact List.mem_cons_of_mem _ hk), fun j k hk => ?_⟩
    by_cases hj : j = i
    · subst hj; rw [V.upd_same] at hk
      injection hk with hk; subst hk
      exact h1 _ (by rw [hd]; exact List.mem_cons_self)
    · rw [V.upd_other _ _ _ _ hj] at hk; exact h2 j k hk

theorem KQ_steps {Q : Kern → Prop} {b : Bool} {v v' : V} (s : Steps b v v') : KQ Q v → KQ Q v' := by
  induction s with
  | refl v => exact id
  | cons s _ ih => exact fun h => ih (KQ_step h s)

theorem run_KQ {Q : Kern → Prop} : ∀ (ops : List Op) (cp : CP), DCI cp →
    (∀ k, Op.launch k ∈ ops → Q k) → KQ Q cp.view → KQ Q (run cp ops).view := by
  intro ops
  induction ops with
  | nil => intro cp _ _ h; exact h
  | cons op ops ih =>
    intro cp hdc hin h
    have hin' : ∀ k, Op.launch k ∈ ops → Q k := fun k hk => hin k (List.mem_cons_of_mem _ hk)
    show KQ Q (run (step cp op) ops).view
    cases op with
    | tick => exact ih _ (step_DCI cp .tick hdc) hin' (KQ_steps (cpTick_steps cp hdc) h)
    | launch k0 =>
      refine ih _ (step_DCI cp _ hdc) hin' ⟨?_, h.2⟩
      intro k hk
      have hk : k ∈ cp.drvIn ++ [k0] := hk
      rcases List.mem_append.1 hk with e | e
      · exact h.1 k e
      · simp only [List.mem_singleton] at e; subst e; exact hin k List.mem_cons_self
    | complete ids => exact ih _ (step_DCI cp _ hdc) hin' h
    | cuRoom n => exact ih _ (step_DCI cp _ hdc) hin' h
    | drvRoom n => exact ih _ (step_DCI cp _ hdc) hin' h

theorem mkCP_KQ (Q : Kern → Prop) (cfg : Cfg) (nd : Nat) (pool : List CU) : KQ Q (mkCP cfg nd pool).view := by
  refine ⟨fun k hk => (by cases hk), fun i k hk => ?_⟩
  have : ((mkCP cfg nd pool).disp i).kern = some k := hk
  rw [mkCP_disp] at this; cases this

/-! ## `Next` visits every CU; an empty pool does not refuse a group that fits one of its CUs -/

theorem mem_cuOrder_of_lt (g : Bool) (n nextCU c : Nat) (h : c < n) : c ∈ cuOrder g n nextCU := by
  unfold cuOrder
  split
  · exact List.mem_range.2 h
  · apply List.mem_map.2
    have hn : 0 < n := by omega
    have ha : nextCU % n < n := Nat.mod_lt _ hn
    have hdecomp : nextCU = n * (nextCU / n) + nextCU % n := (Nat.div_add_mod nextCU n).symm
    by_cases hge : nextCU % n ≤ c
    · refine ⟨c - nextCU % n, List.mem_range.2 (by omega), ?_⟩
      have : nextCU + (c - nextCU % n) = c + n * (nextCU / n) := by omega
      rw [this, Nat.add_mul_mod_self_left, Nat.mod_eq_of_lt h]
    · refine ⟨c + n - nextCU % n, List.mem_range.2 (by omega), ?_⟩
      have : nextCU + (c + n - nextCU % n) = c + n * (nextCU / n + 1) := by
        rw [Nat.mul_add, Nat.mul_one]; omega
      rw [this, Nat.add_mul_mod_self_left, Nat.mod_eq_of_lt h]

/-- the pool has no residents, satisfies the resource invariant and has the registered shapes -/
def EmptyPool (caps : List (List Nat)) (S : List (Option Nat × List (Option Nat) × Option Nat))
    (pool : List CU) : Prop :=
  ∀ c, c < pool.length → Inv (caps.getD c []) (pool.getD c default) ∧
    (pool.getD c default).resident = [] ∧ (pool.getD c default).shapes = S.getD c (none, [], none)

/-- some CU of the pool can take the work-group when empty -/
def FitsPool (caps : List (List Nat)) (S : List (Option Nat × List (Option Nat) × Option Nat)) (d : Dem) : Prop :=
  ∃ c, c < caps.length ∧ Fits (caps.getD c []) (S.getD c (none, [], none)) d

theorem tryCUs_complete (caps : List (List Nat)) (S : List (Option Nat × List (Option Nat) × Option Nat))
    (key : Nat) (d : Dem) : ∀ (cs : List Nat) (pool : List CU), EmptyPool caps S pool →
    (∃ c ∈ cs, c < pool.length ∧ Fits (caps.getD c []) (S.getD c (none, [], none)) d) →
    (tryCUs key d cs pool).1 ≠ .none := by
  intro cs
  induction cs with
  | nil => intro pool _ ⟨c, hc, _⟩; cases hc
  | cons c0 cs ih =>
    intro pool hp ⟨c, hc, hlt, hfit⟩
    rcases hr : reserve (pool.getD c0 default) key d with ⟨res, cu1⟩
    cases res with
    | ok locs => simp only [tryCUs, hr]; intro h; cases h
    | twice => simp only [tryCUs, hr]; intro h; cases h
    | no =>
      simp only [tryCUs, hr]
      have hne : c ≠ c0 := by
        intro e; subst e
        obtain ⟨i1, i2, i3⟩ := hp c hlt
        obtain ⟨locs, cu', hok⟩ := (reserve_empty _ _ key d i1 i2).1 (by rw [i3]; exact hfit)
        rw [hok] at hr; cases hr
      apply ih (pool.set c0 cu1)
      · intro c' hc'
        simp only [List.length_set] at hc'
        rw [getD_set_cu]
        split
        · rename_i hcc
          obtain ⟨i1, i2, i3⟩ := hp c0 hcc.2
          obtain ⟨n1, n2, _⟩ := reserve_no _ _ key d cu1 i1 hr
          have hsh := reserve_shapes (pool.getD c0 default) key d
          rw [hr] at hsh
          rw [hcc.1]
          exact ⟨n1, by rw [n2]; exact i2, by rw [hsh]; exact i3⟩
        · exact hp c' hc'
      · rcases List.mem_cons.1 hc with e | e
        · exact absurd e hne
        · exact ⟨c, e, by simp only [List.length_set]; exact hlt, hfit⟩

/-- **an idle pool does not refuse a dispatcher whose next work-group fits a CU**: in a reachable state
    without residents, `algorithm.Next` of a dispatcher that has a next work-group returns a placement
    (or hits the "twice" panic, excluded elsewhere) -/
theorem algNext_not_refused (caps : List (List Nat)) (S : List (Option Nat × List (Option Nat) × Option Nat))
    (cp : CP) (i : Nat) (k : Kern) (hdc : DCI cp) (hk : (cp.disp i).kern = some k)
    (hn : (cp.disp i).alg.hasNext = true) (hlen : cp.pool.length = caps.length)
    (hp : EmptyPool caps S cp.pool) (hfit : ∀ idx, idx < k.numWG → FitsPool caps S (k.dem idx))
    (hnf : (algNext cp i).1.fault = none) : (algNext cp i).2 ≠ none := by
  have hd := hdc i
  have hak := hd.algK k hk
  have hnum : (cp.disp i).alg.numDispatched < k.numWG := by
    simp only [Alg.hasNext, Alg.numWG, hak, decide_eq_true_eq] at hn; exact hn
  unfold algNext at hnf ⊢
  simp only [hak] at hnf ⊢
  cases hc : (cp.disp i).alg.currWG with
  | none =>
    simp only [hc] at hnf ⊢
    have hpos := hd.apos k hk hc
    obtain ⟨c, hc1, hc2⟩ := hfit (cp.disp i).alg.pos (by omega)
    have hcomp := tryCUs_complete caps S cp.nextKey (k.dem (cp.disp i).alg.pos)
      (cuOrder cp.cfg.greedy cp.pool.length (cp.disp i).alg.nextCU) cp.pool hp
      ⟨c, mem_cuOrder_of_lt _ _ _ _ (by omega), by omega, hc2⟩
    rcases ht : tryCUs cp.nextKey (k.dem (cp.disp i).alg.pos)
      (cuOrder cp.cfg.greedy cp.pool.length (cp.disp i).alg.nextCU) cp.pool with ⟨r, pool'⟩
    rw [ht] at hcomp hnf
    cases r with
    | placed c locs => simp
    | none => exact absurd rfl hcomp
    | fault => simp [CP.setDisp] at hnf
  | some w =>
    simp only [hc] at hnf ⊢
    obtain ⟨_, _, hlt⟩ := hd.acur k w.1 w.2 hk hc
    obtain ⟨c, hc1, hc2⟩ := hfit w.2 hlt
    have hcomp := tryCUs_complete caps S w.1 (k.dem w.2)
      (cuOrder cp.cfg.greedy cp.pool.length (cp.disp i).alg.nextCU) cp.pool hp
      ⟨c, mem_cuOrder_of_lt _ _ _ _ (by omega), by omega, hc2⟩
    rcases ht : tryCUs w.1 (k.dem w.2)
      (cuOrder cp.cfg.greedy cp.pool.length (cp.disp i).alg.nextCU) cp.pool with ⟨r, pool'⟩
    rw [ht] at hcomp hnf
    cases r with
    | placed c locs => simp
    | none => exact absurd rfl hcomp
    | fault => simp [CP.setDisp] at hnf

end C09
