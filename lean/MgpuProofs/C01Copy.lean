import MgpuModel.C01_Emu
import MgpuProofs.C01Emu
import MgpuProofs.C01Step
import MgpuProofs.C01Insts
/-! # C01 — the driver's `copyKernel` (amd/driver/memcopy.hsaco), instruction by instruction

`copyCode` is the byte image the loader extracts from memcopy.hsaco (checked against the real
loader by the correspondence case `c01 copycode`, and every run of `EnqueueMemCopyD2D` in the harness
feeds exactly these bytes to the Lean emulator).  27 instructions:

```
  0 s_load_dword s0, s[4:5], 0x4        ; work-group size x|y from the dispatch packet
  8 s_waitcnt lgkmcnt(0)
 12 s_and_b32 s0, s0, 0xffff
 20 s_mul_i32 s8, s8, s0                ; work-group id * work-group size
 24 s_load_dword s2, s[6:7], 0x10       ; N
 32 s_load_dwordx2 s[0:1], s[6:7], 0x18 ; hidden global offset x
 40 v_add_u32 v0, vcc, s8, v0
 44 s_waitcnt lgkmcnt(0)
 48 v_add_u32 v0, vcc, s0, v0           ; global id
 52 v_cmp_gt_i32 vcc, s2, v0
 56 s_and_saveexec_b64 s[0:1], vcc
 60 s_cbranch_execz 18                  ; → 136
 64 s_load_dwordx4 s[0:3], s[6:7], 0x0  ; d_in, d_out
 72 v_mov_b32 v1, 0
 76 v_mov_b32 v2, v0
 80 v_ashrrev_i64 v[0:1], 30, v[1:2]    ; byte offset = id * 4
 88 s_waitcnt lgkmcnt(0)
 92 v_mov_b32 v3, s1
 96 v_add_u32 v2, vcc, s0, v0
100 v_addc_u32 v3, vcc, v3, v1, vcc
104 flat_load_dword v2, v[2:3]
112 v_mov_b32 v3, s3
116 v_add_u32 v0, vcc, s2, v0
120 v_addc_u32 v1, vcc, v3, v1, vcc
124 s_waitcnt vmcnt(0) lgkmcnt(0)
128 flat_store_dword v[0:1], v2
136 s_endpgm
``` -/
set_option linter.unusedSimpArgs false
set_option maxRecDepth 100000
namespace C01
namespace Emu
namespace Copy
open C03V

/-- the byte image of the kernel: the model's literal, tied to memcopy.hsaco by the case `c01 copycode` -/
abbrev copyCode : List Nat := copyKernelCode

def P : Program := ⟨copyCode, false⟩

/-- the instruction window at byte offset `k` -/
abbrev win (k : Nat) : List Nat := (P.code.drop k).take 8

/-! ## decoding (the C04 decoder evaluated by the kernel) -/
theorem dec0 : DecV (win 0) 5 0 8 := DecV_of_ok (by decide +kernel)
theorem dec8 : DecS (win 8) 4 12 4 ⟨4, 12, 0, 0, 0, 0x7f, 0⟩ := DecS_of_ok (by decide +kernel)
theorem dec12 : DecS (win 12) 0 12 8 ⟨0, 12, 0, 0, 255, 0, 0xffff⟩ := by
  have h := DecS_sop2 (win 12) ⟨0, "sop2", 0x80000000, 0xC0000000, 4, 23, 29⟩
    ⟨"s_and_b32", 12, 0, 1, 32, 32, 32, 0, 0⟩ (.reg 0 (Gen.R_S0 + 0) 0) (.lit 255 0) (.reg 0 (Gen.R_S0 + 0) 0)
    (by decide) (by decide +kernel) rfl rfl (by decide +kernel) (by decide +kernel) (by decide +kernel) (by decide +kernel)
  exact h
theorem dec20 : DecS (win 20) 0 36 4 ⟨0, 36, 8, 8, 0, 0, 0⟩ := by
  have h := DecS_sop2 (win 20) ⟨0, "sop2", 0x80000000, 0xC0000000, 4, 23, 29⟩
    ⟨"s_mul_i32", 36, 0, 1, 32, 32, 32, 0, 0⟩ (.reg 8 (Gen.R_S0 + 8) 0) (.reg 0 (Gen.R_S0 + 0) 0) (.reg 8 (Gen.R_S0 + 8) 0)
    (by decide) (by decide +kernel) rfl rfl (by decide +kernel) (by decide +kernel) (by decide +kernel) (by decide +kernel)
  exact h
theorem dec24 : DecV (win 24) 5 0 8 := DecV_of_ok (by decide +kernel)
theorem dec32 : DecV (win 32) 5 1 8 := DecV_of_ok (by decide +kernel)
theorem dec40 : DecV (win 40) 6 25 4 := DecV_of_ok (by decide +kernel)
theorem dec44 : DecS (win 44) 4 12 4 ⟨4, 12, 0, 0, 0, 0x7f, 0⟩ := DecS_of_ok (by decide +kernel)
theorem dec48 : DecV (win 48) 6 25 4 := DecV_of_ok (by decide +kernel)
theorem dec52 : DecV (win 52) 10 196 4 := DecV_of_ok (by decide +kernel)
theorem dec56 : DecS (win 56) 2 32 4 ⟨2, 32, 0, 106, 0, 0, 0⟩ := DecS_of_ok (by decide +kernel)
theorem dec60 : DecS (win 60) 4 8 4 ⟨4, 8, 0, 0, 0, 18, 0⟩ := DecS_of_ok (by decide +kernel)
theorem dec64 : DecV (win 64) 5 2 8 := DecV_of_ok (by decide +kernel)
theorem dec72 : DecV (win 72) 7 1 4 := DecV_of_ok (by decide +kernel)
theorem dec76 : DecV (win 76) 7 1 4 := DecV_of_ok (by decide +kernel)
theorem dec80 : DecV (win 80) 8 657 8 := DecV_of_ok (by decide +kernel)
theorem dec88 : DecS (win 88) 4 12 4 ⟨4, 12, 0, 0, 0, 0x7f, 0⟩ := DecS_of_ok (by decide +kernel)
theorem dec92 : DecV (win 92) 7 1 4 := DecV_of_ok (by decide +kernel)
theorem dec96 : DecV (win 96) 6 25 4 := DecV_of_ok (by decide +kernel)
theorem dec100 : DecV (win 100) 6 28 4 := DecV_of_ok (by decide +kernel)
theorem dec104 : DecV (win 104) 17 20 8 := DecV_of_ok (by decide +kernel)
theorem dec112 : DecV (win 112) 7 1 4 := DecV_of_ok (by decide +kernel)
theorem dec116 : DecV (win 116) 6 25 4 := DecV_of_ok (by decide +kernel)
theorem dec120 : DecV (win 120) 6 28 4 := DecV_of_ok (by decide +kernel)
theorem dec124 : DecS (win 124) 4 12 4 ⟨4, 12, 0, 0, 0, 0x70, 0⟩ := DecS_of_ok (by decide +kernel)
theorem dec128 : DecV (win 128) 17 28 8 := DecV_of_ok (by decide +kernel)
theorem dec136 : DecV (win 136) 4 1 4 := DecV_of_ok (by decide +kernel)

/-! ## execution (the C03V specification applied to the instruction bytes) -/
theorem ex0 (st : St) : exec false st [0x2, 0x0, 0x2, 0xc0, 0x4, 0x0, 0x0, 0x0] =
    some ("s_load_dword", (List.range 1).flatMap fun i => wrS32 st (0 + i) (st.memRead (sAddr st 4 4 + 4 * i) 4)) := rfl
theorem ex24 (st : St) : exec false st [0x83, 0x0, 0x2, 0xc0, 0x10, 0x0, 0x0, 0x0] =
    some ("s_load_dword", (List.range 1).flatMap fun i => wrS32 st (2 + i) (st.memRead (sAddr st 6 16 + 4 * i) 4)) := rfl
theorem ex32 (st : St) : exec false st [0x3, 0x0, 0x6, 0xc0, 0x18, 0x0, 0x0, 0x0] =
    some ("s_load_dwordx2", (List.range 2).flatMap fun i => wrS32 st (0 + i) (st.memRead (sAddr st 6 24 + 4 * i) 4)) := rfl
theorem ex64 (st : St) : exec false st [0x3, 0x0, 0xa, 0xc0, 0x0, 0x0, 0x0, 0x0] =
    some ("s_load_dwordx4", (List.range 4).flatMap fun i => wrS32 st (0 + i) (st.memRead (sAddr st 6 0 + 4 * i) 4)) := rfl
theorem ex40 (st : St) : exec false st [0x8, 0x0, 0x0, 0x32] = some ("v_add_co_u32", execVALU st (eAdd 8 0 0)) := rfl
theorem ex48 (st : St) : exec false st [0x0, 0x0, 0x0, 0x32] = some ("v_add_co_u32", execVALU st (eAdd 0 0 0)) := rfl
theorem ex96 (st : St) : exec false st [0x0, 0x0, 0x4, 0x32] = some ("v_add_co_u32", execVALU st (eAdd 0 0 2)) := rfl
theorem ex116 (st : St) : exec false st [0x2, 0x0, 0x0, 0x32] = some ("v_add_co_u32", execVALU st (eAdd 2 0 0)) := rfl
theorem ex100 (st : St) : exec false st [0x3, 0x3, 0x6, 0x38] = some ("v_addc_co_u32", execVALU st (eAddc 3 1 3)) := rfl
theorem ex120 (st : St) : exec false st [0x3, 0x3, 0x2, 0x38] = some ("v_addc_co_u32", execVALU st (eAddc 3 1 1)) := rfl
theorem ex72 (st : St) : exec false st [0x80, 0x2, 0x2, 0x7e] = some ("v_mov_b32", execVALU st (eMov 128 1)) := rfl
theorem ex76 (st : St) : exec false st [0x0, 0x3, 0x4, 0x7e] = some ("v_mov_b32", execVALU st (eMov 256 2)) := rfl
theorem ex92 (st : St) : exec false st [0x1, 0x2, 0x6, 0x7e] = some ("v_mov_b32", execVALU st (eMov 1 3)) := rfl
theorem ex112 (st : St) : exec false st [0x3, 0x2, 0x6, 0x7e] = some ("v_mov_b32", execVALU st (eMov 3 3)) := rfl

def eCmp : VEnc := { op := (vopcTable 196).getD (un32 "" id), src0 := 2, src1 := 256 + 0, vdst := 0, lit := 0 }
theorem ex52 (st : St) : exec false st [0x2, 0x0, 0x88, 0x7d] = some ("v_cmp_gt_i32", execVALU st eCmp) := rfl

def eAshr : VEnc := { op := (vop3Table false 657).getD (un32 "" id), src0 := 128 + 30, src1 := 256 + 1, src2 := 0, vdst := 0 }
theorem ex80 (st : St) : exec false st [0x0, 0x0, 0x91, 0xd2, 0x9e, 0x2, 0x2, 0x0] = some ("v_ashrrev_i64", execVALU st eAshr) := rfl

theorem ex104 (st : St) : exec false st [0x0, 0x0, 0x50, 0xdc, 0x2, 0x0, 0x0, 0x2] =
    some ("load_dword", (activeLanes st).flatMap fun l => wrVN 2 l 1 (st.memRead (gAddr st 2 l) 4)) := rfl
theorem ex128 (st : St) : exec false st [0x0, 0x0, 0x70, 0xdc, 0x0, 0x2, 0x0, 0x0] =
    some ("store_dword", (activeLanes st).flatMap fun l => wrMemBytes (gAddr st 0 l) 4 (st.rvN 2 l 1)) := rfl
theorem wn0 : (win 0).take 8 = [0x2, 0x0, 0x2, 0xc0, 0x4, 0x0, 0x0, 0x0] := by decide
theorem wn24 : (win 24).take 8 = [0x83, 0x0, 0x2, 0xc0, 0x10, 0x0, 0x0, 0x0] := by decide
theorem wn32 : (win 32).take 8 = [0x3, 0x0, 0x6, 0xc0, 0x18, 0x0, 0x0, 0x0] := by decide
theorem wn64 : (win 64).take 8 = [0x3, 0x0, 0xa, 0xc0, 0x0, 0x0, 0x0, 0x0] := by decide
theorem wn40 : (win 40).take 4 = [0x8, 0x0, 0x0, 0x32] := by decide
theorem wn48 : (win 48).take 4 = [0x0, 0x0, 0x0, 0x32] := by decide
theorem wn96 : (win 96).take 4 = [0x0, 0x0, 0x4, 0x32] := by decide
theorem wn116 : (win 116).take 4 = [0x2, 0x0, 0x0, 0x32] := by decide
theorem wn100 : (win 100).take 4 = [0x3, 0x3, 0x6, 0x38] := by decide
theorem wn120 : (win 120).take 4 = [0x3, 0x3, 0x2, 0x38] := by decide
theorem wn72 : (win 72).take 4 = [0x80, 0x2, 0x2, 0x7e] := by decide
theorem wn76 : (win 76).take 4 = [0x0, 0x3, 0x4, 0x7e] := by decide
theorem wn92 : (win 92).take 4 = [0x1, 0x2, 0x6, 0x7e] := by decide
theorem wn112 : (win 112).take 4 = [0x3, 0x2, 0x6, 0x7e] := by decide
theorem wn52 : (win 52).take 4 = [0x2, 0x0, 0x88, 0x7d] := by decide
theorem wn80 : (win 80).take 8 = [0x0, 0x0, 0x91, 0xd2, 0x9e, 0x2, 0x2, 0x0] := by decide
theorem wn104 : (win 104).take 8 = [0x0, 0x0, 0x50, 0xdc, 0x2, 0x0, 0x0, 0x2] := by decide
theorem wn128 : (win 128).take 8 = [0x0, 0x0, 0x70, 0xdc, 0x0, 0x2, 0x0, 0x0] := by decide

end Copy
end Emu
end C01
