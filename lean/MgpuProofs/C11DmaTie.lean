import MgpuProofs.C11Dma
/-! # C11 helper: `Env.step` performs exactly the state updates of the executable `dmaOp` -/
namespace C11
def DrvSt.env (d : DrvSt) : Env := { s := d.s, outstanding := d.outstanding, cps := d.cps, nextCp := d.nextCp }
def Env.core (e : Env) : Dma × List MemReq × List CpReq × Nat := (e.s, e.outstanding, e.cps, e.nextCp)
theorem tie_tick (d : DrvSt) : (dmaOp d ["t"]).env.core = (d.env.step .tick).core := by
  simp [dmaOp, DrvSt.env, Env.core, Env.step]
theorem tie_drain (d : DrvSt) : (dmaOp d ["c"]).env.core = (d.env.step .drain).core := by
  simp [dmaOp, DrvSt.env, Env.core, Env.step]
theorem tie_take (d : DrvSt) (k : String) : (dmaOp d ["m", k]).env.core = (d.env.step (.take (k.toNat?.getD 0))).core := by
  simp [dmaOp, DrvSt.env, Env.core, Env.step]
theorem tie_copy_h (d : DrvSt) (a l : String) (x y : Nat) (ha : a.toNat? = some x) (hl : l.toNat? = some y) :
    (dmaOp d ["h", a, l]).env.core = (d.env.step (.copy .h2d x y)).core := by
  simp [dmaOp, DrvSt.env, Env.core, Env.step, ha, hl, List.head!]
theorem tie_copy_d (d : DrvSt) (a l : String) (x y : Nat) (ha : a.toNat? = some x) (hl : l.toNat? = some y) :
    (dmaOp d ["d", a, l]).env.core = (d.env.step (.copy .d2h x y)).core := by
  simp [dmaOp, DrvSt.env, Env.core, Env.step, ha, hl, List.head!]
theorem tie_respond (d : DrvSt) (j : String) :
    (dmaOp d ["r", j]).env.core = (d.env.step (.respond (j.toNat?.getD 0))).core := by
  simp only [dmaOp, DrvSt.env, Env.core, Env.step]
  cases ho : d.outstanding with
  | nil => simp
  | cons q qs =>
    simp only
    by_cases hfull : d.s.memIn.length ≥ d.s.memCap
    · simp [hfull]
    · simp only [hfull, if_false, List.length_cons]
      cases (q :: qs)[j.toNat?.getD 0 % (qs.length + 1)]? <;> simp [ho]
end C11
