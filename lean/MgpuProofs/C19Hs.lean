import MgpuModel.C19World
/-! Helper lemmas for C19 (handshake): the invariant of the driver's
    drain → shootdown → migrate → restart → RDMA-restart handshake under honest GPUs. -/
namespace C19

/-- the invariant of the closed handshake -/
structure HsInv (ngpu acc pages : Nat) (w : HsW) : Prop where
  c1 : w.h.ngpu = ngpu
  c2 : w.h.acc = acc
  c3 : w.h.pages = pages
  u : w.h.under = false
  mm : w.h.mmuIn ≤ 1
  e1 : w.h.drain + w.gotDrain = w.h.sentDrain
  e2 : w.h.shoot + w.gotShoot = w.h.sentShoot
  e4 : w.h.restart + w.gotRestart = w.h.sentRestart
  e5 : w.h.rdma + w.gotRdma = w.h.sentRdma
  m1 : w.gotMig + (if w.h.one = true then 1 else 0) = w.h.sentMig
  m2 : w.h.mig = w.h.toCP + (if w.h.one = true then 1 else 0)
  m3 : w.h.one = true ∨ w.h.toCP = 0
  x1 : w.h.drain = 0 ∨ (w.h.shoot = 0 ∧ w.h.mig = 0 ∧ w.h.restart = 0 ∧ w.h.rdma = 0)
  x2 : w.h.shoot = 0 ∨ (w.h.mig = 0 ∧ w.h.restart = 0 ∧ w.h.rdma = 0)
  x3 : w.h.mig = 0 ∨ (w.h.restart = 0 ∧ w.h.rdma = 0)
  x4 : w.h.restart = 0 ∨ w.h.rdma = 0
  hd : w.h.handling = false → w.h.drain = 0 ∧ w.h.shoot = 0 ∧ w.h.mig = 0 ∧ w.h.restart = 0 ∧ w.h.rdma = 0
  b1 : w.h.drain ≤ ngpu
  b2 : w.h.shoot ≤ acc
  b3 : w.h.mig ≤ pages
  b4 : w.h.restart ≤ acc
  b5 : w.h.rdma ≤ ngpu
  s1 : w.h.sentDrain = ngpu * w.taken
  s2 : w.h.sentShoot = acc * w.nD
  s3 : w.h.sentMig + w.h.toCP = pages * w.nS
  s4 : w.h.sentRestart = acc * w.h.rspMMU
  s5 : w.h.sentRdma = ngpu * w.nR
  t1 : w.h.handling = false → w.taken = w.nA
  t2 : w.h.handling = true → w.taken = w.nA + 1
  o1 : w.nA ≤ w.nR ∧ w.nR ≤ w.h.rspMMU ∧ w.h.rspMMU ≤ w.nS ∧ w.nS ≤ w.nD ∧ w.nD ≤ w.taken
  p1 : 0 < w.h.drain → w.nD < w.taken
  p2 : 0 < w.h.shoot → w.nS < w.nD
  p3 : 0 < w.h.mig → w.h.rspMMU < w.nS
  p4 : 0 < w.h.restart → w.nR < w.h.rspMMU
  p5 : 0 < w.h.rdma → w.nA < w.nR

theorem hsinv_drain {ngpu acc pages : Nat} {w : HsW} (hn : ngpu < w64) (ha : acc < w64) (hp : pages < w64)
    (I : HsInv ngpu acc pages w) (he : w.gotDrain < w.h.sentDrain) : HsInv ngpu acc pages (w.step .drainRsp) := by
  obtain ⟨c1, c2, c3, u, mm, e1, e2, e4, e5, m1, m2, m3, x1, x2, x3, x4, hd, b1, b2, b3, b4, b5, s1, s2, s3, s4, s5,
    t1, t2, o1, p1, p2, p3, p4, p5⟩ := I
  obtain ⟨h, gD, gS, gM, gR, gA, taken, nD, nS, nR, nA⟩ := w
  obtain ⟨ngpu', acc', pages', mmuIn, handling, drain, shoot, mig, restart, rdma, toCP, one, sD, sS, sM, sR, sA, rsp, under⟩ := h
  simp only at *
  subst c1 c2 c3
  have hdr : drain ≠ 0 := by omega
  have hh : handling = true := by
    cases handling with
    | true => rfl
    | false => have := (hd rfl).1; omega
  subst hh
  cases one <;> simp [HsW.step, hsDeliver, hsSettle, dec, hdr] <;> split <;> constructor <;> simp_all [Nat.mul_add] <;> omega

theorem hsinv_shoot {ngpu acc pages : Nat} {w : HsW} (hn : ngpu < w64) (ha : acc < w64) (hp : pages < w64)
    (I : HsInv ngpu acc pages w) (he : w.gotShoot < w.h.sentShoot) : HsInv ngpu acc pages (w.step .shootRsp) := by
  obtain ⟨c1, c2, c3, u, mm, e1, e2, e4, e5, m1, m2, m3, x1, x2, x3, x4, hd, b1, b2, b3, b4, b5, s1, s2, s3, s4, s5,
    t1, t2, o1, p1, p2, p3, p4, p5⟩ := I
  obtain ⟨h, gD, gS, gM, gR, gA, taken, nD, nS, nR, nA⟩ := w
  obtain ⟨ngpu', acc', pages', mmuIn, handling, drain, shoot, mig, restart, rdma, toCP, one, sD, sS, sM, sR, sA, rsp, under⟩ := h
  simp only at *
  subst c1 c2 c3
  have hdr : shoot ≠ 0 := by omega
  have hh : handling = true := by
    cases handling with
    | true => rfl
    | false => have := (hd rfl).2.1; omega
  subst hh
  have hm0 : mig = 0 := by omega
  subst hm0
  have ho : one = false := by
    cases one with
    | false => rfl
    | true => simp only [if_true] at m2; omega
  subst ho
  simp only [Bool.false_eq_true, if_false, Nat.add_zero] at m1 m2
  have ht0 : toCP = 0 := by omega
  subst ht0
  have hmod : pages' % w64 = pages' := Nat.mod_eq_of_lt hp
  by_cases hz : shoot - 1 = 0 <;> by_cases hp0 : pages' = 0 <;>
    simp [HsW.step, hsDeliver, hsSettle, dec, hdr, hmod, hz, hp0] <;> constructor <;>
    simp_all [Nat.mul_add] <;> omega

theorem hsinv_mig {ngpu acc pages : Nat} {w : HsW} (hn : ngpu < w64) (ha : acc < w64) (hp : pages < w64)
    (I : HsInv ngpu acc pages w) (he : w.gotMig < w.h.sentMig) : HsInv ngpu acc pages (w.step .migRsp) := by
  obtain ⟨c1, c2, c3, u, mm, e1, e2, e4, e5, m1, m2, m3, x1, x2, x3, x4, hd, b1, b2, b3, b4, b5, s1, s2, s3, s4, s5,
    t1, t2, o1, p1, p2, p3, p4, p5⟩ := I
  obtain ⟨h, gD, gS, gM, gR, gA, taken, nD, nS, nR, nA⟩ := w
  obtain ⟨ngpu', acc', pages', mmuIn, handling, drain, shoot, mig, restart, rdma, toCP, one, sD, sS, sM, sR, sA, rsp, under⟩ := h
  simp only at *
  subst c1 c2 c3
  have ho : one = true := by cases one <;> simp_all <;> omega
  subst ho
  simp only [if_true] at m1 m2
  have hdr : mig ≠ 0 := by omega
  have hh : handling = true := by
    cases handling with
    | true => rfl
    | false => have := (hd rfl).2.2.1; omega
  subst hh
  have hr0 : restart = 0 := by omega
  subst hr0
  have hmod : acc' % w64 = acc' := Nat.mod_eq_of_lt ha
  by_cases hz : mig - 1 = 0 <;> by_cases ht : toCP = 0 <;>
    simp [HsW.step, hsDeliver, hsSettle, dec, hdr, hmod, hz, ht] <;> constructor <;>
    simp_all [Nat.mul_add] <;> omega

theorem hsinv_restart {ngpu acc pages : Nat} {w : HsW} (hn : ngpu < w64) (ha : acc < w64) (hp : pages < w64)
    (I : HsInv ngpu acc pages w) (he : w.gotRestart < w.h.sentRestart) :
    HsInv ngpu acc pages (w.step .restartRsp) := by
  obtain ⟨c1, c2, c3, u, mm, e1, e2, e4, e5, m1, m2, m3, x1, x2, x3, x4, hd, b1, b2, b3, b4, b5, s1, s2, s3, s4, s5,
    t1, t2, o1, p1, p2, p3, p4, p5⟩ := I
  obtain ⟨h, gD, gS, gM, gR, gA, taken, nD, nS, nR, nA⟩ := w
  obtain ⟨ngpu', acc', pages', mmuIn, handling, drain, shoot, mig, restart, rdma, toCP, one, sD, sS, sM, sR, sA, rsp, under⟩ := h
  simp only at *
  subst c1 c2 c3
  have hdr : restart ≠ 0 := by omega
  have hh : handling = true := by
    cases handling with
    | true => rfl
    | false => have := (hd rfl).2.2.2.1; omega
  subst hh
  have hr0 : rdma = 0 := by omega
  subst hr0
  have hmod : ngpu' % w64 = ngpu' := Nat.mod_eq_of_lt hn
  cases one <;> simp [HsW.step, hsDeliver, hsSettle, dec, hdr, hmod] <;> split <;> constructor <;>
    simp_all [Nat.mul_add] <;> omega

theorem hsinv_rdma {ngpu acc pages : Nat} {w : HsW} (hn : ngpu < w64) (ha : acc < w64) (hp : pages < w64)
    (I : HsInv ngpu acc pages w) (he : w.gotRdma < w.h.sentRdma) : HsInv ngpu acc pages (w.step .rdmaRsp) := by
  obtain ⟨c1, c2, c3, u, mm, e1, e2, e4, e5, m1, m2, m3, x1, x2, x3, x4, hd, b1, b2, b3, b4, b5, s1, s2, s3, s4, s5,
    t1, t2, o1, p1, p2, p3, p4, p5⟩ := I
  obtain ⟨h, gD, gS, gM, gR, gA, taken, nD, nS, nR, nA⟩ := w
  obtain ⟨ngpu', acc', pages', mmuIn, handling, drain, shoot, mig, restart, rdma, toCP, one, sD, sS, sM, sR, sA, rsp, under⟩ := h
  simp only at *
  subst c1 c2 c3
  have hdr : rdma ≠ 0 := by omega
  have hh : handling = true := by
    cases handling with
    | true => rfl
    | false => have := (hd rfl).2.2.2.2; omega
  subst hh
  have hd0 : drain = 0 := by omega
  subst hd0
  have hmod : ngpu' % w64 = ngpu' := Nat.mod_eq_of_lt hn
  have hmm : mmuIn = 0 ∨ mmuIn = 1 := by omega
  rcases hmm with rfl | rfl <;> cases one <;> simp [HsW.step, hsDeliver, hsSettle, dec, hdr, hmod] <;>
    split <;> constructor <;> simp_all [Nat.mul_add] <;> omega

theorem hsinv_mmu {ngpu acc pages : Nat} {w : HsW} (hn : ngpu < w64) (ha : acc < w64) (hp : pages < w64)
    (I : HsInv ngpu acc pages w) : HsInv ngpu acc pages (w.step .fromMMU) := by
  obtain ⟨c1, c2, c3, u, mm, e1, e2, e4, e5, m1, m2, m3, x1, x2, x3, x4, hd, b1, b2, b3, b4, b5, s1, s2, s3, s4, s5,
    t1, t2, o1, p1, p2, p3, p4, p5⟩ := I
  obtain ⟨h, gD, gS, gM, gR, gA, taken, nD, nS, nR, nA⟩ := w
  obtain ⟨ngpu', acc', pages', mmuIn, handling, drain, shoot, mig, restart, rdma, toCP, one, sD, sS, sM, sR, sA, rsp, under⟩ := h
  simp only at *
  subst c1 c2 c3
  have hmod : ngpu' % w64 = ngpu' := Nat.mod_eq_of_lt hn
  have hmm : mmuIn = 0 ∨ mmuIn = 1 := by omega
  rcases hmm with rfl | rfl <;> cases handling <;> cases one <;>
    simp [HsW.step, hsDeliver, hsSettle, hmod] <;> constructor <;> simp_all [Nat.mul_add] <;> omega

theorem hsreach_inv {ngpu acc pages : Nat} {w : HsW} (hn : ngpu < w64) (ha : acc < w64) (hp : pages < w64)
    (h : HsReach ngpu acc pages w) : HsInv ngpu acc pages w := by
  induction h with
  | init => constructor <;> simp
  | step o _ he ih =>
    cases o with
    | fromMMU => exact hsinv_mmu hn ha hp ih
    | drainRsp => exact hsinv_drain hn ha hp ih he
    | shootRsp => exact hsinv_shoot hn ha hp ih he
    | migRsp => exact hsinv_mig hn ha hp ih he
    | restartRsp => exact hsinv_restart hn ha hp ih he
    | rdmaRsp => exact hsinv_rdma hn ha hp ih he

/-! ### the page-per-GPU map -/

theorem lookup_iff_mem {l : List (Nat × List Nat)} (hn : (l.map Prod.fst).Nodup) (k : Nat) (v : List Nat) :
    l.lookup k = some v ↔ (k, v) ∈ l := by
  induction l with
  | nil => simp
  | cons e l ih =>
    obtain ⟨k', v'⟩ := e
    simp only [List.map_cons, List.nodup_cons] at hn
    by_cases hk : k = k'
    · subst hk
      simp only [List.lookup, beq_self_eq_true, Option.some.injEq, List.mem_cons, Prod.mk.injEq, true_and]
      constructor
      · intro e; exact Or.inl e.symm
      · rintro (e | e)
        · exact e.symm
        · exact absurd (List.mem_map.mpr ⟨_, e, rfl⟩) hn.1
    · have : (k == k') = false := by simpa using hk
      simp only [List.lookup, this, ih hn.2, List.mem_cons, Prod.mk.injEq, hk, false_and, false_or]

theorem lookup_perm {l l' : List (Nat × List Nat)} (hp : l.Perm l') (hn : (l.map Prod.fst).Nodup) (k : Nat) :
    l.lookup k = l'.lookup k := by
  have hn' : (l'.map Prod.fst).Nodup := (hp.map Prod.fst).nodup_iff.mp hn
  cases h : l'.lookup k with
  | some v => rw [lookup_iff_mem hn, hp.mem_iff, ← lookup_iff_mem hn']; exact h
  | none =>
    cases h2 : l.lookup k with
    | none => rfl
    | some v =>
      have := (lookup_iff_mem hn' k v).mpr (hp.mem_iff.mp ((lookup_iff_mem hn k v).mp h2))
      rw [h] at this; cases this

/-- a conforming run for 2 GPUs, 1 accessing GPU and 2 pages: request, drains, shootdown, two page
    acks, restart, RDMA restarts -/
def demoHs : List HsOp :=
  [.fromMMU, .drainRsp, .drainRsp, .shootRsp, .migRsp, .migRsp, .restartRsp, .rdmaRsp, .rdmaRsp]

def runHs (w : HsW) (ops : List HsOp) : HsW := ops.foldl HsW.step w

def allEnabled : HsW → List HsOp → Bool
  | _, [] => true
  | w, o :: ops => decide (w.enabled o) && allEnabled (w.step o) ops

theorem hsreach_run {ngpu acc pages : Nat} {w : HsW} (h : HsReach ngpu acc pages w) (ops : List HsOp)
    (hv : allEnabled w ops = true) : HsReach ngpu acc pages (runHs w ops) := by
  induction ops generalizing w with
  | nil => exact h
  | cons o ops ih =>
    simp only [allEnabled, Bool.and_eq_true, decide_eq_true_eq] at hv
    exact ih (HsReach.step o h hv.1) hv.2

end C19
