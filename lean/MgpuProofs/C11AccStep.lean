import MgpuModel.C11
import MgpuProofs.C11Copy
import MgpuProofs.Props.C11
/-! Per-byte specification of the accessor model and the one-step refinement lemma
(helper for `Props/C11Acc.lean`). -/
namespace C11

/-- every byte of `[a, a+len)` has a page in `pt` -/
def mappedRange (pt : List Page) (a len : Nat) : Bool :=
  (List.range len).all fun i => (translate pt (a + i)).isSome

/-- per-byte specification of a write of `d` at virtual address `a` under table `pt`: physical byte
    `q` receives `d[k]` when `q` is the translation of `a + k`, and keeps its content otherwise -/
def physWrite (pt : List Page) (a : Nat) (d : List Nat) (m : Mem) : Mem := fun q =>
  match (List.range d.length).find? (fun k => translate pt (a + k) == some q) with
  | some k => d.getD k 0
  | none => m q

/-- per-byte specification of one step: no pages, no pieces — only `translate` under the table that
    is current at this step -/
def accSpecStep (s : AccSt) : AccOp → AccSt
  | .setPt pt => { s with pt := pt }
  | .write a d =>
    if mappedRange s.pt a d.length then { s with m := physWrite s.pt a d s.m, outs := s.outs ++ [some []] }
    else { s with outs := s.outs ++ [none] }
  | .read a l =>
    if mappedRange s.pt a l then
      { s with outs := s.outs ++ [some ((List.range l).map fun i => s.m (tr s.pt (a + i)))] }
    else { s with outs := s.outs ++ [none] }

def accSpecRun (s : AccSt) (ops : List AccOp) : AccSt := ops.foldl accSpecStep s

theorem mappedRange_iff {pt : List Page} {a len : Nat} :
    mappedRange pt a len = true ↔ ∀ i, i < len → translate pt (a + i) ≠ none := by
  simp only [mappedRange, List.all_eq_true, List.mem_range, Option.isSome_iff_ne_none]

/-- one step of the page-wise model equals the per-byte specification, for every injective table -/
theorem accStep_eq_spec (s : AccSt) (hinj : PtInj s.pt) (op : AccOp) : accStep s op = accSpecStep s op := by
  cases op with
  | setPt pt => rfl
  | write a d =>
    simp only [accStep, accSpecStep]
    by_cases hm : mappedRange s.pt a d.length = true
    · rw [if_pos hm]
      obtain ⟨m', h⟩ := (h2d_defined_iff s.pt s.m a d).2 (mappedRange_iff.1 hm)
      rw [h]
      have : m' = physWrite s.pt a d s.m := by
        funext q
        unfold physWrite
        cases hf : (List.range d.length).find? (fun k => translate s.pt (a + k) == some q) with
        | some k =>
          have hk := List.find?_some hf
          have hkm := List.mem_of_find?_eq_some hf
          simp only [beq_iff_eq] at hk
          obtain ⟨h1, h2⟩ := h2d_bytes s.pt hinj s.m m' a d h k (List.mem_range.1 hkm)
          rw [h1] at hk
          cases hk
          exact h2
        | none =>
          rw [List.find?_eq_none] at hf
          apply h2d_frame s.pt hinj s.m m' a d h q
          intro i hi he
          have := hf i (List.mem_range.2 hi)
          simp [he] at this
      rw [this]
    · rw [if_neg hm]
      cases h : h2d s.pt s.m a d with
      | none => rfl
      | some m' => exact absurd (mappedRange_iff.2 ((h2d_defined_iff s.pt s.m a d).1 ⟨m', h⟩)) hm
  | read a l =>
    simp only [accStep, accSpecStep]
    by_cases hm : mappedRange s.pt a l = true
    · rw [if_pos hm]
      obtain ⟨ps, hp⟩ := pieces_some_of_mapped (off := 0) (Nat.le_refl l) (mappedRange_iff.1 hm)
      have hd : ∃ out, d2h s.pt s.m a l = some out := by unfold d2h; rw [hp]; exact ⟨_, rfl⟩
      obtain ⟨out, ho⟩ := hd
      rw [ho, d2h_spec hinj ho]
    · rw [if_neg hm]
      cases h : d2h s.pt s.m a l with
      | none => rfl
      | some out =>
        exfalso; apply hm; rw [mappedRange_iff]
        unfold d2h at h
        cases hp : pieces s.pt l a 0 l with
        | none => simp [hp] at h
        | some ps => exact pieces_mapped (Nat.le_refl _) hp

end C11
