import MgpuProofs.C10BuddyFull
/-!
Buddy allocator: histories WITHOUT the legality filter of `runLive`. `runAny` executes every `add`, whatever pages
it names (`addSinglePAddr` of a page without a `blockTracking` entry returns at once), and keeps the list of pages
handed out and not named by a later `add`. The tree invariant and "live ⊆ tracked" survive, hence the safety
statement holds for ALL histories: the hypothesis `legal` of `buddy_disjoint_full` can be dropped.
-/
namespace C10.Buddy

/-- pages handed out and not named by a later `add`, and the state, after the successful prefix of a history -/
def runAny : State → List Nat → List Op → List Nat × State
  | s, live, [] => (live, s)
  | s, live, op :: ops =>
    match step s op with
    | .error _ => (live, s)
    | .ok (ps, s') =>
      match op with
      | .add qs => runAny s' (live.filter (fun p => !qs.contains p)) ops
      | _ => runAny s' (live ++ ps) ops

theorem finv_runAny {F : Nat} : ∀ (ops : List Op) (s : State) (live : List Nat), FInv F s →
    (∀ p ∈ live, Tracked s p) →
    FInv F (runAny s live ops).2 ∧ ∀ p ∈ (runAny s live ops).1, Tracked (runAny s live ops).2 p := by
  intro ops
  induction ops with
  | nil =>
    intro s live h hl
    exact ⟨h, hl⟩
  | cons op ops ih =>
    intro s live h hl
    simp only [runAny]
    split
    · exact ⟨h, hl⟩
    · rename_i out s1 hstep
      cases op with
      | add qs =>
        simp only [step] at hstep
        split at hstep
        · cases hstep
        · rename_i s2 hadd
          injection hstep with hstep
          injection hstep with _ e
          subst e
          obtain ⟨f1, _, m1⟩ := finv_addAll qs s s2 h hadd
          apply ih s2 _ f1
          intro p hp
          obtain ⟨hp1, hp2⟩ := List.mem_filter.mp hp
          have hnp : p ∉ qs := by simpa using hp2
          exact m1 p hnp (hl p hp1)
      | pop k =>
        simp only [step] at hstep
        obtain ⟨f1, _, m1⟩ := finv_popN k s s1 out h hstep
        apply ih s1 _ f1
        intro p hp
        rcases List.mem_append.mp hp with hp | hp
        · exact m1 p (Or.inr (hl p hp))
        · exact m1 p (Or.inl hp)
      | am n =>
        simp only [step] at hstep
        obtain ⟨f1, _, m1⟩ := finv_amOp h hstep
        apply ih s1 _ f1
        intro p hp
        rcases List.mem_append.mp hp with hp | hp
        · exact m1 p (Or.inr (hl p hp))
        · exact m1 p (Or.inl hp)

theorem runAny_safe (F base : Nat) (ops : List Op) :
    NoLiveInFree (runAny (init base (4096 * 2 ^ F)) [] ops).2 (runAny (init base (4096 * 2 ^ F)) [] ops).1 ∧
    FreeDisjoint (runAny (init base (4096 * 2 ^ F)) [] ops).2 := by
  obtain ⟨f, m⟩ := finv_runAny ops (init base (4096 * 2 ^ F)) [] (finv_init F base) (by simp)
  exact f.safe _ m

end C10.Buddy
