import MgpuProofs.C16Live
/-! # C16 — the stale sets are exactly "sent / forwarded in an earlier flush epoch"

`EInv sT sM s`: every forwarded request and every lookup is tagged with an epoch ≤ the current one,
and those tagged with an *earlier* epoch are in the stale sets `sM` / `sT` (the snapshots the
flushing tick takes). So the ghost stale sets of `CW` can be read off the epoch-tagged logs. -/
namespace C16

structure EInv (sT : List TReq) (sM : List FwdLog) (s : St) : Prop where
  fe : ∀ l ∈ s.forwarded, l.epoch ≤ s.epoch
  fs : ∀ l ∈ s.forwarded, l.epoch < s.epoch → l ∈ sM
  ae : ∀ p ∈ s.askedAt, p.2 ≤ s.epoch
  as_ : ∀ p ∈ s.askedAt, p.2 < s.epoch → ∃ q ∈ sT, q.tid = p.1
  ab : ∀ p ∈ s.askedAt, ∃ q ∈ s.asked, q.tid = p.1
  aa : ∀ q ∈ s.asked, ∃ ep, (q.tid, ep) ∈ s.askedAt

variable {sT : List TReq} {sM : List FwdLog}

theorem EInv.of_eq {s s' : St} (h : EInv sT sM s) (e1 : s'.forwarded = s.forwarded)
    (e2 : s'.askedAt = s.askedAt) (e3 : s'.asked = s.asked) (e4 : s'.epoch = s.epoch) : EInv sT sM s' := by
  refine ⟨?_, ?_, ?_, ?_, ?_, ?_⟩
  · rw [e1, e4]; exact h.fe
  · rw [e1, e4]; exact h.fs
  · rw [e2, e4]; exact h.ae
  · rw [e2, e4]; exact h.as_
  · rw [e2, e3]; exact h.ab
  · rw [e2, e3]; exact h.aa

theorem translate_einv (c : Cfg) (s : St) (h : EInv sT sM s) : EInv sT sM (translate c s).1 := by
  unfold translate
  split
  · exact h
  · split
    · exact h.of_eq rfl rfl rfl rfl
    · split
      · refine ⟨h.fe, h.fs, ?_, ?_, ?_, ?_⟩
        · intro p hp
          simp only [List.mem_cons] at hp
          rcases hp with rfl | hp
          · exact Nat.le_refl _
          · exact h.ae p hp
        · intro p hp hlt
          simp only [List.mem_cons] at hp
          rcases hp with rfl | hp
          · exact absurd hlt (Nat.lt_irrefl _)
          · exact h.as_ p hp hlt
        · intro p hp
          simp only [List.mem_cons] at hp
          rcases hp with rfl | hp
          · exact ⟨_, List.mem_cons_self .., rfl⟩
          · obtain ⟨q, hq, he⟩ := h.ab p hp
            exact ⟨q, List.mem_cons_of_mem _ hq, he⟩
        · intro q hq
          simp only [List.mem_cons] at hq
          rcases hq with rfl | hq
          · exact ⟨s.epoch, List.mem_cons_self ..⟩
          · obtain ⟨ep, he⟩ := h.aa q hq
            exact ⟨ep, List.mem_cons_of_mem _ he⟩
      · exact h

theorem emit_einv (c : Cfg) (s : St) (a : Acc) (p : Nat) (txs' : List Tx) (h : EInv sT sM s) :
    EInv sT sM (emit c s a p txs') := by
  refine ⟨?_, ?_, h.ae, h.as_, h.ab, h.aa⟩
  · intro l hl
    simp only [emit, List.mem_cons] at hl
    rcases hl with rfl | hl
    · exact Nat.le_refl _
    · exact h.fe l hl
  · intro l hl hlt
    simp only [emit, List.mem_cons] at hl
    rcases hl with rfl | hl
    · exact absurd hlt (Nat.lt_irrefl _)
    · exact h.fs l hl hlt

theorem parseTranslation_einv (c : Cfg) (s : St) (h : EInv sT sM s) : EInv sT sM (parseTranslation c s).1 := by
  unfold parseTranslation
  split
  · split
    · split
      · exact emit_einv c s _ _ _ h
      · exact h
    · exact h
  · split
    · exact h
    · rename_i r rest htr
      split
      · exact h.of_eq rfl rfl rfl rfl
      · rename_i t txs' hp
        split
        · exact h.of_eq rfl rfl rfl rfl
        · rename_i a rs hreq
          split
          · have := emit_einv c { s with txs := markFirst (hasTid r.rspTo) r.paddr s.txs } a r.paddr txs'
              (h.of_eq rfl rfl rfl rfl)
            exact this.of_eq rfl rfl rfl rfl
          · exact h.of_eq rfl rfl rfl rfl

theorem respond_einv (c : Cfg) (s : St) (h : EInv sT sM s) : EInv sT sM (respond c s).1 := by
  unfold respond
  split
  · exact h
  · split
    · exact h.of_eq rfl rfl rfl rfl
    · split
      · exact h.of_eq rfl rfl rfl rfl
      · exact h

theorem pipe_einv (c : Cfg) (s : St) (h : EInv sT sM s) : EInv sT sM (pipe c s).1 :=
  pipe_pres2 c (fun s h _ => respond_einv c s h) (parseTranslation_einv c) (fun s h _ => translate_einv c s h) s h

theorem handleCtrl_logs (s : St) :
    (handleCtrl s).1.asked = s.asked ∧ (handleCtrl s).1.forwarded = s.forwarded ∧
    (handleCtrl s).1.askedAt = s.askedAt := by
  unfold handleCtrl; split
  · exact ⟨rfl, rfl, rfl⟩
  · split <;> exact ⟨rfl, rfl, rfl⟩
  · split <;> exact ⟨rfl, rfl, rfl⟩
  · exact ⟨rfl, rfl, rfl⟩

theorem einv_step (c : Cfg) (e : Env) (w : CW) (o : HOp) (h : EInv w.staleT w.staleM w.s) :
    EInv (hstep c e w o).staleT (hstep c e w o).staleM (hstep c e w o).s := by
  cases o with
  | tick =>
    simp only [hstep]
    split
    · have h1 := pipe_einv c w.s h
      have hs := pipe_same c w.s
      obtain ⟨l1, l2, l3⟩ := handleCtrl_logs (pipe c w.s).1
      have hte : (tick c w.s).1 = (handleCtrl (pipe c w.s).1).1 := rfl
      rcases handleCtrl_cases (pipe c w.s).1 with ⟨k1, _⟩ | ⟨k1, _⟩
      · have hep : (tick c w.s).1.epoch = w.s.epoch := by rw [hte, k1, hs.2.2.1]
        have hfl : decide ((tick c w.s).1.epoch ≠ w.s.epoch) = false := by simp [hep]
        simp only [hfl, Bool.false_eq_true, if_false]
        rw [hte]
        exact h1.of_eq l2 l3 l1 k1
      · have hep : (tick c w.s).1.epoch = w.s.epoch + 1 := by rw [hte, k1, hs.2.2.1]
        have hfl : decide ((tick c w.s).1.epoch ≠ w.s.epoch) = true := by simp [hep]
        simp only [hfl, if_true]
        rw [hte]
        refine ⟨?_, ?_, ?_, ?_, ?_, ?_⟩
        · intro l hl
          rw [l2] at hl
          have := h1.fe l hl
          rw [k1]; omega
        · intro l hl _; exact hl
        · intro p hp
          rw [l3] at hp
          have := h1.ae p hp
          rw [k1]; omega
        · intro p hp _
          rw [l3] at hp
          obtain ⟨q, hq, he⟩ := h1.ab p hp
          exact ⟨q, by rw [l1]; exact hq, he⟩
        · rw [l3, l1]; exact h1.ab
        · rw [l3, l1]; exact h1.aa
    · exact h
  | access pid va pl =>
    simp only [hstep, step]
    split <;> exact h.of_eq rfl rfl rfl rfl
  | ansT j =>
    simp only [hstep]
    split
    · exact h
    · split
      · rename_i hlt
        simp only [step, hlt, if_true]
        exact h.of_eq rfl rfl rfl rfl
      · exact h
  | ansM j =>
    simp only [hstep]
    split
    · exact h
    · split
      · rename_i hlt
        simp only [step, hlt, if_true]
        exact h.of_eq rfl rfl rfl rfl
      · exact h
  | drainTop =>
    simp only [hstep]
    split
    · exact h
    · exact h.of_eq rfl rfl rfl rfl
  | drainBot =>
    simp only [hstep]
    split
    · exact h
    · exact h.of_eq rfl rfl rfl rfl
  | drainTr =>
    simp only [hstep]
    split
    · exact h
    · exact h.of_eq rfl rfl rfl rfl
  | drainCtl =>
    simp only [hstep]
    split
    · exact h.of_eq rfl rfl rfl rfl
    · exact h
  | flush =>
    simp only [hstep, step]
    split <;> exact h.of_eq rfl rfl rfl rfl
  | restart =>
    simp only [hstep]
    split
    · simp only [step]
      split <;> exact h.of_eq rfl rfl rfl rfl
    · exact h

theorem reach_einv {c : Cfg} {e : Env} {w : CW} (h : Reach c e w) : EInv w.staleT w.staleM w.s := by
  induction h with
  | init => exact ⟨by simp, by simp, by simp, by simp, by simp, by simp⟩
  | step w o _ ih => exact einv_step c e w o ih

/-- no move of the component or of an honest neighbour ever increases the world measure -/
theorem wmu_monotone (c : Cfg) (e : Env) (w : CW) (o : HOp) (ho : o.internal = true) :
    wmu (hstep c e w o) ≤ wmu w := by
  cases o with
  | access pid va pl => simp [HOp.internal] at ho
  | flush => simp [HOp.internal] at ho
  | restart => simp [HOp.internal] at ho
  | tick =>
    simp only [hstep]
    split
    · have := (tick_sdec c w.s).1
      simp only [wmu]; omega
    · exact Nat.le_refl _
  | ansT j =>
    simp only [hstep]
    split
    · exact Nat.le_refl _
    · rename_i q0 qs hq
      split
      · rename_i hlt
        have hne : 0 < w.envT.length := by rw [hq]; simp
        have := length_removeNth w.envT (j % w.envT.length) (Nat.mod_lt _ hne)
        simp only [wmu, smu, mu, step, hlt, if_true, List.length_append, List.length_singleton]
        omega
      · exact Nat.le_refl _
  | ansM j =>
    simp only [hstep]
    split
    · exact Nat.le_refl _
    · rename_i q0 qs hq
      split
      · rename_i hlt
        have hne : 0 < w.envM.length := by rw [hq]; simp
        have := length_removeNth w.envM (j % w.envM.length) (Nat.mod_lt _ hne)
        simp only [wmu, smu, mu, step, hlt, if_true, List.length_append, List.length_singleton]
        omega
      · exact Nat.le_refl _
  | drainTop =>
    by_cases h : w.s.topOut = []
    · simp [hstep, h]
    · exact Nat.le_of_lt (prod_drainTop c e w h).2
  | drainBot =>
    by_cases h : w.s.botOut = []
    · simp [hstep, h]
    · exact Nat.le_of_lt (prod_drainBot c e w h).2
  | drainTr =>
    by_cases h : w.s.trOut = []
    · simp [hstep, h]
    · exact Nat.le_of_lt (prod_drainTr c e w h).2
  | drainCtl =>
    by_cases h : 0 < w.s.ctlOut
    · exact Nat.le_of_lt (prod_drainCtl c e w h).2
    · simp [hstep, h]

theorem wmu_monotone_run (c : Cfg) (e : Env) : ∀ (os : List HOp) (w : CW), (∀ o ∈ os, o.internal = true) →
    wmu (hrun c e w os) ≤ wmu w := by
  intro os
  induction os with
  | nil => intro w _; exact Nat.le_refl _
  | cons o os ih =>
    intro w h
    have h1 := wmu_monotone c e w o (h o (List.mem_cons_self ..))
    have h2 := ih (hstep c e w o) (fun o' ho' => h o' (List.mem_cons_of_mem _ ho'))
    simp only [hrun, List.foldl_cons] at h2 ⊢
    omega

end C16
