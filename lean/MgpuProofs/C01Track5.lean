import MgpuModel.C01_Emu
import MgpuProofs.C01Insts
/-! # C01 — tracking a few registers through a straight-line kernel (five vector registers)

Port of `C01Track.lean` (tracker `T`, four vector registers) to `T5` with v0…v4.

`T5` is a flat record of what a proof about a small kernel follows: PC, EXEC, VCC, the scalar registers
s0…s8, the vector registers v0…v4 (per lane) and the memory content.  `Tracks5 st t` says some `View`
of the state agrees with `t` on those.  Each instruction class of `C01Insts.lean` is lifted to an
update of `T5`; with concrete register numbers every update reduces to a plain record update. -/
set_option linter.unusedSimpArgs false
set_option linter.unusedVariables false
namespace C01
namespace Emu
open C03V

structure T5 where
  pc : Nat
  exec : Nat
  vcc : Nat
  s0 : Nat
  s1 : Nat
  s2 : Nat
  s3 : Nat
  s4 : Nat
  s5 : Nat
  s6 : Nat
  s7 : Nat
  s8 : Nat
  v0 : Nat → Nat
  v1 : Nat → Nat
  v2 : Nat → Nat
  v3 : Nat → Nat
  v4 : Nat → Nat
  mem : Nat → Nat

def T5.s (t : T5) : Nat → Nat
  | 0 => t.s0 | 1 => t.s1 | 2 => t.s2 | 3 => t.s3 | 4 => t.s4 | 5 => t.s5 | 6 => t.s6 | 7 => t.s7 | _ => t.s8

def T5.v (t : T5) : Nat → Nat → Nat
  | 0 => t.v0 | 1 => t.v1 | 2 => t.v2 | 3 => t.v3 | _ => t.v4

def T5.setS (t : T5) : Nat → Nat → T5
  | 0, x => { t with s0 := x } | 1, x => { t with s1 := x } | 2, x => { t with s2 := x }
  | 3, x => { t with s3 := x } | 4, x => { t with s4 := x } | 5, x => { t with s5 := x }
  | 6, x => { t with s6 := x } | 7, x => { t with s7 := x } | _, x => { t with s8 := x }

def T5.setV (t : T5) : Nat → (Nat → Nat) → T5
  | 0, f => { t with v0 := f } | 1, f => { t with v1 := f } | 2, f => { t with v2 := f }
  | 3, f => { t with v3 := f } | _, f => { t with v4 := f }

def T5.setPc (t : T5) (p : Nat) : T5 := { t with pc := p }
def T5.setExec (t : T5) (p : Nat) : T5 := { t with exec := p }
def T5.setVcc (t : T5) (p : Nat) : T5 := { t with vcc := p }
def T5.setMem (t : T5) (m : Nat → Nat) : T5 := { t with mem := m }

@[simp] theorem T5.setPc_pc (t : T5) (p : Nat) : (t.setPc p).pc = p := rfl
@[simp] theorem T5.setPc_exec (t : T5) (p : Nat) : (t.setPc p).exec = t.exec := rfl
@[simp] theorem T5.setPc_vcc (t : T5) (p : Nat) : (t.setPc p).vcc = t.vcc := rfl
@[simp] theorem T5.setPc_mem (t : T5) (p : Nat) : (t.setPc p).mem = t.mem := rfl
@[simp] theorem T5.setPc_s (t : T5) (p : Nat) (i : Nat) : (t.setPc p).s i = t.s i := rfl
@[simp] theorem T5.setPc_v (t : T5) (p : Nat) (r : Nat) : (t.setPc p).v r = t.v r := rfl
@[simp] theorem T5.setExec_pc (t : T5) (p : Nat) : (t.setExec p).pc = t.pc := rfl
@[simp] theorem T5.setExec_exec (t : T5) (p : Nat) : (t.setExec p).exec = p := rfl
@[simp] theorem T5.setExec_vcc (t : T5) (p : Nat) : (t.setExec p).vcc = t.vcc := rfl
@[simp] theorem T5.setExec_mem (t : T5) (p : Nat) : (t.setExec p).mem = t.mem := rfl
@[simp] theorem T5.setExec_s (t : T5) (p : Nat) (i : Nat) : (t.setExec p).s i = t.s i := rfl
@[simp] theorem T5.setExec_v (t : T5) (p : Nat) (r : Nat) : (t.setExec p).v r = t.v r := rfl
@[simp] theorem T5.setVcc_pc (t : T5) (p : Nat) : (t.setVcc p).pc = t.pc := rfl
@[simp] theorem T5.setVcc_exec (t : T5) (p : Nat) : (t.setVcc p).exec = t.exec := rfl
@[simp] theorem T5.setVcc_vcc (t : T5) (p : Nat) : (t.setVcc p).vcc = p := rfl
@[simp] theorem T5.setVcc_mem (t : T5) (p : Nat) : (t.setVcc p).mem = t.mem := rfl
@[simp] theorem T5.setVcc_s (t : T5) (p : Nat) (i : Nat) : (t.setVcc p).s i = t.s i := rfl
@[simp] theorem T5.setVcc_v (t : T5) (p : Nat) (r : Nat) : (t.setVcc p).v r = t.v r := rfl
@[simp] theorem T5.setMem_pc (t : T5) (p : Nat → Nat) : (t.setMem p).pc = t.pc := rfl
@[simp] theorem T5.setMem_exec (t : T5) (p : Nat → Nat) : (t.setMem p).exec = t.exec := rfl
@[simp] theorem T5.setMem_vcc (t : T5) (p : Nat → Nat) : (t.setMem p).vcc = t.vcc := rfl
@[simp] theorem T5.setMem_mem (t : T5) (p : Nat → Nat) : (t.setMem p).mem = p := rfl
@[simp] theorem T5.setMem_s (t : T5) (p : Nat → Nat) (i : Nat) : (t.setMem p).s i = t.s i := rfl
@[simp] theorem T5.setMem_v (t : T5) (p : Nat → Nat) (r : Nat) : (t.setMem p).v r = t.v r := rfl
@[simp] theorem T5.setS_pc (t : T5) (i x : Nat) : (t.setS i x).pc = t.pc :=
  match i with
  | 0 => rfl | 1 => rfl | 2 => rfl | 3 => rfl | 4 => rfl | 5 => rfl | 6 => rfl | 7 => rfl | 8 => rfl | (_ + 9) => rfl
@[simp] theorem T5.setV_pc (t : T5) (r : Nat) (f : Nat → Nat) : (t.setV r f).pc = t.pc :=
  match r with
  | 0 => rfl | 1 => rfl | 2 => rfl | 3 => rfl | (_ + 4) => rfl
@[simp] theorem T5.setS_exec (t : T5) (i x : Nat) : (t.setS i x).exec = t.exec :=
  match i with
  | 0 => rfl | 1 => rfl | 2 => rfl | 3 => rfl | 4 => rfl | 5 => rfl | 6 => rfl | 7 => rfl | 8 => rfl | (_ + 9) => rfl
@[simp] theorem T5.setV_exec (t : T5) (r : Nat) (f : Nat → Nat) : (t.setV r f).exec = t.exec :=
  match r with
  | 0 => rfl | 1 => rfl | 2 => rfl | 3 => rfl | (_ + 4) => rfl
@[simp] theorem T5.setS_vcc (t : T5) (i x : Nat) : (t.setS i x).vcc = t.vcc :=
  match i with
  | 0 => rfl | 1 => rfl | 2 => rfl | 3 => rfl | 4 => rfl | 5 => rfl | 6 => rfl | 7 => rfl | 8 => rfl | (_ + 9) => rfl
@[simp] theorem T5.setV_vcc (t : T5) (r : Nat) (f : Nat → Nat) : (t.setV r f).vcc = t.vcc :=
  match r with
  | 0 => rfl | 1 => rfl | 2 => rfl | 3 => rfl | (_ + 4) => rfl
@[simp] theorem T5.setS_mem (t : T5) (i x : Nat) : (t.setS i x).mem = t.mem :=
  match i with
  | 0 => rfl | 1 => rfl | 2 => rfl | 3 => rfl | 4 => rfl | 5 => rfl | 6 => rfl | 7 => rfl | 8 => rfl | (_ + 9) => rfl
@[simp] theorem T5.setV_mem (t : T5) (r : Nat) (f : Nat → Nat) : (t.setV r f).mem = t.mem :=
  match r with
  | 0 => rfl | 1 => rfl | 2 => rfl | 3 => rfl | (_ + 4) => rfl
@[simp] theorem T5.setS_v (t : T5) (i x r : Nat) : (t.setS i x).v r = t.v r :=
  match i with
  | 0 => rfl | 1 => rfl | 2 => rfl | 3 => rfl | 4 => rfl | 5 => rfl | 6 => rfl | 7 => rfl | 8 => rfl | (_ + 9) => rfl
@[simp] theorem T5.setV_s (t : T5) (r : Nat) (f : Nat → Nat) (i : Nat) : (t.setV r f).s i = t.s i :=
  match r with
  | 0 => rfl | 1 => rfl | 2 => rfl | 3 => rfl | (_ + 4) => rfl
theorem T5.s_0 (t : T5) : t.s 0 = t.s0 := by unfold T5.s; rfl
theorem T5.setS_0 (t : T5) (x : Nat) : t.setS 0 x = { t with s0 := x } := by unfold T5.setS; rfl
theorem T5.s_1 (t : T5) : t.s 1 = t.s1 := by unfold T5.s; rfl
theorem T5.setS_1 (t : T5) (x : Nat) : t.setS 1 x = { t with s1 := x } := by unfold T5.setS; rfl
theorem T5.s_2 (t : T5) : t.s 2 = t.s2 := by unfold T5.s; rfl
theorem T5.setS_2 (t : T5) (x : Nat) : t.setS 2 x = { t with s2 := x } := by unfold T5.setS; rfl
theorem T5.s_3 (t : T5) : t.s 3 = t.s3 := by unfold T5.s; rfl
theorem T5.setS_3 (t : T5) (x : Nat) : t.setS 3 x = { t with s3 := x } := by unfold T5.setS; rfl
theorem T5.s_4 (t : T5) : t.s 4 = t.s4 := by unfold T5.s; rfl
theorem T5.setS_4 (t : T5) (x : Nat) : t.setS 4 x = { t with s4 := x } := by unfold T5.setS; rfl
theorem T5.s_5 (t : T5) : t.s 5 = t.s5 := by unfold T5.s; rfl
theorem T5.setS_5 (t : T5) (x : Nat) : t.setS 5 x = { t with s5 := x } := by unfold T5.setS; rfl
theorem T5.s_6 (t : T5) : t.s 6 = t.s6 := by unfold T5.s; rfl
theorem T5.setS_6 (t : T5) (x : Nat) : t.setS 6 x = { t with s6 := x } := by unfold T5.setS; rfl
theorem T5.s_7 (t : T5) : t.s 7 = t.s7 := by unfold T5.s; rfl
theorem T5.setS_7 (t : T5) (x : Nat) : t.setS 7 x = { t with s7 := x } := by unfold T5.setS; rfl
theorem T5.s_8 (t : T5) : t.s 8 = t.s8 := by unfold T5.s; rfl
theorem T5.setS_8 (t : T5) (x : Nat) : t.setS 8 x = { t with s8 := x } := by unfold T5.setS; rfl
theorem T5.v_0 (t : T5) : t.v 0 = t.v0 := by unfold T5.v; rfl
theorem T5.setV_0 (t : T5) (f : Nat → Nat) : t.setV 0 f = { t with v0 := f } := by unfold T5.setV; rfl
theorem T5.v_1 (t : T5) : t.v 1 = t.v1 := by unfold T5.v; rfl
theorem T5.setV_1 (t : T5) (f : Nat → Nat) : t.setV 1 f = { t with v1 := f } := by unfold T5.setV; rfl
theorem T5.v_2 (t : T5) : t.v 2 = t.v2 := by unfold T5.v; rfl
theorem T5.setV_2 (t : T5) (f : Nat → Nat) : t.setV 2 f = { t with v2 := f } := by unfold T5.setV; rfl
theorem T5.v_3 (t : T5) : t.v 3 = t.v3 := by unfold T5.v; rfl
theorem T5.setV_3 (t : T5) (f : Nat → Nat) : t.setV 3 f = { t with v3 := f } := by unfold T5.setV; rfl
theorem T5.v_4 (t : T5) : t.v 4 = t.v4 := by unfold T5.v; rfl
theorem T5.setV_4 (t : T5) (f : Nat → Nat) : t.setV 4 f = { t with v4 := f } := by unfold T5.setV; rfl

theorem T5.setPc_eq (t : T5) (p : Nat) : t.setPc p = { t with pc := p } := by unfold T5.setPc; rfl
theorem T5.setExec_eq (t : T5) (p : Nat) : t.setExec p = { t with exec := p } := by unfold T5.setExec; rfl
theorem T5.setVcc_eq (t : T5) (p : Nat) : t.setVcc p = { t with vcc := p } := by unfold T5.setVcc; rfl
theorem T5.setMem_eq (t : T5) (p : Nat → Nat) : t.setMem p = { t with mem := p } := by unfold T5.setMem; rfl

theorem T5.s_setS (t : T5) (i x j : Nat) (hi : i < 9) (hj : j < 9) : (t.setS i x).s j = if j = i then x else t.s j := by
  have : i = 0 ∨ i = 1 ∨ i = 2 ∨ i = 3 ∨ i = 4 ∨ i = 5 ∨ i = 6 ∨ i = 7 ∨ i = 8 := by omega
  have : j = 0 ∨ j = 1 ∨ j = 2 ∨ j = 3 ∨ j = 4 ∨ j = 5 ∨ j = 6 ∨ j = 7 ∨ j = 8 := by omega
  rcases ‹i = 0 ∨ _› with rfl | rfl | rfl | rfl | rfl | rfl | rfl | rfl | rfl <;>
    rcases ‹j = 0 ∨ _› with rfl | rfl | rfl | rfl | rfl | rfl | rfl | rfl | rfl <;> rfl

theorem T5.v_setV (t : T5) (r : Nat) (f : Nat → Nat) (q : Nat) (hr : r < 5) (hq : q < 5) :
    (t.setV r f).v q = if q = r then f else t.v q := by
  have : r = 0 ∨ r = 1 ∨ r = 2 ∨ r = 3 ∨ r = 4 := by omega
  have : q = 0 ∨ q = 1 ∨ q = 2 ∨ q = 3 ∨ q = 4 := by omega
  rcases ‹r = 0 ∨ _› with rfl | rfl | rfl | rfl | rfl <;> rcases ‹q = 0 ∨ _› with rfl | rfl | rfl | rfl | rfl <;> rfl

/-- some description of the state agrees with `t` on the tracked part -/
def Tracks5 (st : St) (t : T5) : Prop :=
  ∃ V, Sees st V ∧ V.pc = t.pc ∧ V.exec = t.exec ∧ V.vcc = t.vcc ∧ (∀ i, i < 9 → V.rs i = t.s i) ∧
    (∀ r l, r < 5 → l < 64 → V.rv r l = t.v r l) ∧ ∀ a, V.mem a = t.mem a



/-- replace a tracked description by one that agrees with it (vector registers: on the 64 lanes) -/
theorem Tracks5.congr {st : St} {t t' : T5} (h : Tracks5 st t) (hpc : t.pc = t'.pc) (hexec : t.exec = t'.exec)
    (hvcc : t.vcc = t'.vcc) (h0 : t.s0 = t'.s0) (h1 : t.s1 = t'.s1) (h2 : t.s2 = t'.s2) (h3 : t.s3 = t'.s3)
    (h4 : t.s4 = t'.s4) (h5 : t.s5 = t'.s5) (h6 : t.s6 = t'.s6) (h7 : t.s7 = t'.s7) (h8 : t.s8 = t'.s8)
    (g0 : ∀ l, l < 64 → t.v0 l = t'.v0 l) (g1 : ∀ l, l < 64 → t.v1 l = t'.v1 l)
    (g2 : ∀ l, l < 64 → t.v2 l = t'.v2 l) (g3 : ∀ l, l < 64 → t.v3 l = t'.v3 l)
    (g4 : ∀ l, l < 64 → t.v4 l = t'.v4 l)
    (hmem : ∀ a, t.mem a = t'.mem a) : Tracks5 st t' := by
  obtain ⟨V, hV, e1, e2, e3, e4, e5, e6⟩ := h
  refine ⟨V, hV, e1.trans hpc, e2.trans hexec, e3.trans hvcc, ?_, ?_, fun a => (e6 a).trans (hmem a)⟩
  · intro i hi
    rw [e4 i hi]
    have : i = 0 ∨ i = 1 ∨ i = 2 ∨ i = 3 ∨ i = 4 ∨ i = 5 ∨ i = 6 ∨ i = 7 ∨ i = 8 := by omega
    rcases this with rfl | rfl | rfl | rfl | rfl | rfl | rfl | rfl | rfl
    · exact h0
    · exact h1
    · exact h2
    · exact h3
    · exact h4
    · exact h5
    · exact h6
    · exact h7
    · exact h8
  · intro r l hr hl
    rw [e5 r l hr hl]
    have : r = 0 ∨ r = 1 ∨ r = 2 ∨ r = 3 ∨ r = 4 := by omega
    rcases this with rfl | rfl | rfl | rfl | rfl
    · exact g0 l hl
    · exact g1 l hl
    · exact g2 l hl
    · exact g3 l hl
    · exact g4 l hl

/-- rewrite the PC and the vector registers of a tracked description (lane-wise on the 64 lanes) -/
theorem Tracks5.upd {st : St} {t : T5} (h : Tracks5 st t) (pc' : Nat) (f0 f1 f2 f3 f4 : Nat → Nat) (hpc : t.pc = pc')
    (g0 : ∀ l, l < 64 → t.v0 l = f0 l) (g1 : ∀ l, l < 64 → t.v1 l = f1 l)
    (g2 : ∀ l, l < 64 → t.v2 l = f2 l) (g3 : ∀ l, l < 64 → t.v3 l = f3 l)
    (g4 : ∀ l, l < 64 → t.v4 l = f4 l) :
    Tracks5 st { t with pc := pc', v0 := f0, v1 := f1, v2 := f2, v3 := f3, v4 := f4 } :=
  h.congr hpc rfl rfl rfl rfl rfl rfl rfl rfl rfl rfl rfl g0 g1 g2 g3 g4 (fun _ => rfl)

theorem Tracks5.rmem {st : St} {t : T5} (h : Tracks5 st t) (a : Nat) : st.rmem a = t.mem a := by
  obtain ⟨V, hV, _, _, _, _, _, e6⟩ := h
  rw [hV.mem a, e6 a]

section lifts
variable (P : Program) (hP : P.cdna3 = false) (base k : Nat)
include hP

/-- S_WAITCNT -/
theorem lift5_wait (x : Nat) (hd : DecS ((P.code.drop k).take 8) 4 12 4 ⟨4, 12, 0, 0, 0, x, 0⟩)
    (st : St) (t : T5) (h : Tracks5 st t) (hpc : t.pc = base + k) :
    ∃ st', step P base st = .ok (st', .next) ∧ Tracks5 st' (t.setPc (base + k + 4)) := by
  obtain ⟨V, hV, e1, e2, e3, e4, e5, e6⟩ := h
  obtain ⟨st', hs, hv⟩ := step_wait P hP base k x hd st V hV (e1.trans hpc)
  exact ⟨st', hs, _, hv, rfl, e2, e3, e4, e5, e6⟩

/-- S_ENDPGM -/
theorem lift5_endpgm (hd : DecV ((P.code.drop k).take 8) 4 1 4)
    (st : St) (t : T5) (h : Tracks5 st t) (hpc : t.pc = base + k) :
    ∃ st', step P base st = .ok (st', .endpgm) ∧ Tracks5 st' (t.setPc (base + k + 4)) := by
  obtain ⟨V, hV, e1, e2, e3, e4, e5, e6⟩ := h
  obtain ⟨st', hs, hv⟩ := step_endpgm_view P hP base k hd st V hV (e1.trans hpc)
  exact ⟨st', hs, _, hv, rfl, e2, e3, e4, e5, e6⟩

/-- S_AND_B32 s0, s0, 0xffff -/
theorem lift5_and_ffff (hd : DecS ((P.code.drop k).take 8) 0 12 8 ⟨0, 12, 0, 0, 255, 0, 0xffff⟩)
    (st : St) (t : T5) (h : Tracks5 st t) (hpc : t.pc = base + k) :
    ∃ st', step P base st = .ok (st', .next) ∧ Tracks5 st' ((t.setS 0 (t.s 0 % 65536)).setPc (base + k + 8)) := by
  obtain ⟨V, hV, e1, e2, e3, e4, e5, e6⟩ := h
  obtain ⟨st', hs, hv⟩ := step_and_ffff P hP base k hd st V hV (e1.trans hpc)
  refine ⟨st', hs, _, hv, rfl, by simp only [T5.setPc_pc, T5.setPc_exec, T5.setPc_vcc, T5.setPc_mem, T5.setPc_s, T5.setPc_v, T5.setExec_pc, T5.setExec_exec, T5.setExec_vcc, T5.setExec_mem, T5.setExec_s, T5.setExec_v, T5.setVcc_pc, T5.setVcc_exec, T5.setVcc_vcc, T5.setVcc_mem, T5.setVcc_s, T5.setVcc_v, T5.setMem_pc, T5.setMem_exec, T5.setMem_vcc, T5.setMem_mem, T5.setMem_s, T5.setMem_v, T5.setS_pc, T5.setV_pc, T5.setS_exec, T5.setV_exec, T5.setS_vcc, T5.setV_vcc, T5.setS_mem, T5.setV_mem, T5.setS_v, T5.setV_s]; exact e2, by simp only [T5.setPc_pc, T5.setPc_exec, T5.setPc_vcc, T5.setPc_mem, T5.setPc_s, T5.setPc_v, T5.setExec_pc, T5.setExec_exec, T5.setExec_vcc, T5.setExec_mem, T5.setExec_s, T5.setExec_v, T5.setVcc_pc, T5.setVcc_exec, T5.setVcc_vcc, T5.setVcc_mem, T5.setVcc_s, T5.setVcc_v, T5.setMem_pc, T5.setMem_exec, T5.setMem_vcc, T5.setMem_mem, T5.setMem_s, T5.setMem_v, T5.setS_pc, T5.setV_pc, T5.setS_exec, T5.setV_exec, T5.setS_vcc, T5.setV_vcc, T5.setS_mem, T5.setV_mem, T5.setS_v, T5.setV_s]; exact e3, ?_,
    (fun r l hr hl => by simp only [T5.setPc_pc, T5.setPc_exec, T5.setPc_vcc, T5.setPc_mem, T5.setPc_s, T5.setPc_v, T5.setExec_pc, T5.setExec_exec, T5.setExec_vcc, T5.setExec_mem, T5.setExec_s, T5.setExec_v, T5.setVcc_pc, T5.setVcc_exec, T5.setVcc_vcc, T5.setVcc_mem, T5.setVcc_s, T5.setVcc_v, T5.setMem_pc, T5.setMem_exec, T5.setMem_vcc, T5.setMem_mem, T5.setMem_s, T5.setMem_v, T5.setS_pc, T5.setV_pc, T5.setS_exec, T5.setV_exec, T5.setS_vcc, T5.setV_vcc, T5.setS_mem, T5.setV_mem, T5.setS_v, T5.setV_s]; exact e5 r l hr hl), (fun a => by simp only [T5.setPc_pc, T5.setPc_exec, T5.setPc_vcc, T5.setPc_mem, T5.setPc_s, T5.setPc_v, T5.setExec_pc, T5.setExec_exec, T5.setExec_vcc, T5.setExec_mem, T5.setExec_s, T5.setExec_v, T5.setVcc_pc, T5.setVcc_exec, T5.setVcc_vcc, T5.setVcc_mem, T5.setVcc_s, T5.setVcc_v, T5.setMem_pc, T5.setMem_exec, T5.setMem_vcc, T5.setMem_mem, T5.setMem_s, T5.setMem_v, T5.setS_pc, T5.setV_pc, T5.setS_exec, T5.setV_exec, T5.setS_vcc, T5.setV_vcc, T5.setS_mem, T5.setV_mem, T5.setS_v, T5.setV_s]; exact e6 a)⟩
  intro i hi
  show (if i = 0 then V.rs 0 % 65536 else V.rs i) = ((t.setS 0 _).setPc _).s i
  rw [T5.setPc_s, T5.s_setS t 0 _ i (by decide) hi, e4 0 (by decide), e4 i hi]

/-- S_MUL_I32 sD, sA, sB -/
theorem lift5_mul (D A B : Nat) (hD : D < 9) (hA : A < 9) (hB : B < 9)
    (hd : DecS ((P.code.drop k).take 8) 0 36 4 ⟨0, 36, D, A, B, 0, 0⟩)
    (st : St) (t : T5) (h : Tracks5 st t) (hpc : t.pc = base + k) :
    ∃ st', step P base st = .ok (st', .next) ∧
      Tracks5 st' ((t.setS D (t.s A * t.s B % 4294967296)).setPc (base + k + 4)) := by
  obtain ⟨V, hV, e1, e2, e3, e4, e5, e6⟩ := h
  obtain ⟨st', hs, hv⟩ := step_mul P hP base k D A B (by omega) (by omega) (by omega) hd st V hV (e1.trans hpc)
  refine ⟨st', hs, _, hv, rfl, by simp only [T5.setPc_pc, T5.setPc_exec, T5.setPc_vcc, T5.setPc_mem, T5.setPc_s, T5.setPc_v, T5.setExec_pc, T5.setExec_exec, T5.setExec_vcc, T5.setExec_mem, T5.setExec_s, T5.setExec_v, T5.setVcc_pc, T5.setVcc_exec, T5.setVcc_vcc, T5.setVcc_mem, T5.setVcc_s, T5.setVcc_v, T5.setMem_pc, T5.setMem_exec, T5.setMem_vcc, T5.setMem_mem, T5.setMem_s, T5.setMem_v, T5.setS_pc, T5.setV_pc, T5.setS_exec, T5.setV_exec, T5.setS_vcc, T5.setV_vcc, T5.setS_mem, T5.setV_mem, T5.setS_v, T5.setV_s]; exact e2, by simp only [T5.setPc_pc, T5.setPc_exec, T5.setPc_vcc, T5.setPc_mem, T5.setPc_s, T5.setPc_v, T5.setExec_pc, T5.setExec_exec, T5.setExec_vcc, T5.setExec_mem, T5.setExec_s, T5.setExec_v, T5.setVcc_pc, T5.setVcc_exec, T5.setVcc_vcc, T5.setVcc_mem, T5.setVcc_s, T5.setVcc_v, T5.setMem_pc, T5.setMem_exec, T5.setMem_vcc, T5.setMem_mem, T5.setMem_s, T5.setMem_v, T5.setS_pc, T5.setV_pc, T5.setS_exec, T5.setV_exec, T5.setS_vcc, T5.setV_vcc, T5.setS_mem, T5.setV_mem, T5.setS_v, T5.setV_s]; exact e3, ?_,
    (fun r l hr hl => by simp only [T5.setPc_pc, T5.setPc_exec, T5.setPc_vcc, T5.setPc_mem, T5.setPc_s, T5.setPc_v, T5.setExec_pc, T5.setExec_exec, T5.setExec_vcc, T5.setExec_mem, T5.setExec_s, T5.setExec_v, T5.setVcc_pc, T5.setVcc_exec, T5.setVcc_vcc, T5.setVcc_mem, T5.setVcc_s, T5.setVcc_v, T5.setMem_pc, T5.setMem_exec, T5.setMem_vcc, T5.setMem_mem, T5.setMem_s, T5.setMem_v, T5.setS_pc, T5.setV_pc, T5.setS_exec, T5.setV_exec, T5.setS_vcc, T5.setV_vcc, T5.setS_mem, T5.setV_mem, T5.setS_v, T5.setV_s]; exact e5 r l hr hl), (fun a => by simp only [T5.setPc_pc, T5.setPc_exec, T5.setPc_vcc, T5.setPc_mem, T5.setPc_s, T5.setPc_v, T5.setExec_pc, T5.setExec_exec, T5.setExec_vcc, T5.setExec_mem, T5.setExec_s, T5.setExec_v, T5.setVcc_pc, T5.setVcc_exec, T5.setVcc_vcc, T5.setVcc_mem, T5.setVcc_s, T5.setVcc_v, T5.setMem_pc, T5.setMem_exec, T5.setMem_vcc, T5.setMem_mem, T5.setMem_s, T5.setMem_v, T5.setS_pc, T5.setV_pc, T5.setS_exec, T5.setV_exec, T5.setS_vcc, T5.setV_vcc, T5.setS_mem, T5.setV_mem, T5.setS_v, T5.setV_s]; exact e6 a)⟩
  intro i hi
  show (if i = D then V.rs A * V.rs B % 4294967296 else V.rs i) = ((t.setS D _).setPc _).s i
  rw [T5.setPc_s, T5.s_setS t D _ i hD hi, e4 A hA, e4 B hB, e4 i hi]

/-- S_AND_SAVEEXEC_B64 s[0:1], vcc -/
theorem lift5_saveexec (hd : DecS ((P.code.drop k).take 8) 2 32 4 ⟨2, 32, 0, 106, 0, 0, 0⟩)
    (st : St) (t : T5) (h : Tracks5 st t) (hpc : t.pc = base + k)
    (hvcc : t.vcc < 18446744073709551616) (hexec : t.exec < 18446744073709551616) :
    ∃ st', step P base st = .ok (st', .next) ∧
      Tracks5 st' ((((t.setS 0 (t.exec % 4294967296)).setS 1 (t.exec / 4294967296 % 4294967296)).setExec
        (t.vcc &&& t.exec)).setPc (base + k + 4)) := by
  obtain ⟨V, hV, e1, e2, e3, e4, e5, e6⟩ := h
  obtain ⟨st', hs, hv⟩ := step_saveexec P hP base k hd st V hV (e1.trans hpc) (by rw [e3]; exact hvcc) (by rw [e2]; exact hexec)
  refine ⟨st', hs, _, hv, rfl, by simp only [T5.setPc_pc, T5.setPc_exec, T5.setPc_vcc, T5.setPc_mem, T5.setPc_s, T5.setPc_v, T5.setExec_pc, T5.setExec_exec, T5.setExec_vcc, T5.setExec_mem, T5.setExec_s, T5.setExec_v, T5.setVcc_pc, T5.setVcc_exec, T5.setVcc_vcc, T5.setVcc_mem, T5.setVcc_s, T5.setVcc_v, T5.setMem_pc, T5.setMem_exec, T5.setMem_vcc, T5.setMem_mem, T5.setMem_s, T5.setMem_v, T5.setS_pc, T5.setV_pc, T5.setS_exec, T5.setV_exec, T5.setS_vcc, T5.setV_vcc, T5.setS_mem, T5.setV_mem, T5.setS_v, T5.setV_s]; show V.vcc &&& V.exec = _; rw [e2, e3],
    by simp only [T5.setPc_pc, T5.setPc_exec, T5.setPc_vcc, T5.setPc_mem, T5.setPc_s, T5.setPc_v, T5.setExec_pc, T5.setExec_exec, T5.setExec_vcc, T5.setExec_mem, T5.setExec_s, T5.setExec_v, T5.setVcc_pc, T5.setVcc_exec, T5.setVcc_vcc, T5.setVcc_mem, T5.setVcc_s, T5.setVcc_v, T5.setMem_pc, T5.setMem_exec, T5.setMem_vcc, T5.setMem_mem, T5.setMem_s, T5.setMem_v, T5.setS_pc, T5.setV_pc, T5.setS_exec, T5.setV_exec, T5.setS_vcc, T5.setV_vcc, T5.setS_mem, T5.setV_mem, T5.setS_v, T5.setV_s]; exact e3, ?_,
    (fun r l hr hl => by simp only [T5.setPc_pc, T5.setPc_exec, T5.setPc_vcc, T5.setPc_mem, T5.setPc_s, T5.setPc_v, T5.setExec_pc, T5.setExec_exec, T5.setExec_vcc, T5.setExec_mem, T5.setExec_s, T5.setExec_v, T5.setVcc_pc, T5.setVcc_exec, T5.setVcc_vcc, T5.setVcc_mem, T5.setVcc_s, T5.setVcc_v, T5.setMem_pc, T5.setMem_exec, T5.setMem_vcc, T5.setMem_mem, T5.setMem_s, T5.setMem_v, T5.setS_pc, T5.setV_pc, T5.setS_exec, T5.setV_exec, T5.setS_vcc, T5.setV_vcc, T5.setS_mem, T5.setV_mem, T5.setS_v, T5.setV_s]; exact e5 r l hr hl), (fun a => by simp only [T5.setPc_pc, T5.setPc_exec, T5.setPc_vcc, T5.setPc_mem, T5.setPc_s, T5.setPc_v, T5.setExec_pc, T5.setExec_exec, T5.setExec_vcc, T5.setExec_mem, T5.setExec_s, T5.setExec_v, T5.setVcc_pc, T5.setVcc_exec, T5.setVcc_vcc, T5.setVcc_mem, T5.setVcc_s, T5.setVcc_v, T5.setMem_pc, T5.setMem_exec, T5.setMem_vcc, T5.setMem_mem, T5.setMem_s, T5.setMem_v, T5.setS_pc, T5.setV_pc, T5.setS_exec, T5.setV_exec, T5.setS_vcc, T5.setV_vcc, T5.setS_mem, T5.setV_mem, T5.setS_v, T5.setV_s]; exact e6 a)⟩
  intro i hi
  show (if i = 1 then V.exec / 4294967296 % 4294967296 else if i = 0 then V.exec % 4294967296 else V.rs i) = _
  rw [T5.setPc_s, T5.setExec_s, T5.s_setS _ 1 _ i (by decide) hi, T5.s_setS t 0 _ i (by decide) hi, e2, e4 i hi]

/-- S_CBRANCH_EXECZ 18 -/
theorem lift5_execz18 (hd : DecS ((P.code.drop k).take 8) 4 8 4 ⟨4, 8, 0, 0, 0, 18, 0⟩)
    (st : St) (t : T5) (h : Tracks5 st t) (hpc : t.pc = base + k)
    (hexec : t.exec < 18446744073709551616) (hb : base + k + 76 < 18446744073709551616) :
    ∃ st', step P base st = .ok (st', .next) ∧
      Tracks5 st' (t.setPc (if t.exec = 0 then base + k + 76 else base + k + 4)) := by
  obtain ⟨V, hV, e1, e2, e3, e4, e5, e6⟩ := h
  obtain ⟨st', hs, hv⟩ := step_execz18 P hP base k hd st V hV (e1.trans hpc) (by rw [e2]; exact hexec) hb
  exact ⟨st', hs, _, hv, by show (if V.exec = 0 then _ else _) = _; rw [e2]; rfl, e2, e3, e4, e5, e6⟩

/-- S_LOAD_DWORD sD, s[B:B+1], off -/
theorem lift5_smem1 (op D B off : Nat) (hD : D < 9) (hB : B + 1 < 9)
    (hd : DecV ((P.code.drop k).take 8) 5 op 8) (name : String)
    (hex : ∀ st, exec false st (((P.code.drop k).take 8).take 8) =
      some (name, (List.range 1).flatMap fun i => wrS32 st (D + i) (st.memRead (sAddr st B off + 4 * i) 4)))
    (st : St) (t : T5) (h : Tracks5 st t) (hpc : t.pc = base + k) (a b0 b1 : Nat)
    (hb0 : t.s B = b0) (hb1 : t.s (B + 1) = b1) (ha : b0 + b1 * 2 ^ 32 + off = a) (ha4 : a % 4 = 0) (hnw : a + 4 ≤ 2 ^ 64) :
    ∃ st', step P base st = .ok (st', .next) ∧
      Tracks5 st' ((t.setS D (rd32 t.mem a % 2 ^ 32)).setPc (base + k + 8)) := by
  obtain ⟨V, hV, e1, e2, e3, e4, e5, e6⟩ := h
  have hm : V.mem = t.mem := funext e6
  obtain ⟨st', hs, hv⟩ := step_smem P hP base k op 1 D B off (by omega) (by omega) (by omega) hd name hex st V hV
    (e1.trans hpc) a (by rw [e4 B (by omega), e4 (B + 1) hB, hb0, hb1]; exact ha) ha4 (by omega)
  refine ⟨st', hs, _, hv, rfl, by simp only [T5.setPc_pc, T5.setPc_exec, T5.setPc_vcc, T5.setPc_mem, T5.setPc_s, T5.setPc_v, T5.setExec_pc, T5.setExec_exec, T5.setExec_vcc, T5.setExec_mem, T5.setExec_s, T5.setExec_v, T5.setVcc_pc, T5.setVcc_exec, T5.setVcc_vcc, T5.setVcc_mem, T5.setVcc_s, T5.setVcc_v, T5.setMem_pc, T5.setMem_exec, T5.setMem_vcc, T5.setMem_mem, T5.setMem_s, T5.setMem_v, T5.setS_pc, T5.setV_pc, T5.setS_exec, T5.setV_exec, T5.setS_vcc, T5.setV_vcc, T5.setS_mem, T5.setV_mem, T5.setS_v, T5.setV_s]; exact e2, by simp only [T5.setPc_pc, T5.setPc_exec, T5.setPc_vcc, T5.setPc_mem, T5.setPc_s, T5.setPc_v, T5.setExec_pc, T5.setExec_exec, T5.setExec_vcc, T5.setExec_mem, T5.setExec_s, T5.setExec_v, T5.setVcc_pc, T5.setVcc_exec, T5.setVcc_vcc, T5.setVcc_mem, T5.setVcc_s, T5.setVcc_v, T5.setMem_pc, T5.setMem_exec, T5.setMem_vcc, T5.setMem_mem, T5.setMem_s, T5.setMem_v, T5.setS_pc, T5.setV_pc, T5.setS_exec, T5.setV_exec, T5.setS_vcc, T5.setV_vcc, T5.setS_mem, T5.setV_mem, T5.setS_v, T5.setV_s]; exact e3, ?_,
    (fun r l hr hl => by simp only [T5.setPc_pc, T5.setPc_exec, T5.setPc_vcc, T5.setPc_mem, T5.setPc_s, T5.setPc_v, T5.setExec_pc, T5.setExec_exec, T5.setExec_vcc, T5.setExec_mem, T5.setExec_s, T5.setExec_v, T5.setVcc_pc, T5.setVcc_exec, T5.setVcc_vcc, T5.setVcc_mem, T5.setVcc_s, T5.setVcc_v, T5.setMem_pc, T5.setMem_exec, T5.setMem_vcc, T5.setMem_mem, T5.setMem_s, T5.setMem_v, T5.setS_pc, T5.setV_pc, T5.setS_exec, T5.setV_exec, T5.setS_vcc, T5.setV_vcc, T5.setS_mem, T5.setV_mem, T5.setS_v, T5.setV_s]; exact e5 r l hr hl), (fun a => by simp only [T5.setPc_pc, T5.setPc_exec, T5.setPc_vcc, T5.setPc_mem, T5.setPc_s, T5.setPc_v, T5.setExec_pc, T5.setExec_exec, T5.setExec_vcc, T5.setExec_mem, T5.setExec_s, T5.setExec_v, T5.setVcc_pc, T5.setVcc_exec, T5.setVcc_vcc, T5.setVcc_mem, T5.setVcc_s, T5.setVcc_v, T5.setMem_pc, T5.setMem_exec, T5.setMem_vcc, T5.setMem_mem, T5.setMem_s, T5.setMem_v, T5.setS_pc, T5.setV_pc, T5.setS_exec, T5.setV_exec, T5.setS_vcc, T5.setV_vcc, T5.setS_mem, T5.setV_mem, T5.setS_v, T5.setV_s]; exact e6 a)⟩
  intro i hi
  show (if D ≤ i ∧ i < D + 1 then rd32 V.mem (a + 4 * (i - D)) % 2 ^ 32 else V.rs i) = ((t.setS D _).setPc _).s i
  rw [T5.setPc_s, T5.s_setS t D _ i hD hi, hm]
  by_cases hiD : i = D
  · subst hiD
    rw [if_pos ⟨Nat.le_refl _, by omega⟩, if_pos rfl, Nat.sub_self, Nat.mul_zero, Nat.add_zero]
  · rw [if_neg (by omega), if_neg hiD, e4 i hi]

/-- S_LOAD_DWORDX2 s[D:D+1], s[B:B+1], off -/
theorem lift5_smem2 (op D B off : Nat) (hD : D + 1 < 9) (hB : B + 1 < 9)
    (hd : DecV ((P.code.drop k).take 8) 5 op 8) (name : String)
    (hex : ∀ st, exec false st (((P.code.drop k).take 8).take 8) =
      some (name, (List.range 2).flatMap fun i => wrS32 st (D + i) (st.memRead (sAddr st B off + 4 * i) 4)))
    (st : St) (t : T5) (h : Tracks5 st t) (hpc : t.pc = base + k) (a b0 b1 : Nat)
    (hb0 : t.s B = b0) (hb1 : t.s (B + 1) = b1) (ha : b0 + b1 * 2 ^ 32 + off = a) (ha4 : a % 4 = 0) (hnw : a + 8 ≤ 2 ^ 64) :
    ∃ st', step P base st = .ok (st', .next) ∧
      Tracks5 st' (((t.setS D (rd32 t.mem a % 2 ^ 32)).setS (D + 1) (rd32 t.mem (a + 4) % 2 ^ 32)).setPc (base + k + 8)) := by
  obtain ⟨V, hV, e1, e2, e3, e4, e5, e6⟩ := h
  have hm : V.mem = t.mem := funext e6
  obtain ⟨st', hs, hv⟩ := step_smem P hP base k op 2 D B off (by omega) (by omega) (by omega) hd name hex st V hV
    (e1.trans hpc) a (by rw [e4 B (by omega), e4 (B + 1) hB, hb0, hb1]; exact ha) ha4 (by omega)
  refine ⟨st', hs, _, hv, rfl, by simp only [T5.setPc_pc, T5.setPc_exec, T5.setPc_vcc, T5.setPc_mem, T5.setPc_s, T5.setPc_v, T5.setExec_pc, T5.setExec_exec, T5.setExec_vcc, T5.setExec_mem, T5.setExec_s, T5.setExec_v, T5.setVcc_pc, T5.setVcc_exec, T5.setVcc_vcc, T5.setVcc_mem, T5.setVcc_s, T5.setVcc_v, T5.setMem_pc, T5.setMem_exec, T5.setMem_vcc, T5.setMem_mem, T5.setMem_s, T5.setMem_v, T5.setS_pc, T5.setV_pc, T5.setS_exec, T5.setV_exec, T5.setS_vcc, T5.setV_vcc, T5.setS_mem, T5.setV_mem, T5.setS_v, T5.setV_s]; exact e2, by simp only [T5.setPc_pc, T5.setPc_exec, T5.setPc_vcc, T5.setPc_mem, T5.setPc_s, T5.setPc_v, T5.setExec_pc, T5.setExec_exec, T5.setExec_vcc, T5.setExec_mem, T5.setExec_s, T5.setExec_v, T5.setVcc_pc, T5.setVcc_exec, T5.setVcc_vcc, T5.setVcc_mem, T5.setVcc_s, T5.setVcc_v, T5.setMem_pc, T5.setMem_exec, T5.setMem_vcc, T5.setMem_mem, T5.setMem_s, T5.setMem_v, T5.setS_pc, T5.setV_pc, T5.setS_exec, T5.setV_exec, T5.setS_vcc, T5.setV_vcc, T5.setS_mem, T5.setV_mem, T5.setS_v, T5.setV_s]; exact e3, ?_,
    (fun r l hr hl => by simp only [T5.setPc_pc, T5.setPc_exec, T5.setPc_vcc, T5.setPc_mem, T5.setPc_s, T5.setPc_v, T5.setExec_pc, T5.setExec_exec, T5.setExec_vcc, T5.setExec_mem, T5.setExec_s, T5.setExec_v, T5.setVcc_pc, T5.setVcc_exec, T5.setVcc_vcc, T5.setVcc_mem, T5.setVcc_s, T5.setVcc_v, T5.setMem_pc, T5.setMem_exec, T5.setMem_vcc, T5.setMem_mem, T5.setMem_s, T5.setMem_v, T5.setS_pc, T5.setV_pc, T5.setS_exec, T5.setV_exec, T5.setS_vcc, T5.setV_vcc, T5.setS_mem, T5.setV_mem, T5.setS_v, T5.setV_s]; exact e5 r l hr hl), (fun a => by simp only [T5.setPc_pc, T5.setPc_exec, T5.setPc_vcc, T5.setPc_mem, T5.setPc_s, T5.setPc_v, T5.setExec_pc, T5.setExec_exec, T5.setExec_vcc, T5.setExec_mem, T5.setExec_s, T5.setExec_v, T5.setVcc_pc, T5.setVcc_exec, T5.setVcc_vcc, T5.setVcc_mem, T5.setVcc_s, T5.setVcc_v, T5.setMem_pc, T5.setMem_exec, T5.setMem_vcc, T5.setMem_mem, T5.setMem_s, T5.setMem_v, T5.setS_pc, T5.setV_pc, T5.setS_exec, T5.setV_exec, T5.setS_vcc, T5.setV_vcc, T5.setS_mem, T5.setV_mem, T5.setS_v, T5.setV_s]; exact e6 a)⟩
  intro i hi
  show (if D ≤ i ∧ i < D + 2 then rd32 V.mem (a + 4 * (i - D)) % 2 ^ 32 else V.rs i) = (((t.setS D _).setS (D + 1) _).setPc _).s i
  rw [T5.setPc_s, T5.s_setS _ (D + 1) _ i hD hi, T5.s_setS t D _ i (by omega) hi, hm]
  by_cases h1 : i = D + 1
  · subst h1
    rw [if_pos ⟨by omega, by omega⟩, if_pos rfl, show D + 1 - D = 1 by omega, Nat.mul_one]
  · by_cases h0 : i = D
    · subst h0
      rw [if_pos ⟨Nat.le_refl _, by omega⟩, if_neg h1, if_pos rfl, Nat.sub_self, Nat.mul_zero, Nat.add_zero]
    · rw [if_neg (by omega), if_neg h1, if_neg h0, e4 i hi]

/-- S_LOAD_DWORDX4 s[D:D+3], s[B:B+1], off -/
theorem lift5_smem4 (op D B off : Nat) (hD : D + 3 < 9) (hB : B + 1 < 9)
    (hd : DecV ((P.code.drop k).take 8) 5 op 8) (name : String)
    (hex : ∀ st, exec false st (((P.code.drop k).take 8).take 8) =
      some (name, (List.range 4).flatMap fun i => wrS32 st (D + i) (st.memRead (sAddr st B off + 4 * i) 4)))
    (st : St) (t : T5) (h : Tracks5 st t) (hpc : t.pc = base + k) (a b0 b1 : Nat)
    (hb0 : t.s B = b0) (hb1 : t.s (B + 1) = b1) (ha : b0 + b1 * 2 ^ 32 + off = a) (ha4 : a % 4 = 0) (hnw : a + 16 ≤ 2 ^ 64) :
    ∃ st', step P base st = .ok (st', .next) ∧
      Tracks5 st' (((((t.setS D (rd32 t.mem a % 2 ^ 32)).setS (D + 1) (rd32 t.mem (a + 4) % 2 ^ 32)).setS (D + 2)
        (rd32 t.mem (a + 8) % 2 ^ 32)).setS (D + 3) (rd32 t.mem (a + 12) % 2 ^ 32)).setPc (base + k + 8)) := by
  obtain ⟨V, hV, e1, e2, e3, e4, e5, e6⟩ := h
  have hm : V.mem = t.mem := funext e6
  obtain ⟨st', hs, hv⟩ := step_smem P hP base k op 4 D B off (by omega) (by omega) (by omega) hd name hex st V hV
    (e1.trans hpc) a (by rw [e4 B (by omega), e4 (B + 1) hB, hb0, hb1]; exact ha) ha4 (by omega)
  refine ⟨st', hs, _, hv, rfl, by simp only [T5.setPc_pc, T5.setPc_exec, T5.setPc_vcc, T5.setPc_mem, T5.setPc_s, T5.setPc_v, T5.setExec_pc, T5.setExec_exec, T5.setExec_vcc, T5.setExec_mem, T5.setExec_s, T5.setExec_v, T5.setVcc_pc, T5.setVcc_exec, T5.setVcc_vcc, T5.setVcc_mem, T5.setVcc_s, T5.setVcc_v, T5.setMem_pc, T5.setMem_exec, T5.setMem_vcc, T5.setMem_mem, T5.setMem_s, T5.setMem_v, T5.setS_pc, T5.setV_pc, T5.setS_exec, T5.setV_exec, T5.setS_vcc, T5.setV_vcc, T5.setS_mem, T5.setV_mem, T5.setS_v, T5.setV_s]; exact e2, by simp only [T5.setPc_pc, T5.setPc_exec, T5.setPc_vcc, T5.setPc_mem, T5.setPc_s, T5.setPc_v, T5.setExec_pc, T5.setExec_exec, T5.setExec_vcc, T5.setExec_mem, T5.setExec_s, T5.setExec_v, T5.setVcc_pc, T5.setVcc_exec, T5.setVcc_vcc, T5.setVcc_mem, T5.setVcc_s, T5.setVcc_v, T5.setMem_pc, T5.setMem_exec, T5.setMem_vcc, T5.setMem_mem, T5.setMem_s, T5.setMem_v, T5.setS_pc, T5.setV_pc, T5.setS_exec, T5.setV_exec, T5.setS_vcc, T5.setV_vcc, T5.setS_mem, T5.setV_mem, T5.setS_v, T5.setV_s]; exact e3, ?_,
    (fun r l hr hl => by simp only [T5.setPc_pc, T5.setPc_exec, T5.setPc_vcc, T5.setPc_mem, T5.setPc_s, T5.setPc_v, T5.setExec_pc, T5.setExec_exec, T5.setExec_vcc, T5.setExec_mem, T5.setExec_s, T5.setExec_v, T5.setVcc_pc, T5.setVcc_exec, T5.setVcc_vcc, T5.setVcc_mem, T5.setVcc_s, T5.setVcc_v, T5.setMem_pc, T5.setMem_exec, T5.setMem_vcc, T5.setMem_mem, T5.setMem_s, T5.setMem_v, T5.setS_pc, T5.setV_pc, T5.setS_exec, T5.setV_exec, T5.setS_vcc, T5.setV_vcc, T5.setS_mem, T5.setV_mem, T5.setS_v, T5.setV_s]; exact e5 r l hr hl), (fun a => by simp only [T5.setPc_pc, T5.setPc_exec, T5.setPc_vcc, T5.setPc_mem, T5.setPc_s, T5.setPc_v, T5.setExec_pc, T5.setExec_exec, T5.setExec_vcc, T5.setExec_mem, T5.setExec_s, T5.setExec_v, T5.setVcc_pc, T5.setVcc_exec, T5.setVcc_vcc, T5.setVcc_mem, T5.setVcc_s, T5.setVcc_v, T5.setMem_pc, T5.setMem_exec, T5.setMem_vcc, T5.setMem_mem, T5.setMem_s, T5.setMem_v, T5.setS_pc, T5.setV_pc, T5.setS_exec, T5.setV_exec, T5.setS_vcc, T5.setV_vcc, T5.setS_mem, T5.setV_mem, T5.setS_v, T5.setV_s]; exact e6 a)⟩
  intro i hi
  show (if D ≤ i ∧ i < D + 4 then rd32 V.mem (a + 4 * (i - D)) % 2 ^ 32 else V.rs i) =
    (((((t.setS D _).setS (D + 1) _).setS (D + 2) _).setS (D + 3) _).setPc _).s i
  rw [T5.setPc_s, T5.s_setS _ (D + 3) _ i hD hi, T5.s_setS _ (D + 2) _ i (by omega) hi, T5.s_setS _ (D + 1) _ i (by omega) hi,
    T5.s_setS t D _ i (by omega) hi, hm]
  by_cases h3 : i = D + 3
  · subst h3
    rw [if_pos ⟨by omega, by omega⟩, if_pos rfl, show D + 3 - D = 3 by omega]
  · by_cases h2 : i = D + 2
    · subst h2
      rw [if_pos ⟨by omega, by omega⟩, if_neg h3, if_pos rfl, show D + 2 - D = 2 by omega]
    · by_cases h1 : i = D + 1
      · subst h1
        rw [if_pos ⟨by omega, by omega⟩, if_neg h3, if_neg h2, if_pos rfl, show D + 1 - D = 1 by omega, Nat.mul_one]
      · by_cases h0 : i = D
        · subst h0
          rw [if_pos ⟨Nat.le_refl _, by omega⟩, if_neg h3, if_neg h2, if_neg h1, if_pos rfl, Nat.sub_self,
            Nat.mul_zero, Nat.add_zero]
        · rw [if_neg (by omega), if_neg h3, if_neg h2, if_neg h1, if_neg h0, e4 i hi]

/-- V_ADD_U32 vD, vcc, sS, vR -/
theorem lift5_vadd (S R D : Nat) (hS : S < 9) (hR : R < 5) (hD : D < 5)
    (hd : DecV ((P.code.drop k).take 8) 6 25 4)
    (hex : ∀ st, exec false st (((P.code.drop k).take 8).take 4) = some ("v_add_co_u32", execVALU st (eAdd S R D)))
    (st : St) (t : T5) (h : Tracks5 st t) (hpc : t.pc = base + k) :
    ∃ st', step P base st = .ok (st', .next) ∧
      Tracks5 st' (((t.setV D (fun l => if t.exec.testBit l = true then (t.s S % 2 ^ 32 + t.v R l % 2 ^ 32) % 2 ^ 32 else t.v D l)).setVcc
        (maskUpTo (fun l => t.exec.testBit l && decide (t.s S % 2 ^ 32 + t.v R l % 2 ^ 32 ≥ 2 ^ 32)) 64)).setPc (base + k + 4)) := by
  obtain ⟨V, hV, e1, e2, e3, e4, e5, e6⟩ := h
  obtain ⟨st', hs, hv⟩ := step_vadd P hP base k S R D (by omega) (by omega) hd hex st V hV (e1.trans hpc)
  refine ⟨st', hs, _, hv, rfl, by simp only [T5.setPc_pc, T5.setPc_exec, T5.setPc_vcc, T5.setPc_mem, T5.setPc_s, T5.setPc_v, T5.setExec_pc, T5.setExec_exec, T5.setExec_vcc, T5.setExec_mem, T5.setExec_s, T5.setExec_v, T5.setVcc_pc, T5.setVcc_exec, T5.setVcc_vcc, T5.setVcc_mem, T5.setVcc_s, T5.setVcc_v, T5.setMem_pc, T5.setMem_exec, T5.setMem_vcc, T5.setMem_mem, T5.setMem_s, T5.setMem_v, T5.setS_pc, T5.setV_pc, T5.setS_exec, T5.setV_exec, T5.setS_vcc, T5.setV_vcc, T5.setS_mem, T5.setV_mem, T5.setS_v, T5.setV_s]; exact e2, ?_,
    (fun i hi => by simp only [T5.setPc_pc, T5.setPc_exec, T5.setPc_vcc, T5.setPc_mem, T5.setPc_s, T5.setPc_v, T5.setExec_pc, T5.setExec_exec, T5.setExec_vcc, T5.setExec_mem, T5.setExec_s, T5.setExec_v, T5.setVcc_pc, T5.setVcc_exec, T5.setVcc_vcc, T5.setVcc_mem, T5.setVcc_s, T5.setVcc_v, T5.setMem_pc, T5.setMem_exec, T5.setMem_vcc, T5.setMem_mem, T5.setMem_s, T5.setMem_v, T5.setS_pc, T5.setV_pc, T5.setS_exec, T5.setV_exec, T5.setS_vcc, T5.setV_vcc, T5.setS_mem, T5.setV_mem, T5.setS_v, T5.setV_s]; exact e4 i hi), ?_, (fun a => by simp only [T5.setPc_pc, T5.setPc_exec, T5.setPc_vcc, T5.setPc_mem, T5.setPc_s, T5.setPc_v, T5.setExec_pc, T5.setExec_exec, T5.setExec_vcc, T5.setExec_mem, T5.setExec_s, T5.setExec_v, T5.setVcc_pc, T5.setVcc_exec, T5.setVcc_vcc, T5.setVcc_mem, T5.setVcc_s, T5.setVcc_v, T5.setMem_pc, T5.setMem_exec, T5.setMem_vcc, T5.setMem_mem, T5.setMem_s, T5.setMem_v, T5.setS_pc, T5.setV_pc, T5.setS_exec, T5.setV_exec, T5.setS_vcc, T5.setV_vcc, T5.setS_mem, T5.setV_mem, T5.setS_v, T5.setV_s]; exact e6 a)⟩
  · simp only [T5.setPc_pc, T5.setPc_exec, T5.setPc_vcc, T5.setPc_mem, T5.setPc_s, T5.setPc_v, T5.setExec_pc, T5.setExec_exec, T5.setExec_vcc, T5.setExec_mem, T5.setExec_s, T5.setExec_v, T5.setVcc_pc, T5.setVcc_exec, T5.setVcc_vcc, T5.setVcc_mem, T5.setVcc_s, T5.setVcc_v, T5.setMem_pc, T5.setMem_exec, T5.setMem_vcc, T5.setMem_mem, T5.setMem_s, T5.setMem_v, T5.setS_pc, T5.setV_pc, T5.setS_exec, T5.setV_exec, T5.setS_vcc, T5.setV_vcc, T5.setS_mem, T5.setV_mem, T5.setS_v, T5.setV_s]
    show maskUpTo _ 64 = maskUpTo _ 64
    apply maskUpTo_congr
    intro l hl
    rw [e2, e4 S hS, e5 R l hR hl]
  · intro r l hr hl
    show (if V.exec.testBit l = true ∧ r = D then _ else V.rv r l) = (((t.setV D _).setVcc _).setPc _).v r l
    rw [T5.setPc_v, T5.setVcc_v, T5.v_setV t D _ r hD hr, e2, e4 S hS, e5 R l hR hl, e5 r l hr hl]
    by_cases hrd : r = D
    · subst hrd
      by_cases hx : t.exec.testBit l = true <;> simp [hx]
    · simp [hrd]

/-- V_ADDC_U32 vD, vcc, vA, vB, vcc -/
theorem lift5_vaddc (A B D : Nat) (hA : A < 5) (hB : B < 5) (hD : D < 5)
    (hd : DecV ((P.code.drop k).take 8) 6 28 4)
    (hex : ∀ st, exec false st (((P.code.drop k).take 8).take 4) = some ("v_addc_co_u32", execVALU st (eAddc A B D)))
    (st : St) (t : T5) (h : Tracks5 st t) (hpc : t.pc = base + k) :
    ∃ st', step P base st = .ok (st', .next) ∧
      Tracks5 st' (((t.setV D (fun l => if t.exec.testBit l = true
          then (t.v A l % 2 ^ 32 + t.v B l % 2 ^ 32 + (t.vcc.testBit l).toNat) % 2 ^ 32 else t.v D l)).setVcc
        (maskUpTo (fun l => t.exec.testBit l &&
          decide (t.v A l % 2 ^ 32 + t.v B l % 2 ^ 32 + (t.vcc.testBit l).toNat ≥ 2 ^ 32)) 64)).setPc (base + k + 4)) := by
  obtain ⟨V, hV, e1, e2, e3, e4, e5, e6⟩ := h
  obtain ⟨st', hs, hv⟩ := step_vaddc P hP base k A B D (by omega) (by omega) hd hex st V hV (e1.trans hpc)
  refine ⟨st', hs, _, hv, rfl, by simp only [T5.setPc_pc, T5.setPc_exec, T5.setPc_vcc, T5.setPc_mem, T5.setPc_s, T5.setPc_v, T5.setExec_pc, T5.setExec_exec, T5.setExec_vcc, T5.setExec_mem, T5.setExec_s, T5.setExec_v, T5.setVcc_pc, T5.setVcc_exec, T5.setVcc_vcc, T5.setVcc_mem, T5.setVcc_s, T5.setVcc_v, T5.setMem_pc, T5.setMem_exec, T5.setMem_vcc, T5.setMem_mem, T5.setMem_s, T5.setMem_v, T5.setS_pc, T5.setV_pc, T5.setS_exec, T5.setV_exec, T5.setS_vcc, T5.setV_vcc, T5.setS_mem, T5.setV_mem, T5.setS_v, T5.setV_s]; exact e2, ?_,
    (fun i hi => by simp only [T5.setPc_pc, T5.setPc_exec, T5.setPc_vcc, T5.setPc_mem, T5.setPc_s, T5.setPc_v, T5.setExec_pc, T5.setExec_exec, T5.setExec_vcc, T5.setExec_mem, T5.setExec_s, T5.setExec_v, T5.setVcc_pc, T5.setVcc_exec, T5.setVcc_vcc, T5.setVcc_mem, T5.setVcc_s, T5.setVcc_v, T5.setMem_pc, T5.setMem_exec, T5.setMem_vcc, T5.setMem_mem, T5.setMem_s, T5.setMem_v, T5.setS_pc, T5.setV_pc, T5.setS_exec, T5.setV_exec, T5.setS_vcc, T5.setV_vcc, T5.setS_mem, T5.setV_mem, T5.setS_v, T5.setV_s]; exact e4 i hi), ?_, (fun a => by simp only [T5.setPc_pc, T5.setPc_exec, T5.setPc_vcc, T5.setPc_mem, T5.setPc_s, T5.setPc_v, T5.setExec_pc, T5.setExec_exec, T5.setExec_vcc, T5.setExec_mem, T5.setExec_s, T5.setExec_v, T5.setVcc_pc, T5.setVcc_exec, T5.setVcc_vcc, T5.setVcc_mem, T5.setVcc_s, T5.setVcc_v, T5.setMem_pc, T5.setMem_exec, T5.setMem_vcc, T5.setMem_mem, T5.setMem_s, T5.setMem_v, T5.setS_pc, T5.setV_pc, T5.setS_exec, T5.setV_exec, T5.setS_vcc, T5.setV_vcc, T5.setS_mem, T5.setV_mem, T5.setS_v, T5.setV_s]; exact e6 a)⟩
  · simp only [T5.setPc_pc, T5.setPc_exec, T5.setPc_vcc, T5.setPc_mem, T5.setPc_s, T5.setPc_v, T5.setExec_pc, T5.setExec_exec, T5.setExec_vcc, T5.setExec_mem, T5.setExec_s, T5.setExec_v, T5.setVcc_pc, T5.setVcc_exec, T5.setVcc_vcc, T5.setVcc_mem, T5.setVcc_s, T5.setVcc_v, T5.setMem_pc, T5.setMem_exec, T5.setMem_vcc, T5.setMem_mem, T5.setMem_s, T5.setMem_v, T5.setS_pc, T5.setV_pc, T5.setS_exec, T5.setV_exec, T5.setS_vcc, T5.setV_vcc, T5.setS_mem, T5.setV_mem, T5.setS_v, T5.setV_s]
    show maskUpTo _ 64 = maskUpTo _ 64
    apply maskUpTo_congr
    intro l hl
    rw [e2, e3, e5 A l hA hl, e5 B l hB hl]
  · intro r l hr hl
    show (if V.exec.testBit l = true ∧ r = D then _ else V.rv r l) = (((t.setV D _).setVcc _).setPc _).v r l
    rw [T5.setPc_v, T5.setVcc_v, T5.v_setV t D _ r hD hr, e2, e3, e5 A l hA hl, e5 B l hB hl, e5 r l hr hl]
    by_cases hrd : r = D
    · subst hrd
      by_cases hx : t.exec.testBit l = true <;> simp [hx]
    · simp [hrd]

/-- V_MOV_B32 vD, src: `val` is what the source reads (constant, SGPR or VGPR) -/
theorem lift5_vmov (c D : Nat) (hD : D < 5)
    (hd : DecV ((P.code.drop k).take 8) 7 1 4)
    (hex : ∀ st, exec false st (((P.code.drop k).take 8).take 4) = some ("v_mov_b32", execVALU st (eMov c D)))
    (st : St) (t : T5) (h : Tracks5 st t) (hpc : t.pc = base + k) (val : Nat → Nat)
    (hval : ∀ (st' : St) (V : View), Sees st' V → (∀ i, i < 9 → V.rs i = t.s i) →
      (∀ r l, r < 5 → l < 64 → V.rv r l = t.v r l) → ∀ l, l < 64 → st'.src c l 32 0 false % 2 ^ 32 = val l) :
    ∃ st', step P base st = .ok (st', .next) ∧
      Tracks5 st' ((t.setV D (fun l => if t.exec.testBit l = true then val l else t.v D l)).setPc (base + k + 4)) := by
  obtain ⟨V, hV, e1, e2, e3, e4, e5, e6⟩ := h
  obtain ⟨st', hs, hv⟩ := step_vmov P hP base k c D hd hex st V hV (e1.trans hpc) val
    (hval _ _ (hV.setPc (base + k + 4)) e4 e5)
  refine ⟨st', hs, _, hv, rfl, by simp only [T5.setPc_pc, T5.setPc_exec, T5.setPc_vcc, T5.setPc_mem, T5.setPc_s, T5.setPc_v, T5.setExec_pc, T5.setExec_exec, T5.setExec_vcc, T5.setExec_mem, T5.setExec_s, T5.setExec_v, T5.setVcc_pc, T5.setVcc_exec, T5.setVcc_vcc, T5.setVcc_mem, T5.setVcc_s, T5.setVcc_v, T5.setMem_pc, T5.setMem_exec, T5.setMem_vcc, T5.setMem_mem, T5.setMem_s, T5.setMem_v, T5.setS_pc, T5.setV_pc, T5.setS_exec, T5.setV_exec, T5.setS_vcc, T5.setV_vcc, T5.setS_mem, T5.setV_mem, T5.setS_v, T5.setV_s]; exact e2, by simp only [T5.setPc_pc, T5.setPc_exec, T5.setPc_vcc, T5.setPc_mem, T5.setPc_s, T5.setPc_v, T5.setExec_pc, T5.setExec_exec, T5.setExec_vcc, T5.setExec_mem, T5.setExec_s, T5.setExec_v, T5.setVcc_pc, T5.setVcc_exec, T5.setVcc_vcc, T5.setVcc_mem, T5.setVcc_s, T5.setVcc_v, T5.setMem_pc, T5.setMem_exec, T5.setMem_vcc, T5.setMem_mem, T5.setMem_s, T5.setMem_v, T5.setS_pc, T5.setV_pc, T5.setS_exec, T5.setV_exec, T5.setS_vcc, T5.setV_vcc, T5.setS_mem, T5.setV_mem, T5.setS_v, T5.setV_s]; exact e3,
    (fun i hi => by simp only [T5.setPc_pc, T5.setPc_exec, T5.setPc_vcc, T5.setPc_mem, T5.setPc_s, T5.setPc_v, T5.setExec_pc, T5.setExec_exec, T5.setExec_vcc, T5.setExec_mem, T5.setExec_s, T5.setExec_v, T5.setVcc_pc, T5.setVcc_exec, T5.setVcc_vcc, T5.setVcc_mem, T5.setVcc_s, T5.setVcc_v, T5.setMem_pc, T5.setMem_exec, T5.setMem_vcc, T5.setMem_mem, T5.setMem_s, T5.setMem_v, T5.setS_pc, T5.setV_pc, T5.setS_exec, T5.setV_exec, T5.setS_vcc, T5.setV_vcc, T5.setS_mem, T5.setV_mem, T5.setS_v, T5.setV_s]; exact e4 i hi), ?_, (fun a => by simp only [T5.setPc_pc, T5.setPc_exec, T5.setPc_vcc, T5.setPc_mem, T5.setPc_s, T5.setPc_v, T5.setExec_pc, T5.setExec_exec, T5.setExec_vcc, T5.setExec_mem, T5.setExec_s, T5.setExec_v, T5.setVcc_pc, T5.setVcc_exec, T5.setVcc_vcc, T5.setVcc_mem, T5.setVcc_s, T5.setVcc_v, T5.setMem_pc, T5.setMem_exec, T5.setMem_vcc, T5.setMem_mem, T5.setMem_s, T5.setMem_v, T5.setS_pc, T5.setV_pc, T5.setS_exec, T5.setV_exec, T5.setS_vcc, T5.setV_vcc, T5.setS_mem, T5.setV_mem, T5.setS_v, T5.setV_s]; exact e6 a)⟩
  intro r l hr hl
  show (if V.exec.testBit l = true ∧ r = D then _ else V.rv r l) = ((t.setV D _).setPc _).v r l
  rw [T5.setPc_v, T5.v_setV t D _ r hD hr, e2, e5 r l hr hl]
  by_cases hrd : r = D
  · subst hrd
    by_cases hx : t.exec.testBit l = true <;> simp [hx]
  · simp [hrd]

/-- integer compare sS, vR into VCC -/
theorem lift5_vcmp32 (op S R : Nat) (hS : S < 9) (hR : R < 5)
    (hd : DecV ((P.code.drop k).take 8) 10 op 4) (name : String) (e : VEnc)
    (hs : Simple e) (hk : e.op.kind = .cmp) (hsd : e.sdst = 106) (hty : e.op.ty = .int)
    (hw0 : e.op.w0 = 32) (hw1 : e.op.w1 = 32) (hn : e.op.nsrc = 2) (hs0 : e.src0 = S) (hs1 : e.src1 = 256 + R)
    (c : Nat → Nat → Bool) (hf : ∀ x : LaneIn, (e.op.f x).co = c x.a x.b)
    (hex : ∀ st, exec false st (((P.code.drop k).take 8).take 4) = some (name, execVALU st e))
    (st : St) (t : T5) (h : Tracks5 st t) (hpc : t.pc = base + k) :
    ∃ st', step P base st = .ok (st', .next) ∧
      Tracks5 st' ((t.setVcc (maskUpTo (fun l => t.exec.testBit l && c (t.s S % 2 ^ 32) (t.v R l % 2 ^ 32)) 64)).setPc
        (base + k + 4)) := by
  obtain ⟨V, hV, e1, e2, e3, e4, e5, e6⟩ := h
  obtain ⟨st', hs', hv⟩ := step_vcmp32 P hP base k op S R (by omega) (by omega) hd name e hs hk hsd hty hw0 hw1 hn hs0 hs1
    c hf hex st V hV (e1.trans hpc)
  refine ⟨st', hs', _, hv, rfl, e2, ?_, e4, e5, e6⟩
  show maskUpTo _ 64 = maskUpTo _ 64
  apply maskUpTo_congr
  intro l hl
  rw [e2, e4 S hS, e5 R l hR hl]

/-- V_ASHRREV_I64 v[D:D+1], n, v[R:R+1] -/
theorem lift5_vashr64 (n R D : Nat) (hn : n < 64) (hR : R + 1 < 5) (hD : D + 1 < 5)
    (hd : DecV ((P.code.drop k).take 8) 8 657 8) (name : String) (e : VEnc)
    (hs : Simple e) (hk : e.op.kind = .plain) (hsd : e.sdst = 106) (hwd : e.op.wd = 64) (hty : e.op.ty = .int)
    (hw0 : e.op.w0 = 32) (hw1 : e.op.w1 = 64) (hns : e.op.nsrc = 2) (hs0 : e.src0 = 128 + n) (hs1 : e.src1 = 256 + R)
    (hvd : e.vdst = D)
    (hf : ∀ x : LaneIn, (e.op.f x).d = (I.ashrrev64 (w32 x.a) (w64 x.b)).toNat)
    (hex : ∀ st, exec false st (((P.code.drop k).take 8).take 8) = some (name, execVALU st e))
    (st : St) (t : T5) (h : Tracks5 st t) (hpc : t.pc = base + k)
    (hpos : ∀ l, l < 64 → t.exec.testBit l = true → t.v R l + t.v (R + 1) l * 2 ^ 32 < 2 ^ 63) :
    ∃ st', step P base st = .ok (st', .next) ∧
      Tracks5 st' (((t.setV D (fun l => if t.exec.testBit l = true
            then (t.v R l + t.v (R + 1) l * 2 ^ 32) / 2 ^ n % 2 ^ 32 else t.v D l)).setV (D + 1)
          (fun l => if t.exec.testBit l = true
            then (t.v R l + t.v (R + 1) l * 2 ^ 32) / 2 ^ n / 2 ^ 32 % 2 ^ 32 else t.v (D + 1) l)).setPc (base + k + 8)) := by
  obtain ⟨V, hV, e1, e2, e3, e4, e5, e6⟩ := h
  obtain ⟨st', hs', hv⟩ := step_vashr64 P hP base k n R D hn (by omega) hd name e hs hk hsd hwd hty hw0 hw1 hns hs0 hs1 hvd
    hf hex st V hV (e1.trans hpc) (by
      intro l hl hx
      rw [e5 R l (by omega) hl, e5 (R + 1) l hR hl]
      exact hpos l hl (by rw [← e2]; exact hx))
  refine ⟨st', hs', _, hv, rfl, by simp only [T5.setPc_pc, T5.setPc_exec, T5.setPc_vcc, T5.setPc_mem, T5.setPc_s, T5.setPc_v, T5.setExec_pc, T5.setExec_exec, T5.setExec_vcc, T5.setExec_mem, T5.setExec_s, T5.setExec_v, T5.setVcc_pc, T5.setVcc_exec, T5.setVcc_vcc, T5.setVcc_mem, T5.setVcc_s, T5.setVcc_v, T5.setMem_pc, T5.setMem_exec, T5.setMem_vcc, T5.setMem_mem, T5.setMem_s, T5.setMem_v, T5.setS_pc, T5.setV_pc, T5.setS_exec, T5.setV_exec, T5.setS_vcc, T5.setV_vcc, T5.setS_mem, T5.setV_mem, T5.setS_v, T5.setV_s]; exact e2, by simp only [T5.setPc_pc, T5.setPc_exec, T5.setPc_vcc, T5.setPc_mem, T5.setPc_s, T5.setPc_v, T5.setExec_pc, T5.setExec_exec, T5.setExec_vcc, T5.setExec_mem, T5.setExec_s, T5.setExec_v, T5.setVcc_pc, T5.setVcc_exec, T5.setVcc_vcc, T5.setVcc_mem, T5.setVcc_s, T5.setVcc_v, T5.setMem_pc, T5.setMem_exec, T5.setMem_vcc, T5.setMem_mem, T5.setMem_s, T5.setMem_v, T5.setS_pc, T5.setV_pc, T5.setS_exec, T5.setV_exec, T5.setS_vcc, T5.setV_vcc, T5.setS_mem, T5.setV_mem, T5.setS_v, T5.setV_s]; exact e3,
    (fun i hi => by simp only [T5.setPc_pc, T5.setPc_exec, T5.setPc_vcc, T5.setPc_mem, T5.setPc_s, T5.setPc_v, T5.setExec_pc, T5.setExec_exec, T5.setExec_vcc, T5.setExec_mem, T5.setExec_s, T5.setExec_v, T5.setVcc_pc, T5.setVcc_exec, T5.setVcc_vcc, T5.setVcc_mem, T5.setVcc_s, T5.setVcc_v, T5.setMem_pc, T5.setMem_exec, T5.setMem_vcc, T5.setMem_mem, T5.setMem_s, T5.setMem_v, T5.setS_pc, T5.setV_pc, T5.setS_exec, T5.setV_exec, T5.setS_vcc, T5.setV_vcc, T5.setS_mem, T5.setV_mem, T5.setS_v, T5.setV_s]; exact e4 i hi), ?_, (fun a => by simp only [T5.setPc_pc, T5.setPc_exec, T5.setPc_vcc, T5.setPc_mem, T5.setPc_s, T5.setPc_v, T5.setExec_pc, T5.setExec_exec, T5.setExec_vcc, T5.setExec_mem, T5.setExec_s, T5.setExec_v, T5.setVcc_pc, T5.setVcc_exec, T5.setVcc_vcc, T5.setVcc_mem, T5.setVcc_s, T5.setVcc_v, T5.setMem_pc, T5.setMem_exec, T5.setMem_vcc, T5.setMem_mem, T5.setMem_s, T5.setMem_v, T5.setS_pc, T5.setV_pc, T5.setS_exec, T5.setV_exec, T5.setS_vcc, T5.setV_vcc, T5.setS_mem, T5.setV_mem, T5.setS_v, T5.setV_s]; exact e6 a)⟩
  intro r l hr hl
  show (if V.exec.testBit l = true ∧ r = D + 1 then _ else if V.exec.testBit l = true ∧ r = D then _ else V.rv r l) =
    (((t.setV D _).setV (D + 1) _).setPc _).v r l
  rw [T5.setPc_v, T5.v_setV _ (D + 1) _ r hD hr, T5.v_setV t D _ r (by omega) hr, e2, e5 R l (by omega) hl, e5 (R + 1) l hR hl,
    e5 r l hr hl]
  by_cases h1 : r = D + 1
  · subst h1
    by_cases hx : t.exec.testBit l = true <;> simp [hx]
  · by_cases h0 : r = D
    · subst h0
      by_cases hx : t.exec.testBit l = true <;> simp [hx, h1]
    · simp [h0, h1]

/-- FLAT_LOAD_DWORD vD, v[A:A+1] -/
theorem lift5_flat_load (A D : Nat) (hA : A + 1 < 5) (hD : D < 5)
    (hd : DecV ((P.code.drop k).take 8) 17 20 8) (name : String)
    (hex : ∀ st, exec false st (((P.code.drop k).take 8).take 8) =
      some (name, (activeLanes st).flatMap fun l => wrVN D l 1 (st.memRead (gAddr st A l) 4)))
    (st : St) (t : T5) (h : Tracks5 st t) (hpc : t.pc = base + k) (addr : Nat → Nat)
    (haddr : ∀ l, l < 64 → t.exec.testBit l = true →
      (t.v A l + t.v (A + 1) l * 2 ^ 32) % 2 ^ 64 = addr l ∧ addr l + 4 ≤ 2 ^ 64) :
    ∃ st', step P base st = .ok (st', .next) ∧
      Tracks5 st' ((t.setV D (fun l => if t.exec.testBit l = true then rd32 t.mem (addr l) % 2 ^ 32 else t.v D l)).setPc
        (base + k + 8)) := by
  obtain ⟨V, hV, e1, e2, e3, e4, e5, e6⟩ := h
  have hm : V.mem = t.mem := funext e6
  obtain ⟨st', hs', hv⟩ := step_flat_load P hP base k A D (by omega) hd name hex st V hV (e1.trans hpc) addr (by
      intro l hl hx
      rw [e5 A l (by omega) hl, e5 (A + 1) l hA hl]
      exact haddr l hl (by rw [← e2]; exact hx))
  refine ⟨st', hs', _, hv, rfl, by simp only [T5.setPc_pc, T5.setPc_exec, T5.setPc_vcc, T5.setPc_mem, T5.setPc_s, T5.setPc_v, T5.setExec_pc, T5.setExec_exec, T5.setExec_vcc, T5.setExec_mem, T5.setExec_s, T5.setExec_v, T5.setVcc_pc, T5.setVcc_exec, T5.setVcc_vcc, T5.setVcc_mem, T5.setVcc_s, T5.setVcc_v, T5.setMem_pc, T5.setMem_exec, T5.setMem_vcc, T5.setMem_mem, T5.setMem_s, T5.setMem_v, T5.setS_pc, T5.setV_pc, T5.setS_exec, T5.setV_exec, T5.setS_vcc, T5.setV_vcc, T5.setS_mem, T5.setV_mem, T5.setS_v, T5.setV_s]; exact e2, by simp only [T5.setPc_pc, T5.setPc_exec, T5.setPc_vcc, T5.setPc_mem, T5.setPc_s, T5.setPc_v, T5.setExec_pc, T5.setExec_exec, T5.setExec_vcc, T5.setExec_mem, T5.setExec_s, T5.setExec_v, T5.setVcc_pc, T5.setVcc_exec, T5.setVcc_vcc, T5.setVcc_mem, T5.setVcc_s, T5.setVcc_v, T5.setMem_pc, T5.setMem_exec, T5.setMem_vcc, T5.setMem_mem, T5.setMem_s, T5.setMem_v, T5.setS_pc, T5.setV_pc, T5.setS_exec, T5.setV_exec, T5.setS_vcc, T5.setV_vcc, T5.setS_mem, T5.setV_mem, T5.setS_v, T5.setV_s]; exact e3,
    (fun i hi => by simp only [T5.setPc_pc, T5.setPc_exec, T5.setPc_vcc, T5.setPc_mem, T5.setPc_s, T5.setPc_v, T5.setExec_pc, T5.setExec_exec, T5.setExec_vcc, T5.setExec_mem, T5.setExec_s, T5.setExec_v, T5.setVcc_pc, T5.setVcc_exec, T5.setVcc_vcc, T5.setVcc_mem, T5.setVcc_s, T5.setVcc_v, T5.setMem_pc, T5.setMem_exec, T5.setMem_vcc, T5.setMem_mem, T5.setMem_s, T5.setMem_v, T5.setS_pc, T5.setV_pc, T5.setS_exec, T5.setV_exec, T5.setS_vcc, T5.setV_vcc, T5.setS_mem, T5.setV_mem, T5.setS_v, T5.setV_s]; exact e4 i hi), ?_, (fun a => by simp only [T5.setPc_pc, T5.setPc_exec, T5.setPc_vcc, T5.setPc_mem, T5.setPc_s, T5.setPc_v, T5.setExec_pc, T5.setExec_exec, T5.setExec_vcc, T5.setExec_mem, T5.setExec_s, T5.setExec_v, T5.setVcc_pc, T5.setVcc_exec, T5.setVcc_vcc, T5.setVcc_mem, T5.setVcc_s, T5.setVcc_v, T5.setMem_pc, T5.setMem_exec, T5.setMem_vcc, T5.setMem_mem, T5.setMem_s, T5.setMem_v, T5.setS_pc, T5.setV_pc, T5.setS_exec, T5.setV_exec, T5.setS_vcc, T5.setV_vcc, T5.setS_mem, T5.setV_mem, T5.setS_v, T5.setV_s]; exact e6 a)⟩
  intro r l hr hl
  show (if V.exec.testBit l = true ∧ r = D then _ else V.rv r l) = ((t.setV D _).setPc _).v r l
  rw [T5.setPc_v, T5.v_setV t D _ r hD hr, e2, hm, e5 r l hr hl]
  by_cases hrd : r = D
  · subst hrd
    by_cases hx : t.exec.testBit l = true <;> simp [hx]
  · simp [hrd]

/-- FLAT_STORE_DWORD v[A:A+1], vS -/
theorem lift5_flat_store (A S : Nat) (hA : A + 1 < 5) (hS : S < 5)
    (hd : DecV ((P.code.drop k).take 8) 17 28 8) (name : String)
    (hex : ∀ st, exec false st (((P.code.drop k).take 8).take 8) =
      some (name, (activeLanes st).flatMap fun l => wrMemBytes (gAddr st A l) 4 (st.rvN S l 1)))
    (st : St) (t : T5) (h : Tracks5 st t) (hpc : t.pc = base + k) (addr : Nat → Nat)
    (haddr : ∀ l, l < 64 → t.exec.testBit l = true →
      (t.v A l + t.v (A + 1) l * 2 ^ 32) % 2 ^ 64 = addr l ∧ addr l + 4 ≤ 2 ^ 64) :
    ∃ st', step P base st = .ok (st', .next) ∧
      Tracks5 st' ((t.setMem (applyWrites ((lanesOf t.exec).flatMap fun l => storePairs (addr l) (t.v S l)) t.mem)).setPc
        (base + k + 8)) := by
  obtain ⟨V, hV, e1, e2, e3, e4, e5, e6⟩ := h
  have hm : V.mem = t.mem := funext e6
  obtain ⟨st', hs', hv⟩ := step_flat_store P hP base k A S (by omega) (by omega) hd name hex st V hV (e1.trans hpc) addr (by
      intro l hl hx
      rw [e5 A l (by omega) hl, e5 (A + 1) l hA hl]
      exact haddr l hl (by rw [← e2]; exact hx))
  refine ⟨st', hs', _, hv, rfl, e2, e3, e4, e5, ?_⟩
  intro a
  show applyWrites ((lanesOf V.exec).flatMap fun l => storePairs (addr l) (V.rv S l)) V.mem a = _
  rw [e2, hm]
  show _ = applyWrites ((lanesOf t.exec).flatMap fun l => storePairs (addr l) (t.v S l)) t.mem a
  congr 1
  apply flatMap_congr'
  intro l hl
  rw [e5 S l hS ((mem_lanesOf _ _).mp hl).1]

end lifts
end Emu
end C01
