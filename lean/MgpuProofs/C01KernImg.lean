import MgpuProofs.C01Map
import MgpuProofs.C01ReluWave
import MgpuProofs.C01MulWave
/-! # C01 — the kernel-argument images the host code of `relu` and `ElementWiseMul` builds

`binary.Write` lays the argument struct out packed, little-endian (proved for arbitrary structs in
`Props/C01.lean`: `kernarg_layout`).  `reluArgs` / `mulArgs` are these images for `relu.KernelArgs` and
`gputensor.elemWiseMulKernArg`; `relu_img` / `mul_img`: a memory into which the driver copied the image and a
dispatch packet announcing 64-wide work-groups provides what the kernels read (`Relu.Img`, `Mul.Img`). -/
set_option linter.unusedSimpArgs false
set_option linter.unusedVariables false
set_option maxRecDepth 100000
namespace C01.Emu
open C03V Copy

/-- four little-endian bytes -/
def le4 (x : Nat) : List Nat := [x % 256, x / 256 % 256, x / 65536 % 256, x / 16777216 % 256]

theorem rd32_lo (f : Nat → Nat) (a x : Nat) (h0 : f a = x % 256) (h1 : f (a + 1) = x / 256 % 256)
    (h2 : f (a + 2) = x / 65536 % 256) (h3 : f (a + 3) = x / 16777216 % 256) : rd32 f a % 2 ^ 32 = x % 2 ^ 32 := by
  unfold rd32
  rw [h0, h1, h2, h3, le4_join, Nat.mod_mod]

theorem rd32_hi (f : Nat → Nat) (a x : Nat) (hx : x < 2 ^ 64) (h0 : f a = x / 4294967296 % 256)
    (h1 : f (a + 1) = x / 1099511627776 % 256) (h2 : f (a + 2) = x / 281474976710656 % 256)
    (h3 : f (a + 3) = x / 72057594037927936 % 256) : rd32 f a % 2 ^ 32 = x / 2 ^ 32 := by
  unfold rd32
  rw [h0, h1, h2, h3, le4_join_hi _ hx]
  exact Nat.mod_eq_of_lt (by omega)

/-- `relu.KernelArgs{Count, Padding, Input, Output, HiddenGlobalOffsetX, …Y, …Z}` -/
def reluArgs (count src dst lo : Nat) : List Nat :=
  le4 count ++ le4 0 ++ le8 src ++ le8 dst ++ le8 lo ++ le8 0 ++ le8 0

/-- `gputensor.elemWiseMulKernArg{Out, In1, In2, N, Padding, OffsetX, OffsetY, OffsetZ}` -/
def mulArgs (dst in1 in2 n lo : Nat) : List Nat :=
  le8 dst ++ le8 in1 ++ le8 in2 ++ le4 n ++ le4 0 ++ le8 lo ++ le8 0 ++ le8 0

theorem getD_append_left (a b : List Nat) (i : Nat) (hi : i < a.length) : (a ++ b).getD i 0 = a.getD i 0 := by
  rw [List.getD_eq_getElem?_getD, List.getD_eq_getElem?_getD, List.getElem?_append_left hi]

/-- reading a byte of the installed kernel-argument image below a packet installed elsewhere -/
theorem get_image (ka pa : Nat) (img tail pk : List Nat) (m : Mem) (hsep : ka + img.length ≤ pa ∨ pa + pk.length ≤ ka)
    (i : Nat) (hi : i < img.length) :
    get (install pa pk (install ka (img ++ tail) m)) (ka + i) = img.getD i 0 := by
  rw [get_install, if_neg (by omega), get_install, if_pos ⟨by omega, by rw [List.length_append]; omega⟩,
    Nat.add_sub_cancel_left, getD_append_left _ _ _ hi]

theorem get_packet (ka pa : Nat) (kimg pk : List Nat) (m : Mem) (j : Nat) (hj : j < pk.length) :
    get (install pa pk (install ka kimg m)) (pa + j) = pk.getD j 0 := by
  rw [get_install, if_pos ⟨by omega, by omega⟩, Nat.add_sub_cancel_left]

theorem packet_wg (ka pa : Nat) (kimg pk : List Nat) (m : Mem) (hpk : 8 ≤ pk.length) (h4 : pk.getD 4 0 = 64)
    (h5 : pk.getD 5 0 = 0) : rd32 (get (install pa pk (install ka kimg m))) (pa + 4) % 65536 = 64 := by
  unfold rd32
  rw [get_packet ka pa kimg pk m 4 (by omega), Nat.add_assoc pa 4 1, Nat.add_assoc pa 4 2, Nat.add_assoc pa 4 3,
    get_packet ka pa kimg pk m (4 + 1) (by omega), get_packet ka pa kimg pk m (4 + 2) (by omega),
    get_packet ka pa kimg pk m (4 + 3) (by omega)]
  exact low16 _ _ _ _ h4 h5

namespace Relu

theorem relu_img (c : Map.Cfg) (src : Nat) (hlim : c.lim < 2 ^ 32) (hlo : c.lo < 2 ^ 32) (hsrc : src < 2 ^ 64)
    (hdst : c.dst < 2 ^ 64) (tail pk : List Nat) (m : Mem)
    (hpk : 8 ≤ pk.length) (h4 : pk.getD 4 0 = 64) (h5 : pk.getD 5 0 = 0)
    (hsep : c.ka + 48 ≤ c.pa ∨ c.pa + pk.length ≤ c.ka) :
    Img c src (get (install c.pa pk (install c.ka (reluArgs c.lim src c.dst c.lo ++ tail) m))) := by
  have hlen : (reluArgs c.lim src c.dst c.lo).length = 48 := rfl
  have fk : ∀ i, i < 48 → get (install c.pa pk (install c.ka (reluArgs c.lim src c.dst c.lo ++ tail) m)) (c.ka + i) =
      (reluArgs c.lim src c.dst c.lo).getD i 0 :=
    fun i hi => get_image c.ka c.pa _ tail pk m (by rw [hlen]; exact hsep) i (by rw [hlen]; exact hi)
  have hwg := packet_wg c.ka c.pa (reluArgs c.lim src c.dst c.lo ++ tail) pk m hpk h4 h5
  generalize get (install c.pa pk (install c.ka (reluArgs c.lim src c.dst c.lo ++ tail) m)) = f at fk hwg ⊢
  refine ⟨hwg, ?_, ?_, ?_, ?_, ?_, ?_⟩
  · rw [(rd32_lo f (c.ka + 0) _ (fk 0 (by decide)) (by rw [Nat.add_assoc]; exact fk (0 + 1) (by decide)) (by rw [Nat.add_assoc]; exact fk (0 + 2) (by decide)) (by rw [Nat.add_assoc]; exact fk (0 + 3) (by decide)))]; exact Nat.mod_eq_of_lt hlim
  · rw [(rd32_lo f (c.ka + 24) _ (fk 24 (by decide)) (by rw [Nat.add_assoc]; exact fk (24 + 1) (by decide)) (by rw [Nat.add_assoc]; exact fk (24 + 2) (by decide)) (by rw [Nat.add_assoc]; exact fk (24 + 3) (by decide)))]; exact Nat.mod_eq_of_lt hlo
  · exact (rd32_lo f (c.ka + 8) _ (fk 8 (by decide)) (by rw [Nat.add_assoc]; exact fk (8 + 1) (by decide)) (by rw [Nat.add_assoc]; exact fk (8 + 2) (by decide)) (by rw [Nat.add_assoc]; exact fk (8 + 3) (by decide)))
  · exact (rd32_hi f (c.ka + 12) _ hsrc (fk 12 (by decide)) (by rw [Nat.add_assoc]; exact fk (12 + 1) (by decide)) (by rw [Nat.add_assoc]; exact fk (12 + 2) (by decide)) (by rw [Nat.add_assoc]; exact fk (12 + 3) (by decide)))
  · exact (rd32_lo f (c.ka + 16) _ (fk 16 (by decide)) (by rw [Nat.add_assoc]; exact fk (16 + 1) (by decide)) (by rw [Nat.add_assoc]; exact fk (16 + 2) (by decide)) (by rw [Nat.add_assoc]; exact fk (16 + 3) (by decide)))
  · exact (rd32_hi f (c.ka + 20) _ hdst (fk 20 (by decide)) (by rw [Nat.add_assoc]; exact fk (20 + 1) (by decide)) (by rw [Nat.add_assoc]; exact fk (20 + 2) (by decide)) (by rw [Nat.add_assoc]; exact fk (20 + 3) (by decide)))

end Relu

namespace Mul

theorem mul_img (c : Map.Cfg) (in1 in2 n : Nat) (hn : n + 1 = c.lim) (hn32 : n < 2 ^ 32) (hlo : c.lo < 2 ^ 32)
    (hin1 : in1 < 2 ^ 64) (hin2 : in2 < 2 ^ 64) (hdst : c.dst < 2 ^ 64) (tail pk : List Nat) (m : Mem)
    (hpk : 8 ≤ pk.length) (h4 : pk.getD 4 0 = 64) (h5 : pk.getD 5 0 = 0)
    (hsep : c.ka + 56 ≤ c.pa ∨ c.pa + pk.length ≤ c.ka) :
    Img c in1 in2 (get (install c.pa pk (install c.ka (mulArgs c.dst in1 in2 n c.lo ++ tail) m))) := by
  have hlen : (mulArgs c.dst in1 in2 n c.lo).length = 56 := rfl
  have fk : ∀ i, i < 56 → get (install c.pa pk (install c.ka (mulArgs c.dst in1 in2 n c.lo ++ tail) m)) (c.ka + i) =
      (mulArgs c.dst in1 in2 n c.lo).getD i 0 :=
    fun i hi => get_image c.ka c.pa _ tail pk m (by rw [hlen]; exact hsep) i (by rw [hlen]; exact hi)
  have hwg := packet_wg c.ka c.pa (mulArgs c.dst in1 in2 n c.lo ++ tail) pk m hpk h4 h5
  generalize get (install c.pa pk (install c.ka (mulArgs c.dst in1 in2 n c.lo ++ tail) m)) = f at fk hwg ⊢
  refine ⟨hwg, ?_, ?_, ?_, ?_, ?_, ?_, ?_, ?_⟩
  · rw [(rd32_lo f (c.ka + 24) _ (fk 24 (by decide)) (by rw [Nat.add_assoc]; exact fk (24 + 1) (by decide)) (by rw [Nat.add_assoc]; exact fk (24 + 2) (by decide)) (by rw [Nat.add_assoc]; exact fk (24 + 3) (by decide))), Nat.mod_eq_of_lt hn32]; exact hn
  · rw [(rd32_lo f (c.ka + 32) _ (fk 32 (by decide)) (by rw [Nat.add_assoc]; exact fk (32 + 1) (by decide)) (by rw [Nat.add_assoc]; exact fk (32 + 2) (by decide)) (by rw [Nat.add_assoc]; exact fk (32 + 3) (by decide)))]; exact Nat.mod_eq_of_lt hlo
  · exact (rd32_lo f (c.ka + 0) _ (fk 0 (by decide)) (by rw [Nat.add_assoc]; exact fk (0 + 1) (by decide)) (by rw [Nat.add_assoc]; exact fk (0 + 2) (by decide)) (by rw [Nat.add_assoc]; exact fk (0 + 3) (by decide)))
  · exact (rd32_hi f (c.ka + 4) _ hdst (fk 4 (by decide)) (by rw [Nat.add_assoc]; exact fk (4 + 1) (by decide)) (by rw [Nat.add_assoc]; exact fk (4 + 2) (by decide)) (by rw [Nat.add_assoc]; exact fk (4 + 3) (by decide)))
  · exact (rd32_lo f (c.ka + 8) _ (fk 8 (by decide)) (by rw [Nat.add_assoc]; exact fk (8 + 1) (by decide)) (by rw [Nat.add_assoc]; exact fk (8 + 2) (by decide)) (by rw [Nat.add_assoc]; exact fk (8 + 3) (by decide)))
  · exact (rd32_hi f (c.ka + 12) _ hin1 (fk 12 (by decide)) (by rw [Nat.add_assoc]; exact fk (12 + 1) (by decide)) (by rw [Nat.add_assoc]; exact fk (12 + 2) (by decide)) (by rw [Nat.add_assoc]; exact fk (12 + 3) (by decide)))
  · exact (rd32_lo f (c.ka + 16) _ (fk 16 (by decide)) (by rw [Nat.add_assoc]; exact fk (16 + 1) (by decide)) (by rw [Nat.add_assoc]; exact fk (16 + 2) (by decide)) (by rw [Nat.add_assoc]; exact fk (16 + 3) (by decide)))
  · exact (rd32_hi f (c.ka + 20) _ hin2 (fk 20 (by decide)) (by rw [Nat.add_assoc]; exact fk (20 + 1) (by decide)) (by rw [Nat.add_assoc]; exact fk (20 + 2) (by decide)) (by rw [Nat.add_assoc]; exact fk (20 + 3) (by decide)))

end Mul
end C01.Emu
