import MgpuProofs.C07DispWit
set_option linter.unusedVariables false
set_option linter.unusedSimpArgs false
/-! # C07: the resource allocator (model of C09) and one compute unit's register files running together

`Sys` = allocator state + compute unit + (ghost) which records of the compute unit belong to which
resident work-group. Operations: a work-group is mapped (`ReserveResourceForWG`; when it succeeds
every wavefront gets `wrapWG`'s new record and `DispatchWf` with the location the allocator chose), a
resident wavefront accesses its registers, a work-group finishes (every wavefront retires:
`resetRegisterValue`; `FreeResourcesForWG`). Theorem: in every reachable state the compute unit
satisfies `Alloc` and `Clean`, and the records of the live wavefronts carry exactly the allocator's
layouts — no hypothesis connecting the two sides remains. -/
namespace C07
open Gen

structure Sys where
  cu : C09.CU
  t : TimingRF
  live : List (Nat × List Nat)     -- work-group key ↦ indices of its wavefronts' records in `t.wfs`

inductive SysOp where
  | mapWG (key : Nat) (dem : C09.Dem) (ds : Nat → DispInfo)   -- `ds k`: dispatch information of wavefront k
  | acc (wi : Nat) (o : Op)
  | finish (key : Nat)

/-- the life-cycle steps that dispatch the wavefronts of a reserved work-group -/
def mapSteps (dem : C09.Dem) (locs : List C09.Loc) (ds : Nat → DispInfo) : List CUOp :=
  locs.zipIdx.map fun p => CUOp.map dem.s dem.v p.1.simd p.1.soff p.1.voff (ds p.2)

/-- one step; `none`: the allocator panicked ("reserving a work-group twice" / "work-group not found") -/
def Sys.step (s : Sys) : SysOp → Option Sys
  | .mapWG key dem ds =>
    match C09.reserve s.cu key dem with
    | (.ok locs, cu') =>
      some { cu := cu', t := s.t.cuRun (mapSteps dem locs ds),
             live := s.live ++ [(key, List.range' s.t.wfs.size locs.length)] }
    | (.no, cu') => some { s with cu := cu' }
    | (.twice, _) => none
  | .acc wi o => some { s with t := (s.t.step wi o).1 }
  | .finish key =>
    match C09.free s.cu key, s.live.find? (·.1 = key) with
    | some cu', some (_, idxs) =>
      some { cu := cu', t := idxs.foldl (fun t i => t.retire i) s.t, live := s.live.filter (·.1 ≠ key) }
    | _, _ => none

def Sys.run (s : Sys) : List SysOp → Option Sys
  | [] => some s
  | o :: ops => (s.step o).bind fun s' => Sys.run s' ops

/-- side conditions of a step (on the state in which it runs): work-groups have at least one
    wavefront, declare at most 102 SGPRs and enough registers for their ABI registers; accesses are
    supported accesses of existing records -/
def SysOp.Ok (s : Sys) : SysOp → Prop
  | .mapWG key dem ds => 1 ≤ dem.nwf ∧ dem.s ≤ 102 ∧ ∀ k, AbiFits (ds k) dem.s dem.v
  | .acc wi o => wi < s.t.wfs.size ∧ o.Ok (s.t.wf wi).ns (s.t.wf wi).nv
  | .finish _ => True

/-- every step's side condition holds in the state in which it runs -/
def SysOkAll (s : Sys) : List SysOp → Prop
  | [] => True
  | o :: ops => o.Ok s ∧ ∀ s', s.step o = some s' → SysOkAll s' ops

/-- the initial state: the registered shipped compute unit, zeroed register files, nothing resident -/
def Sys.init (cu0 : C09.CU) : Sys := { cu := cu0, t := blankCU, live := [] }

/-- the layouts of the records the ghost list names, in order -/
def Sys.liveLayouts (s : Sys) : List (Nat × Nat × Nat × Nat × Nat) :=
  s.live.flatMap fun e => e.2.map fun i => (s.t.wf i).layout

/-! ## the joint invariant and its preservation -/

abbrev Lay := Nat × Nat × Nat × Nat × Nat

/-- the ghost list with the layouts of the records it names -/
def liveLay (t : TimingRF) (live : List (Nat × List Nat)) : List (Nat × List Lay) :=
  live.map fun g => (g.1, g.2.map fun i => (t.wf i).layout)

/-- the allocator's resident list with the layouts it hands to the dispatcher -/
def resLay (r : List (Nat × C09.Dem × List C09.Loc)) : List (Nat × List Lay) :=
  r.map fun e => (e.1, e.2.2.map fun l => (l.simd, l.soff, l.voff, e.2.1.s, e.2.1.v))

theorem liveLayouts_eq (s : Sys) : s.liveLayouts = (liveLay s.t s.live).flatMap (·.2) := by
  simp only [Sys.liveLayouts, liveLay, List.flatMap_map]

theorem wfs_layout_eq (cu : C09.CU) : (wfsOfCU cu).map TWf.layout = (resLay cu.resident).flatMap (·.2) := by
  simp only [wfsOfCU, resLay, List.flatMap_map, List.map_flatMap, List.map_map]
  rfl

theorem liveLay_keys (t : TimingRF) (live : List (Nat × List Nat)) : (liveLay t live).map (·.1) = live.map (·.1) := by
  simp only [liveLay, List.map_map]; rfl

theorem resLay_keys (r : List (Nat × C09.Dem × List C09.Loc)) : (resLay r).map (·.1) = r.map (·.1) := by
  simp only [resLay, List.map_map]; rfl

theorem liveLay_congr (t t' : TimingRF) (live : List (Nat × List Nat))
    (h : ∀ i ∈ live.flatMap (·.2), (t'.wf i).layout = (t.wf i).layout) : liveLay t' live = liveLay t live := by
  unfold liveLay
  apply List.map_congr_left
  intro g hg
  congr 1
  apply List.map_congr_left
  intro i hi
  exact h i (List.mem_flatMap.2 ⟨g, hg, hi⟩)

theorem liveLay_append (t : TimingRF) (a b : List (Nat × List Nat)) : liveLay t (a ++ b) = liveLay t a ++ liveLay t b := by
  simp [liveLay]

theorem liveLay_filter (t : TimingRF) (live : List (Nat × List Nat)) (key : Nat) :
    (liveLay t live).filter (·.1 ≠ key) = liveLay t (live.filter (·.1 ≠ key)) := by
  unfold liveLay
  rw [List.filter_map]
  rfl

theorem resLay_filter (r : List (Nat × C09.Dem × List C09.Loc)) (key : Nat) :
    (resLay r).filter (·.1 ≠ key) = resLay (r.filter (·.1 ≠ key)) := by
  unfold resLay
  rw [List.filter_map]
  rfl

/-- the joint invariant -/
structure SysInv (s : Sys) : Prop where
  inv : C09.Inv C09.shippedWf s.cu
  sh : CUShape s.cu 200 64 4
  files : ShippedFiles s.t
  alloc : Alloc s.t
  clean : Clean s.t
  ns102 : ∀ e ∈ s.cu.resident, e.2.1.s ≤ 102
  lay : liveLay s.t s.live = resLay s.cu.resident
  nd : (s.live.flatMap (·.2)).Nodup
  lt : ∀ i ∈ s.live.flatMap (·.2), i < s.t.wfs.size
  dead : ∀ i, i < s.t.wfs.size → i ∉ s.live.flatMap (·.2) → (s.t.wf i).ns = 0 ∧ (s.t.wf i).nv = 0

theorem layout_of_lay {w w' : TWf} (h : w'.simd = w.simd ∧ w'.soff = w.soff ∧ w'.voff = w.voff ∧ w'.ns = w.ns ∧ w'.nv = w.nv) :
    w'.layout = w.layout := by
  obtain ⟨a, b, c, d, e⟩ := h
  simp only [TWf.layout, a, b, c, d, e]

theorem shipped_resident (cu0 : C09.CU) (h : shippedCU = some cu0) : cu0.resident = [] := by
  simp [shippedCU, C09.mkCU, C09.mkMask, C09.shippedWf, C09.shippedSRegs, C09.shippedVRegs, C09.shippedLDS,
    C09.sGran, C09.vGran, C09.lGran] at h
  subst h
  rfl

theorem sysInv_init (cu0 : C09.CU) (h0 : shippedCU = some cu0) : SysInv (Sys.init cu0) := by
  have hr := shipped_resident cu0 h0
  exact {
    inv := C09.mkCU_inv _ _ _ _ cu0 h0 rfl (by decide)
    sh := shipped_shape cu0 h0
    files := blank_shipped
    alloc := blank_alloc_clean.1
    clean := blank_alloc_clean.2
    ns102 := by intro e he; simp only [Sys.init] at he; rw [hr] at he; cases he
    lay := by simp only [Sys.init, hr]; rfl
    nd := by simp [Sys.init]
    lt := by intro i hi; simp [Sys.init] at hi
    dead := by intro i hi; exact absurd hi (by simp [Sys.init, blankCU]) }

theorem sysInv_acc (s : Sys) (wi : Nat) (o : Op) (J : SysInv s) (hok : (SysOp.acc wi o).Ok s) :
    SysInv { s with t := (s.t.step wi o).1 } := by
  obtain ⟨hL, hA, hC⟩ := step_alloc_clean s.t wi o J.alloc J.clean hok.1 hok.2
  have hlay : ∀ i, ((s.t.step wi o).1.wf i).layout = (s.t.wf i).layout := fun i => layout_of_lay (hL.lay i)
  exact {
    inv := J.inv
    sh := J.sh
    files := ⟨by rw [hL.ssz]; exact J.files.s, by rw [hL.nvf]; exact J.files.n, fun x hx => by rw [hL.vsz]; exact J.files.v x hx⟩
    alloc := hA
    clean := hC
    ns102 := J.ns102
    lay := by
      show liveLay (s.t.step wi o).1 s.live = _
      rw [liveLay_congr s.t _ _ (fun i _ => hlay i)]; exact J.lay
    nd := J.nd
    lt := by intro i hi; show i < (s.t.step wi o).1.wfs.size; rw [hL.nwf]; exact J.lt i hi
    dead := by
      intro i hi hn
      have hi' : i < s.t.wfs.size := by rw [← hL.nwf]; exact hi
      obtain ⟨_, _, _, a4, a5⟩ := hL.lay i
      obtain ⟨d1, d2⟩ := J.dead i hi' hn
      exact ⟨by show ((s.t.step wi o).1.wf i).ns = 0; rw [a4]; exact d1, by show ((s.t.step wi o).1.wf i).nv = 0; rw [a5]; exact d2⟩ }



/-- the records `wfdispatcher.go` creates for the locations of a reserved work-group -/
def locWfs (dem : C09.Dem) (locs : List C09.Loc) : List TWf :=
  locs.map fun l => { simd := l.simd, soff := l.soff, voff := l.voff, ns := dem.s, nv := dem.v }

theorem mapSteps_eq_aux (dem : C09.Dem) (ds : Nat → DispInfo) (locs : List C09.Loc) : ∀ n,
    (locs.zipIdx n).map (fun p => CUOp.map dem.s dem.v p.1.simd p.1.soff p.1.voff (ds p.2)) =
      List.zipWith mapOp (locWfs dem locs) ((List.range' n locs.length).map ds) := by
  induction locs with
  | nil => intro n; rfl
  | cons l locs ih =>
    intro n
    simp only [List.zipIdx_cons, List.map_cons, locWfs, List.length_cons, List.range'_succ, List.zipWith_cons_cons]
    rw [ih (n + 1)]
    rfl

theorem mapSteps_eq (dem : C09.Dem) (locs : List C09.Loc) (ds : Nat → DispInfo) :
    mapSteps dem locs ds = List.zipWith mapOp (locWfs dem locs) ((List.range' 0 locs.length).map ds) :=
  mapSteps_eq_aux dem ds locs 0

theorem wfsOfCU_append (cu cu' : C09.CU) (key : Nat) (dem : C09.Dem) (locs : List C09.Loc)
    (h : cu'.resident = cu.resident ++ [(key, dem, locs)]) : wfsOfCU cu' = wfsOfCU cu ++ locWfs dem locs := by
  simp [wfsOfCU, h, List.flatMap_append, locWfs]

theorem layouts_append_index (t t' : TimingRF) (L2 : List Lay)
    (h : t'.wfs.toList.map TWf.layout = t.wfs.toList.map TWf.layout ++ L2) :
    t'.wfs.size = t.wfs.size + L2.length ∧ (∀ i, i < t.wfs.size → (t'.wf i).layout = (t.wf i).layout) ∧
    (∀ j (hj : j < L2.length), (t'.wf (t.wfs.size + j)).layout = L2[j]) := by
  have hsz : t'.wfs.size = t.wfs.size + L2.length := by simpa using congrArg List.length h
  have key : ∀ i (hi : i < t'.wfs.size),
      (t'.wf i).layout = (t.wfs.toList.map TWf.layout ++ L2)[i]'(by simp; omega) := by
    intro i hi
    have h1 := List.getElem_of_eq h (i := i) (by simpa using hi)
    simp only [List.getElem_map, Array.getElem_toList] at h1
    have h2 : t'.wf i = t'.wfs[i] := by simp [TimingRF.wf, hi]
    rw [h2]; exact h1
  refine ⟨hsz, fun i hi => ?_, fun j hj => ?_⟩
  · rw [key i (by omega), List.getElem_append_left (by simpa using hi)]
    simp [TimingRF.wf, hi]
  · rw [key _ (by omega), List.getElem_append_right (by simp)]
    simp

theorem sysInv_map_ok (s : Sys) (key : Nat) (dem : C09.Dem) (ds : Nat → DispInfo) (locs : List C09.Loc)
    (cu' : C09.CU) (J : SysInv s) (hok : (SysOp.mapWG key dem ds).Ok s)
    (hr : C09.reserve s.cu key dem = (.ok locs, cu')) :
    SysInv { cu := cu', t := s.t.cuRun (mapSteps dem locs ds),
             live := s.live ++ [(key, List.range' s.t.wfs.size locs.length)] } := by
  obtain ⟨h1, h102, habi⟩ := hok
  obtain ⟨hinv', hres⟩ := (C09.reserve_preserves C09.shippedWf s.cu key dem _ cu' J.inv hr).1 locs rfl h1
  have hsame : SameShape s.cu cu' := by have := reserve_shape s.cu key dem; rw [hr] at this; exact this
  have hsh' : CUShape cu' 200 64 4 := CUShape.of_same hsame J.sh
  obtain ⟨hpw, hin⟩ := allocator_windows C09.shippedWf cu' 200 64 hinv' hsh' (Nat.le_refl _)
  rw [wfsOfCU_append s.cu cu' key dem locs hres] at hpw hin
  obtain ⟨_, hpw2, hcross⟩ := List.pairwise_append.1 hpw
  have hll : s.liveLayouts = (wfsOfCU s.cu).map TWf.layout := by rw [liveLayouts_eq, J.lay, wfs_layout_eq]
  have hdis : ∀ w ∈ locWfs dem locs, ∀ i, i < s.t.wfs.size → WindowsDisjoint (s.t.wf i) w := by
    intro w hw i hi
    by_cases hm : i ∈ s.live.flatMap (·.2)
    · have : (s.t.wf i).layout ∈ s.liveLayouts := by
        obtain ⟨g, hg, hig⟩ := List.mem_flatMap.1 hm
        exact List.mem_flatMap.2 ⟨g, hg, List.mem_map.2 ⟨i, hig, rfl⟩⟩
      rw [hll] at this
      obtain ⟨a, ha, hal⟩ := List.mem_map.1 this
      exact WindowsDisjoint.of_layout hal.symm rfl (hcross a ha w hw)
    · obtain ⟨d1, d2⟩ := J.dead i hi hm
      exact windowsDisjoint_empty _ _ d1 d2
  have hwns : ∀ w ∈ locWfs dem locs, w.ns = dem.s ∧ w.nv = dem.v := by
    intro w hw
    obtain ⟨l, _, rfl⟩ := List.mem_map.1 hw
    exact ⟨rfl, rfl⟩
  obtain ⟨c1, c2, c3⟩ := mapAll (locWfs dem locs) ((List.range' 0 locs.length).map ds) s.t (by simp [locWfs])
    J.files J.alloc J.clean hpw2
    (fun w hw => by
      obtain ⟨a, b, c⟩ := hin w (List.mem_append_right _ hw)
      exact ⟨by omega, by rw [(hwns w hw).1]; exact h102, by omega, c⟩)
    hdis
    (fun p hp => by
      obtain ⟨w, d⟩ := p
      obtain ⟨hw, hd⟩ := List.of_mem_zip hp
      obtain ⟨k, _, rfl⟩ := List.mem_map.1 hd
      show AbiFits (ds k) w.ns w.nv
      rw [(hwns w hw).1, (hwns w hw).2]; exact habi k)
  rw [← mapSteps_eq] at c1 c2 c3
  obtain ⟨hA', hC'⟩ := cu_run_alloc_clean _ s.t J.alloc J.clean c1
  obtain ⟨z1, z2, z3⟩ := layouts_append_index s.t _ _ c2
  simp only [List.length_map, locWfs] at z1
  have hnew : (List.range' s.t.wfs.size locs.length).map (fun i => ((s.t.cuRun (mapSteps dem locs ds)).wf i).layout) =
      locs.map fun l => (l.simd, l.soff, l.voff, dem.s, dem.v) := by
    apply List.ext_getElem
    · simp
    · intro j hj1 hj2
      simp only [List.length_map, List.length_range'] at hj1
      simp only [List.getElem_map, List.getElem_range', Nat.one_mul]
      rw [z3 j (by simpa [locWfs] using hj1)]
      simp [locWfs, TWf.layout]
  exact {
    inv := hinv'
    sh := hsh'
    files := c3
    alloc := hA'
    clean := hC'
    ns102 := by
      intro e he
      simp only [hres, List.mem_append, List.mem_singleton] at he
      rcases he with he | rfl
      · exact J.ns102 e he
      · exact h102
    lay := by
      show liveLay (s.t.cuRun (mapSteps dem locs ds)) (s.live ++ [(key, List.range' s.t.wfs.size locs.length)]) =
        resLay cu'.resident
      rw [liveLay_append, liveLay_congr s.t _ s.live (fun i hi => z2 i (J.lt i hi)), J.lay, hres]
      simp only [resLay, liveLay, List.map_append, List.map_cons, List.map_nil, hnew]
    nd := by
      simp only [List.flatMap_append, List.flatMap_cons, List.flatMap_nil, List.append_nil]
      refine List.nodup_append.2 ⟨J.nd, List.nodup_range' 1, fun a ha b hb => ?_⟩
      have := J.lt a ha
      have := (List.mem_range'_1.1 hb).1
      omega
    lt := by
      intro i hi
      show i < (s.t.cuRun (mapSteps dem locs ds)).wfs.size
      rw [z1]
      simp only [List.flatMap_append, List.flatMap_cons, List.flatMap_nil, List.append_nil, List.mem_append] at hi
      rcases hi with hi | hi
      · have := J.lt i hi; omega
      · exact (List.mem_range'_1.1 hi).2
    dead := by
      intro i hi hn
      have hi' : i < s.t.wfs.size + locs.length := by rw [← z1]; exact hi
      simp only [List.flatMap_append, List.flatMap_cons, List.flatMap_nil, List.append_nil, List.mem_append, not_or] at hn
      have hlt : i < s.t.wfs.size := by
        by_cases h : i < s.t.wfs.size
        · exact h
        · exact absurd (List.mem_range'_1.2 ⟨by omega, hi'⟩) hn.2
      obtain ⟨d1, d2⟩ := J.dead i hlt hn.1
      obtain ⟨_, _, _, a4, a5⟩ := layout_eq (z2 i hlt)
      exact ⟨by show ((s.t.cuRun (mapSteps dem locs ds)).wf i).ns = 0; rw [a4]; exact d1,
        by show ((s.t.cuRun (mapSteps dem locs ds)).wf i).nv = 0; rw [a5]; exact d2⟩ }

theorem sysInv_map_no (s : Sys) (key : Nat) (dem : C09.Dem) (cu' : C09.CU) (J : SysInv s)
    (hr : C09.reserve s.cu key dem = (.no, cu')) : SysInv { s with cu := cu' } := by
  obtain ⟨hinv', hres, _⟩ := (C09.reserve_preserves C09.shippedWf s.cu key dem _ cu' J.inv hr).2 rfl
  have hsame : SameShape s.cu cu' := by have := reserve_shape s.cu key dem; rw [hr] at this; exact this
  exact {
    inv := hinv'
    sh := CUShape.of_same hsame J.sh
    files := J.files
    alloc := J.alloc
    clean := J.clean
    ns102 := by intro e he; simp only [hres] at he; exact J.ns102 e he
    lay := by show liveLay s.t s.live = resLay cu'.resident; rw [hres]; exact J.lay
    nd := J.nd
    lt := J.lt
    dead := J.dead }


theorem retire_fold (idxs : List Nat) : ∀ (t : TimingRF), Alloc t → Clean t → ShippedFiles t →
    (∀ i ∈ idxs, i < t.wfs.size) →
    Alloc (idxs.foldl (fun t i => t.retire i) t) ∧ Clean (idxs.foldl (fun t i => t.retire i) t) ∧
    ShippedFiles (idxs.foldl (fun t i => t.retire i) t) ∧
    (idxs.foldl (fun t i => t.retire i) t).wfs.size = t.wfs.size ∧
    (∀ j, j ∉ idxs → (idxs.foldl (fun t i => t.retire i) t).wf j = t.wf j) ∧
    (∀ j ∈ idxs, ((idxs.foldl (fun t i => t.retire i) t).wf j).ns = 0 ∧
      ((idxs.foldl (fun t i => t.retire i) t).wf j).nv = 0) := by
  induction idxs with
  | nil => intro t hA hC hF _; exact ⟨hA, hC, hF, rfl, fun _ _ => rfl, fun j hj => by cases hj⟩
  | cons i rest ih =>
    intro t hA hC hF hlt
    have hi : i < t.wfs.size := hlt i (by simp)
    obtain ⟨hA1, hC1⟩ := retire_alloc_clean t i hA hC hi
    obtain ⟨q1, q2, q3, q4, q5, q6⟩ := retire_records t i (hA.fits i hi) hi
    have hF1 : ShippedFiles (t.retire i) :=
      ⟨by rw [q4]; exact hF.s, by rw [q5]; exact hF.n, fun x hx => by rw [q6]; exact hF.v x hx⟩
    obtain ⟨i1, i2, i3, i4, i5, i6⟩ := ih (t.retire i) hA1 hC1 hF1
      (fun j hj => by rw [q1]; exact hlt j (by simp [hj]))
    simp only [List.foldl_cons]
    refine ⟨i1, i2, i3, by rw [i4, q1], fun j hj => ?_, fun j hj => ?_⟩
    · simp only [List.mem_cons, not_or] at hj
      rw [i5 j hj.2, q3 j hj.1]
    · by_cases hr : j ∈ rest
      · exact i6 j hr
      · have : j = i := by simpa [hr] using hj
        subst this
        rw [i5 j hr, q2]
        exact ⟨rfl, rfl⟩

theorem free_resident (cu cu' : C09.CU) (key : Nat) (h : C09.free cu key = some cu') :
    cu'.resident = cu.resident.filter (·.1 ≠ key) := by
  unfold C09.free at h
  split at h
  · cases h
  · next k d locs _ =>
    injection h with h
    subst h
    simp only
    rw [(C09.foldl_freeLoc d locs cu).1]

theorem sysInv_finish (s : Sys) (key : Nat) (cu' : C09.CU) (k : Nat) (idxs : List Nat) (J : SysInv s)
    (hf : C09.free s.cu key = some cu') (hfind : s.live.find? (·.1 = key) = some (k, idxs)) :
    SysInv { cu := cu', t := idxs.foldl (fun t i => t.retire i) s.t, live := s.live.filter (·.1 ≠ key) } := by
  have hres := free_resident s.cu cu' key hf
  have hkeys : (s.live.map (·.1)).Nodup := by
    rw [← liveLay_keys s.t, J.lay, resLay_keys]; exact J.inv.keys
  obtain ⟨hk, l1, l2, hl, hfilt⟩ := C09.find_split key s.live (k, idxs) hkeys hfind
  have hflat : s.live.flatMap (·.2) = l1.flatMap (·.2) ++ (idxs ++ l2.flatMap (·.2)) := by
    rw [hl]; simp only [List.flatMap_append, List.flatMap_cons]
  have hflat' : (l1 ++ l2).flatMap (·.2) = l1.flatMap (·.2) ++ l2.flatMap (·.2) := List.flatMap_append
  have hnd := J.nd
  rw [hflat] at hnd
  obtain ⟨n1, n2, n3⟩ := List.nodup_append.1 hnd
  obtain ⟨n4, n5, n6⟩ := List.nodup_append.1 n2
  have hidx : ∀ i ∈ idxs, i < s.t.wfs.size := fun i hi => J.lt i (by rw [hflat]; simp [hi])
  obtain ⟨r1, r2, r3, r4, r5, r6⟩ := retire_fold idxs s.t J.alloc J.clean J.files hidx
  have hnot : ∀ i ∈ (l1 ++ l2).flatMap (·.2), i ∉ idxs := by
    intro i hi hin
    rw [hflat'] at hi
    rcases List.mem_append.1 hi with h | h
    · exact n3 i h i (List.mem_append_left _ hin) rfl
    · exact n6 i hin i h rfl
  have hsub : ∀ i ∈ (l1 ++ l2).flatMap (·.2), i ∈ s.live.flatMap (·.2) := by
    intro i hi
    rw [hflat'] at hi
    rw [hflat]
    simp only [List.mem_append] at hi ⊢
    rcases hi with h | h
    · exact Or.inl h
    · exact Or.inr (Or.inr h)
  exact {
    inv := C09.free_preserves C09.shippedWf s.cu key cu' J.inv hf
    sh := CUShape.of_same (free_shape s.cu cu' key hf) J.sh
    files := r3
    alloc := r1
    clean := r2
    ns102 := by
      intro e he
      simp only [hres] at he
      exact J.ns102 e (List.mem_filter.1 he).1
    lay := by
      show liveLay (idxs.foldl (fun t i => t.retire i) s.t) (s.live.filter (·.1 ≠ key)) = resLay cu'.resident
      rw [hres, ← resLay_filter, ← J.lay, liveLay_filter, hfilt]
      apply liveLay_congr
      intro i hi
      rw [r5 i (hnot i hi)]
    nd := by
      show ((s.live.filter (·.1 ≠ key)).flatMap (·.2)).Nodup
      rw [hfilt, hflat']
      exact List.nodup_append.2 ⟨n1, n5, fun a ha b hb => n3 a ha b (List.mem_append_right _ hb)⟩
    lt := by
      intro i hi
      show i < (idxs.foldl (fun t i => t.retire i) s.t).wfs.size
      rw [r4]
      have hi' : i ∈ (s.live.filter (·.1 ≠ key)).flatMap (·.2) := hi
      rw [hfilt] at hi'
      exact J.lt i (hsub i hi')
    dead := by
      intro i hi hn
      have hn' : i ∉ (s.live.filter (·.1 ≠ key)).flatMap (·.2) := hn
      rw [hfilt, hflat'] at hn'
      show ((idxs.foldl (fun t i => t.retire i) s.t).wf i).ns = 0 ∧ ((idxs.foldl (fun t i => t.retire i) s.t).wf i).nv = 0
      by_cases hin : i ∈ idxs
      · exact r6 i hin
      · rw [r5 i hin]
        apply J.dead i (by rw [← r4]; exact hi)
        rw [hflat]
        simp only [List.mem_append, not_or] at hn' ⊢
        exact ⟨hn'.1, hin, hn'.2⟩ }

/-- one step keeps the joint invariant -/
theorem sysInv_step (s s' : Sys) (o : SysOp) (J : SysInv s) (hok : o.Ok s) (h : s.step o = some s') : SysInv s' := by
  cases o with
  | mapWG key dem ds =>
    simp only [Sys.step] at h
    rcases hr : C09.reserve s.cu key dem with ⟨res, cu'⟩
    rw [hr] at h
    cases res with
    | ok locs =>
      simp only [Option.some.injEq] at h
      subst h
      exact sysInv_map_ok s key dem ds locs cu' J hok hr
    | no =>
      simp only [Option.some.injEq] at h
      subst h
      exact sysInv_map_no s key dem cu' J hr
    | twice => simp at h
  | acc wi o =>
    simp only [Sys.step, Option.some.injEq] at h
    subst h
    exact sysInv_acc s wi o J hok
  | finish key =>
    simp only [Sys.step] at h
    split at h
    · next cu' k idxs hf hfind =>
      simp only [Option.some.injEq] at h
      subst h
      exact sysInv_finish s key cu' k idxs J hf hfind
    · cases h

theorem sysInv_run (ops : List SysOp) : ∀ (s0 s : Sys), SysInv s0 → SysOkAll s0 ops → s0.run ops = some s → SysInv s := by
  induction ops with
  | nil =>
    intro s0 s J _ h
    simp only [Sys.run, Option.some.injEq] at h
    subst h; exact J
  | cons o ops ih =>
    intro s0 s J hok h
    simp only [Sys.run, Option.bind_eq_some_iff] at h
    obtain ⟨s1, h1, h2⟩ := h
    obtain ⟨ho, hrest⟩ := hok
    exact ih s1 s (sysInv_step s0 s1 o J ho h1) (hrest s1 h1) h2

/-- **every reachable state of allocator + compute unit** -/
theorem sys_alloc_clean (cu0 : C09.CU) (h0 : shippedCU = some cu0) (ops : List SysOp) (s : Sys)
    (hok : SysOkAll (Sys.init cu0) ops) (hrun : (Sys.init cu0).run ops = some s) :
    Alloc s.t ∧ Clean s.t ∧ s.liveLayouts = (wfsOfCU s.cu).map TWf.layout ∧
    s.live.map (·.1) = s.cu.resident.map (·.1) := by
  have J := sysInv_run ops _ s (sysInv_init cu0 h0) hok hrun
  refine ⟨J.alloc, J.clean, ?_, ?_⟩
  · rw [liveLayouts_eq, J.lay, wfs_layout_eq]
  · rw [← liveLay_keys s.t, J.lay, resLay_keys]

end C07
