import MgpuProofs.C19SysInv
/-! # C19 — the closed system: `processReturnReq` consuming a page-migration acknowledgement keeps `Inv`

`inv_ret_mig`: not the last page (`c4_more`: back to `mig r none .none`) / the last page (`c4_last`: the
GPU-restart broadcast `bcast .restart r { wait := accT r }` with the answer to the MMU prepared). -/
namespace C19
namespace SY
open CP (Cp Cls K Sub Cmd Ans)
open DR (Drv MmuReq MigCmd)

theorem c4_toAcc (c : Cmd) (l : List Nat) : ∀ (d : Drv), d.fault = none → (∀ a ∈ l, 1 ≤ a ∧ a ≤ d.ngpu) →
    d.toAcc c l = { d with toSend := d.toSend ++ l.map (fun a => (a - 1, c)) } := by
  induction l with
  | nil => intro d _ _; simp [Drv.toAcc]
  | cons a rest ih =>
    intro d hf hr
    have ha := hr a (by simp)
    have h1 : ¬ (a = 0 ∨ a - 1 ≥ d.ngpu) := by omega
    rw [Drv.toAcc, if_neg (by simp [hf]), if_neg h1]
    rw [ih]
    · simp
    · exact hf
    · exact fun b hb => hr b (by simp [hb])

theorem c4_ret_ne (d : Drv) (rest : List Ans) (a' : Alloc) (hf : d.fault = none) (hin : d.gpuIn = .mig :: rest)
    (ho : d.one = true) (hrel : d.alloc.release d.oldF = .ok a') (hn : CP.dec d.mig ≠ 0) :
    d.ret.1 = { d with alloc := a', mig := CP.dec d.mig, one := false, gpuIn := rest } := by
  unfold Drv.ret
  simp only [hf, hin, ho, hrel, Option.isSome_none, Bool.false_eq_true, if_false, if_true, hn]

theorem c4_ret_zero (d : Drv) (rest : List Ans) (r : MmuReq) (a' : Alloc) (hf : d.fault = none)
    (hin : d.gpuIn = .mig :: rest) (ho : d.one = true) (hrel : d.alloc.release d.oldF = .ok a')
    (hn : CP.dec d.mig = 0) (hc : d.cur = some r) (hr : d.restart = 0)
    (hl : r.acc.length < CP.w64) (ha : ∀ a ∈ r.acc, 1 ≤ a ∧ a ≤ d.ngpu) (hm : d.toMMU = none) :
    d.ret.1 = { d with alloc := a', mig := 0, one := false, gpuIn := rest, restart := r.acc.length,
                       toSend := d.toSend ++ r.acc.map (fun a => (a - 1, Cmd.restart)),
                       toMMU := some (r.id, DR.pagesOf d.ngpu r) } := by
  unfold Drv.ret
  simp only [hf, hin, ho, hrel, Option.isSome_none, Bool.false_eq_true, if_false, hn, if_true, hc, hr, Nat.zero_add,
    Nat.mod_eq_of_lt hl]
  rw [c4_toAcc]
  · simp only [hm, Option.isSome_none, Bool.false_eq_true, if_false]
  · rfl
  · exact ha

/-! ## `ReleasePhysicalPage` of the old frame of the page whose migration is acknowledged -/

theorem c4_deviceOf_lt (a : Alloc) (f d : Nat) (h : a.deviceOf f = some d) : d < a.range.length := by
  unfold Alloc.deviceOf at h
  have := List.mem_of_find?_eq_some h
  simpa using this

/-- the frame is appended to the free list of the device whose range holds it -/
theorem c4_release (a : Alloc) (f d : Nat) (hR : RangeOK a) (hd : a.deviceOf f = some d) :
    ∃ l, a.free[d]? = some l ∧ a.release f = .ok { a with free := a.free.set d (l ++ [f]) } := by
  have hlt : d < a.free.length := Nat.lt_of_lt_of_le (c4_deviceOf_lt a f d hd) hR.1
  refine ⟨a.free[d], List.getElem?_eq_getElem hlt, ?_⟩
  unfold Alloc.release
  rw [hd]
  simp only [List.getElem?_eq_getElem hlt]
  rfl

private theorem c4_getD_set (L : List (List Nat)) (i j : Nat) (x : List Nat) (hi : i < L.length) :
    (L.set i x).getD j [] = if j = i then x else L.getD j [] := by
  simp only [List.getD_eq_getElem?_getD, List.getElem?_set]
  by_cases h : i = j
  · subst h; simp [hi]
  · have h' : ¬ j = i := fun e => h e.symm
    simp [h, h']

private theorem c4_getD_of (L : List (List Nat)) (i : Nat) (x : List Nat) (h : L[i]? = some x) : L.getD i [] = x := by
  simp [List.getD_eq_getElem?_getD, h]

private theorem c4_lt_of (L : List (List Nat)) (i : Nat) (x : List Nat) (h : L[i]? = some x) : i < L.length := by
  rcases Nat.lt_or_ge i L.length with h1 | h1
  · exact h1
  · rw [List.getElem?_eq_none h1] at h; cases h

/-- the allocator after the release: ranges consistent, frames inside the memories, no free list shorter -/
theorem c4_release_inv (a : Alloc) (w : C19.Sys) (f d : Nat) (l : List Nat) (hR : RangeOK a) (hF : FramesIn a w)
    (hd : a.deviceOf f = some d) (hl : a.free[d]? = some l) (hd12 : d = 1 ∨ d = 2)
    (hb : f + (1 <<< a.lg) ≤ (w.mem (d - 1)).size) :
    RangeOK { a with free := a.free.set d (l ++ [f]) } ∧ FramesIn { a with free := a.free.set d (l ++ [f]) } w ∧
    ∀ j, (a.free.getD j []).length ≤ (({ a with free := a.free.set d (l ++ [f]) } : Alloc).free.getD j []).length := by
  have hlen := c4_lt_of _ _ _ hl
  have hgd := c4_getD_of _ _ _ hl
  obtain ⟨r1, r2, r3⟩ := hR
  refine ⟨⟨?_, ?_, ?_⟩, ?_, ?_⟩
  · show a.range.length ≤ (a.free.set d (l ++ [f])).length
    rw [List.length_set]; exact r1
  · intro d' hd' f' hf'
    have hd2 : d' < a.free.length := by
      have : d' < (a.free.set d (l ++ [f])).length := hd'
      rwa [List.length_set] at this
    have hf2 : f' ∈ (a.free.set d (l ++ [f])).getD d' [] := hf'
    rw [c4_getD_set _ _ _ _ hlen] at hf2
    show a.deviceOf f' = some d'
    by_cases e : d' = d
    · rw [if_pos e] at hf2
      subst e
      rcases List.mem_append.mp hf2 with h1 | h1
      · exact r2 _ hd2 f' (by rw [hgd]; exact h1)
      · simp only [List.mem_singleton] at h1; subst h1; exact hd
    · rw [if_neg e] at hf2
      exact r2 d' hd2 f' hf2
  · exact r3
  · intro d' hd'
    refine ⟨?_, (hF d' hd').2⟩
    intro f' hf'
    have hf2 : f' ∈ (a.free.set d (l ++ [f])).getD d' [] := hf'
    rw [c4_getD_set _ _ _ _ hlen] at hf2
    show f' + (1 <<< a.lg) ≤ _
    by_cases e : d' = d
    · rw [if_pos e] at hf2
      subst e
      rcases List.mem_append.mp hf2 with h1 | h1
      · exact (hF _ hd').1 f' (by rw [hgd]; exact h1)
      · simp only [List.mem_singleton] at h1; subst h1; exact hb
    · rw [if_neg e] at hf2
      exact (hF d' hd').1 f' hf2
  · intro j
    show _ ≤ ((a.free.set d (l ++ [f])).getD j []).length
    rw [c4_getD_set _ _ _ _ hlen]
    by_cases e : j = d
    · rw [if_pos e, e, hgd]; simp
    · rw [if_neg e]; exact Nat.le_refl _

/-- what the driver knows when the acknowledgement of the migrate command in flight arrives: the remembered old
    frame goes back to the free list of its device -/
theorem c4_rel {s : Sys} (h : Inv s) (ho : s.drv.one = true) :
    ∃ d l, (d = 1 ∨ d = 2) ∧ s.drv.alloc.free[d]? = some l ∧
      s.drv.alloc.release s.drv.oldF = .ok { s.drv.alloc with free := s.drv.alloc.free.set d (l ++ [s.drv.oldF]) } ∧
      RangeOK { s.drv.alloc with free := s.drv.alloc.free.set d (l ++ [s.drv.oldF]) } ∧
      FramesIn { s.drv.alloc with free := s.drv.alloc.free.set d (l ++ [s.drv.oldF]) } s.w.sys ∧
      ∀ j, (s.drv.alloc.free.getD j []).length ≤
        (({ s.drv.alloc with free := s.drv.alloc.free.set d (l ++ [s.drv.oldF]) } : Alloc).free.getD j []).length := by
  obtain ⟨d, hd12, hdev, hb⟩ := h.rel.flying ho
  obtain ⟨l, hl, hrel⟩ := c4_release s.drv.alloc s.drv.oldF d h.rel.ranges hdev
  obtain ⟨a1, a2, a3⟩ := c4_release_inv s.drv.alloc s.w.sys s.drv.oldF d l h.rel.ranges h.frames hdev hl hd12 hb
  exact ⟨d, l, hd12, hl, hrel, a1, a2, a3⟩

/-- the rest of `RelInv` after the release: the queued commands' old frames are untouched -/
theorem c4_relInv {s : Sys} (h : Inv s) (a' : Alloc) (hrg : a'.range = s.drv.alloc.range) (hlg : a'.lg = s.drv.alloc.lg)
    (hR : RangeOK a') (d' : Drv) (ha : d'.alloc = a') (htc : d'.toCP = s.drv.toCP) (ho : d'.one = false) :
    RelInv { s with drv := d' } := by
  refine ⟨by show RangeOK d'.alloc; rw [ha]; exact hR, ?_, ?_⟩
  · intro m hm
    have hm2 : m ∈ s.drv.toCP := by rw [← htc]; exact hm
    obtain ⟨d, hd12, hdev, hb⟩ := h.rel.queued m hm2
    refine ⟨d, hd12, ?_, ?_⟩
    · show d'.alloc.deviceOf m.rd = some d
      rw [ha]; unfold Alloc.deviceOf; rw [hrg]; exact hdev
    · show m.rd + (1 <<< d'.alloc.lg) ≤ _
      rw [ha, hlg]; exact hb
  · intro h1
    have : d'.one = true := h1
    rw [ho] at this; cases this

theorem c4_dec_succ (n : Nat) : CP.dec (n + 1) = n := by simp [CP.dec]

theorem c4_no_mig (p : PK) (r : MmuReq) (hp : p ≠ .mig) (n : Nat) (rest : List Ans) :
    List.replicate n (ansOf (cmdOf p r)) ≠ Ans.mig :: rest := by
  intro h
  cases n with
  | zero => simp at h
  | succ k =>
    rw [List.replicate_succ] at h
    cases p <;> simp [cmdOf, ansOf] at h hp

theorem c4_flags (r : MmuReq) (ngpu g : Nat) :
    flagsAt .restart r ngpu { wait := accT r } g = flagsBefore (some .mig) ngpu (accT r) g := by
  simp [flagsAt, flagsBefore]

/-- not the last page -/
theorem c4_more {s : Sys} (h : Inv s) (r : MmuReq) (m : MigCmd)
    (hh : s.drv.handling = true) (hc : s.drv.cur = some r) (rq : ReqOK s r)
    (ct : Ctrs s.drv (some .mig) s.drv.mig) (mp : MigPh s r (some (m, .bk)) .none) (wi : WorldInv s .none)
    (mi : MmuInv s [r.id]) (rh : Rehomed s r) (hne : s.drv.toCP ≠ []) (d0 : Nat) (l0 : List Nat)
    (hR : RangeOK { s.drv.alloc with free := s.drv.alloc.free.set d0 (l0 ++ [s.drv.oldF]) })
    (hF : FramesIn { s.drv.alloc with free := s.drv.alloc.free.set d0 (l0 ++ [s.drv.oldF]) } s.w.sys)
    (hmono : ∀ j, (s.drv.alloc.free.getD j []).length ≤
      (({ s.drv.alloc with free := s.drv.alloc.free.set d0 (l0 ++ [s.drv.oldF]) } : Alloc).free.getD j []).length) :
    Inv { s with drv := { s.drv with alloc := { s.drv.alloc with free := s.drv.alloc.free.set d0 (l0 ++ [s.drv.oldF]) },
                                     mig := CP.dec s.drv.mig, one := false, gpuIn := [] } } := by
  have hrelI := c4_relInv h { s.drv.alloc with free := s.drv.alloc.free.set d0 (l0 ++ [s.drv.oldF]) } rfl rfl hR
    { s.drv with alloc := { s.drv.alloc with free := s.drv.alloc.free.set d0 (l0 ++ [s.drv.oldF]) },
                 mig := CP.dec s.drv.mig, one := false, gpuIn := [] } rfl rfl rfl
  obtain ⟨cfg, ng, caps, nf, frames, lg, logIds, pending, -, -⟩ := h
  have hmig : s.drv.mig = s.drv.toCP.length + 1 := mp.ctr
  have hdec : CP.dec s.drv.mig = s.drv.toCP.length := by rw [hmig, c4_dec_succ]
  have hpos : 0 < s.drv.toCP.length := List.length_pos_iff.mpr hne
  refine ⟨cfg, ng, caps, nf, hF, lg, logIds, ?_, ?_, hrelI⟩
  · intro r' hr'
    obtain ⟨a, b, c⟩ := pending r' hr'
    exact ⟨⟨a.pid, a.host, a.accNe, a.accNd, a.accLt, a.accIn, a.size, a.pagesNe, a.pagesNd, a.pagesLt, a.req⟩,
      ⟨b.found, fun g hg => Nat.le_trans (b.free g hg) (hmono (g + 1))⟩, c⟩
  · refine Phase.mig r none .none hh hc
      ⟨rq.pid, rq.host, rq.accNe, rq.accNd, rq.accLt, rq.accIn, rq.size, rq.pagesNe, rq.pagesNd, rq.pagesLt, rq.req⟩
      ?_ ?_ ⟨wi.reach, wi.live, wi.back⟩
      ⟨mi.lost, mi.sent, mi.ids, mi.got, mi.ans, mi.one, mi.fresh, mi.cap⟩ ⟨rh.log⟩
    · obtain ⟨c1, c2, c3, c4, c5⟩ := ct
      exact ⟨c1, c2, by simp, c4, c5⟩
    · refine ⟨mp.toSend, ?_, ?_, rfl, ?_, ?_, ?_, rfl, ?_, ?_, rfl⟩
      · intro m' hm'
        have q := mp.queue m' hm'
        exact ⟨q.log, q.gpu, q.peer, q.size, q.rd, q.wr⟩
      · intro m' a h'; cases h'
      · exact hdec
      · show 0 < CP.dec s.drv.mig
        rw [hdec]; exact hpos
      · exact mp.gpuOut
      · intro m' loc h'; cases h'
      · intro g _
        exact mp.idle g (by intro m' loc h'; cases h')

/-- the last page -/
theorem c4_last {s : Sys} (h : Inv s) (r : MmuReq) (m : MigCmd)
    (hh : s.drv.handling = true) (hc : s.drv.cur = some r) (rq : ReqOK s r)
    (ct : Ctrs s.drv (some .mig) s.drv.mig) (mp : MigPh s r (some (m, .bk)) .none) (wi : WorldInv s .none)
    (mi : MmuInv s [r.id]) (rh : Rehomed s r) (he : s.drv.toCP = []) (d0 : Nat) (l0 : List Nat)
    (hR : RangeOK { s.drv.alloc with free := s.drv.alloc.free.set d0 (l0 ++ [s.drv.oldF]) })
    (hF : FramesIn { s.drv.alloc with free := s.drv.alloc.free.set d0 (l0 ++ [s.drv.oldF]) } s.w.sys)
    (hmono : ∀ j, (s.drv.alloc.free.getD j []).length ≤
      (({ s.drv.alloc with free := s.drv.alloc.free.set d0 (l0 ++ [s.drv.oldF]) } : Alloc).free.getD j []).length) :
    Inv { s with drv := { s.drv with
      alloc := { s.drv.alloc with free := s.drv.alloc.free.set d0 (l0 ++ [s.drv.oldF]) },
      mig := 0, one := false, gpuIn := [], restart := r.acc.length,
      toSend := s.drv.toSend ++ r.acc.map (fun a => (a - 1, Cmd.restart)),
      toMMU := some (r.id, DR.pagesOf s.drv.ngpu r) } } := by
  have hrelI := c4_relInv h { s.drv.alloc with free := s.drv.alloc.free.set d0 (l0 ++ [s.drv.oldF]) } rfl rfl hR
    { s.drv with alloc := { s.drv.alloc with free := s.drv.alloc.free.set d0 (l0 ++ [s.drv.oldF]) },
                 mig := 0, one := false, gpuIn := [], restart := r.acc.length,
                 toSend := s.drv.toSend ++ r.acc.map (fun a => (a - 1, Cmd.restart)),
                 toMMU := some (r.id, DR.pagesOf s.drv.ngpu r) } rfl rfl rfl
  obtain ⟨cfg, ng, caps, nf, frames, lg, logIds, pending, -, -⟩ := h
  have htm : s.drv.toMMU = none := (mi.fresh (by simp)).1
  refine ⟨cfg, ng, caps, nf, hF, lg, logIds, ?_, ?_, hrelI⟩
  · intro r' hr'
    obtain ⟨a, b, c⟩ := pending r' hr'
    exact ⟨⟨a.pid, a.host, a.accNe, a.accNd, a.accLt, a.accIn, a.size, a.pagesNe, a.pagesNd, a.pagesLt, a.req⟩,
      ⟨b.found, fun g hg => Nat.le_trans (b.free g hg) (hmono (g + 1))⟩, c⟩
  · refine Phase.bcast .restart r { wait := accT r } (fun _ => .cmd) (by simp) hh hc
      ⟨rq.pid, rq.host, rq.accNe, rq.accNd, rq.accLt, rq.accIn, rq.size, rq.pagesNe, rq.pagesNd, rq.pagesLt, rq.req⟩
      ?_ he rfl ?_ ⟨wi.reach, wi.live, wi.back⟩ ?_ (by simp) (fun _ => ⟨rh.log⟩)
    · obtain ⟨c1, c2, c3, c4, c5⟩ := ct
      refine ⟨c1, c2, rfl, ?_, c5⟩
      simp [Split.open_, accT]
    · refine ⟨?_, ?_, ?_, ?_, ?_, ?_, ?_⟩
      · simp [Split.all, targets]
      · show s.drv.toSend ++ r.acc.map (fun a => (a - 1, Cmd.restart)) = _
        rw [mp.toSend]
        simp [accT, cmdOf, List.map_map, Function.comp_def]
      · exact mp.gpuOut
      · rfl
      · have := List.length_pos_iff.mpr rq.accNe
        simp [Split.open_, accT]; exact this
      · intro g hg; simp at hg
      · intro g _
        rw [c4_flags]
        exact mp.idle g (by intro m' loc h'; cases h')
    · simp only [show ¬ (PK.restart = PK.drain ∨ PK.restart = PK.shoot) by simp, if_false]
      refine ⟨mi.lost, mi.sent, mi.ids, mi.got, ?_, mi.one, by simp, mi.cap⟩
      have := mi.ans
      rw [htm] at this
      simpa using this

theorem inv_ret_mig {s : Sys} (h : Inv s) (rest : List Ans) (hin : s.drv.gpuIn = .mig :: rest) :
    Inv { s with drv := s.drv.ret.1 } := by
  have nf := h.nf
  cases h.ph with
  | idle di _ _ _ => rw [di.gpuIn] at hin; cases hin
  | bcast p r σ loc hp _ _ _ _ _ _ bc _ _ _ _ =>
    exact absurd (bc.gpuIn.symm.trans hin) (c4_no_mig p r hp _ rest)
  | mig r fl ws hh hc rq ct mp wi mi rh =>
    have hg := mp.gpuIn
    rw [hin] at hg
    obtain ⟨m, rfl, rfl⟩ : ∃ m, fl = some (m, .bk) ∧ rest = [] := by
      rcases fl with _ | ⟨m, a⟩
      · simp [flIn] at hg
      · cases a with
        | sent => simp [flIn] at hg
        | atG l => simp [flIn] at hg
        | bk => exact ⟨m, rfl, by simpa [flIn] using hg⟩
    have hws : ws = .none := mp.ws
    subst hws
    have hmig : s.drv.mig = s.drv.toCP.length + 1 := mp.ctr
    have hone : s.drv.one = true := by have := mp.one; simpa using this
    obtain ⟨d0, l0, _, _, hrel, hR, hF, hmono⟩ := c4_rel h hone
    by_cases he : s.drv.toCP = []
    · have hd : CP.dec s.drv.mig = 0 := by rw [hmig, c4_dec_succ, he]; rfl
      have hr0 : s.drv.restart = 0 := by have := ct.2.2.2.1; simpa using this
      have htm : s.drv.toMMU = none := (mi.fresh (by simp)).1
      rw [c4_ret_zero s.drv [] r _ nf hin hone hrel hd hc hr0 rq.accLt rq.accIn htm]
      exact c4_last h r m hh hc rq ct mp wi mi rh he d0 l0 hR hF hmono
    · have hd : CP.dec s.drv.mig ≠ 0 := by
        rw [hmig, c4_dec_succ]; exact fun h0 => he (List.length_eq_zero_iff.mp h0)
      rw [c4_ret_ne s.drv [] _ nf hin hone hrel hd]
      exact c4_more h r m hh hc rq ct mp wi mi rh he d0 l0 hR hF hmono

end SY
end C19
