import MgpuProofs.C19SysInv
/-! # C19 — the closed system: `processReturnReq` consuming a page-migration acknowledgement keeps `Inv`

`inv_ret_mig`: not the last page (`c4_more`: back to `mig r none .none`) / the last page (`c4_last`: the
GPU-restart broadcast `bcast .restart r { wait := accT r }` with the answer to the MMU prepared). -/
namespace C19
namespace SY
open CP (Cp Cls K Sub Cmd Ans)
open DR (Drv MmuReq MigCmd)

theorem c4_toAcc (c : Cmd) (l : List Nat) : ∀ (d : Drv), d.fault = none → (∀ a ∈ l, 1 ≤ a ∧ a ≤ d.ngpu) →
    d.toAcc c l = { d with toSend := d.toSend ++ l.map (fun a => (a - 1, c)) } := by
  induction l with
  | nil => intro d _ _; simp [Drv.toAcc]
  | cons a rest ih =>
    intro d hf hr
    have ha := hr a (by simp)
    have h1 : ¬ (a = 0 ∨ a - 1 ≥ d.ngpu) := by omega
    rw [Drv.toAcc, if_neg (by simp [hf]), if_neg h1]
    rw [ih]
    · simp
    · exact hf
    · exact fun b hb => hr b (by simp [hb])

theorem c4_ret_ne (d : Drv) (rest : List Ans) (hf : d.fault = none) (hin : d.gpuIn = .mig :: rest)
    (hn : CP.dec d.mig ≠ 0) :
    d.ret.1 = { d with mig := CP.dec d.mig, one := false, gpuIn := rest } := by
  unfold Drv.ret
  simp only [hf, hin, Option.isSome_none, Bool.false_eq_true, if_false, hn]

theorem c4_ret_zero (d : Drv) (rest : List Ans) (r : MmuReq) (hf : d.fault = none)
    (hin : d.gpuIn = .mig :: rest) (hn : CP.dec d.mig = 0) (hc : d.cur = some r) (hr : d.restart = 0)
    (hl : r.acc.length < CP.w64) (ha : ∀ a ∈ r.acc, 1 ≤ a ∧ a ≤ d.ngpu) (hm : d.toMMU = none) :
    d.ret.1 = { d with mig := 0, one := false, gpuIn := rest, restart := r.acc.length,
                       toSend := d.toSend ++ r.acc.map (fun a => (a - 1, Cmd.restart)),
                       toMMU := some (r.id, DR.pagesOf d.ngpu r) } := by
  unfold Drv.ret
  simp only [hf, hin, Option.isSome_none, Bool.false_eq_true, if_false, hn, if_true, hc, hr, Nat.zero_add,
    Nat.mod_eq_of_lt hl]
  rw [c4_toAcc]
  · simp only [hm, Option.isSome_none, Bool.false_eq_true, if_false]
  · rfl
  · exact ha

theorem c4_dec_succ (n : Nat) : CP.dec (n + 1) = n := by simp [CP.dec]

theorem c4_no_mig (p : PK) (r : MmuReq) (hp : p ≠ .mig) (n : Nat) (rest : List Ans) :
    List.replicate n (ansOf (cmdOf p r)) ≠ Ans.mig :: rest := by
  intro h
  cases n with
  | zero => simp at h
  | succ k =>
    rw [List.replicate_succ] at h
    cases p <;> simp [cmdOf, ansOf] at h hp

theorem c4_flags (r : MmuReq) (ngpu g : Nat) :
    flagsAt .restart r ngpu { wait := accT r } g = flagsBefore (some .mig) ngpu (accT r) g := by
  simp [flagsAt, flagsBefore]

/-- not the last page -/
theorem c4_more {s : Sys} (h : Inv s) (r : MmuReq) (m : MigCmd)
    (hh : s.drv.handling = true) (hc : s.drv.cur = some r) (rq : ReqOK s r)
    (ct : Ctrs s.drv (some .mig) s.drv.mig) (mp : MigPh s r (some (m, .bk)) .none) (wi : WorldInv s .none)
    (mi : MmuInv s [r.id]) (rh : Rehomed s r) (hne : s.drv.toCP ≠ []) :
    Inv { s with drv := { s.drv with mig := CP.dec s.drv.mig, one := false, gpuIn := [] } } := by
  obtain ⟨cfg, ng, caps, nf, frames, lg, logIds, pending, -⟩ := h
  have hmig : s.drv.mig = s.drv.toCP.length + 1 := mp.ctr
  have hdec : CP.dec s.drv.mig = s.drv.toCP.length := by rw [hmig, c4_dec_succ]
  have hpos : 0 < s.drv.toCP.length := List.length_pos_iff.mpr hne
  refine ⟨cfg, ng, caps, nf, frames, lg, logIds, ?_, ?_⟩
  · intro r' hr'
    obtain ⟨a, b, c⟩ := pending r' hr'
    exact ⟨⟨a.pid, a.host, a.accNe, a.accNd, a.accLt, a.accIn, a.size, a.pagesNe, a.pagesNd, a.pagesLt, a.req⟩,
      ⟨b.found, b.free⟩, c⟩
  · refine Phase.mig r none .none hh hc
      ⟨rq.pid, rq.host, rq.accNe, rq.accNd, rq.accLt, rq.accIn, rq.size, rq.pagesNe, rq.pagesNd, rq.pagesLt, rq.req⟩
      ?_ ?_ ⟨wi.reach, wi.live, wi.back⟩
      ⟨mi.lost, mi.sent, mi.ids, mi.got, mi.ans, mi.one, mi.fresh, mi.cap⟩ ⟨rh.log⟩
    · obtain ⟨c1, c2, c3, c4, c5⟩ := ct
      exact ⟨c1, c2, by simp, c4, c5⟩
    · refine ⟨mp.toSend, ?_, ?_, rfl, ?_, ?_, ?_, rfl, ?_, ?_, rfl⟩
      · intro m' hm'
        have q := mp.queue m' hm'
        exact ⟨q.log, q.gpu, q.peer, q.size, q.rd, q.wr⟩
      · intro m' a h'; cases h'
      · exact hdec
      · show 0 < CP.dec s.drv.mig
        rw [hdec]; exact hpos
      · exact mp.gpuOut
      · intro m' loc h'; cases h'
      · intro g _
        exact mp.idle g (by intro m' loc h'; cases h')

/-- the last page -/
theorem c4_last {s : Sys} (h : Inv s) (r : MmuReq) (m : MigCmd)
    (hh : s.drv.handling = true) (hc : s.drv.cur = some r) (rq : ReqOK s r)
    (ct : Ctrs s.drv (some .mig) s.drv.mig) (mp : MigPh s r (some (m, .bk)) .none) (wi : WorldInv s .none)
    (mi : MmuInv s [r.id]) (rh : Rehomed s r) (he : s.drv.toCP = []) :
    Inv { s with drv := { s.drv with
      mig := 0, one := false, gpuIn := [], restart := r.acc.length,
      toSend := s.drv.toSend ++ r.acc.map (fun a => (a - 1, Cmd.restart)),
      toMMU := some (r.id, DR.pagesOf s.drv.ngpu r) } } := by
  obtain ⟨cfg, ng, caps, nf, frames, lg, logIds, pending, -⟩ := h
  have htm : s.drv.toMMU = none := (mi.fresh (by simp)).1
  refine ⟨cfg, ng, caps, nf, frames, lg, logIds, ?_, ?_⟩
  · intro r' hr'
    obtain ⟨a, b, c⟩ := pending r' hr'
    exact ⟨⟨a.pid, a.host, a.accNe, a.accNd, a.accLt, a.accIn, a.size, a.pagesNe, a.pagesNd, a.pagesLt, a.req⟩,
      ⟨b.found, b.free⟩, c⟩
  · refine Phase.bcast .restart r { wait := accT r } (fun _ => .cmd) (by simp) hh hc
      ⟨rq.pid, rq.host, rq.accNe, rq.accNd, rq.accLt, rq.accIn, rq.size, rq.pagesNe, rq.pagesNd, rq.pagesLt, rq.req⟩
      ?_ he rfl ?_ ⟨wi.reach, wi.live, wi.back⟩ ?_ (by simp) (fun _ => ⟨rh.log⟩)
    · obtain ⟨c1, c2, c3, c4, c5⟩ := ct
      refine ⟨c1, c2, rfl, ?_, c5⟩
      simp [Split.open_, accT]
    · refine ⟨?_, ?_, ?_, ?_, ?_, ?_, ?_⟩
      · simp [Split.all, targets]
      · show s.drv.toSend ++ r.acc.map (fun a => (a - 1, Cmd.restart)) = _
        rw [mp.toSend]
        simp [accT, cmdOf, List.map_map, Function.comp_def]
      · exact mp.gpuOut
      · rfl
      · have := List.length_pos_iff.mpr rq.accNe
        simp [Split.open_, accT]; exact this
      · intro g hg; simp at hg
      · intro g _
        rw [c4_flags]
        exact mp.idle g (by intro m' loc h'; cases h')
    · simp only [show ¬ (PK.restart = PK.drain ∨ PK.restart = PK.shoot) by simp, if_false]
      refine ⟨mi.lost, mi.sent, mi.ids, mi.got, ?_, mi.one, by simp, mi.cap⟩
      have := mi.ans
      rw [htm] at this
      simpa using this

theorem inv_ret_mig {s : Sys} (h : Inv s) (rest : List Ans) (hin : s.drv.gpuIn = .mig :: rest) :
    Inv { s with drv := s.drv.ret.1 } := by
  have nf := h.nf
  cases h.ph with
  | idle di _ _ _ => rw [di.gpuIn] at hin; cases hin
  | bcast p r σ loc hp _ _ _ _ _ _ bc _ _ _ _ =>
    exact absurd (bc.gpuIn.symm.trans hin) (c4_no_mig p r hp _ rest)
  | mig r fl ws hh hc rq ct mp wi mi rh =>
    have hg := mp.gpuIn
    rw [hin] at hg
    obtain ⟨m, rfl, rfl⟩ : ∃ m, fl = some (m, .bk) ∧ rest = [] := by
      rcases fl with _ | ⟨m, a⟩
      · simp [flIn] at hg
      · cases a with
        | sent => simp [flIn] at hg
        | atG l => simp [flIn] at hg
        | bk => exact ⟨m, rfl, by simpa [flIn] using hg⟩
    have hws : ws = .none := mp.ws
    subst hws
    have hmig : s.drv.mig = s.drv.toCP.length + 1 := mp.ctr
    by_cases he : s.drv.toCP = []
    · have hd : CP.dec s.drv.mig = 0 := by rw [hmig, c4_dec_succ, he]; rfl
      have hr0 : s.drv.restart = 0 := by have := ct.2.2.2.1; simpa using this
      have htm : s.drv.toMMU = none := (mi.fresh (by simp)).1
      rw [c4_ret_zero s.drv [] r nf hin hd hc hr0 rq.accLt rq.accIn htm]
      exact c4_last h r m hh hc rq ct mp wi mi rh he
    · have hd : CP.dec s.drv.mig ≠ 0 := by
        rw [hmig, c4_dec_succ]; exact fun h0 => he (List.length_eq_zero_iff.mp h0)
      rw [c4_ret_ne s.drv [] nf hin hd]
      exact c4_more h r m hh hc rq ct mp wi mi rh he

end SY
end C19
