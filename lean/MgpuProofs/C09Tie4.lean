import MgpuProofs.C09Tie3
/-! # C09 — liveness without the `RefusedIdle` alternative, for kernels whose work-groups fit a CU -/
namespace C09

/-- every work-group of the kernel fits some CU of the (empty) pool -/
def KernFits (caps : List (List Nat)) (S : List (Option Nat × List (Option Nat) × Option Nat)) (k : Kern) : Prop :=
  ∀ idx, idx < k.numWG → FitsPool caps S (k.dem idx)

theorem shapes_getD (pool : List CU) (c : Nat) (hc : c < pool.length) :
    (pool.getD c default).shapes = (pool.map CU.shapes).getD c (none, [], none) := by
  simp [List.getD_eq_getElem?_getD, hc]

/-- **no tick is stuck**: reachable-state invariants, at least one dispatcher, both ports have room,
    every completion delivered, the head message names an in-flight request, every dispatching
    kernel fits (a queued launch with an idle dispatcher is taken — progress — or rejected — fault) — then a tick without progress and without fault means that every launch
    has been answered -/
theorem no_stuck_fits_core {S} (b : Bool) (caps : List (List Nat)) (cp : CP) (hdc : DCI cp) (hti : TI S cp)
    (hinv : CPInv b caps cp) (hkq : KD (KernFits caps S) cp.view) (hn : 0 < cp.disps.length)
    (hb : (cpTick cp).2 = false) (hf : (cpTick cp).1.fault = none) (henv : EnvReady cp) :
    AllAnswered cp := by
  obtain ⟨hcr, hdr, hdel, hhead⟩ := henv
  unfold cpTick at hb hf
  by_cases hft : (tickDispatchers (List.range cp.disps.length) cp).1.fault.isSome = true
  · simp only [hft, if_true] at hf
    rw [hf] at hft; cases hft
  · simp only [hft, Bool.false_eq_true, if_false] at hb hf
    simp only [Bool.or_eq_false_iff] at hb
    obtain ⟨⟨hb1, hb2⟩, hb3⟩ := hb
    have hf1 : (tickDispatchers (List.range cp.disps.length) cp).1.fault = none := by
      cases hx : (tickDispatchers (List.range cp.disps.length) cp).1.fault with
      | none => rfl
      | some f => rw [hx] at hft; simp at hft
    obtain ⟨hq, hall⟩ := tickDispatchers_quiet b caps _ cp hdc hti hinv hcr hdr hb1 hf1
    have hs := hq.same
    -- what a dispatcher saw in its own tick
    have hsee : ∀ i, i < cp.disps.length → ∃ ci, Quiet cp ci ∧ DCI ci ∧ TI S ci ∧ CPInv b caps ci ∧
        ci.fault = none ∧ (dispTick ci i).2 = false ∧ (dispTick ci i).1.fault = none ∧
        0 < ci.cuRoom ∧ 0 < ci.drvRoom ∧
        (∀ ids rest, cp.cuIn = ids :: rest → ∀ r ∈ ids, ¬ (cp.disp i).inFl r) ∧
        ((cp.disp i).kern = none ∨ (cp.disp i).inflight ≠ [] ∨ RefusedAt ci i) := by
      intro i hi
      obtain ⟨ci, cq, c2, ct, cinv, cf, c3, c4⟩ := hall i (List.mem_range.2 hi)
      have c1 := cq.same
      have hcr' : 0 < ci.cuRoom := by have := congrArg V.cuRoom c1.1; simp only [CP.view] at this; omega
      have hdr' : 0 < ci.drvRoom := by have := congrArg V.drvRoom c1.1; simp only [CP.view] at this; omega
      obtain ⟨_, q2, q3⟩ := dispTick_false_cases ci i c2 c3 c4 hcr' hdr'
      have hdv := c1.dv i
      refine ⟨ci, cq, c2, ct, cinv, cf, c3, c4, hcr', hdr', ?_, ?_⟩
      · intro ids rest hcu r hr hin
        exact q2 ids rest (by rw [c1.2]; exact hcu) r hr ((c1.inFl i r).2 hin)
      · rcases q3 with q | q | q
        · left
          have := congrArg DV.kern hdv
          simp only [Disp.view] at this
          rw [← this]; exact q
        · right; left
          intro he
          have := congrArg DV.infl hdv
          simp only [Disp.view, he, List.map_nil] at this
          exact q (List.map_eq_nil_iff.1 this)
        · right; right; exact q
    -- nothing is in flight
    have hnofl : ∀ j, (cp.disp j).inflight = [] := by
      intro j
      cases hfl : (cp.disp j).inflight with
      | nil => rfl
      | cons e es =>
        exfalso
        have hin : (cp.disp j).inFl e.1 := by
          simp only [Disp.inFl, hfl, List.map_cons]; exact List.mem_cons_self
        obtain ⟨m, hm, _⟩ := hdel j e.1 hin
        cases hcu : cp.cuIn with
        | nil => rw [hcu] at hm; cases hm
        | cons ids rest =>
          obtain ⟨r, hr, j', hj'⟩ := hhead ids rest hcu
          have hj'lt : j' < cp.disps.length := by
            by_cases hlt : j' < cp.disps.length
            · exact hlt
            · rw [disp_oob cp j' hlt] at hj'; simp [Disp.inFl, default] at hj'
          obtain ⟨_, _, _, _, _, _, _, _, _, _, q2, _⟩ := hsee j' hj'lt
          exact q2 ids rest hcu r hr hj'
    -- nothing is placed-but-unsent
    have hnocur : ∀ j, (cp.disp j).currWG = none := by
      intro j
      by_cases hj : j < cp.disps.length
      · obtain ⟨cj, cq, _, _, _, _, _, _, _, _, _, q3⟩ := hsee j hj
        rcases q3 with q | q | q
        · exact ((hdc j).idle q).1
        · exact absurd (hnofl j) q
        · rw [← cq.curr j]; exact q.2.1
      · rw [disp_oob cp j hj]; rfl
    by_cases hbusy : ∃ i, (cp.disp i).kern.isSome = true
    · exfalso
      obtain ⟨i, hi⟩ := hbusy
      have hilt : i < cp.disps.length := by
        by_cases hlt : i < cp.disps.length
        · exact hlt
        · rw [disp_oob cp i hlt] at hi; cases hi
      obtain ⟨ci, cq, cdc, cti, cinv, cf, c3, c4, ccr, cdrv, _, q3⟩ := hsee i hilt
      have href : RefusedAt ci i := by
        rcases q3 with q | q | q
        · rw [q] at hi; cases hi
        · exact absurd (hnofl i) q
        · exact q
      obtain ⟨r1, r2, r3, r4⟩ := href
      -- the pool has no residents at that moment
      have hempty : ∀ c, (ci.pool.getD c default).resident = [] := by
        intro c
        cases hres : (ci.pool.getD c default).resident with
        | nil => rfl
        | cons e es =>
          exfalso
          obtain ⟨j, dl, _, _, hh⟩ := cti.tied cf c e (by rw [hres]; exact List.mem_cons_self)
          rcases hh with ⟨r, hh⟩ | hh
          · have := congrArg DV.infl (cq.same.dv j)
            simp only [Disp.view, hnofl j, List.map_nil] at this
            have := List.map_eq_nil_iff.1 this
            rw [this] at hh; cases hh
          · rw [cq.curr j, hnocur j] at hh; cases hh
      have hpinv : PoolInv caps ci.pool := cinv.pool (by rw [cf]; intro h; cases h)
      have hep : EmptyPool caps S ci.pool := by
        intro c hc
        have hg : ci.pool.getD c default = ci.pool[c] := by simp [List.getD_eq_getElem?_getD, hc]
        refine ⟨by rw [hg]; exact hpinv.2 c hc, hempty c, ?_⟩
        rw [shapes_getD _ _ hc, cti.shapes]
      cases hk : (ci.disp i).kern with
      | none => rw [hk] at r1; cases r1
      | some k =>
        have hkfit : KernFits caps S k := by
          have hv : ci.view = cp.view := cq.same.1
          have : (cp.view.ds i).kern = some k := by
            rw [← hv]; exact hk
          exact hkq i k this
        have hnf : (algNext ci i).1.fault = none := by
          rcases dispTick_false_post ci i cdc c3 c4 ccr cdrv with ⟨hor, _⟩ | ⟨_, _, _, e⟩
          · rcases hor with h' | h'
            · rw [hk] at h'; cases h'
            · exact absurd r3 h'
          · rw [e] at c4; exact c4
        exact algNext_not_refused caps S ci i k cdc hk r3 hpinv.1 hep hkfit hnf r4
    · have hidle : ∀ i, (cp.disp i).kern = none := by
        intro i
        cases hx : (cp.disp i).kern with
        | none => rfl
        | some k => exact absurd ⟨i, by rw [hx]; rfl⟩ hbusy
      refine ⟨?_, hidle⟩
      cases hdrv : cp.drvIn with
      | nil => rfl
      | cons k rest =>
        exfalso
        have hd' : (tickDispatchers (List.range cp.disps.length) cp).1.drvIn = k :: rest := by
          have := congrArg V.drvIn hs.1; simp only [CP.view] at this; rw [this]; exact hdrv
        have hlen : (tickDispatchers (List.range cp.disps.length) cp).1.disps.length = cp.disps.length := by
          have := congrArg V.n hs.1; simpa only [CP.view] using this
        have hk0 : ((tickDispatchers (List.range cp.disps.length) cp).1.disp 0).kern = none := by
          have := congrArg DV.kern (hs.dv 0)
          simp only [Disp.view] at this
          rw [this]; exact hidle 0
        rcases handleLaunch_false _ k rest hd' 0 (by omega) hk0 with this | this
        · rw [this] at hb2; cases hb2
        · -- a rejection is a fault of the tick
          rcases handleLaunch_fault (handleLaunch (tickDispatchers (List.range cp.disps.length) cp).1).1
            with e | e <;> rw [e] at hf
          · rw [this] at hf; cases hf
          · cases hf

/-- the reachable-state form -/
theorem no_stuck_fits_run (caps : List (List Nat)) (cfg : Cfg) (nd : Nat) (pool : List CU) (ops : List Op)
    (hnd : 0 < nd) (hempty : ∀ cu ∈ pool, cu.resident = []) (hp : PoolInv caps pool)
    (hops : ∀ k, .launch k ∈ ops → KernOK k ∧ KernFits caps (pool.map CU.shapes) k)
    (hb : (cpTick (run (mkCP cfg nd pool) ops)).2 = false)
    (hf : (cpTick (run (mkCP cfg nd pool) ops)).1.fault = none)
    (henv : EnvReady (run (mkCP cfg nd pool) ops)) : AllAnswered (run (mkCP cfg nd pool) ops) := by
  have hdc := dci_run cfg nd pool ops
  have hti := ti_run cfg nd pool ops hempty
  have hinv := run_inv true caps ops _ (mkCP_inv true caps cfg nd pool hp (fun _ => hempty))
    (fun k hk => (hops k hk).1)
  have hkq := run_KQ (Q := KernFits caps (pool.map CU.shapes)) ops _ (mkCP_DCI cfg nd pool)
    (fun k hk => (hops k hk).2) (mkCP_KQ _ cfg nd pool)
  have hlen : 0 < (run (mkCP cfg nd pool) ops).disps.length := by
    have := fair_len cfg nd pool ops; omega
  exact no_stuck_fits_core true caps _ hdc hti hinv hkq.kd hlen hb hf henv

/-- **liveness under a fair environment, no remaining alternative** (helper form: `AllAnswered`) -/
theorem fair_run_answers_fits (caps : List (List Nat)) (cfg : Cfg) (nd : Nat) (pool : List CU)
    (ops0 : List Op) (sched : Nat → Op) (hnd : 0 < nd)
    (hempty : ∀ cu ∈ pool, cu.resident = []) (hp : PoolInv caps pool)
    (hops : ∀ k, .launch k ∈ ops0 → KernOK k ∧ KernFits caps (pool.map CU.shapes) k)
    (hnl : ∀ n k, sched n ≠ .launch k)
    (hfault : ∀ n, (run (mkCP cfg nd pool) (ops0 ++ prefixOf sched n)).fault = none)
    (hfair : ∀ n, ∃ m, n ≤ m ∧ sched m = .tick ∧ EnvReady (run (mkCP cfg nd pool) (ops0 ++ prefixOf sched m))) :
    ∃ N, AllAnswered (run (mkCP cfg nd pool) (ops0 ++ prefixOf sched N)) := by
  let st : Nat → CP := fun n => run (mkCP cfg nd pool) (ops0 ++ prefixOf sched n)
  have hst : ∀ n, st (n + 1) = step (st n) (sched n) := fun n => run_prefix_succ _ ops0 sched n
  have hdc : ∀ n, DCI (st n) := fun n => dci_run cfg nd pool _
  have hle : ∀ n, (st (n + 1)).view.mu = (st n).view.mu ∨ lt3 (st (n + 1)).view.mu (st n).view.mu := by
    intro n
    rw [hst n]
    cases hs : sched n with
    | tick =>
      show (cpTick (st n)).1.view.mu = _ ∨ lt3 (cpTick (st n)).1.view.mu _
      obtain ⟨m1, m2⟩ := cpTick_mu (st n) (hdc n)
      cases hb : (cpTick (st n)).2 with
      | true => exact Or.inr (m1 hb)
      | false => left; rw [m2 hb]
    | launch k => exact absurd hs (hnl n k)
    | complete ids => exact Or.inl rfl
    | cuRoom x => exact Or.inl rfl
    | drvRoom x => exact Or.inl rfl
  obtain ⟨N, hN⟩ := eventually_stable (fun n => (st n).view.mu) hle
  obtain ⟨m, hm, htick, henv⟩ := hfair N
  refine ⟨m, ?_⟩
  have hnp : (cpTick (st m)).2 = false := by
    cases hb : (cpTick (st m)).2 with
    | false => rfl
    | true =>
      exfalso
      have := (cpTick_mu (st m) (hdc m)).1 hb
      apply hN m hm
      show lt3 (st (m + 1)).view.mu (st m).view.mu
      rw [hst m, htick]; exact this
  have hf : (cpTick (st m)).1.fault = none := by
    have := hfault (m + 1)
    have e : st (m + 1) = (cpTick (st m)).1 := by rw [hst m, htick]; rfl
    rw [← e]; exact this
  have hops' : ∀ k, Op.launch k ∈ ops0 ++ prefixOf sched m →
      KernOK k ∧ KernFits caps (pool.map CU.shapes) k := by
    intro k hk
    rcases List.mem_append.1 hk with h | h
    · exact hops k h
    · exfalso
      simp only [prefixOf, List.mem_map] at h
      obtain ⟨n, _, hn⟩ := h
      exact hnl n k hn
  exact no_stuck_fits_run caps cfg nd pool _ hnd hempty hp hops' hnp hf henv

end C09
