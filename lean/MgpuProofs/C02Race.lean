import MgpuProofs.C02Lemmas
/-!
C02 — race-free work-groups: the result does not depend on how the wavefronts are interleaved.

The emulator (`emu.ComputeUnit.runWG`) runs the wavefronts of a work-group one after the other, each
until it reaches a barrier, then resolves the barrier: phase by phase, inside a phase wavefront 0
completely, then wavefront 1, ….  The timing simulator interleaves the memory / LDS accesses of the
wavefronts of one phase arbitrarily.  This file holds the definitions and the helper lemmas; the
property theorems are in `MgpuProofs/Props/C02Race.lean`.

* generic part: a schedule is a list of `(wavefront id, action)`; `SameThreads l l'` says that `l'` is
  an interleaving of the same per-wavefront sequences as `l`; `foldl_sameThreads`: if steps of
  different wavefronts commute pairwise, folding over `l'` and over `l` gives the same state;
* Part A: actions with read / write footprints on a shared store (`Act`, `stepS`, `Conflict`, `RaceFree`);
* Part B: tagged last-writer-wins writes of the existing C02 model (`Wr`, `applyW`).
-/
namespace C02.Race

/-! ## schedules and interleavings (generic in the action type) -/

/-- `l'` is an interleaving of the same per-wavefront sequences as `l`: for every wavefront id `w`
    the sub-list of the entries of wavefront `w` is the same list (same actions, same order) -/
def SameThreads {α : Type} (l l' : List (Nat × α)) : Prop :=
  ∀ w, l'.filter (fun e => e.1 = w) = l.filter (fun e => e.1 = w)

theorem SameThreads.refl {α : Type} (l : List (Nat × α)) : SameThreads l l := fun _ => rfl

theorem SameThreads.symm {α : Type} {l l' : List (Nat × α)} (h : SameThreads l l') : SameThreads l' l :=
  fun w => (h w).symm

theorem SameThreads.trans {α : Type} {l l' l'' : List (Nat × α)} (h : SameThreads l l')
    (h' : SameThreads l' l'') : SameThreads l l'' := fun w => (h' w).trans (h w)

theorem SameThreads.mem {α : Type} {l l' : List (Nat × α)} (h : SameThreads l l') {x : Nat × α}
    (hx : x ∈ l') : x ∈ l := by
  have h1 : x ∈ l'.filter (fun e => e.1 = x.1) := by
    rw [List.mem_filter]; exact ⟨hx, by simp⟩
  rw [h x.1] at h1
  exact (List.mem_filter.mp h1).1

theorem SameThreads.nil_eq {α : Type} {l' : List (Nat × α)} (h : SameThreads [] l') : l' = [] := by
  cases l' with
  | nil => rfl
  | cons x xs => exact absurd (h.mem (List.mem_cons_self ..)) (by simp)

/-- swapping two adjacent entries of different wavefronts is an interleaving of the same threads -/
theorem SameThreads.swap {α : Type} (pre post : List (Nat × α)) (x y : Nat × α) (hne : x.1 ≠ y.1) :
    SameThreads (pre ++ x :: y :: post) (pre ++ y :: x :: post) := by
  intro w
  simp only [List.filter_append, List.filter_cons]
  by_cases hx : x.1 = w
  · have hy : ¬ y.1 = w := fun h => hne (hx.trans h.symm)
    simp [hx, hy]
  · simp [hx]

/-- the first entry of wavefront `w` in `l'` -/
theorem filter_eq_cons_split {α : Type} (w : Nat) (e : Nat × α) (r : List (Nat × α)) :
    ∀ l' : List (Nat × α), l'.filter (fun x => x.1 = w) = e :: r →
      ∃ pre post, l' = pre ++ e :: post ∧ (∀ x ∈ pre, x.1 ≠ w) ∧ post.filter (fun x => x.1 = w) = r := by
  intro l'
  induction l' with
  | nil => intro h; simp at h
  | cons x xs ih =>
    intro h
    by_cases hx : x.1 = w
    · rw [List.filter_cons_of_pos (by simpa using hx)] at h
      injection h with h1 h2
      exact ⟨[], xs, by simp [h1], by simp, h2⟩
    · rw [List.filter_cons_of_neg (by simpa using hx)] at h
      obtain ⟨pre, post, h1, h2, h3⟩ := ih h
      refine ⟨x :: pre, post, by simp [h1], ?_, h3⟩
      intro y hy
      rcases List.mem_cons.mp hy with rfl | hy
      · exact hx
      · exact h2 y hy

/-- an entry that commutes with everything in front of it can be moved to the front -/
theorem foldl_bubble {σ α : Type} (step : σ → Nat × α → σ) (e : Nat × α) (post : List (Nat × α)) :
    ∀ (pre : List (Nat × α)) (s : σ), (∀ x ∈ pre, ∀ t, step (step t x) e = step (step t e) x) →
      (pre ++ e :: post).foldl step s = (e :: (pre ++ post)).foldl step s := by
  intro pre
  induction pre with
  | nil => intro s _; rfl
  | cons x pre ih =>
    intro s h
    have hx := h x (List.mem_cons_self ..)
    have hrest : ∀ y ∈ pre, ∀ t, step (step t y) e = step (step t e) y :=
      fun y hy => h y (List.mem_cons_of_mem _ hy)
    simp only [List.cons_append, List.foldl_cons]
    rw [ih (step s x) hrest]
    simp only [List.foldl_cons]
    rw [hx s]

/-- **the interleaving lemma.**  If the steps of different wavefronts occurring in `l` commute
    pairwise, every interleaving `l'` of the same per-wavefront sequences gives the same final state. -/
theorem foldl_sameThreads {σ α : Type} (step : σ → Nat × α → σ) :
    ∀ (l l' : List (Nat × α)),
      (∀ e ∈ l, ∀ e' ∈ l, e.1 ≠ e'.1 → ∀ t, step (step t e) e' = step (step t e') e) →
      SameThreads l l' → ∀ s, l'.foldl step s = l.foldl step s := by
  intro l
  induction l with
  | nil => intro l' _ h s; rw [h.nil_eq]
  | cons e l ih =>
    intro l' hcomm h s
    have hf : l'.filter (fun x => x.1 = e.1) = e :: l.filter (fun x => x.1 = e.1) := by
      rw [h e.1, List.filter_cons_of_pos (by simp)]
    obtain ⟨pre, post, hl', hpre, hpost⟩ := filter_eq_cons_split e.1 e _ l' hf
    subst hl'
    have hsame : SameThreads l (pre ++ post) := by
      intro w
      by_cases hw : w = e.1
      · subst hw
        rw [List.filter_append, hpost]
        have : pre.filter (fun x => x.1 = e.1) = [] := by
          rw [List.filter_eq_nil_iff]
          intro x hx; simpa using hpre x hx
        rw [this, List.nil_append]
      · have h1 := h w
        have hw' : ¬ e.1 = w := fun h => hw h.symm
        simp only [List.filter_append, List.filter_cons, hw', decide_false, Bool.false_eq_true,
          if_false] at h1
        rw [List.filter_append]; exact h1
    have hcomm' : ∀ x ∈ pre, ∀ t, step (step t x) e = step (step t e) x := by
      intro x hx t
      have hxl : x ∈ e :: l := h.mem (List.mem_append_left _ hx)
      exact hcomm x hxl e (List.mem_cons_self ..) (hpre x hx) t
    rw [foldl_bubble step e post pre s hcomm', List.foldl_cons, List.foldl_cons]
    exact ih (pre ++ post)
      (fun a ha b hb => hcomm a (List.mem_cons_of_mem _ ha) b (List.mem_cons_of_mem _ hb)) hsame _

/-! ## the emulator's order of one phase -/

/-- `for wf in wfs { runWfUntilBarrier(wf) }`: wavefront 0 completely, then wavefront 1, … -/
def emuOrder {α : Type} (n : Nat) (p : List (Nat × α)) : List (Nat × α) :=
  (List.range n).flatMap (fun w => p.filter (fun e => e.1 = w))

theorem emuOrder_succ {α : Type} (n : Nat) (p : List (Nat × α)) :
    emuOrder (n + 1) p = emuOrder n p ++ p.filter (fun e => e.1 = n) := by
  simp [emuOrder, List.range_succ, List.flatMap_append]

theorem filter_emuOrder {α : Type} (p : List (Nat × α)) (w : Nat) : ∀ n,
    (emuOrder n p).filter (fun e => e.1 = w) = if w < n then p.filter (fun e => e.1 = w) else [] := by
  intro n
  induction n with
  | zero => simp [emuOrder]
  | succ n ih =>
    rw [emuOrder_succ, List.filter_append, ih, List.filter_filter]
    by_cases h1 : w < n
    · have h2 : w < n + 1 := by omega
      have h3 : p.filter (fun e => (decide (e.1 = w) && decide (e.1 = n))) = [] := by
        rw [List.filter_eq_nil_iff]
        intro x _; simp; omega
      rw [if_pos h1, if_pos h2, h3, List.append_nil]
    · by_cases h2 : w = n
      · subst h2
        rw [if_neg h1, if_pos (by omega), List.nil_append]
        congr 1; funext e; simp
      · have h3 : p.filter (fun e => (decide (e.1 = w) && decide (e.1 = n))) = [] := by
          rw [List.filter_eq_nil_iff]
          intro x _; simp; omega
        rw [if_neg h1, if_neg (by omega), h3, List.append_nil]

/-- the emulator's order is one of the interleavings (all wavefront ids below `n`) -/
theorem sameThreads_emuOrder {α : Type} (n : Nat) (p : List (Nat × α)) (hn : ∀ e ∈ p, e.1 < n) :
    SameThreads p (emuOrder n p) := by
  intro w
  rw [filter_emuOrder]
  by_cases h : w < n
  · rw [if_pos h]
  · rw [if_neg h]
    symm
    rw [List.filter_eq_nil_iff]
    intro x hx
    have := hn x hx
    simp; omega

/-! ## Part A — actions with footprints on a shared store -/

/-- shared cells (memory bytes / LDS bytes) -/
abbrev Sh := Nat → Nat

/-- one shared-memory access of a wavefront, as `alu.Run` performs it: it reads the cells `rd`,
    may write the cells `wr`, and updates the wavefront's own state (registers, PC, …) -/
structure Act (L : Type) where
  rd : List Nat
  wr : List Nat
  run : L → Sh → L × Sh

/-- the footprints are honest: nothing outside `wr` changes; the new local state and the new
    contents of `wr` depend on the shared store only through `rd` -/
structure Act.WF {L : Type} (a : Act L) : Prop where
  frame : ∀ l m c, c ∉ a.wr → (a.run l m).2 c = m c
  dep : ∀ l m m', (∀ c ∈ a.rd, m c = m' c) →
    (a.run l m).1 = (a.run l m').1 ∧ ∀ c ∈ a.wr, (a.run l m).2 c = (a.run l m').2 c

/-- local state per wavefront id, shared state -/
structure CfgS (L : Type) where
  loc : Nat → L
  sh : Sh

/-- wavefront `e.1` performs `e.2` on its own local state and the shared state -/
def stepS {L : Type} (s : CfgS L) (e : Nat × Act L) : CfgS L where
  loc := fun w => if w = e.1 then (e.2.run (s.loc e.1) s.sh).1 else s.loc w
  sh := (e.2.run (s.loc e.1) s.sh).2

def runS {L : Type} (l : List (Nat × Act L)) (s : CfgS L) : CfgS L := l.foldl stepS s

/-- a cell one of them writes and the other one reads or writes -/
def Conflict {L : Type} (a b : Act L) : Prop :=
  ∃ c, (c ∈ a.wr ∧ (c ∈ b.rd ∨ c ∈ b.wr)) ∨ (c ∈ b.wr ∧ (c ∈ a.rd ∨ c ∈ a.wr))

/-- no two different wavefronts access the same cell with at least one of them writing -/
def RaceFree {L : Type} (l : List (Nat × Act L)) : Prop :=
  ∀ e ∈ l, ∀ e' ∈ l, e.1 ≠ e'.1 → ¬ Conflict e.2 e'.2

instance {L : Type} (a b : Act L) : Decidable (Conflict a b) :=
  decidable_of_iff ((∃ c ∈ a.wr, c ∈ b.rd ∨ c ∈ b.wr) ∨ (∃ c ∈ b.wr, c ∈ a.rd ∨ c ∈ a.wr)) (by
    unfold Conflict
    constructor
    · rintro (⟨c, h1, h2⟩ | ⟨c, h1, h2⟩)
      · exact ⟨c, Or.inl ⟨h1, h2⟩⟩
      · exact ⟨c, Or.inr ⟨h1, h2⟩⟩
    · rintro ⟨c, ⟨h1, h2⟩ | ⟨h1, h2⟩⟩
      · exact Or.inl ⟨c, h1, h2⟩
      · exact Or.inr ⟨c, h1, h2⟩)

instance {L : Type} (l : List (Nat × Act L)) : Decidable (RaceFree l) := by
  unfold RaceFree; infer_instance

/-- one list of accesses per barrier phase -/
def runPhases {L : Type} (ps : List (List (Nat × Act L))) (s : CfgS L) : CfgS L :=
  ps.foldl (fun s p => runS p s) s

theorem runS_cons {L : Type} (e : Nat × Act L) (l : List (Nat × Act L)) (s : CfgS L) :
    runS (e :: l) s = runS l (stepS s e) := rfl

theorem runPhases_cons {L : Type} (p : List (Nat × Act L)) (ps : List (List (Nat × Act L))) (s : CfgS L) :
    runPhases (p :: ps) s = runPhases ps (runS p s) := rfl

theorem RaceFree.tail {L : Type} {e : Nat × Act L} {l : List (Nat × Act L)} (h : RaceFree (e :: l)) :
    RaceFree l :=
  fun a ha b hb => h a (List.mem_cons_of_mem _ ha) b (List.mem_cons_of_mem _ hb)

/-- two steps of different wavefronts without a conflict commute -/
theorem stepS_comm {L : Type} (s : CfgS L) (e e' : Nat × Act L) (hne : e.1 ≠ e'.1)
    (ha : e.2.WF) (hb : e'.2.WF) (hc : ¬ Conflict e.2 e'.2) :
    stepS (stepS s e) e' = stepS (stepS s e') e := by
  obtain ⟨i, a⟩ := e
  obtain ⟨j, b⟩ := e'
  simp only at hne ha hb hc
  have hji : j ≠ i := Ne.symm hne
  have hc1 : ∀ c, c ∈ a.wr → c ∉ b.rd ∧ c ∉ b.wr := fun c h =>
    ⟨fun h' => hc ⟨c, Or.inl ⟨h, Or.inl h'⟩⟩, fun h' => hc ⟨c, Or.inl ⟨h, Or.inr h'⟩⟩⟩
  have hc2 : ∀ c, c ∈ b.wr → c ∉ a.rd ∧ c ∉ a.wr := fun c h =>
    ⟨fun h' => hc ⟨c, Or.inr ⟨h, Or.inl h'⟩⟩, fun h' => hc ⟨c, Or.inr ⟨h, Or.inr h'⟩⟩⟩
  -- what `a` reads is not changed by `b`, and vice versa
  have ra : ∀ c ∈ a.rd, s.sh c = (b.run (s.loc j) s.sh).2 c := fun c h =>
    (hb.frame _ _ c (fun h' => (hc2 c h').1 h)).symm
  have rb : ∀ c ∈ b.rd, s.sh c = (a.run (s.loc i) s.sh).2 c := fun c h =>
    (ha.frame _ _ c (fun h' => (hc1 c h').1 h)).symm
  have da := ha.dep (s.loc i) s.sh _ ra
  have db := hb.dep (s.loc j) s.sh _ rb
  simp only [stepS, if_neg hji, if_neg hne, CfgS.mk.injEq]
  refine ⟨?_, ?_⟩
  · funext w
    by_cases hwj : w = j
    · subst hwj
      rw [if_pos rfl, if_neg hji, if_pos rfl]
      exact db.1.symm
    · rw [if_neg hwj]
      by_cases hwi : w = i
      · subst hwi
        rw [if_pos rfl, if_pos rfl]
        exact da.1
      · rw [if_neg hwi, if_neg hwi, if_neg hwj]
  · funext c
    by_cases hcb : c ∈ b.wr
    · rw [ha.frame _ _ c (hc2 c hcb).2]
      exact (db.2 c hcb).symm
    · rw [hb.frame _ _ c hcb]
      by_cases hca : c ∈ a.wr
      · exact da.2 c hca
      · rw [ha.frame _ _ c hca, ha.frame _ _ c hca, hb.frame _ _ c hcb]

/-- interleaving independence of one phase (the form used for the phase theorem) -/
theorem runS_sameThreads {L : Type} (l l' : List (Nat × Act L)) (hwf : ∀ e ∈ l, e.2.WF)
    (hrf : RaceFree l) (h : SameThreads l l') (s : CfgS L) : runS l' s = runS l s :=
  foldl_sameThreads stepS l l'
    (fun e he e' he' hne t => stepS_comm t e e' hne (hwf e he) (hwf e' he') (hrf e he e' he' hne)) h s

/-- phase-wise interleavings of phase-wise race-free schedules give the same result -/
theorem runPhases_sameThreads {L : Type} : ∀ (ps ps' : List (List (Nat × Act L))),
    (∀ p ∈ ps, (∀ e ∈ p, e.2.WF) ∧ RaceFree p) →
    ps'.length = ps.length →
    (∀ (k : Nat) p p', ps[k]? = some p → ps'[k]? = some p' → SameThreads p p') →
    ∀ s : CfgS L, runPhases ps' s = runPhases ps s := by
  intro ps
  induction ps with
  | nil =>
    intro ps' _ hlen _ s
    have : ps' = [] := List.eq_nil_of_length_eq_zero (by simpa using hlen)
    rw [this]
  | cons p ps ih =>
    intro ps' hp hlen hk s
    cases ps' with
    | nil => simp at hlen
    | cons p' ps' =>
      rw [runPhases_cons, runPhases_cons]
      have h0 : SameThreads p p' := hk 0 p p' rfl rfl
      have hp0 := hp p (List.mem_cons_self ..)
      rw [runS_sameThreads p p' hp0.1 hp0.2 h0 s]
      exact ih ps' (fun q hq => hp q (List.mem_cons_of_mem _ hq)) (by simpa using hlen)
        (fun k q q' hq hq' => hk (k + 1) q q' (by simpa using hq) (by simpa using hq')) _

/-! ### building blocks for concrete schedules -/

/-- a store of the constant `v` to cell `c` (`DS_WRITE` / `FLAT_STORE` of one byte) -/
def Act.write {L : Type} (c v : Nat) : Act L where
  rd := []
  wr := [c]
  run := fun l m => (l, fun x => if x = c then v else m x)

/-- a load of cell `c` into the local state (`DS_READ` / `FLAT_LOAD` of one byte) -/
def Act.read {L : Type} (c : Nat) (f : L → Nat → L) : Act L where
  rd := [c]
  wr := []
  run := fun l m => (f l (m c), m)

theorem Act.write_wf {L : Type} (c v : Nat) : (Act.write c v : Act L).WF where
  frame := by
    intro l m x hx
    have : x ≠ c := by simpa [Act.write] using hx
    simp [Act.write, this]
  dep := by
    intro l m m' _
    refine ⟨rfl, ?_⟩
    intro x hx
    have : x = c := by simpa [Act.write] using hx
    simp [Act.write, this]

theorem Act.read_wf {L : Type} (c : Nat) (f : L → Nat → L) : (Act.read c f).WF where
  frame := by intro l m x _; rfl
  dep := by
    intro l m m' h
    have : m c = m' c := h c (by simp [Act.read])
    refine ⟨by simp [Act.read, this], ?_⟩
    intro x hx
    simp [Act.read] at hx

/-! ## Part B — tagged last-writer-wins writes of the C02 model -/

/-- apply tagged writes one by one -/
theorem applyW_map_snd (l : List (Nat × Wr)) (m : St) :
    applyW (l.map (·.2)) m = l.foldl (fun f e => upd f e.2) m := by
  simp [applyW, List.foldl_map]

/-- writes to different cells commute -/
theorem upd_comm (f : St) (w w' : Wr) (h : w.cell ≠ w'.cell) : upd (upd f w) w' = upd (upd f w') w := by
  funext c
  simp only [upd]
  by_cases h1 : c = w'.cell
  · by_cases h2 : c = w.cell
    · exact absurd (h2.symm.trans h1) h
    · subst h1; simp [Ne.symm h]
  · by_cases h2 : c = w.cell
    · subst h2; simp [h]
    · simp [h1, h2]

end C02.Race
