import MgpuModel.C08
import MgpuProofs.C08Cover
/-! # C08 — conservation invariant of the stateful partition algorithm (`pNext`)

Helper lemmas for `Props/C08Part.lean`. The invariant `PInv` carries a ghost function
`done i` = the work-groups already handed out FROM partition `i` (in hand-out order); per partition
`done i ++ currWGs[i] ++ todo_i` is always the fixed range `seg l per i` of the work-group list. -/
namespace C08

/-! ## arrays -/

theorem getD_set {α : Type} (a : Array α) (i j : Nat) (v d : α) :
    (a.setIfInBounds i v).getD j d = if i = j ∧ i < a.size then v else a.getD j d := by
  simp only [Array.getD_eq_getD_getElem?, Array.getElem?_setIfInBounds]
  by_cases h : i = j
  · subst h
    by_cases h2 : i < a.size
    · simp [h2]
    · simp [h2]
  · simp [h]

/-! ## ghost bookkeeping -/

/-- the fixed range of partition `i`: `Skip(i·per)` then at most `per` groups -/
def seg (l : List WG) (per i : Nat) : List WG := (l.drop (i * per)).take per

/-- `done` after one more hand-out from partition `j` -/
def bump (done : Nat → List WG) (j : Nat) (wg : WG) : Nat → List WG :=
  fun i => if i = j then done i ++ [wg] else done i

/-- what the per-CU cursors still hold: `currWGs[i]`, then what the builder of partition `i` may
    still be asked for (its quota is `per` groups in total) -/
def pHeld (s : PState) : List WG :=
  (List.range s.cur.size).flatMap fun i =>
    (s.cur.getD i none).toList ++
      (s.rem.getD i []).take (s.per - s.disp.getD i 0 - (s.cur.getD i none).toList.length)

structure PInv (l : List WG) (n per : Nat) (s : PState) (done : Nat → List WG) : Prop where
  hrem : s.rem.size = n
  hcur : s.cur.size = n
  hdisp : s.disp.size = n
  hper : s.per = per
  hnum : s.numWG = l.length
  segs : ∀ i, i < n → ∃ todo tail,
      done i ++ (s.cur.getD i none).toList ++ todo = seg l per i ∧
      s.rem.getD i [] = todo ++ tail ∧
      (tail = [] ∨ (seg l per i).length = per)
  disp_eq : ∀ i, i < n → s.disp.getD i 0 = (done i).length
  nd_eq : s.nd = ((List.range n).map fun i => (done i).length).sum
  cover : (List.range n).flatMap (seg l per) = l

theorem sum_bump (done : Nat → List WG) (j : Nat) (wg : WG) : ∀ (is : List Nat), is.Nodup → j ∈ is →
    (is.map fun i => (bump done j wg i).length).sum = (is.map fun i => (done i).length).sum + 1 := by
  intro is
  induction is with
  | nil => intro _ h; cases h
  | cons a t ih =>
    intro hnd hj
    rw [List.nodup_cons] at hnd
    simp only [List.map_cons, List.sum_cons]
    by_cases ha : a = j
    · subst ha
      have : (t.map fun i => (bump done a wg i).length) = (t.map fun i => (done i).length) := by
        apply List.map_congr_left
        intro i hi
        have : i ≠ a := fun e => hnd.1 (e ▸ hi)
        simp [bump, this]
      rw [this]
      simp [bump]
      omega
    · have hjt : j ∈ t := by
        rcases List.mem_cons.mp hj with e | e
        · exact absurd e.symm ha
        · exact e
      rw [ih hnd.2 hjt]
      simp [bump, ha]
      omega

theorem perm_bump (done : Nat → List WG) (j : Nat) (wg : WG) : ∀ (is : List Nat), is.Nodup → j ∈ is →
    (is.flatMap (bump done j wg)).Perm (wg :: is.flatMap done) := by
  intro is
  induction is with
  | nil => intro _ h; cases h
  | cons a t ih =>
    intro hnd hj
    rw [List.nodup_cons] at hnd
    simp only [List.flatMap_cons]
    by_cases ha : a = j
    · subst ha
      have : t.flatMap (bump done a wg) = t.flatMap done := by
        have : t.map (bump done a wg) = t.map done := by
          apply List.map_congr_left
          intro i hi
          have : i ≠ a := fun e => hnd.1 (e ▸ hi)
          simp [bump, this]
        rw [List.flatMap_def, List.flatMap_def, this]
      rw [this]
      have : bump done a wg a = done a ++ [wg] := by simp [bump]
      rw [this, List.append_assoc]
      refine (List.perm_append_comm_assoc _ _ _).trans ?_
      simp
    · have hjt : j ∈ t := by
        rcases List.mem_cons.mp hj with e | e
        · exact absurd e.symm ha
        · exact e
      have : bump done j wg a = done a := by simp [bump, ha]
      rw [this]
      refine (List.Perm.append_left _ (ih hnd.2 hjt)).trans ?_
      exact List.perm_middle

/-! ## the steps -/

/-- `nextWG(i)` keeps the invariant (it may load `currWGs[i]` from the builder) and, when it
    offers a group, that group sits in `currWGs[from]` -/
theorem pNextWG_inv (l : List WG) (n per : Nat) (s : PState) (done : Nat → List WG)
    (h : PInv l n per s done) (i : Nat) (hi : i < n) :
    PInv l n per (pNextWG s i).1 done ∧ (pNextWG s i).1.next = s.next ∧
    (pNextWG s i).1.nd = s.nd ∧
    ∀ wg j, (pNextWG s i).2 = some (wg, j) → j < n ∧ (pNextWG s i).1.cur.getD j none = some wg := by
  unfold pNextWG
  split
  · -- quota used up: steal a group parked in some currWGs[j]
    split
    · rename_i j hj
      have hjm := List.find?_some hj
      have hjr := List.mem_of_find?_eq_some hj
      rw [List.mem_range, h.hcur] at hjr
      split
      · rename_i wg hwg
        refine ⟨h, rfl, rfl, ?_⟩
        intro wg' j' e
        simp only [Option.some.injEq, Prod.mk.injEq] at e
        obtain ⟨rfl, rfl⟩ := e
        exact ⟨hjr, hwg⟩
      · exact ⟨h, rfl, rfl, fun _ _ e => by cases e⟩
    · exact ⟨h, rfl, rfl, fun _ _ e => by cases e⟩
  · rename_i hq
    split
    · rename_i wg hwg
      refine ⟨h, rfl, rfl, ?_⟩
      intro wg' j' e
      simp only [Option.some.injEq, Prod.mk.injEq] at e
      obtain ⟨rfl, rfl⟩ := e
      exact ⟨hi, hwg⟩
    · rename_i hnone
      split
      · exact ⟨h, rfl, rfl, fun _ _ e => by cases e⟩
      · rename_i wg r hr
        refine ⟨?_, rfl, rfl, ?_⟩
        · obtain ⟨todo, tail, e1, e2, e3⟩ := h.segs i hi
          rw [hnone] at e1
          rw [hr] at e2
          simp only [Option.toList_none, List.append_nil] at e1
          -- the loaded group is the head of `todo`
          have htodo : todo ≠ [] := by
            intro e
            subst e
            simp only [List.append_nil] at e1
            rcases e3 with e3 | e3
            · subst e3; cases e2
            · rw [← e1, ← h.disp_eq i hi, ← h.hper] at e3
              omega
          obtain ⟨w0, t0, rfl⟩ := List.exists_cons_of_ne_nil htodo
          simp only [List.cons_append, List.cons.injEq] at e2
          obtain ⟨rfl, rfl⟩ := e2
          refine ⟨by simpa using h.hrem, by simpa using h.hcur, h.hdisp, h.hper, h.hnum, ?_, h.disp_eq, h.nd_eq, h.cover⟩
          intro k hk
          simp only [getD_set]
          by_cases hik : i = k
          · subst hik
            simp only [h.hcur, h.hrem, hi, and_self, if_true]
            exact ⟨t0, tail, by simpa using e1, rfl, e3⟩
          · simp only [hik, false_and, if_false]
            exact h.segs k hk
        · intro wg' j' e
          simp only [Option.some.injEq, Prod.mk.injEq] at e
          obtain ⟨rfl, rfl⟩ := e
          refine ⟨hi, ?_⟩
          simp [h.hcur, hi]

/-- the bookkeeping of a successful reservation: `currWGs[j] = nil`, `dispatchedWG[j]++`,
    `numDispatchedWG++` -/
theorem dispatch_inv (l : List WG) (n per : Nat) (s : PState) (done : Nat → List WG)
    (h : PInv l n per s done) (j : Nat) (hj : j < n) (wg : WG) (hc : s.cur.getD j none = some wg) (nx : Nat) :
    PInv l n per { s with cur := s.cur.setIfInBounds j none,
                          disp := s.disp.setIfInBounds j (s.disp.getD j 0 + 1),
                          nd := s.nd + 1, next := nx } (bump done j wg) := by
  refine ⟨h.hrem, by simpa using h.hcur, by simpa using h.hdisp, h.hper, h.hnum, ?_, ?_, ?_, h.cover⟩
  · intro k hk
    simp only [getD_set]
    by_cases hjk : j = k
    · subst hjk
      obtain ⟨todo, tail, e1, e2, e3⟩ := h.segs j hj
      rw [hc] at e1
      simp only [h.hcur, hj, and_self, if_true]
      refine ⟨todo, tail, ?_, e2, e3⟩
      simpa [bump] using e1
    · simp only [hjk, false_and, if_false]
      have : bump done j wg k = done k := by simp [bump, Ne.symm hjk]
      rw [this]
      exact h.segs k hk
  · intro k hk
    simp only [getD_set]
    by_cases hjk : j = k
    · subst hjk
      simp [h.hdisp, hj, bump, h.disp_eq j hj]
    · simp only [hjk, false_and, if_false]
      have : bump done j wg k = done k := by simp [bump, Ne.symm hjk]
      rw [this]
      exact h.disp_eq k hk
  · show s.nd + 1 = _
    rw [sum_bump done j wg (List.range n) List.nodup_range (List.mem_range.mpr hj), ← h.nd_eq]

/-- result of the round-robin loop of `Next` -/
theorem go_inv (l : List WG) (n per : Nat) (hn : 0 < n) (done : Nat → List WG) :
    ∀ (k idx : Nat) (s : PState) (fails : List Bool), PInv l n per s done →
    (((pNext.go n k idx s fails).2.2 = none ∧ PInv l n per (pNext.go n k idx s fails).1 done ∧
        (pNext.go n k idx s fails).1.nd = s.nd) ∨
     ∃ i wg j, (pNext.go n k idx s fails).2.2 = some (i, wg) ∧ i < n ∧ j < n ∧
        PInv l n per (pNext.go n k idx s fails).1 (bump done j wg) ∧
        (pNext.go n k idx s fails).1.nd = s.nd + 1) := by
  intro k
  induction k with
  | zero => intro idx s fails h; exact Or.inl ⟨rfl, h, rfl⟩
  | succ k ih =>
    intro idx s fails h
    have hi : (idx + s.next) % n < n := Nat.mod_lt _ hn
    obtain ⟨h1, hnext, hnd, hoff⟩ := pNextWG_inv l n per s done h _ hi
    unfold pNext.go
    simp only
    generalize hr : pNextWG s ((idx + s.next) % n) = r at h1 hnext hnd hoff
    obtain ⟨s1, o⟩ := r
    cases o with
    | none =>
      simp only
      have := ih (idx + 1) s1 fails h1
      simp only at hnd
      rw [hnd] at this
      exact this
    | some p =>
      obtain ⟨wg, j⟩ := p
      obtain ⟨hj, hc⟩ := hoff wg j rfl
      simp only at hj hc hnd
      cases fails with
      | nil =>
        simp only [Bool.false_eq_true, if_false]
        refine Or.inr ⟨_, wg, j, rfl, hi, hj, dispatch_inv l n per s1 done h1 j hj wg hc _, ?_⟩
        simp [hnd]
      | cons f rest =>
        cases f with
        | true =>
          simp only [if_true]
          have := ih (idx + 1) s1 rest h1
          rw [hnd] at this
          exact this
        | false =>
          simp only [Bool.false_eq_true, if_false]
          refine Or.inr ⟨_, wg, j, rfl, hi, hj, dispatch_inv l n per s1 done h1 j hj wg hc _, ?_⟩
          simp [hnd]

/-! ## `Next` and runs -/

/-- one call of `Next` -/
theorem pNext_inv (l : List WG) (n per : Nat) (hn : 0 < n) (done : Nat → List WG) (s : PState)
    (fails : List Bool) (h : PInv l n per s done) :
    ((pNext s fails).2.2 = none ∧ PInv l n per (pNext s fails).1 done ∧ (pNext s fails).1.nd = s.nd) ∨
    ∃ i wg j, (pNext s fails).2.2 = some (i, wg) ∧ i < n ∧ j < n ∧
      PInv l n per (pNext s fails).1 (bump done j wg) ∧ (pNext s fails).1.nd = s.nd + 1 := by
  unfold pNext
  split
  · exact Or.inl ⟨rfl, h, rfl⟩
  · simp only [h.hcur]
    exact go_inv l n per hn done n 0 s fails h

theorem flatMap_append_perm {α β : Type} (f g : α → List β) : ∀ is : List α,
    (is.flatMap f ++ is.flatMap g).Perm (is.flatMap fun i => f i ++ g i) := by
  intro is
  induction is with
  | nil => simp
  | cons a t ih =>
    simp only [List.flatMap_cons]
    refine List.Perm.trans ?_ (List.Perm.append_left _ ih)
    rw [List.append_assoc, List.append_assoc]
    refine List.Perm.append_left _ ?_
    rw [← List.append_assoc, ← List.append_assoc]
    exact List.Perm.append_right _ List.perm_append_comm

/-- the invariant after any number of calls, with the hand-outs accounted for in `done` -/
theorem pRun_inv (l : List WG) (n per : Nat) (hn : 0 < n) : ∀ (k : Nat) (s : PState) (fails : List Bool)
    (done : Nat → List WG), PInv l n per s done →
    ∃ done', PInv l n per (pRun k s fails).1 done' ∧
      ((List.range n).flatMap done').Perm ((pRun k s fails).2.2.map (·.2) ++ (List.range n).flatMap done) ∧
      (∀ d ∈ (pRun k s fails).2.2, d.1 < n) ∧
      (pRun k s fails).1.nd = s.nd + (pRun k s fails).2.2.length := by
  intro k
  induction k with
  | zero => intro s fails done h; exact ⟨done, h, by simp [pRun], by simp [pRun], by simp [pRun]⟩
  | succ k ih =>
    intro s fails done h
    have hstep := pNext_inv l n per hn done s fails h
    unfold pRun
    generalize pNext s fails = r at hstep
    obtain ⟨s1, f1, o⟩ := r
    rcases hstep with ⟨e, h1, hnd⟩ | ⟨i, wg, j, e, hi, hj, h1, hnd⟩
    · simp only at e h1 hnd
      subst e
      simp only
      obtain ⟨done', a, b, c, d⟩ := ih s1 f1 done h1
      exact ⟨done', a, b, c, by rw [d, hnd]⟩
    · simp only at e h1 hnd
      subst e
      simp only
      obtain ⟨done', a, b, c, d⟩ := ih s1 f1 (bump done j wg) h1
      refine ⟨done', a, ?_, ?_, ?_⟩
      · refine b.trans ?_
        simp only [List.map_cons]
        refine (List.Perm.append_left _ (perm_bump done j wg (List.range n) List.nodup_range (List.mem_range.mpr hj))).trans ?_
        exact List.perm_middle
      · intro d' hd'
        rcases List.mem_cons.mp hd' with e | e
        · subst e; exact hi
        · exact c d' e
      · rw [d, hnd]; simp only [List.length_cons]; omega

/-- what the cursors hold is, per partition, the not-yet-handed-out rest of its range -/
theorem pHeld_eq (l : List WG) (n per : Nat) (s : PState) (done : Nat → List WG) (h : PInv l n per s done) :
    pHeld s = (List.range n).flatMap fun i => (seg l per i).drop (done i).length := by
  unfold pHeld
  rw [h.hcur, List.flatMap_def, List.flatMap_def]
  congr 1
  apply List.map_congr_left
  intro i hi
  rw [List.mem_range] at hi
  obtain ⟨todo, tail, e1, e2, e3⟩ := h.segs i hi
  rw [← e1, List.append_assoc, List.drop_left, e2, h.disp_eq i hi, h.hper]
  congr 1
  have hlen : (seg l per i).length ≤ per := by unfold seg; rw [List.length_take]; omega
  have hl2 : (seg l per i).length = (done i).length + (s.cur.getD i none).toList.length + todo.length := by
    rw [← e1]; simp only [List.length_append]
  rcases e3 with e3 | e3
  · subst e3
    rw [List.append_nil]
    exact List.take_of_length_le (by omega)
  · exact List.take_left' (by omega)

theorem done_prefix (l : List WG) (n per : Nat) (s : PState) (done : Nat → List WG) (h : PInv l n per s done)
    (i : Nat) (hi : i < n) : done i ++ (seg l per i).drop (done i).length = seg l per i := by
  obtain ⟨todo, tail, e1, _, _⟩ := h.segs i hi
  rw [← e1, List.append_assoc, List.drop_left]

/-- conservation for any invariant state: handed out ⊎ held = the list -/
theorem conserve (l : List WG) (n per : Nat) (s : PState) (done : Nat → List WG) (h : PInv l n per s done) :
    ((List.range n).flatMap done ++ pHeld s).Perm l := by
  rw [pHeld_eq l n per s done h]
  refine (flatMap_append_perm _ _ _).trans ?_
  have : ((List.range n).flatMap fun i => done i ++ (seg l per i).drop (done i).length) =
      (List.range n).flatMap (seg l per) := by
    rw [List.flatMap_def, List.flatMap_def]
    congr 1
    apply List.map_congr_left
    intro i hi
    exact done_prefix l n per s done h i (List.mem_range.mp hi)
  rw [this, h.cover]

/-- `StartNewKernel` establishes the invariant (nothing handed out yet) -/
theorem pStart_inv (l : List WG) (ncu : Nat) (hn : 0 < ncu) :
    PInv l ncu ((l.length - 1) / ncu + 1) (pStart l l.length ncu) (fun _ => []) := by
  have hcover : (List.range ncu).flatMap (seg l ((l.length - 1) / ncu + 1)) = l := by
    unfold seg
    rw [chunks_take]
    apply List.take_of_length_le
    cases hl : l.length with
    | zero => omega
    | succ m =>
      have := wg_all_allocated (m + 1) ncu hn (by omega)
      unfold wgPerCU at this
      simpa using this
  refine ⟨by simp [pStart], by simp [pStart], by simp [pStart], rfl, rfl, ?_, ?_, ?_, hcover⟩
  · intro i hi
    refine ⟨seg l ((l.length - 1) / ncu + 1) i, (l.drop (i * ((l.length - 1) / ncu + 1))).drop ((l.length - 1) / ncu + 1), ?_, ?_, ?_⟩
    · simp [pStart, Array.getD, hi]
    · have hrem : (pStart l l.length ncu).rem.getD i [] = l.drop (i * ((l.length - 1) / ncu + 1)) := by
        simp [pStart, Array.getD, hi]
      rw [hrem]
      unfold seg
      exact (List.take_append_drop _ _).symm
    · by_cases hc : (seg l ((l.length - 1) / ncu + 1) i).length = (l.length - 1) / ncu + 1
      · exact Or.inr hc
      · left
        unfold seg at hc
        rw [List.length_take] at hc
        apply List.drop_eq_nil_of_le
        omega
  · intro i hi
    simp [pStart, Array.getD, hi]
  · have : ∀ is : List Nat, (is.map fun _ => 0).sum = 0 := by
      intro is; induction is <;> simp_all
    simp [pStart, this]

/-! ## progress -/

/-- a partition whose range is not used up always has a group to offer -/
theorem pNextWG_avail (l : List WG) (n per : Nat) (s : PState) (done : Nat → List WG)
    (h : PInv l n per s done) (i : Nat) (hi : i < n) (ha : (done i).length < (seg l per i).length) :
    (pNextWG s i).2 ≠ none := by
  obtain ⟨todo, tail, e1, e2, e3⟩ := h.segs i hi
  have hlen : (seg l per i).length ≤ per := by unfold seg; rw [List.length_take]; omega
  have hd := h.disp_eq i hi
  have hp := h.hper
  unfold pNextWG
  split
  · omega
  · split
    · simp
    · rename_i hnone
      rw [hnone] at e1
      simp only [Option.toList_none, List.append_nil] at e1
      have htodo : todo ≠ [] := by
        intro e
        subst e
        rw [← e1] at ha
        simp at ha
      obtain ⟨w0, t0, rfl⟩ := List.exists_cons_of_ne_nil htodo
      rw [e2]
      simp

theorem exists_lt_of_sum_lt (f g : Nat → Nat) : ∀ is : List Nat, (∀ i ∈ is, f i ≤ g i) →
    (is.map f).sum < (is.map g).sum → ∃ i ∈ is, f i < g i := by
  intro is
  induction is with
  | nil => intro _ h; simp at h
  | cons a t ih =>
    intro hle hlt
    simp only [List.map_cons, List.sum_cons] at hlt
    by_cases ha : f a < g a
    · exact ⟨a, List.mem_cons_self, ha⟩
    · have := hle a List.mem_cons_self
      obtain ⟨i, hi, h⟩ := ih (fun i hi => hle i (List.mem_cons_of_mem _ hi)) (by omega)
      exact ⟨i, List.mem_cons_of_mem _ hi, h⟩

theorem length_flatMap_sum {α β : Type} (f : α → List β) (is : List α) :
    (is.flatMap f).length = (is.map fun i => (f i).length).sum := by
  induction is with
  | nil => rfl
  | cons a t ih => simp [List.flatMap_cons, ih]

/-- while work-groups are outstanding some partition still has one -/
theorem exists_avail (l : List WG) (n per : Nat) (s : PState) (done : Nat → List WG)
    (h : PInv l n per s done) (hnd : s.nd < s.numWG) :
    ∃ i, i < n ∧ (done i).length < (seg l per i).length := by
  have hsum : l.length = ((List.range n).map fun i => (seg l per i).length).sum := by
    have := congrArg List.length h.cover
    rw [length_flatMap_sum] at this
    exact this.symm
  have hle : ∀ i ∈ List.range n, (done i).length ≤ (seg l per i).length := by
    intro i hi
    obtain ⟨todo, tail, e1, _, _⟩ := h.segs i (List.mem_range.mp hi)
    rw [← e1]; simp only [List.length_append]; omega
  rw [h.hnum, h.nd_eq, hsum] at hnd
  obtain ⟨i, hi, hlt⟩ := exists_lt_of_sum_lt _ _ (List.range n) hle hnd
  exact ⟨i, List.mem_range.mp hi, hlt⟩

/-- the round-robin index reaches every partition -/
theorem rr_surj (n nx i : Nat) (hi : i < n) : ∃ idx, idx < n ∧ (idx + nx) % n = i := by
  have hn : 0 < n := by omega
  refine ⟨(i + (n - nx % n)) % n, Nat.mod_lt _ hn, ?_⟩
  have hm := Nat.mod_lt nx hn
  rw [Nat.mod_add_mod]
  have e : i + (n - nx % n) + nx = i + n * (nx / n + 1) := by
    have := Nat.div_add_mod nx n
    rw [Nat.mul_add, Nat.mul_one]
    omega
  rw [e, Nat.add_mul_mod_self_left, Nat.mod_eq_of_lt hi]

/-- the loop of `Next` ends without a dispatch only after consuming a refusal for every partition
    that had a group to offer -/
theorem go_none (l : List WG) (n per : Nat) (hn : 0 < n) (done : Nat → List WG) :
    ∀ (k idx : Nat) (s : PState) (fails : List Bool), PInv l n per s done →
    (pNext.go n k idx s fails).2.2 = none →
    (pNext.go n k idx s fails).2.1.length ≤ fails.length ∧
    ∀ idx', idx ≤ idx' → idx' < idx + k →
      (done ((idx' + s.next) % n)).length < (seg l per ((idx' + s.next) % n)).length →
      (pNext.go n k idx s fails).2.1.length < fails.length := by
  intro k
  induction k with
  | zero =>
    intro idx s fails _ _
    exact ⟨Nat.le_refl _, fun idx' a b => by omega⟩
  | succ k ih =>
    intro idx s fails h
    have hi : (idx + s.next) % n < n := Nat.mod_lt _ hn
    obtain ⟨h1, hnext, hnd, hoff⟩ := pNextWG_inv l n per s done h _ hi
    have hav := pNextWG_avail l n per s done h _ hi
    unfold pNext.go
    simp only
    generalize hr : pNextWG s ((idx + s.next) % n) = r at h1 hnext hnd hoff hav
    obtain ⟨s1, o⟩ := r
    simp only at hnext
    cases o with
    | none =>
      simp only
      intro hres
      obtain ⟨a, b⟩ := ih (idx + 1) s1 fails h1 hres
      refine ⟨a, ?_⟩
      intro idx' h1' h2' hlt
      by_cases e : idx' = idx
      · subst e
        exact absurd rfl (hav hlt)
      · have := b idx' (by omega) (by omega)
        rw [hnext] at this
        exact this hlt
    | some p =>
      obtain ⟨wg, j⟩ := p
      cases fails with
      | nil => simp
      | cons f rest =>
        cases f with
        | true =>
          simp only [if_true]
          intro hres
          obtain ⟨a, _⟩ := ih (idx + 1) s1 rest h1 hres
          simp only [List.length_cons]
          exact ⟨by omega, fun _ _ _ _ => by omega⟩
        | false => simp

/-- the loop never un-reads the outcome stream -/
theorem go_fails_le (n : Nat) : ∀ (k idx : Nat) (s : PState) (fails : List Bool),
    (pNext.go n k idx s fails).2.1.length ≤ fails.length := by
  intro k
  induction k with
  | zero => intro idx s fails; exact Nat.le_refl _
  | succ k ih =>
    intro idx s fails
    unfold pNext.go
    simp only
    generalize pNextWG s ((idx + s.next) % n) = r
    obtain ⟨s1, o⟩ := r
    cases o with
    | none => exact ih _ _ _
    | some p =>
      obtain ⟨wg, j⟩ := p
      cases fails with
      | nil =>
        simp only [Bool.false_eq_true, if_false]
        exact Nat.le_refl _
      | cons f rest =>
        cases f with
        | true =>
          simp only [if_true]
          have := ih (idx + 1) s1 rest
          simp only [List.length_cons]
          omega
        | false =>
          simp only [Bool.false_eq_true, if_false, List.length_cons]
          omega

theorem pNext_fails_le (s : PState) (fails : List Bool) : (pNext s fails).2.1.length ≤ fails.length := by
  unfold pNext
  split
  · exact Nat.le_refl _
  · exact go_fails_le _ _ _ _ _

/-- **progress of one call.** While work-groups are outstanding, `Next` returns an invalid
    location only after at least one reservation was refused in this call. -/
theorem pNext_none_refused (l : List WG) (n per : Nat) (hn : 0 < n) (done : Nat → List WG) (s : PState)
    (fails : List Bool) (h : PInv l n per s done) (hnd : s.nd < s.numWG)
    (hres : (pNext s fails).2.2 = none) : (pNext s fails).2.1.length < fails.length := by
  obtain ⟨i, hi, hav⟩ := exists_avail l n per s done h hnd
  obtain ⟨idx, hidx, e⟩ := rr_surj n s.next i hi
  unfold pNext at hres ⊢
  rw [if_neg (by omega)] at hres ⊢
  simp only [h.hcur] at hres ⊢
  exact (go_none l n per hn done n 0 s fails h hres).2 idx (Nat.zero_le _) (by omega) (by rw [e]; exact hav)

/-- every finite outcome stream is outlived: after `outstanding + |stream|` calls all groups are out -/
theorem pRun_complete (l : List WG) (n per : Nat) (hn : 0 < n) : ∀ (k : Nat) (s : PState) (fails : List Bool)
    (done : Nat → List WG), PInv l n per s done → (l.length - s.nd) + fails.length ≤ k →
    l.length ≤ (pRun k s fails).1.nd := by
  intro k
  induction k with
  | zero =>
    intro s fails done h hk
    simp only [pRun]
    omega
  | succ k ih =>
    intro s fails done h hk
    by_cases hfin : l.length ≤ s.nd
    · obtain ⟨_, _, _, _, e⟩ := pRun_inv l n per hn (k + 1) s fails done h
      omega
    · have hstep := pNext_inv l n per hn done s fails h
      have hle := pNext_fails_le s fails
      have hpr := pNext_none_refused l n per hn done s fails h (by rw [h.hnum]; omega)
      unfold pRun
      generalize pNext s fails = r at hstep hle hpr
      obtain ⟨s1, f1, o⟩ := r
      simp only at hle hpr
      rcases hstep with ⟨e, h1, hnd⟩ | ⟨i, wg, j, e, hi, hj, h1, hnd⟩
      · simp only at e h1 hnd
        subst e
        simp only
        have := hpr rfl
        exact ih s1 f1 done h1 (by omega)
      · simp only at e h1 hnd
        subst e
        simp only
        exact ih s1 f1 (bump done j wg) h1 (by omega)

theorem allWGs_nodup (g : Geo) : (allWGs g).Nodup :=
  nodup_map_key _ _ (fun w : WG => lin g w.id) List.nodup_range (fun n _ => lin_coordOf g n)

/-! ## the executable scenario runner `runPart` is `pRun` with printing -/

/-- how `runPart` prints one call of `Next` -/
def renderStep : Option (Nat × WG) → String
  | none => "-"
  | some (i, wg) => s!"{i}:{wgStr wg}"

/-- the calls `runPart` makes: it stops calling once `HasNext` is false -/
def pTrace : Nat → PState → List Bool → List (Option (Nat × WG)) × PState
  | 0, s, _ => ([], s)
  | k + 1, s, f =>
    if s.nd < s.numWG then
      let r := pTrace k (pNext s f).1 (pNext s f).2.1
      ((pNext s f).2.2 :: r.1, r.2)
    else ([], s)

theorem loop_eq : ∀ (k : Nat) (s : PState) (f : List Bool) (acc : Array String),
    (runPart.loop k s f acc).toList = acc.toList ++ (pTrace k s f).1.map renderStep ++
      (if (pTrace k s f).2.nd < (pTrace k s f).2.numWG then ["stuck"] else []) := by
  intro k
  induction k with
  | zero =>
    intro s f acc
    unfold runPart.loop pTrace
    by_cases h : s.nd < s.numWG <;> simp [h]
  | succ k ih =>
    intro s f acc
    unfold runPart.loop pTrace
    by_cases h : s.nd < s.numWG
    · simp only [h, if_true]
      generalize pNext s f = r
      obtain ⟨s1, f1, o⟩ := r
      cases o with
      | none => simp only [ih]; simp [renderStep]
      | some d =>
        obtain ⟨i, wg⟩ := d
        simp only [ih]; simp [renderStep]
    · simp [h]

theorem pRun_done : ∀ (k : Nat) (s : PState) (f : List Bool), ¬ s.nd < s.numWG → pRun k s f = (s, f, []) := by
  intro k
  induction k with
  | zero => intro s f _; rfl
  | succ k ih =>
    intro s f h
    have : pNext s f = (s, f, none) := by unfold pNext; rw [if_pos (by omega)]
    unfold pRun
    rw [this]
    exact ih s f h

theorem pTrace_pRun : ∀ (k : Nat) (s : PState) (f : List Bool),
    (pTrace k s f).1.filterMap id = (pRun k s f).2.2 ∧ (pTrace k s f).2 = (pRun k s f).1 := by
  intro k
  induction k with
  | zero => intro s f; exact ⟨rfl, rfl⟩
  | succ k ih =>
    intro s f
    by_cases h : s.nd < s.numWG
    · unfold pTrace pRun
      simp only [h, if_true]
      generalize pNext s f = r
      obtain ⟨s1, f1, o⟩ := r
      obtain ⟨a, b⟩ := ih s1 f1
      cases o with
      | none => simp only [List.filterMap_cons, id]; exact ⟨a, b⟩
      | some d => simp only [List.filterMap_cons, id]; exact ⟨by rw [a], b⟩
    · rw [pRun_done (k + 1) s f h]
      unfold pTrace
      simp [h]
end C08
