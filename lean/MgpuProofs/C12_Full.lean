import MgpuModel.C12_Full
/-! Helper lemmas for C12.W.Full: the stages of the whole `Driver.Tick` meet the wake hypotheses
    (W1: no progress ⇒ nothing changed; W2: work ⇒ some stage reports progress) on every state whose
    GPU port holds only messages some stage takes; the sleep/wake invariant over both ports. -/
namespace C12
namespace W
namespace Full

/-- a quiet `Tick`, for stages that are silent ON THIS STATE: nothing changed, every flag is `false` -/
theorem runStages_quiet_on {D I O : Type} (stages : List (Stage D I O)) (c : Core D I O)
    (hs : ∀ st ∈ stages, (st c).2 = false → (st c).1 = c) (h : (runStages stages c).2 = false) :
    (runStages stages c).1 = c ∧ ∀ st ∈ stages, (st c).2 = false := by
  induction stages with
  | nil => simp [runStages]
  | cons st rest ih =>
    simp only [runStages, Bool.or_eq_false_iff] at h
    have h1 := hs st (by simp) h.1
    rw [h1] at h
    have hrest := ih (fun st' hst' => hs st' (by simp [hst'])) h.2
    refine ⟨?_, ?_⟩
    · simp only [runStages]; rw [h1]; exact hrest.1
    · intro st' hst'
      rcases List.mem_cons.mp hst' with rfl | hm
      · exact h.1
      · exact hrest.2 st' hm

/-- the head of the GPU port is not a `GeneralRsp` to an unknown request -/
def HeadOK (c : C) : Prop := ∀ rest, c.inb ≠ GMsg.foreignGen :: rest

theorem headOK_of_clean {c : C} (h : Clean c) : HeadOK c := by
  intro rest he
  have := h .foreignGen (by rw [he]; simp)
  simp [GMsg.known] at this

/-! ### (W1) per stage -/

theorem sendToGPUs_silent (k : Caps) (c : C) (h : (sendToGPUs k c).2 = false) : (sendToGPUs k c).1 = c := by
  unfold sendToGPUs at h ⊢
  split
  · rfl
  · rename_i x rest hts
    simp only [hts] at h
    split
    · rename_i hlt; simp [hlt] at h
    · rfl

theorem sendToMMU_silent (k : Caps) (c : C) (h : (sendToMMU k c).2 = false) : (sendToMMU k c).1 = c := by
  unfold sendToMMU at h ⊢
  split
  · rename_i ht
    simp only [ht, if_true] at h
    split
    · rename_i hlt; simp [hlt] at h
    · rfl
  · rfl

theorem sendMig_silent (k : Caps) (c : C) (h : (sendMigrationReqToCP k c).2 = false) : (sendMigrationReqToCP k c).1 = c := by
  unfold sendMigrationReqToCP at h ⊢
  split
  · rfl
  · rename_i n hn
    simp only [hn] at h
    split
    · rfl
    · rename_i hm
      simp only [hm] at h
      split
      · rename_i hlt; simp [hlt] at h
      · rfl

theorem delay_silent (d : D) (h : (delay d).2 = false) : (delay d).1 = d := by
  unfold delay at h ⊢
  split
  · rename_i k hk; simp [hk] at h
  · rename_i hk; simp [hk] at h
  · rfl

theorem mwTick_silent (c : C) (hok : HeadOK c) (h : (mwTick c).2 = false) : (mwTick c).1 = c := by
  obtain ⟨d, inb, outb⟩ := c
  unfold mwTick at h ⊢
  cases inb with
  | nil => simp only at h ⊢; rw [delay_silent _ h]
  | cons m rest =>
    cases m with
    | genRsp q => simp at h
    | foreignGen => exact absurd rfl (hok rest)
    | kernRsp q => simp only at h ⊢; rw [delay_silent _ h]
    | drainRsp => simp only at h ⊢; rw [delay_silent _ h]
    | shootRsp => simp only at h ⊢; rw [delay_silent _ h]
    | migRsp => simp only at h ⊢; rw [delay_silent _ h]
    | restartRsp => simp only at h ⊢; rw [delay_silent _ h]
    | rdmaRsp => simp only at h ⊢; rw [delay_silent _ h]
    | foreign => simp only at h ⊢; rw [delay_silent _ h]

theorem processReturnReq_silent (c : C) (h : (processReturnReq c).2 = false) : (processReturnReq c).1 = c := by
  unfold processReturnReq at h ⊢
  cases hin : c.inb with
  | nil => rfl
  | cons m rest =>
    simp only [hin] at h ⊢
    cases m <;> first | rfl | (simp at h)

theorem procQ_cases (d : D) (i : Nat) (q : Q) : procQ d i q = (q, {}, false) ∨ (procQ d i q).2.2 = true := by
  unfold procQ
  cases q.cmds with
  | nil => left; rfl
  | cons c cs =>
    cases q.running with
    | true => left; rfl
    | false =>
      cases c with
      | noop => right; rfl
      | kern n => cases n <;> (right; rfl)
      | copy d2h p =>
        right
        simp only [Bool.false_eq_true, if_false]
        split <;> split <;> rfl
      | mcopy => right; rfl
      | fl => right; simp only [Bool.false_eq_true, if_false]; split <;> rfl
      | unhandled => left; rfl

theorem procQ_silent (d : D) (i : Nat) (q : Q) (h : (procQ d i q).2.2 = false) :
    (procQ d i q).1 = q ∧ applyStarted d q.ctx (procQ d i q).2.1 = d := by
  rcases procQ_cases d i q with he | ht
  · rw [he]; exact ⟨rfl, by simp [applyStarted]⟩
  · rw [ht] at h; cases h

theorem procAll_silent (d : D) (i : Nat) (qs : List Q) (h : (procAll d i qs).2.2 = false) :
    (procAll d i qs).1 = d ∧ (procAll d i qs).2.1 = qs := by
  induction qs generalizing d i with
  | nil => simp [procAll]
  | cons q rest ih =>
    simp only [procAll, Bool.or_eq_false_iff] at h
    have h1 := procQ_silent d i q h.1
    rw [h1.2] at h
    have h2 := ih d (i + 1) h.2
    simp only [procAll, h1.1, h1.2, h2.1, h2.2, and_self]

theorem processNewCommand_silent (c : C) (h : (processNewCommand c).2 = false) : (processNewCommand c).1 = c := by
  unfold processNewCommand at h ⊢
  simp only at h
  have := procAll_silent c.d 0 c.d.qs h
  simp only [this.1, this.2]

theorem parseFromMMU_silent (c : C) (h : (parseFromMMU c).2 = false) : (parseFromMMU c).1 = c := by
  unfold parseFromMMU at h ⊢
  cases hh : c.d.handling with
  | true => simp
  | false =>
    cases hm : c.d.mIn with
    | nil => simp
    | cons r rest => simp [hh, hm] at h

theorem stages_silent (k : Caps) (c : C) (hok : HeadOK c) :
    ∀ st ∈ stages k, (st c).2 = false → (st c).1 = c := by
  intro st hst
  simp only [stages, List.mem_cons, List.mem_nil_iff, or_false] at hst
  rcases hst with rfl | rfl | rfl | rfl | rfl | rfl | rfl
  · exact sendToGPUs_silent k c
  · exact sendToMMU_silent k c
  · exact sendMig_silent k c
  · exact mwTick_silent c hok
  · exact processReturnReq_silent c
  · exact processNewCommand_silent c
  · exact parseFromMMU_silent c

/-! ### (W2) every piece of work is claimed -/

theorem procQ_claims (d : D) (i : Nat) (q : Q) (h : startable q) : (procQ d i q).2.2 = true := by
  obtain ⟨hr, c, cs, hc, hh⟩ := h
  rcases procQ_cases d i q with he | ht
  · exfalso
    unfold procQ at he
    simp only [hc, hr, Bool.false_eq_true, if_false] at he
    cases c with
    | noop => simp at he
    | kern n => cases n <;> simp at he
    | copy d2h p => simp only at he; split at he <;> split at he <;> simp at he
    | mcopy => simp at he
    | fl => simp only at he; split at he <;> simp at he
    | unhandled => simp [Cmd.handled] at hh
  · exact ht

theorem procAll_claims (d : D) (i : Nat) (qs : List Q) (h : ∃ q ∈ qs, startable q) : (procAll d i qs).2.2 = true := by
  induction qs generalizing d i with
  | nil => obtain ⟨q, hq, _⟩ := h; cases hq
  | cons q rest ih =>
    obtain ⟨x, hx, hs⟩ := h
    simp only [procAll, Bool.or_eq_true]
    rcases List.mem_cons.mp hx with rfl | hm
    · exact Or.inl (procQ_claims d i x hs)
    · exact Or.inr (ih _ (i + 1) ⟨x, hm, hs⟩)

theorem delay_claims (d : D) (h : d.cyc ≠ none) : (delay d).2 = true := by
  unfold delay
  split
  · rfl
  · rfl
  · rename_i hn; exact absurd hn h

theorem claims (k : Caps) (c : C) (hcl : Clean c) (hw : work k c) : ∃ st ∈ stages k, (st c).2 = true := by
  rcases hw with hin | hm | hstart | hsend | hcyc | hmmu | hcp
  · cases h : c.inb with
    | nil => exact absurd h hin
    | cons m rest =>
      have hk := hcl m (by rw [h]; simp)
      cases m with
      | genRsp q => exact ⟨mwTick, by simp [stages], by unfold mwTick; simp [h]⟩
      | foreignGen => simp [GMsg.known] at hk
      | foreign => simp [GMsg.known] at hk
      | kernRsp q => exact ⟨processReturnReq, by simp [stages], by unfold processReturnReq; simp [h]⟩
      | drainRsp => exact ⟨processReturnReq, by simp [stages], by unfold processReturnReq; simp [h]⟩
      | shootRsp => exact ⟨processReturnReq, by simp [stages], by unfold processReturnReq; simp [h]⟩
      | migRsp => exact ⟨processReturnReq, by simp [stages], by unfold processReturnReq; simp [h]⟩
      | restartRsp => exact ⟨processReturnReq, by simp [stages], by unfold processReturnReq; simp [h]⟩
      | rdmaRsp => exact ⟨processReturnReq, by simp [stages], by unfold processReturnReq; simp [h]⟩
  · refine ⟨parseFromMMU, by simp [stages], ?_⟩
    unfold parseFromMMU
    cases h : c.d.mIn with
    | nil => exact absurd h hm.1
    | cons r rest => simp [hm.2]
  · exact ⟨processNewCommand, by simp [stages], procAll_claims c.d 0 c.d.qs hstart⟩
  · refine ⟨sendToGPUs k, by simp [stages], ?_⟩
    unfold sendToGPUs
    cases h : c.d.toSend with
    | nil => exact absurd h hsend.1
    | cons x rest => simp [hsend.2]
  · refine ⟨mwTick, by simp [stages], ?_⟩
    have hd := delay_claims c.d hcyc.1
    clear hcyc
    unfold mwTick
    cases h : c.inb with
    | nil => simp [hd]
    | cons m rest =>
      have hk := hcl m (by rw [h]; simp)
      cases m <;> first | (simp [GMsg.known] at hk; done) | simp [hd] | simp
  · refine ⟨sendToMMU k, by simp [stages], ?_⟩
    unfold sendToMMU
    simp [hmmu.1, hmmu.2]
  · refine ⟨sendMigrationReqToCP k, by simp [stages], ?_⟩
    unfold sendMigrationReqToCP
    cases h : c.d.migToCP with
    | zero => exact absurd h hcp.1
    | succ n => simp [hcp.2.1, hcp.2.2]

/-- **Quiet-tick rule.** A `Tick` that reports no progress (on a state whose GPU port holds only
    messages some stage takes) has changed nothing and leaves no work. -/
theorem quiet_tick (k : Caps) (c : C) (hcl : Clean c) (h : (tick k c).2 = false) :
    (tick k c).1 = c ∧ ¬ work k c := by
  obtain ⟨heq, hall⟩ := runStages_quiet_on (stages k) c (stages_silent k c (headOK_of_clean hcl)) h
  refine ⟨heq, fun hw => ?_⟩
  obtain ⟨st, hst, hp⟩ := claims k c hcl hw
  rw [hall st hst] at hp; cases hp

/-! ### the stages only take messages from the head of the GPU port -/

theorem stage_inb (k : Caps) (c : C) : ∀ st ∈ stages k, (st c).1.inb = c.inb ∨ (st c).1.inb = c.inb.tail := by
  intro st hst
  simp only [stages, List.mem_cons, List.mem_nil_iff, or_false] at hst
  obtain ⟨d, inb, outb⟩ := c
  rcases hst with rfl | rfl | rfl | rfl | rfl | rfl | rfl
  · left; unfold sendToGPUs; split
    · rfl
    · split <;> rfl
  · left; unfold sendToMMU; split
    · split <;> rfl
    · rfl
  · left; unfold sendMigrationReqToCP; split
    · rfl
    · split
      · rfl
      · split <;> rfl
  · unfold mwTick
    cases inb with
    | nil => left; rfl
    | cons m rest => cases m <;> simp
  · unfold processReturnReq
    cases inb with
    | nil => left; rfl
    | cons m rest => cases m <;> simp
  · left; rfl
  · left; unfold parseFromMMU; split
    · rfl
    · split <;> rfl

theorem clean_tail {c : C} {l : List GMsg} (h : Clean c) (hl : l = c.inb ∨ l = c.inb.tail) : ∀ m ∈ l, m.known = true := by
  intro m hm
  rcases hl with rfl | rfl
  · exact h m hm
  · exact h m (List.mem_of_mem_tail hm)

theorem runStages_clean (k : Caps) (l : List (Stage D GMsg GReq)) (hl : ∀ st ∈ l, st ∈ stages k) (c : C) (h : Clean c) :
    Clean (runStages l c).1 := by
  induction l generalizing c with
  | nil => exact h
  | cons st rest ih =>
    simp only [runStages]
    apply ih (fun st' hst' => hl st' (by simp [hst']))
    exact clean_tail h (stage_inb k c st (hl st (by simp)))

theorem tick_clean (k : Caps) (c : C) (h : Clean c) : Clean (tick k c).1 :=
  runStages_clean k (stages k) (fun _ h => h) c h

/-! ### the sleep / wake invariant -/

/-- every message in the port is taken by some stage; work ⇒ a tick is scheduled or a signal is owed -/
def SInv (k : Caps) (s : Sys) : Prop := Clean s.core ∧ (work k s.core → s.awake = true ∨ s.owed = true)

/-- `work` does not look at the GPU port beyond "non-empty", nor at the outgoing buffers beyond "room" -/
theorem work_congr (k : Caps) (c c' : C) (hd : c'.d = c.d) (hin : c'.inb ≠ [] → c.inb ≠ [])
    (hout : c'.outb.length < k.gOut → c.outb.length < k.gOut) (hw : work k c') : work k c := by
  unfold work at hw ⊢
  rw [hd] at hw
  rcases hw with h | h | h | h | h | h | h
  · exact Or.inl (hin h)
  · exact Or.inr (Or.inl h)
  · exact Or.inr (Or.inr (Or.inl h))
  · exact Or.inr (Or.inr (Or.inr (Or.inl ⟨h.1, hout h.2⟩)))
  · exact Or.inr (Or.inr (Or.inr (Or.inr (Or.inl h))))
  · exact Or.inr (Or.inr (Or.inr (Or.inr (Or.inr (Or.inl h)))))
  · exact Or.inr (Or.inr (Or.inr (Or.inr (Or.inr (Or.inr ⟨h.1, h.2.1, hout h.2.2⟩)))))

theorem sinv_deliverG (k : Caps) (s : Sys) (m : GMsg) (hm : m.known = true) (h : SInv k s) : SInv k (deliverG k s m) := by
  unfold deliverG
  split
  · refine ⟨?_, ?_⟩
    · intro x hx
      simp only [List.mem_append, List.mem_singleton] at hx
      rcases hx with hx | rfl
      · exact h.1 x hx
      · exact hm
    · intro _
      cases hin : s.core.inb with
      | nil => left; simp
      | cons x t =>
        rcases h.2 (Or.inl (by simp [hin])) with ha | ho
        · left; simp [ha]
        · right; exact ho
  · exact h

theorem known_answer (x : GReq) : x.answer.known = true := by cases x <;> rfl

theorem sinv_step (k : Caps) (s : Sys) (ev : Ev) (hl : ev.legit = true) (h : SInv k s) : SInv k (step k s ev) := by
  cases ev with
  | retrieveG =>
    simp only [step]
    split
    · exact h
    · rename_i x rest hout
      refine ⟨h.1, ?_⟩
      intro hw
      by_cases hfull : s.core.outb.length = k.gOut
      · left; simp [hfull]
      · have hw' : work k s.core := by
          refine work_congr k s.core { s.core with outb := rest } rfl (fun h => h) ?_ hw
          simp only [hout, List.length_cons] at hfull ⊢
          intro _; omega
        rcases h.2 hw' with ha | ho
        · left; simp [ha]
        · right; exact ho
  | answer j =>
    simp only [step]
    split
    · exact h
    · split
      · exact sinv_deliverG k _ _ (known_answer _) h
      · exact h
  | inject m => simp [Ev.legit] at hl
  | deliverM r =>
    simp only [step]
    split
    · refine ⟨h.1, ?_⟩
      intro hw
      cases hin : s.core.d.mIn with
      | nil => left; simp
      | cons x t =>
        have hw' : work k s.core := by
          unfold work at hw ⊢
          simp only at hw
          rcases hw with h1 | h1 | h1 | h1 | h1 | h1 | h1
          · exact Or.inl h1
          · exact Or.inr (Or.inl ⟨by simp [hin], h1.2⟩)
          · exact Or.inr (Or.inr (Or.inl h1))
          · exact Or.inr (Or.inr (Or.inr (Or.inl h1)))
          · exact Or.inr (Or.inr (Or.inr (Or.inr (Or.inl h1))))
          · exact Or.inr (Or.inr (Or.inr (Or.inr (Or.inr (Or.inl h1)))))
          · exact Or.inr (Or.inr (Or.inr (Or.inr (Or.inr (Or.inr h1)))))
        rcases h.2 hw' with ha | ho
        · left; simp [ha]
        · right; exact ho
    · exact h
  | retrieveM =>
    simp only [step]
    split
    · exact h
    · rename_i n hn
      refine ⟨h.1, ?_⟩
      intro hw
      by_cases hfull : n + 1 = k.mOut
      · left; simp [hfull]
      · have hw' : work k s.core := by
          unfold work at hw ⊢
          simp only at hw
          rcases hw with h1 | h1 | h1 | h1 | h1 | h1 | h1
          · exact Or.inl h1
          · exact Or.inr (Or.inl h1)
          · exact Or.inr (Or.inr (Or.inl h1))
          · exact Or.inr (Or.inr (Or.inr (Or.inl h1)))
          · exact Or.inr (Or.inr (Or.inr (Or.inr (Or.inl h1))))
          · exact Or.inr (Or.inr (Or.inr (Or.inr (Or.inr (Or.inl ⟨h1.1, by omega⟩)))))
          · exact Or.inr (Or.inr (Or.inr (Or.inr (Or.inr (Or.inr h1)))))
        rcases h.2 hw' with ha | ho
        · left; simp [ha]
        · right; exact ho
  | enq i c => exact ⟨h.1, fun _ => Or.inr rfl⟩
  | kick => exact ⟨h.1, fun _ => Or.inl rfl⟩
  | tick =>
    simp only [step]
    split
    · refine ⟨tick_clean k _ h.1, ?_⟩
      intro hw
      cases hp : (tick k s.core).2 with
      | true => left; rfl
      | false =>
        exfalso
        obtain ⟨heq, hnw⟩ := quiet_tick k s.core h.1 hp
        simp only [heq] at hw
        exact hnw hw
    · exact h

theorem sinv_run (k : Caps) (evs : List Ev) (s : Sys) (hl : ∀ ev ∈ evs, ev.legit = true) (h : SInv k s) :
    SInv k (run k s evs) := by
  induction evs generalizing s with
  | nil => exact h
  | cons ev evs ih =>
    exact ih _ (fun e he => hl e (by simp [he])) (sinv_step k s ev (hl ev (by simp)) h)

theorem sinv_init (k : Caps) (cfg : Cfg) : SInv k (init cfg) := by
  refine ⟨by intro m hm; simp [init] at hm, ?_⟩
  intro hw
  exfalso
  unfold work at hw
  simp only [init, initD] at hw
  rcases hw with h | h | ⟨q, hq, hs⟩ | h | h | h | h
  · exact h rfl
  · exact h.1 rfl
  · simp only [List.mem_map] at hq
    obtain ⟨c, _, rfl⟩ := hq
    obtain ⟨_, c', cs, hc, _⟩ := hs
    cases hc
  · exact h.1 rfl
  · exact h.2 rfl
  · cases h.1
  · exact h.1 rfl

end Full
end W
end C12
