import MgpuProofs.C01State
import MgpuProofs.C01Step
import MgpuProofs.C01Valu
/-! # C01 — only DS instructions touch the LDS, and DS instructions do not touch global memory

The per-class step lemmas of `C01Insts.lean` describe the state after a step through `View`, which has no LDS
component, and hide the state itself.  `step_lds_frame` makes all of them usable in LDS-aware symbolic execution:
for EVERY instruction whose encoding is not DS (bits 31..26 ≠ 0x36) — scalar, SMEM, FLAT, every VALU form,
`S_BARRIER`, `S_ENDPGM` — the LDS association list after `step` is the one before.  `execDS_noMem`: a DS instruction
writes no global-memory cell. -/
set_option linter.unusedSimpArgs false
set_option maxRecDepth 100000
namespace C01
namespace Emu
open C03V

/-- not an LDS cell -/
def noLds (w : Wr) : Bool := match w.1 with | .lds _ => false | _ => true
/-- not a global-memory cell -/
def noMem (w : Wr) : Bool := match w.1 with | .mem _ => false | _ => true

theorem lds_applyWrs_noLds (st : St) (ws : List Wr) (h : ∀ w ∈ ws, noLds w = true) : (applyWrs st ws).lds = st.lds := by
  induction ws generalizing st with
  | nil => rfl
  | cons w ws ih =>
    rw [applyWrs_cons, ih _ (fun x hx => h x (List.mem_cons_of_mem _ hx))]
    have hw := h w (List.mem_cons_self ..)
    obtain ⟨c, x⟩ := w
    cases c <;> simp_all [applyWr, noLds]

theorem mem_applyWrs_noMem (st : St) (ws : List Wr) (h : ∀ w ∈ ws, noMem w = true) : (applyWrs st ws).mem = st.mem := by
  induction ws generalizing st with
  | nil => rfl
  | cons w ws ih =>
    rw [applyWrs_cons, ih _ (fun x hx => h x (List.mem_cons_of_mem _ hx))]
    have hw := h w (List.mem_cons_self ..)
    obtain ⟨c, x⟩ := w
    cases c <;> simp_all [applyWr, noMem]

/-! ## the write lists of the specification, class by class -/

theorem wrS32_noLds (st : St) (code x : Nat) : ∀ w ∈ wrS32 st code x, noLds w = true := by
  intro w hw
  unfold wrS32 at hw
  repeat' split at hw
  all_goals (simp only [List.mem_cons, List.mem_nil_iff, or_false] at hw; subst hw; rfl)

theorem wrVN_noLds (r l n x : Nat) : ∀ w ∈ wrVN r l n x, noLds w = true := by
  intro w hw
  unfold wrVN at hw
  obtain ⟨i, _, rfl⟩ := List.mem_map.mp hw
  rfl

theorem wrV_noLds (r l wd x : Nat) : ∀ w ∈ wrV r l wd x, noLds w = true := by
  intro w hw
  unfold wrV at hw
  split at hw
  all_goals (simp only [List.mem_cons, List.mem_nil_iff, or_false] at hw; rcases hw with rfl | rfl <;> rfl)

theorem wrMask_noLds (code x : Nat) : ∀ w ∈ wrMask code x, noLds w = true := by
  intro w hw
  unfold wrMask at hw
  repeat' split at hw
  all_goals (simp only [List.mem_cons, List.mem_nil_iff, or_false] at hw; rcases hw with rfl | rfl <;> rfl)

theorem wrMemBytes_noLds (a n x : Nat) : ∀ w ∈ wrMemBytes a n x, noLds w = true := by
  intro w hw
  unfold wrMemBytes at hw
  obtain ⟨p, _, rfl⟩ := List.mem_map.mp hw
  rfl

theorem wrLdsBytes_noMem (a n x : Nat) : ∀ w ∈ wrLdsBytes a n x, noMem w = true := by
  intro w hw
  unfold wrLdsBytes at hw
  obtain ⟨p, _, rfl⟩ := List.mem_map.mp hw
  rfl

theorem wrVN_noMem (r l n x : Nat) : ∀ w ∈ wrVN r l n x, noMem w = true := by
  intro w hw
  unfold wrVN at hw
  obtain ⟨i, _, rfl⟩ := List.mem_map.mp hw
  rfl

theorem all_flatMap {α : Type} (p : Wr → Bool) (l : List α) (f : α → List Wr) (h : ∀ x ∈ l, ∀ w ∈ f x, p w = true) :
    ∀ w ∈ l.flatMap f, p w = true := by
  intro w hw
  obtain ⟨x, hx, hwx⟩ := List.mem_flatMap.mp hw
  exact h x hx w hwx

theorem all_append (p : Wr → Bool) (a b : List Wr) (ha : ∀ w ∈ a, p w = true) (hb : ∀ w ∈ b, p w = true) :
    ∀ w ∈ a ++ b, p w = true := by
  intro w hw
  rcases List.mem_append.mp hw with h | h
  · exact ha w h
  · exact hb w h

/-- one lane of a VALU instruction writes VGPR cells only (the pair destructuring inside `laneStep` reduces by
    structure eta, whatever the op kind) -/
theorem laneStep_noLds (st : St) (e : VEnc) (acc : List Wr × Nat) (lane : Nat) (h : ∀ w ∈ acc.1, noLds w = true) :
    ∀ w ∈ (laneStep st e acc lane).1, noLds w = true := by
  by_cases hb : (!st.exec.testBit lane) = true
  · have : laneStep st e acc lane = acc := by
      show (if (!st.exec.testBit lane) = true then acc else _) = acc
      rw [if_pos hb]
    rw [this]; exact h
  · have : ∃ d, (laneStep st e acc lane).1 = acc.1 ++
        (if e.op.kind == .cmp then [] else if e.op.kind == .movrel then
          [(Cell.v ((e.vdst + st.m0) % 256) lane, st.rv ((e.src0 - 256 + st.m0) % 256) lane)]
          else wrV e.vdst lane e.op.wd d) := by
      refine ⟨?d, ?_⟩
      rotate_left
      · show (if (!st.exec.testBit lane) = true then acc else _).1 = _
        rw [if_neg hb]
    obtain ⟨d, hd⟩ := this
    rw [hd]
    intro w hw
    rcases List.mem_append.mp hw with hw | hw
    · exact h w hw
    · split at hw
      · cases hw
      · split at hw
        · simp only [List.mem_cons, List.mem_nil_iff, or_false] at hw
          subst hw
          rfl
        · exact wrV_noLds _ _ _ _ w hw

theorem foldl_laneStep_noLds (st : St) (e : VEnc) (l : List Nat) (acc : List Wr × Nat) (h : ∀ w ∈ acc.1, noLds w = true) :
    ∀ w ∈ (l.foldl (laneStep st e) acc).1, noLds w = true := by
  induction l generalizing acc with
  | nil => exact h
  | cons x xs ih => exact ih _ (laneStep_noLds st e acc x h)

theorem execVALU_noLds (st : St) (e : VEnc) : ∀ w ∈ execVALU st e, noLds w = true := by
  by_cases hk : (e.op.kind == .rfl) = true
  · unfold execVALU
    simp only [hk, if_true]
    exact wrS32_noLds _ _ _
  · have hk' : (e.op.kind == .rfl) = false := by simpa using hk
    rw [execVALU_unfold st e hk']
    have hf := foldl_laneStep_noLds st e (List.range 64) ([], 0) (fun _ h => by cases h)
    split
    · exact all_append _ _ _ hf (wrMask_noLds _ _)
    · exact all_append _ _ _ hf (wrMask_noLds _ _)
    · exact all_append _ _ _ hf (wrMask_noLds _ _)
    · exact hf

theorem execSMEM_noLds (cdna3 : Bool) (st : St) (w0 w1 : Nat) (name : String) (ws : List Wr)
    (h : execSMEM cdna3 st w0 w1 = some (name, ws)) : ∀ w ∈ ws, noLds w = true := by
  unfold execSMEM at h
  simp only at h
  split at h
  · cases h
  · simp only [Option.some.injEq, Prod.mk.injEq] at h
    rw [← h.2]
    exact all_flatMap _ _ _ (fun i _ => wrS32_noLds _ _ _)

theorem execFLAT_noLds (cdna3 : Bool) (st : St) (w0 w1 : Nat) (name : String) (ws : List Wr)
    (h : execFLAT cdna3 st w0 w1 = some (name, ws)) : ∀ w ∈ ws, noLds w = true := by
  unfold execFLAT at h
  simp only at h
  split at h
  all_goals first
    | (simp only [Option.some.injEq, Prod.mk.injEq] at h
       rw [← h.2]
       apply all_flatMap
       intro l _ w hw
       first
         | exact wrMemBytes_noLds _ _ _ w hw
         | (split at hw <;> exact wrVN_noLds _ _ _ _ w hw))
    | cases h

/-- what a non-DS encoding writes: no LDS cell -/
theorem exec_noLds (cdna3 : Bool) (st : St) (bs : List Nat) (name : String) (ws : List Wr)
    (hnd : field (leWord bs 0) 26 31 ≠ 0x36) (h : exec cdna3 st bs = some (name, ws)) : ∀ w ∈ ws, noLds w = true := by
  unfold exec at h
  simp only at h
  split at h
  · exact execSMEM_noLds _ _ _ _ _ _ h
  · split at h
    · exact execFLAT_noLds _ _ _ _ _ _ h
    · split at h
      · rename_i h36
        exact absurd (by simpa using h36) hnd
      · cases hd : decodeVALU cdna3 (leWord bs 0) (leWord bs 1) with
        | none => rw [hd] at h; cases h
        | some e =>
          rw [hd] at h
          simp only [Option.map_some, Option.some.injEq, Prod.mk.injEq] at h
          rw [← h.2]
          exact execVALU_noLds st e

/-- what a DS instruction writes: no global-memory cell -/
theorem execDS_noMem (st : St) (w0 w1 : Nat) (name : String) (ws : List Wr)
    (h : execDS st w0 w1 = some (name, ws)) : ∀ w ∈ ws, noMem w = true := by
  unfold execDS at h
  simp only at h
  split at h
  all_goals first
    | (simp only [Option.some.injEq, Prod.mk.injEq] at h
       rw [← h.2]
       apply all_flatMap
       intro l _ w hw
       first
         | exact wrLdsBytes_noMem _ _ _ w hw
         | (rcases List.mem_append.mp hw with hw | hw <;> first | exact wrLdsBytes_noMem _ _ _ w hw | exact wrVN_noMem _ _ _ _ w hw)
         | (split at hw <;> exact wrVN_noMem _ _ _ _ w hw))
    | cases h

/-- **only DS instructions touch the LDS**: a step on a decoded non-DS instruction (any class) keeps `st.lds` -/
theorem step_lds_frame (P : Program) (hP : P.cdna3 = false) (base k : Nat) (st st' : St) (c : Ctl) (hpc : st.pc = base + k)
    (ft op sz : Nat) (hd : DecV ((P.code.drop k).take 8) ft op sz)
    (hnd : field (leWord (((P.code.drop k).take 8).take sz) 0) 26 31 ≠ 0x36)
    (h : step P base st = .ok (st', c)) : st'.lds = st.lds := by
  obtain ⟨i, hdec, hift, hiop, hisz⟩ := hd
  unfold step at h
  rw [hpc, if_neg (by omega), fetch_at, hP] at h
  simp only [hdec] at h
  simp only [hisz] at h
  split at h
  · cases h; rfl
  · split at h
    · cases h; rfl
    · split at h
      · cases hs : execScalar { st with pc := base + k + sz } i with
        | none => rw [hs] at h; cases h
        | some st2 =>
          rw [hs] at h
          cases h
          unfold execScalar at hs
          simp only at hs
          split at hs
          · cases hs
          · rename_i sem _
            cases he : C03S.execute sem (toDInst i) (toM { st with pc := base + k + sz }) with
            | none => rw [he] at hs; cases hs
            | some m' =>
              rw [he] at hs
              simp only [Option.map_some, Option.some.injEq] at hs
              rw [← hs]
              rfl
      · cases hx : exec false { st with pc := base + k + sz } (((P.code.drop k).take 8).take sz) with
        | none => rw [hx] at h; cases h
        | some r =>
          obtain ⟨name, ws⟩ := r
          rw [hx] at h
          cases h
          exact lds_applyWrs_noLds _ _ (exec_noLds _ _ _ _ _ hnd hx)

end Emu
end C01
