import MgpuModel.Gen.Hsaco
import MgpuModel.C13Bits
/-!
# C13 — the hand-written parsers against the tables regenerated from hsaco.go

`MgpuModel/Gen/Hsaco.lean` is rewritten by `translate -only hsaco` from the Go source on
every `./check C13`.  The obligations below say that the parsers the driver runs
(`parseV2V3Header`, `isV2V3Header`, `parseV5KernelDescriptor`, `fixRsrc2`, the accessors)
are what table-driven interpreters compute from those tables, for every byte string.
A changed offset, width, bit number, constant or a new/removed read in hsaco.go changes
the generated file and breaks one of these proofs (in addition to the correspondence).
-/
namespace C13

/-- little-endian read of `n` bytes at `off` -/
def readLE (d : Bytes) (off : Nat) : Nat → Nat
  | 0 => 0
  | n + 1 => byteAt d off + 256 * readLE d (off + 1) n

/-- Go field name → model field (numeric fields of `KernelCodeObjectMeta`) -/
def setField (m : Meta) (f : String) (v : Nat) : Meta :=
  if f = "ComputePgmRsrc1" then { m with rsrc1 := v }
  else if f = "ComputePgmRsrc2" then { m with rsrc2 := v }
  else if f = "ComputePgmRsrc3" then { m with rsrc3 := v }
  else if f = "KernargSegmentByteSize" then { m with kernarg := v }
  else if f = "GroupSegmentByteSize" then { m with lds := v }
  else if f = "PrivateSegmentByteSize" then { m with priv := v }
  else if f = "KernelCodeEntryByteOffset" then { m with entry := v }
  else if f = "CodeVersionMajor" then { m with cvMajor := v }
  else if f = "CodeVersionMinor" then { m with cvMinor := v }
  else if f = "MachineKind" then { m with machineKind := v }
  else if f = "MachineVersionMajor" then { m with mvMajor := v }
  else if f = "MachineVersionMinor" then { m with mvMinor := v }
  else if f = "MachineVersionStepping" then { m with mvStepping := v }
  else if f = "WFSgprCount" then { m with wfSgpr := v }
  else if f = "WIVgprCount" then { m with wiVgpr := v }
  else m

def getField (m : Meta) (f : String) : Nat :=
  if f = "ComputePgmRsrc1" then m.rsrc1
  else if f = "ComputePgmRsrc2" then m.rsrc2
  else if f = "ComputePgmRsrc3" then m.rsrc3
  else if f = "KernargSegmentByteSize" then m.kernarg
  else 0

/-- Go field name → model field (bool fields) -/
def setFlag (m : Meta) (f : String) (b : Bool) : Meta :=
  if f = "EnableSgprPrivateSegmentBuffer" then { m with enPrivSegBuf := b }
  else if f = "EnableSgprDispatchPtr" then { m with enDispatchPtr := b }
  else if f = "EnableSgprQueuePtr" then { m with enQueuePtr := b }
  else if f = "EnableSgprKernargSegmentPtr" then { m with enKernargPtr := b }
  else if f = "EnableSgprDispatchID" then { m with enDispatchID := b }
  else if f = "EnableSgprFlatScratchInit" then { m with enFlatScratch := b }
  else if f = "EnableSgprPrivateSegmentSize" then { m with enPrivSegSize := b }
  else if f = "EnableSgprGridWorkgroupCountX" then { m with enGridX := b }
  else if f = "EnableSgprGridWorkgroupCountY" then { m with enGridY := b }
  else if f = "EnableSgprGridWorkgroupCountZ" then { m with enGridZ := b }
  else m

/-- `parseV2V3Header`, interpreted from the generated tables -/
def parseHdrByTable (reads : List (String × Nat × Nat)) (fr : Nat × Nat) (bits : List (String × Nat)) (d : Bytes) : Meta :=
  let m := reads.foldl (fun m r => setField m r.1 (readLE d r.2.1 r.2.2)) {}
  let fl := readLE d fr.1 fr.2
  bits.foldl (fun m r => setFlag m r.1 (testBit fl r.2)) m

theorem readLE_2 (d : Bytes) (o : Nat) : readLE d o 2 = u16 d o := by
  simp only [readLE, u16]; omega
theorem readLE_4 (d : Bytes) (o : Nat) : readLE d o 4 = u32 d o := by
  simp only [readLE, u32, Nat.add_assoc, Nat.reduceAdd]; omega
theorem readLE_8 (d : Bytes) (o : Nat) : readLE d o 8 = u64 d o := by
  simp only [readLE, u64, u32, Nat.add_assoc, Nat.reduceAdd]; omega

/-- **obligation**: the header parser of the model is the one hsaco.go spells out -/
theorem parseV2V3Header_from_source (d : Bytes) :
    parseHdrByTable Gen.Hsaco.hdrReads Gen.Hsaco.hdrFlagsRead Gen.Hsaco.hdrFlagBits d = parseV2V3Header d := by
  simp only [parseHdrByTable, Gen.Hsaco.hdrReads, Gen.Hsaco.hdrFlagsRead, Gen.Hsaco.hdrFlagBits, List.foldl_cons,
    List.foldl_nil, setField, setFlag, String.reduceEq, if_true, if_false, readLE_2, readLE_4, readLE_8]
  rfl

/-- one reject condition of `isV2V3Header` -/
def rejects (d : Bytes) (c : Nat × Nat × String × Nat) : Bool :=
  let v := readLE d c.1 c.2.1
  if c.2.2.1 = "ne" then v != c.2.2.2
  else if c.2.2.1 = "gt" then decide (v > c.2.2.2)
  else if c.2.2.1 = "lt" then decide (v < c.2.2.2)
  else true

def isHdrByTable (minLen : Nat) (checks : List (Nat × Nat × String × Nat)) (d : Bytes) : Bool :=
  if d.length < minLen then false else !(checks.any (rejects d))

/-- **obligation**: the header test of the model is the one hsaco.go spells out -/
theorem isV2V3Header_from_source (d : Bytes) :
    isHdrByTable Gen.Hsaco.isHdrMinLen Gen.Hsaco.isHdrRejects d = isV2V3Header d := by
  simp only [isHdrByTable, Gen.Hsaco.isHdrMinLen, Gen.Hsaco.isHdrRejects, List.any_cons, List.any_nil, rejects,
    String.reduceEq, if_true, if_false, readLE_2, readLE_4, readLE_8, isV2V3Header]
  by_cases h0 : d.length < 256
  · simp [h0]
  · simp only [h0, if_false]
    by_cases h1 : u32 d 0 = 1 <;> by_cases h2 : u32 d 4 > 2 <;> by_cases h3 : u16 d 8 = 1 <;>
      by_cases h4 : u16 d 10 < 7 <;> by_cases h5 : u16 d 10 > 9 <;> by_cases h6 : u64 d 16 = 256 <;>
      simp [h1, h2, h3, h4, h5, h6]

/-- **obligation**: the rsrc2 rewriting of the model is the statement block of hsaco.go -/
theorem fixRsrc2_from_source (r : BitVec 32) (b : Bool) : Gen.Hsaco.fixRsrc2 r b = fixRsrc2 r b := rfl

/-- `parseV5KernelDescriptor`, interpreted from the generated tables (statement order of the
source: reads, bit-fields and counts, forced-false enables, kernarg rule, rsrc2 block) -/
def parseKdByTable (reads : List (String × Nat × Nat)) (fields : List (String × String × Nat × Nat))
    (counts : List (String × String × Nat × Nat)) (falses : List String) (pos : String × String)
    (fix : BitVec 32 → Bool → BitVec 32) (d : Bytes) : Meta :=
  let m := reads.foldl (fun m r => setField m r.1 (readLE d r.2.1 r.2.2)) {}
  let localVal := fun (l : String) =>
    match fields.find? (·.1 == l) with
    | some f => extractBits (getField m f.2.1) f.2.2.1 f.2.2.2
    | none => 0
  let m := counts.foldl (fun m c => setField m c.1 (((localVal c.2.1 + c.2.2.1) * c.2.2.2) % 65536)) m
  let m := falses.foldl (fun m f => setFlag m f false) m
  let m := setFlag m pos.1 (decide (getField m pos.2 > 0))
  { m with rsrc2 := (fix (BitVec.ofNat 32 m.rsrc2) m.enKernargPtr).toNat }

/-- **obligation**: the descriptor parser of the model is the one hsaco.go spells out -/
theorem parseV5KernelDescriptor_from_source (d : Bytes) :
    parseKdByTable Gen.Hsaco.kdReads Gen.Hsaco.kdBitfields Gen.Hsaco.kdCounts Gen.Hsaco.kdFalse
      Gen.Hsaco.kdPositiveRule Gen.Hsaco.fixRsrc2 d = parseV5KernelDescriptor d := by
  simp only [parseKdByTable, Gen.Hsaco.kdReads, Gen.Hsaco.kdBitfields, Gen.Hsaco.kdCounts, Gen.Hsaco.kdFalse,
    Gen.Hsaco.kdPositiveRule, List.foldl_cons, List.foldl_nil, setField, setFlag, getField, String.reduceEq, if_true,
    if_false, readLE_4, readLE_8, List.find?_cons, String.reduceBEq, fixRsrc2_from_source]
  rfl

/-- an accessor row evaluated on metadata (bool results as 0/1) -/
def accVal (m : Meta) (r : String × String × Nat × Nat × Bool) : Nat :=
  let v := extractBits (getField m r.2.1) r.2.2.1 r.2.2.2.1
  if r.2.2.2.2 then (if v != 0 then 1 else 0) else v

def b2n (b : Bool) : Nat := if b then 1 else 0

/-- **obligation**: the accessor functions of the model are the methods of hsaco.go -/
theorem accessors_from_source (m : Meta) :
    Gen.Hsaco.accessors.map (fun r => (r.1, accVal m r)) =
      [("WorkItemVgprCount", workItemVgprCount m), ("WavefrontSgprCount", wavefrontSgprCount m),
       ("Priority", priority m), ("EnableSgprPrivateSegmentWaveByteOffset", b2n (enPrivSegWaveByteOffset m)),
       ("UserSgprCount", userSgprCount m), ("EnableSgprWorkGroupIDX", b2n (enWorkGroupIDX m)),
       ("EnableSgprWorkGroupIDY", b2n (enWorkGroupIDY m)), ("EnableSgprWorkGroupIDZ", b2n (enWorkGroupIDZ m)),
       ("EnableSgprWorkGroupInfo", b2n (enWorkGroupInfo m)), ("EnableVgprWorkItemID", enVgprWorkItemID m),
       ("EnableExceptionAddressWatch", b2n (enExceptionAddressWatch m)),
       ("EnableExceptionMemoryViolation", b2n (enExceptionMemoryViolation m))] := by
  rfl

/-- `overrideRegisterCountsFromSymbols`' loop body, interpreted from the generated case table -/
def overrideStepByTable (cases : List (String × String)) (formula : String → Nat → Nat) (k : String) (m : Meta)
    (s : Symbol) : Meta :=
  match cases.find? (fun c => s.name == k ++ c.1) with
  | none => m
  | some c =>
    let v := formula c.2 s.value
    if v > getField16 m c.2 then setField m c.2 v else m
where
  getField16 (m : Meta) (f : String) : Nat :=
    if f = "WFSgprCount" then m.wfSgpr else if f = "WIVgprCount" then m.wiVgpr else 0

def overrideFormula (f : String) (v : Nat) : Nat :=
  if f = "WFSgprCount" then Gen.Hsaco.override_WFSgprCount v
  else if f = "WIVgprCount" then Gen.Hsaco.override_WIVgprCount v else 0

/-- **obligation**: the register-count override of the model (name suffixes, `+2`, round up
to 8 / 4 in uint16 arithmetic, maximum into the right field) is the one hsaco.go spells out -/
theorem overrideStep_from_source (k : String) (m : Meta) (s : Symbol) :
    overrideStepByTable Gen.Hsaco.overrideCases overrideFormula k m s = overrideStep k m s := by
  have e1 : ∀ v, Gen.Hsaco.override_WFSgprCount v = sgprFromSym v := by
    intro v; simp only [Gen.Hsaco.override_WFSgprCount, sgprFromSym]; omega
  have e2 : ∀ v, Gen.Hsaco.override_WIVgprCount v = vgprFromSym v := by
    intro v; simp only [Gen.Hsaco.override_WIVgprCount, vgprFromSym]; omega
  unfold overrideStepByTable overrideStep
  simp only [Gen.Hsaco.overrideCases, List.find?_cons, List.find?_nil]
  cases b1 : (s.name == k ++ ".numbered_sgpr")
  · have h1 : ¬ s.name = k ++ ".numbered_sgpr" := by simpa using b1
    cases b2 : (s.name == k ++ ".num_vgpr")
    · have h2 : ¬ s.name = k ++ ".num_vgpr" := by simpa using b2
      rw [if_neg h1, if_neg h2]
    · have h2 : s.name = k ++ ".num_vgpr" := by simpa using b2
      rw [if_neg h1, if_pos h2]
      show (if overrideFormula "WIVgprCount" s.value > overrideStepByTable.getField16 m "WIVgprCount"
        then setField m "WIVgprCount" (overrideFormula "WIVgprCount" s.value) else m) = _
      have ef : overrideFormula "WIVgprCount" s.value = vgprFromSym s.value := by
        simp only [overrideFormula, String.reduceEq, if_true, if_false, e2]
      have eg : overrideStepByTable.getField16 m "WIVgprCount" = m.wiVgpr := by
        simp only [overrideStepByTable.getField16, String.reduceEq, if_true, if_false]
      have es : ∀ v, setField m "WIVgprCount" v = { m with wiVgpr := v } := by
        intro v; simp only [setField, String.reduceEq, if_true, if_false]
      rw [ef, eg, es]
  · have h1 : s.name = k ++ ".numbered_sgpr" := by simpa using b1
    rw [if_pos h1]
    show (if overrideFormula "WFSgprCount" s.value > overrideStepByTable.getField16 m "WFSgprCount"
      then setField m "WFSgprCount" (overrideFormula "WFSgprCount" s.value) else m) = _
    have ef : overrideFormula "WFSgprCount" s.value = sgprFromSym s.value := by
      simp only [overrideFormula, String.reduceEq, if_true, e1]
    have eg : overrideStepByTable.getField16 m "WFSgprCount" = m.wfSgpr := by
      simp only [overrideStepByTable.getField16, String.reduceEq, if_true]
    have es : ∀ v, setField m "WFSgprCount" v = { m with wfSgpr := v } := by
      intro v; simp only [setField, String.reduceEq, if_true, if_false]
    rw [ef, eg, es]

/-- the widths the typed layer (`HeaderV`, `KdV`) gives the fields of `KernelCodeObjectMeta` -/
def metaWidths : List (String × Nat) :=
  [("ComputePgmRsrc1", 32), ("ComputePgmRsrc2", 32), ("ComputePgmRsrc3", 32), ("KernargSegmentByteSize", 64),
   ("GroupSegmentByteSize", 32), ("PrivateSegmentByteSize", 32), ("KernelCodeEntryByteOffset", 64),
   ("EnableSgprPrivateSegmentBuffer", 1), ("EnableSgprDispatchPtr", 1), ("EnableSgprQueuePtr", 1),
   ("EnableSgprKernargSegmentPtr", 1), ("EnableSgprDispatchID", 1), ("EnableSgprFlatScratchInit", 1),
   ("EnableSgprPrivateSegmentSize", 1), ("EnableSgprGridWorkgroupCountX", 1), ("EnableSgprGridWorkgroupCountY", 1),
   ("EnableSgprGridWorkgroupCountZ", 1), ("CodeVersionMajor", 32), ("CodeVersionMinor", 32), ("MachineKind", 16),
   ("MachineVersionMajor", 16), ("MachineVersionMinor", 16), ("MachineVersionStepping", 16), ("WFSgprCount", 16),
   ("WIVgprCount", 16)]

/-- **obligation**: struct fields and widths, the 256/64 constants, no global state, no goroutine -/
theorem loader_shape_from_source :
    Gen.Hsaco.metaFields = metaWidths ∧ Gen.Hsaco.entireMinLen = 256 ∧ Gen.Hsaco.entireStrip = 256 ∧
    Gen.Hsaco.kdSizes = [64, 64, 64] ∧ Gen.Hsaco.loaderGlobals = [] ∧ Gen.Hsaco.loaderSpawns = false := by
  decide

end C13
