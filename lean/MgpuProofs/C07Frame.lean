import MgpuProofs.Props.C07
set_option linter.unusedVariables false
set_option linter.unusedSimpArgs false
/-! # C07 helper lemmas: the byte-level frame of `CURegFileAccessor.WriteReg`, for EVERY register, count,
lane, offset and data (no side condition), and what it means for a supported access: only bytes of
the writer's own SGPR / VGPR windows change, so every wavefront whose windows share no byte with the
writer's keeps all its cells (`WindowsDisjoint` — weaker than `RegionsDisjoint`: empty windows are
allowed anywhere, which is what the resource allocator really guarantees). -/
namespace C07
open Gen

def TimingRF.setS (t : TimingRF) (f : File) : TimingRF := { t with sfile := f }
def TimingRF.setV (t : TimingRF) (s : Nat) (f : File) : TimingRF := { t with vfiles := t.vfiles.setIfInBounds s f }

/-- what `CURegFileAccessor.WriteReg` can do to the compute unit, for ANY register, count, lane, offset
    and data: nothing, replace the writing wavefront's record, or copy `4·cnt rc` bytes into the scalar
    file / the wavefront's own vector file at `getRegOffset` -/
theorem writeReg_shape (t : TimingRF) (wi r rc lane off : Nat) (d : List UInt8) :
    (t.writeReg wi r rc lane off d).1 = t ∨ (∃ w', (t.writeReg wi r rc lane off d).1 = t.setWf wi w') ∨
    (isSReg r = true ∧ ∃ dd : List UInt8, dd.length = 4 * cnt rc ∧
      (t.writeReg wi r rc lane off d).1 = t.setS (wr t.sfile (regIndex r * 4 + off) dd)) ∨
    (isSReg r = false ∧ isVReg r = true ∧ ∃ dd : List UInt8, dd.length = 4 * cnt rc ∧
      (t.writeReg wi r rc lane off d).1 =
        t.setV (t.wf wi).simd (wr (t.vfileOf (t.wf wi)) (regIndex r * 4 + lane * 1024 + off) dd)) := by
  generalize h : t.writeReg wi r rc lane off d = res
  unfold TimingRF.writeReg at h
  repeat' split at h
  all_goals subst h
  all_goals dsimp only
  all_goals first
    | exact Or.inl rfl
    | exact Or.inr (Or.inl ⟨_, rfl⟩)
    | (cases TimingRF.write64 _ _ _ _ <;> first | exact Or.inl rfl | exact Or.inr (Or.inl ⟨_, rfl⟩))
    | (cases u32 _ <;> first | exact Or.inl rfl | exact Or.inr (Or.inl ⟨_, rfl⟩))
    | skip
  all_goals
    (have hcnt : ((rc == 0) = true → cnt rc = 1) ∧ (¬ (rc == 0) = true → cnt rc = rc) := by
       unfold cnt; by_cases e : rc = 0 <;> simp [e]
     have hc : cnt rc = 1 ∨ cnt rc = rc := by unfold cnt; split <;> simp
     split
     · split
       · exact Or.inl rfl
       · right; right
         by_cases hSS : isSReg r = true
         · first
           | contradiction
           | (left
              refine ⟨hSS, List.take (cnt rc * 4) d, ?_, ?_⟩
              · rw [List.length_take]
                first | (have := hcnt.1 ‹_›; omega) | (have := hcnt.2 ‹_›; omega)
              · first | rw [hcnt.1 ‹_›] | rw [hcnt.2 ‹_›]
                simp only [TimingRF.getRegOffset, hSS, if_true, TimingRF.setS])
         · first
           | contradiction
           | (right
              have hS' : isSReg r = false := by simpa using hSS
              have hV : isVReg r = true := by simpa [hS'] using ‹(isSReg r || isVReg r) = true›
              refine ⟨hS', hV, List.take (cnt rc * 4) d, ?_, ?_⟩
              · rw [List.length_take]
                first | (have := hcnt.1 ‹_›; omega) | (have := hcnt.2 ‹_›; omega)
              · first | rw [hcnt.1 ‹_›] | rw [hcnt.2 ‹_›]
                simp only [TimingRF.getRegOffset, hS', Bool.false_eq_true, if_false, TimingRF.setV, TimingRF.wf, LANE_STRIDE])
     · exact Or.inl rfl)

theorem get_setIfInBounds_file (vf : Array File) (s k : Nat) (f' : File) :
    (vf.setIfInBounds s f').getD k #[] = if k = s ∧ s < vf.size then f' else vf.getD k #[] := by
  simp only [Array.getD_eq_getD_getElem?, Array.getElem?_setIfInBounds]
  by_cases h : s = k
  · subst h; by_cases h2 : s < vf.size <;> simp [h2]
  · have : ¬ k = s := fun e => h e.symm
    simp [h, this]

/-- **byte-level frame of `WriteReg`, unconditional**: a byte of the scalar file changes only if the
    register is an SGPR and the byte lies in `[getRegOffset, +4·cnt)`; a byte of a vector file only if
    the register is a VGPR, the file is the writer's SIMD's and the byte lies in that interval of the
    lane's row; no other wavefront's record changes -/
theorem writeReg_frame (t : TimingRF) (wi r rc lane off : Nat) (d : List UInt8) :
    (∀ p, ¬ (isSReg r = true ∧ regIndex r * 4 + off ≤ p ∧ p < regIndex r * 4 + off + 4 * cnt rc) →
      get (t.writeReg wi r rc lane off d).1.sfile p = get t.sfile p) ∧
    (∀ (x : TWf) p, ¬ (isSReg r = false ∧ isVReg r = true ∧ x.simd = (t.wf wi).simd ∧
        regIndex r * 4 + lane * 1024 + off ≤ p ∧ p < regIndex r * 4 + lane * 1024 + off + 4 * cnt rc) →
      get ((t.writeReg wi r rc lane off d).1.vfileOf x) p = get (t.vfileOf x) p) ∧
    (∀ wj, wj ≠ wi → (t.writeReg wi r rc lane off d).1.wf wj = t.wf wj) := by
  rcases writeReg_shape t wi r rc lane off d with h | ⟨w', h⟩ | ⟨hS, dd, hl, h⟩ | ⟨hS, hV, dd, hl, h⟩
  · rw [h]; exact ⟨fun _ _ => rfl, fun _ _ _ => rfl, fun _ _ => rfl⟩
  · rw [h]; exact ⟨fun _ _ => rfl, fun _ _ _ => rfl, fun wj hne => wf_setWf_other t wi wj w' hne⟩
  · rw [h]
    refine ⟨fun p hp => ?_, fun _ _ _ => rfl, fun _ _ => rfl⟩
    show get (wr t.sfile _ dd) p = _
    apply get_wr_out
    rw [hl]
    by_cases h1 : p < regIndex r * 4 + off
    · exact Or.inl h1
    · right
      by_cases h2 : regIndex r * 4 + off + 4 * cnt rc ≤ p
      · exact h2
      · exact absurd ⟨hS, by omega, by omega⟩ hp
  · rw [h]
    refine ⟨fun _ _ => rfl, fun x p hp => ?_, fun _ _ => rfl⟩
    show get ((t.vfiles.setIfInBounds (t.wf wi).simd _).getD x.simd #[]) p = get (t.vfiles.getD x.simd #[]) p
    rw [get_setIfInBounds_file]
    split
    · rename_i hx
      have e : t.vfiles.getD x.simd #[] = t.vfileOf (t.wf wi) := by simp only [TimingRF.vfileOf, hx.1]
      rw [e]
      apply get_wr_out
      rw [hl]
      by_cases h1 : p < regIndex r * 4 + lane * 1024 + off
      · exact Or.inl h1
      · right
        by_cases h2 : regIndex r * 4 + lane * 1024 + off + 4 * cnt rc ≤ p
        · exact h2
        · exact absurd ⟨hS, hV, hx.1, by omega, by omega⟩ hp
    · rfl

/-- the two wavefronts' register windows share no byte (of the scalar file; of a vector file when they
    sit on the same SIMD). Empty windows (a kernel that uses no SGPRs / VGPRs) are disjoint from
    everything wherever their offset points. -/
def WindowsDisjoint (w w' : TWf) : Prop :=
  (∀ p, ¬ (ownS w p ∧ ownS w' p)) ∧ (w.simd ≠ w'.simd ∨ ∀ p, ¬ (ownV w p ∧ ownV w' p))

theorem RegionsDisjoint.windows {w w' : TWf} (h : RegionsDisjoint w w')
    (hr : w.voff + 4 * w.nv ≤ 1024) (hr' : w'.voff + 4 * w'.nv ≤ 1024) : WindowsDisjoint w w' := by
  obtain ⟨h1, h2⟩ := h
  refine ⟨fun p ⟨a, b⟩ => ?_, ?_⟩
  · unfold ownS at a b; omega
  · rcases h2 with h2 | h2
    · exact Or.inl h2
    · right
      rintro p ⟨⟨l, _, _, a1, a2⟩, ⟨l', _, _, b1, b2⟩⟩
      have : l = l' := by omega
      subst this
      omega

theorem WindowsDisjoint.symm {w w' : TWf} (h : WindowsDisjoint w w') : WindowsDisjoint w' w :=
  ⟨fun p ⟨a, b⟩ => h.1 p ⟨b, a⟩, h.2.elim (fun e => Or.inl (fun e' => e e'.symm)) (fun e => Or.inr fun p ⟨a, b⟩ => e p ⟨b, a⟩)⟩

theorem special_not_sv (k : Kind) (h : ∀ i, k ≠ .s i) (h' : ∀ i, k ≠ .v i) :
    isSReg k.reg = false ∧ isVReg k.reg = false := by
  cases k with
  | s i => exact absurd rfl (h i)
  | v i => exact absurd rfl (h' i)
  | _ => constructor <;> decide

/-- **a supported write touches only bytes of the writer's own windows** (any data, any length) -/
theorem tim_write_only_own (t : TimingRF) (wi : Nat) (a : Acc) (d : List UInt8)
    (hns : (t.wf wi).ns ≤ 102) (hnv : (t.wf wi).nv ≤ 256)
    (ha : a.Supported (t.wf wi).ns (t.wf wi).nv) :
    (∀ p, ¬ ownS (t.wf wi) p →
      get (t.writeOperandBytes wi a.k.reg a.rc a.lane d).1.sfile p = get t.sfile p) ∧
    (∀ (x : TWf) p, ¬ (x.simd = (t.wf wi).simd ∧ ownV (t.wf wi) p) →
      get ((t.writeOperandBytes wi a.k.reg a.rc a.lane d).1.vfileOf x) p = get (t.vfileOf x) p) ∧
    (∀ wj, wj ≠ wi → (t.writeOperandBytes wi a.k.reg a.rc a.lane d).1.wf wj = t.wf wj) := by
  obtain ⟨f1, f2, f3⟩ := writeReg_frame t wi a.k.reg a.rc a.lane (TimingRF.waveOffset (t.wf wi) a.k.reg) d
  have e : t.writeOperandBytes wi a.k.reg a.rc a.lane d =
      t.writeReg wi a.k.reg a.rc a.lane (TimingRF.waveOffset (t.wf wi) a.k.reg) d := rfl
  rw [e]
  obtain ⟨k, rc, lane⟩ := a
  dsimp only at f1 f2 f3 ha ⊢
  have hc := cnt_pos rc
  cases k with
  | s i =>
    obtain ⟨_, hb⟩ := ha
    simp only at hb
    have hi : i < 102 := by omega
    refine ⟨fun p hp => f1 p ?_, fun x p hp => f2 x p ?_, f3⟩
    · rintro ⟨_, h1, h2⟩
      simp only [Kind.reg, regIndex_s i hi, waveOffset_s] at h1 h2
      exact hp ⟨by omega, by omega⟩
    · rintro ⟨_, hV, _⟩
      simp only [Kind.reg, isVReg_s] at hV
      cases hV
  | v i =>
    obtain ⟨_, hb, hl⟩ := ha
    simp only at hb hl
    have hi : i < 256 := by omega
    refine ⟨fun p hp => f1 p ?_, fun x p hp => f2 x p ?_, f3⟩
    · rintro ⟨hS, _⟩
      simp only [Kind.reg, isSReg_v i hi] at hS
      cases hS
    · rintro ⟨_, _, hx, h1, h2⟩
      simp only [Kind.reg, regIndex_v i hi, waveOffset_v _ i hi] at h1 h2
      exact hp ⟨hx, lane, by omega, by omega, by omega, by omega⟩
  | _ =>
    refine ⟨fun p hp => f1 p ?_, fun x p hp => f2 x p ?_, f3⟩
    · rintro ⟨hS, _⟩; exact absurd hS (by decide)
    · rintro ⟨_, hV, _⟩; exact absurd hV (by decide)

/-- **… hence every wavefront whose windows share no byte with the writer's keeps all its cells** -/
theorem tim_others_unchanged (t : TimingRF) (wi wj : Nat) (a : Acc) (d : List UInt8)
    (hns : (t.wf wi).ns ≤ 102) (hnv : (t.wf wi).nv ≤ 256)
    (ha : a.Supported (t.wf wi).ns (t.wf wi).nv) (hne : wj ≠ wi)
    (hdis : WindowsDisjoint (t.wf wi) (t.wf wj)) :
    absT (t.writeOperandBytes wi a.k.reg a.rc a.lane d).1
      ((t.writeOperandBytes wi a.k.reg a.rc a.lane d).1.wf wj) = absT t (t.wf wj) := by
  obtain ⟨f1, f2, f3⟩ := tim_write_only_own t wi a d hns hnv ha
  rw [f3 wj hne]
  have hS : winCells (t.writeOperandBytes wi a.k.reg a.rc a.lane d).1.sfile (t.wf wj).soff (t.wf wj).ns =
      winCells t.sfile (t.wf wj).soff (t.wf wj).ns :=
    winCells_congr _ _ _ _ (fun p h1 h2 => f1 p (fun ho => hdis.1 p ⟨ho, h1, h2⟩))
  have hV : laneCells ((t.writeOperandBytes wi a.k.reg a.rc a.lane d).1.vfileOf (t.wf wj)) (t.wf wj).voff (t.wf wj).nv =
      laneCells (t.vfileOf (t.wf wj)) (t.wf wj).voff (t.wf wj).nv := by
    funext l
    simp only [laneCells]
    split
    · rename_i hl
      apply winCells_congr
      intro p h1 h2
      apply f2
      rintro ⟨hsimd, ho⟩
      rcases hdis.2 with e | e
      · exact e hsimd.symm
      · exact e p ⟨ho, l, by omega, by omega, h1, h2⟩
    · rfl
  simp only [absT, hS, hV]

end C07
