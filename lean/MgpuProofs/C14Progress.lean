import MgpuProofs.C14Once
import MgpuProofs.C14Frame
/-! # C14 — the completion message is sent at least once

* `DInv` (the "message owed" flag is never dropped): in every reachable state a work-group all of
  whose wavefronts have ended has its message in the log — the last wavefront never becomes
  Completed without the message having been sent (`run_DInv`).
* progress: while the last wavefront of a group sits at `s_endpgm` with nothing outstanding
  (`Pending`), it stays so under every event, its position in `internalExecuting` (`ahead`) never
  grows, and every evaluation round that starts with room in the port either sends the message or
  moves it strictly forward (`step_progress`); hence after more rounds-with-room than its position
  the message has been sent (`run_progress`). -/
namespace C14

/-! ## ended ⇒ sent -/

/-- a group all of whose wavefronts have ended has its completion message in the log -/
def DInv (s : State) : Prop := ∀ v ∈ s.wfs, allC v.wg s.wfs → v.wg ∈ s.sent

theorem not_all_of_false {l : List Wf} {p : Wf → Bool} (h : ¬ l.all p = true) : ∃ x ∈ l, p x = false := by
  apply Classical.byContradiction
  intro hne
  apply h
  rw [List.all_eq_true]
  intro x hx
  cases hp : p x with
  | true => rfl
  | false => exact absurd ⟨x, hx, hp⟩ hne

/-- if the evaluated wavefront's own group is completely ended afterwards, the message was sent -/
theorem evalInst_self_end (c : Cfg) (s : State) (w : Wf) (hw : w ∈ s.wfs) (hnc : w.state ≠ .completed)
    (hall : allC w.wg (evalInst c s w).s.wfs) : w.wg ∈ (evalInst c s w).s.sent := by
  have same : ∀ e : Ev, e.s.wfs = s.wfs → allC w.wg e.s.wfs → w.wg ∈ e.s.sent := by
    intro e h1 h2
    rw [h1] at h2
    exact absurd (h2 w hw rfl) hnc
  have upd : ∀ (f : Wf → Wf) (e : Ev), e.s.wfs = updWf s.wfs w.id f → (f w).wg = w.wg →
      (f w).state ≠ .completed → allC w.wg e.s.wfs → w.wg ∈ e.s.sent := by
    intro f e h1 h2 h3 h4
    rw [h1] at h4
    exact absurd (h4 (f w) (mem_updWf.mpr ⟨w, hw, by rw [if_pos rfl]⟩) h2) h3
  have other : othersCompleted w.wg w.id s.wfs = false →
      ∃ x ∈ s.wfs, x.id ≠ w.id ∧ x.wg = w.wg ∧ x.state ≠ .completed := by
    intro h
    obtain ⟨x, hx, hp⟩ := not_all_of_false (l := s.wfs)
      (p := fun v => v.id == w.id || v.wg != w.wg || v.state == .completed)
      (by intro hh; unfold othersCompleted at h; rw [hh] at h; cases h)
    simp only [Bool.or_eq_false_iff, beq_eq_false_iff_ne, bne_eq_false_iff_eq] at hp
    exact ⟨x, hx, hp.1.1, hp.1.2, hp.2⟩
  revert hall
  unfold evalInst
  split
  · unfold evalSEndPgm
    split
    · exact same _ rfl
    · split
      · split
        · intro _; simp
        · exact same _ rfl
      · rename_i hoth
        obtain ⟨x, hx, hx0, hx1, hx2⟩ := other (by simpa using hoth)
        split
        · intro hall
          exfalso
          have hm : release w.wg x ∈ updWf (s.wfs.map (release w.wg)) w.id complete :=
            mem_updWf.mpr ⟨release w.wg x, List.mem_map.mpr ⟨x, hx, rfl⟩, by
              rw [if_neg (by rw [release_id]; exact hx0)]⟩
          have := hall _ hm (by rw [release_wg]; exact hx1)
          rw [(release_hit _ _ hx1 hx2).1] at this
          cases this
        · split
          · intro hall
            exfalso
            have hm : x ∈ updWf s.wfs w.id complete := mem_updWf.mpr ⟨x, hx, by rw [if_neg hx0]⟩
            exact hx2 (hall _ hm hx1)
          · exact same _ rfl
  · split
    · unfold evalSBarrier
      simp only
      split
      · intro hall
        exfalso
        have hm : release w.wg (park w) ∈ (updWf s.wfs w.id park).map (release w.wg) :=
          List.mem_map.mpr ⟨park w, mem_updWf.mpr ⟨w, hw, by rw [if_pos rfl]⟩, rfl⟩
        have := hall _ hm (by rw [release_wg]; rfl)
        rw [(release_hit w.wg (park w) rfl (by rw [park_state]; decide)).1] at this
        cases this
      · split
        · exact upd park _ rfl rfl (by rw [park_state]; decide)
        · exact upd park _ rfl rfl (by rw [park_state]; decide)
    · split
      · unfold evalSWaitCnt
        split
        · exact same _ rfl
        · exact upd setReady _ rfl rfl (by rw [setReady_state]; decide)
      · exact upd setReady _ rfl rfl (by rw [setReady_state]; decide)

theorem evalInst_sent_mono (c : Cfg) (s : State) (w : Wf) {g : Nat} (h : g ∈ s.sent) :
    g ∈ (evalInst c s w).s.sent := by
  rcases evalInst_out c s w with ⟨_, h2⟩ | ⟨_, h2, _, _⟩
  · rw [h2]; exact h
  · rw [h2]; exact List.mem_append_left _ h

theorem evalInst_DInv {c : Cfg} {s : State} {w : Wf} (hids : s.wfs.Pairwise (fun a b => a.id ≠ b.id))
    (hw : w ∈ s.wfs) (hnc : w.state ≠ .completed) (h : DInv s) : DInv (evalInst c s w).s := by
  obtain ⟨F, hF, hP, hQ, _, _⟩ := evalInst_frame c s w
  intro v' hv' hall
  by_cases hg : v'.wg = w.wg
  · rw [hg] at hall ⊢
    exact evalInst_self_end c s w hw hnc hall
  · rw [hF] at hv'
    obtain ⟨v, hv, rfl⟩ := List.mem_map.mp hv'
    rw [(hP v).2.1] at hg hall ⊢
    apply evalInst_sent_mono
    apply h v hv
    intro u hu hug
    have hne : u.id ≠ w.id := by
      intro e
      rw [uniq hids hu hw e] at hug
      exact hg hug.symm
    apply Classical.byContradiction
    intro hnc'
    have : F u ∈ (evalInst c s w).s.wfs := by rw [hF]; exact List.mem_map.mpr ⟨u, hu, rfl⟩
    exact (hQ u hne).2.2 hnc' (hall _ this (by rw [(hP u).2.1]; exact hug))

theorem evalOne_DInv {c : Cfg} (hB : c.fixB = true) {sp : State × Bool} {i : Nat} {rem : List Nat}
    (h : LInv sp.1 (i :: rem)) (hd : DInv sp.1) : DInv (evalOne c sp i).1 := by
  unfold evalOne
  split
  · exact hd
  · split
    · exact hd
    · rename_i w hget
      obtain ⟨hw, hi⟩ := getWf_some hget
      split
      · exact hd
      · rename_i hnr
        have hnready : w.state ≠ .ready := by
          intro hr; apply hnr; simp [hB, hr]
        have hg : Good w := by
          rcases h.remSt w hw (by rw [hi]; exact List.mem_cons_self) with hg | hr
          · exact hg
          · exact absurd hr hnready
        have := evalInst_DInv (c := c) h.ids hw (good_not_completed hg) hd
        have hf := finishOne_sent i w.wg (evalInst c sp.1 w)
        unfold DInv at this ⊢
        show ∀ v ∈ (finishOne i w.wg (evalInst c sp.1 w)).wfs,
          allC v.wg (finishOne i w.wg (evalInst c sp.1 w)).wfs → v.wg ∈ (finishOne i w.wg (evalInst c sp.1 w)).sent
        rw [hf.1, hf.2]; exact this

theorem foldl_DInv {c : Cfg} (hA : c.fixA = true) (hB : c.fixB = true) (l : List Nat) (sp : State × Bool)
    (h : LInv sp.1 l) (hd : DInv sp.1) : DInv (l.foldl (evalOne c) sp).1 := by
  induction l generalizing sp with
  | nil => exact hd
  | cons i l ih => exact ih _ (evalOne_LInv hA hB h) (evalOne_DInv hB h hd)

theorem Inv_LInv_start {s : State} (h : Inv s) : LInv ({ s with exec := [] } : State) s.exec := by
  constructor
  · exact h.ids
  · exact h.nofault
  · intro w _ hin; cases hin
  · intro w hw hin; exact Or.inl (h.execSt w hw hin)
  · have := h.nodup; simpa using this
  · exact h.ghost
  · exact h.bars

theorem evalInternal_DInv {c : Cfg} (hA : c.fixA = true) (hB : c.fixB = true) {s : State} (h : Inv s)
    (hd : DInv s) : DInv (evalInternal c s).1 := by
  unfold evalInternal
  exact foldl_DInv hA hB _ _ (Inv_LInv_start h) hd

/-- an update after which nobody is newly ended -/
theorem DInv_upd {s : State} (i : Nat) (f : Wf → Wf) (hd : DInv s) (hwg : ∀ v, (f v).wg = v.wg)
    (hst : ∀ v, (f v).state = .completed → v.state = .completed) :
    DInv ({ s with wfs := updWf s.wfs i f } : State) := by
  have hFwg : ∀ v : Wf, (if v.id = i then f v else v).wg = v.wg := by
    intro v; split
    · exact hwg v
    · rfl
  intro v' hv' hall
  obtain ⟨v, hv, rfl⟩ := mem_updWf.mp hv'
  rw [hFwg] at hall ⊢
  apply hd v hv
  intro u hu hug
  have := hall _ (mem_updWf.mpr ⟨u, hu, rfl⟩) (by rw [hFwg]; exact hug)
  split at this
  · exact hst u this
  · exact this

theorem DInv_congr {s s' : State} (h : DInv s) (h1 : s'.wfs = s.wfs) (h2 : s'.sent = s.sent) : DInv s' := by
  unfold DInv; rw [h1, h2]; exact h

theorem step_DInv {c : Cfg} (hA : c.fixA = true) (hB : c.fixB = true) {s : State} {o : Op} (h : Inv s)
    (hd : DInv s) (hl : legal s o = true) : DInv (step c s o).1 := by
  cases o with
  | eval => exact evalInternal_DInv hA hB h hd
  | wfComp i => simp [legal] at hl
  | drain k => exact DInv_congr hd rfl rfl
  | memIssue i v =>
    exact DInv_congr (DInv_upd i (fun w =>
        if v then { w with osc := w.osc + 1, ovc := w.ovc + 1 } else { w with osc := w.osc + 1 }) hd
      (fun w => by split <;> rfl) (fun w hc => by split at hc <;> exact hc)) rfl rfl
  | memRet i k l =>
    exact DInv_congr (DInv_upd i (memRetWf k l) hd (fun w => (memRetWf_fields k l w).2.1)
      (fun w hc => by rw [(memRetWf_fields k l w).2.2.1] at hc; exact hc)) rfl rfl
  | issue i op lk vm =>
    exact DInv_congr (DInv_upd i (issueWf op lk vm) hd (fun _ => rfl) (fun w hc => by cases hc)) rfl rfl
  | issueUnit i =>
    exact DInv_congr (DInv_upd i (fun w => { w with state := .running, op := 99, lk := 0, vm := 0 }) hd
      (fun _ => rfl) (fun w hc => by cases hc)) rfl rfl
  | unitDone i =>
    exact DInv_congr (DInv_upd i setReady hd (fun _ => rfl) (fun w hc => by cases hc)) rfl rfl

theorem Init_DInv {s : State} (h : Init s) : DInv s := by
  intro v hv hall
  have := hall v hv rfl
  rw [(h.2.2.2 v hv).1] at this
  cases this

theorem run_DInv {c : Cfg} (hA : c.fixA = true) (hB : c.fixB = true) (ops : List Op) {s : State} (h : Inv s)
    (hd : DInv s) (hl : legalRun c s ops = true) : DInv (run c s ops) := by
  unfold run
  induction ops generalizing s with
  | nil => exact hd
  | cons o ops ih =>
    simp only [legalRun, Bool.and_eq_true] at hl
    exact ih (step_Inv hA hB h hl.1) (step_DInv hA hB h hd hl.1) hl.2

/-! ## the owed message makes progress -/

/-- the last wavefront of its group holds `s_endpgm` with nothing outstanding: only the port can
    keep the completion message back -/
structure Owed (s : State) (w : Wf) : Prop where
  mem : w ∈ s.wfs
  run : w.state = .running
  op : w.op = 1
  ovc : w.ovc ≤ 0
  osc : w.osc ≤ 0
  oth : othersCompleted w.wg w.id s.wfs = true

/-- wavefront `i` of group `g` owes the message and is in `internalExecuting` -/
def Pending (s : State) (i g : Nat) : Prop := ∃ w, Owed s w ∧ w.id = i ∧ w.wg = g ∧ i ∈ s.exec

/-- number of `internalExecuting` entries ahead of `i` -/
def ahead (i : Nat) (l : List Nat) : Nat := (l.takeWhile (fun k => k != i)).length

theorem ahead_split {i : Nat} {A B : List Nat} (h : i ∉ A) : ahead i (A ++ i :: B) = A.length := by
  unfold ahead
  induction A with
  | nil => simp
  | cons a A ih =>
    have ha : a ≠ i := fun e => h (by rw [e]; exact List.mem_cons_self)
    have hA : i ∉ A := fun e => h (List.mem_cons_of_mem _ e)
    simp only [List.cons_append, List.takeWhile_cons, bne_iff_ne, ne_eq, ha, not_false_eq_true,
      if_true, List.length_cons, ih hA]

theorem split_of_mem {i : Nat} {l : List Nat} (h : i ∈ l) : ∃ A B, l = A ++ i :: B ∧ i ∉ A := by
  induction l with
  | nil => cases h
  | cons a l ih =>
    by_cases ha : a = i
    · exact ⟨[], l, by rw [ha]; rfl, by simp⟩
    · rcases List.mem_cons.mp h with e | e
      · exact absurd e.symm ha
      · obtain ⟨A, B, h1, h2⟩ := ih e
        refine ⟨a :: A, B, by rw [h1]; rfl, ?_⟩
        intro hin
        rcases List.mem_cons.mp hin with e' | e'
        · exact ha e'.symm
        · exact h2 e'

/-- the frame keeps the owed state of a wavefront other than the evaluated one -/
theorem Owed_frame {c : Cfg} {s : State} {w wj : Wf} (hids : s.wfs.Pairwise (fun a b => a.id ≠ b.id))
    (hwj : wj ∈ s.wfs) (hgj : wj.state ≠ .completed) (hne : wj.id ≠ w.id) (h : Owed s w)
    (s' : State) (h1 : s'.wfs = (evalInst c s wj).s.wfs) : Owed s' w := by
  obtain ⟨F, hF, hP, hQ, hR, _⟩ := evalInst_frame c s wj
  have hFw : F w = w := hR w h.mem h.run (fun e => hne e.symm)
  refine ⟨?_, h.run, h.op, h.ovc, h.osc, ?_⟩
  · rw [h1, hF]; exact List.mem_map.mpr ⟨w, h.mem, hFw⟩
  · have hoth := h.oth
    simp only [othersCompleted, List.all_eq_true, Bool.or_eq_true, beq_iff_eq, bne_iff_ne] at hoth ⊢
    intro v' hv'
    rw [h1, hF] at hv'
    obtain ⟨v, hv, rfl⟩ := List.mem_map.mp hv'
    rw [(hP v).1, (hP v).2.1]
    rcases hoth v hv with (hh | hh) | hh
    · exact Or.inl (Or.inl hh)
    · exact Or.inl (Or.inr hh)
    · right
      have hvj : v.id ≠ wj.id := by
        intro e
        rw [uniq hids hv hwj e] at hh
        exact hgj hh
      exact (hQ v hvj).1 hh

theorem finishOne_out (i g : Nat) (e : Ev) : (finishOne i g e).out = e.s.out := by
  unfold finishOne
  simp only
  split <;> split <;> rfl

theorem finishOne_exec_len (i g : Nat) (e : Ev) :
    (finishOne i g e).exec.length ≤ e.s.exec.length + (if e.completed then 0 else 1) := by
  unfold finishOne
  have := List.length_filter_le (fun j => wgOf e.s.wfs j != some g) e.s.exec
  cases hc : e.completed <;> cases hp : e.pass <;> simp <;> omega

theorem filter_shape (p : Nat → Bool) {i : Nat} (A B : List Nat) (hp : p i = true) :
    (A ++ i :: B).filter p = A.filter p ++ i :: B.filter p := by
  simp [List.filter_append, hp]

/-- `finishOne` keeps the kept wavefront `i` where it is (or nearer to the front) -/
theorem finishOne_shape (i g j : Nat) (e : Ev) (A B : List Nat) (n : Nat) (hex : e.s.exec = A ++ i :: B)
    (hkeep : (wgOf e.s.wfs i != some g) = true) (hAn : A.length ≤ n) (hAi : i ∉ A) :
    ∃ A' B', (finishOne j g e).exec = A' ++ i :: B' ∧ A'.length ≤ n ∧ i ∉ A' := by
  have hfil := filter_shape (fun k => wgOf e.s.wfs k != some g) A B hkeep
  have hlen := List.length_filter_le (fun k => wgOf e.s.wfs k != some g) A
  have hnotin : i ∉ List.filter (fun k => wgOf e.s.wfs k != some g) A :=
    fun h => hAi (List.mem_filter.mp h).1
  unfold finishOne
  cases hc : e.completed <;> cases hp : e.pass
  · exact ⟨A, B ++ [j], by simp [hex], hAn, hAi⟩
  · exact ⟨List.filter (fun k => wgOf e.s.wfs k != some g) A,
      List.filter (fun k => wgOf e.s.wfs k != some g) B ++ [j], by simp [hex, hfil], by omega, hnotin⟩
  · exact ⟨A, B, by simp [hex], hAn, hAi⟩
  · exact ⟨List.filter (fun k => wgOf e.s.wfs k != some g) A,
      List.filter (fun k => wgOf e.s.wfs k != some g) B, by simp [hex, hfil], by omega, hnotin⟩

/-- one loop iteration: `internalExecuting` grows by an entry or the port by a message, not both -/
theorem evalOne_size (c : Cfg) (sp : State × Bool) (j : Nat) :
    (evalOne c sp j).1.exec.length + (evalOne c sp j).1.out.length ≤ sp.1.exec.length + sp.1.out.length + 1 ∧
    sp.1.out.length ≤ (evalOne c sp j).1.out.length := by
  unfold evalOne
  split
  · omega
  · split
    · omega
    · rename_i w _
      split
      · omega
      · show (finishOne j w.wg (evalInst c sp.1 w)).exec.length + (finishOne j w.wg (evalInst c sp.1 w)).out.length ≤ _ ∧
          _ ≤ (finishOne j w.wg (evalInst c sp.1 w)).out.length
        rw [finishOne_out]
        have h1 := finishOne_exec_len j w.wg (evalInst c sp.1 w)
        rw [evalInst_exec] at h1
        rcases evalInst_out c sp.1 w with ⟨h2, _⟩ | ⟨h2, _, h3, _⟩
        · rw [h2]
          split at h1 <;> omega
        · rw [h2, List.length_append]
          rw [h3] at h1
          simp only [if_true, List.length_cons, List.length_nil] at h1 ⊢
          omega

theorem evalOne_sent_mono (c : Cfg) (sp : State × Bool) (j : Nat) {g : Nat} (h : g ∈ sp.1.sent) :
    g ∈ (evalOne c sp j).1.sent := by
  unfold evalOne
  split
  · exact h
  · split
    · exact h
    · rename_i w _
      split
      · exact h
      · show g ∈ (finishOne j w.wg (evalInst c sp.1 w)).sent
        rw [(finishOne_sent _ _ _).1]
        exact evalInst_sent_mono c sp.1 w h

theorem foldl_sent_mono (c : Cfg) (l : List Nat) (sp : State × Bool) {g : Nat} (h : g ∈ sp.1.sent) :
    g ∈ (l.foldl (evalOne c) sp).1.sent := by
  induction l generalizing sp with
  | nil => exact h
  | cons j l ih => exact ih _ (evalOne_sent_mono c sp j h)

/-- evaluating another entry keeps the owed state -/
theorem evalOne_other {c : Cfg} (hB : c.fixB = true) {sp : State × Bool} {j : Nat} {rem : List Nat} {w : Wf}
    (h : LInv sp.1 (j :: rem)) (ho : Owed sp.1 w) (hne : j ≠ w.id) : Owed (evalOne c sp j).1 w := by
  unfold evalOne
  split
  · exact ho
  · split
    · exact ho
    · rename_i wj hget
      obtain ⟨hwj, hj⟩ := getWf_some hget
      split
      · exact ho
      · rename_i hnr
        have hnready : wj.state ≠ .ready := by
          intro hr; apply hnr; simp [hB, hr]
        have hg : Good wj := by
          rcases h.remSt wj hwj (by rw [hj]; exact List.mem_cons_self) with hg | hr
          · exact hg
          · exact absurd hr hnready
        exact Owed_frame h.ids hwj (good_not_completed hg) (by rw [hj]; exact hne) ho _
          (finishOne_sent _ _ _).2

/-- the entries ahead of the owing wavefront -/
theorem foldl_pre {c : Cfg} (hA : c.fixA = true) (hB : c.fixB = true) {w : Wf} (l rem : List Nat)
    (sp : State × Bool) (h : LInv sp.1 (l ++ rem)) (ho : Owed sp.1 w) (hni : w.id ∉ l) :
    LInv (l.foldl (evalOne c) sp).1 rem ∧ Owed (l.foldl (evalOne c) sp).1 w ∧
    (l.foldl (evalOne c) sp).1.exec.length + (l.foldl (evalOne c) sp).1.out.length ≤
      sp.1.exec.length + sp.1.out.length + l.length ∧
    sp.1.out.length ≤ (l.foldl (evalOne c) sp).1.out.length := by
  induction l generalizing sp with
  | nil => exact ⟨h, ho, by simp, Nat.le_refl _⟩
  | cons j l ih =>
    have hj : j ≠ w.id := fun e => hni (by rw [e]; exact List.mem_cons_self)
    have hl : w.id ∉ l := fun e => hni (List.mem_cons_of_mem _ e)
    obtain ⟨a, b, c', d⟩ := ih (evalOne c sp j) (evalOne_LInv hA hB h) (evalOne_other hB h ho hj) hl
    have := evalOne_size c sp j
    refine ⟨a, b, ?_, ?_⟩
    · simp only [List.foldl_cons, List.length_cons] at c' ⊢; omega
    · simp only [List.foldl_cons] at d ⊢; omega

theorem getWf_of_mem {wfs : List Wf} (hids : wfs.Pairwise (fun a b => a.id ≠ b.id)) {w : Wf} (hw : w ∈ wfs) :
    getWf wfs w.id = some w := by
  cases hget : getWf wfs w.id with
  | none =>
    unfold getWf at hget
    rw [List.find?_eq_none] at hget
    have := hget w hw
    simp at this
  | some w' =>
    obtain ⟨h1, h2⟩ := getWf_some hget
    rw [uniq hids h1 hw h2]

/-- the owing wavefront's own turn: the message goes out if the port has room, otherwise the
    wavefront is kept, nothing else changes -/
theorem evalOne_self {c : Cfg} {sp : State × Bool} {rem : List Nat} {w : Wf}
    (h : LInv sp.1 (w.id :: rem)) (ho : Owed sp.1 w) :
    (sp.1.out.length < c.aceCap → w.wg ∈ (evalOne c sp w.id).1.sent) ∧
    (¬ sp.1.out.length < c.aceCap →
      (evalOne c sp w.id).1 = ({ sp.1 with exec := sp.1.exec ++ [w.id] } : State)) := by
  have hcnt : ¬ (w.ovc > 0 ∨ w.osc > 0) := by
    have := ho.ovc; have := ho.osc; omega
  have hnr : (c.fixB && w.state == .ready) = false := by rw [ho.run]; simp
  unfold evalOne
  rw [if_neg (by rw [h.nofault]; decide), getWf_of_mem h.ids ho.mem]
  simp only [hnr, Bool.false_eq_true, if_false]
  unfold evalInst
  rw [if_pos ho.op]
  unfold evalSEndPgm
  simp only [hcnt, if_false, ho.oth, if_true]
  constructor
  · intro hroom
    simp only [hroom, if_true]
    rw [(finishOne_sent _ _ _).1]
    simp
  · intro hfull
    simp only [hfull, if_false]
    rfl

/-- the entries behind the owing wavefront, once it has been kept -/
theorem foldl_post {c : Cfg} (hA : c.fixA = true) (hB : c.fixB = true) {w : Wf} (l : List Nat)
    (sp : State × Bool) (h : LInv sp.1 l) (ho : Owed sp.1 w) (hni : w.id ∉ l) (n : Nat)
    (hsh : ∃ A B, sp.1.exec = A ++ w.id :: B ∧ A.length ≤ n ∧ w.id ∉ A) :
    Owed (l.foldl (evalOne c) sp).1 w ∧
    ∃ A B, (l.foldl (evalOne c) sp).1.exec = A ++ w.id :: B ∧ A.length ≤ n ∧ w.id ∉ A := by
  induction l generalizing sp with
  | nil => exact ⟨ho, hsh⟩
  | cons j l ih =>
    have hj : j ≠ w.id := fun e => hni (by rw [e]; exact List.mem_cons_self)
    have hl : w.id ∉ l := fun e => hni (List.mem_cons_of_mem _ e)
    refine ih (evalOne c sp j) (evalOne_LInv hA hB h) (evalOne_other hB h ho hj) hl ?_
    obtain ⟨A, B, hAB, hAn, hAi⟩ := hsh
    unfold evalOne
    split
    · exact ⟨A, B, hAB, hAn, hAi⟩
    · split
      · exact ⟨A, B, hAB, hAn, hAi⟩
      · rename_i wj hget
        obtain ⟨hwj, hjj⟩ := getWf_some hget
        split
        · exact ⟨A, B, hAB, hAn, hAi⟩
        · rename_i hnr
          have hnready : wj.state ≠ .ready := by
            intro hr; apply hnr; simp [hB, hr]
          have hg : Good wj := by
            rcases h.remSt wj hwj (by rw [hjj]; exact List.mem_cons_self) with hg | hr
            · exact hg
            · exact absurd hr hnready
          -- the owing wavefront's group is not the one that passes
          have hwg : wj.wg ≠ w.wg := by
            have hoth := ho.oth
            simp only [othersCompleted, List.all_eq_true, Bool.or_eq_true, beq_iff_eq, bne_iff_ne] at hoth
            rcases hoth wj hwj with (hh | hh) | hh
            · exact absurd (hjj.symm.trans hh) hj
            · exact hh
            · exact absurd hh (good_not_completed hg)
          obtain ⟨F, hF, hP, _, _, _⟩ := evalInst_frame c sp.1 wj
          have hkeep : (wgOf (evalInst c sp.1 wj).s.wfs w.id != some wj.wg) = true := by
            rw [hF, wgOf_map _ F (fun v => (hP v).1) (fun v => (hP v).2.1), wgOf_of_mem h.ids ho.mem]
            simp only [bne_iff_ne, ne_eq, Option.some.injEq]
            exact fun e => hwg e.symm
          exact finishOne_shape w.id wj.wg j (evalInst c sp.1 wj) A B n (by rw [evalInst_exec]; exact hAB)
            hkeep hAn hAi

/-- **progress of one evaluation round** -/
theorem eval_progress {c : Cfg} (hA : c.fixA = true) (hB : c.fixB = true) {s : State} {i g : Nat}
    (hi : Inv s) (hp : Pending s i g) :
    g ∈ (evalInternal c s).1.sent ∨
    (Pending (evalInternal c s).1 i g ∧ ahead i (evalInternal c s).1.exec ≤ ahead i s.exec ∧
      (s.out.length < c.aceCap → ahead i (evalInternal c s).1.exec < ahead i s.exec)) := by
  obtain ⟨w, ho, rfl, rfl, hin⟩ := hp
  obtain ⟨A, B, hAB, hAi⟩ := split_of_mem hin
  have hnd : (A ++ w.id :: B).Nodup := by
    have := hi.nodup; rw [List.append_nil, hAB] at this; exact this
  have hBi : w.id ∉ B := (nodup_head_not_mem hnd).2
  have h0 : LInv ({ s with exec := [] } : State) (A ++ w.id :: B) := by
    have := Inv_LInv_start hi; rw [hAB] at this; exact this
  have ho0 : Owed ({ s with exec := [] } : State) w := ⟨ho.mem, ho.run, ho.op, ho.ovc, ho.osc, ho.oth⟩
  unfold evalInternal
  rw [hAB, List.foldl_append, List.foldl_cons]
  obtain ⟨l1, o1, sz, mono⟩ := foldl_pre hA hB A (w.id :: B) (({ s with exec := [] } : State), false) h0 ho0 hAi
  generalize List.foldl (evalOne c) (({ s with exec := [] } : State), false) A = sp at l1 o1 sz mono
  simp only [List.length_nil, Nat.zero_add] at sz mono
  have self := evalOne_self (c := c) l1 o1
  have l2 := evalOne_LInv hA hB l1
  by_cases hroom : sp.1.out.length < c.aceCap
  · left
    exact foldl_sent_mono c B _ (self.1 hroom)
  · right
    have hst := self.2 hroom
    have hnot : w.id ∉ sp.1.exec := (nodup_head_not_mem l1.nodup).1
    have o2 : Owed (evalOne c sp w.id).1 w := by
      rw [hst]; exact ⟨o1.mem, o1.run, o1.op, o1.ovc, o1.osc, o1.oth⟩
    obtain ⟨o3, A', B', hex, hlen, hA'⟩ := foldl_post hA hB B (evalOne c sp w.id) l2 o2 hBi sp.1.exec.length
      ⟨sp.1.exec, [], by rw [hst], Nat.le_refl _, hnot⟩
    refine ⟨⟨w, o3, rfl, rfl, by rw [hex]; simp⟩, ?_, ?_⟩
    · rw [hex, ahead_split hA', ahead_split hAi]; omega
    · intro hr
      rw [hex, ahead_split hA', ahead_split hAi]
      show A'.length < A.length
      have : s.out.length < sp.1.out.length := by omega
      omega

/-! ## the other events keep the owed message where it is -/

theorem ahead_append {i : Nat} {l : List Nat} (h : i ∈ l) (j : Nat) : ahead i (l ++ [j]) = ahead i l := by
  obtain ⟨A, B, hAB, hAi⟩ := split_of_mem h
  rw [hAB, List.append_assoc, List.cons_append, ahead_split hAi, ahead_split hAi]

/-- an update of other wavefronts that ends nobody keeps the owed state -/
theorem Owed_upd_other {s : State} {w : Wf} (j : Nat) (f : Wf → Wf) (ho : Owed s w) (hne : j ≠ w.id)
    (hid : ∀ v, (f v).id = v.id) (hwg : ∀ v, (f v).wg = v.wg)
    (hst : ∀ v ∈ s.wfs, v.id = j → v.state = .completed → (f v).state = .completed) :
    Owed ({ s with wfs := updWf s.wfs j f } : State) w := by
  refine ⟨mem_updWf.mpr ⟨w, ho.mem, by rw [if_neg (fun e => hne e.symm)]⟩, ho.run, ho.op, ho.ovc, ho.osc, ?_⟩
  have hoth := ho.oth
  simp only [othersCompleted, List.all_eq_true, Bool.or_eq_true, beq_iff_eq, bne_iff_ne] at hoth ⊢
  intro v' hv'
  obtain ⟨v, hv, rfl⟩ := mem_updWf.mp hv'
  by_cases hvj : v.id = j
  · rw [if_pos hvj, hid, hwg]
    rcases hoth v hv with (hh | hh) | hh
    · exact Or.inl (Or.inl hh)
    · exact Or.inl (Or.inr hh)
    · exact Or.inr (hst v hv hvj hh)
  · rw [if_neg hvj]; exact hoth v hv

/-- a memory response for the owing wavefront itself only lowers its counters -/
theorem Owed_memRet_self {s : State} {w : Wf} (k : Nat) (l : Bool) (ho : Owed s w) :
    Owed ({ s with wfs := updWf s.wfs w.id (memRetWf k l) } : State) (memRetWf k l w) := by
  obtain ⟨f1, f2, f3, f4, _, _⟩ := memRetWf_fields k l w
  have hc : (memRetWf k l w).ovc ≤ w.ovc ∧ (memRetWf k l w).osc ≤ w.osc := by
    unfold memRetWf
    split
    · exact ⟨Int.le_refl _, Int.le_refl _⟩
    · split
      · simp only; omega
      · split
        · simp only; omega
        · split
          · simp only; omega
          · exact ⟨Int.le_refl _, Int.le_refl _⟩
  refine ⟨mem_updWf.mpr ⟨w, ho.mem, by rw [if_pos rfl]⟩, by rw [f3]; exact ho.run, by rw [f4]; exact ho.op,
    by have := ho.ovc; omega, by have := ho.osc; omega, ?_⟩
  have hoth := ho.oth
  rw [f1, f2]
  simp only [othersCompleted, List.all_eq_true, Bool.or_eq_true, beq_iff_eq, bne_iff_ne] at hoth ⊢
  intro v' hv'
  obtain ⟨v, hv, rfl⟩ := mem_updWf.mp hv'
  by_cases hvj : v.id = w.id
  · rw [if_pos hvj, (memRetWf_fields k l v).1]; exact Or.inl (Or.inl hvj)
  · rw [if_neg hvj]; exact hoth v hv

theorem Owed_congr {s s' : State} {w : Wf} (h : Owed s w) (h1 : s'.wfs = s.wfs) : Owed s' w :=
  ⟨by rw [h1]; exact h.mem, h.run, h.op, h.ovc, h.osc, by rw [h1]; exact h.oth⟩

/-- the environment never issues a new memory access for wavefront `i` (it is at `s_endpgm`) -/
def notMemIssue (i : Nat) : Op → Bool
  | .memIssue j _ => j != i
  | _ => true

/-- **progress of one event.** Under every legal event that is not a fresh memory access of the
    owing wavefront: the message has been sent, or it is still owed, the wavefront has not moved
    back in `internalExecuting`, and an evaluation round that began with room in the port has moved
    it strictly forward. -/
theorem step_progress {c : Cfg} (hA : c.fixA = true) (hB : c.fixB = true) {s : State} {o : Op} {i g : Nat}
    (hi : Inv s) (hp : Pending s i g) (hl : legal s o = true) (hm : notMemIssue i o = true) :
    g ∈ (step c s o).1.sent ∨
    (Pending (step c s o).1 i g ∧ ahead i (step c s o).1.exec ≤ ahead i s.exec ∧
      (o = .eval → s.out.length < c.aceCap → ahead i (step c s o).1.exec < ahead i s.exec)) := by
  cases o with
  | eval =>
    rcases eval_progress (c := c) hA hB hi hp with h | ⟨h1, h2, h3⟩
    · exact Or.inl h
    · exact Or.inr ⟨h1, h2, fun _ => h3⟩
  | wfComp j => simp [legal] at hl
  | drain k =>
    obtain ⟨w, ho, e1, e2, hin⟩ := hp
    exact Or.inr ⟨⟨w, Owed_congr ho rfl, e1, e2, hin⟩, Nat.le_refl _, fun e => by cases e⟩
  | memIssue j v =>
    obtain ⟨w, ho, e1, e2, hin⟩ := hp
    have hne : j ≠ w.id := by rw [e1]; simpa [notMemIssue] using hm
    refine Or.inr ⟨⟨w, ?_, e1, e2, hin⟩, Nat.le_refl _, fun e => by cases e⟩
    exact Owed_congr (Owed_upd_other j (fun w =>
        if v then { w with osc := w.osc + 1, ovc := w.ovc + 1 } else { w with osc := w.osc + 1 }) ho hne
      (fun w => by split <;> rfl) (fun w => by split <;> rfl) (fun w _ _ hc => by split <;> exact hc)) rfl
  | memRet j k l =>
    obtain ⟨w, ho, e1, e2, hin⟩ := hp
    by_cases hne : j = w.id
    · subst hne
      refine Or.inr ⟨⟨memRetWf k l w, Owed_congr (Owed_memRet_self k l ho) rfl,
        by rw [(memRetWf_fields k l w).1]; exact e1, by rw [(memRetWf_fields k l w).2.1]; exact e2, hin⟩,
        Nat.le_refl _, fun e => by cases e⟩
    · refine Or.inr ⟨⟨w, ?_, e1, e2, hin⟩, Nat.le_refl _, fun e => by cases e⟩
      exact Owed_congr (Owed_upd_other j (memRetWf k l) ho hne (fun v => (memRetWf_fields k l v).1)
        (fun v => (memRetWf_fields k l v).2.1)
        (fun v _ _ hc => by rw [(memRetWf_fields k l v).2.2.1]; exact hc)) rfl
  | issue j op lk vm =>
    obtain ⟨w, ho, e1, e2, hin⟩ := hp
    simp only [legal, Bool.and_eq_true, List.any_eq_true, List.all_eq_true, beq_iff_eq, Bool.or_eq_true,
      bne_iff_ne] at hl
    obtain ⟨⟨wj, hwj, hj⟩, hall⟩ := hl
    have hr : ∀ v ∈ s.wfs, v.id = j → v.state = .ready := by
      intro v hv hvj
      rcases hall v hv with hh | hh
      · exact absurd hvj hh
      · exact hh
    have hne : j ≠ w.id := by
      intro e
      have := hr w ho.mem e.symm
      rw [ho.run] at this; cases this
    refine Or.inr ⟨⟨w, ?_, e1, e2, by show i ∈ s.exec ++ [j]; exact List.mem_append_left _ hin⟩, ?_,
      fun e => by cases e⟩
    · exact Owed_congr (Owed_upd_other j (issueWf op lk vm) ho hne (fun _ => rfl) (fun _ => rfl)
        (fun v hv hvj hc => by rw [hr v hv hvj] at hc; cases hc)) rfl
    · show ahead i (s.exec ++ [j]) ≤ _
      rw [ahead_append hin]; exact Nat.le_refl _
  | issueUnit j =>
    obtain ⟨w, ho, e1, e2, hin⟩ := hp
    simp only [legal, Bool.and_eq_true, List.any_eq_true, List.all_eq_true, beq_iff_eq, Bool.or_eq_true,
      bne_iff_ne] at hl
    obtain ⟨⟨wj, hwj, hj⟩, hall⟩ := hl
    have hr : ∀ v ∈ s.wfs, v.id = j → v.state = .ready := by
      intro v hv hvj
      rcases hall v hv with hh | hh
      · exact absurd hvj hh
      · exact hh
    have hne : j ≠ w.id := by
      intro e
      have := hr w ho.mem e.symm
      rw [ho.run] at this; cases this
    refine Or.inr ⟨⟨w, ?_, e1, e2, hin⟩, Nat.le_refl _, fun e => by cases e⟩
    exact Owed_congr (Owed_upd_other j (fun w => { w with state := .running, op := 99, lk := 0, vm := 0 })
      ho hne (fun _ => rfl) (fun _ => rfl)
      (fun v hv hvj hc => by rw [hr v hv hvj] at hc; cases hc)) rfl
  | unitDone j =>
    obtain ⟨w, ho, e1, e2, hin⟩ := hp
    simp only [legal, Bool.and_eq_true, List.any_eq_true, List.all_eq_true, beq_iff_eq, Bool.or_eq_true,
      bne_iff_ne, Bool.not_eq_true', List.contains_eq_mem, decide_eq_false_iff_not] at hl
    obtain ⟨⟨⟨wj, hwj, hj⟩, hall⟩, hni⟩ := hl
    have hr : ∀ v ∈ s.wfs, v.id = j → v.state = .running := by
      intro v hv hvj
      rcases hall v hv with hh | hh
      · exact absurd hvj hh
      · exact hh.1
    have hne : j ≠ w.id := by
      intro e
      rw [e, e1] at hni; exact hni hin
    refine Or.inr ⟨⟨w, ?_, e1, e2, hin⟩, Nat.le_refl _, fun e => by cases e⟩
    exact Owed_congr (Owed_upd_other j setReady ho hne (fun _ => rfl) (fun _ => rfl)
      (fun v hv hvj hc => by rw [hr v hv hvj] at hc; cases hc)) rfl

/-! ## along a run -/

theorem step_sent_mono (c : Cfg) (s : State) (o : Op) {g : Nat} (h : g ∈ s.sent) : g ∈ (step c s o).1.sent := by
  cases o with
  | eval => exact foldl_sent_mono c _ _ h
  | wfComp i =>
    show g ∈ (wfComp c s i).1.sent
    unfold wfComp
    split
    · exact h
    · simp only
      split
      · split
        · exact List.mem_append_left _ h
        · exact h
      · exact h
  | _ => exact h

theorem run_sent_mono (c : Cfg) (ops : List Op) (s : State) {g : Nat} (h : g ∈ s.sent) :
    g ∈ (run c s ops).sent := by
  unfold run
  induction ops generalizing s with
  | nil => exact h
  | cons o ops ih => exact ih _ (step_sent_mono c s o h)

/-- number of evaluation rounds of the run that start with room in the ToACE port -/
def roomEvals (c : Cfg) : State → List Op → Nat
  | _, [] => 0
  | s, o :: ops => (if o = .eval ∧ s.out.length < c.aceCap then 1 else 0) + roomEvals c (step c s o).1 ops

/-- **progress along a run** (decreasing measure `ahead`): once more evaluation rounds have started
    with room in the port than there were entries ahead of the owing wavefront, the message is in
    the log. -/
theorem run_progress {c : Cfg} (hA : c.fixA = true) (hB : c.fixB = true) (ops : List Op) {s : State} {i g : Nat}
    (hi : Inv s) (hp : Pending s i g) (hl : legalRun c s ops = true)
    (hm : ops.all (notMemIssue i) = true) (hn : ahead i s.exec < roomEvals c s ops) :
    g ∈ (run c s ops).sent := by
  induction ops generalizing s with
  | nil => simp [roomEvals] at hn
  | cons o ops ih =>
    simp only [legalRun, Bool.and_eq_true] at hl
    simp only [List.all_cons, Bool.and_eq_true] at hm
    have hrun : run c s (o :: ops) = run c (step c s o).1 ops := rfl
    rw [hrun]
    rcases step_progress (c := c) hA hB hi hp hl.1 hm.1 with h | ⟨h1, h2, h3⟩
    · exact run_sent_mono c ops _ h
    · apply ih (step_Inv hA hB hi hl.1) h1 hl.2 hm.2
      simp only [roomEvals] at hn
      split at hn
      · rename_i hc
        have := h3 hc.1 hc.2
        omega
      · omega

/-! ## a dispatcher that takes one message per cycle -/

theorem evalInst_out_le (c : Cfg) (s : State) (w : Wf) (h : s.out.length ≤ c.aceCap) :
    (evalInst c s w).s.out.length ≤ c.aceCap := by
  unfold evalInst
  split
  · unfold evalSEndPgm
    split
    · exact h
    · split
      · split
        · rename_i hroom
          simp only [List.length_append, List.length_cons, List.length_nil]; omega
        · exact h
      · split
        · exact h
        · split <;> exact h
  · split
    · unfold evalSBarrier
      simp only
      split
      · exact h
      · split <;> exact h
    · split
      · unfold evalSWaitCnt
        split <;> exact h
      · exact h

theorem evalOne_out_le (c : Cfg) (sp : State × Bool) (j : Nat) (h : sp.1.out.length ≤ c.aceCap) :
    (evalOne c sp j).1.out.length ≤ c.aceCap := by
  unfold evalOne
  split
  · exact h
  · split
    · exact h
    · rename_i w _
      split
      · exact h
      · show (finishOne j w.wg (evalInst c sp.1 w)).out.length ≤ _
        rw [finishOne_out]; exact evalInst_out_le c sp.1 w h

theorem step_out_le (c : Cfg) (s : State) (o : Op) (h : s.out.length ≤ c.aceCap) :
    (step c s o).1.out.length ≤ c.aceCap := by
  cases o with
  | eval =>
    show (s.exec.foldl (evalOne c) (({ s with exec := [] } : State), false)).1.out.length ≤ _
    have : ∀ (l : List Nat) (sp : State × Bool), sp.1.out.length ≤ c.aceCap →
        (l.foldl (evalOne c) sp).1.out.length ≤ c.aceCap := by
      intro l
      induction l with
      | nil => intro sp h; exact h
      | cons i l ih => intro sp h; exact ih _ (evalOne_out_le c sp i h)
    exact this _ _ h
  | wfComp i =>
    show (wfComp c s i).1.out.length ≤ _
    unfold wfComp
    split
    · exact h
    · simp only
      split
      · split
        · simp only [List.length_append, List.length_cons, List.length_nil]; omega
        · exact h
      · exact h
  | drain k =>
    show (s.out.drop k).length ≤ _
    rw [List.length_drop]; omega
  | _ => exact h

/-- `n` cycles in each of which the dispatcher takes one message and the scheduler evaluates -/
def fairCycles : Nat → List Op
  | 0 => []
  | n + 1 => .drain 1 :: .eval :: fairCycles n

theorem fairCycles_facts (c : Cfg) (hcap : 0 < c.aceCap) (i : Nat) (n : Nat) (s : State)
    (h : s.out.length ≤ c.aceCap) :
    legalRun c s (fairCycles n) = true ∧ (fairCycles n).all (notMemIssue i) = true ∧
    n ≤ roomEvals c s (fairCycles n) := by
  induction n generalizing s with
  | zero => exact ⟨rfl, rfl, Nat.le_refl _⟩
  | succ n ih =>
    have h1 := step_out_le c s (.drain 1) h
    have h2 := step_out_le c (step c s (.drain 1)).1 .eval h1
    obtain ⟨a, b, d⟩ := ih (step c (step c s (.drain 1)).1 .eval).1 h2
    have hroom : (step c s (.drain 1)).1.out.length < c.aceCap := by
      show (s.out.drop 1).length < _
      rw [List.length_drop]; omega
    refine ⟨?_, ?_, ?_⟩
    · simp only [fairCycles, legalRun, legal, Bool.true_and]; exact a
    · simp only [fairCycles, List.all_cons, notMemIssue, Bool.true_and]; exact b
    · have e1 : ¬ (Op.drain 1 = Op.eval ∧ s.out.length < c.aceCap) := fun hh => by cases hh.1
      have e2 : Op.eval = Op.eval ∧ (step c s (.drain 1)).1.out.length < c.aceCap := ⟨rfl, hroom⟩
      show n + 1 ≤ roomEvals c s (.drain 1 :: .eval :: fairCycles n)
      rw [roomEvals, roomEvals, if_neg e1, if_pos e2]
      omega

theorem run_out_le (c : Cfg) (ops : List Op) (s : State) (h : s.out.length ≤ c.aceCap) :
    (run c s ops).out.length ≤ c.aceCap := by
  unfold run
  induction ops generalizing s with
  | nil => exact h
  | cons o ops ih => exact ih _ (step_out_le c s o h)


end C14
