import MgpuProofs.C02WfStep
/-! The instruction-fetch part of the C02 wavefront machine on its own: no hazard hypothesis. -/
namespace C02.Wf

variable {P : Prog}

/-- the buffer is a window of instruction memory; a decoded / issued instruction is the one at the PC -/
structure FInv (P : Prog) (T : TState) : Prop where
  f : InvF P T.ibStart T.ib T.toIssue T.ph T.pc
  cur : T.ph = .issued → ∃ i, T.cur = some i ∧ P.instAt T.pc = some i

theorem FInv.toIssue_none {T : TState} (h : FInv P T) (hph : T.ph ≠ .ready) : T.toIssue = none := by
  cases ht : T.toIssue with
  | none => rfl
  | some i => exact absurd (h.f.tok i ht).1 hph

theorem finv_advance {s s' : TState} {i : Inst} (ha : advance s i = some s')
    (hf : InvF P s.ibStart s.ib s.toIssue s.ph s.pc) (hph : s.ph ≠ .ready) :
    FInv P s' := by
  obtain ⟨st, ib, hrs, rfl⟩ := advance_eq s i s' ha
  refine ⟨⟨removeStale_ibok P _ _ _ st ib hf.ibok hrs, ?_⟩, ?_⟩
  · intro j hj
    exact absurd (hf.tok j hj).1 hph
  · intro hc; cases hc

theorem finv_setReady {s s' : TState} (ha : setReady s = some s')
    (hf : InvF P s.ibStart s.ib s.toIssue s.ph s.pc) (hph : s.ph ≠ .ready) :
    FInv P s' := by
  obtain ⟨st, ib, hrs, rfl⟩ := setReady_eq s s' ha
  refine ⟨⟨removeStale_ibok P _ _ _ st ib hf.ibok hrs, ?_⟩, ?_⟩
  · intro j hj
    exact absurd (hf.tok j hj).1 hph
  · intro hc; cases hc

theorem finv_step (hP : P.WF) {gate} {T T' : TState} (e : Ev) (h : FInv P T) (ht : tstep P gate T e = some T') :
    FInv P T' := by
  cases e with
  | fetch =>
    simp only [tstep] at ht
    split at ht
    · cases ht
      refine ⟨⟨?_, h.f.tok⟩, h.cur⟩
      intro k hk
      by_cases he : T.ib = []
      · simp [he] at hk
      · simp only [he, if_false]; exact h.f.ibok k hk
    · cases ht
  | fetchRet =>
    simp only [tstep] at ht
    split at ht
    · cases ht
    · rename_i a _
      split at ht
      · cases ht
        refine ⟨⟨?_, h.f.tok⟩, h.cur⟩
        intro k hk
        show (T.ib ++ P.window a 64)[k] = P.imem (T.ibStart + k)
        by_cases hlt : k < T.ib.length
        · rw [List.getElem_append_left hlt]; exact h.f.ibok k hlt
        · rw [List.getElem_append_right (by omega)]
          simp only [Prog.window, List.getElem_map, List.getElem_range]
          congr 1; omega
      · cases ht; exact ⟨h.f, h.cur⟩
  | resync =>
    simp only [tstep] at ht
    split at ht
    · rename_i he
      cases ht
      refine ⟨⟨?_, h.f.tok⟩, h.cur⟩
      intro k hk; simp [he] at hk
    · cases ht
  | decode =>
    simp only [tstep] at ht
    split at ht
    · cases ht
    · split at ht
      · rename_i hc
        split at ht
        · cases ht
        · rename_i i hd
          cases ht
          refine ⟨⟨h.f.ibok, ?_⟩, h.cur⟩
          intro j hj; cases hj
          exact ⟨hc.2.1, decode_instAt P hP T.ibStart T.pc T.ib i h.f.ibok hc.2.2.1 hd⟩
      · cases ht
  | issue =>
    simp only [tstep] at ht
    split at ht
    · cases ht
    · rename_i i hi
      split at ht
      · cases ht
        refine ⟨⟨h.f.ibok, ?_⟩, ?_⟩
        · intro j hj; cases hj
        · intro _; exact ⟨i, rfl, (h.f.tok i hi).2⟩
      · cases ht
  | exec =>
    simp only [tstep] at ht
    split at ht
    · cases ht
    · rename_i i hcur
      split at ht
      · rename_i hph
        have hne : T.ph ≠ .ready := by rw [hph]; decide
        have hti := h.toIssue_none hne
        cases hk : i.kind with
        | alu u =>
          simp only [hk] at ht
          split at ht <;> cases ht <;>
            exact ⟨⟨h.f.ibok, fun j hj => by rw [hti] at hj; cases hj⟩, fun hc => by cases hc⟩
        | branch =>
          simp only [hk] at ht; cases ht
          exact ⟨⟨h.f.ibok, fun j hj => by rw [hti] at hj; cases hj⟩, fun hc => by cases hc⟩
        | vload =>
          simp only [hk] at ht
          split at ht
          · split at ht
            · cases ht
            · exact finv_advance ht h.f hne
          · exact finv_advance ht h.f hne
        | vstore =>
          simp only [hk] at ht
          split at ht
          · split at ht
            · cases ht
            · exact finv_advance ht h.f hne
          · exact finv_advance ht h.f hne
        | sload =>
          simp only [hk] at ht
          exact finv_advance ht h.f hne
        | wait a b => simp only [hk] at ht; cases ht
        | nop => simp only [hk] at ht; cases ht
        | endpgm => simp only [hk] at ht; cases ht
      · cases ht
  | complete =>
    simp only [tstep] at ht
    split at ht
    · cases ht
    · rename_i i hcur
      cases hk : i.kind with
      | alu u =>
        simp only [hk] at ht
        split at ht
        · rename_i hph
          split at ht
          · exact finv_setReady ht h.f (by rw [hph]; decide)
          · exact finv_advance ht h.f (by rw [hph]; decide)
        · cases ht
      | branch =>
        simp only [hk] at ht
        split at ht
        · rename_i hph
          cases ht
          have hti := h.toIssue_none (by rw [hph]; decide)
          exact ⟨⟨fun k hk' => by simp at hk', fun j hj => by rw [hti] at hj; cases hj⟩, fun hc => by cases hc⟩
        · cases ht
      | wait a b =>
        simp only [hk] at ht
        split at ht
        · rename_i hc; exact finv_advance ht h.f (by rw [hc.1]; decide)
        · cases ht
      | nop =>
        simp only [hk] at ht
        split at ht
        · rename_i hph; exact finv_advance ht h.f (by rw [hph]; decide)
        · cases ht
      | endpgm =>
        simp only [hk] at ht
        split at ht
        · rename_i hc
          cases ht
          have hti := h.toIssue_none (by rw [hc.1]; decide)
          exact ⟨⟨h.f.ibok, fun j hj => by rw [hti] at hj; cases hj⟩, fun hc' => by cases hc'⟩
        · cases ht
      | vload => simp only [hk] at ht; cases ht
      | vstore => simp only [hk] at ht; cases ht
      | sload => simp only [hk] at ht; cases ht
  | serveV k =>
    simp only [tstep] at ht
    split at ht
    · cases ht
    · split at ht
      · cases ht
      · split at ht <;> (cases ht; exact ⟨h.f, h.cur⟩)
  | serveS k =>
    simp only [tstep] at ht
    split at ht
    · cases ht
    · split at ht
      · cases ht
      · cases ht; exact ⟨h.f, h.cur⟩
  | retV =>
    simp only [tstep] at ht
    split at ht
    · cases ht
    · split at ht
      · cases ht
      · cases ht; exact ⟨h.f, h.cur⟩
  | retS k =>
    simp only [tstep] at ht
    split at ht
    · cases ht
    · split at ht
      · cases ht
      · cases ht; exact ⟨h.f, h.cur⟩
  | env a v =>
    simp only [tstep] at ht
    split at ht
    · cases ht; exact ⟨h.f, h.cur⟩
    · cases ht

theorem finv_run (hP : P.WF) {gate} : ∀ (evs : List Ev) (T T' : TState), FInv P T →
    trun P gate T evs = some T' → FInv P T' := by
  intro evs
  induction evs with
  | nil => intro T T' h ht; simp only [trun] at ht; cases ht; exact h
  | cons e es ih =>
    intro T T' h ht
    simp only [trun] at ht
    cases hs : tstep P gate T e with
    | none => simp [hs] at ht
    | some T1 =>
      simp only [hs] at ht
      exact ih T1 T' (finv_step hP e h hs) ht

theorem finv_init (pc : Nat) (regs : RF) (mem : Mem) : FInv P (tinit pc regs mem) :=
  ⟨⟨fun k hk => by simp [tinit] at hk, fun i hi => by simp [tinit] at hi⟩, fun hc => by simp [tinit] at hc⟩

end C02.Wf
