import MgpuProofs.C04Norm
/-! `norm_X` / `desc_X` for sop2, sopk, sop1, sopc, sopp -/
namespace C04
open Gen
set_option linter.unusedSimpArgs false
set_option linter.unusedVariables false

theorem ns_olit_setCount (s : Opnd) (n : Nat) : olit (some (s.setCount n)) = olit (some s) := by
  cases s <;> rfl
theorem ns_olit_ite (b : Bool) (s : Opnd) (n : Nat) : olit (some (if b = true then s.setCount n else s)) = olit (some s) := by
  cases b <;> simp [ns_olit_setCount]
theorem ns_ocode_ite (b : Bool) (s : Opnd) (n : Nat) : ocode (some (if b = true then s.setCount n else s)) = s.code := by
  cases b <;> simp [ocode, setCount_code]
theorem ns_olit_setLit (s : Opnd) (l : Nat) : olit (some (setLit s l)) = if s.isLit = true then some l else none := by
  cases s <;> simp [setLit, olit, Opnd.isLit]
theorem ns_olit_nl (s : Opnd) (h : s.isLit = false) : olit (some s) = none := by
  cases s <;> simp_all [olit, Opnd.isLit]
theorem ns_olit_with64 (w : Nat) (s : Opnd) : olit (some (with64 w s)) = olit (some s) := by
  unfold with64; split
  · exact ns_olit_setCount s 2
  · rfl
theorem ns_with64_setLit (w : Nat) (s : Opnd) (l : Nat) : setLit (with64 w s) l = with64 w (setLit s l) := by
  unfold with64; split
  · cases s <;> rfl
  · rfl

theorem norm_sop2 (c : Bool) (f : Format) (row : Row) (w0 : Nat) (w1? : Option Nat)
    (hf : f.ft = FT_SOP2) (hsz : f.size = 4) (hw0 : w0 < 2 ^ 32) (hw1 : ∀ w1, w1? = some w1 → w1 < 2 ^ 32) :
    decodeRow c f row (normRow c f.ft row w0 w1?).1 (normRow c f.ft row w0 w1?).2 = decodeRow c f row w0 w1? := by
  have hn : normRow c f.ft row w0 w1? = (w0, if (extractBits w0 0 7 == 255 || extractBits w0 8 15 == 255) = true then w1? else none) := by
    simp [normRow, usesSecond4, hf, FT_SMEM, FT_VOP3a, FT_VOP3b, FT_DS, FT_FLAT, FT_VOP2, FT_SOP2]
  rw [hn]
  by_cases hu : (extractBits w0 0 7 == 255 || extractBits w0 8 15 == 255) = true
  · simp only [hu, if_true]
  · simp only [hu, if_false]
    unfold decodeRow
    simp only [hsz, hf, FT_SOP2, Nat.reduceBEq, Bool.false_eq_true, if_false, BEq.rfl, if_true, dec4, decodeSOP2]
    cases hg0 : getOperand (extractBits w0 0 7) with
    | none => simp only []
    | some s0 =>
      cases hg1 : getOperand (extractBits w0 8 15) with
      | none => simp only []
      | some s1 =>
        cases hgd : getOperand (extractBits w0 16 22) with
        | none => simp only []
        | some d =>
          have l0 := getOperand_isLit (by have := extractBits_lt w0 0 7; omega) hg0
          have l1 := getOperand_isLit (by have := extractBits_lt w0 8 15; omega) hg1
          simp only [l0, l1, hu, if_false, Bool.false_eq_true]
theorem ns_lit255 {s : Opnd} (h : getOperand 255 = some s) : s = .lit 255 0 := by
  have : getOperand 255 = some (.lit 255 0) := by decide
  rw [this] at h; exact (Option.some.inj h).symm

theorem desc_sop2 (c : Bool) (f : Format) (row : Row) (w0 : Nat) (w1? : Option Nat) (i : Inst)
    (hf : f.ft = FT_SOP2) (hsz : f.size = 4) (hw0 : w0 < 2 ^ 32) (hw1 : ∀ w1, w1? = some w1 → w1 < 2 ^ 32)
    (henc : w0 / 2 ^ 30 = 2) (hop : extractBits w0 23 29 = row.opcode)
    (h : decodeRow c f row w0 w1? = .ok i) :
    encWord (descOf c i) = (normRow c f.ft row w0 w1?).1 ∧ encSecond (descOf c i) = (normRow c f.ft row w0 w1?).2 := by
  have hn : normRow c f.ft row w0 w1? = (w0, if (extractBits w0 0 7 == 255 || extractBits w0 8 15 == 255) = true then w1? else none) := by
    simp [normRow, usesSecond4, hf, FT_SMEM, FT_VOP3a, FT_VOP3b, FT_DS, FT_FLAT, FT_VOP2, FT_SOP2]
  rw [hn]
  unfold decodeRow at h
  simp only [hsz, hf, FT_SOP2, Nat.reduceBEq, Bool.false_eq_true, if_false, BEq.rfl, if_true, dec4, decodeSOP2] at h
  cases hg0 : getOperand (extractBits w0 0 7) with
  | none => simp [hg0] at h
  | some s0 =>
    cases hg1 : getOperand (extractBits w0 8 15) with
    | none => simp [hg0, hg1] at h
    | some s1 =>
      cases hgd : getOperand (extractBits w0 16 22) with
      | none => simp [hg0, hg1, hgd] at h
      | some d =>
        have l0 := getOperand_isLit (by have := extractBits_lt w0 0 7; omega) hg0
        have l1 := getOperand_isLit (by have := extractBits_lt w0 8 15; omega) hg1
        have c0 := getOperand_code (by have := extractBits_lt w0 0 7; omega) hg0
        have c1 := getOperand_code (by have := extractBits_lt w0 8 15; omega) hg1
        have cd := getOperand_code (by have := extractBits_lt w0 16 22; omega) hgd
        simp only [hg0, hg1, hgd, l0, l1] at h
        by_cases hu : (extractBits w0 0 7 == 255 || extractBits w0 8 15 == 255) = true
        · simp only [hu, if_true] at h ⊢
          cases w1? with
          | none => simp at h
          | some w1 =>
            simp only [Outcome.setSize, Outcome.ok.injEq] at h
            subst h
            constructor
            · simp only [descOf, encWord, FT_SOP2, Nat.reduceBEq, Bool.false_eq_true, if_false, BEq.rfl, if_true,
                ns_ocode_ite, setLit_code, c0, c1, cd]
              rw [← hop]; unfold extractBits at *; omega
            · simp only [descOf, encSecond, FT_SOP2, FT_SOPK, FT_SOP1, FT_SOPC, FT_SOPP, FT_SMEM, FT_VOP2, FT_VOP1, FT_VOPC,
                FT_VOP3a, FT_VOP3b, FT_FLAT, FT_DS, Nat.reduceBEq, Bool.false_eq_true, if_false, BEq.rfl, if_true,
                Bool.or_false, Bool.and_false, Bool.false_and,
                ns_olit_ite, ns_olit_setLit, l0, l1]
              simp only [Bool.or_eq_true] at hu
              rcases hu with hu | hu
              · simp [hu, orr]
              · by_cases h0 : (extractBits w0 0 7 == 255) = true <;> simp [hu, h0, orr]
        · simp only [hu, if_false, Bool.false_eq_true, Outcome.ok.injEq] at h ⊢
          subst h
          constructor
          · simp only [descOf, encWord, FT_SOP2, Nat.reduceBEq, Bool.false_eq_true, if_false, BEq.rfl, if_true,
              ns_ocode_ite, setLit_code, c0, c1, cd]
            rw [← hop]; unfold extractBits at *; omega
          · simp only [Bool.or_eq_true, not_or, Bool.not_eq_true] at hu
            simp only [descOf, encSecond, FT_SOP2, FT_SOPK, FT_SOP1, FT_SOPC, FT_SOPP, FT_SMEM, FT_VOP2, FT_VOP1, FT_VOPC,
                FT_VOP3a, FT_VOP3b, FT_FLAT, FT_DS, Nat.reduceBEq, Bool.false_eq_true, if_false, BEq.rfl, if_true,
                Bool.or_false, Bool.and_false, Bool.false_and,
                ns_olit_ite, ns_olit_nl s0 (l0.trans hu.1), ns_olit_nl s1 (l1.trans hu.2), orr]
theorem norm_sopc (c : Bool) (f : Format) (row : Row) (w0 : Nat) (w1? : Option Nat)
    (hf : f.ft = FT_SOPC) (hsz : f.size = 4) (hw0 : w0 < 2 ^ 32) (hw1 : ∀ w1, w1? = some w1 → w1 < 2 ^ 32) :
    decodeRow c f row (normRow c f.ft row w0 w1?).1 (normRow c f.ft row w0 w1?).2 = decodeRow c f row w0 w1? := by
  have hn : normRow c f.ft row w0 w1? = (w0, if (extractBits w0 0 7 == 255 || extractBits w0 8 15 == 255) = true then w1? else none) := by
    simp [normRow, usesSecond4, hf, FT_SMEM, FT_VOP3a, FT_VOP3b, FT_DS, FT_FLAT, FT_VOP2, FT_SOP2, FT_SOPC]
  rw [hn]
  by_cases hu : (extractBits w0 0 7 == 255 || extractBits w0 8 15 == 255) = true
  · simp only [hu, if_true]
  · simp only [hu, if_false]
    unfold decodeRow
    simp only [hsz, hf, FT_SOP2, FT_SOPK, FT_SOP1, FT_SOPC, FT_SOPP, FT_VOP2, FT_VOP1, FT_VOPC, Nat.reduceBEq,
      Bool.false_eq_true, if_false, BEq.rfl, if_true, dec4, decodeSOPC]
    cases hg0 : getOperand (extractBits w0 0 7) with
    | none => simp only []
    | some s0 =>
      cases hg1 : getOperand (extractBits w0 8 15) with
      | none => simp only []
      | some s1 =>
        have l0 := getOperand_isLit (by have := extractBits_lt w0 0 7; omega) hg0
        have l1 := getOperand_isLit (by have := extractBits_lt w0 8 15; omega) hg1
        simp only [l0, l1, hu, if_false, Bool.false_eq_true]

theorem desc_sopc (c : Bool) (f : Format) (row : Row) (w0 : Nat) (w1? : Option Nat) (i : Inst)
    (hf : f.ft = FT_SOPC) (hsz : f.size = 4) (hw0 : w0 < 2 ^ 32) (hw1 : ∀ w1, w1? = some w1 → w1 < 2 ^ 32)
    (henc : w0 / 2 ^ 23 = 382) (hop : extractBits w0 16 22 = row.opcode)
    (h : decodeRow c f row w0 w1? = .ok i) :
    encWord (descOf c i) = (normRow c f.ft row w0 w1?).1 ∧ encSecond (descOf c i) = (normRow c f.ft row w0 w1?).2 := by
  have hn : normRow c f.ft row w0 w1? = (w0, if (extractBits w0 0 7 == 255 || extractBits w0 8 15 == 255) = true then w1? else none) := by
    simp [normRow, usesSecond4, hf, FT_SMEM, FT_VOP3a, FT_VOP3b, FT_DS, FT_FLAT, FT_VOP2, FT_SOP2, FT_SOPC]
  rw [hn]
  unfold decodeRow at h
  simp only [hsz, hf, FT_SOP2, FT_SOPK, FT_SOP1, FT_SOPC, FT_SOPP, FT_VOP2, FT_VOP1, FT_VOPC, Nat.reduceBEq,
    Bool.false_eq_true, if_false, BEq.rfl, if_true, dec4, decodeSOPC] at h
  cases hg0 : getOperand (extractBits w0 0 7) with
  | none => simp [hg0] at h
  | some s0 =>
    cases hg1 : getOperand (extractBits w0 8 15) with
    | none => simp [hg0, hg1] at h
    | some s1 =>
      have l0 := getOperand_isLit (by have := extractBits_lt w0 0 7; omega) hg0
      have l1 := getOperand_isLit (by have := extractBits_lt w0 8 15; omega) hg1
      have c0 := getOperand_code (by have := extractBits_lt w0 0 7; omega) hg0
      have c1 := getOperand_code (by have := extractBits_lt w0 8 15; omega) hg1
      simp only [hg0, hg1, l0, l1] at h
      by_cases hu : (extractBits w0 0 7 == 255 || extractBits w0 8 15 == 255) = true
      · simp only [hu, if_true] at h ⊢
        cases w1? with
        | none => simp at h
        | some w1 =>
          simp only [Outcome.setSize, Outcome.ok.injEq] at h
          subst h
          constructor
          · simp only [descOf, encWord, FT_SOP2, FT_SOPK, FT_SOP1, FT_SOPC, Nat.reduceBEq, Bool.false_eq_true, if_false,
              BEq.rfl, if_true, ocode, setLit_code, c0, c1]
            rw [← hop]; unfold extractBits at *; omega
          · simp only [descOf, encSecond, FT_SOP2, FT_SOPK, FT_SOP1, FT_SOPC, FT_SOPP, FT_SMEM, FT_VOP2, FT_VOP1, FT_VOPC,
              FT_VOP3a, FT_VOP3b, FT_FLAT, FT_DS, Nat.reduceBEq, Bool.false_eq_true, if_false, BEq.rfl, if_true,
              Bool.or_false, Bool.and_false, Bool.false_and,
              ns_olit_setLit, l0, l1]
            simp only [Bool.or_eq_true] at hu
            rcases hu with hu | hu
            · simp [hu, orr]
            · by_cases h0 : (extractBits w0 0 7 == 255) = true <;> simp [hu, h0, orr]
      · simp only [hu, if_false, Bool.false_eq_true, Outcome.ok.injEq] at h ⊢
        subst h
        constructor
        · simp only [descOf, encWord, FT_SOP2, FT_SOPK, FT_SOP1, FT_SOPC, Nat.reduceBEq, Bool.false_eq_true, if_false,
            BEq.rfl, if_true, ocode, setLit_code, c0, c1]
          rw [← hop]; unfold extractBits at *; omega
        · simp only [Bool.or_eq_true, not_or, Bool.not_eq_true] at hu
          simp only [descOf, encSecond, FT_SOP2, FT_SOPK, FT_SOP1, FT_SOPC, FT_SOPP, FT_SMEM, FT_VOP2, FT_VOP1, FT_VOPC,
              FT_VOP3a, FT_VOP3b, FT_FLAT, FT_DS, Nat.reduceBEq, Bool.false_eq_true, if_false, BEq.rfl, if_true,
              Bool.or_false, Bool.and_false, Bool.false_and,
              ns_olit_nl s0 (l0.trans hu.1), ns_olit_nl s1 (l1.trans hu.2), orr]

theorem norm_sop1 (c : Bool) (f : Format) (row : Row) (w0 : Nat) (w1? : Option Nat)
    (hf : f.ft = FT_SOP1) (hsz : f.size = 4) (hw0 : w0 < 2 ^ 32) (hw1 : ∀ w1, w1? = some w1 → w1 < 2 ^ 32) :
    decodeRow c f row (normRow c f.ft row w0 w1?).1 (normRow c f.ft row w0 w1?).2 = decodeRow c f row w0 w1? := by
  have hn : normRow c f.ft row w0 w1? = (w0, if (extractBits w0 0 7 == 255) = true then w1? else none) := by
    simp [normRow, usesSecond4, hf, FT_SMEM, FT_VOP3a, FT_VOP3b, FT_DS, FT_FLAT, FT_VOP2, FT_SOP2, FT_SOPC, FT_SOP1]
  rw [hn]
  by_cases hu : (extractBits w0 0 7 == 255) = true
  · simp only [hu, if_true]
  · simp only [hu, if_false]
    unfold decodeRow
    simp only [hsz, hf, FT_SOP2, FT_SOPK, FT_SOP1, FT_SOPC, FT_SOPP, FT_VOP2, FT_VOP1, FT_VOPC, Nat.reduceBEq,
      Bool.false_eq_true, if_false, BEq.rfl, if_true, dec4, decodeSOP1]
    cases hg0 : getOperand (extractBits w0 0 7) with
    | none => simp only []
    | some s0 =>
      cases hgd : getOperand (extractBits w0 16 22) with
      | none => simp only []
      | some d =>
        have l0 := getOperand_isLit (by have := extractBits_lt w0 0 7; omega) hg0
        simp only [with64_isLit, l0, hu, if_false, Bool.false_eq_true]

theorem desc_sop1 (c : Bool) (f : Format) (row : Row) (w0 : Nat) (w1? : Option Nat) (i : Inst)
    (hf : f.ft = FT_SOP1) (hsz : f.size = 4) (hw0 : w0 < 2 ^ 32) (hw1 : ∀ w1, w1? = some w1 → w1 < 2 ^ 32)
    (henc : w0 / 2 ^ 23 = 381) (hop : extractBits w0 8 15 = row.opcode)
    (h : decodeRow c f row w0 w1? = .ok i) :
    encWord (descOf c i) = (normRow c f.ft row w0 w1?).1 ∧ encSecond (descOf c i) = (normRow c f.ft row w0 w1?).2 := by
  have hn : normRow c f.ft row w0 w1? = (w0, if (extractBits w0 0 7 == 255) = true then w1? else none) := by
    simp [normRow, usesSecond4, hf, FT_SMEM, FT_VOP3a, FT_VOP3b, FT_DS, FT_FLAT, FT_VOP2, FT_SOP2, FT_SOPC, FT_SOP1]
  rw [hn]
  unfold decodeRow at h
  simp only [hsz, hf, FT_SOP2, FT_SOPK, FT_SOP1, FT_SOPC, FT_SOPP, FT_VOP2, FT_VOP1, FT_VOPC, Nat.reduceBEq,
    Bool.false_eq_true, if_false, BEq.rfl, if_true, dec4, decodeSOP1] at h
  cases hg0 : getOperand (extractBits w0 0 7) with
  | none => simp [hg0] at h
  | some s0 =>
    cases hgd : getOperand (extractBits w0 16 22) with
    | none => simp [hg0, hgd] at h
    | some d =>
      have l0 := getOperand_isLit (by have := extractBits_lt w0 0 7; omega) hg0
      have c0 := getOperand_code (by have := extractBits_lt w0 0 7; omega) hg0
      have cd := getOperand_code (by have := extractBits_lt w0 16 22; omega) hgd
      simp only [hg0, hgd, with64_isLit, l0] at h
      by_cases hu : (extractBits w0 0 7 == 255) = true
      · simp only [hu, if_true] at h ⊢
        cases w1? with
        | none => simp at h
        | some w1 =>
          simp only [Outcome.setSize, Outcome.ok.injEq] at h
          subst h
          constructor
          · simp only [descOf, encWord, FT_SOP2, FT_SOPK, FT_SOP1, FT_SOPC, Nat.reduceBEq, Bool.false_eq_true, if_false,
              BEq.rfl, if_true, ocode, setLit_code, with64_code, c0, cd]
            rw [← hop]; unfold extractBits at *; omega
          · simp only [descOf, encSecond, FT_SOP2, FT_SOPK, FT_SOP1, FT_SOPC, FT_SOPP, FT_SMEM, FT_VOP2, FT_VOP1, FT_VOPC,
              FT_VOP3a, FT_VOP3b, FT_FLAT, FT_DS, Nat.reduceBEq, Bool.false_eq_true, if_false, BEq.rfl, if_true,
              Bool.or_false, Bool.and_false, Bool.false_and,
              ns_olit_setLit, with64_isLit, l0, hu]
      · simp only [hu, if_false, Bool.false_eq_true, Outcome.ok.injEq] at h ⊢
        subst h
        constructor
        · simp only [descOf, encWord, FT_SOP2, FT_SOPK, FT_SOP1, FT_SOPC, Nat.reduceBEq, Bool.false_eq_true, if_false,
            BEq.rfl, if_true, ocode, setLit_code, with64_code, c0, cd]
          rw [← hop]; unfold extractBits at *; omega
        · simp only [Bool.not_eq_true] at hu
          simp only [descOf, encSecond, FT_SOP2, FT_SOPK, FT_SOP1, FT_SOPC, FT_SOPP, FT_SMEM, FT_VOP2, FT_VOP1, FT_VOPC,
              FT_VOP3a, FT_VOP3b, FT_FLAT, FT_DS, Nat.reduceBEq, Bool.false_eq_true, if_false, BEq.rfl, if_true,
              Bool.or_false, Bool.and_false, Bool.false_and,
              ns_olit_with64, ns_olit_nl s0 (l0.trans hu)]
theorem norm_sopk (c : Bool) (f : Format) (row : Row) (w0 : Nat) (w1? : Option Nat)
    (hf : f.ft = FT_SOPK) (hsz : f.size = 4) (hw0 : w0 < 2 ^ 32) (hw1 : ∀ w1, w1? = some w1 → w1 < 2 ^ 32) :
    decodeRow c f row (normRow c f.ft row w0 w1?).1 (normRow c f.ft row w0 w1?).2 = decodeRow c f row w0 w1? := by
  have hn : normRow c f.ft row w0 w1? = (w0, if (row.opcode == 20) = true then w1? else none) := by
    simp [normRow, usesSecond4, hf, FT_SMEM, FT_VOP3a, FT_VOP3b, FT_DS, FT_FLAT, FT_VOP2, FT_SOP2, FT_SOPC, FT_SOP1,
      FT_SOPK, FT_VOP1, FT_VOPC]
  rw [hn]
  by_cases hu : (row.opcode == 20) = true
  · simp only [hu, if_true]
  · simp only [hu, if_false]
    unfold decodeRow
    simp only [hsz, hf, FT_SOP2, FT_SOPK, FT_SOP1, FT_SOPC, FT_SOPP, FT_VOP2, FT_VOP1, FT_VOPC, Nat.reduceBEq,
      Bool.false_eq_true, if_false, BEq.rfl, if_true, dec4, decodeSOPK]
    cases hgd : getOperand (extractBits w0 16 22) with
    | none => simp only []
    | some d => simp only [hu, if_false, Bool.false_eq_true]

theorem desc_sopk (c : Bool) (f : Format) (row : Row) (w0 : Nat) (w1? : Option Nat) (i : Inst)
    (hf : f.ft = FT_SOPK) (hsz : f.size = 4) (hw0 : w0 < 2 ^ 32) (hw1 : ∀ w1, w1? = some w1 → w1 < 2 ^ 32)
    (henc : w0 / 2 ^ 28 = 11) (hop : extractBits w0 23 27 = row.opcode)
    (h : decodeRow c f row w0 w1? = .ok i) :
    encWord (descOf c i) = (normRow c f.ft row w0 w1?).1 ∧ encSecond (descOf c i) = (normRow c f.ft row w0 w1?).2 := by
  have hn : normRow c f.ft row w0 w1? = (w0, if (row.opcode == 20) = true then w1? else none) := by
    simp [normRow, usesSecond4, hf, FT_SMEM, FT_VOP3a, FT_VOP3b, FT_DS, FT_FLAT, FT_VOP2, FT_SOP2, FT_SOPC, FT_SOP1,
      FT_SOPK, FT_VOP1, FT_VOPC]
  rw [hn]
  unfold decodeRow at h
  simp only [hsz, hf, FT_SOP2, FT_SOPK, FT_SOP1, FT_SOPC, FT_SOPP, FT_VOP2, FT_VOP1, FT_VOPC, Nat.reduceBEq,
    Bool.false_eq_true, if_false, BEq.rfl, if_true, dec4, decodeSOPK] at h
  cases hgd : getOperand (extractBits w0 16 22) with
  | none => simp [hgd] at h
  | some d =>
    have cd := getOperand_code (by have := extractBits_lt w0 16 22; omega) hgd
    by_cases hu : (row.opcode == 20) = true
    · simp only [hgd, hu, if_true] at h
      cases hw : w1? with
      | none => simp [hw] at h
      | some w1 =>
        simp only [hw, Outcome.setSize, Outcome.ok.injEq] at h
        subst h
        constructor
        · simp only [descOf, encWord, FT_SOP2, FT_SOPK, FT_SOP1, FT_SOPC, Nat.reduceBEq, Bool.false_eq_true, if_false,
            BEq.rfl, if_true, ocode, oint, Int.toNat_natCast, cd]
          rw [← hop]; unfold extractBits at *; omega
        · simp only [descOf, encSecond, FT_SOP2, FT_SOPK, FT_SOP1, FT_SOPC, FT_SOPP, FT_SMEM, FT_VOP2, FT_VOP1, FT_VOPC,
            FT_VOP3a, FT_VOP3b, FT_FLAT, FT_DS, Nat.reduceBEq, Bool.false_eq_true, if_false, BEq.rfl, if_true,
            Bool.or_false, Bool.and_false, Bool.false_and, olit, hu]
    · simp only [hgd, hu, if_false, Bool.false_eq_true, Outcome.ok.injEq] at h
      subst h
      constructor
      · simp only [descOf, encWord, FT_SOP2, FT_SOPK, FT_SOP1, FT_SOPC, Nat.reduceBEq, Bool.false_eq_true, if_false,
          BEq.rfl, if_true, ocode, oint, Int.toNat_natCast, cd]
        rw [← hop]; unfold extractBits at *; omega
      · simp only [descOf, encSecond, FT_SOP2, FT_SOPK, FT_SOP1, FT_SOPC, FT_SOPP, FT_SMEM, FT_VOP2, FT_VOP1, FT_VOPC,
          FT_VOP3a, FT_VOP3b, FT_FLAT, FT_DS, Nat.reduceBEq, Bool.false_eq_true, if_false, BEq.rfl, if_true,
          Bool.or_false, Bool.and_false, Bool.false_and, olit, hu]

theorem norm_sopp (c : Bool) (f : Format) (row : Row) (w0 : Nat) (w1? : Option Nat)
    (hf : f.ft = FT_SOPP) (hsz : f.size = 4) (hw0 : w0 < 2 ^ 32) (hw1 : ∀ w1, w1? = some w1 → w1 < 2 ^ 32) :
    decodeRow c f row (normRow c f.ft row w0 w1?).1 (normRow c f.ft row w0 w1?).2 = decodeRow c f row w0 w1? := by
  have hn : normRow c f.ft row w0 w1? = (w0, none) := by
    simp [normRow, usesSecond4, hf, FT_SMEM, FT_VOP3a, FT_VOP3b, FT_DS, FT_FLAT, FT_VOP2, FT_SOP2, FT_SOPC, FT_SOP1,
      FT_SOPK, FT_SOPP, FT_VOP1, FT_VOPC]
  rw [hn]
  unfold decodeRow
  simp only [hsz, hf, FT_SOP2, FT_SOPK, FT_SOP1, FT_SOPC, FT_SOPP, FT_VOP2, FT_VOP1, FT_VOPC, Nat.reduceBEq,
    Bool.false_eq_true, if_false, BEq.rfl, if_true, dec4, decodeSOPP]
  by_cases h12 : row.opcode = 12
  · simp only [h12, BEq.rfl, if_true]
  · have : (row.opcode == 12) = false := by simp [h12]
    simp only [this, Bool.false_eq_true, if_false]

theorem desc_sopp (c : Bool) (f : Format) (row : Row) (w0 : Nat) (w1? : Option Nat) (i : Inst)
    (hf : f.ft = FT_SOPP) (hsz : f.size = 4) (hw0 : w0 < 2 ^ 32) (hw1 : ∀ w1, w1? = some w1 → w1 < 2 ^ 32)
    (henc : w0 / 2 ^ 23 = 383) (hop : extractBits w0 16 22 = row.opcode)
    (h : decodeRow c f row w0 w1? = .ok i) :
    encWord (descOf c i) = (normRow c f.ft row w0 w1?).1 ∧ encSecond (descOf c i) = (normRow c f.ft row w0 w1?).2 := by
  have hn : normRow c f.ft row w0 w1? = (w0, none) := by
    simp [normRow, usesSecond4, hf, FT_SMEM, FT_VOP3a, FT_VOP3b, FT_DS, FT_FLAT, FT_VOP2, FT_SOP2, FT_SOPC, FT_SOP1,
      FT_SOPK, FT_SOPP, FT_VOP1, FT_VOPC]
  rw [hn]
  unfold decodeRow at h
  simp only [hsz, hf, FT_SOP2, FT_SOPK, FT_SOP1, FT_SOPC, FT_SOPP, FT_VOP2, FT_VOP1, FT_VOPC, Nat.reduceBEq,
    Bool.false_eq_true, if_false, BEq.rfl, if_true, dec4, decodeSOPP] at h
  by_cases h12 : row.opcode = 12
  · simp only [h12, BEq.rfl, if_true, Outcome.ok.injEq] at h
    subst h
    constructor
    · simp only [descOf, encWord, FT_SOP2, FT_SOPK, FT_SOP1, FT_SOPC, FT_SOPP, Nat.reduceBEq, Bool.false_eq_true, if_false,
        BEq.rfl, if_true, ocode, oint, Int.toNat_natCast]
      rw [h12] at hop; rw [← hop]; unfold extractBits at *; omega
    · simp only [descOf, encSecond, FT_SOP2, FT_SOPK, FT_SOP1, FT_SOPC, FT_SOPP, FT_SMEM, FT_VOP2, FT_VOP1, FT_VOPC,
        FT_VOP3a, FT_VOP3b, FT_FLAT, FT_DS, Nat.reduceBEq, Bool.false_eq_true, if_false, BEq.rfl, if_true,
        Bool.or_false, Bool.and_false, Bool.false_and]
  · have h12' : (row.opcode == 12) = false := by simp [h12]
    simp only [h12', Bool.false_eq_true, if_false, Outcome.ok.injEq] at h
    subst h
    constructor
    · simp only [descOf, encWord, FT_SOP2, FT_SOPK, FT_SOP1, FT_SOPC, FT_SOPP, Nat.reduceBEq, Bool.false_eq_true, if_false,
        BEq.rfl, if_true, ocode, oint, Int.toNat_natCast]
      rw [← hop]; unfold extractBits at *; omega
    · simp only [descOf, encSecond, FT_SOP2, FT_SOPK, FT_SOP1, FT_SOPC, FT_SOPP, FT_SMEM, FT_VOP2, FT_VOP1, FT_VOPC,
        FT_VOP3a, FT_VOP3b, FT_FLAT, FT_DS, Nat.reduceBEq, Bool.false_eq_true, if_false, BEq.rfl, if_true,
        Bool.or_false, Bool.and_false, Bool.false_and]
end C04
