import MgpuProofs.C04Norm
/-! `norm_X` / `desc_X` for sop2, sopk, sop1, sopc, sopp -/
namespace C04
open Gen
set_option linter.unusedSimpArgs false
set_option linter.unusedVariables false

theorem norm_sop2 (c : Bool) (f : Format) (row : Row) (w0 : Nat) (w1? : Option Nat)
    (hf : f.ft = FT_SOP2) (hsz : f.size = 4) (hw0 : w0 < 2 ^ 32) (hw1 : ∀ w1, w1? = some w1 → w1 < 2 ^ 32) :
    decodeRow c f row (normRow c f.ft row w0 w1?).1 (normRow c f.ft row w0 w1?).2 = decodeRow c f row w0 w1? := by
  sorry

theorem desc_sop2 (c : Bool) (f : Format) (row : Row) (w0 : Nat) (w1? : Option Nat) (i : Inst)
    (hf : f.ft = FT_SOP2) (hsz : f.size = 4) (hw0 : w0 < 2 ^ 32) (hw1 : ∀ w1, w1? = some w1 → w1 < 2 ^ 32)
    (henc : w0 / 2 ^ 30 = 2) (hop : extractBits w0 23 29 = row.opcode)
    (h : decodeRow c f row w0 w1? = .ok i) :
    encWord (descOf c i) = (normRow c f.ft row w0 w1?).1 ∧ encSecond (descOf c i) = (normRow c f.ft row w0 w1?).2 := by
  sorry

theorem norm_sopk (c : Bool) (f : Format) (row : Row) (w0 : Nat) (w1? : Option Nat)
    (hf : f.ft = FT_SOPK) (hsz : f.size = 4) (hw0 : w0 < 2 ^ 32) (hw1 : ∀ w1, w1? = some w1 → w1 < 2 ^ 32) :
    decodeRow c f row (normRow c f.ft row w0 w1?).1 (normRow c f.ft row w0 w1?).2 = decodeRow c f row w0 w1? := by
  sorry

theorem desc_sopk (c : Bool) (f : Format) (row : Row) (w0 : Nat) (w1? : Option Nat) (i : Inst)
    (hf : f.ft = FT_SOPK) (hsz : f.size = 4) (hw0 : w0 < 2 ^ 32) (hw1 : ∀ w1, w1? = some w1 → w1 < 2 ^ 32)
    (henc : w0 / 2 ^ 28 = 11) (hop : extractBits w0 23 27 = row.opcode)
    (h : decodeRow c f row w0 w1? = .ok i) :
    encWord (descOf c i) = (normRow c f.ft row w0 w1?).1 ∧ encSecond (descOf c i) = (normRow c f.ft row w0 w1?).2 := by
  sorry

theorem norm_sop1 (c : Bool) (f : Format) (row : Row) (w0 : Nat) (w1? : Option Nat)
    (hf : f.ft = FT_SOP1) (hsz : f.size = 4) (hw0 : w0 < 2 ^ 32) (hw1 : ∀ w1, w1? = some w1 → w1 < 2 ^ 32) :
    decodeRow c f row (normRow c f.ft row w0 w1?).1 (normRow c f.ft row w0 w1?).2 = decodeRow c f row w0 w1? := by
  sorry

theorem desc_sop1 (c : Bool) (f : Format) (row : Row) (w0 : Nat) (w1? : Option Nat) (i : Inst)
    (hf : f.ft = FT_SOP1) (hsz : f.size = 4) (hw0 : w0 < 2 ^ 32) (hw1 : ∀ w1, w1? = some w1 → w1 < 2 ^ 32)
    (henc : w0 / 2 ^ 23 = 381) (hop : extractBits w0 8 15 = row.opcode)
    (h : decodeRow c f row w0 w1? = .ok i) :
    encWord (descOf c i) = (normRow c f.ft row w0 w1?).1 ∧ encSecond (descOf c i) = (normRow c f.ft row w0 w1?).2 := by
  sorry

theorem norm_sopc (c : Bool) (f : Format) (row : Row) (w0 : Nat) (w1? : Option Nat)
    (hf : f.ft = FT_SOPC) (hsz : f.size = 4) (hw0 : w0 < 2 ^ 32) (hw1 : ∀ w1, w1? = some w1 → w1 < 2 ^ 32) :
    decodeRow c f row (normRow c f.ft row w0 w1?).1 (normRow c f.ft row w0 w1?).2 = decodeRow c f row w0 w1? := by
  sorry

theorem desc_sopc (c : Bool) (f : Format) (row : Row) (w0 : Nat) (w1? : Option Nat) (i : Inst)
    (hf : f.ft = FT_SOPC) (hsz : f.size = 4) (hw0 : w0 < 2 ^ 32) (hw1 : ∀ w1, w1? = some w1 → w1 < 2 ^ 32)
    (henc : w0 / 2 ^ 23 = 382) (hop : extractBits w0 16 22 = row.opcode)
    (h : decodeRow c f row w0 w1? = .ok i) :
    encWord (descOf c i) = (normRow c f.ft row w0 w1?).1 ∧ encSecond (descOf c i) = (normRow c f.ft row w0 w1?).2 := by
  sorry

theorem norm_sopp (c : Bool) (f : Format) (row : Row) (w0 : Nat) (w1? : Option Nat)
    (hf : f.ft = FT_SOPP) (hsz : f.size = 4) (hw0 : w0 < 2 ^ 32) (hw1 : ∀ w1, w1? = some w1 → w1 < 2 ^ 32) :
    decodeRow c f row (normRow c f.ft row w0 w1?).1 (normRow c f.ft row w0 w1?).2 = decodeRow c f row w0 w1? := by
  sorry

theorem desc_sopp (c : Bool) (f : Format) (row : Row) (w0 : Nat) (w1? : Option Nat) (i : Inst)
    (hf : f.ft = FT_SOPP) (hsz : f.size = 4) (hw0 : w0 < 2 ^ 32) (hw1 : ∀ w1, w1? = some w1 → w1 < 2 ^ 32)
    (henc : w0 / 2 ^ 23 = 383) (hop : extractBits w0 16 22 = row.opcode)
    (h : decodeRow c f row w0 w1? = .ok i) :
    encWord (descOf c i) = (normRow c f.ft row w0 w1?).1 ∧ encSecond (descOf c i) = (normRow c f.ft row w0 w1?).2 := by
  sorry

end C04
