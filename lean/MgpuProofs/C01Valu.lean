import MgpuModel.C01_Emu
import MgpuProofs.C01State
/-! # C01 — the vector-ALU specification `C03V.execVALU` as a per-lane function

`execVALU` folds over the 64 lanes, collecting cell writes and a carry / compare mask.  For the
instruction kinds without cross-lane effects and without SDWA / clamp (`Simple`) the committed
state is described lane by lane: `laneO st e l` is what the opcode's lane function returns for lane
`l`; an active lane receives it in `vdst`, inactive lanes and all other registers keep their values,
the mask collects the carry-outs of the active lanes. -/
set_option linter.unusedSimpArgs false
namespace C01
namespace Emu
open C03V

/-- the operand fetch of one lane (`rd` inside `execVALU`) -/
def laneRd (st : St) (e : VEnc) (lane code w idx : Nat) : Nat :=
  let op := e.op
  let isF64 := op.ty == .f64
  let raw := st.src code lane w e.lit isF64
  let raw := if e.sdwa then
      (I.sdwaSrc (w32 raw) (if idx == 0 then e.s0Sel else e.s1Sel) (if idx == 0 then e.s0Sext else e.s1Sext)).toNat
    else raw
  applyMod op.ty w (bit e.abs idx && bit op.modMask idx) (bit e.neg idx && bit op.modMask idx) (if w == 64 then raw % 2 ^ 64 else lo32 raw)

/-- the loop body of `execVALU` -/
def laneStep (st : St) (e : VEnc) (acc : List Wr × Nat) (lane : Nat) : List Wr × Nat :=
  let op := e.op
  let isF64 := op.ty == .f64
  let maskIn := if op.kind == .fmas then st.vcc else st.sreg64 e.msrc
  if !st.exec.testBit lane then acc else
  let rd := fun (code w idx : Nat) => laneRd st e lane code w idx
  let a := rd e.src0 op.w0 0
  let oldD := if op.wd == 64 then st.rv e.vdst lane + st.rv (e.vdst + 1) lane * 2 ^ 32 else st.rv e.vdst lane
  let (b, c) :=
    match op.kind with
    | .madmk => (lo32 e.lit, rd e.src1 op.w1 1)
    | .madak => (rd e.src1 op.w1 1, lo32 e.lit)
    | .mac => (rd e.src1 op.w1 1, oldD)
    | _ => (if op.nsrc ≥ 2 then rd e.src1 op.w1 1 else 0, if op.nsrc ≥ 3 then rd e.src2 op.w2 2 else 0)
  let cin := maskIn.testBit lane
  let o := op.f { a := a, b := b, c := c, cin := cin }
  let d0 :=
    if op.kind == .fmas && cin then
      (if isF64 then F.mul F.f64 o.d 0x43f0000000000000 else F.mul F.f32 o.d 0x4f800000)
    else o.d
  let d1 := if e.clamp && op.arith then (if isF64 then clampF F.f64 d0 else clampF F.f32 d0) else d0
  let d2 := if e.sdwa then (I.sdwaDst (w32 oldD) (w32 d1) e.dstSel e.dstUnused).toNat else d1
  let ws :=
    if op.kind == .cmp then []
    else if op.kind == .movrel then
      [(Cell.v ((e.vdst + st.m0) % 256) lane, st.rv ((e.src0 - 256 + st.m0) % 256) lane)]
    else wrV e.vdst lane op.wd d2
  (acc.1 ++ ws, if o.co then acc.2 + 2 ^ lane else acc.2)

theorem execVALU_unfold (st : St) (e : VEnc) (h : (e.op.kind == .rfl) = false) :
    execVALU st e =
      match e.op.kind with
      | .cmp | .carryOut | .carryIO =>
        ((List.range 64).foldl (laneStep st e) ([], 0)).1 ++ wrMask e.sdst ((List.range 64).foldl (laneStep st e) ([], 0)).2
      | _ => ((List.range 64).foldl (laneStep st e) ([], 0)).1 := by
  unfold execVALU
  simp only [h]
  rfl

theorem kbeq_plain_cmp : (Kind.plain == Kind.cmp) = false := rfl
theorem kbeq_plain_movrel : (Kind.plain == Kind.movrel) = false := rfl
theorem kbeq_plain_fmas : (Kind.plain == Kind.fmas) = false := rfl
theorem kbeq_plain_rfl : (Kind.plain == Kind.rfl) = false := rfl
theorem kbeq_plain_plain : (Kind.plain == Kind.plain) = true := rfl
theorem kbeq_carryOut_cmp : (Kind.carryOut == Kind.cmp) = false := rfl
theorem kbeq_carryOut_movrel : (Kind.carryOut == Kind.movrel) = false := rfl
theorem kbeq_carryOut_fmas : (Kind.carryOut == Kind.fmas) = false := rfl
theorem kbeq_carryOut_rfl : (Kind.carryOut == Kind.rfl) = false := rfl
theorem kbeq_carryOut_plain : (Kind.carryOut == Kind.plain) = false := rfl
theorem kbeq_carryIO_cmp : (Kind.carryIO == Kind.cmp) = false := rfl
theorem kbeq_carryIO_movrel : (Kind.carryIO == Kind.movrel) = false := rfl
theorem kbeq_carryIO_fmas : (Kind.carryIO == Kind.fmas) = false := rfl
theorem kbeq_carryIO_rfl : (Kind.carryIO == Kind.rfl) = false := rfl
theorem kbeq_carryIO_plain : (Kind.carryIO == Kind.plain) = false := rfl
theorem kbeq_cmp_cmp : (Kind.cmp == Kind.cmp) = true := rfl
theorem kbeq_cmp_movrel : (Kind.cmp == Kind.movrel) = false := rfl
theorem kbeq_cmp_fmas : (Kind.cmp == Kind.fmas) = false := rfl
theorem kbeq_cmp_rfl : (Kind.cmp == Kind.rfl) = false := rfl
theorem kbeq_cmp_plain : (Kind.cmp == Kind.plain) = false := rfl

/-- instruction kinds whose lanes are independent, without SDWA and without an effective clamp -/
structure Simple (e : VEnc) : Prop where
  sdwa : e.sdwa = false
  kind : e.op.kind = .plain ∨ e.op.kind = .carryOut ∨ e.op.kind = .carryIO ∨ e.op.kind = .cmp
  clamp : (e.clamp && e.op.arith) = false

/-- what the opcode's lane function returns for lane `lane` -/
def laneO (st : St) (e : VEnc) (lane : Nat) : LaneOut :=
  e.op.f { a := laneRd st e lane e.src0 e.op.w0 0,
           b := if e.op.nsrc ≥ 2 then laneRd st e lane e.src1 e.op.w1 1 else 0,
           c := if e.op.nsrc ≥ 3 then laneRd st e lane e.src2 e.op.w2 2 else 0,
           cin := (st.sreg64 e.msrc).testBit lane }

def laneW (st : St) (e : VEnc) (lane : Nat) : List Wr :=
  if !st.exec.testBit lane then [] else if e.op.kind == .cmp then [] else wrV e.vdst lane e.op.wd (laneO st e lane).d

def laneCo (st : St) (e : VEnc) (lane : Nat) : Bool := st.exec.testBit lane && (laneO st e lane).co

theorem laneStep_simple (st : St) (e : VEnc) (hs : Simple e) (acc : List Wr × Nat) (lane : Nat) :
    laneStep st e acc lane = (acc.1 ++ laneW st e lane, if laneCo st e lane then acc.2 + 2 ^ lane else acc.2) := by
  unfold laneStep laneW laneCo laneO
  by_cases hx : st.exec.testBit lane = true
  · rcases hs.kind with hk | hk | hk | hk <;>
      simp [hx, hk, hs.sdwa, hs.clamp, kbeq_plain_cmp, kbeq_plain_movrel, kbeq_plain_fmas, kbeq_plain_rfl, kbeq_plain_plain, kbeq_carryOut_cmp, kbeq_carryOut_movrel, kbeq_carryOut_fmas, kbeq_carryOut_rfl, kbeq_carryOut_plain, kbeq_carryIO_cmp, kbeq_carryIO_movrel, kbeq_carryIO_fmas, kbeq_carryIO_rfl, kbeq_carryIO_plain, kbeq_cmp_cmp, kbeq_cmp_movrel, kbeq_cmp_fmas, kbeq_cmp_rfl, kbeq_cmp_plain]
  · simp [hx]

/-- carry / compare mask of the lanes below `n` -/
def maskUpTo (co : Nat → Bool) : Nat → Nat
  | 0 => 0
  | n + 1 => maskUpTo co n + (if co n then 2 ^ n else 0)

theorem fold_lanes (W : Nat → List Wr) (co : Nat → Bool) (n : Nat) :
    (List.range n).foldl (fun (acc : List Wr × Nat) lane => (acc.1 ++ W lane, if co lane then acc.2 + 2 ^ lane else acc.2)) ([], 0)
      = ((List.range n).flatMap W, maskUpTo co n) := by
  induction n with
  | zero => rfl
  | succ n ih =>
    rw [List.range_succ, List.foldl_append, ih]
    simp only [List.foldl_cons, List.foldl_nil, List.flatMap_append, List.flatMap_cons, List.flatMap_nil,
      List.append_nil, maskUpTo]
    by_cases h : co n = true <;> simp [h]

theorem maskUpTo_lt (co : Nat → Bool) (n : Nat) : maskUpTo co n < 2 ^ n := by
  induction n with
  | zero => simp [maskUpTo]
  | succ n ih =>
    simp only [maskUpTo]
    have : 2 ^ (n + 1) = 2 ^ n + 2 ^ n := by rw [Nat.pow_succ]; omega
    split <;> omega

theorem testBit_maskUpTo (co : Nat → Bool) (n l : Nat) :
    (maskUpTo co n).testBit l = (decide (l < n) && co l) := by
  induction n with
  | zero => simp [maskUpTo]
  | succ n ih =>
    simp only [maskUpTo]
    by_cases hc : co n = true
    · simp only [hc, if_true]
      rw [Nat.add_comm]
      rcases Nat.lt_trichotomy l n with hl | hl | hl
      · rw [Nat.testBit_two_pow_add_gt hl, ih]
        have : l < n + 1 := by omega
        simp [hl, this]
      · subst hl
        rw [Nat.testBit_two_pow_add_eq, Nat.testBit_lt_two_pow (maskUpTo_lt co l)]
        simp [hc]
      · have hlt : 2 ^ n + maskUpTo co n < 2 ^ l := by
          have := maskUpTo_lt co n
          have h2 : 2 ^ (n + 1) ≤ 2 ^ l := Nat.pow_le_pow_right (by omega) (by omega)
          have : 2 ^ (n + 1) = 2 ^ n + 2 ^ n := by rw [Nat.pow_succ]; omega
          omega
        rw [Nat.testBit_lt_two_pow hlt]
        have : ¬ l < n + 1 := by omega
        simp [this]
    · have hc' : co n = false := by simpa using hc
      simp only [hc', Bool.false_eq_true, if_false, Nat.add_zero, ih]
      by_cases hl : l < n
      · have : l < n + 1 := by omega
        simp [hl, this]
      · by_cases he : l = n
        · subst he; simp [hc']
        · have : ¬ l < n + 1 := by omega
          simp [hl, this]

/-- the write list of a `Simple` instruction -/
theorem execVALU_simple (st : St) (e : VEnc) (hs : Simple e) :
    execVALU st e =
      (List.range 64).flatMap (laneW st e) ++
        (if e.op.kind == .plain then [] else wrMask e.sdst (maskUpTo (laneCo st e) 64)) := by
  have hr : (e.op.kind == Kind.rfl) = false := by
    rcases hs.kind with hk | hk | hk | hk <;> simp [hk, kbeq_plain_cmp, kbeq_plain_movrel, kbeq_plain_fmas, kbeq_plain_rfl, kbeq_plain_plain, kbeq_carryOut_cmp, kbeq_carryOut_movrel, kbeq_carryOut_fmas, kbeq_carryOut_rfl, kbeq_carryOut_plain, kbeq_carryIO_cmp, kbeq_carryIO_movrel, kbeq_carryIO_fmas, kbeq_carryIO_rfl, kbeq_carryIO_plain, kbeq_cmp_cmp, kbeq_cmp_movrel, kbeq_cmp_fmas, kbeq_cmp_rfl, kbeq_cmp_plain]
  rw [execVALU_unfold st e hr]
  have hf : (List.range 64).foldl (laneStep st e) ([], 0) =
      ((List.range 64).flatMap (laneW st e), maskUpTo (laneCo st e) 64) := by
    rw [← fold_lanes]
    congr 1
    funext acc lane
    exact laneStep_simple st e hs acc lane
  rw [hf]
  rcases hs.kind with hk | hk | hk | hk <;> simp [hk, kbeq_plain_cmp, kbeq_plain_movrel, kbeq_plain_fmas, kbeq_plain_rfl, kbeq_plain_plain, kbeq_carryOut_cmp, kbeq_carryOut_movrel, kbeq_carryOut_fmas, kbeq_carryOut_rfl, kbeq_carryOut_plain, kbeq_carryIO_cmp, kbeq_carryIO_movrel, kbeq_carryIO_fmas, kbeq_carryIO_rfl, kbeq_carryIO_plain, kbeq_cmp_cmp, kbeq_cmp_movrel, kbeq_cmp_fmas, kbeq_cmp_rfl, kbeq_cmp_plain]

theorem laneW_cells (st : St) (e : VEnc) (lane : Nat) : ∀ w ∈ laneW st e lane, ∃ r, w.1 = Cell.v r lane := by
  intro w hw
  unfold laneW at hw
  split at hw
  · cases hw
  · split at hw
    · cases hw
    · unfold wrV at hw
      split at hw
      · simp only [List.mem_cons, List.mem_nil_iff, or_false] at hw
        rcases hw with rfl | rfl
        · exact ⟨_, rfl⟩
        · exact ⟨_, rfl⟩
      · simp only [List.mem_cons, List.mem_nil_iff, or_false] at hw
        subst hw
        exact ⟨_, rfl⟩

/-- a predicate that rejects every vector-register cell is blind to the lane writes -/
theorem sel_lanes_blind (p : Cell → Bool) (hp : ∀ r l, p (.v r l) = false) (st : St) (e : VEnc) (lanes : List Nat) (d : Nat) :
    sel p (lanes.flatMap (laneW st e)) d = d := by
  apply sel_none
  intro w hw
  obtain ⟨l, _, hl⟩ := List.mem_flatMap.mp hw
  obtain ⟨r, hr⟩ := laneW_cells st e l w hl
  rw [hr, hp]

/-- VGPR `r` of lane `l` after a `Simple` instruction -/
theorem rv_valu (st : St) (e : VEnc) (hs : Simple e) (r l : Nat) (hl : l < 64) (hb : r * 64 + l < st.v.size)
    (hm : ∀ w ∈ (if e.op.kind == .plain then [] else wrMask e.sdst (maskUpTo (laneCo st e) 64)), isV (r * 64 + l) w.1 = false) :
    (applyWrs st (execVALU st e)).rv r l = sel (isV (r * 64 + l)) (laneW st e l) (st.rv r l) := by
  rw [rv_applyWrs st _ r l hb, execVALU_simple st e hs, sel_append]
  rw [sel_none _ _ _ hm]
  rw [sel_flatMap_single (isV (r * 64 + l)) (laneW st e) l (List.range 64) _ List.nodup_range]
  · simp [hl]
  · intro l' hl' hne w hw
    obtain ⟨r', hr'⟩ := laneW_cells st e l' w hw
    have hl'64 : l' < 64 := List.mem_range.mp hl'
    rw [hr']
    simp only [isV, beq_eq_false_iff_ne, ne_eq]
    omega

theorem wrMask_vcc (x : Nat) : wrMask 106 x = [(Cell.vcc, x)] := by simp [wrMask]

/-- the frame of a `Simple` instruction whose mask destination is VCC (every VOP2 / VOPC encoding) -/
theorem valu_frame (st : St) (e : VEnc) (hs : Simple e) (hd : e.sdst = 106) :
    let st' := applyWrs st (execVALU st e)
    st'.exec = st.exec ∧ st'.scc = st.scc ∧ st'.pc = st.pc ∧ st'.m0 = st.m0 ∧ st'.mem = st.mem ∧ st'.lds = st.lds ∧
    (∀ i, i < st.s.size → st'.rs i = st.rs i) ∧ st'.s.size = st.s.size ∧ st'.v.size = st.v.size ∧
    st'.vcc = (if e.op.kind == .plain then st.vcc else maskUpTo (laneCo st e) 64) := by
  intro st'
  have hcells : ∀ w ∈ execVALU st e, (∃ r l, w.1 = Cell.v r l) ∨ w.1 = Cell.vcc := by
    intro w hw
    rw [execVALU_simple st e hs, List.mem_append] at hw
    rcases hw with hw | hw
    · obtain ⟨l, _, hl⟩ := List.mem_flatMap.mp hw
      obtain ⟨r, hr⟩ := laneW_cells st e l w hl
      exact Or.inl ⟨r, l, hr⟩
    · split at hw
      · cases hw
      · rw [hd, wrMask_vcc] at hw
        simp only [List.mem_cons, List.mem_nil_iff, or_false] at hw
        subst hw
        exact Or.inr rfl
  have blind : ∀ (p : Cell → Bool), (∀ r l, p (.v r l) = false) → p .vcc = false → ∀ d, sel p (execVALU st e) d = d := by
    intro p h1 h2 d
    apply sel_none
    intro w hw
    rcases hcells w hw with ⟨r, l, h⟩ | h <;> rw [h]
    · exact h1 r l
    · exact h2
  have hml := mem_applyWrs_of_none st (execVALU st e) (by
    intro w hw
    rcases hcells w hw with ⟨r, l, h⟩ | h <;> rw [h])
  refine ⟨?_, ?_, ?_, ?_, hml.1, hml.2, ?_, size_s_applyWrs _ _, size_v_applyWrs _ _, ?_⟩
  · show (applyWrs st (execVALU st e)).exec = _
    rw [exec_applyWrs]; exact blind _ (fun _ _ => rfl) rfl _
  · show (applyWrs st (execVALU st e)).scc = _
    rw [scc_applyWrs]; exact blind _ (fun _ _ => rfl) rfl _
  · show (applyWrs st (execVALU st e)).pc = _
    rw [pc_applyWrs]; exact blind _ (fun _ _ => rfl) rfl _
  · show (applyWrs st (execVALU st e)).m0 = _
    rw [m0_applyWrs]; exact blind _ (fun _ _ => rfl) rfl _
  · intro i hi
    show (applyWrs st (execVALU st e)).rs i = _
    rw [rs_applyWrs _ _ _ hi]; exact blind _ (fun _ _ => rfl) rfl _
  · show (applyWrs st (execVALU st e)).vcc = _
    rw [vcc_applyWrs, execVALU_simple st e hs, sel_append, sel_lanes_blind isVcc (fun _ _ => rfl)]
    split
    · rfl
    · rw [hd, wrMask_vcc]; rfl

end Emu
end C01
