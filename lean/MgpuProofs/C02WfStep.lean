import MgpuProofs.C02WfInv
/-! Every event the compute-unit rules allow preserves the simulation relation with the emulator. -/
namespace C02.Wf

variable {P : Prog}

theorem pend_wf (hP : P.WF) {T : TState} {E : EState} {H : HState} (hinv : Inv P T E H) :
    ∀ p ∈ T.vq ++ T.sq, p.inst.WF := by
  intro p hp
  obtain ⟨⟨l, hl⟩, _⟩ := hinv.pdec p hp
  exact (hP.inst l _ hl).1

theorem toIssue_none_of_not_ready {T : TState} {E : EState} {H : HState} (hinv : Inv P T E H)
    (h : T.ph ≠ .ready) : T.toIssue = none := by
  cases ht : T.toIssue with
  | none => rfl
  | some i => exact absurd (hinv.f.tok i ht).1 h

theorem InvP.lists {ph : Phase} {cur : Option Inst} {pc : Nat} {trace : List Nat} {vq sq vq' sq' : List Pend}
    {E : EState} (h : InvP P ph cur pc trace vq sq E) (hv : vq = [] → vq' = []) (hs : sq = [] → sq' = []) :
    InvP P ph cur pc trace vq' sq' E := by
  cases ph <;> simp only [InvP] at h ⊢
  · exact h
  · exact h
  · exact h
  · exact ⟨h.1, h.2.1, hv h.2.2.1, hs h.2.2.2⟩

/-! ### fetch side -/

theorem step_fetch {gate} {x0} {T T' : TState} (hs : Sim P x0 T) (ht : tstep P gate T .fetch = some T') :
    Sim P x0 T' := by
  obtain ⟨n, E, H, hrun, hinv⟩ := hs
  simp only [tstep] at ht
  split at ht
  · cases ht
    refine ⟨n, E, H, hrun, ⟨hinv.c, hinv.r, hinv.m, ⟨?_, hinv.f.tok⟩, hinv.p, hinv.pdec⟩⟩
    intro k hk
    by_cases he : T.ib = []
    · simp [he] at hk
    · simp only [he, if_false]
      exact hinv.f.ibok k hk
  · cases ht

theorem step_fetchRet {gate} {x0} {T T' : TState} (hs : Sim P x0 T) (ht : tstep P gate T .fetchRet = some T') :
    Sim P x0 T' := by
  obtain ⟨n, E, H, hrun, hinv⟩ := hs
  simp only [tstep] at ht
  split at ht
  · cases ht
  · rename_i a _
    split at ht
    · rename_i ha
      cases ht
      refine ⟨n, E, H, hrun, ⟨hinv.c, hinv.r, hinv.m, ⟨?_, hinv.f.tok⟩, hinv.p, hinv.pdec⟩⟩
      intro k hk
      show (T.ib ++ P.window a 64)[k] = P.imem (T.ibStart + k)
      by_cases hlt : k < T.ib.length
      · rw [List.getElem_append_left hlt]
        exact hinv.f.ibok k hlt
      · rw [List.getElem_append_right (by omega)]
        simp only [Prog.window, List.getElem_map, List.getElem_range]
        congr 1
        omega
    · cases ht
      exact ⟨n, E, H, hrun, ⟨hinv.c, hinv.r, hinv.m, hinv.f, hinv.p, hinv.pdec⟩⟩

theorem step_resync {gate} {x0} {T T' : TState} (hs : Sim P x0 T) (ht : tstep P gate T .resync = some T') :
    Sim P x0 T' := by
  obtain ⟨n, E, H, hrun, hinv⟩ := hs
  simp only [tstep] at ht
  split at ht
  · rename_i he
    cases ht
    refine ⟨n, E, H, hrun, ⟨hinv.c, hinv.r, hinv.m, ⟨?_, hinv.f.tok⟩, hinv.p, hinv.pdec⟩⟩
    intro k hk
    simp [he] at hk
  · cases ht

theorem step_decode (hP : P.WF) {gate} {x0} {T T' : TState} (hs : Sim P x0 T)
    (ht : tstep P gate T .decode = some T') : Sim P x0 T' := by
  obtain ⟨n, E, H, hrun, hinv⟩ := hs
  simp only [tstep] at ht
  split at ht
  · cases ht
  · split at ht
    · rename_i hc
      split at ht
      · cases ht
      · rename_i i hd
        cases ht
        refine ⟨n, E, H, hrun, ⟨hinv.c, hinv.r, hinv.m, ⟨hinv.f.ibok, ?_⟩, hinv.p, hinv.pdec⟩⟩
        intro j hj
        cases hj
        exact ⟨hc.2.1, decode_instAt P hP T.ibStart T.pc T.ib i hinv.f.ibok hc.2.2.1 hd⟩
    · cases ht

theorem step_issue {gate} {x0} {T T' : TState} (hs : Sim P x0 T) (ht : tstep P gate T .issue = some T') :
    Sim P x0 T' := by
  obtain ⟨n, E, H, hrun, hinv⟩ := hs
  simp only [tstep] at ht
  split at ht
  · cases ht
  · rename_i i hi
    split at ht
    · rename_i hc
      cases ht
      have hp := hinv.p
      rw [hc.1] at hp
      simp only [InvP] at hp
      refine ⟨n, E, H, hrun, ⟨hinv.c, hinv.r, hinv.m, ⟨hinv.f.ibok, ?_⟩, ?_, hinv.pdec⟩⟩
      · intro j hj; cases hj
      · show InvP P .issued (some i) T.pc (T.trace ++ [T.pc]) T.vq T.sq E
        simp only [InvP]
        exact ⟨i, rfl, (hinv.f.tok i hi).2, hp.1, by rw [hp.2.1], hp.2.2⟩
    · cases ht

/-! ### memory side -/

theorem step_env (hP : P.WF) {gate} {x0} {T T' : TState} {a v : Nat} (hs : Sim P x0 T)
    (ht : tstep P gate T (.env a v) = some T') : Sim P x0 T' := by
  obtain ⟨n, E, H, hrun, hinv⟩ := hs
  have hwf := pend_wf hP hinv
  simp only [tstep] at ht
  split at ht
  · rename_i ha
    cases ht
    refine ⟨n, E, H, hrun, ⟨hinv.c, ?_, ?_, hinv.f, hinv.p, hinv.pdec⟩⟩
    · apply hinv.r.mem_change hwf
      intro p hp _ _ b hb
      have hob := (hinv.pdec p hp).2.1 b hb
      have : b ≠ a := by intro e; rw [e, ha] at hob; cases hob
      simp [setMem, this]
    · exact hinv.m.env a v (fun p hp => hwf p (List.mem_append_left _ hp)) ha
  · cases ht

/-- what `serveAt` does to the invariants that only look at instruction and captured registers -/
theorem serveAt_sub (m : Mem) (l : List Pend) (k : Nat) (p : Pend) (hk : l[k]? = some p) (hs : p.served = none) :
    ∀ q ∈ serveAt m l k, ∃ p0 ∈ l, q.inst = p0.inst ∧ q.r0 = p0.r0 ∧ q.served.getD m = p0.served.getD m := by
  intro q hq
  rcases mem_serveAt m l k q hq with h | ⟨p', hp', rfl⟩
  · exact ⟨q, h, rfl, rfl, rfl⟩
  · rw [hk] at hp'
    cases hp'
    exact ⟨p, List.mem_of_getElem? hk, rfl, rfl, by simp [hs]⟩

theorem serveAt_sup (m : Mem) (l : List Pend) (k : Nat) (p : Pend) (hk : l[k]? = some p) :
    ∀ p0 ∈ l, ∃ q ∈ serveAt m l k, q.inst = p0.inst ∧ q.r0 = p0.r0 := by
  intro p0 hp0
  rcases mem_of_serveAt m l k p p0 hk hp0 with rfl | h
  · exact ⟨_, serveAt_mem_new m l k p0 hk, rfl, rfl⟩
  · exact ⟨p0, h, rfl, rfl⟩

theorem serveAt_unserved (m : Mem) (l : List Pend) (k : Nat) (p : Pend) (_hk : l[k]? = some p) :
    ∀ q ∈ serveAt m l k, q.served = none → q ∈ l := by
  intro q hq hs
  rcases mem_serveAt m l k q hq with h | ⟨p', _, rfl⟩
  · exact h
  · simp at hs

theorem step_serveV (hP : P.WF) {gate} {x0} {T T' : TState} {k : Nat} (hs : Sim P x0 T)
    (ht : tstep P gate T (.serveV k) = some T') : Sim P x0 T' := by
  obtain ⟨n, E, H, hrun, hinv⟩ := hs
  have hwf := pend_wf hP hinv
  simp only [tstep] at ht
  split at ht
  · cases ht
  · rename_i p hk
    split at ht
    · cases ht
    · rename_i hsv
      have hpv : p ∈ T.vq := List.mem_of_getElem? hk
      -- facts shared by both branches
      have hsub : ∀ q ∈ serveAt T.mem T.vq k ++ T.sq, ∃ p0 ∈ T.vq ++ T.sq,
          q.inst = p0.inst ∧ q.r0 = p0.r0 ∧ q.served.getD T.mem = p0.served.getD T.mem := by
        intro q hq
        rcases List.mem_append.mp hq with h | h
        · obtain ⟨p0, h0, e⟩ := serveAt_sub T.mem T.vq k p hk hsv q h
          exact ⟨p0, List.mem_append_left _ h0, e⟩
        · exact ⟨q, List.mem_append_right _ h, rfl, rfl, rfl⟩
      have hsup : ∀ p0 ∈ T.vq ++ T.sq, ∃ q ∈ serveAt T.mem T.vq k ++ T.sq, q.inst = p0.inst ∧ q.r0 = p0.r0 := by
        intro p0 hp0
        rcases List.mem_append.mp hp0 with h | h
        · obtain ⟨q, hq, e⟩ := serveAt_sup T.mem T.vq k p hk p0 h
          exact ⟨q, List.mem_append_left _ hq, e⟩
        · exact ⟨p0, List.mem_append_right _ h, rfl, rfl⟩
      have hc' : InvC T.vm T.lgkm (serveAt T.mem T.vq k) T.sq H := by
        apply hinv.c.shrink
        · rw [serveAt_length]; exact hinv.c.cvm
        · rw [serveAt_length]; exact hinv.c.clgkm
        · rw [serveAt_map_key]; exact List.suffix_refl _
        · intro q hq; exact ⟨q, hq, rfl⟩
        · intro q hq
          obtain ⟨p0, h0, e1, e2, _⟩ := hsub q hq
          exact ⟨p0, h0, e1, e2⟩
      have hpd' : ∀ q ∈ serveAt T.mem T.vq k ++ T.sq, PendOK P q := by
        intro q hq
        obtain ⟨p0, h0, e1, e2, _⟩ := hsub q hq
        unfold PendOK
        rw [e1, e2]
        exact hinv.pdec p0 h0
      have hr' : InvR T.regs T.mem (serveAt T.mem T.vq k ++ T.sq) E.regs := hinv.r.remap hsub hsup
      split at ht
      · -- a store: memory changes
        rename_i hst
        cases ht
        refine ⟨n, E, H, hrun, ⟨hc', ?_, ?_, hinv.f, hinv.p.lists (fun h => by rw [h]; rfl) id, hpd'⟩⟩
        · apply hr'.mem_change
          · intro q hq
            obtain ⟨⟨l, hl⟩, _⟩ := hpd' q hq
            exact (hP.inst l _ hl).1
          · intro q hq hl hqs b hb
            obtain ⟨p0, h0, e1, e2, _⟩ := hsub q hq
            have hnb : p.inst.fp p.r0 b = false := by
              cases hfb : p.inst.fp p.r0 b with
              | false => rfl
              | true =>
                rw [e1] at hl
                rw [e1, e2] at hb
                exact absurd ⟨hb, hfb⟩ (hinv.c.pls p0 h0 p (List.mem_append_left _ hpv) hl hst b)
            exact ((hwf p (List.mem_append_left _ hpv)).st_frame hst p.r0 T.mem b hnb).symm
        · apply hinv.m.serve_store (fun q hq => hwf q (List.mem_append_left _ hq)) hpv hst hsv
          · exact serveAt_unserved T.mem T.vq k p hk
          · intro q hq
            exact mem_of_serveAt T.mem T.vq k p q hk hq
      · -- a load: only the snapshot is taken
        rename_i hst
        cases ht
        refine ⟨n, E, H, hrun, ⟨hc', hr', ?_, hinv.f, hinv.p.lists (fun h => by rw [h]; rfl) id, hpd'⟩⟩
        apply hinv.m.remap
        · intro q hq _ hqs
          exact ⟨q, serveAt_unserved T.mem T.vq k p hk q hq hqs, rfl, rfl, hqs⟩
        · intro p0 h0 h0st h0s
          rcases mem_of_serveAt T.mem T.vq k p p0 hk h0 with rfl | h
          · exact absurd h0st hst
          · exact ⟨p0, h, rfl, rfl, h0s⟩

theorem step_serveS (_hP : P.WF) {gate} {x0} {T T' : TState} {k : Nat} (hs : Sim P x0 T)
    (ht : tstep P gate T (.serveS k) = some T') : Sim P x0 T' := by
  obtain ⟨n, E, H, hrun, hinv⟩ := hs
  simp only [tstep] at ht
  split at ht
  · cases ht
  · rename_i p hk
    split at ht
    · cases ht
    · rename_i hsv
      cases ht
      have hsub : ∀ q ∈ T.vq ++ serveAt T.mem T.sq k, ∃ p0 ∈ T.vq ++ T.sq,
          q.inst = p0.inst ∧ q.r0 = p0.r0 ∧ q.served.getD T.mem = p0.served.getD T.mem := by
        intro q hq
        rcases List.mem_append.mp hq with h | h
        · exact ⟨q, List.mem_append_left _ h, rfl, rfl, rfl⟩
        · obtain ⟨p0, h0, e⟩ := serveAt_sub T.mem T.sq k p hk hsv q h
          exact ⟨p0, List.mem_append_right _ h0, e⟩
      have hsup : ∀ p0 ∈ T.vq ++ T.sq, ∃ q ∈ T.vq ++ serveAt T.mem T.sq k, q.inst = p0.inst ∧ q.r0 = p0.r0 := by
        intro p0 hp0
        rcases List.mem_append.mp hp0 with h | h
        · exact ⟨p0, List.mem_append_left _ h, rfl, rfl⟩
        · obtain ⟨q, hq, e⟩ := serveAt_sup T.mem T.sq k p hk p0 h
          exact ⟨q, List.mem_append_right _ hq, e⟩
      refine ⟨n, E, H, hrun, ⟨?_, hinv.r.remap hsub hsup, hinv.m, hinv.f, hinv.p.lists id (fun h => by rw [h]; rfl), ?_⟩⟩
      · apply hinv.c.shrink
        · exact hinv.c.cvm
        · show T.lgkm = T.vq.length + (serveAt T.mem T.sq k).length
          rw [serveAt_length]; exact hinv.c.clgkm
        · exact List.suffix_refl _
        · intro q hq
          obtain ⟨p0, h0, e1, e2, _⟩ := serveAt_sub T.mem T.sq k p hk hsv q hq
          exact ⟨p0, h0, by simp [Pend.key, e1, e2]⟩
        · intro q hq
          obtain ⟨p0, h0, e1, e2, _⟩ := hsub q hq
          exact ⟨p0, h0, e1, e2⟩
      · intro q hq
        obtain ⟨p0, h0, e1, e2, _⟩ := hsub q hq
        unfold PendOK
        rw [e1, e2]
        exact hinv.pdec p0 h0

theorem step_retV {gate} {x0} {T T' : TState} (hs : Sim P x0 T)
    (ht : tstep P gate T .retV = some T') : Sim P x0 T' := by
  obtain ⟨n, E, H, hrun, hinv⟩ := hs
  simp only [tstep] at ht
  split at ht
  · cases ht
  · rename_i p rest hvq
    split at ht
    · cases ht
    · rename_i m0 hsv
      cases ht
      have hsubl : ∀ q ∈ rest ++ T.sq, q ∈ T.vq ++ T.sq := by
        intro q hq
        rw [hvq]
        rcases List.mem_append.mp hq with h | h
        · exact List.mem_append_left _ (List.mem_cons_of_mem _ h)
        · exact List.mem_append_right _ h
      have hcv := hinv.c.cvm
      have hcl := hinv.c.clgkm
      rw [hvq] at hcv hcl
      simp only [List.length_cons] at hcv hcl
      refine ⟨n, E, H, hrun, ⟨?_, ?_, ?_, hinv.f, ?_, fun q hq => hinv.pdec q (hsubl q hq)⟩⟩
      · apply hinv.c.shrink
        · show T.vm - 1 = rest.length; omega
        · show T.lgkm - 1 = rest.length + T.sq.length; omega
        · rw [hvq]; simp only [List.map_cons]; exact List.suffix_cons _ _
        · intro q hq; exact ⟨q, hq, rfl⟩
        · intro q hq; exact ⟨q, hsubl q hq, rfl, rfl⟩
      · apply hinv.r.ret (p := p) (by rw [hvq]; simp) hsv hsubl
        intro q hq
        rw [hvq] at hq
        rcases List.mem_append.mp hq with h | h
        · rcases List.mem_cons.mp h with h | h
          · exact Or.inl h
          · exact Or.inr (List.mem_append_left _ h)
        · exact Or.inr (List.mem_append_right _ h)
      · apply hinv.m.remap
        · intro q hq _ hqs
          exact ⟨q, by rw [hvq]; exact List.mem_cons_of_mem _ hq, rfl, rfl, hqs⟩
        · intro p0 h0 _ h0s
          rw [hvq] at h0
          rcases List.mem_cons.mp h0 with rfl | h
          · rw [hsv] at h0s; cases h0s
          · exact ⟨p0, h, rfl, rfl, h0s⟩
      · exact hinv.p.lists (fun h => by rw [hvq] at h; cases h) id

theorem step_retS {gate} {x0} {T T' : TState} {k : Nat} (hs : Sim P x0 T)
    (ht : tstep P gate T (.retS k) = some T') : Sim P x0 T' := by
  obtain ⟨n, E, H, hrun, hinv⟩ := hs
  simp only [tstep] at ht
  split at ht
  · cases ht
  · rename_i p hk
    split at ht
    · cases ht
    · rename_i m0 hsv
      cases ht
      have hps : p ∈ T.sq := List.mem_of_getElem? hk
      have hsubl : ∀ q ∈ T.vq ++ T.sq.eraseIdx k, q ∈ T.vq ++ T.sq := by
        intro q hq
        rcases List.mem_append.mp hq with h | h
        · exact List.mem_append_left _ h
        · exact List.mem_append_right _ (mem_of_mem_eraseIdx _ _ _ h)
      have hlen := length_eraseIdx_of_getElem? T.sq k p hk
      have hcl := hinv.c.clgkm
      refine ⟨n, E, H, hrun, ⟨?_, ?_, hinv.m, hinv.f, ?_, fun q hq => hinv.pdec q (hsubl q hq)⟩⟩
      · apply hinv.c.shrink
        · exact hinv.c.cvm
        · show T.lgkm - 1 = T.vq.length + (T.sq.eraseIdx k).length; omega
        · exact List.suffix_refl _
        · intro q hq; exact ⟨q, mem_of_mem_eraseIdx _ _ _ hq, rfl⟩
        · intro q hq; exact ⟨q, hsubl q hq, rfl, rfl⟩
      · apply hinv.r.ret (p := p) (List.mem_append_right _ hps) hsv hsubl
        intro q hq
        rcases List.mem_append.mp hq with h | h
        · exact Or.inr (List.mem_append_left _ h)
        · rcases mem_eraseIdx_or T.sq k p q hk h with h | h
          · exact Or.inl h
          · exact Or.inr (List.mem_append_right _ h)
      · exact hinv.p.lists id (fun h => by rw [h] at hps; simp at hps)

/-! ### execution side -/

theorem advance_eq (s : TState) (i : Inst) (s' : TState) (h : advance s i = some s') :
    ∃ st ib, removeStale (pcAdd s.pc i.size) s.ibStart s.ib = some (st, ib) ∧
      s' = { s with pc := pcAdd s.pc i.size, ph := .ready, cur := none, ibStart := st, ib := ib } := by
  unfold advance at h
  simp only at h
  split at h
  · cases h
  · rename_i st ib hrs
    cases h
    exact ⟨st, ib, hrs, rfl⟩

theorem inv_advance {s s' : TState} {i : Inst} {E' : EState} {H' : HState}
    (ha : advance s i = some s')
    (hc : InvC s.vm s.lgkm s.vq s.sq H') (hr : InvR s.regs s.mem (s.vq ++ s.sq) E'.regs)
    (hm : InvM P.own s.mem s.vq E'.mem)
    (hib : ∀ k (h : k < s.ib.length), s.ib[k] = P.imem (s.ibStart + k)) (hti : s.toIssue = none)
    (hpc : E'.pc = pcAdd s.pc i.size) (htr : E'.trace = s.trace) (hd : E'.done = false)
    (hpd : ∀ p ∈ s.vq ++ s.sq, PendOK P p) : Inv P s' E' H' := by
  obtain ⟨st, ib, hrs, rfl⟩ := advance_eq s i s' ha
  refine ⟨hc, hr, hm, ⟨removeStale_ibok P _ _ _ st ib hib hrs, ?_⟩, ?_, hpd⟩
  · intro j hj
    rw [hti] at hj
    cases hj
  · show InvP P .ready none (pcAdd s.pc i.size) s.trace s.vq s.sq E'
    simp only [InvP]
    exact ⟨hpc, htr, hd⟩

theorem setReady_eq (s s' : TState) (h : setReady s = some s') :
    ∃ st ib, removeStale s.pc s.ibStart s.ib = some (st, ib) ∧
      s' = { s with ph := .ready, cur := none, ibStart := st, ib := ib } := by
  unfold setReady at h
  split at h
  · cases h
  · rename_i st ib hrs
    cases h
    exact ⟨st, ib, hrs, rfl⟩

theorem inv_setReady {s s' : TState} {E' : EState} {H' : HState}
    (ha : setReady s = some s')
    (hc : InvC s.vm s.lgkm s.vq s.sq H') (hr : InvR s.regs s.mem (s.vq ++ s.sq) E'.regs)
    (hm : InvM P.own s.mem s.vq E'.mem)
    (hib : ∀ k (h : k < s.ib.length), s.ib[k] = P.imem (s.ibStart + k)) (hti : s.toIssue = none)
    (hpc : E'.pc = s.pc) (htr : E'.trace = s.trace) (hd : E'.done = false)
    (hpd : ∀ p ∈ s.vq ++ s.sq, PendOK P p) : Inv P s' E' H' := by
  obtain ⟨st, ib, hrs, rfl⟩ := setReady_eq s s' ha
  refine ⟨hc, hr, hm, ⟨removeStale_ibok P _ _ _ st ib hib hrs, ?_⟩, ?_, hpd⟩
  · intro j hj
    rw [hti] at hj
    cases hj
  · show InvP P .ready none s.pc s.trace s.vq s.sq E'
    simp only [InvP]
    exact ⟨hpc, htr, hd⟩

/-- the wavefront has issued `i`; the emulator is about to execute the same instruction and the
    hazard-free run provides its next state -/
theorem issued_pre {fuel : Nat} {x0 : EState × HState} (hfr : hazardFreeRun P fuel x0 = true)
    {T : TState} {i : Inst} (hs : Sim P x0 T) (hcur : T.cur = some i) (hph : T.ph = .issued) :
    ∃ n E H E' H', Inv P T E H ∧ ehrun P (n + 1) x0 = some (E', H') ∧ P.instAt T.pc = some i ∧
      E.pc = T.pc ∧ T.trace = E.trace ++ [T.pc] ∧ E.done = false ∧
      hstep false P.oldCU H i (i.fpl E.regs) (i.noTxn E.regs) = some H' ∧ estep P E = some E' ∧
      accOK P i E.regs = true := by
  obtain ⟨n, E, H, hrun, hinv⟩ := hs
  have hp := hinv.p
  rw [hph] at hp
  simp only [InvP] at hp
  obtain ⟨i', hc', hi, hpc, htr, hd⟩ := hp
  rw [hcur] at hc'
  cases hc'
  obtain ⟨y, hy⟩ := hfr_next P fuel x0 n (E, H) hfr hrun hd
  have hrun' := ehrun_snoc P n x0 (E, H) y hrun hy
  unfold ehstep at hy
  simp only [hd, Bool.false_eq_true, if_false, hpc, hi] at hy
  cases hh : hstep false P.oldCU H i (i.fpl E.regs) (i.noTxn E.regs) with
  | none => simp [hh] at hy
  | some H' =>
    cases he : estep P E with
    | none => simp [hh, he] at hy
    | some E' =>
      simp only [hh, he] at hy
      split at hy
      · rename_i hoc
        cases hy
        exact ⟨n, E, H, E', H', hinv, hrun', hi, hpc, htr, hd, hh, he, hoc⟩
      · cases hy

theorem estep_eq {E E' : EState} {i : Inst} (he : estep P E = some E') (hi : P.instAt E.pc = some i)
    (hd : E.done = false) :
    E' = (match i.kind with
      | .endpgm => { E with pc := pcAdd E.pc i.size, trace := E.trace ++ [E.pc], done := true }
      | .alu _ => { E with pc := pcAdd E.pc i.size, trace := E.trace ++ [E.pc], regs := i.f (pcAdd E.pc i.size) E.regs }
      | .branch => { E with pc := i.tgt E.regs (pcAdd E.pc i.size), trace := E.trace ++ [E.pc] }
      | .vload => { E with pc := pcAdd E.pc i.size, trace := E.trace ++ [E.pc], regs := i.ld E.regs E.mem }
      | .sload => { E with pc := pcAdd E.pc i.size, trace := E.trace ++ [E.pc], regs := i.ld E.regs E.mem }
      | .vstore => { E with pc := pcAdd E.pc i.size, trace := E.trace ++ [E.pc], mem := i.stf E.regs E.mem }
      | .wait _ _ => { E with pc := pcAdd E.pc i.size, trace := E.trace ++ [E.pc] }
      | .nop => { E with pc := pcAdd E.pc i.size, trace := E.trace ++ [E.pc] }) := by
  unfold estep at he
  rw [if_neg (by simp [hd])] at he
  simp only [hi] at he
  cases hk : i.kind <;> simp only [hk] at he ⊢ <;> cases he <;> rfl

theorem hstep_alu {H H' : HState} {i : Inst} {fp : Ranges} {e old : Bool} {u : Nat} (hk : i.kind = .alu u)
    (h : hstep false old H i fp e = some H') : regOK H i = true ∧ H' = H := by
  unfold hstep at h
  simp only [hk] at h
  split at h
  · rename_i hr; cases h; exact ⟨hr, rfl⟩
  · cases h

theorem hstep_branch {H H' : HState} {i : Inst} {fp : Ranges} {e old : Bool} (hk : i.kind = .branch)
    (h : hstep false old H i fp e = some H') : regOK H i = true ∧ H' = H := by
  unfold hstep at h
  simp only [hk] at h
  split at h
  · rename_i hr; cases h; exact ⟨hr, rfl⟩
  · cases h

theorem hstep_vmem {H H' : HState} {i : Inst} {fp : Ranges} {e old : Bool} (hk : i.kind = .vload ∨ i.kind = .vstore)
    (h : hstep false old H i fp e = some H') : regOK H i = true ∧ memOK false H i fp = true ∧
      H' = (if e then (if old then H else { H with pv := [] }) else { H with pv := H.pv ++ [(i, fp)] }) := by
  unfold hstep at h
  rcases hk with hk | hk <;> simp only [hk] at h <;> split at h
  · rename_i hr; cases h; simp only [Bool.and_eq_true] at hr; exact ⟨hr.1, hr.2, rfl⟩
  · cases h
  · rename_i hr; cases h; simp only [Bool.and_eq_true] at hr; exact ⟨hr.1, hr.2, rfl⟩
  · cases h

theorem hstep_sload {H H' : HState} {i : Inst} {fp : Ranges} {e old : Bool} (hk : i.kind = .sload)
    (h : hstep false old H i fp e = some H') : regOK H i = true ∧ memOK false H i fp = true ∧
      H' = { H with ps := H.ps ++ [(i, fp)] } := by
  unfold hstep at h
  simp only [hk] at h
  split at h
  · rename_i hr; cases h; simp only [Bool.and_eq_true] at hr; exact ⟨hr.1, hr.2, rfl⟩
  · cases h

theorem isLoad_of_kind {i : Inst} (h : i.kind = .vload ∨ i.kind = .sload) : i.isLoad = true ∧ i.isStore = false := by
  unfold Inst.isLoad Inst.isStore
  rcases h with h | h <;> simp [h]

theorem isStore_of_kind {i : Inst} (h : i.kind = .vstore) : i.isStore = true ∧ i.isLoad = false := by
  unfold Inst.isLoad Inst.isStore
  simp [h]

/-- what the emulator and the timing side agree on before `i` executes -/
theorem regs_agree (hP : P.WF) {T : TState} {E : EState} {H : HState} {i : Inst} (hinv : Inv P T E H)
    (hr : regOK H i = true) : ∀ x ∈ i.rd ++ i.wr, E.regs x = T.regs x := by
  intro x hx
  apply hinv.r.r1
  intro p hp hl
  exact regOK_pend hinv.c (pend_wf hP hinv) hr p hp hl x hx

theorem step_exec (hP : P.WF) {gate} {fuel : Nat} {x0 : EState × HState} (hfr : hazardFreeRun P fuel x0 = true)
    {T T' : TState} (hs : Sim P x0 T) (ht : tstep P gate T .exec = some T') : Sim P x0 T' := by
  simp only [tstep] at ht
  split at ht
  · cases ht
  · rename_i i hcur
    split at ht
    · rename_i hph
      obtain ⟨n, E, H, E', H', hinv, hrun', hi, hpc, htr, hd, hh, he, hoc⟩ := issued_pre hfr hs hcur hph
      have hi' : P.instAt E.pc = some i := by rw [hpc]; exact hi
      have hE' := estep_eq he hi' hd
      have hwfp := pend_wf hP hinv
      obtain ⟨hiwf, hipc⟩ := hP.inst _ _ hi
      have hti := toIssue_none_of_not_ready hinv (by rw [hph]; decide)
      have htr' : E.trace ++ [E.pc] = T.trace := by rw [hpc]; exact htr.symm
      cases hk : i.kind with
      | alu u =>
        simp only [hk] at ht hE'
        obtain ⟨hreg, rfl⟩ := hstep_alu hk hh
        subst hE'
        split at ht
        · rename_i hu
          cases ht
          have hu0 : u = 0 := hu.1
          refine ⟨n + 1, _, _, hrun', ⟨hinv.c, ?_, hinv.m, ⟨hinv.f.ibok, ?_⟩, ?_, hinv.pdec⟩⟩
          · exact InvR.alu (pcAdd T.pc i.size) (pcAdd E.pc i.size) hinv.r hiwf (fun r => by rw [hpc])
              (regOK_pend hinv.c hwfp hreg)
          · intro j hj; rw [hti] at hj; cases hj
          · show InvP P .executed T.cur (pcAdd T.pc i.size) T.trace T.vq T.sq _
            simp only [InvP]
            refine ⟨i, hcur, Or.inr ⟨u, hk⟩, ?_, htr'.symm, hd⟩
            rw [if_pos (by rw [hk, hu0])]
            show pcAdd E.pc i.size = pcAdd T.pc i.size
            rw [hpc]
        · rename_i hu
          cases ht
          have hu0 : u ≠ 0 := fun e => hu ⟨e, hP.fixed⟩
          refine ⟨n + 1, _, _, hrun', ⟨hinv.c, ?_, hinv.m, ⟨hinv.f.ibok, ?_⟩, ?_, hinv.pdec⟩⟩
          · exact InvR.alu T.pc (pcAdd E.pc i.size) hinv.r hiwf (fun r => hipc u hk hu0 _ _ r)
              (regOK_pend hinv.c hwfp hreg)
          · intro j hj; rw [hti] at hj; cases hj
          · show InvP P .executed T.cur T.pc T.trace T.vq T.sq _
            simp only [InvP]
            refine ⟨i, hcur, Or.inr ⟨u, hk⟩, ?_, htr'.symm, hd⟩
            rw [if_neg (by rw [hk]; intro e; cases e; exact hu0 rfl)]
            show pcAdd E.pc i.size = pcAdd T.pc i.size
            rw [hpc]
      | branch =>
        simp only [hk] at ht hE'
        cases ht
        obtain ⟨hreg, rfl⟩ := hstep_branch hk hh
        subst hE'
        have hag := regs_agree hP hinv hreg
        refine ⟨n + 1, _, _, hrun', ⟨hinv.c, hinv.r, hinv.m, ⟨hinv.f.ibok, ?_⟩, ?_, hinv.pdec⟩⟩
        · intro j hj; rw [hti] at hj; cases hj
        · show InvP P .executed T.cur (i.tgt T.regs T.pc) T.trace T.vq T.sq _
          simp only [InvP]
          refine ⟨i, hcur, Or.inl hk, ?_, htr'.symm, hd⟩
          rw [if_neg (by rw [hk]; intro e; cases e)]
          show i.tgt E.regs (pcAdd E.pc i.size) = pcAdd (i.tgt T.regs T.pc) i.size
          rw [hiwf.tgt_rel, hpc, hiwf.tgt_dep E.regs T.regs T.pc (fun x hx => hag x (List.mem_append_left _ hx))]
      | vload =>
        simp only [hk] at ht hE'
        obtain ⟨hreg, hmok, hH'⟩ := hstep_vmem (Or.inl hk) hh
        have hag := regs_agree hP hinv hreg
        have hagr : ∀ x ∈ i.rd, E.regs x = T.regs x := fun x hx => hag x (List.mem_append_left _ hx)
        have hst := hiwf.dep_static E.regs T.regs hagr
        have hownn : ∀ a, i.fp T.regs a = true → P.own a = true := by
          intro a ha
          unfold accOK at hoc
          simp only [Bool.and_eq_true] at hoc
          apply expand_own P.own _ hoc.1 a
          unfold Inst.fp at ha
          rw [hst.2.1]
          exact ha
        obtain ⟨hil, his⟩ := isLoad_of_kind (Or.inl hk)
        subst hE'
        by_cases hnt : i.noTxn T.regs = true
        · simp only [hnt, if_true] at ht
          rw [hst.2.2, hnt, hP.fixed] at hH'
          simp only [if_true, Bool.false_eq_true, if_false] at hH'
          subst hH'
          split at ht
          · cases ht
          rename_i hvm
          have hvm0 : T.vm = 0 := by
            cases hv : T.vm with
            | zero => rfl
            | succ k => exact absurd ⟨hP.fixed, by rw [hv]; omega⟩ hvm
          have hregs : i.ld E.regs E.mem = E.regs := by
            funext x
            apply hiwf.ld_frame
            rw [hiwf.noTxn_ld E.regs (by rw [hst.2.2]; exact hnt)]
            simp
          refine ⟨n + 1, _, _, hrun', inv_advance ht (hinv.c.clear hvm0) ?_ hinv.m hinv.f.ibok hti (by show pcAdd E.pc i.size = _; rw [hpc]) htr' hd hinv.pdec⟩
          show InvR T.regs T.mem (T.vq ++ T.sq) (i.ld E.regs E.mem)
          rw [hregs]
          exact hinv.r
        · simp only [hnt] at ht
          have hnt' : i.noTxn E.regs = false := by rw [hst.2.2]; simpa using hnt
          rw [hnt'] at hH'
          simp only [Bool.false_eq_true, if_false] at hH'
          subst hH'
          let pn : Pend := { inst := i, r0 := T.regs }
          have hkey : pn.key = (i, i.fpl E.regs) := by simp [Pend.key, pn, hst.2.1]
          have hnew : ∀ p ∈ T.vq ++ T.sq, (p.inst.isStore = true ∨ pn.inst.isStore = true) →
              ∀ a, ¬ (p.inst.fp p.r0 a = true ∧ pn.inst.fp pn.r0 a = true) := by
            intro p hp hor a
            have := memOK_pend hinv.c hmok p hp hor a
            simpa [Inst.fp, pn, hst.2.1] using this
          have hc' := hinv.c.push_v pn hnew
          rw [hkey] at hc'
          refine ⟨n + 1, _, _, hrun', inv_advance ht hc' ?_ ?_ hinv.f.ibok hti (by show pcAdd E.pc i.size = _; rw [hpc]) htr' hd ?_⟩
          · apply InvR.load hinv.r hiwf hil (regOK_pend hinv.c hwfp hreg) _ (mem_push T.vq T.sq pn)
            intro a ha
            apply hinv.m.m1 a (hownn a ha)
            intro q hq hqst _
            cases hfq : q.inst.fp q.r0 a with
            | false => rfl
            | true => exact absurd ⟨hfq, ha⟩ (hnew q (List.mem_append_left _ hq) (Or.inl hqst) a)
          · apply hinv.m.remap
            · intro q hq hqst hqs
              rcases List.mem_append.mp hq with h | h
              · exact ⟨q, h, rfl, rfl, hqs⟩
              · simp only [List.mem_singleton] at h
                subst h
                rw [his] at hqst; cases hqst
            · intro p0 h0 _ h0s
              exact ⟨p0, List.mem_append_left _ h0, rfl, rfl, h0s⟩
          · intro q hq
            rcases (mem_push T.vq T.sq pn q).mp hq with h | rfl
            · exact hinv.pdec q h
            · exact ⟨⟨_, hi⟩, hownn, fun hs' => by rw [his] at hs'; cases hs'⟩
      | vstore =>
        simp only [hk] at ht hE'
        obtain ⟨hreg, hmok, hH'⟩ := hstep_vmem (Or.inr hk) hh
        have hag := regs_agree hP hinv hreg
        have hagr : ∀ x ∈ i.rd, E.regs x = T.regs x := fun x hx => hag x (List.mem_append_left _ hx)
        have hst := hiwf.dep_static E.regs T.regs hagr
        have hownn : ∀ a, i.fp T.regs a = true → P.own a = true := by
          intro a ha
          unfold accOK at hoc
          simp only [Bool.and_eq_true] at hoc
          apply expand_own P.own _ hoc.1 a
          unfold Inst.fp at ha
          rw [hst.2.1]
          exact ha
        obtain ⟨his, hil⟩ := isStore_of_kind hk
        subst hE'
        by_cases hnt : i.noTxn T.regs = true
        · simp only [hnt, if_true] at ht
          rw [hst.2.2, hnt, hP.fixed] at hH'
          simp only [if_true, Bool.false_eq_true, if_false] at hH'
          subst hH'
          split at ht
          · cases ht
          rename_i hvm
          have hvm0 : T.vm = 0 := by
            cases hv : T.vm with
            | zero => rfl
            | succ k => exact absurd ⟨hP.fixed, by rw [hv]; omega⟩ hvm
          have hmem : i.stf E.regs E.mem = E.mem := by
            funext a
            apply hiwf.st_frame his
            exact hiwf.noTxn_st E.regs a (by rw [hst.2.2]; exact hnt)
          refine ⟨n + 1, _, _, hrun', inv_advance ht (hinv.c.clear hvm0) hinv.r ?_ hinv.f.ibok hti (by show pcAdd E.pc i.size = _; rw [hpc]) htr' hd hinv.pdec⟩
          show InvM P.own T.mem T.vq (i.stf E.regs E.mem)
          rw [hmem]
          exact hinv.m
        · simp only [hnt] at ht
          have hnt' : i.noTxn E.regs = false := by rw [hst.2.2]; simpa using hnt
          rw [hnt'] at hH'
          simp only [Bool.false_eq_true, if_false] at hH'
          subst hH'
          let pn : Pend := { inst := i, r0 := T.regs }
          have hkey : pn.key = (i, i.fpl E.regs) := by simp [Pend.key, pn, hst.2.1]
          have hnew : ∀ p ∈ T.vq ++ T.sq, (p.inst.isStore = true ∨ pn.inst.isStore = true) →
              ∀ a, ¬ (p.inst.fp p.r0 a = true ∧ pn.inst.fp pn.r0 a = true) := by
            intro p hp hor a
            have := memOK_pend hinv.c hmok p hp hor a
            simpa [Inst.fp, pn, hst.2.1] using this
          have hc' := hinv.c.push_v pn hnew
          rw [hkey] at hc'
          refine ⟨n + 1, _, _, hrun', inv_advance ht hc' ?_ ?_ hinv.f.ibok hti (by show pcAdd E.pc i.size = _; rw [hpc]) htr' hd ?_⟩
          · exact hinv.r.add_nonload (pn := pn) hil (mem_push T.vq T.sq pn)
          · apply InvM.store hinv.m hiwf his hagr
            · intro q hq _ a
              exact hnew q (List.mem_append_left _ hq) (Or.inr his) a
            · intro q
              simp
          · intro q hq
            rcases (mem_push T.vq T.sq pn q).mp hq with h | rfl
            · exact hinv.pdec q h
            · refine ⟨⟨_, hi⟩, hownn, fun _ a ha => ?_⟩
              unfold accOK at hoc
              simp only [Bool.and_eq_true, Bool.or_eq_true, Bool.not_eq_true'] at hoc
              rcases hoc.2 with h' | h'
              · rw [his] at h'; cases h'
              · apply expand_own P.wown _ h' a
                unfold Inst.fp at ha
                rw [hst.2.1]
                exact ha
      | sload =>
        simp only [hk] at ht hE'
        obtain ⟨hreg, hmok, hH'⟩ := hstep_sload hk hh
        have hag := regs_agree hP hinv hreg
        have hagr : ∀ x ∈ i.rd, E.regs x = T.regs x := fun x hx => hag x (List.mem_append_left _ hx)
        have hst := hiwf.dep_static E.regs T.regs hagr
        have hownn : ∀ a, i.fp T.regs a = true → P.own a = true := by
          intro a ha
          unfold accOK at hoc
          simp only [Bool.and_eq_true] at hoc
          apply expand_own P.own _ hoc.1 a
          unfold Inst.fp at ha
          rw [hst.2.1]
          exact ha
        obtain ⟨hil, his⟩ := isLoad_of_kind (Or.inr hk)
        subst hE' hH'
        let pn : Pend := { inst := i, r0 := T.regs }
        have hkey : pn.key = (i, i.fpl E.regs) := by simp [Pend.key, pn, hst.2.1]
        have hnew : ∀ p ∈ T.vq ++ T.sq, (p.inst.isStore = true ∨ pn.inst.isStore = true) →
            ∀ a, ¬ (p.inst.fp p.r0 a = true ∧ pn.inst.fp pn.r0 a = true) := by
          intro p hp hor a
          have := memOK_pend hinv.c hmok p hp hor a
          simpa [Inst.fp, pn, hst.2.1] using this
        have hc' := hinv.c.push_s pn hnew
        rw [hkey] at hc'
        refine ⟨n + 1, _, _, hrun', inv_advance ht hc' ?_ hinv.m hinv.f.ibok hti (by show pcAdd E.pc i.size = _; rw [hpc]) htr' hd ?_⟩
        · apply InvR.load hinv.r hiwf hil (regOK_pend hinv.c hwfp hreg) _ (mem_push_s T.vq T.sq pn)
          intro a ha
          apply hinv.m.m1 a (hownn a ha)
          intro q hq hqst _
          cases hfq : q.inst.fp q.r0 a with
          | false => rfl
          | true => exact absurd ⟨hfq, ha⟩ (hnew q (List.mem_append_left _ hq) (Or.inl hqst) a)
        · intro q hq
          rcases (mem_push_s T.vq T.sq pn q).mp hq with h | rfl
          · exact hinv.pdec q h
          · exact ⟨⟨_, hi⟩, hownn, fun hs' => by rw [his] at hs'; cases hs'⟩
      | wait a b => simp only [hk] at ht; cases ht
      | nop => simp only [hk] at ht; cases ht
      | endpgm => simp only [hk] at ht; cases ht
    · cases ht

theorem step_complete (hP : P.WF) {gate} {fuel : Nat} {x0 : EState × HState} (hfr : hazardFreeRun P fuel x0 = true)
    {T T' : TState} (hs : Sim P x0 T) (ht : tstep P gate T .complete = some T') : Sim P x0 T' := by
  simp only [tstep] at ht
  split at ht
  · cases ht
  · rename_i i hcur
    cases hk : i.kind with
    | alu u =>
      simp only [hk] at ht
      split at ht
      · rename_i hph
        obtain ⟨n, E, H, hrun, hinv⟩ := hs
        have hp := hinv.p
        rw [hph] at hp
        simp only [InvP] at hp
        obtain ⟨i', hc', _, hpc, htr, hd⟩ := hp
        rw [hcur] at hc'; cases hc'
        have hti := toIssue_none_of_not_ready hinv (by rw [hph]; decide)
        split at ht
        · rename_i hu
          rw [if_pos (by rw [hk, hu.1])] at hpc
          exact ⟨n, E, H, hrun, inv_setReady ht hinv.c hinv.r hinv.m hinv.f.ibok hti hpc htr.symm hd hinv.pdec⟩
        · rename_i hu
          have hu0 : u ≠ 0 := fun e => hu ⟨e, hP.fixed⟩
          rw [if_neg (by rw [hk]; intro e; cases e; exact hu0 rfl)] at hpc
          exact ⟨n, E, H, hrun, inv_advance ht hinv.c hinv.r hinv.m hinv.f.ibok hti hpc htr.symm hd hinv.pdec⟩
      · cases ht
    | branch =>
      simp only [hk] at ht
      split at ht
      · rename_i hph
        cases ht
        obtain ⟨n, E, H, hrun, hinv⟩ := hs
        have hp := hinv.p
        rw [hph] at hp
        simp only [InvP] at hp
        obtain ⟨i', hc', _, hpc, htr, hd⟩ := hp
        rw [hcur] at hc'; cases hc'
        rw [if_neg (by rw [hk]; intro e; cases e)] at hpc
        have hti := toIssue_none_of_not_ready hinv (by rw [hph]; decide)
        refine ⟨n, E, H, hrun, ⟨hinv.c, hinv.r, hinv.m, ⟨?_, ?_⟩, ?_, hinv.pdec⟩⟩
        · intro k hk'; simp at hk'
        · intro j hj; rw [hti] at hj; cases hj
        · show InvP P .ready none (pcAdd T.pc i.size) T.trace T.vq T.sq E
          simp only [InvP]
          exact ⟨hpc, htr.symm, hd⟩
      · cases ht
    | wait a b =>
      simp only [hk] at ht
      split at ht
      · rename_i hc
        obtain ⟨n, E, H, E', H', hinv, hrun', hi, hpc, htr, hd, hh, he, hoc⟩ := issued_pre hfr hs hcur hc.1
        have hi' : P.instAt E.pc = some i := by rw [hpc]; exact hi
        have hE' := estep_eq he hi' hd
        simp only [hk] at hE'
        subst hE'
        have hH' : H' = afterWait H a b := by
          unfold hstep at hh; simp only [hk] at hh; cases hh; rfl
        subst hH'
        have hti := toIssue_none_of_not_ready hinv (by rw [hc.1]; decide)
        exact ⟨n + 1, _, _, hrun', inv_advance ht (hinv.c.wait a b hc.2.1 hc.2.2) hinv.r hinv.m hinv.f.ibok hti
          (by show pcAdd E.pc i.size = _; rw [hpc]) (by show E.trace ++ [E.pc] = _; rw [hpc]; exact htr.symm) hd hinv.pdec⟩
      · cases ht
    | nop =>
      simp only [hk] at ht
      split at ht
      · rename_i hph
        obtain ⟨n, E, H, E', H', hinv, hrun', hi, hpc, htr, hd, hh, he, hoc⟩ := issued_pre hfr hs hcur hph
        have hi' : P.instAt E.pc = some i := by rw [hpc]; exact hi
        have hE' := estep_eq he hi' hd
        simp only [hk] at hE'
        subst hE'
        have hH' : H' = H := by
          unfold hstep at hh; simp only [hk] at hh; cases hh; rfl
        subst hH'
        have hti := toIssue_none_of_not_ready hinv (by rw [hph]; decide)
        exact ⟨n + 1, _, _, hrun', inv_advance ht hinv.c hinv.r hinv.m hinv.f.ibok hti
          (by show pcAdd E.pc i.size = _; rw [hpc]) (by show E.trace ++ [E.pc] = _; rw [hpc]; exact htr.symm) hd hinv.pdec⟩
      · cases ht
    | endpgm =>
      simp only [hk] at ht
      split at ht
      · rename_i hc
        cases ht
        obtain ⟨n, E, H, E', H', hinv, hrun', hi, hpc, htr, hd, hh, he, hoc⟩ := issued_pre hfr hs hcur hc.1
        have hi' : P.instAt E.pc = some i := by rw [hpc]; exact hi
        have hE' := estep_eq he hi' hd
        simp only [hk] at hE'
        subst hE'
        have hH' : H' = {} := by
          unfold hstep at hh; simp only [hk] at hh; cases hh; rfl
        subst hH'
        have hti := toIssue_none_of_not_ready hinv (by rw [hc.1]; decide)
        obtain ⟨hv0, hs0, hc0⟩ := hinv.c.done hc.2.1 hc.2.2
        refine ⟨n + 1, _, _, hrun', ⟨hc0, hinv.r, hinv.m, ⟨hinv.f.ibok, ?_⟩, ?_, hinv.pdec⟩⟩
        · intro j hj; rw [hti] at hj; cases hj
        · show InvP P .done none T.pc T.trace T.vq T.sq _
          exact ⟨rfl, by show T.trace = E.trace ++ [E.pc]; rw [hpc]; exact htr, hv0, hs0⟩
      · cases ht
    | vload => simp only [hk] at ht; cases ht
    | vstore => simp only [hk] at ht; cases ht
    | sload => simp only [hk] at ht; cases ht

/-- **every event the rules allow preserves the simulation relation** -/
theorem sim_step (hP : P.WF) {gate} {fuel : Nat} {x0 : EState × HState} (hfr : hazardFreeRun P fuel x0 = true)
    {T T' : TState} (e : Ev) (hs : Sim P x0 T) (ht : tstep P gate T e = some T') : Sim P x0 T' := by
  cases e with
  | fetch => exact step_fetch hs ht
  | fetchRet => exact step_fetchRet hs ht
  | resync => exact step_resync hs ht
  | decode => exact step_decode hP hs ht
  | issue => exact step_issue hs ht
  | exec => exact step_exec hP hfr hs ht
  | complete => exact step_complete hP hfr hs ht
  | serveV k => exact step_serveV hP hs ht
  | serveS k => exact step_serveS hP hs ht
  | retV => exact step_retV hs ht
  | retS k => exact step_retS hs ht
  | env a v => exact step_env hP hs ht

theorem sim_run (hP : P.WF) {gate} {fuel : Nat} {x0 : EState × HState} (hfr : hazardFreeRun P fuel x0 = true) :
    ∀ (evs : List Ev) (T T' : TState), Sim P x0 T → trun P gate T evs = some T' → Sim P x0 T' := by
  intro evs
  induction evs with
  | nil => intro T T' hs ht; simp only [trun] at ht; cases ht; exact hs
  | cons e es ih =>
    intro T T' hs ht
    simp only [trun] at ht
    cases hstep : tstep P gate T e with
    | none => simp [hstep] at ht
    | some T1 =>
      simp only [hstep] at ht
      exact ih T1 T' (sim_step hP hfr e hs hstep) ht

theorem sim_init (pc : Nat) (regs : RF) (mem : Mem) :
    Sim P (einit pc regs mem, {}) (tinit pc regs mem) := by
  refine ⟨0, einit pc regs mem, {}, rfl, ⟨?_, ?_, ?_, ⟨?_, ?_⟩, ?_, ?_⟩⟩
  · exact ⟨rfl, rfl, by simp [tinit], by simp [tinit], by simp [tinit]⟩
  · exact ⟨fun x _ => rfl, by simp [tinit]⟩
  · exact ⟨fun a _ _ => rfl, by simp [tinit]⟩
  · intro k hk; simp [tinit] at hk
  · intro i hi; simp [tinit] at hi
  · show InvP P .ready none pc [] [] [] (einit pc regs mem)
    simp [InvP, einit]
  · simp [tinit]

end C02.Wf
