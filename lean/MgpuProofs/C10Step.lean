import MgpuProofs.C10Run
/-!
Driver-level steps of C10: Free/RemovePage and migration preparation under the weak mirror
invariant, device registration, inversion lemmas for `step`, and the invariant `WInv` that every
history keeps (any number of processes).
-/
namespace C10

/-! ### RemovePage / Free with any number of processes -/

theorem removePage_w {s s' : State} {v : Nat}
    (hP : PInv s.ps s.devs s.pool.frees s.pt) (hM : MirrorWeak s.mirror s.pt) (h : removePage s v = .ok s') :
    PInv s'.ps s'.devs s'.pool.frees s'.pt ∧ MirrorWeak s'.mirror s'.pt ∧ Frame s s' ∧
    (∀ e ∈ s.pt, e.vaddr ≠ v → e ∈ s'.pt) ∧ (∀ e ∈ s'.pt, e ∈ s.pt) ∧ s'.mirror = s.mirror := by
  unfold removePage at h
  split at h
  · simp at h
  · rename_i pg hl
    split at h
    · simp at h
    · rename_i d hd
      split at h
      · simp at h
      · rename_i pt' hr
        injection h with h; subst h
        obtain ⟨⟨e, he⟩, rfl⟩ := ptRemove_ok hr
        obtain ⟨he1, he2, he3⟩ := ptFind_some he
        have hvk : pg.vaddr = v := hM.1 _ (lookup_mem hl)
        have hpa : e.paddr = pg.paddr := hM.2 v pg hl e he1 he2 (he3.trans hvk)
        have hd' : devOf s.devs e.paddr = some d := by rw [hpa]; exact hd
        have hfilter : (s.pt.filter fun p => !(p.pid == pg.pid && p.vaddr == pg.vaddr)) =
            s.pt.filter fun p => !(p.pid == e.pid && p.vaddr == e.vaddr) := by rw [he2, he3]
        have hrem := hP.remove he1 hd'
        refine ⟨?_, hM.filter _, ⟨rfl, rfl, rfl, rfl, rfl, rfl, rfl, rfl⟩, ?_, ?_, rfl⟩
        · show PInv s.ps s.devs (s.pool.frees.modify d (· ++ [pg.paddr])) _
          rw [hfilter, ← hpa]; exact hrem
        · intro x hx hne
          apply List.mem_filter.mpr
          refine ⟨hx, ?_⟩
          have : ¬ (x.vaddr = pg.vaddr) := fun hh => hne (hh.trans hvk)
          simp [this]
        · intro x hx
          exact (List.mem_filter.mp hx).1

theorem removePages_w : ∀ (vs : List Nat) (s s' : State),
    PInv s.ps s.devs s.pool.frees s.pt → MirrorWeak s.mirror s.pt → removePages vs s = .ok s' →
    PInv s'.ps s'.devs s'.pool.frees s'.pt ∧ MirrorWeak s'.mirror s'.pt ∧ Frame s s' ∧
    (∀ e ∈ s.pt, e.vaddr ∉ vs → e ∈ s'.pt) ∧ (∀ e ∈ s'.pt, e ∈ s.pt) := by
  intro vs
  induction vs with
  | nil =>
    intro s s' hP hM h
    simp [removePages] at h; subst h
    exact ⟨hP, hM, Frame.refl _, fun e he _ => he, fun e he => he⟩
  | cons v vs ih =>
    intro s s' hP hM h
    simp only [removePages] at h
    split at h
    · simp at h
    · rename_i s1 h1
      obtain ⟨a, b, c, d, e, _⟩ := removePage_w hP hM h1
      obtain ⟨a', b', c', d', e'⟩ := ih s1 s' a b h
      refine ⟨a', b', c.trans c', ?_, fun x hx => e x (e' x hx)⟩
      intro x hx hn
      exact d' x (d x hx (fun hh => hn (by simp [hh]))) (fun hh => hn (List.mem_cons_of_mem _ hh))

theorem free_w {s s' : State} {ptr : Nat}
    (hP : PInv s.ps s.devs s.pool.frees s.pt) (hM : MirrorWeak s.mirror s.pt) (h : free s ptr = .ok s') :
    PInv s'.ps s'.devs s'.pool.frees s'.pt ∧ MirrorWeak s'.mirror s'.pt ∧
    s'.ps = s.ps ∧ s'.total = s.total ∧ s'.devs = s.devs ∧ s'.ctxs = s.ctxs ∧ s'.npid = s.npid ∧
    s'.cursors = s.cursors ∧ s'.npages = (ptr, 0) :: s.npages ∧
    (∀ e ∈ s.pt, e.vaddr ∉ freeVAddrs s ptr → e ∈ s'.pt) ∧ (∀ e ∈ s'.pt, e ∈ s.pt) := by
  unfold free at h
  obtain ⟨a, b, c, d, e⟩ := removePages_w _ { s with npages := (ptr, 0) :: s.npages } s' hP hM h
  exact ⟨a, b, c.ps, c.total, c.devs, c.ctxs, c.npid, c.cursors, c.npages, d, e⟩

/-! ### migration preparation -/

theorem allocPage_dev {devs : List Dev} {pool pool' : Pool} {d p : Nat}
    (h : allocPage devs pool d = .ok (p, pool')) : ∃ dv, devs[d]? = some dv := by
  unfold allocPage at h
  split at h
  · simp at h
  · rename_i dv hdv; exact ⟨dv, hdv⟩

theorem allocGiven_dev {s s' : State} {π d v : Nat} {u : Bool} {pg : Page}
    (h : allocGiven s π d v u = .ok (pg, s')) : ∃ dv, s.devs[d]? = some dv := by
  unfold allocGiven at h
  split at h
  · simp at h
  · rename_i hp; exact allocPage_dev hp

theorem agreesB_congr {m : Option Page} {a b : Page} (h1 : a.pid = b.pid) (h2 : a.vaddr = b.vaddr)
    (h3 : a.paddr = b.paddr) : agreesB m a = agreesB m b := by
  unfold agreesB
  rw [h1, h2, h3]

/-- `Driver.preparePageForMigration` onto a real GPU (device `g+1` is not a unified device):
AllocatePageWithGivenVAddr followed by the second page-table `Update` (device ID, IsMigrating). -/
theorem prepareMigration_w {s s' : State} {π v g : Nat} {r : Nat × Nat}
    (hP : PInv s.ps s.devs s.pool.frees s.pt) (hM : MirrorWeak s.mirror s.pt)
    (hg : ∀ dv, s.devs[g + 1]? = some dv → dv.kind ≠ .unified)
    (h : prepareMigration s π v g = .ok (r, s')) :
    PInv s'.ps s'.devs s'.pool.frees s'.pt ∧ MirrorWeak s'.mirror s'.pt ∧ Frame s s' ∧
    s'.pt.map key = s.pt.map key ∧
    (SinglePID π s → MirrorOK s → SinglePID π s' ∧ MirrorOK s') := by
  unfold prepareMigration at h
  split at h
  · simp at h
  · rename_i old hold
    split at h
    · simp at h
    · rename_i pg s1 h1
      dsimp only at h
      split at h
      · simp at h
      · rename_i pt' hu
        injection h with h
        obtain ⟨_, rfl⟩ := Prod.mk.inj h
        obtain ⟨hpres, hpgin, hpid, hva, hown⟩ := allocGiven_pres hP h1
        obtain ⟨m1, f1, k1⟩ := allocGiven_ext hM h1
        obtain ⟨dv, hdv⟩ := allocGiven_dev h1
        obtain ⟨fl, hfl, hin⟩ := hown dv hdv (hg dv hdv)
        obtain ⟨_, dd, hdd, hb, he⟩ := hP.freeInDev _ fl hfl _ hin
        obtain ⟨_, rfl⟩ := ptUpdate_ok hu
        have hP1 := hpres.1
        have hdev : ∃ d, s1.devs[g + 1]? = some d ∧ d.base ≤ pg.paddr ∧ pg.paddr + s1.ps ≤ d.base + d.size := by
          rw [f1.devs, f1.ps]; exact ⟨dd, hdd, hb, he⟩
        have hsame : ∀ e ∈ s1.pt, e.pid = pg.pid → e.vaddr = pg.vaddr → e = pg := by
          intro e he' h2 h3
          exact inj_of_nodup_map hP1.keyNodup he' hpgin (by simp [key, h2, h3])
        refine ⟨?_, ?_, ⟨f1.ps, f1.total, f1.devs, f1.ctxs, f1.npid, f1.cursors, f1.npages, f1.nexts⟩, ?_, ?_⟩
        · exact hP1.rewrite (pg := { pg with dev := g + 1, migrating := true }) hpgin ⟨rfl, rfl⟩ rfl hdev
        · exact m1.rewrite (pg := { pg with dev := g + 1, migrating := true })
            (fun e he' h2 h3 => by rw [hsame e he' h2 h3])
        · show (s1.pt.map (upd _)).map key = _
          rw [map_upd_keys]; exact k1
        · intro hs hm
          obtain ⟨hs1, hm1⟩ := hpres.2 hs hm
          constructor
          · intro e he'
            rcases mem_map_upd he' with rfl | he''
            · exact hpid
            · exact hs1 e he''
          · refine ⟨?_, hm1.2⟩
            intro e he'
            rcases mem_map_upd he' with rfl | he''
            · have := hm1.1 pg hpgin
              rw [← this]
              exact agreesB_congr rfl rfl rfl
            · exact hm1.1 e he''

/-! ### RegisterDevice -/

theorem range_pages_nodup (t ps k : Nat) (hps : 0 < ps) :
    ((List.range k).map fun i => t + i * ps).Nodup := by
  rw [List.Nodup, List.pairwise_map]
  refine List.Pairwise.imp ?_ (List.nodup_range (n := k))
  intro a b hab h
  apply hab
  have : a * ps = b * ps := by omega
  exact Nat.eq_of_mul_eq_mul_right hps this

theorem pages_count {ps k : Nat} (hps : 0 < ps) : (ps * k + ps - 1) / ps = k := by
  have : ps * k + ps - 1 = ps * k + (ps - 1) := by omega
  rw [this, Nat.mul_add_div hps, Nat.div_eq_of_lt (by omega)]
  rfl

/-- layout facts kept by `RegisterDevice`: the next device starts page-aligned above every device -/
structure Layout (s : State) : Prop where
  totalAligned : s.ps ∣ s.total
  devBelow : ∀ d ∈ s.devs, d.base + d.size ≤ s.total

theorem registerDevice_pres {s : State} {kind : Kind} {size : Nat} {actual : List Nat}
    (hP : PInv s.ps s.devs s.pool.frees s.pt) (hL : Layout s) (hsz : s.ps ∣ size) :
    PInv (registerDevice s kind size actual).ps (registerDevice s kind size actual).devs
      (registerDevice s kind size actual).pool.frees (registerDevice s kind size actual).pt ∧
    Layout (registerDevice s kind size actual) := by
  obtain ⟨k, rfl⟩ := hsz
  have hps := hP.pspos
  have hbelowFree : ∀ p ∈ s.pool.frees.flatten, p < s.total := by
    intro p hp
    obtain ⟨fl, hfl, hpfl⟩ := List.mem_flatten.mp hp
    obtain ⟨i, hi⟩ := List.mem_iff_getElem?.mp hfl
    obtain ⟨_, d, hd, _, he⟩ := hP.freeInDev i fl hi p hpfl
    have := hL.devBelow d (List.mem_of_getElem? hd)
    omega
  have hbelowLive : ∀ pg ∈ s.pt, pg.paddr < s.total := by
    intro pg hpg
    obtain ⟨d, hd, _, he⟩ := hP.inDev pg hpg
    have := hL.devBelow d (List.mem_of_getElem? hd)
    omega
  have hnew : ∀ p ∈ (List.range ((s.ps * k + s.ps - 1) / s.ps)).map (fun i => s.total + i * s.ps),
      s.ps ∣ p ∧ s.total ≤ p ∧ p + s.ps ≤ s.total + s.ps * k := by
    intro p hp
    rw [pages_count hps] at hp
    obtain ⟨i, hi, rfl⟩ := List.mem_map.mp hp
    have hi' := List.mem_range.mp hi
    refine ⟨Nat.dvd_add hL.totalAligned (Nat.dvd_mul_left ..), Nat.le_add_right .., ?_⟩
    have : (i + 1) * s.ps ≤ k * s.ps := Nat.mul_le_mul_right _ hi'
    rw [Nat.add_mul, Nat.one_mul, Nat.mul_comm k] at this
    omega
  constructor
  · refine ⟨hps, ?_, ?_, ?_, hP.liveNodup, ?_, hP.keyNodup, hP.palign, ?_, ?_⟩
    · show (s.pool.frees ++ [_]).length = (s.devs ++ [_]).length
      simp [hP.len]
    · intro d hd
      rcases List.mem_append.mp hd with hd | hd
      · exact hP.devAligned d hd
      · simp at hd; subst hd
        exact ⟨hL.totalAligned, Nat.dvd_mul_right ..⟩
    · show (s.pool.frees ++ [_]).flatten.Nodup
      rw [List.flatten_append, List.flatten_singleton, List.nodup_append]
      refine ⟨hP.freeNodup, range_pages_nodup _ _ _ hps, ?_⟩
      intro a ha b hb hab
      have h1 := hbelowFree a ha
      have h2 := (hnew b hb).2.1
      omega
    · intro p hp
      change p ∈ (s.pool.frees ++ [_]).flatten at hp
      show p ∉ s.pt.map (·.paddr)
      rw [List.flatten_append, List.flatten_singleton] at hp
      rcases List.mem_append.mp hp with hp | hp
      · exact hP.disj p hp
      · intro hm
        obtain ⟨pg, hpg, rfl⟩ := List.mem_map.mp hm
        have h1 := hbelowLive pg hpg
        have h2 := (hnew _ hp).2.1
        omega
    · intro pg hpg
      obtain ⟨d, hd, hb, he⟩ := hP.inDev pg hpg
      refine ⟨d, ?_, hb, he⟩
      show (s.devs ++ [_])[pg.dev]? = some d
      rw [List.getElem?_append_left]
      · exact hd
      · rcases Nat.lt_or_ge pg.dev s.devs.length with hl | hl
        · exact hl
        · simp [List.getElem?_eq_none hl] at hd
    · intro i fl hi p hp
      change (s.pool.frees ++ [_])[i]? = some fl at hi
      show s.ps ∣ p ∧ ∃ d, (s.devs ++ [_])[i]? = some d ∧ _
      rcases Nat.lt_or_ge i s.pool.frees.length with hl | hl
      · rw [List.getElem?_append_left hl] at hi
        obtain ⟨h1, d, hd, h2, h3⟩ := hP.freeInDev i fl hi p hp
        refine ⟨h1, d, ?_, h2, h3⟩
        rw [List.getElem?_append_left (by rw [← hP.len]; exact hl)]
        exact hd
      · rw [List.getElem?_append_right hl] at hi
        have hi0 : i - s.pool.frees.length = 0 := by
          rcases Nat.eq_zero_or_pos (i - s.pool.frees.length) with h0 | h0
          · exact h0
          · rw [List.getElem?_eq_none (by simp; omega)] at hi; simp at hi
        rw [hi0] at hi
        simp at hi; subst hi
        obtain ⟨h1, h2, h3⟩ := hnew p hp
        refine ⟨h1, { kind := kind, base := s.total, size := s.ps * k, actual := actual }, ?_, h2, h3⟩
        have : i = s.devs.length := by rw [← hP.len]; omega
        rw [this]
        simp
  · constructor
    · exact Nat.dvd_add hL.totalAligned (Nat.dvd_mul_right ..)
    · intro d hd
      change d ∈ s.devs ++ [_] at hd
      show d.base + d.size ≤ s.total + s.ps * k
      rcases List.mem_append.mp hd with hd | hd
      · have := hL.devBelow d hd; omega
      · simp at hd; subst hd; exact Nat.le_refl _

theorem unify_ok {s s' : State} {ids : List Nat} {id : Nat} (h : unify s ids = .ok (id, s')) :
    s' = registerDevice s .unified 0 ids := by
  unfold unify at h
  split at h
  · simp at h
  · split at h
    · simp at h
    · injection h with h
      exact (Prod.mk.inj h).2.symm

/-! ### inversion of `step` -/

theorem step_init {s s' : State} {r : Res} (h : step s .init = .ok (r, s')) :
    s' = { s with npid := s.npid + 1, ctxs := s.ctxs ++ [{ pid := s.npid + 1, gpu := 1, bufs := [] }] } := by
  simp only [step] at h
  injection h with h
  exact (Prod.mk.inj h).2.symm

theorem step_initpid {s s' : State} {r : Res} {c : Nat} (h : step s (.initpid c) = .ok (r, s')) :
    ∃ cx, s.ctxs[c]? = some cx ∧ s' = { s with ctxs := s.ctxs ++ [{ pid := cx.pid, gpu := 1, bufs := [] }] } := by
  simp only [step] at h
  split at h
  · simp at h
  · rename_i cx hc
    injection h with h
    exact ⟨cx, hc, (Prod.mk.inj h).2.symm⟩

theorem step_sel {s s' : State} {r : Res} {c g : Nat} (h : step s (.sel c g) = .ok (r, s')) :
    ∃ cx, s.ctxs[c]? = some cx ∧ s' = setCtx s c { cx with gpu := g } := by
  simp only [step] at h
  split at h
  · simp at h
  · rename_i cx hc
    split at h
    · simp at h
    · injection h with h
      exact ⟨cx, hc, (Prod.mk.inj h).2.symm⟩

theorem step_unify {s s' : State} {r : Res} {c : Nat} {ids : List Nat} (h : step s (.unify c ids) = .ok (r, s')) :
    s' = registerDevice s .unified 0 ids := by
  simp only [step] at h
  split at h
  · simp at h
  · rename_i id s1 h1
    injection h with h
    obtain ⟨_, rfl⟩ := Prod.mk.inj h
    exact unify_ok h1

theorem step_alloc {s s' : State} {r : Res} {c bytes : Nat} (h : step s (.alloc c bytes) = .ok (r, s')) :
    ∃ cx v s1, s.ctxs[c]? = some cx ∧ allocate s cx.pid bytes cx.gpu = .ok (v, s1) ∧
      s' = setCtx s1 c { cx with bufs := cx.bufs ++ [{ vaddr := v, size := bytes, freed := false }] } ∧ r = .ptr v := by
  simp only [step] at h
  split at h
  · simp at h
  · rename_i cx hc
    split at h
    · simp at h
    · rename_i v s1 h1
      injection h with h
      obtain ⟨rfl, rfl⟩ := Prod.mk.inj h
      exact ⟨cx, v, s1, hc, h1, rfl, rfl⟩

theorem step_allocu {s s' : State} {r : Res} {c bytes : Nat} (h : step s (.allocu c bytes) = .ok (r, s')) :
    ∃ cx v s1, s.ctxs[c]? = some cx ∧ allocateUnified s cx.pid bytes = .ok (v, s1) ∧
      s' = setCtx s1 c { cx with bufs := cx.bufs ++ [{ vaddr := v, size := bytes, freed := false }] } ∧ r = .ptr v := by
  simp only [step] at h
  split at h
  · simp at h
  · rename_i cx hc
    split at h
    · simp at h
    · rename_i v s1 h1
      injection h with h
      obtain ⟨rfl, rfl⟩ := Prod.mk.inj h
      exact ⟨cx, v, s1, hc, h1, rfl, rfl⟩

theorem step_free {s s' : State} {r : Res} {c ptr : Nat} (h : step s (.free c ptr) = .ok (r, s')) :
    ∃ cx s1, s.ctxs[c]? = some cx ∧ free s ptr = .ok s1 ∧
      s' = setCtx s1 c { cx with bufs := cx.bufs.map fun b => if b.vaddr = ptr then { b with freed := true } else b } := by
  simp only [step] at h
  split at h
  · simp at h
  · rename_i cx hc
    split at h
    · simp at h
    · rename_i s1 h1
      injection h with h
      obtain ⟨_, rfl⟩ := Prod.mk.inj h
      exact ⟨cx, s1, hc, h1, rfl⟩

theorem step_remap {s s' : State} {r : Res} {c addr bytes d : Nat} (h : step s (.remap c addr bytes d) = .ok (r, s')) :
    ∃ cx, s.ctxs[c]? = some cx ∧ remap s cx.pid addr bytes d = .ok s' := by
  simp only [step] at h
  split at h
  · simp at h
  · rename_i cx hc
    split at h
    · simp at h
    · rename_i s1 h1
      injection h with h
      obtain ⟨_, rfl⟩ := Prod.mk.inj h
      exact ⟨cx, hc, h1⟩

theorem step_dist {s s' : State} {r : Res} {c addr bytes : Nat} {ids : List Nat}
    (h : step s (.dist c addr bytes ids) = .ok (r, s')) :
    ∃ cx bs, s.ctxs[c]? = some cx ∧ distribute s cx.pid addr bytes ids = .ok (bs, s') := by
  simp only [step] at h
  split at h
  · simp at h
  · rename_i cx hc
    split at h
    · simp at h
    · rename_i bs s1 h1
      injection h with h
      obtain ⟨_, rfl⟩ := Prod.mk.inj h
      exact ⟨cx, bs, hc, h1⟩

theorem step_mig {s s' : State} {r : Res} {c v g : Nat} (h : step s (.mig c v g) = .ok (r, s')) :
    ∃ cx no, s.ctxs[c]? = some cx ∧ prepareMigration s cx.pid v g = .ok (no, s') := by
  simp only [step] at h
  split at h
  · simp at h
  · rename_i cx hc
    split at h
    · simp at h
    · rename_i n o s1 h1
      injection h with h
      obtain ⟨_, rfl⟩ := Prod.mk.inj h
      exact ⟨cx, (n, o), hc, h1⟩

theorem step_rmpage {s s' : State} {r : Res} {v : Nat} (h : step s (.rmpage v) = .ok (r, s')) :
    removePage s v = .ok s' := by
  simp only [step] at h
  split at h
  · simp at h
  · rename_i s1 h1
    injection h with h
    obtain ⟨_, rfl⟩ := Prod.mk.inj h
    exact h1

theorem step_apg {s s' : State} {r : Res} {c d v : Nat} {u : Bool} (h : step s (.apg c d v u) = .ok (r, s')) :
    ∃ cx pg, s.ctxs[c]? = some cx ∧ allocGiven s cx.pid d v u = .ok (pg, s') := by
  simp only [step] at h
  split at h
  · simp at h
  · rename_i cx hc
    split at h
    · simp at h
    · rename_i pg s1 h1
      injection h with h
      obtain ⟨_, rfl⟩ := Prod.mk.inj h
      exact ⟨cx, pg, hc, h1⟩

theorem step_rfb {s s' : State} {r : Res} {c : Nat} (h : step s (.rfb c) = .ok (r, s')) :
    ∃ cx, s.ctxs[c]? = some cx ∧ s' = setCtx s c { cx with bufs := removeFreedBuffers cx.bufs } := by
  simp only [step] at h
  split at h
  · simp at h
  · rename_i cx hc
    injection h with h
    exact ⟨cx, hc, (Prod.mk.inj h).2.symm⟩

theorem remapAll_pres (π : Nat) (ids : List Nat) : ∀ (plan : List (Nat × Nat × Nat)) (s s' : State),
    PInv s.ps s.devs s.pool.frees s.pt → MirrorWeak s.mirror s.pt → remapAll π ids plan s = .ok s' → Pres π s s' := by
  intro plan
  induction plan with
  | nil => intro s s' hP _ h; simp [remapAll] at h; subst h; exact Pres.refl hP
  | cons r rest ih =>
    intro s s' hP hM h
    obtain ⟨a, b, i⟩ := r
    simp only [remapAll] at h
    split at h
    · simp at h
    · rename_i s1 h1
      have p1 := remap_pres hP hM h1
      exact p1.trans (ih s1 s' p1.1 (remap_ext hM h1).1 h)

theorem distribute_pres {s s' : State} {π addr bytes : Nat} {ids bs : List Nat}
    (hP : PInv s.ps s.devs s.pool.frees s.pt) (hM : MirrorWeak s.mirror s.pt)
    (h : distribute s π addr bytes ids = .ok (bs, s')) : Pres π s s' := by
  unfold distribute at h
  split at h
  · injection h with h; obtain ⟨_, rfl⟩ := Prod.mk.inj h; exact Pres.refl hP
  · split at h
    · simp at h
    · split at h
      · simp at h
      · split at h
        · simp at h
        · rename_i s1 h1
          injection h with h; obtain ⟨_, rfl⟩ := Prod.mk.inj h
          exact remapAll_pres π ids _ s _ hP hM h1

theorem allocate_ok {s s' : State} {π bytes d v : Nat}
    (h : allocate s π bytes d = .ok (v, s')) :
    bytes ≠ 0 ∧ allocatePages s (numPagesOf s.ps bytes) π d false = .ok (v, s') := by
  unfold allocate at h
  split at h
  · simp at h
  · rename_i hb; exact ⟨hb, h⟩

theorem allocateUnified_ok {s s' : State} {π bytes v : Nat}
    (h : allocateUnified s π bytes = .ok (v, s')) :
    bytes ≠ 0 ∧ allocatePages s (numPagesOf s.ps bytes) π 1 true = .ok (v, s') := by
  unfold allocateUnified at h
  split at h
  · simp at h
  · rename_i hb; exact ⟨hb, h⟩

/-! ### the invariant every history keeps (any number of processes) -/

/-- physical invariant + weak mirror invariant + layout -/
structure WInv (s : State) : Prop where
  phys : PInv s.ps s.devs s.pool.frees s.pt
  mw : MirrorWeak s.mirror s.pt
  layout : Layout s

/-- devices `1..n` are the real GPUs (RegisterGPU precedes every CreateUnifiedGPU) -/
def GpuOK (n : Nat) (s : State) : Prop := ∀ g, g < n → ∃ dv, s.devs[g + 1]? = some dv ∧ dv.kind = .gpu

/-- caller precondition of `preparePageForMigration`: the target is a real GPU index -/
def MigOK (n : Nat) : Op → Prop
  | .mig _ _ g => g < n
  | _ => True

theorem WInv.of_frame {s s' : State} (h : WInv s) (f : Frame s s')
    (hP : PInv s'.ps s'.devs s'.pool.frees s'.pt) (hM : MirrorWeak s'.mirror s'.pt) : WInv s' :=
  ⟨hP, hM, ⟨by rw [f.ps, f.total]; exact h.layout.1, by rw [f.devs, f.total]; exact h.layout.2⟩⟩

theorem WInv.setCtx {s : State} (h : WInv s) (c : Nat) (x : Ctx) : WInv (setCtx s c x) :=
  ⟨h.phys, h.mw, ⟨h.layout.1, h.layout.2⟩⟩

theorem GpuOK.of_devs {n : Nat} {s s' : State} (h : GpuOK n s) (hd : s'.devs = s.devs) : GpuOK n s' := by
  intro g hg; rw [hd]; exact h g hg

theorem step_w {n : Nat} {s s' : State} {op : Op} {r : Res} (hW : WInv s) (hG : GpuOK n s) (hm : MigOK n op)
    (h : step s op = .ok (r, s')) : WInv s' ∧ GpuOK n s' := by
  cases op with
  | init => rw [step_init h]; exact ⟨⟨hW.phys, hW.mw, ⟨hW.layout.1, hW.layout.2⟩⟩, hG⟩
  | initpid c =>
    obtain ⟨cx, _, rfl⟩ := step_initpid h
    exact ⟨⟨hW.phys, hW.mw, ⟨hW.layout.1, hW.layout.2⟩⟩, hG⟩
  | sel c g =>
    obtain ⟨cx, _, rfl⟩ := step_sel h
    exact ⟨hW.setCtx _ _, hG⟩
  | unify c ids =>
    rw [step_unify h]
    obtain ⟨a, b⟩ := registerDevice_pres (kind := .unified) (actual := ids) hW.phys hW.layout (Nat.dvd_zero _)
    refine ⟨⟨a, hW.mw, b⟩, ?_⟩
    intro g hg
    obtain ⟨dv, hdv, hk⟩ := hG g hg
    refine ⟨dv, ?_, hk⟩
    show (s.devs ++ [_])[g + 1]? = some dv
    rw [List.getElem?_append_left]
    · exact hdv
    · rcases Nat.lt_or_ge (g + 1) s.devs.length with hl | hl
      · exact hl
      · simp [List.getElem?_eq_none hl] at hdv
  | alloc c bytes =>
    obtain ⟨cx, v, s1, _, h1, rfl, _⟩ := step_alloc h
    obtain ⟨_, h1⟩ := allocate_ok h1
    have hP := (allocatePages_pres hW.phys h1).1.1
    obtain ⟨m, e1, e2, e3, e4, e5, e6, _⟩ := allocatePages_ext hW.mw h1
    have hW1 : WInv s1 := ⟨hP, m, ⟨by rw [e1, e2]; exact hW.layout.1, by rw [e3, e2]; exact hW.layout.2⟩⟩
    exact ⟨hW1.setCtx _ _, hG.of_devs e3⟩
  | allocu c bytes =>
    obtain ⟨cx, v, s1, _, h1, rfl, _⟩ := step_allocu h
    obtain ⟨_, h1⟩ := allocateUnified_ok h1
    have hP := (allocatePages_pres hW.phys h1).1.1
    obtain ⟨m, e1, e2, e3, e4, e5, e6, _⟩ := allocatePages_ext hW.mw h1
    have hW1 : WInv s1 := ⟨hP, m, ⟨by rw [e1, e2]; exact hW.layout.1, by rw [e3, e2]; exact hW.layout.2⟩⟩
    exact ⟨hW1.setCtx _ _, hG.of_devs e3⟩
  | free c ptr =>
    obtain ⟨cx, s1, _, h1, rfl⟩ := step_free h
    obtain ⟨a, b, e1, e2, e3, _⟩ := free_w hW.phys hW.mw h1
    have hW1 : WInv s1 := ⟨a, b, ⟨by rw [e1, e2]; exact hW.layout.1, by rw [e3, e2]; exact hW.layout.2⟩⟩
    exact ⟨hW1.setCtx _ _, hG.of_devs e3⟩
  | remap c addr bytes d =>
    obtain ⟨cx, _, h1⟩ := step_remap h
    obtain ⟨m, f, _⟩ := remap_ext hW.mw h1
    exact ⟨hW.of_frame f (remap_pres hW.phys hW.mw h1).1 m, hG.of_devs f.devs⟩
  | dist c addr bytes ids =>
    obtain ⟨cx, bs, _, h1⟩ := step_dist h
    obtain ⟨m, f, _⟩ := distribute_ext hW.mw h1
    exact ⟨hW.of_frame f (distribute_pres hW.phys hW.mw h1).1 m, hG.of_devs f.devs⟩
  | mig c v g =>
    obtain ⟨cx, no, _, h1⟩ := step_mig h
    have hg : ∀ dv, s.devs[g + 1]? = some dv → dv.kind ≠ .unified := by
      intro dv hdv
      obtain ⟨dv', hdv', hk⟩ := hG g hm
      rw [hdv] at hdv'; injection hdv' with hdv'; subst hdv'
      rw [hk]; decide
    obtain ⟨a, m, f, _⟩ := prepareMigration_w hW.phys hW.mw hg h1
    exact ⟨hW.of_frame f a m, hG.of_devs f.devs⟩
  | rmpage v =>
    obtain ⟨a, m, f, _⟩ := removePage_w hW.phys hW.mw (step_rmpage h)
    exact ⟨hW.of_frame f a m, hG.of_devs f.devs⟩
  | apg c d v u =>
    obtain ⟨cx, pg, _, h1⟩ := step_apg h
    obtain ⟨m, f, _⟩ := allocGiven_ext hW.mw h1
    exact ⟨hW.of_frame f (allocGiven_pres hW.phys h1).1.1 m, hG.of_devs f.devs⟩
  | rfb c =>
    obtain ⟨cx, _, rfl⟩ := step_rfb h
    exact ⟨hW.setCtx _ _, hG⟩

theorem run_w {n : Nat} : ∀ (ops : List Op) (s s' : State), WInv s → GpuOK n s → (∀ op ∈ ops, MigOK n op) →
    run s ops = .ok s' → WInv s' ∧ GpuOK n s' := by
  intro ops
  induction ops with
  | nil => intro s s' hW hG _ h; simp [run] at h; subst h; exact ⟨hW, hG⟩
  | cons op ops ih =>
    intro s s' hW hG hm h
    simp only [run] at h
    split at h
    · simp at h
    · rename_i r s1 h1
      obtain ⟨a, b⟩ := step_w hW hG (hm op (List.mem_cons_self ..)) h1
      exact ih s1 s' a b (fun o ho => hm o (List.mem_cons_of_mem _ ho)) h

end C10
