import MgpuProofs.C11SysHist
import MgpuProofs.C11SysArith
import MgpuProofs.C11MqLink
/-! # C11 helper: all invariants of the closed copy system together, and the context of a transaction -/
namespace C11

structure Sys.AllInv (c : SysCfg) (s : Sys) : Prop where
  comp : s.Comp c
  mem : s.MemInv
  link : s.LinkInv
  data : s.DataInv
  cmd : s.CmdInv
  wf : s.CmdWF
  hist : s.HistInv
  host : s.HostInv
  pt : s.pt = c.pt

theorem reachSys_all (c : SysCfg) (ops : List SysOp) : (reachSys c ops).AllInv c :=
  ⟨Sys.Comp.run ops (Sys.Comp.init c), Sys.MemInv.run ops (Sys.MemInv.init c),
   Sys.LinkInv.run ops (Sys.LinkInv.init c), Sys.DataInv.run ops (Sys.DataInv.init c),
   Sys.CmdInv.run ops (Sys.CmdInv.init c), Sys.CmdWF.run ops (Sys.CmdWF.init c),
   Sys.HistInv.run ops (Sys.HistInv.init c), Sys.HostInv.run ops (Sys.HostInv.init c),
   Sys.run_pt ops (Sys.init c)⟩

/-- the DMA part of a reachable state: invariants of the engine model -/
theorem Sys.AllInv.dma {c : SysCfg} {s : Sys} (h : s.AllInv c) : s.dma.Inv ∧ s.dma.TxInv := by
  obtain ⟨_, _, dops, _, _, hd, _⟩ := h.comp
  rw [hd]
  exact ⟨dma_inv c.log2 c.maxReq c.memCap dops, Env.run_tx (Env.init_tx c.log2 c.maxReq c.memCap) dops⟩

theorem getElem?_of_ids_range {l : List CpReq} {n : Nat} (h : l.map (·.id) = List.range n) {r : CpReq}
    (hr : r ∈ l) : l[r.id]? = some r := by
  obtain ⟨i, hi⟩ := List.mem_iff_getElem?.1 hr
  have h1 : (l.map (·.id))[i]? = some r.id := by rw [List.getElem?_map, hi]; rfl
  rw [h] at h1
  have hlt : i < n := by
    apply Decidable.byContradiction; intro hn
    rw [List.getElem?_eq_none (by simp; omega)] at h1; cases h1
  rw [List.getElem?_range hlt] at h1
  cases h1; exact hi

/-- everything known about a transaction the memory performed: the driver request and page piece it
    belongs to, that it lies inside the piece, its direction, and the translation of the piece's bytes -/
structure TxCtx (s : Sys) (t : MemTx) (rq : MqReq) (p : Piece) : Prop where
  req : s.reqOfDma t.owner = some rq
  piece : s.pieceOf rq = some p
  cmd_mem : p.cmd ∈ s.cmds
  lo : p.pa ≤ t.addr
  hi : t.addr + t.len ≤ p.pa + p.len
  pos : 0 < t.len
  dir : t.write = (mqKindToDma p.cmd.kind == Kind.h2d)
  inside : p.off + p.len ≤ p.cmd.len
  tr : ∀ j, j < p.len → translate s.pt (p.cmd.addr + p.off + j) = some (p.pa + j)

theorem Sys.AllInv.tx_ctx {c : SysCfg} {s : Sys} (h : s.AllInv c) (hinj : PtInj c.pt) {t : MemTx} (ht : t ∈ s.mlog) :
    ∃ (rq : MqReq) (p : Piece), TxCtx s t rq p := by
  obtain ⟨rq, p, a1, a2, _, _⟩ := h.data.data t ht
  obtain ⟨q, hq, g1, g2, g3, g4, _, g6⟩ := h.mem.cont t ht
  obtain ⟨hdi, hdt⟩ := h.dma
  have hiss : q ∈ s.dma.issued := by unfold Env.issued; simp [hq]
  obtain ⟨r, hr, hrid, hsp, hw⟩ := hdt.issued_in_range q hiss
  have hrd : s.dma.cps[r.id]? = some r := getElem?_of_ids_range hdi.cps_ids hr
  obtain ⟨cl, rq', p', b1, b2, b3, b4⟩ := h.link.pay r.id r hrd
  have hreq' : s.reqOfDma t.owner = some rq' := by
    unfold Sys.reqOfDma Sys.reqOfCp
    rw [← g4, ← hrid, b1]; exact b2
  have hrq : rq' = rq := Option.some.inj (hreq'.symm.trans a1)
  subst hrq
  have hp : p' = p := Option.some.inj (b3.symm.trans a2)
  subst hp
  obtain ⟨c1, c2, c3, c4, c5, c6⟩ := Sys.pieceOf_spec a2
  have hpm : (p'.pa, p'.off, p'.len) ∈ p'.cmd.pcs := List.mem_of_getElem? c5
  have hpcs := h.wf.pcs p'.cmd c1
  rw [h.pt] at hpcs
  obtain ⟨d1, d2, d3⟩ := pieces_piece c.pt hinj p'.cmd.addr p'.cmd.len p'.cmd.pcs hpcs _ hpm
  have hra : r.addr = p'.pa := by rw [b4]
  have hrl : r.len = p'.len := by rw [b4]
  have hrk : r.kind = mqKindToDma p'.cmd.kind := by rw [b4]
  obtain ⟨e1, e2, e3⟩ := splitBy_mem_range _ _ _ _ _ hsp
  simp only at e1 e2 e3
  rw [hra] at e1
  rw [hra, hrl] at e2
  refine ⟨rq', p', a1, a2, c1, by rw [← g2]; exact e1, by rw [← g2, ← g6]; exact e2, by rw [← g6]; exact e3,
    by rw [← g3, hw, hrk], d1, ?_⟩
  intro j hj
  rw [h.pt]; exact d3 j hj

/-! ## from a completed command to the DMA copy of each of its page pieces -/

theorem Sys.AllInv.enqOf {c : SysCfg} {s : Sys} (h : s.AllInv c) {q seq : Nat} {cmd : SysCmd}
    (hc : s.cmdOf q seq = some cmd) : (s.mq.enqOf q)[seq]? = some cmd.toMq.2 := by
  unfold MqEnv.enqOf
  rw [h.wf.enq, List.filter_map, List.map_map, List.getElem?_map]
  have : (s.cmds.filter ((fun x : Nat × MqCmd => decide (x.1 = q)) ∘ SysCmd.toMq)) = s.cmds.filter (·.q == q) := by
    apply List.filter_congr; intro x _; simp only [SysCmd.toMq, Function.comp]
    by_cases hx : x.q = q <;> simp [hx]
  rw [this]
  unfold Sys.cmdOf at hc
  rw [hc]; rfl

/-- the driver request of page piece `k` of a completed command, and the DMA copy made from it -/
theorem Sys.AllInv.piece_copy {c : SysCfg} {s : Sys} (h : s.AllInv c)
    (hend : ∀ q seq, (q, seq) ∈ s.mq.s.completed → ∀ r ∈ s.mq.reqsOf q seq, r.kind ≠ .flush →
      ∃ d ∈ s.cp.answered, s.reqOfDma d = some r)
    {q seq : Nat} {cmd : SysCmd} (hcomp : (q, seq) ∈ s.mq.s.completed) (hc : s.cmdOf q seq = some cmd)
    {k : Nat} {pc : Nat × Nat × Nat} (hk : cmd.pcs[k]? = some pc) :
    ∃ (r : MqReq) (d : Nat), d ∈ s.cp.answered ∧ s.reqOfDma d = some r ∧
      s.pieceOf r = some { cmd := cmd, seq := seq, pa := pc.1, off := pc.2.1, len := pc.2.2 } := by
  obtain ⟨mo, _, _, hmq, _, _, _⟩ := h.comp
  have hspec := mq_reqsOf_spec 1 c.cycH2D c.cycD2H c.nQueues c.warm mo q seq cmd.toMq.2
  rw [← hmq] at hspec
  obtain ⟨hmap, hall⟩ := hspec hcomp (h.enqOf hc)
  have hklt : k < cmd.pcs.length := by
    apply Decidable.byContradiction; intro hn
    rw [List.getElem?_eq_none (by omega)] at hk; cases hk
  have hwant := mqWantReqs_piece 1 cmd.toMq.2 k hklt
  rw [← hmap] at hwant
  obtain ⟨r, hr, hre⟩ := List.mem_map.1 hwant
  simp only [Prod.mk.injEq] at hre
  obtain ⟨hrk, hri⟩ := hre
  have hrk' : r.kind = cmd.kind := hrk
  obtain ⟨_, hrq, hrs⟩ := hall r hr
  have hcm : cmd ∈ s.cmds := by
    unfold Sys.cmdOf at hc
    exact (List.mem_filter.1 (List.mem_of_getElem? hc)).1
  have hnf : r.kind ≠ .flush := by
    rw [hrk']; rcases h.wf.kind cmd hcm with e | e <;> rw [e] <;> simp
  obtain ⟨d, hd, hdr⟩ := hend q seq hcomp r hr hnf
  refine ⟨r, d, hd, hdr, ?_⟩
  unfold Sys.pieceOf
  rw [if_neg hnf, hrq, hrs, hc]
  simp only [hri, hk]

end C11
