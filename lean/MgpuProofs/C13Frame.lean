import MgpuModel.C13Frame
import MgpuProofs.C13Elf
/-! Helper lemmas for `Props/C13Frame.lean`: reads of two files that agree on a range. -/
namespace C13
namespace Elf

theorem byteAt_congr {f g : Bytes} {i : Nat} (h : f[i]? = g[i]?) : byteAt f i = byteAt g i := by
  unfold byteAt; rw [List.getD_eq_getElem?_getD, List.getD_eq_getElem?_getD, h]

theorem AgOn.byte {f g : Bytes} {o n : Nat} (h : AgOn f g o n) (k : Nat) (hk : k < n) :
    byteAt f (o + k) = byteAt g (o + k) := byteAt_congr (h k hk)

theorem AgOn.mono {f g : Bytes} {o n : Nat} (h : AgOn f g o n) (o' n' : Nat) (h1 : o ≤ o') (h2 : o' + n' ≤ o + n) :
    AgOn f g o' n' := by
  intro j hj
  have := h (o' - o + j) (by omega)
  rwa [show o + (o' - o + j) = o' + j by omega] at this

theorem AgOn.u16 {f g : Bytes} {o n : Nat} (h : AgOn f g o n) (hn : 2 ≤ n) : u16 f o = u16 g o := by
  have h0 := h.byte 0 (by omega); have h1 := h.byte 1 (by omega)
  unfold C13.u16; simp only [Nat.add_zero] at h0; rw [h0, h1]

theorem AgOn.u32 {f g : Bytes} {o n : Nat} (h : AgOn f g o n) (hn : 4 ≤ n) : u32 f o = u32 g o := by
  have h0 := h.byte 0 (by omega); have h1 := h.byte 1 (by omega)
  have h2 := h.byte 2 (by omega); have h3 := h.byte 3 (by omega)
  unfold C13.u32; simp only [Nat.add_zero] at h0; rw [h0, h1, h2, h3]

theorem AgOn.u64 {f g : Bytes} {o n : Nat} (h : AgOn f g o n) (hn : 8 ≤ n) : u64 f o = u64 g o := by
  unfold C13.u64
  rw [(h.mono o 4 (by omega) (by omega)).u32 (by omega), (h.mono (o + 4) 4 (by omega) (by omega)).u32 (by omega)]

theorem AgOn.shdrAt {f g : Bytes} {o n : Nat} (h : AgOn f g o n) (hn : 44 ≤ n) : shdrAt f o = shdrAt g o := by
  unfold Elf.shdrAt
  rw [(h.mono o 4 (by omega) (by omega)).u32 (by omega),
    (h.mono (o + 4) 4 (by omega) (by omega)).u32 (by omega),
    (h.mono (o + 8) 8 (by omega) (by omega)).u64 (by omega),
    (h.mono (o + 16) 8 (by omega) (by omega)).u64 (by omega),
    (h.mono (o + 24) 8 (by omega) (by omega)).u64 (by omega),
    (h.mono (o + 32) 8 (by omega) (by omega)).u64 (by omega),
    (h.mono (o + 40) 4 (by omega) (by omega)).u32 (by omega)]

theorem readAt_congr {f g : Bytes} (hl : f.length = g.length) {o n : Nat} (h : AgOn f g o n) :
    readAt f o n = readAt g o n := by
  unfold readAt
  rw [hl]
  split
  · rfl
  · split
    · congr 1
      apply List.ext_getElem?
      intro j
      simp only [List.getElem?_take, List.getElem?_drop]
      split
      · exact h j ‹_›
      · rfl
    · rfl

theorem readAt_isNone_congr {f g : Bytes} (hl : f.length = g.length) (o n : Nat) :
    (readAt f o n).isNone = (readAt g o n).isNone := by
  unfold readAt
  rw [hl]
  split
  · rfl
  · split <;> rfl

theorem secData_congr {f g : Bytes} (hl : f.length = g.length) {sh : Shdr}
    (h : AgOn f g (secRange sh).1 (secRange sh).2) : secData f sh = secData g sh := by
  unfold secData
  unfold secRange at h
  split
  · rfl
  · rename_i hne
    rw [if_neg hne] at h
    exact readAt_congr hl h

theorem AgreeOn.on {f g : Bytes} {R : List (Nat × Nat)} (h : AgreeOn f g R) {o n : Nat} (hm : (o, n) ∈ R) :
    AgOn f g o n := fun j hj => h.2 (o, n) hm j hj

theorem any_range_congr (n : Nat) (p q : Nat → Bool) (h : ∀ i, i < n → p i = q i) :
    (List.range n).any p = (List.range n).any q := by
  rw [Bool.eq_iff_iff]
  simp only [List.any_eq_true, List.mem_range]
  constructor
  · rintro ⟨i, hi, hp⟩; exact ⟨i, hi, by rw [← h i hi]; exact hp⟩
  · rintro ⟨i, hi, hp⟩; exact ⟨i, hi, by rw [h i hi]; exact hp⟩

theorem map_range_congr {α : Type} (n : Nat) (p q : Nat → α) (h : ∀ i, i < n → p i = q i) :
    (List.range n).map p = (List.range n).map q :=
  List.map_congr_left (fun i hi => h i (List.mem_range.1 hi))

theorem mem_hdr0 (f : Bytes) : ((0 : Nat), (64 : Nat)) ∈ hdrRanges f := by
  unfold hdrRanges; exact List.mem_cons_self ..

theorem mem_hdr_ph1 (f : Bytes) (i : Nat) (hi : i < u16 f 56) :
    (u64 f 32 + i * u16 f 54 + 8, 8) ∈ hdrRanges f := by
  unfold hdrRanges
  simp only [List.mem_cons, List.mem_append, List.mem_map, List.mem_range]
  exact Or.inr (Or.inl (Or.inl ⟨i, hi, rfl⟩))

theorem mem_hdr_ph2 (f : Bytes) (i : Nat) (hi : i < u16 f 56) :
    (u64 f 32 + i * u16 f 54 + 32, 8) ∈ hdrRanges f := by
  unfold hdrRanges
  simp only [List.mem_cons, List.mem_append, List.mem_map, List.mem_range]
  exact Or.inr (Or.inl (Or.inr ⟨i, hi, rfl⟩))

theorem mem_hdr_sh (f : Bytes) (i : Nat) (hi : i < u16 f 60) :
    (u64 f 40 + i * u16 f 58, 44) ∈ hdrRanges f := by
  unfold hdrRanges
  simp only [List.mem_cons, List.mem_append, List.mem_map, List.mem_range]
  exact Or.inr (Or.inr ⟨i, hi, rfl⟩)

/-- `elf.NewFile` up to the section headers reads only `hdrRanges` (and the length) -/
theorem parseHeaders_congr {f g : Bytes} (h : AgreeOn f g (hdrRanges f)) : parseHeaders g = parseHeaders f := by
  have hl := h.1
  have h0 : AgOn f g 0 64 := h.on (mem_hdr0 f)
  have b : ∀ k, k < 64 → byteAt g k = byteAt f k := fun k hk => by
    have := h0.byte k hk; simp only [Nat.zero_add] at this; exact this.symm
  have e32 : u64 g 32 = u64 f 32 := ((h0.mono 32 8 (by omega) (by omega)).u64 (by omega)).symm
  have e40 : u64 g 40 = u64 f 40 := ((h0.mono 40 8 (by omega) (by omega)).u64 (by omega)).symm
  have e54 : u16 g 54 = u16 f 54 := ((h0.mono 54 2 (by omega) (by omega)).u16 (by omega)).symm
  have e56 : u16 g 56 = u16 f 56 := ((h0.mono 56 2 (by omega) (by omega)).u16 (by omega)).symm
  have e58 : u16 g 58 = u16 f 58 := ((h0.mono 58 2 (by omega) (by omega)).u16 (by omega)).symm
  have e60 : u16 g 60 = u16 f 60 := ((h0.mono 60 2 (by omega) (by omega)).u16 (by omega)).symm
  have e62 : u16 g 62 = u16 f 62 := ((h0.mono 62 2 (by omega) (by omega)).u16 (by omega)).symm
  have hany := any_range_congr (u16 f 56)
    (fun i => decide (u64 g (u64 f 32 + i * u16 f 54 + 8) ≥ I63) || decide (u64 g (u64 f 32 + i * u16 f 54 + 32) ≥ I63))
    (fun i => decide (u64 f (u64 f 32 + i * u16 f 54 + 8) ≥ I63) || decide (u64 f (u64 f 32 + i * u16 f 54 + 32) ≥ I63))
    (fun i hi => by
      rw [((h.on (mem_hdr_ph1 f i hi)).u64 (Nat.le_refl _)), ((h.on (mem_hdr_ph2 f i hi)).u64 (Nat.le_refl _))])
  have hmap := map_range_congr (u16 f 60) (fun i => shdrAt g (u64 f 40 + i * u16 f 58))
    (fun i => shdrAt f (u64 f 40 + i * u16 f 58))
    (fun i hi => ((h.on (mem_hdr_sh f i hi)).shdrAt (Nat.le_refl _)).symm)
  unfold parseHeaders
  simp only [← hl, b 0 (by omega), b 1 (by omega), b 2 (by omega), b 3 (by omega), b 4 (by omega),
    b 5 (by omega), b 6 (by omega), b 20 (by omega), e32, e40, e54, e56, e58, e60, e62,
    readAt_isNone_congr hl.symm, hany, hmap]

/-! ## the view: only the data of `.text` / `.rodata` sections matters -/

theorem getElem?_sectionsOf (f : Bytes) (secs : List ESection) (i : Nat) :
    (sectionsOf f secs)[i]? = (secs[i]?).map (toSection f) := by
  unfold sectionsOf; rw [List.getElem?_map]; rfl

/-- the two files give the same data for every section named `.text` / `.rodata` -/
def CodeAgree (f g : Bytes) (secs : List ESection) : Prop :=
  ∀ s, s ∈ secs → isCode s.name = true → secData g s.sh = secData f s.sh

theorem findSection_congr {f g : Bytes} {secs : List ESection} (n : String) (hn : isCode n = true)
    (h : CodeAgree f g secs) : findSection (sectionsOf g secs) n = findSection (sectionsOf f secs) n := by
  induction secs with
  | nil => rfl
  | cons s rest ih =>
    have ih' := ih (fun x hx => h x (List.mem_cons_of_mem _ hx))
    unfold findSection sectionsOf at *
    simp only [List.map_cons, List.find?_cons]
    cases hs : (s.name == n)
    · simp only; exact ih'
    · simp only
      have : s.name = n := eq_of_beq hs
      rw [h s (List.mem_cons_self ..) (by rw [this]; exact hn)]

theorem isKernelSym_congr (f g : Bytes) (secs : List ESection) (s : Symbol) :
    isKernelSym (sectionsOf g secs) s = isKernelSym (sectionsOf f secs) s := by
  unfold isKernelSym
  rw [getElem?_sectionsOf, getElem?_sectionsOf]
  cases secs[s.shndx]? <;> rfl

theorem findV5_congr {f g : Bytes} {secs : List ESection} (h : CodeAgree f g secs) (k : String) (syms : List Symbol) :
    findV5 (sectionsOf g secs) k syms = findV5 (sectionsOf f secs) k syms := by
  unfold findV5
  rw [findSection_congr ".rodata" (by decide) h]
  simp only [getElem?_sectionsOf]
  split
  · rfl
  · split
    · rfl
    · split
      · rfl
      · rename_i s _
        cases secs[s.shndx]? <;> rfl

theorem loadNamed_congr {f g : Bytes} {secs : List ESection} (h : CodeAgree f g secs) (text : Section) (td : Bytes)
    (syms : List Symbol) (k : String) :
    loadNamed (sectionsOf g secs) text td syms k = loadNamed (sectionsOf f secs) text td syms k := by
  unfold loadNamed
  rw [show isKernelSym (sectionsOf g secs) = isKernelSym (sectionsOf f secs) from
    funext (isKernelSym_congr f g secs), findV5_congr h]

theorem loadKernel_congr {f g : Bytes} {secs : List ESection} (h : CodeAgree f g secs) (y : Option (List Symbol))
    (k : String) : loadKernel (viewOf g secs y) k = loadKernel (viewOf f secs y) k := by
  unfold loadKernel viewOf
  simp only
  rw [findSection_congr ".text" (by decide) h,
    show isKernelSym (sectionsOf g secs) = isKernelSym (sectionsOf f secs) from
      funext (isKernelSym_congr f g secs)]
  simp only [loadNamed_congr h]

/-! ## `elf.NewFile` and `Symbols()` -/

theorem parse_congr {f g : Bytes} (hp : parseHeaders g = parseHeaders f)
    (hs : ∀ shs ndx sh, parseHeaders f = .ok shs ndx → ndx ≠ 0 → shs[ndx]? = some sh → secData g sh = secData f sh) :
    parse g = parse f := by
  unfold parse
  rw [hp]
  cases hq : parseHeaders f with
  | reject => rfl
  | unmodelled => rfl
  | ok shs ndx =>
    simp only
    split
    · rfl
    · split
      · rfl
      · rename_i hne
        cases hg : shs[ndx]? with
        | none => rfl
        | some sh =>
          simp only
          rw [hs shs ndx sh hq hne hg]

theorem symbolsOf_congr {f g : Bytes} (secs : List ESection)
    (h1 : ∀ st, secs.find? (fun s => s.sh.type == SHT_SYMTAB) = some st → secData g st.sh = secData f st.sh)
    (h2 : ∀ st x, secs.find? (fun s => s.sh.type == SHT_SYMTAB) = some st → secs[st.sh.link]? = some x →
      secData g x.sh = secData f x.sh) :
    symbolsOf g secs = symbolsOf f secs := by
  unfold symbolsOf
  cases hq : secs.find? (fun s => s.sh.type == SHT_SYMTAB) with
  | none => rfl
  | some st =>
    simp only
    rw [h1 st hq]
    cases hx : secs[st.sh.link]? with
    | none => rfl
    | some x =>
      simp only
      rw [h2 st x hq hx]

/-! ## membership in `readRanges` -/

theorem parse_ok_hdrs {f : Bytes} {secs : List ESection} (h : parse f = .ok secs) :
    ∃ shs ndx, parseHeaders f = .ok shs ndx := by
  unfold parse at h
  cases hq : parseHeaders f with
  | reject => simp [hq] at h
  | unmodelled => simp [hq] at h
  | ok shs ndx => exact ⟨shs, ndx, rfl⟩

theorem mem_body_shstr {f : Bytes} {shs : List Shdr} {ndx : Nat} {sh : Shdr} (hq : parseHeaders f = .ok shs ndx)
    (hne : ndx ≠ 0) (hg : shs[ndx]? = some sh) : secRange sh ∈ bodyRanges f := by
  unfold bodyRanges
  rw [hq]
  simp only [if_neg hne, hg]
  exact List.mem_append_left _ (List.mem_singleton.2 rfl)

theorem mem_body_secs {f : Bytes} {secs : List ESection} (hp : parse f = .ok secs) {r : Nat × Nat}
    (hr : r ∈ symRanges secs ++ codeRanges secs) : r ∈ bodyRanges f := by
  obtain ⟨shs, ndx, hq⟩ := parse_ok_hdrs hp
  unfold bodyRanges
  rw [hq]
  simp only [hp]
  exact List.mem_append_right _ hr

theorem AgreeOn.sec {f g : Bytes} {R : List (Nat × Nat)} (h : AgreeOn f g R) {sh : Shdr} (hm : secRange sh ∈ R) :
    secData g sh = secData f sh :=
  (secData_congr h.1 (fun j hj => h.2 (secRange sh) hm j hj)).symm

/-! ## the fine frame: only the selected symbol's bytes and the descriptor -/

theorem drop_take_congr {f g : Bytes} {o n : Nat} (h : AgOn f g o n) : (f.drop o).take n = (g.drop o).take n := by
  apply List.ext_getElem?
  intro j
  simp only [List.getElem?_take, List.getElem?_drop]
  split
  · exact h j ‹_›
  · rfl

theorem secData_isNone_congr {f g : Bytes} (hl : f.length = g.length) (sh : Shdr) :
    (secData f sh).isNone = (secData g sh).isNone := by
  unfold secData
  split
  · rfl
  · exact readAt_isNone_congr hl _ _

/-- with equal lengths, `Section.Data()` fails for both files or gives two buffers of the header's size -/
theorem secData_cases {f g : Bytes} (hl : f.length = g.length) (sh : Shdr) :
    (secData f sh = none ∧ secData g sh = none) ∨
    ∃ df dg, secData f sh = some df ∧ secData g sh = some dg ∧ df.length = sh.size ∧ dg.length = sh.size ∧
      df = (f.drop sh.off).take sh.size ∧ dg = (g.drop sh.off).take sh.size := by
  have hn := secData_isNone_congr hl sh
  cases hf : secData f sh with
  | none =>
    cases hg : secData g sh with
    | none => exact Or.inl ⟨rfl, rfl⟩
    | some dg => rw [hf, hg] at hn; cases hn
  | some df =>
    cases hg : secData g sh with
    | none => rw [hf, hg] at hn; cases hn
    | some dg =>
      exact Or.inr ⟨df, dg, rfl, rfl, (secData_some hf).1, (secData_some hg).1, secData_eq hf, secData_eq hg⟩

theorem sliceU64_congr {f g : Bytes} {a n off size : Nat} {df dg : Bytes}
    (hdf : df = (f.drop a).take n) (hdg : dg = (g.drop a).take n) (lf : df.length = n) (lg : dg.length = n)
    (h : AgOn f g (a + off) size) : sliceU64 df off size = sliceU64 dg off size := by
  unfold sliceU64
  simp only [lf, lg]
  have hm : (off + size) % U64 ≤ off + size := Nat.mod_le _ _
  split
  · rename_i hc
    congr 1
    rw [hdf, hdg, drop_take_drop_take _ _ _ _ _ (by omega), drop_take_drop_take _ _ _ _ _ (by omega)]
    exact drop_take_congr (h.mono (a + off) _ (Nat.le_refl _) (by omega))
  · rfl

theorem loadNamed_fine {f g : Bytes} {secs : List ESection} (t : ESection) {tdf tdg : Bytes}
    (hdf : tdf = (f.drop t.sh.off).take t.sh.size) (hdg : tdg = (g.drop t.sh.off).take t.sh.size)
    (lf : tdf.length = t.sh.size) (lg : tdg.length = t.sh.size) (syms : List Symbol) (k : String)
    (hsel : ∀ s, firstKernelSym (sectionsOf f secs) syms k = some s →
      AgOn f g (t.sh.off + wrapSub s.value t.sh.addr) s.size)
    (hkd : findV5 (sectionsOf g secs) k syms = findV5 (sectionsOf f secs) k syms) :
    loadNamed (sectionsOf g secs) (toSection g t) tdg syms k =
      loadNamed (sectionsOf f secs) (toSection f t) tdf syms k := by
  unfold loadNamed
  rw [show isKernelSym (sectionsOf g secs) = isKernelSym (sectionsOf f secs) from
    funext (isKernelSym_congr f g secs), hkd]
  cases hq : (syms.filter (isKernelSym (sectionsOf f secs))).find? (·.name == k) with
  | none => rfl
  | some s =>
    simp only [toSection]
    rw [sliceU64_congr hdf hdg lf lg (hsel s hq)]

theorem findV5_fine {f g : Bytes} {secs : List ESection} (hl : f.length = g.length) (k : String) (syms : List Symbol)
    (hkd : ∀ ro s, secs.find? (fun s => s.name == ".rodata") = some ro →
      syms.find? (fun s => s.name == k ++ ".kd" && s.size == 64) = some s → ro.sh.addr ≤ s.value →
      AgOn f g (ro.sh.off + (s.value - ro.sh.addr)) 64) :
    findV5 (sectionsOf g secs) k syms = findV5 (sectionsOf f secs) k syms := by
  unfold findV5
  rw [findSection_sectionsOf, findSection_sectionsOf]
  cases hro : secs.find? (fun s => s.name == ".rodata") with
  | none => rfl
  | some ro =>
    simp only [Option.map_some, toSection]
    rcases secData_cases hl ro.sh with ⟨h1, h2⟩ | ⟨df, dg, h1, h2, lf, lg, hdf, hdg⟩
    · rw [h1, h2]
    · rw [h1, h2]
      simp only
      cases hs : syms.find? (fun s => s.name == k ++ ".kd" && s.size == 64) with
      | none => rfl
      | some s =>
        simp only [getElem?_sectionsOf]
        cases secs[s.shndx]? with
        | none => rfl
        | some sec =>
          simp only [Option.map_some, toSection, lf, lg]
          split
          · split
            · rename_i ha
              split
              · rename_i hc
                rw [hdf, hdg, drop_take_drop_take _ _ _ _ _ (by omega), drop_take_drop_take _ _ _ _ _ (by omega),
                  drop_take_congr (hkd ro s hro hs ha)]
              · rfl
            · rfl
          · rfl

theorem loadKernel_fine {f g : Bytes} {secs : List ESection} (hl : f.length = g.length) (syms : List Symbol)
    (k : String) (hk : k ≠ "")
    (hsel : ∀ t s, secs.find? (fun s => s.name == ".text") = some t →
      firstKernelSym (sectionsOf f secs) syms k = some s → AgOn f g (t.sh.off + wrapSub s.value t.sh.addr) s.size)
    (hkd : ∀ ro s, secs.find? (fun s => s.name == ".rodata") = some ro →
      syms.find? (fun s => s.name == k ++ ".kd" && s.size == 64) = some s → ro.sh.addr ≤ s.value →
      AgOn f g (ro.sh.off + (s.value - ro.sh.addr)) 64) :
    loadKernel (viewOf g secs (some syms)) k = loadKernel (viewOf f secs (some syms)) k := by
  unfold loadKernel viewOf
  simp only
  rw [findSection_sectionsOf, findSection_sectionsOf]
  cases ht : secs.find? (fun s => s.name == ".text") with
  | none => rfl
  | some t =>
    simp only [Option.map_some]
    rcases secData_cases hl t.sh with ⟨h1, h2⟩ | ⟨df, dg, h1, h2, lf, lg, hdf, hdg⟩
    · simp only [toSection, h1, h2]
    · have e1 : (toSection f t).data = some df := h1
      have e2 : (toSection g t).data = some dg := h2
      rw [e1, e2]
      simp only [if_neg hk]
      exact loadNamed_fine t hdf hdg lf lg syms k (fun s hs => hsel t s ht hs) (findV5_fine hl k syms hkd)

/-- the empty name: no kernel symbol → the whole `.text`; exactly one → a load by its name;
several → `log.Fatal`, nothing read -/
theorem loadKernel_fine_empty {f g : Bytes} {secs : List ESection} (hl : f.length = g.length) (syms : List Symbol)
    (h0 : syms.filter (isKernelSym (sectionsOf f secs)) = [] → CodeAgree f g secs)
    (h1 : ∀ k0, syms.filter (isKernelSym (sectionsOf f secs)) = [k0] →
      (∀ t s, secs.find? (fun s => s.name == ".text") = some t →
        firstKernelSym (sectionsOf f secs) syms k0.name = some s →
        AgOn f g (t.sh.off + wrapSub s.value t.sh.addr) s.size) ∧
      (∀ ro s, secs.find? (fun s => s.name == ".rodata") = some ro →
        syms.find? (fun s => s.name == k0.name ++ ".kd" && s.size == 64) = some s → ro.sh.addr ≤ s.value →
        AgOn f g (ro.sh.off + (s.value - ro.sh.addr)) 64)) :
    loadKernel (viewOf g secs (some syms)) "" = loadKernel (viewOf f secs (some syms)) "" := by
  unfold loadKernel viewOf
  simp only
  rw [findSection_sectionsOf, findSection_sectionsOf,
    show isKernelSym (sectionsOf g secs) = isKernelSym (sectionsOf f secs) from
      funext (isKernelSym_congr f g secs)]
  cases ht : secs.find? (fun s => s.name == ".text") with
  | none => rfl
  | some t =>
    simp only [Option.map_some]
    rcases secData_cases hl t.sh with ⟨e1, e2⟩ | ⟨df, dg, e1, e2, lf, lg, hdf, hdg⟩
    · simp only [toSection, e1, e2]
    · have e1' : (toSection f t).data = some df := e1
      have e2' : (toSection g t).data = some dg := e2
      rw [e1', e2']
      simp only [if_true]
      cases hfl : syms.filter (isKernelSym (sectionsOf f secs)) with
      | nil =>
        have hc := h0 hfl
        have hn : isCode t.name = true := by
          have := List.find?_some ht
          rw [eq_of_beq this]; decide
        have := hc t (List.mem_of_find?_eq_some ht) hn
        rw [e1, e2] at this
        injection this with this
        rw [this]
      | cons k0 rest =>
        cases rest with
        | nil =>
          obtain ⟨hsel, hkd⟩ := h1 k0 hfl
          exact loadNamed_fine t hdf hdg lf lg syms k0.name (fun s hs => hsel t s ht hs)
            (findV5_fine hl k0.name syms hkd)
        | cons k1 rest => rfl

theorem mem_named_hdr {f : Bytes} {k : String} {r : Nat × Nat} (h : r ∈ hdrRanges f) : r ∈ namedRanges f k := by
  unfold namedRanges; exact List.mem_append_left _ h

theorem mem_named_shstr {f : Bytes} {k : String} {shs : List Shdr} {ndx : Nat} {sh : Shdr}
    (hq : parseHeaders f = .ok shs ndx) (hne : ndx ≠ 0) (hg : shs[ndx]? = some sh) : secRange sh ∈ namedRanges f k := by
  unfold namedRanges
  apply List.mem_append_right
  rw [hq]
  simp only [if_neg hne, hg]
  exact List.mem_append_left _ (List.mem_singleton.2 rfl)

theorem mem_named_sym {f : Bytes} {k : String} {secs : List ESection} (hp : parse f = .ok secs) {r : Nat × Nat}
    (hr : r ∈ symRanges secs) : r ∈ namedRanges f k := by
  obtain ⟨shs, ndx, hq⟩ := parse_ok_hdrs hp
  unfold namedRanges
  apply List.mem_append_right
  rw [hq]
  simp only [hp]
  exact List.mem_append_right _ (List.mem_append_left _ hr)

theorem mem_named_tail {f : Bytes} {k : String} {secs : List ESection} (hp : parse f = .ok secs) {r : Nat × Nat}
    (hr : r ∈ (match symbolsOf f secs with
        | .ok syms =>
          if k = "" then
            match syms.filter (isKernelSym (sectionsOf f secs)) with
            | [] => codeRanges secs
            | [s] => selRanges f secs syms s.name
            | _ => []
          else selRanges f secs syms k
        | _ => codeRanges secs)) : r ∈ namedRanges f k := by
  obtain ⟨shs, ndx, hq⟩ := parse_ok_hdrs hp
  unfold namedRanges
  apply List.mem_append_right
  rw [hq]
  simp only [hp]
  exact List.mem_append_right _ (List.mem_append_right _ hr)

theorem codeAgree_of {f g : Bytes} {R : List (Nat × Nat)} (h : AgreeOn f g R) {secs : List ESection}
    (hm : ∀ r, r ∈ codeRanges secs → r ∈ R) : CodeAgree f g secs := by
  intro s hsm hcode
  apply h.sec
  apply hm
  unfold codeRanges
  exact List.mem_map.2 ⟨s, List.mem_filter.2 ⟨hsm, hcode⟩, rfl⟩

end Elf
end C13
