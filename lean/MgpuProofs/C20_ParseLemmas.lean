import MgpuModel.C20_Parse
/-! # C20 — round-trip lemmas for the trace parser model (`MgpuModel/C20_Parse.lean`) -/
namespace C20
set_option linter.unusedSimpArgs false

/-! ## 1. numbers -/

theorem digitVal_digitChar_fin : ∀ d : Fin 16, digitVal (digitChar d.val) = d.val := by decide

theorem digitVal_digitChar (d : Nat) (h : d < 16) : digitVal (digitChar d) = d :=
  digitVal_digitChar_fin ⟨d, h⟩

theorem isDigit_digitChar (b d : Nat) (hb : b ≤ 16) (hd : d < b) : isDigit b (digitChar d) = true := by
  unfold isDigit
  rw [digitVal_digitChar d (by omega)]
  exact decide_eq_true hd

/-- a digit of a base ≤ 16 is none of the separator characters -/
theorem isDigit_not_special (b : Nat) (c : Char) (hb : b ≤ 16) (h : isDigit b c = true) :
    c ≠ '_' ∧ c ≠ ' ' ∧ c ≠ ',' ∧ c ≠ '-' ∧ c ≠ '+' := by
  unfold isDigit at h
  have h' : digitVal c < b := of_decide_eq_true h
  refine ⟨?_, ?_, ?_, ?_, ?_⟩ <;> intro hc <;> subst hc
  · have : digitVal '_' = 99 := by decide
    omega
  · have : digitVal ' ' = 99 := by decide
    omega
  · have : digitVal ',' = 99 := by decide
    omega
  · have : digitVal '-' = 99 := by decide
    omega
  · have : digitVal '+' = 99 := by decide
    omega

theorem valOf_append_single (b : Nat) (l : List Char) (c : Char) :
    valOf b (l ++ [c]) = valOf b l * b + digitVal c := by
  simp [valOf, List.foldl_append]

theorem digitsRev_ne_nil (b fuel n : Nat) : digitsRev b fuel n ≠ [] := by
  cases fuel with
  | zero => simp [digitsRev]
  | succ k =>
    unfold digitsRev
    split <;> simp

theorem valOf_digitsRev (b : Nat) (hb2 : 2 ≤ b) (hb : b ≤ 16) :
    ∀ fuel n, n ≤ fuel → valOf b (digitsRev b fuel n).reverse = n := by
  intro fuel
  induction fuel with
  | zero =>
    intro n hn
    have : n = 0 := by omega
    subst this
    simp [digitsRev, valOf, Nat.zero_mod, digitVal_digitChar 0 (by omega)]
  | succ k ih =>
    intro n hn
    unfold digitsRev
    split
    · rename_i hlt
      simp [valOf, digitVal_digitChar n (by omega)]
    · rename_i hge
      have hpos : 0 < b := by omega
      have hlt : n / b < n := Nat.div_lt_self (by omega) (by omega)
      rw [List.reverse_cons, valOf_append_single, ih (n / b) (by omega),
        digitVal_digitChar (n % b) (by have := Nat.mod_lt n hpos; omega)]
      have := Nat.div_add_mod n b
      rw [Nat.mul_comm] at this
      exact this

theorem digitsRev_isDigit (b : Nat) (hb2 : 2 ≤ b) (hb : b ≤ 16) :
    ∀ fuel n, n ≤ fuel → ∀ c ∈ digitsRev b fuel n, isDigit b c = true := by
  intro fuel
  induction fuel with
  | zero =>
    intro n hn c hc
    simp [digitsRev] at hc
    subst hc
    exact isDigit_digitChar b _ hb (Nat.mod_lt n (by omega))
  | succ k ih =>
    intro n hn c hc
    unfold digitsRev at hc
    split at hc
    · rename_i hlt
      simp at hc
      subst hc
      exact isDigit_digitChar b _ hb hlt
    · rename_i hge
      have hlt : n / b < n := Nat.div_lt_self (by omega) (by omega)
      rcases List.mem_cons.mp hc with hc | hc
      · subst hc
        exact isDigit_digitChar b _ hb (Nat.mod_lt n (by omega))
      · exact ih (n / b) (by omega) c hc

/-- **number round trip** -/
theorem valOf_showNat (b n : Nat) (hb2 : 2 ≤ b) (hb : b ≤ 16) : valOf b (showNat b n) = n :=
  valOf_digitsRev b hb2 hb n n (Nat.le_refl n)

theorem showNat_isDigit (b n : Nat) (hb2 : 2 ≤ b) (hb : b ≤ 16) :
    ∀ c ∈ showNat b n, isDigit b c = true := by
  intro c hc
  unfold showNat at hc
  exact digitsRev_isDigit b hb2 hb n n (Nat.le_refl n) c (List.mem_reverse.mp hc)

theorem showNat_not_special (b n : Nat) (hb2 : 2 ≤ b) (hb : b ≤ 16) :
    ∀ c ∈ showNat b n, c ≠ '_' ∧ c ≠ ' ' ∧ c ≠ ',' ∧ c ≠ '-' ∧ c ≠ '+' :=
  fun c hc => isDigit_not_special b c hb (showNat_isDigit b n hb2 hb c hc)

theorem showNat_ne_nil (b n : Nat) : showNat b n ≠ [] := by
  unfold showNat
  intro h
  exact digitsRev_ne_nil b n n (List.reverse_eq_nil_iff.mp h)

/-! ### leading zeros -/

theorem valOf_zero_cons (b : Nat) (s : List Char) : valOf b ('0' :: s) = valOf b s := by
  have : digitVal '0' = 0 := by decide
  simp [valOf, this]

theorem valOf_replicate_zero (b k : Nat) (s : List Char) :
    valOf b (List.replicate k '0' ++ s) = valOf b s := by
  induction k with
  | zero => simp
  | succ k ih => rw [List.replicate_succ, List.cons_append, valOf_zero_cons, ih]

theorem valOf_pad (b w : Nat) (s : List Char) : valOf b (pad w s) = valOf b s :=
  valOf_replicate_zero b _ s

theorem pad_isDigit (b w : Nat) (hb1 : 1 ≤ b) (s : List Char) (h : ∀ c ∈ s, isDigit b c = true) :
    ∀ c ∈ pad w s, isDigit b c = true := by
  intro c hc
  unfold pad at hc
  rcases List.mem_append.mp hc with hc | hc
  · have := (List.mem_replicate.mp hc).2
    subst this
    unfold isDigit
    have : digitVal '0' = 0 := by decide
    rw [this]
    exact decide_eq_true (by omega)
  · exact h c hc

theorem pad_ne_nil (w : Nat) (s : List Char) (h : s ≠ []) : pad w s ≠ [] := by
  unfold pad
  simp [h]

/-! ### the scanners -/

theorem splitSign_neg (r : List Char) : splitSign ('-' :: r) = (true, r) := rfl

theorem splitSign_other (c : Char) (r : List Char) (h1 : c ≠ '-') (h2 : c ≠ '+') :
    splitSign (c :: r) = (false, c :: r) := by
  unfold splitSign
  split
  · simp_all
  · simp_all
  · rfl

theorem splitSign_digits (b : Nat) (hb : b ≤ 16) (s rest : List Char) (hs : s ≠ [])
    (hd : ∀ c ∈ s, isDigit b c = true) : splitSign (s ++ rest) = (false, s ++ rest) := by
  cases s with
  | nil => exact absurd rfl hs
  | cons c r =>
    have := isDigit_not_special b c hb (hd c (List.mem_cons_self))
    exact splitSign_other c (r ++ rest) this.2.2.2.1 this.2.2.2.2

/-- what may follow a number: nothing, or a character that is neither a digit nor `_` -/
def RestOK (b : Nat) (rest : List Char) : Prop :=
  rest = [] ∨ ∃ c r, rest = c :: r ∧ (isDigit b c || c == '_') = false

theorem RestOK_nil (b : Nat) : RestOK b [] := Or.inl rfl

theorem RestOK_comma (b : Nat) (hb : b ≤ 16) (r : List Char) : RestOK b (',' :: r) := by
  refine Or.inr ⟨',', r, rfl, ?_⟩
  have : digitVal ',' = 99 := by decide
  simp [isDigit, this]
  omega

theorem takeWhile_run (b : Nat) (s rest : List Char) (hd : ∀ c ∈ s, isDigit b c = true)
    (hr : RestOK b rest) :
    (s ++ rest).takeWhile (fun c => isDigit b c || c == '_') = s ∧
    (s ++ rest).dropWhile (fun c => isDigit b c || c == '_') = rest := by
  have hp : ∀ c ∈ s, (fun c => isDigit b c || c == '_') c = true := by
    intro c hc
    simp [hd c hc]
  rw [List.takeWhile_append_of_pos hp, List.dropWhile_append_of_pos hp]
  rcases hr with h | ⟨c, r, h, hc⟩
  · subst h
    simp
  · subst h
    rw [List.takeWhile_cons_of_neg (by simpa using hc), List.dropWhile_cons_of_neg (by simpa using hc)]
    simp

/-- the digit run of `%d` / `%x` (no underscore) -/
theorem takeWhile_digitsB (b : Nat) (s rest : List Char) (hd : ∀ c ∈ s, isDigit b c = true)
    (hr : RestOK b rest) :
    (s ++ rest).takeWhile (isDigit b) = s ∧ (s ++ rest).dropWhile (isDigit b) = rest := by
  rw [List.takeWhile_append_of_pos hd, List.dropWhile_append_of_pos hd]
  rcases hr with h | ⟨c, r, h, hc⟩
  · subst h
    simp
  · subst h
    have hc' : isDigit b c = false := by
      cases hx : isDigit b c with
      | false => rfl
      | true => simp [hx] at hc
    rw [List.takeWhile_cons_of_neg (by simp [hc']), List.dropWhile_cons_of_neg (by simp [hc'])]
    simp

theorem contains_us_false (b : Nat) (hb : b ≤ 16) (s : List Char) (hd : ∀ c ∈ s, isDigit b c = true) :
    s.contains '_' = false := by
  cases h : s.contains '_' with
  | false => rfl
  | true =>
    have hm : '_' ∈ s := by simpa using h
    exact absurd rfl (isDigit_not_special b '_' hb (hd _ hm)).1

theorem isEmpty_false_of_ne_nil {α} (s : List α) (hs : s ≠ []) : s.isEmpty = false := by
  cases s with
  | nil => exact absurd rfl hs
  | cons a r => rfl

/-- generic unsigned scan -/
theorem scanBase_pos (b bits : Nat) (hb : b ≤ 16) (s rest : List Char) (hs : s ≠ [])
    (hd : ∀ c ∈ s, isDigit b c = true) (hr : RestOK b rest)
    (hf : (fits 64 (valOf b s : Int) && fits bits (valOf b s : Int)) = true) :
    scanBase b bits (s ++ rest) = some ((valOf b s : Int), rest) := by
  unfold scanBase
  simp only [splitSign_digits b hb s rest hs hd, (takeWhile_digitsB b s rest hd hr).1,
    (takeWhile_digitsB b s rest hd hr).2, isEmpty_false_of_ne_nil s hs, signed]
  simp [hf]

/-- generic negative scan -/
theorem scanBase_neg (b bits : Nat) (hb : b ≤ 16) (s rest : List Char) (hs : s ≠ [])
    (hd : ∀ c ∈ s, isDigit b c = true) (hr : RestOK b rest)
    (hf : (fits 64 (-(valOf b s : Int)) && fits bits (-(valOf b s : Int))) = true) :
    scanBase b bits ('-' :: (s ++ rest)) = some (-(valOf b s : Int), rest) := by
  unfold scanBase
  simp only [splitSign_neg, (takeWhile_digitsB b s rest hd hr).1,
    (takeWhile_digitsB b s rest hd hr).2, isEmpty_false_of_ne_nil s hs, signed]
  simp [hf]

theorem fits32_iff (i : Int) : fits 32 i = true ↔ (-2147483648 ≤ i ∧ i < 2147483648) := by
  have h : (2 : Int) ^ (32 - 1) = 2147483648 := by decide
  unfold fits
  rw [h]
  simp

theorem fits64_iff (i : Int) :
    fits 64 i = true ↔ (-9223372036854775808 ≤ i ∧ i < 9223372036854775808) := by
  have h : (2 : Int) ^ (64 - 1) = 9223372036854775808 := by decide
  unfold fits
  rw [h]
  simp

theorem fits_32 (i : Int) (h1 : -2147483648 ≤ i) (h2 : i < 2147483648) :
    (fits 64 i && fits 32 i) = true := by
  rw [Bool.and_eq_true, fits32_iff, fits64_iff]
  omega

theorem fits_64 (i : Int) (h1 : -9223372036854775808 ≤ i) (h2 : i < 9223372036854775808) :
    (fits 64 i && fits 64 i) = true := by
  rw [Bool.and_eq_true, fits64_iff]
  omega

/-- `%d` reads back a printed int32, leaving the rest of the input -/
theorem scanBase_showInt (i : Int) (rest : List Char) (h1 : -2147483648 ≤ i) (h2 : i < 2147483648)
    (hr : RestOK 10 rest) : scanBase 10 32 (showInt i ++ rest) = some (i, rest) := by
  have hne := showNat_ne_nil 10 i.natAbs
  have hd := showNat_isDigit 10 i.natAbs (by omega) (by omega)
  have hv := valOf_showNat 10 i.natAbs (by omega) (by omega)
  unfold showInt
  split
  · rename_i hneg
    rw [List.cons_append, scanBase_neg 10 32 (by omega) _ rest hne hd hr
      (by rw [hv]; exact fits_32 _ (by omega) (by omega))]
    rw [hv]
    congr 2
    omega
  · rename_i hpos
    rw [scanBase_pos 10 32 (by omega) _ rest hne hd hr
      (by rw [hv]; exact fits_32 _ (by omega) (by omega))]
    rw [hv]
    congr 2
    omega

theorem scanTok_showInt (i : Int) (h1 : -2147483648 ≤ i) (h2 : i < 2147483648) :
    scanTok 10 32 (showInt i) = i := by
  have := scanBase_showInt i [] h1 h2 (RestOK_nil 10)
  rw [List.append_nil] at this
  simp [scanTok, this]

theorem showInt_natCast (n : Nat) : showInt (n : Int) = showNat 10 n := by
  unfold showInt
  rw [if_neg (by omega)]
  rfl

theorem scanTok_showNat (n : Nat) (h : n < 2147483648) : scanTok 10 32 (showNat 10 n) = n := by
  have := scanTok_showInt (n : Int) (by omega) (by omega)
  rwa [showInt_natCast] at this

theorem scanTok_pad_hex32 (w n : Nat) (h : n < 2147483648) :
    scanTok 16 32 (pad w (showNat 16 n)) = n := by
  have hne := pad_ne_nil w _ (showNat_ne_nil 16 n)
  have hd := pad_isDigit 16 w (by omega) _ (showNat_isDigit 16 n (by omega) (by omega))
  have hv : valOf 16 (pad w (showNat 16 n)) = n := by
    rw [valOf_pad, valOf_showNat 16 n (by omega) (by omega)]
  have := scanBase_pos 16 32 (by omega) _ [] hne hd (RestOK_nil 16)
    (by rw [hv]; exact fits_32 _ (by omega) (by omega))
  rw [List.append_nil] at this
  simp [scanTok, this, hv]

theorem scanTok_pad_hex64 (w n : Nat) (h : n < 9223372036854775808) :
    scanTok 16 64 (pad w (showNat 16 n)) = n := by
  have hne := pad_ne_nil w _ (showNat_ne_nil 16 n)
  have hd := pad_isDigit 16 w (by omega) _ (showNat_isDigit 16 n (by omega) (by omega))
  have hv : valOf 16 (pad w (showNat 16 n)) = n := by
    rw [valOf_pad, valOf_showNat 16 n (by omega) (by omega)]
  have := scanBase_pos 16 64 (by omega) _ [] hne hd (RestOK_nil 16)
    (by rw [hv]; exact fits_64 _ (by omega) (by omega))
  rw [List.append_nil] at this
  simp [scanTok, this, hv]

/-- a run without `_` passes `strconv.underscoreOK` -/
theorem usOK_digits (s : List Char) (h : s.contains '_' = false) (p : Nat) (hp : p ≠ 2 ∨ s ≠ []) :
    usOK p s = true := by
  induction s generalizing p with
  | nil =>
    rcases hp with hp | hp
    · simp [usOK, hp]
    · exact absurd rfl hp
  | cons c r ih =>
    have hc : c ≠ '_' := by
      intro e; subst e; simp at h
    have hr : r.contains '_' = false := by
      cases hx : r.contains '_' with
      | false => rfl
      | true =>
        have : '_' ∈ r := by simpa using hx
        have : (c :: r).contains '_' = true := by simp [this]
        rw [this] at h; cases h
    unfold usOK
    rw [if_neg hc]
    exact ih hr 1 (Or.inl (by decide))

theorem filter_no_us (s : List Char) (h : s.contains '_' = false) : s.filter (fun c => c != '_') = s := by
  apply List.filter_eq_self.2
  intro c hc
  have : c ≠ '_' := by
    intro e; subst e
    have : s.contains '_' = true := by simpa using hc
    rw [this] at h; cases h
  simpa using this

/-- `%v` reads back a `0x…` address -/
theorem scanV_hex (n : Nat) (h : n < 9223372036854775808) :
    scanV ('0' :: 'x' :: showNat 16 n) = n := by
  have hne := showNat_ne_nil 16 n
  have hd := showNat_isDigit 16 n (by omega) (by omega)
  have hv := valOf_showNat 16 n (by omega) (by omega)
  have htw := takeWhile_run 16 _ [] hd (RestOK_nil 16)
  rw [List.append_nil] at htw
  have hf : fits 64 (n : Int) = true := (fits64_iff _).2 (by omega)
  have hus := contains_us_false 16 (by omega) _ hd
  have hsk : skipSp ('0' :: 'x' :: showNat 16 n) = '0' :: 'x' :: showNat 16 n := by
    unfold skipSp
    rw [List.dropWhile_cons_of_neg (by decide)]
  have hs : splitSign ('0' :: 'x' :: showNat 16 n) = (false, '0' :: 'x' :: showNat 16 n) := rfl
  have hm : scanVMag ('0' :: 'x' :: showNat 16 n) = some (n, []) := by
    unfold scanVMag vGo
    simp only [htw.1, htw.2, isEmpty_false_of_ne_nil _ hne, filter_no_us _ hus, hv]
    simp [usOK_digits _ hus 1 (Or.inl (by decide))]
  unfold scanV scanVI
  simp only [hsk, hs, hm, signed]
  simp [hf]

theorem all_isDigit (b : Nat) (s : List Char) (hd : ∀ c ∈ s, isDigit b c = true) :
    s.all (isDigit b) = true := by
  simpa using hd

/-- `strconv.Atoi` reads back a printed int64 -/
theorem atoi_showInt (i : Int) (h1 : -9223372036854775808 ≤ i) (h2 : i < 9223372036854775808) :
    atoi (showInt i) = i := by
  have hne := showNat_ne_nil 10 i.natAbs
  have hd := showNat_isDigit 10 i.natAbs (by omega) (by omega)
  have hv := valOf_showNat 10 i.natAbs (by omega) (by omega)
  unfold showInt
  split
  · rename_i hneg
    unfold atoi
    simp only [splitSign_neg, isEmpty_false_of_ne_nil _ hne, all_isDigit 10 _ hd, signed, hv, two63]
    simp
    omega
  · rename_i hpos
    unfold atoi
    have hs := splitSign_digits 10 (by omega) _ [] hne hd
    rw [List.append_nil] at hs
    simp only [hs, isEmpty_false_of_ne_nil _ hne, all_isDigit 10 _ hd, signed, hv, two63]
    simp
    omega

theorem toInt32_id (i : Int) (h1 : -2147483648 ≤ i) (h2 : i < 2147483648) : toInt32 i = i := by
  unfold toInt32
  omega

/-! ## 2. instructions -/

/-- well-formed opcode token -/
def OpWF (op : List Char) : Prop := op ≠ [] ∧ ' ' ∉ op

/-- well-formed instruction: every field in the range the trace format can carry, and in the
    canonical form the parser produces (fields that are not printed are zero). `ko` = the reader it is meant for keeps the opcode: then the instruction
    carries a well-formed opcode text; for the reader that dropped the opcode (`ko = false`) it is the
    parsed form, `OpCode = nil`. -/
structure Inst.WF (ko : Bool) (i : Inst) : Prop where
  pc_lo : 0 ≤ i.pc
  pc_hi : i.pc < 2147483648
  mask_lo : 0 ≤ i.mask
  mask_hi : i.mask < 9223372036854775808
  destNum_eq : i.destNum = i.dst.length
  destNum_hi : i.destNum < 2147483648
  srcNum_eq : i.srcNum = i.src.length
  srcNum_hi : i.srcNum < 2147483648
  dst_known : ∀ t ∈ i.dst, knownReg t = true
  src_known : ∀ t ∈ i.src, knownReg t = true
  op_ok : if ko then (∃ o, i.op = some o ∧ OpWF o) else i.op = none
  width_lo : -2147483648 ≤ i.width
  width_hi : i.width < 2147483648
  compress_lo : -2147483648 ≤ i.compress
  compress_hi : i.compress < 2147483648
  suffix1_lo : -2147483648 ≤ i.suffix1
  suffix1_hi : i.suffix1 < 2147483648
  suffix2_rng : ∀ x ∈ i.suffix2, -2147483648 ≤ x ∧ x < 2147483648
  addr_lo : 0 ≤ i.addr
  addr_hi : i.addr < 9223372036854775808
  imm_lo : -9223372036854775808 ≤ i.imm
  imm_hi : i.imm < 9223372036854775808
  canon0 : i.width = 0 → i.compress = 0 ∧ i.addr = 0 ∧ i.suffix1 = 0 ∧ i.suffix2 = []
  canon1 : i.compress ≠ 1 → i.suffix1 = 0
  canon2 : i.compress ≠ 2 → i.suffix2 = []

theorem elemAt_of_eq (elems a : List (List Char)) (t : List Char) (b : List (List Char)) (i : Int)
    (he : elems = a ++ t :: b) (hi : i = a.length) : elemAt elems i = .ok t := by
  subst he
  unfold elemAt
  have h0 : ¬ i < 0 := by omega
  have h1 : i.toNat = a.length := by omega
  rw [if_neg h0, h1, List.getElem?_append_right (Nat.le_refl _)]
  simp

theorem readRegs_ok (elems pre : List (List Char)) (base : Int) (hb : base = pre.length) :
    ∀ (regs done post : List (List Char)), elems = pre ++ (done ++ (regs ++ post)) →
      (∀ t ∈ regs, knownReg t = true) →
      readRegs elems base regs.length done.length = .ok regs := by
  intro regs
  induction regs with
  | nil => intro done post _ _; rfl
  | cons t r ih =>
    intro done post he hk
    have h1 : elemAt elems (base + (done.length : Nat)) = .ok t :=
      elemAt_of_eq elems (pre ++ done) t (r ++ post) _ (by simp [he]) (by simp [hb])
    have h2 := ih (done ++ [t]) post (by simp [he]) (fun x hx => hk x (List.mem_cons_of_mem _ hx))
    rw [List.length_append, List.length_singleton] at h2
    simp only [List.length_cons, readRegs, h1, hk t List.mem_cons_self, h2, bind, Except.bind,
      pure, Except.pure, if_true]

/-- the register part of `extractInst`, on abstract tokens -/
theorem extractToks_shape (la ko : Bool) (P M D op S : List Char) (dst src rest : List (List Char))
    (hD : scanTok 10 32 D = dst.length) (hS : scanTok 10 32 S = src.length)
    (hdk : ∀ t ∈ dst, knownReg t = true) (hsk : ∀ t ∈ src, knownReg t = true) :
    extractToks la ko ([P, M, D] ++ dst ++ [op, S] ++ src ++ rest) =
      memPart la { pc := scanTok 16 32 P, mask := scanTok 16 64 M, destNum := dst.length, dst := dst,
                   op := if ko then some op else none, srcNum := src.length, src := src } rest := by
  generalize he : [P, M, D] ++ dst ++ [op, S] ++ src ++ rest = elems
  have e0 : elemAt elems 0 = .ok P := elemAt_of_eq elems [] P (M :: D :: (dst ++ [op, S] ++ src ++ rest)) 0 (by simp [← he]) rfl
  have e1 : elemAt elems 1 = .ok M := elemAt_of_eq elems [P] M (D :: (dst ++ [op, S] ++ src ++ rest)) 1 (by simp [← he]) rfl
  have e2 : elemAt elems 2 = .ok D := elemAt_of_eq elems [P, M] D (dst ++ [op, S] ++ src ++ rest) 2 (by simp [← he]) rfl
  have r1 : readRegs elems 3 dst.length 0 = .ok dst :=
    readRegs_ok elems [P, M, D] 3 rfl dst [] ([op, S] ++ src ++ rest) (by simp [← he]) hdk
  have eop : elemAt elems (3 + (dst.length : Int)) = .ok op :=
    elemAt_of_eq elems ([P, M, D] ++ dst) op ([S] ++ src ++ rest) _ (by simp [← he])
      (by simp; omega)
  have e3 : elemAt elems (4 + (dst.length : Int)) = .ok S :=
    elemAt_of_eq elems ([P, M, D] ++ dst ++ [op]) S (src ++ rest) _ (by simp [← he])
      (by simp; omega)
  have r2 : readRegs elems (5 + (dst.length : Int)) src.length 0 = .ok src :=
    readRegs_ok elems ([P, M, D] ++ dst ++ [op, S]) _ (by simp; omega) src [] rest
      (by simp [← he]) hsk
  have hlen : elems.length = 5 + dst.length + src.length + rest.length := by
    simp [← he]; omega
  have hdrop : elems.drop (5 + dst.length + src.length) = rest := by
    rw [← he]
    exact List.drop_left' (by simp; omega)
  unfold extractToks
  simp only [e0, e1, e2, hD, Int.toNat_natCast, r1, eop, e3, hS, r2, bind, Except.bind]
  have hlo : (5 + (dst.length : Int) + (src.length : Int)).toNat = 5 + dst.length + src.length := by
    omega
  have hc : (decide (5 + (dst.length : Int) + (src.length : Int) < 0) ||
      decide ((elems.length : Int) < 5 + (dst.length : Int) + (src.length : Int))) = false := by
    simp; omega
  rw [hc, hlo, hdrop]
  cases ko <;> rfl

theorem map_atoi_showInt (l : List Int) (h : ∀ x ∈ l, -2147483648 ≤ x ∧ x < 2147483648) :
    (l.map showInt).map (fun t => toInt32 (atoi t)) = l := by
  induction l with
  | nil => rfl
  | cons x r ih =>
    have hx := h x List.mem_cons_self
    simp only [List.map_cons]
    rw [atoi_showInt x (by omega) (by omega), toInt32_id x hx.1 hx.2,
      ih (fun y hy => h y (List.mem_cons_of_mem _ hy))]

/-- the memory part of a rendered instruction line (everything after the source registers) -/
def renderMem (i : Inst) : List (List Char) :=
  [showInt i.width] ++
  (if i.width = 0 then [] else
    [showInt i.compress, '0' :: 'x' :: showNat 16 i.addr.toNat] ++
    (if i.compress = 1 then [showInt i.suffix1] else if i.compress = 2 then i.suffix2.map showInt else [])) ++
  [showInt i.imm]

theorem renderToks_eq (op : List Char) (i : Inst) :
    renderToks op i =
      [pad 4 (showNat 16 i.pc.toNat), pad 8 (showNat 16 i.mask.toNat), showNat 10 i.dst.length] ++ i.dst ++
      [op, showNat 10 i.src.length] ++ i.src ++ renderMem i := by
  simp [renderToks, renderMem]

theorem memPart_render (pc mask dn : Int) (dst : List (List Char)) (o : Option (List Char)) (sn : Int)
    (src : List (List Char)) {ko : Bool} (i : Inst) (wf : i.WF ko) :
    memPart false { pc := pc, mask := mask, destNum := dn, dst := dst, op := o, srcNum := sn, src := src }
        (renderMem i) =
      .ok { pc := pc, mask := mask, destNum := dn, dst := dst, op := o, srcNum := sn, src := src,
            width := i.width, compress := i.compress, addr := i.addr, suffix1 := i.suffix1,
            suffix2 := i.suffix2, imm := i.imm } := by
  have hW := scanTok_showInt i.width wf.width_lo wf.width_hi
  have hC := scanTok_showInt i.compress wf.compress_lo wf.compress_hi
  have hS1 := scanTok_showInt i.suffix1 wf.suffix1_lo wf.suffix1_hi
  have hI := atoi_showInt i.imm wf.imm_lo wf.imm_hi
  have hA : scanV ('0' :: 'x' :: showNat 16 i.addr.toNat) = i.addr := by
    have hlo := wf.addr_lo
    have hhi := wf.addr_hi
    rw [scanV_hex i.addr.toNat (by omega)]
    omega
  have hT := map_atoi_showInt i.suffix2 wf.suffix2_rng
  unfold renderMem
  generalize showInt i.width = W at hW ⊢
  generalize showInt i.compress = C at hC ⊢
  generalize showInt i.suffix1 = S1 at hS1 ⊢
  generalize showInt i.imm = I at hI ⊢
  generalize ('0' :: 'x' :: showNat 16 i.addr.toNat) = A at hA ⊢
  generalize i.suffix2.map showInt = T at hT ⊢
  by_cases hw : i.width = 0
  · obtain ⟨c0, a0, s0, t0⟩ := wf.canon0 hw
    simp only [hw, if_true, List.append_nil, List.cons_append, List.nil_append]
    have e0 : elemAt [W, I] 0 = .ok W := rfl
    simp only [memPart, e0, bind, Except.bind, hW, hw, if_true, pure, Except.pure]
    simp [hI, c0, a0, s0, t0]
  · by_cases hc1 : i.compress = 1
    · have t0 := wf.canon2 (by omega)
      simp only [hw, hc1, if_true, if_false, List.append_nil, List.cons_append, List.nil_append]
      simp only [memPart, elemAt, bind, Except.bind, hW, hw, if_false, pure, Except.pure]
      simp [hI, hC, hA, hS1, hc1, t0, hW, hw]
    · by_cases hc2 : i.compress = 2
      · have s0 := wf.canon1 hc1
        simp only [hw, hc1, hc2, if_true, if_false, List.append_nil, List.cons_append, List.nil_append]
        simp only [memPart, elemAt, bind, Except.bind, hW, hw, if_false, pure, Except.pure]
        simp [hI, hC, hA, hc2, s0, hW, hw]
        have hl : (A :: (T ++ [I])).getLast? = some I := by
          rw [← List.cons_append]
          exact List.getLast?_concat
        have hn : ¬ (T.length + 1 + 1 + 1 + 1 < 4) := by omega
        rw [if_neg hn, hl, hT]
        simp [hI]
      · have s0 := wf.canon1 hc1
        have t0 := wf.canon2 hc2
        simp only [hw, hc1, hc2, if_true, if_false, List.append_nil, List.cons_append, List.nil_append]
        simp only [memPart, elemAt, bind, Except.bind, hW, hw, if_false, pure, Except.pure]
        simp [hI, hC, hA, hc1, hc2, s0, t0, hW, hw]

/-- **instruction round trip on tokens** (fixed reader, `%v` for the address) -/
theorem extractToks_render (ko : Bool) (op : List Char) (i : Inst) (wf : i.WF ko)
    (ho : ko = true → i.op = some op) :
    extractToks false ko (renderToks op i) = .ok i := by
  have hdl : i.dst.length < 2147483648 := by
    have h1 := wf.destNum_eq
    have h2 := wf.destNum_hi
    omega
  have hsl : i.src.length < 2147483648 := by
    have h1 := wf.srcNum_eq
    have h2 := wf.srcNum_hi
    omega
  have hP : scanTok 16 32 (pad 4 (showNat 16 i.pc.toNat)) = i.pc := by
    have h1 := wf.pc_lo
    have h2 := wf.pc_hi
    rw [scanTok_pad_hex32 4 i.pc.toNat (by omega)]
    omega
  have hM : scanTok 16 64 (pad 8 (showNat 16 i.mask.toNat)) = i.mask := by
    have h1 := wf.mask_lo
    have h2 := wf.mask_hi
    rw [scanTok_pad_hex64 8 i.mask.toNat (by omega)]
    omega
  have hop : (if ko then some op else none) = i.op := by
    cases ko with
    | true => simp [ho rfl]
    | false => have := wf.op_ok; simp at this; simp [this]
  rw [renderToks_eq, extractToks_shape false ko _ _ _ op _ i.dst i.src (renderMem i)
      (scanTok_showNat _ hdl) (scanTok_showNat _ hsl) wf.dst_known wf.src_known,
    memPart_render _ _ _ _ _ _ _ i wf, hP, hM, ← wf.destNum_eq, ← wf.srcNum_eq, hop]

/-- a concrete memory instruction with a non-zero address -/
def legacyWitness : Inst :=
  { pc := 16
    mask := 1
    width := 4
    addr := 4096
    imm := 7 }

theorem legacyWitness_WF : legacyWitness.WF false := by
  constructor <;> simp [legacyWitness]

/-- the legacy reader (`%x` on a `0x…` token) reads address 0 -/
theorem legacy_reads_zero :
    extractToks true false (renderToks "OP".toList legacyWitness) = .ok { legacyWitness with addr := 0 } := by
  have h : (extractToks true false (renderToks "OP".toList legacyWitness)).toOption =
      some { legacyWitness with addr := 0 } := by decide
  cases hx : extractToks true false (renderToks "OP".toList legacyWitness) with
  | error e => rw [hx] at h; simp [Except.toOption] at h
  | ok v => rw [hx] at h; simp [Except.toOption] at h; rw [h]

/-- **legacy refutation**: the pre-fix reader does not round-trip -/
theorem legacy_not_roundtrip :
    extractToks true false (renderToks "OP".toList legacyWitness) ≠ .ok legacyWitness := by
  rw [legacy_reads_zero]
  intro h
  have := congrArg (fun e => match e with | .ok (x : Inst) => x.addr | .error _ => 0) h
  revert this
  decide

/-! ## 2b. the tokeniser: `String.splitOn " "` over raw byte positions -/
section Tokeniser
open String

def bl : List Char → Nat
  | [] => 0
  | c :: cs => c.utf8Size + bl cs

theorem bl_append (a b : List Char) : bl (a ++ b) = bl a + bl b := by
  induction a with
  | nil => simp [bl]
  | cons c r ih => simp [bl, ih]; omega

theorem size_ofList (l : List Char) : (String.ofList l).utf8ByteSize = bl l := by
  induction l with
  | nil => rfl
  | cons c r ih =>
    rw [String.ofList_cons, String.utf8ByteSize_append, String.utf8ByteSize_singleton, ih]
    rfl

theorem getAux_at (l1 : List Char) (c : Char) (l2 : List Char) (i : Nat) :
    Pos.Raw.utf8GetAux (l1 ++ c :: l2) ⟨i⟩ ⟨i + bl l1⟩ = c := by
  induction l1 generalizing i with
  | nil => simp [Pos.Raw.utf8GetAux, bl]
  | cons a r ih =>
    have hp := Char.utf8Size_pos a
    have hne : (⟨i⟩ : Pos.Raw) ≠ ⟨i + bl (a :: r)⟩ := by
      intro h
      have := congrArg Pos.Raw.byteIdx h
      simp [bl] at this
      omega
    rw [List.cons_append, Pos.Raw.utf8GetAux, if_neg hne]
    have := ih (i + a.utf8Size)
    have e : (⟨i⟩ : Pos.Raw) + a = ⟨i + a.utf8Size⟩ := rfl
    rw [e]
    have e2 : i + bl (a :: r) = i + a.utf8Size + bl r := by simp [bl]; omega
    rw [e2]
    exact this

theorem go2_spec (l2 l3 : List Char) (i : Nat) :
    Pos.Raw.extract.go₂ (l2 ++ l3) ⟨i⟩ ⟨i + bl l2⟩ = l2 := by
  induction l2 generalizing i with
  | nil =>
    cases l3 with
    | nil => rfl
    | cons c r => simp [Pos.Raw.extract.go₂, bl]
  | cons a r ih =>
    have hp := Char.utf8Size_pos a
    have hne : (⟨i⟩ : Pos.Raw) ≠ ⟨i + bl (a :: r)⟩ := by
      intro h
      have := congrArg Pos.Raw.byteIdx h
      simp [bl] at this
      omega
    rw [List.cons_append, Pos.Raw.extract.go₂, if_neg hne]
    have e : (⟨i⟩ : Pos.Raw) + a = ⟨i + a.utf8Size⟩ := rfl
    have e2 : i + bl (a :: r) = i + a.utf8Size + bl r := by simp [bl]; omega
    rw [e, e2, ih]

theorem go1_spec (l1 rest : List Char) (i : Nat) (e : Pos.Raw) :
    Pos.Raw.extract.go₁ (l1 ++ rest) ⟨i⟩ ⟨i + bl l1⟩ e = Pos.Raw.extract.go₂ rest ⟨i + bl l1⟩ e := by
  induction l1 generalizing i with
  | nil =>
    cases rest with
    | nil => rfl
    | cons c r => simp [Pos.Raw.extract.go₁, bl]
  | cons a r ih =>
    have hp := Char.utf8Size_pos a
    have hne : (⟨i⟩ : Pos.Raw) ≠ ⟨i + bl (a :: r)⟩ := by
      intro h
      have := congrArg Pos.Raw.byteIdx h
      simp [bl] at this
      omega
    rw [List.cons_append, Pos.Raw.extract.go₁, if_neg hne]
    have e1 : (⟨i⟩ : Pos.Raw) + a = ⟨i + a.utf8Size⟩ := rfl
    have e2 : i + bl (a :: r) = i + a.utf8Size + bl r := by simp [bl]; omega
    rw [e1, e2, ih]

theorem extract_spec (s : String) (l1 l2 l3 : List Char) (hs : s.toList = l1 ++ l2 ++ l3) :
    Pos.Raw.extract s ⟨bl l1⟩ ⟨bl l1 + bl l2⟩ = String.ofList l2 := by
  unfold Pos.Raw.extract
  cases l2 with
  | nil => simp [bl]
  | cons a r =>
    have hp := Char.utf8Size_pos a
    have hn : ¬ ((⟨bl l1⟩ : Pos.Raw).byteIdx ≥ (⟨bl l1 + bl (a :: r)⟩ : Pos.Raw).byteIdx) := by
      simp [bl]; omega
    simp only []
    rw [if_neg hn, hs, List.append_assoc]
    have := go1_spec l1 ((a :: r) ++ l3) 0 ⟨bl l1 + bl (a :: r)⟩
    simp only [Nat.zero_add] at this
    have e0 : (0 : Pos.Raw) = ⟨0⟩ := rfl
    rw [e0, this]
    have := go2_spec (a :: r) l3 (bl l1)
    rw [this]


def splitSp : List Char → List Char → List (List Char)
  | cur, [] => [cur]
  | cur, c :: r => if c = ' ' then cur :: splitSp [] r else splitSp (cur ++ [c]) r

theorem size_eq_bl (s : String) : s.utf8ByteSize = bl s.toList := by
  rw [← size_ofList, String.ofList_toList]

theorem splitOnAux_spec (s : String) :
    ∀ (rest pre cur : List Char) (r : List String), s.toList = pre ++ cur ++ rest →
      s.splitOnAux " " ⟨bl pre⟩ ⟨bl pre + bl cur⟩ 0 r = r.reverse ++ (splitSp cur rest).map String.ofList := by
  intro rest
  induction rest with
  | nil =>
    intro pre cur r hs
    rw [String.splitOnAux.eq_1]
    have hend : Pos.Raw.atEnd s ⟨bl pre + bl cur⟩ = true := by
      simp [Pos.Raw.atEnd, size_eq_bl, hs, bl_append]
    rw [if_pos hend]
    simp only []
    rw [extract_spec s pre cur [] hs]
    simp [splitSp]
  | cons c rest ih =>
    intro pre cur r hs
    rw [String.splitOnAux.eq_1]
    have hp := Char.utf8Size_pos c
    have hend : ¬ Pos.Raw.atEnd s ⟨bl pre + bl cur⟩ = true := by
      simp [Pos.Raw.atEnd, size_eq_bl, hs, bl_append, bl]
      omega
    rw [if_neg hend]
    have hget : Pos.Raw.get s ⟨bl pre + bl cur⟩ = c := by
      unfold Pos.Raw.get
      rw [hs]
      have := getAux_at (pre ++ cur) c rest 0
      simp only [Nat.zero_add, bl_append] at this
      exact this
    have hnext : Pos.Raw.next s ⟨bl pre + bl cur⟩ = ⟨bl pre + bl cur + c.utf8Size⟩ := by
      unfold Pos.Raw.next
      rw [hget]
      rfl
    have hgsep : Pos.Raw.get " " 0 = ' ' := by decide
    have hnsep : Pos.Raw.next " " 0 = ⟨1⟩ := by decide
    have hesep : Pos.Raw.atEnd " " ⟨1⟩ = true := by decide
    rw [hget, hgsep]
    by_cases hc : c = ' '
    · subst hc
      have h1 : (' ' : Char).utf8Size = 1 := by decide
      simp only [beq_self_eq_true, if_true, hnext, hnsep, hesep, h1]
      have hun : (⟨bl pre + bl cur + 1⟩ : Pos.Raw).unoffsetBy ⟨1⟩ = ⟨bl pre + bl cur⟩ := by
        apply Pos.Raw.ext
        simp [Pos.Raw.unoffsetBy]
      rw [hun, extract_spec s pre cur (' ' :: rest) hs]
      have := ih (pre ++ cur ++ [' ']) [] (String.ofList cur :: r) (by simp [hs])
      simp only [bl_append, bl, Nat.add_zero] at this
      rw [h1] at this
      rw [this]
      simp [splitSp]
    · have hb : (c == ' ') = false := by simpa using hc
      rw [hb]
      simp only [Bool.false_eq_true, if_false]
      have hun : (⟨bl pre + bl cur⟩ : Pos.Raw).unoffsetBy 0 = ⟨bl pre + bl cur⟩ := by
        apply Pos.Raw.ext
        simp [Pos.Raw.unoffsetBy]
      rw [hun, hnext]
      have := ih pre (cur ++ [c]) r (by simp [hs])
      simp only [bl_append, bl, Nat.add_zero] at this
      rw [← Nat.add_assoc] at this
      rw [this]
      simp [splitSp, hc]

theorem splitOn_spec (l : List Char) :
    (String.ofList l).splitOn " " = (splitSp [] l).map String.ofList := by
  unfold String.splitOn
  have hne : ((" " : String) == "") = false := by decide
  rw [hne]
  simp only [Bool.false_eq_true, if_false]
  have := splitOnAux_spec (String.ofList l) l [] [] [] (by simp)
  simpa [bl] using this


theorem splitSp_append (t : List Char) (ht : ' ' ∉ t) (cur rest : List Char) :
    splitSp cur (t ++ rest) = splitSp (cur ++ t) rest := by
  induction t generalizing cur with
  | nil => simp
  | cons c r ih =>
    have hc : c ≠ ' ' := fun h => ht (h ▸ List.mem_cons_self)
    have hr : ' ' ∉ r := fun h => ht (List.mem_cons_of_mem _ h)
    rw [List.cons_append, splitSp, if_neg hc, ih hr]
    simp

theorem splitSp_joinSp (t : List Char) (ts : List (List Char)) (h : ∀ x ∈ t :: ts, ' ' ∉ x)
    (cur : List Char) : splitSp cur (joinSp (t :: ts)) = (cur ++ t) :: ts := by
  induction ts generalizing t cur with
  | nil =>
    have := splitSp_append t (h t List.mem_cons_self) cur []
    rw [List.append_nil] at this
    rw [joinSp, this, splitSp]
  | cons u us ih =>
    have e : joinSp (t :: u :: us) = t ++ (' ' :: joinSp (u :: us)) := by
      simp [joinSp, sp]
    rw [e, splitSp_append t (h t List.mem_cons_self), splitSp, if_pos rfl,
      ih u (fun x hx => h x (List.mem_cons_of_mem _ hx))]
    simp

theorem isEmpty_ofList (l : List Char) : (String.ofList l).isEmpty = l.isEmpty := by
  cases l with
  | nil => rfl
  | cons c r =>
    have hp := Char.utf8Size_pos c
    unfold String.isEmpty
    rw [size_ofList]
    have : bl (c :: r) ≠ 0 := by rw [bl]; omega
    simp [this]

/-- the tokeniser inverts `joinSp` on non-empty, space-free tokens -/
theorem splitTokens_joinSp (toks : List (List Char)) (hne : ∀ t ∈ toks, t ≠ [])
    (hsp : ∀ t ∈ toks, ' ' ∉ t) : splitTokens (joinSp toks) = toks := by
  unfold splitTokens
  rw [splitOn_spec, List.filterMap_map]
  cases toks with
  | nil => simp [joinSp, splitSp, Function.comp_def]
  | cons t ts =>
    rw [splitSp_joinSp t ts hsp [], List.nil_append]
    generalize t :: ts = l at hne
    induction l with
    | nil => rfl
    | cons a r ih =>
      have ha : (String.ofList a).isEmpty = false := by
        rw [isEmpty_ofList]
        exact isEmpty_false_of_ne_nil a (hne a List.mem_cons_self)
      rw [List.filterMap_cons]
      simp only [Function.comp_apply, ha, Bool.false_eq_true, if_false, String.toList_ofList]
      rw [ih (fun x hx => hne x (List.mem_cons_of_mem _ hx))]

end Tokeniser

/-! ## 3. thread blocks -/

/-- the tokeniser recovers the rendered tokens of every well-formed instruction -/
def SplitOK (ko : Bool) (op : Inst → List Char) : Prop :=
  ∀ i : Inst, i.WF ko → splitTokens (renderInst op i) = renderToks (op i) i ∧ (ko = true → i.op = some (op i))

theorem extractInst_render_of_split (ko : Bool) (op : Inst → List Char) (hop : SplitOK ko op) (i : Inst)
    (wf : i.WF ko) : extractInst false ko (renderInst op i) = .ok i := by
  unfold extractInst
  rw [(hop i wf).1, extractToks_render ko (op i) i wf (hop i wf).2]

structure WarpT.WF (ko : Bool) (w : WarpT) : Prop where
  id_lo : -2147483648 ≤ w.id
  id_hi : w.id < 2147483648
  count_eq : w.count = w.insts.length
  count_hi : w.count < 2147483648
  insts_wf : ∀ i ∈ w.insts, i.WF ko

structure TBT.WF (ko : Bool) (t : TBT) : Prop where
  x_lo : -2147483648 ≤ t.id.1
  x_hi : t.id.1 < 2147483648
  y_lo : -2147483648 ≤ t.id.2.1
  y_hi : t.id.2.1 < 2147483648
  z_lo : -2147483648 ≤ t.id.2.2
  z_hi : t.id.2.2 < 2147483648
  warps_wf : ∀ w ∈ t.warps, w.WF ko

def nonEmpty (l : List Char) : Bool := !l.isEmpty

theorem joinSp_ne_nil (t : List Char) (ts : List (List Char)) (h : t ≠ []) : joinSp (t :: ts) ≠ [] := by
  cases ts with
  | nil => simpa [joinSp] using h
  | cons u us => simp [joinSp, h]

theorem renderInst_ne_nil (op : Inst → List Char) (i : Inst) : renderInst op i ≠ [] := by
  unfold renderInst
  rw [renderToks_eq]
  exact joinSp_ne_nil _ _ (pad_ne_nil 4 _ (showNat_ne_nil 16 _))

theorem filter_renderInsts (op : Inst → List Char) (l : List Inst) :
    (l.map (renderInst op)).filter (fun l => !l.isEmpty) = l.map (renderInst op) := by
  rw [List.filter_eq_self]
  intro x hx
  obtain ⟨i, _, rfl⟩ := List.mem_map.mp hx
  simp [isEmpty_false_of_ne_nil _ (renderInst_ne_nil op i)]

/-- feeding the instruction lines of a warp -/
theorem feed_insts (ko : Bool) (op : Inst → List Char) (hop : SplitOK ko op) :
    ∀ (is : List Inst) (done : List TBT) (tb : TBT) (wp : WarpT), is ≠ [] → (∀ i ∈ is, i.WF ko) →
      (is.map (renderInst op)).foldl (feed false ko) ⟨.readInsts is.length, done, tb, wp, none⟩ =
        ⟨.inTB, done, { tb with warps := tb.warps ++ [{ wp with insts := wp.insts ++ is }] }, {}, none⟩ := by
  intro is
  induction is with
  | nil => intro _ _ _ h; exact absurd rfl h
  | cons i r ih =>
    intro done tb wp _ hwf
    have hi := extractInst_render_of_split ko op hop i (hwf i List.mem_cons_self)
    cases r with
    | nil =>
      simp [feed, hi, closeWarp]
    | cons j r' =>
      have := ih done tb { wp with insts := wp.insts ++ [i] } (by simp)
        (fun x hx => hwf x (List.mem_cons_of_mem _ hx))
      rw [List.map_cons, List.foldl_cons]
      have hstep : feed false ko ⟨.readInsts (i :: j :: r').length, done, tb, wp, none⟩ (renderInst op i) =
          ⟨.readInsts (j :: r').length, done, tb, { wp with insts := wp.insts ++ [i] }, none⟩ := by
        simp [feed, hi]
      rw [hstep, this]
      simp

theorem filter_renderWarp (op : Inst → List Char) (w : WarpT) :
    (renderWarp op w).filter (fun l => !l.isEmpty) =
      ("warp = ".toList ++ showInt w.id) :: ("insts = ".toList ++ showNat 10 w.insts.length) ::
        w.insts.map (renderInst op) := by
  unfold renderWarp
  rw [List.filter_append, List.filter_append, filter_renderInsts]
  have a1 : (List.filter (fun l : List Char => !l.isEmpty)
      ["warp = ".toList ++ showInt w.id, "insts = ".toList ++ showNat 10 w.insts.length]) =
      ["warp = ".toList ++ showInt w.id, "insts = ".toList ++ showNat 10 w.insts.length] := rfl
  have a2 : List.filter (fun l : List Char => !l.isEmpty) [[]] = [] := rfl
  rw [a1, a2, List.append_nil]
  rfl

/-! single steps of the line scanner, on abstract lines -/

theorem feed_seekTB_skip (la ko : Bool) (done : List TBT) (tb : TBT) (wp : WarpT) (l : List Char)
    (hp : hasPrefix "thread block" l = false) :
    feed la ko ⟨.seekTB, done, tb, wp, none⟩ l = ⟨.seekTB, done, tb, wp, none⟩ := by
  unfold feed
  simp [hp]

theorem feed_seekTB_open (la ko : Bool) (done : List TBT) (tb : TBT) (wp : WarpT) (l : List Char)
    (hp : hasPrefix "thread block" l = true) :
    feed la ko ⟨.seekTB, done, tb, wp, none⟩ l = ⟨.inTB, done, { id := scanTBId l }, wp, none⟩ := by
  unfold feed
  simp [hp]

theorem feed_inTB_warp (la ko : Bool) (done : List TBT) (tb : TBT) (wp : WarpT) (l : List Char)
    (hp : hasPrefix "warp" l = true) :
    feed la ko ⟨.inTB, done, tb, wp, none⟩ l =
      ⟨.seekInsts, done, tb, { id := scanAfter "warp = " l }, none⟩ := by
  unfold feed
  simp [hp]

theorem feed_inTB_close (la ko : Bool) (done : List TBT) (tb : TBT) (wp : WarpT) (l : List Char)
    (hp : hasPrefix "warp" l = false) (hp2 : hasPrefix "thread block" l = false) :
    feed la ko ⟨.inTB, done, tb, wp, none⟩ l = ⟨.seekTB, done ++ [tb], {}, wp, none⟩ := by
  unfold feed
  simp [hp, hp2]

theorem feed_seekInsts (la ko : Bool) (done : List TBT) (tb : TBT) (wp : WarpT) (l : List Char)
    (hp : hasPrefix "insts" l = true) :
    feed la ko ⟨.seekInsts, done, tb, wp, none⟩ l =
      if (scanAfter "insts = " l).toNat = 0 then
        ⟨.inTB, done, { tb with warps := tb.warps ++ [{ wp with count := scanAfter "insts = " l }] }, {}, none⟩
      else ⟨.readInsts (scanAfter "insts = " l).toNat, done, tb,
             { wp with count := scanAfter "insts = " l }, none⟩ := by
  unfold feed
  simp [hp, closeWarp]

/-- feeding one rendered warp inside a block appends it to the block -/
theorem feed_warp (ko : Bool) (op : Inst → List Char) (hop : SplitOK ko op) (w : WarpT) (wf : w.WF ko)
    (done : List TBT) (tb : TBT) (wp : WarpT) :
    ((renderWarp op w).filter (fun l => !l.isEmpty)).foldl (feed false ko) ⟨.inTB, done, tb, wp, none⟩ =
      ⟨.inTB, done, { tb with warps := tb.warps ++ [w] }, {}, none⟩ := by
  rw [filter_renderWarp]
  have hlen : w.insts.length < 2147483648 := by
    have h1 := wf.count_eq
    have h2 := wf.count_hi
    omega
  have hs : scanAfter "warp = " ("warp = ".toList ++ showInt w.id) = w.id :=
    scanTok_showInt w.id wf.id_lo wf.id_hi
  have hs2 : scanAfter "insts = " ("insts = ".toList ++ showNat 10 w.insts.length) = w.insts.length :=
    scanTok_showNat w.insts.length hlen
  rw [List.foldl_cons, feed_inTB_warp _ _ _ _ _ _ rfl, hs, List.foldl_cons, feed_seekInsts _ _ _ _ _ _ rfl, hs2]
  obtain ⟨id, count, insts⟩ := w
  have hc : count = insts.length := wf.count_eq
  subst hc
  cases insts with
  | nil => simp
  | cons i r =>
    have hne : ¬ (((i :: r).length : Nat) : Int).toNat = 0 := by simp
    simp only []
    rw [if_neg hne, Int.toNat_natCast, feed_insts ko op hop (i :: r) done tb _ (by simp) wf.insts_wf]
    simp

theorem feed_warps (ko : Bool) (op : Inst → List Char) (hop : SplitOK ko op) :
    ∀ (ws : List WarpT) (done : List TBT) (tb : TBT), (∀ w ∈ ws, w.WF ko) →
      (((ws.map (renderWarp op)).flatten).filter (fun l => !l.isEmpty)).foldl (feed false ko)
          ⟨.inTB, done, tb, {}, none⟩ =
        ⟨.inTB, done, { tb with warps := tb.warps ++ ws }, {}, none⟩ := by
  intro ws
  induction ws with
  | nil => intro done tb _; simp
  | cons w r ih =>
    intro done tb hwf
    rw [List.map_cons, List.flatten_cons, List.filter_append, List.foldl_append,
      feed_warp ko op hop w (hwf w List.mem_cons_self),
      ih done _ (fun x hx => hwf x (List.mem_cons_of_mem _ hx))]
    simp

theorem scanTBId_render (a b c : Int) (ha1 : -2147483648 ≤ a) (ha2 : a < 2147483648)
    (hb1 : -2147483648 ≤ b) (hb2 : b < 2147483648) (hc1 : -2147483648 ≤ c) (hc2 : c < 2147483648) :
    scanTBId ("thread block = ".toList ++ showInt a ++ [','] ++ showInt b ++ [','] ++ showInt c) =
      (a, b, c) := by
  have e : "thread block = ".toList ++ showInt a ++ [','] ++ showInt b ++ [','] ++ showInt c =
      "thread block = ".toList ++ (showInt a ++ ',' :: (showInt b ++ ',' :: showInt c)) := by
    simp only [List.append_assoc, List.cons_append, List.nil_append]
  have d : ("thread block = ".toList ++ (showInt a ++ ',' :: (showInt b ++ ',' :: showInt c))).drop 15 =
      showInt a ++ ',' :: (showInt b ++ ',' :: showInt c) := rfl
  rw [e]
  unfold scanTBId
  rw [d, scanBase_showInt a _ ha1 ha2 (RestOK_comma 10 (by omega) _)]
  simp only []
  rw [scanBase_showInt b _ hb1 hb2 (RestOK_comma 10 (by omega) _)]
  simp only []
  rw [scanTok_showInt c hc1 hc2]

theorem filter_renderTB (op : Inst → List Char) (t : TBT) :
    (renderTB op t).filter (fun l => !l.isEmpty) =
      "#BEGIN_TB".toList ::
      ("thread block = ".toList ++ showInt t.id.1 ++ [','] ++ showInt t.id.2.1 ++ [','] ++ showInt t.id.2.2) ::
      (((t.warps.map (renderWarp op)).flatten).filter (fun l => !l.isEmpty) ++ ["#END_TB".toList]) := by
  unfold renderTB
  rw [List.filter_append, List.filter_append]
  rfl

/-- feeding one rendered thread block while looking for a block appends it to the finished blocks -/
theorem feed_TB (ko : Bool) (op : Inst → List Char) (hop : SplitOK ko op) (t : TBT) (wf : t.WF ko) (done : List TBT) :
    ((renderTB op t).filter (fun l => !l.isEmpty)).foldl (feed false ko) ⟨.seekTB, done, {}, {}, none⟩ =
      ⟨.seekTB, done ++ [t], {}, {}, none⟩ := by
  rw [filter_renderTB, List.foldl_cons, feed_seekTB_skip _ _ _ _ _ _ (by decide), List.foldl_cons,
    feed_seekTB_open _ _ _ _ _ _ rfl,
    scanTBId_render _ _ _ wf.x_lo wf.x_hi wf.y_lo wf.y_hi wf.z_lo wf.z_hi,
    List.foldl_append, feed_warps ko op hop t.warps done _ wf.warps_wf, List.foldl_cons, List.foldl_nil,
    feed_inTB_close _ _ _ _ _ _ (by decide) (by decide)]
  obtain ⟨⟨x, y, z⟩, ws⟩ := t
  simp

theorem feed_TBs (ko : Bool) (op : Inst → List Char) (hop : SplitOK ko op) :
    ∀ (ts : List TBT) (done : List TBT), (∀ t ∈ ts, t.WF ko) →
      (((ts.map (renderTB op)).flatten).filter (fun l => !l.isEmpty)).foldl (feed false ko)
          ⟨.seekTB, done, {}, {}, none⟩ =
        ⟨.seekTB, done ++ ts, {}, {}, none⟩ := by
  intro ts
  induction ts with
  | nil => intro done _; simp
  | cons t r ih =>
    intro done hwf
    rw [List.map_cons, List.flatten_cons, List.filter_append, List.foldl_append,
      feed_TB ko op hop t (hwf t List.mem_cons_self),
      ih _ (fun x hx => hwf x (List.mem_cons_of_mem _ hx))]
    simp

/-- **body round trip**, relative to the tokeniser recovering the rendered tokens -/
theorem parseBody_render_of_split (ko : Bool) (op : Inst → List Char) (hop : SplitOK ko op) (ts : List TBT)
    (hwf : ∀ t ∈ ts, t.WF ko) : parseBody false ko (renderBody op ts) = .ok ts := by
  unfold parseBody renderBody
  have f1 : List.filter (fun l : List Char => !l.isEmpty)
      ("#traces format = …".toList :: [] :: (ts.map (renderTB op)).flatten) =
      "#traces format = …".toList :: List.filter (fun l : List Char => !l.isEmpty)
        ((ts.map (renderTB op)).flatten) := rfl
  have h0 : ({} : PState) = ⟨.seekTB, [], {}, {}, none⟩ := rfl
  rw [f1, List.foldl_cons, h0, feed_seekTB_skip _ _ _ _ _ _ (by decide), feed_TBs ko op hop ts [] hwf]
  simp [finish]

/-! ## 4. unconditional versions: rendered tokens are non-empty and space-free -/

/-- a token the tokeniser recovers: non-empty, no space -/
def TokOK (t : List Char) : Prop := t ≠ [] ∧ ' ' ∉ t

theorem tokOK_digits (b : Nat) (hb : b ≤ 16) (s : List Char) (hs : s ≠ [])
    (hd : ∀ c ∈ s, isDigit b c = true) : TokOK s :=
  ⟨hs, fun h => (isDigit_not_special b ' ' hb (hd _ h)).2.1 rfl⟩

theorem tokOK_cons (c : Char) (hc : c ≠ ' ') (s : List Char) (h : TokOK s) : TokOK (c :: s) := by
  refine ⟨by simp, fun hm => ?_⟩
  rcases List.mem_cons.mp hm with e | e
  · exact hc e.symm
  · exact h.2 e

theorem tokOK_showNat (b n : Nat) (hb2 : 2 ≤ b) (hb : b ≤ 16) : TokOK (showNat b n) :=
  tokOK_digits b hb _ (showNat_ne_nil b n) (showNat_isDigit b n hb2 hb)

theorem tokOK_pad (w n : Nat) : TokOK (pad w (showNat 16 n)) :=
  tokOK_digits 16 (by omega) _ (pad_ne_nil w _ (showNat_ne_nil 16 n))
    (pad_isDigit 16 w (by omega) _ (showNat_isDigit 16 n (by omega) (by omega)))

theorem tokOK_showInt (i : Int) : TokOK (showInt i) := by
  unfold showInt
  split
  · exact tokOK_cons '-' (by decide) _ (tokOK_showNat 10 _ (by omega) (by omega))
  · exact tokOK_showNat 10 _ (by omega) (by omega)

theorem tokOK_knownReg (t : List Char) (h : knownReg t = true) : TokOK t := by
  unfold knownReg at h
  have hm : t ∈ regNames := by simpa using h
  unfold regNames at hm
  rcases List.mem_append.mp hm with hm | hm
  · obtain ⟨i, _, rfl⟩ := List.mem_map.mp hm
    exact tokOK_cons 'R' (by decide) _ (tokOK_showNat 10 _ (by omega) (by omega))
  · have : t = "R255".toList := by simpa using hm
    subst this
    exact ⟨by decide, by decide⟩

theorem renderToks_tokOK {ko : Bool} (op : List Char) (hop : OpWF op) (i : Inst) (wf : i.WF ko) :
    ∀ t ∈ renderToks op i, TokOK t := by
  intro t ht
  rw [renderToks_eq] at ht
  unfold renderMem at ht
  simp only [List.mem_append, List.mem_cons, List.not_mem_nil, or_false] at ht
  have hA : TokOK ('0' :: 'x' :: showNat 16 i.addr.toNat) :=
    tokOK_cons '0' (by decide) _ (tokOK_cons 'x' (by decide) _ (tokOK_showNat 16 _ (by omega) (by omega)))
  rcases ht with (((((h | h | h) | h) | (h | h)) | h) | h)
  · subst h; exact tokOK_pad 4 _
  · subst h; exact tokOK_pad 8 _
  · subst h; exact tokOK_showNat 10 _ (by omega) (by omega)
  · exact tokOK_knownReg t (wf.dst_known t h)
  · subst h; exact hop
  · subst h; exact tokOK_showNat 10 _ (by omega) (by omega)
  · exact tokOK_knownReg t (wf.src_known t h)
  · rcases h with (h | h) | h
    · subst h; exact tokOK_showInt _
    · split at h
      · simp at h
      · simp only [List.mem_append, List.mem_cons, List.not_mem_nil, or_false] at h
        rcases h with (h | h) | h
        · subst h; exact tokOK_showInt _
        · subst h; exact hA
        · split at h
          · simp at h; subst h; exact tokOK_showInt _
          · split at h
            · obtain ⟨x, _, rfl⟩ := List.mem_map.mp h
              exact tokOK_showInt _
            · simp at h
    · subst h; exact tokOK_showInt _

/-- constant opcode token, reader that drops the opcode -/
theorem splitOK_const (o : List Char) (hop : OpWF o) : SplitOK false (fun _ => o) := by
  intro i wf
  refine ⟨?_, fun h => by cases h⟩
  unfold renderInst
  exact splitTokens_joinSp _ (fun t ht => (renderToks_tokOK o hop i wf t ht).1)
    (fun t ht => (renderToks_tokOK o hop i wf t ht).2)

/-- every instruction rendered with its own opcode, reader that keeps the opcode -/
theorem splitOK_opText : SplitOK true opText := by
  intro i wf
  obtain ⟨o, ho, hw⟩ : ∃ o, i.op = some o ∧ OpWF o := by simpa using wf.op_ok
  have ht : opText i = o := by simp [opText, ho]
  refine ⟨?_, fun _ => by rw [ht]; exact ho⟩
  unfold renderInst
  rw [ht]
  exact splitTokens_joinSp _ (fun t ht => (renderToks_tokOK o hw i wf t ht).1)
    (fun t ht => (renderToks_tokOK o hw i wf t ht).2)

/-- **instruction round trip on lines, repaired reader**: the opcode survives -/
theorem extractInst_render (i : Inst) (wf : i.WF true) :
    extractInst false true (renderInst opText i) = .ok i :=
  extractInst_render_of_split true opText splitOK_opText i wf

/-- **body round trip, repaired reader** -/
theorem parseBody_render (ts : List TBT) (hwf : ∀ t ∈ ts, t.WF true) :
    parseBody false true (renderBody opText ts) = .ok ts :=
  parseBody_render_of_split true opText splitOK_opText ts hwf

/-- instruction round trip of the reader that dropped the opcode: any opcode token parses to `OpCode = nil` -/
theorem extractInst_render_noop (op : List Char) (hop : OpWF op) (i : Inst) (wf : i.WF false) :
    extractInst false false (renderInst (fun _ => op) i) = .ok i :=
  extractInst_render_of_split false _ (splitOK_const op hop) i wf

theorem parseBody_render_noop (op : List Char) (hop : OpWF op) (ts : List TBT) (hwf : ∀ t ∈ ts, t.WF false) :
    parseBody false false (renderBody (fun _ => op) ts) = .ok ts :=
  parseBody_render_of_split false _ (splitOK_const op hop) ts hwf

theorem opWF_OP : OpWF "OP".toList := ⟨by decide, by decide⟩

/-- **legacy refutation on lines**: the pre-fix reader does not round-trip the rendered line -/
theorem legacy_not_roundtrip_line :
    extractInst true false (renderInst (fun _ => "OP".toList) legacyWitness) ≠ .ok legacyWitness := by
  unfold extractInst
  rw [(splitOK_const _ opWF_OP legacyWitness legacyWitness_WF).1]
  exact legacy_not_roundtrip

end C20
