import MgpuProofs.C14VmuShared
/-! # C14 — the vector memory unit BEFORE the repair (`C14.Vmu.Old`): FIFO with one lane,
conservation with any number of lanes -/
namespace C14.Vmu.Old

theorem vmu_send_nil (c : Cfg) (n : Nat) (s : St) (h : s.post = []) : send c n s = s := by
  cases n <;> simp [send, h]

theorem vmu_send_full (c : Cfg) (n : Nat) (s : St) (h : ¬ s.out.length < c.cap) : send c n s = s := by
  cases n with
  | zero => simp [send]
  | succ n => unfold send; split <;> simp [h]

theorem vmu_send_cons (c : Cfg) (n : Nat) (s : St) (e : Nat) (rest : List Nat) (h : s.post = e :: rest)
    (hl : s.out.length < c.cap) :
    send c (n + 1) s = send c n { s with post := rest, out := s.out ++ [e], sent := s.sent ++ [e] } := by
  simp [send, h, hl]

theorem vmu_send_facts (c : Cfg) : ∀ (n : Nat) (s : St),
    (send c n s).sent ++ (send c n s).post = s.sent ++ s.post ∧
    (send c n s).lanes = s.lanes ∧ (send c n s).waiting = s.waiting ∧
    (send c n s).next = s.next ∧ (send c n s).stall = s.stall ∧
    (send c n s).post.length ≤ s.post.length ∧
    (s.out.length ≤ c.cap → (send c n s).out.length ≤ c.cap)
  | 0, s => by simp [send]
  | n + 1, s => by
    cases hp : s.post with
    | nil => rw [vmu_send_nil c _ s hp]; simp [hp]
    | cons e rest =>
      by_cases hl : s.out.length < c.cap
      · rw [vmu_send_cons c n s e rest hp hl]
        obtain ⟨h1, h2, h3, h4, h5, h6, h7⟩ :=
          vmu_send_facts c n { s with post := rest, out := s.out ++ [e], sent := s.sent ++ [e] }
        refine ⟨?_, h2, h3, h4, h5, ?_, ?_⟩
        · rw [h1]; simp
        · simp at h6 ⊢; omega
        · intro _; apply h7; simp; omega
      · rw [vmu_send_full c _ s hl]; simp [hp]

def vmu_ILc (c : Cfg) (s s' : St) : Prop :=
  inPipe s' + s'.post.length + s'.waiting.length = inPipe s + s.post.length + s.waiting.length ∧
  (s.post.length ≤ c.buf → s'.post.length ≤ c.buf) ∧ s'.sent = s.sent ∧ s'.out = s.out ∧
  s'.next = s.next ∧ s'.lanes.length = s.lanes.length

theorem vmu_ILc_refl (c : Cfg) (s : St) : vmu_ILc c s s := by simp [vmu_ILc]

theorem vmu_insertLoop_count (c : Cfg) : ∀ (fuel : Nat) (s : St), vmu_ILc c s (insertLoop c fuel s)
  | 0, s => by simp [insertLoop, vmu_ILc_refl]
  | fuel + 1, s => by
    unfold insertLoop
    split
    · exact vmu_ILc_refl c s
    · rename_i e p rest hw
      split
      · split
        · rename_i hlt
          split
          · simp [vmu_ILc, inPipe, hw]; omega
          · obtain ⟨i1, i2, i3, i4, i5, i6⟩ :=
              vmu_insertLoop_count c fuel { s with waiting := rest, post := s.post ++ [e] }
            simp only [inPipe, List.length_append, List.length_singleton] at i1 i2 i3 i4 i5 i6
            refine ⟨?_, ?_, i3, i4, i5, i6⟩
            · simp only [inPipe, hw, List.length_cons]; omega
            · intro _; apply i2; omega
        · exact vmu_ILc_refl c s
      · split
        · exact vmu_ILc_refl c s
        · rename_i lanes hacc
          have ha := vmu_accept_facts e _ _ hacc
          split
          · simp [vmu_ILc, inPipe, hw]; omega
          · obtain ⟨i1, i2, i3, i4, i5, i6⟩ :=
              vmu_insertLoop_count c fuel { s with waiting := rest, lanes := lanes }
            simp only [inPipe] at i1 i2 i3 i4 i5 i6
            refine ⟨?_, i2, i3, i4, i5, ?_⟩
            · simp only [inPipe, hw, List.length_cons]; omega
            · exact i6.trans ha.2

theorem vmu_insert_count (c : Cfg) (s : St) : vmu_ILc c s (insert c s) := by
  unfold insert
  split
  · simp [vmu_ILc, inPipe]
  · exact vmu_insertLoop_count c _ s

def vmu_CInv (c : Cfg) (s : St) : Prop :=
  s.sent.length + s.post.length + inPipe s + s.waiting.length = s.next ∧
  s.post.length ≤ c.buf ∧ s.out.length ≤ c.cap

theorem vmu_cycle_count (c : Cfg) (s : St) (h : vmu_CInv c s) : vmu_CInv c (cycle c s) := by
  obtain ⟨h1, h2, h3⟩ := h
  show vmu_CInv c (insert c { send c c.burst s with
    lanes := (tick c.buf (send c c.burst s).lanes (send c c.burst s).post).1,
    post := (tick c.buf (send c c.burst s).lanes (send c c.burst s).post).2 })
  obtain ⟨s1, s2, s3, s4, s5, s6, s7⟩ := vmu_send_facts c c.burst s
  generalize send c c.burst s = S at *
  obtain ⟨t1, t2, t3⟩ := vmu_tick_facts c.buf S.lanes S.post
  generalize tick c.buf S.lanes S.post = T at *
  obtain ⟨i1, i2, i3, i4, i5, i6⟩ := vmu_insert_count c { S with lanes := T.1, post := T.2 }
  generalize insert c { S with lanes := T.1, post := T.2 } = I at *
  have hl := congrArg List.length s1
  simp only [List.length_append] at hl
  simp only [inPipe] at i1 i2 i3 i4 i5 i6 h1
  rw [s2] at t1
  rw [s3] at i1
  refine ⟨?_, ?_, ?_⟩
  · simp only [inPipe]; rw [i3, i5, s4]; omega
  · exact i2 (t3 (by omega))
  · rw [i4]; exact s7 h3

theorem vmu_step_count (c : Cfg) (s : St) (op : Op) (h : vmu_CInv c s) : vmu_CInv c (step c s op) := by
  cases op with
  | issue k p =>
    obtain ⟨h1, h2, h3⟩ := h
    simp [step, issue, vmu_CInv, inPipe] at h1 ⊢
    omega
  | cyc t =>
    obtain ⟨h1, h2, h3⟩ := vmu_cycle_count c s h
    simp [step, take, vmu_CInv, inPipe] at h1 ⊢
    omega

theorem vmu_run_count (c : Cfg) : ∀ (ops : List Op) (s : St), vmu_CInv c s → vmu_CInv c (run c s ops)
  | [], s, h => h
  | op :: ops, s, h => by
    simp only [run, List.foldl_cons]
    exact vmu_run_count c ops _ (vmu_step_count c s op h)

theorem vmu_init_count (c : Cfg) : vmu_CInv c (St.init c) := by
  simp [vmu_CInv, St.init, inPipe]

/-- any number of lanes: no transaction is lost or duplicated (counts) and the buffers keep their
    capacities -/
theorem vmu_count (c : Cfg) (ops : List Op) :
    (run c (St.init c) ops).sent.length + (run c (St.init c) ops).post.length + inPipe (run c (St.init c) ops) +
      (run c (St.init c) ops).waiting.length = (run c (St.init c) ops).next ∧
    (run c (St.init c) ops).post.length ≤ c.buf ∧ (run c (St.init c) ops).out.length ≤ c.cap :=
  vmu_run_count c ops _ (vmu_init_count c)

def vmu_OInv (c : Cfg) (s : St) : Prop :=
  ∃ lane, s.lanes = [lane] ∧ lane.length = c.stages ∧ order s = List.range s.next

def vmu_ILo (c : Cfg) (s s' : St) : Prop :=
  ∀ lane, s.lanes = [lane] → lane.length = c.stages →
    ∃ lane', s'.lanes = [lane'] ∧ lane'.length = c.stages ∧ order s' = order s ∧ s'.next = s.next

theorem vmu_ILo_refl (c : Cfg) (s : St) : vmu_ILo c s s :=
  fun lane hl hlen => ⟨lane, hl, hlen, rfl, rfl⟩

theorem vmu_insertLoop_order (c : Cfg) : ∀ (fuel : Nat) (s : St), vmu_ILo c s (insertLoop c fuel s)
  | 0, s => by simp [insertLoop, vmu_ILo_refl]
  | fuel + 1, s => by
    unfold insertLoop
    split
    · exact vmu_ILo_refl c s
    · rename_i e p rest hw
      split
      · rename_i h0
        split
        · have key : ∀ lane, s.lanes = [lane] → lane.length = c.stages →
              order { s with waiting := rest, post := s.post ++ [e] } = order s := by
            intro lane hl hlen
            have : lane = [] := List.eq_nil_of_length_eq_zero (hlen.trans h0)
            simp [order, hw, hl, this, vmu_pipeItems_single, vmu_laneItems_nil]
          split
          · intro lane hl hlen
            exact ⟨lane, hl, hlen, key lane hl hlen, rfl⟩
          · intro lane hl hlen
            obtain ⟨lane', a1, a2, a3, a4⟩ :=
              vmu_insertLoop_order c fuel { s with waiting := rest, post := s.post ++ [e] } lane hl hlen
            exact ⟨lane', a1, a2, a3.trans (key lane hl hlen), a4⟩
        · exact vmu_ILo_refl c s
      · split
        · exact vmu_ILo_refl c s
        · rename_i lanes hacc
          have key : ∀ lane, s.lanes = [lane] → lane.length = c.stages →
              ∃ lane', lanes = [lane'] ∧ lane'.length = c.stages ∧
                order { s with waiting := rest, lanes := lanes } = order s := by
            intro lane hl hlen
            rw [hl] at hacc
            obtain ⟨tl, h1, h2⟩ := vmu_accept_single e lane lanes hacc
            subst h1; subst h2
            refine ⟨some e :: tl, rfl, by simpa using hlen, ?_⟩
            simp [order, hw, hl, vmu_pipeItems_single, vmu_laneItems_cons]
          split
          · intro lane hl hlen
            obtain ⟨lane', k1, k2, k3⟩ := key lane hl hlen
            exact ⟨lane', k1, k2, k3, rfl⟩
          · intro lane hl hlen
            obtain ⟨lane', k1, k2, k3⟩ := key lane hl hlen
            obtain ⟨lane'', a1, a2, a3, a4⟩ :=
              vmu_insertLoop_order c fuel { s with waiting := rest, lanes := lanes } lane' k1 k2
            exact ⟨lane'', a1, a2, a3.trans k3, a4⟩

theorem vmu_insert_order (c : Cfg) (s : St) : vmu_ILo c s (insert c s) := by
  unfold insert
  split
  · intro lane hl hlen
    exact ⟨lane, hl, hlen, rfl, rfl⟩
  · exact vmu_insertLoop_order c _ s

theorem vmu_cycle_order (c : Cfg) (s : St) (h : vmu_OInv c s) : vmu_OInv c (cycle c s) := by
  obtain ⟨lane, hl, hlen, ho⟩ := h
  show vmu_OInv c (insert c { send c c.burst s with
    lanes := (tick c.buf (send c c.burst s).lanes (send c c.burst s).post).1,
    post := (tick c.buf (send c c.burst s).lanes (send c c.burst s).post).2 })
  obtain ⟨s1, s2, s3, s4, s5, s6, s7⟩ := vmu_send_facts c c.burst s
  generalize send c c.burst s = S at *
  rw [s2, hl, vmu_tick_single]
  obtain ⟨t1, t2, t3⟩ := vmu_laneTick_facts c.buf lane S.post
  generalize laneTick c.buf lane S.post = T at *
  obtain ⟨lane', a1, a2, a3, a4⟩ := vmu_insert_order c { S with lanes := [T.1], post := T.2 } T.1 rfl
    (t2.trans hlen)
  refine ⟨lane', a1, a2, ?_⟩
  rw [a3, a4]
  show order { S with lanes := [T.1], post := T.2 } = List.range S.next
  rw [s4, ← ho]
  simp only [order, vmu_pipeItems_single, hl, s3]
  rw [List.append_assoc S.sent, t1, ← List.append_assoc S.sent, s1]

theorem vmu_step_order (c : Cfg) (s : St) (op : Op) (h : vmu_OInv c s) : vmu_OInv c (step c s op) := by
  cases op with
  | issue k p =>
    obtain ⟨lane, hl, hlen, ho⟩ := h
    refine ⟨lane, hl, hlen, ?_⟩
    show order (issue s k p) = List.range (s.next + k)
    rw [List.range_add, ← ho]
    simp [order, issue, Function.comp_def]
  | cyc t =>
    obtain ⟨lane, hl, hlen, ho⟩ := vmu_cycle_order c s h
    exact ⟨lane, hl, hlen, ho⟩

theorem vmu_run_order (c : Cfg) : ∀ (ops : List Op) (s : St), vmu_OInv c s → vmu_OInv c (run c s ops)
  | [], s, h => h
  | op :: ops, s, h => by
    simp only [run, List.foldl_cons]
    exact vmu_run_order c ops _ (vmu_step_order c s op h)

theorem vmu_init_order (c : Cfg) (hw : c.width = 1) : vmu_OInv c (St.init c) := by
  refine ⟨List.replicate c.stages none, by simp [St.init, hw], by simp, ?_⟩
  simp [order, St.init, hw, vmu_pipeItems_single, vmu_laneItems_replicate_none]

/-- with one lane: sent, then the post-pipeline buffer, then the lane from its last stage to its
    first, then the waiting list — is exactly the creation order -/
theorem vmu_one_lane_order (c : Cfg) (hw : c.width = 1) (ops : List Op) :
    order (run c (St.init c) ops) = List.range (run c (St.init c) ops).next := by
  obtain ⟨_, _, _, h⟩ := vmu_run_order c ops _ (vmu_init_order c hw)
  exact h

/-- with one lane the requests reach the port in creation order, without gap -/
theorem vmu_one_lane_sent (c : Cfg) (hw : c.width = 1) (ops : List Op) :
    (run c (St.init c) ops).sent = List.range (run c (St.init c) ops).sent.length := by
  have h := vmu_one_lane_order c hw ops
  unfold order at h
  rw [List.append_assoc, List.append_assoc] at h
  exact vmu_prefix_range _ _ _ h

theorem vmu_step_lanes_len (c : Cfg) (s : St) (op : Op) : (step c s op).lanes.length = s.lanes.length := by
  cases op with
  | issue k p => rfl
  | cyc t =>
    show (insert c { send c c.burst s with
      lanes := (tick c.buf (send c c.burst s).lanes (send c c.burst s).post).1,
      post := (tick c.buf (send c c.burst s).lanes (send c c.burst s).post).2 }).lanes.length = _
    rw [(vmu_insert_count c _).2.2.2.2.2, ← (vmu_send_facts c c.burst s).2.1]
    exact (vmu_tick_facts c.buf _ _).2.1

/-- every op keeps the number of lanes -/
theorem vmu_lanes_len (c : Cfg) (ops : List Op) : (run c (St.init c) ops).lanes.length = c.width := by
  have : ∀ (ops : List Op) (s : St), (run c s ops).lanes.length = s.lanes.length := by
    intro ops
    induction ops with
    | nil => intro s; rfl
    | cons op ops ih =>
      intro s
      simp only [run, List.foldl_cons]
      exact (ih (step c s op)).trans (vmu_step_lanes_len c s op)
  rw [this]; simp [St.init]

end C14.Vmu.Old
