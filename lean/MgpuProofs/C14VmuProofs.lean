import MgpuProofs.C14VmuOldProofs
/-! # C14 — the REPAIRED vector memory unit: creation order for every width, conservation,
bounded set-aside storage, one-lane behaviour unchanged -/
namespace C14.Vmu

/-- everything ever created, in the order in which it has left / will leave the repaired unit:
    sent, then `transactionsInOrder`, then `transactionsWaiting` -/
def ledger (s : St) : List Nat := s.sent ++ s.inOrder ++ s.waiting.map Prod.fst

/-- the transactions between the entry of the pipeline and the port: set aside, in the
    post-pipeline buffer, in the lanes -/
def held (s : St) : List Nat := s.aside ++ s.post ++ pipeItems s.lanes

/-- `send`: the oldest transaction, set aside earlier, goes to the port -/
def sendA (s : St) (e : Nat) (older : List Nat) : St :=
  { s with inOrder := older, aside := s.aside.erase e, out := s.out ++ [e], sent := s.sent ++ [e] }

/-- `send`: the oldest transaction, at the head of the post-pipeline buffer, goes to the port -/
def sendH (s : St) (e : Nat) (older rest : List Nat) : St :=
  { s with inOrder := older, post := rest, out := s.out ++ [e], sent := s.sent ++ [e] }

/-- `send`: a younger head of the post-pipeline buffer is set aside -/
def setA (s : St) (h : Nat) (rest : List Nat) : St := { s with post := rest, aside := s.aside ++ [h] }

/-- what one call of `send` keeps / establishes -/
def vmu_SR (c : Cfg) (s s' : St) : Prop :=
  ledger s' = ledger s ∧ s'.inOrder.Perm (held s') ∧
  s'.lanes = s.lanes ∧ s'.waiting = s.waiting ∧ s'.next = s.next ∧ s'.stall = s.stall ∧
  s'.post.length ≤ s.post.length ∧ (s.out.length ≤ c.cap → s'.out.length ≤ c.cap) ∧
  s'.inOrder.length ≤ s.inOrder.length

theorem vmu_SR_refl (c : Cfg) (s : St) (h : s.inOrder.Perm (held s)) : vmu_SR c s s :=
  ⟨rfl, h, rfl, rfl, rfl, rfl, Nat.le_refl _, fun h => h, Nat.le_refl _⟩

theorem vmu_SR_trans (c : Cfg) (s s1 s2 : St) (h1 : vmu_SR c s s1) (_hc : s1.out.length ≤ c.cap ∨ ¬ s.out.length ≤ c.cap)
    (h2 : vmu_SR c s1 s2) : vmu_SR c s s2 := by
  obtain ⟨a1, a2, a3, a4, a5, a6, a7, a8, a9⟩ := h1
  obtain ⟨b1, b2, b3, b4, b5, b6, b7, b8, b9⟩ := h2
  refine ⟨b1.trans a1, b2, b3.trans a3, b4.trans a4, b5.trans a5, b6.trans a6, Nat.le_trans b7 a7, ?_,
    Nat.le_trans b9 a9⟩
  intro h
  exact b8 (a8 h)

theorem vmu_send_inv (c : Cfg) : ∀ (n : Nat) (s : St), s.inOrder.Perm (held s) → vmu_SR c s (send c n s)
  | 0, s, h => by simpa [send] using vmu_SR_refl c s h
  | n + 1, s, h => by
    cases hI : s.inOrder with
    | nil =>
      have e1 : send c (n + 1) s = s := by simp [send, hI]
      rw [e1]; exact vmu_SR_refl c s h
    | cons e older =>
      rw [hI] at h
      by_cases ha : e ∈ s.aside
      · by_cases hl : s.out.length < c.cap
        · have e1 : send c (n + 1) s = send c n (sendA s e older) := by simp [send, hI, ha, hl, sendA]
          rw [e1]
          have hp : older.Perm (held (sendA s e older)) := by
            have h2 : (e :: older).Perm (e :: (s.aside.erase e ++ s.post ++ pipeItems s.lanes)) := by
              refine h.trans ?_
              show (s.aside ++ s.post ++ pipeItems s.lanes).Perm _
              have := List.perm_cons_erase ha
              exact ((this.append_right s.post).append_right (pipeItems s.lanes))
            exact h2.cons_inv
          have ih := vmu_send_inv c n (sendA s e older) hp
          refine vmu_SR_trans c s (sendA s e older) _ ⟨?_, hp, rfl, rfl, rfl, rfl, Nat.le_refl _, ?_, ?_⟩ (Or.inl ?_) ih
          · simp [ledger, hI, sendA]
          · intro _; simp [sendA]; omega
          · simp [hI, sendA]
          · simp [sendA]; omega
        · have e1 : send c (n + 1) s = s := by simp [send, hI, ha, hl]
          rw [e1]; exact vmu_SR_refl c s (hI ▸ h)
      · cases hP : s.post with
        | nil =>
          have e1 : send c (n + 1) s = s := by simp [send, hI, ha, hP]
          rw [e1]; exact vmu_SR_refl c s (hI ▸ h)
        | cons h' rest =>
          by_cases he : h' = e
          · by_cases hl : s.out.length < c.cap
            · have e1 : send c (n + 1) s = send c n (sendH s e older rest) := by
                simp [send, hI, ha, hP, he, hl, sendH]
              rw [e1]
              have hp : older.Perm (held (sendH s e older rest)) := by
                have h2 : (e :: older).Perm (e :: (s.aside ++ rest ++ pipeItems s.lanes)) := by
                  refine h.trans ?_
                  show (s.aside ++ s.post ++ pipeItems s.lanes).Perm _
                  rw [hP, he]
                  have : (s.aside ++ e :: rest).Perm (e :: (s.aside ++ rest)) := List.perm_middle
                  exact this.append_right _
                exact h2.cons_inv
              have ih := vmu_send_inv c n (sendH s e older rest) hp
              refine vmu_SR_trans c s (sendH s e older rest) _ ⟨?_, hp, rfl, rfl, rfl, rfl, ?_, ?_, ?_⟩ (Or.inl ?_) ih
              · simp [ledger, hI, sendH]
              · simp [hP, sendH]
              · intro _; simp [sendH]; omega
              · simp [hI, sendH]
              · simp [sendH]; omega
            · have e1 : send c (n + 1) s = s := by simp [send, hI, ha, hP, he, hl]
              rw [e1]; exact vmu_SR_refl c s (hI ▸ h)
          · have e1 : send c (n + 1) s = send c n (setA s h' rest) := by
              simp [send, hI, ha, hP, he, setA]
            rw [e1]
            have hp : (setA s h' rest).inOrder.Perm (held (setA s h' rest)) := by
              show s.inOrder.Perm ((s.aside ++ [h']) ++ rest ++ pipeItems s.lanes)
              rw [hI]
              refine h.trans ?_
              show (s.aside ++ s.post ++ pipeItems s.lanes).Perm _
              rw [hP]
              simp
            have ih := vmu_send_inv c n (setA s h' rest) hp
            have h1 : vmu_SR c s (setA s h' rest) :=
              ⟨rfl, hp, rfl, rfl, rfl, rfl, by simp [hP, setA], fun h => h, Nat.le_refl _⟩
            by_cases hc : s.out.length ≤ c.cap
            · exact vmu_SR_trans c s (setA s h' rest) _ h1 (Or.inl hc) ih
            · exact vmu_SR_trans c s (setA s h' rest) _ h1 (Or.inr hc) ih

/-- `Tick` permutes nothing away: buffer and lanes afterwards hold what they held before -/
theorem vmu_tick_perm (b : Nat) : ∀ (lanes : List (List (Option Nat))) (post : List Nat),
    ((tick b lanes post).2 ++ pipeItems (tick b lanes post).1).Perm (post ++ pipeItems lanes)
  | [], post => by simp [tick, pipeItems]
  | l :: ls, post => by
    have h1 := (vmu_laneTick_facts b l post).1
    have ih := vmu_tick_perm b ls (laneTick b l post).2
    simp only [tick, pipeItems, List.flatMap_cons] at ih ⊢
    refine List.perm_append_comm_assoc _ _ _ |>.trans ?_
    refine (List.Perm.append_left _ ih).trans ?_
    refine List.perm_append_comm_assoc _ _ _ |>.trans ?_
    rw [← List.append_assoc, h1, List.append_assoc]

theorem vmu_accept_perm (e : Nat) : ∀ (lanes lanes' : List (List (Option Nat))),
    accept e lanes = some lanes' → (pipeItems lanes').Perm (pipeItems lanes ++ [e])
  | [], lanes', h => by simp [accept] at h
  | [] :: ls, lanes', h => by
    simp only [accept, Option.map_eq_some_iff] at h
    obtain ⟨a, ha, rfl⟩ := h
    have := vmu_accept_perm e ls a ha
    simp only [pipeItems, List.flatMap_cons] at this ⊢
    rw [List.append_assoc]
    exact this.append_left _
  | (none :: tl) :: ls, lanes', h => by
    simp only [accept, Option.some.injEq] at h
    subst h
    simp only [pipeItems, List.flatMap_cons, vmu_laneItems_cons, Option.toList]
    simp only [List.append_nil, List.append_assoc]
    exact (List.perm_append_comm (l₁ := [e])).append_left _
  | (some x :: tl) :: ls, lanes', h => by
    simp only [accept, Option.map_eq_some_iff] at h
    obtain ⟨a, ha, rfl⟩ := h
    have := vmu_accept_perm e ls a ha
    simp only [pipeItems, List.flatMap_cons] at this ⊢
    rw [List.append_assoc]
    exact this.append_left _

/-- what `insertLoop` / `insert` keep -/
def vmu_IR (c : Cfg) (s s' : St) : Prop :=
  ledger s' = ledger s ∧ s'.inOrder.Perm (held s') ∧ (s.post.length ≤ c.buf → s'.post.length ≤ c.buf) ∧
  s'.sent = s.sent ∧ s'.out = s.out ∧ s'.next = s.next ∧ s'.lanes.length = s.lanes.length ∧ s'.aside = s.aside

theorem vmu_IR_refl (c : Cfg) (s : St) (h : s.inOrder.Perm (held s)) : vmu_IR c s s :=
  ⟨rfl, h, fun h => h, rfl, rfl, rfl, rfl, rfl⟩

theorem vmu_insertLoop_inv (c : Cfg) : ∀ (fuel : Nat) (s : St), s.inOrder.Perm (held s) →
    vmu_IR c s (insertLoop c fuel s)
  | 0, s, h => by simpa [insertLoop] using vmu_IR_refl c s h
  | fuel + 1, s, h => by
    unfold insertLoop
    split
    · exact vmu_IR_refl c s h
    · rename_i e p rest hw
      split
      · exact vmu_IR_refl c s h
      · split
        · split
          · rename_i hlt
            have hp : ({ s with waiting := rest, post := s.post ++ [e], inOrder := s.inOrder ++ [e] } : St).inOrder.Perm
                (held { s with waiting := rest, post := s.post ++ [e], inOrder := s.inOrder ++ [e] }) := by
              show (s.inOrder ++ [e]).Perm (s.aside ++ (s.post ++ [e]) ++ pipeItems s.lanes)
              refine (h.append_right [e]).trans ?_
              show (s.aside ++ s.post ++ pipeItems s.lanes ++ [e]).Perm _
              simp only [List.append_assoc]
              exact (List.perm_append_comm (l₁ := pipeItems s.lanes)).append_left _ |>.append_left _
            have hled : ledger { s with waiting := rest, post := s.post ++ [e], inOrder := s.inOrder ++ [e] } = ledger s := by
              simp [ledger, hw]
            split
            · exact ⟨hled, hp, fun _ => by simp; omega, rfl, rfl, rfl, rfl, rfl⟩
            · obtain ⟨i1, i2, i3, i4, i5, i6, i7, i8⟩ := vmu_insertLoop_inv c fuel _ hp
              exact ⟨i1.trans hled, i2, fun _ => i3 (by simp; omega), i4, i5, i6, i7, i8⟩
          · exact vmu_IR_refl c s h
        · split
          · exact vmu_IR_refl c s h
          · rename_i lanes hacc
            have hap := vmu_accept_perm e _ _ hacc
            have hal := (vmu_accept_facts e _ _ hacc).2
            have hp : ({ s with waiting := rest, lanes := lanes, inOrder := s.inOrder ++ [e] } : St).inOrder.Perm
                (held { s with waiting := rest, lanes := lanes, inOrder := s.inOrder ++ [e] }) := by
              show (s.inOrder ++ [e]).Perm (s.aside ++ s.post ++ pipeItems lanes)
              refine (h.append_right [e]).trans ?_
              show (s.aside ++ s.post ++ pipeItems s.lanes ++ [e]).Perm _
              rw [List.append_assoc (s.aside ++ s.post)]
              exact hap.symm.append_left _
            have hled : ledger { s with waiting := rest, lanes := lanes, inOrder := s.inOrder ++ [e] } = ledger s := by
              simp [ledger, hw]
            split
            · exact ⟨hled, hp, fun h => h, rfl, rfl, rfl, hal, rfl⟩
            · obtain ⟨i1, i2, i3, i4, i5, i6, i7, i8⟩ := vmu_insertLoop_inv c fuel _ hp
              exact ⟨i1.trans hled, i2, i3, i4, i5, i6, i7.trans hal, i8⟩

theorem vmu_insert_inv (c : Cfg) (s : St) (h : s.inOrder.Perm (held s)) : vmu_IR c s (insert c s) := by
  unfold insert
  split
  · exact ⟨rfl, h, fun h => h, rfl, rfl, rfl, rfl, rfl⟩
  · exact vmu_insertLoop_inv c _ s h

/-- the invariant of the repaired unit -/
def vmu_GInv (c : Cfg) (s : St) : Prop :=
  ledger s = List.range s.next ∧ s.inOrder.Perm (held s) ∧ s.post.length ≤ c.buf ∧ s.out.length ≤ c.cap

theorem vmu_cycle_inv (c : Cfg) (s : St) (h : vmu_GInv c s) : vmu_GInv c (cycle c s) := by
  obtain ⟨h1, h2, h3, h4⟩ := h
  show vmu_GInv c (insert c { send c c.burst s with
    lanes := (tick c.buf (send c c.burst s).lanes (send c c.burst s).post).1,
    post := (tick c.buf (send c c.burst s).lanes (send c c.burst s).post).2 })
  obtain ⟨s1, s2, s3, s4, s5, s6, s7, s8, s9⟩ := vmu_send_inv c c.burst s h2
  generalize send c c.burst s = S at *
  have tp := vmu_tick_perm c.buf S.lanes S.post
  obtain ⟨t1, t2, t3⟩ := vmu_tick_facts c.buf S.lanes S.post
  generalize tick c.buf S.lanes S.post = T at *
  have hp : ({ S with lanes := T.1, post := T.2 } : St).inOrder.Perm (held { S with lanes := T.1, post := T.2 }) := by
    show S.inOrder.Perm (S.aside ++ T.2 ++ pipeItems T.1)
    refine s2.trans ?_
    show (S.aside ++ S.post ++ pipeItems S.lanes).Perm _
    rw [List.append_assoc, List.append_assoc]
    exact tp.symm.append_left _
  obtain ⟨i1, i2, i3, i4, i5, i6, i7, i8⟩ := vmu_insert_inv c { S with lanes := T.1, post := T.2 } hp
  generalize insert c { S with lanes := T.1, post := T.2 } = I at *
  refine ⟨?_, i2, i3 (t3 (by omega)), ?_⟩
  · rw [i1, i6]
    show ledger S = List.range S.next
    rw [s1, s5, h1]
  · rw [i5]; exact s8 h4

theorem vmu_step_inv (c : Cfg) (s : St) (op : Op) (h : vmu_GInv c s) : vmu_GInv c (step c s op) := by
  cases op with
  | issue k p =>
    obtain ⟨h1, h2, h3, h4⟩ := h
    refine ⟨?_, h2, h3, h4⟩
    show ledger (issue s k p) = List.range (s.next + k)
    rw [List.range_add, ← h1]
    simp [ledger, issue, Function.comp_def]
  | cyc t =>
    obtain ⟨h1, h2, h3, h4⟩ := vmu_cycle_inv c s h
    refine ⟨h1, h2, h3, ?_⟩
    show ((cycle c s).out.drop t).length ≤ c.cap
    simp; omega

theorem vmu_run_inv (c : Cfg) : ∀ (ops : List Op) (s : St), vmu_GInv c s → vmu_GInv c (run c s ops)
  | [], s, h => h
  | op :: ops, s, h => by
    simp only [run, List.foldl_cons]
    exact vmu_run_inv c ops _ (vmu_step_inv c s op h)

theorem vmu_init_inv (c : Cfg) : vmu_GInv c (St.init c) := by
  have hp : pipeItems (List.replicate c.width (List.replicate c.stages (none : Option Nat))) = [] := by
    induction c.width with
    | zero => rfl
    | succ n ih =>
      rw [List.replicate_succ]
      simp only [pipeItems, List.flatMap_cons] at ih ⊢
      rw [ih, vmu_laneItems_replicate_none]; rfl
  refine ⟨by simp [ledger, St.init], ?_, by simp [St.init], by simp [St.init]⟩
  show ([] : List Nat).Perm ([] ++ [] ++ pipeItems (List.replicate c.width (List.replicate c.stages none)))
  rw [hp]; exact List.Perm.refl _

theorem vmu_inv (c : Cfg) (ops : List Op) : vmu_GInv c (run c (St.init c) ops) :=
  vmu_run_inv c ops _ (vmu_init_inv c)

/-- the repaired unit, any number of lanes: the requests reach the port in creation order, without gap -/
theorem vmu_sent_range (c : Cfg) (ops : List Op) :
    (run c (St.init c) ops).sent = List.range (run c (St.init c) ops).sent.length := by
  have h := (vmu_inv c ops).1
  unfold ledger at h
  rw [List.append_assoc] at h
  exact vmu_prefix_range _ _ _ h

theorem vmu_pipeItems_length (lanes : List (List (Option Nat))) :
    (pipeItems lanes).length = (lanes.map (fun l => (l.filter Option.isSome).length)).sum := by
  induction lanes with
  | nil => rfl
  | cons l ls ih =>
    simp only [pipeItems, List.flatMap_cons] at ih ⊢
    simp [ih, vmu_laneItems_length]

/-- any number of lanes: every transaction created is in exactly one place, `transactionsInOrder`
    lists exactly the transactions between pipeline entry and port, capacities are kept -/
theorem vmu_count (c : Cfg) (ops : List Op) :
    (run c (St.init c) ops).sent.length + (run c (St.init c) ops).aside.length + (run c (St.init c) ops).post.length +
      inPipe (run c (St.init c) ops) + (run c (St.init c) ops).waiting.length = (run c (St.init c) ops).next ∧
    (run c (St.init c) ops).inOrder.length =
      (run c (St.init c) ops).aside.length + (run c (St.init c) ops).post.length + inPipe (run c (St.init c) ops) ∧
    (run c (St.init c) ops).post.length ≤ c.buf ∧ (run c (St.init c) ops).out.length ≤ c.cap := by
  obtain ⟨h1, h2, h3, h4⟩ := vmu_inv c ops
  generalize run c (St.init c) ops = s at *
  have l1 := congrArg List.length h1
  have l2 := h2.length_eq
  simp only [ledger, held, List.length_append, List.length_range, List.length_map, vmu_pipeItems_length] at l1 l2
  refine ⟨?_, ?_, h3, h4⟩
  · simp only [inPipe]; omega
  · simp only [inPipe]; omega

/-! ## one lane: the repaired unit does, cycle by cycle, what the unit did before the repair -/

/-- the repaired unit `s` and the old unit `o` agree on everything the old unit has; nothing is set
    aside and `transactionsInOrder` is the post-pipeline buffer followed by the (single) lane -/
def vmu_Same (c : Cfg) (s o : St) : Prop :=
  s.waiting = o.waiting ∧ s.stall = o.stall ∧ s.lanes = o.lanes ∧ s.post = o.post ∧ s.out = o.out ∧
  s.sent = o.sent ∧ s.next = o.next ∧ s.aside = [] ∧ s.inOrder = s.post ++ pipeItems s.lanes ∧
  ∃ lane, s.lanes = [lane] ∧ lane.length = c.stages

theorem vmu_send_same (c : Cfg) : ∀ (n : Nat) (s o : St), vmu_Same c s o → vmu_Same c (send c n s) (Old.send c n o)
  | 0, s, o, h => by simpa [send, Old.send] using h
  | n + 1, s, o, h => by
    obtain ⟨h1, h2, h3, h4, h5, h6, h7, h8, h9, h10⟩ := h
    cases hP : s.post with
    | nil =>
      have eo : Old.send c (n + 1) o = o := Old.vmu_send_nil c _ o (h4 ▸ hP)
      have es : send c (n + 1) s = s := by
        cases hI : s.inOrder with
        | nil => simp [send, hI]
        | cons e older => simp [send, hI, h8, hP]
      rw [eo, es]; exact ⟨h1, h2, h3, h4, h5, h6, h7, h8, h9, h10⟩
    | cons e rest =>
      have hI : s.inOrder = e :: (rest ++ pipeItems s.lanes) := by rw [h9, hP]; rfl
      by_cases hl : s.out.length < c.cap
      · have es : send c (n + 1) s = send c n (sendH s e (rest ++ pipeItems s.lanes) rest) := by
          simp [send, hI, h8, hP, hl, sendH]
        have eo := Old.vmu_send_cons c n o e rest (h4 ▸ hP) (h5 ▸ hl)
        rw [es, eo]
        apply vmu_send_same
        exact ⟨h1, h2, h3, rfl, by simp [sendH, h5], by simp [sendH, h6], h7, h8, rfl, h10⟩
      · have es : send c (n + 1) s = s := by simp [send, hI, h8, hP, hl]
        have eo : Old.send c (n + 1) o = o := Old.vmu_send_full c _ o (h5 ▸ hl)
        rw [eo, es]; exact ⟨h1, h2, h3, h4, h5, h6, h7, h8, h9, h10⟩

theorem vmu_insertLoop_same (c : Cfg) : ∀ (fuel : Nat) (s o : St), vmu_Same c s o →
    vmu_Same c (insertLoop c fuel s) (Old.insertLoop c fuel o)
  | 0, s, o, h => by simpa [insertLoop, Old.insertLoop] using h
  | fuel + 1, s, o, h => by
    obtain ⟨h1, h2, h3, h4, h5, h6, h7, h8, h9, lane, h10, h11⟩ := h
    unfold insertLoop Old.insertLoop
    rw [← h1]
    cases hw : s.waiting with
    | nil => exact ⟨h1, h2, h3, h4, h5, h6, h7, h8, h9, lane, h10, h11⟩
    | cons ep rest =>
      obtain ⟨e, p⟩ := ep
      dsimp only
      rw [if_neg (fun hne => hne h8)]
      by_cases h0 : c.stages = 0
      · simp only [h0, if_true]
        have hl0 : lane = [] := List.eq_nil_of_length_eq_zero (h11.trans h0)
        rw [← h4]
        by_cases hlt : s.post.length < c.buf
        · simp only [hlt, if_true]
          have hs : vmu_Same c { s with waiting := rest, post := s.post ++ [e], inOrder := s.inOrder ++ [e] }
              { o with waiting := rest, post := s.post ++ [e] } := by
            refine ⟨rfl, h2, h3, rfl, h5, h6, h7, h8, ?_, lane, h10, h11⟩
            show s.inOrder ++ [e] = (s.post ++ [e]) ++ pipeItems s.lanes
            rw [h9, h10, hl0]; simp [pipeItems, vmu_laneItems_nil]
          by_cases hp : p > 0
          · simp only [hp, if_true]
            obtain ⟨a1, a2, a3, a4, a5, a6, a7, a8, a9, a10⟩ := hs
            exact ⟨a1, rfl, a3, a4, a5, a6, a7, a8, a9, a10⟩
          · simp only [hp, if_false]
            exact vmu_insertLoop_same c fuel _ _ hs
        · simp only [hlt, if_false]
          exact ⟨h1, h2, h3, h4, h5, h6, h7, h8, h9, lane, h10, h11⟩
      · simp only [h0, if_false]
        rw [← h3]
        cases hacc : accept e s.lanes with
        | none => exact ⟨h1, h2, h3, h4, h5, h6, h7, h8, h9, lane, h10, h11⟩
        | some lanes =>
          simp only []
          rw [h10] at hacc
          obtain ⟨tl, q1, q2⟩ := vmu_accept_single e lane lanes hacc
          have hs : vmu_Same c { s with waiting := rest, lanes := lanes, inOrder := s.inOrder ++ [e] }
              { o with waiting := rest, lanes := lanes } := by
            refine ⟨rfl, h2, rfl, h4, h5, h6, h7, h8, ?_, some e :: tl, q2, ?_⟩
            · show s.inOrder ++ [e] = s.post ++ pipeItems lanes
              rw [h9, h10, q2, q1]
              simp [vmu_pipeItems_single, vmu_laneItems_cons]
            · rw [← h11, q1]; rfl
          by_cases hp : p > 0
          · simp only [hp, if_true]
            obtain ⟨a1, a2, a3, a4, a5, a6, a7, a8, a9, a10⟩ := hs
            exact ⟨a1, rfl, a3, a4, a5, a6, a7, a8, a9, a10⟩
          · simp only [hp, if_false]
            exact vmu_insertLoop_same c fuel _ _ hs

theorem vmu_cycle_same (c : Cfg) (s o : St) (h : vmu_Same c s o) : vmu_Same c (cycle c s) (Old.cycle c o) := by
  show vmu_Same c (insert c { send c c.burst s with
      lanes := (tick c.buf (send c c.burst s).lanes (send c c.burst s).post).1,
      post := (tick c.buf (send c c.burst s).lanes (send c c.burst s).post).2 })
    (Old.insert c { Old.send c c.burst o with
      lanes := (tick c.buf (Old.send c c.burst o).lanes (Old.send c c.burst o).post).1,
      post := (tick c.buf (Old.send c c.burst o).lanes (Old.send c c.burst o).post).2 })
  obtain ⟨h1, h2, h3, h4, h5, h6, h7, h8, h9, lane, h10, h11⟩ := vmu_send_same c c.burst s o h
  generalize send c c.burst s = S at *
  generalize Old.send c c.burst o = O at *
  rw [← h3, ← h4]
  have ht : vmu_Same c { S with lanes := (tick c.buf S.lanes S.post).1, post := (tick c.buf S.lanes S.post).2 }
      { O with lanes := (tick c.buf S.lanes S.post).1, post := (tick c.buf S.lanes S.post).2 } := by
    refine ⟨h1, h2, rfl, rfl, h5, h6, h7, h8, ?_, (laneTick c.buf lane S.post).1, ?_, ?_⟩
    · show S.inOrder = (tick c.buf S.lanes S.post).2 ++ pipeItems (tick c.buf S.lanes S.post).1
      rw [h9, h10, vmu_tick_single, vmu_pipeItems_single, vmu_pipeItems_single]
      exact ((vmu_laneTick_facts c.buf lane S.post).1).symm
    · show (tick c.buf S.lanes S.post).1 = _
      rw [h10, vmu_tick_single]
    · exact ((vmu_laneTick_facts c.buf lane S.post).2.1).trans h11
  generalize ({ S with lanes := (tick c.buf S.lanes S.post).1, post := (tick c.buf S.lanes S.post).2 } : St) = S' at *
  generalize ({ O with lanes := (tick c.buf S.lanes S.post).1, post := (tick c.buf S.lanes S.post).2 } : St) = O' at *
  unfold insert Old.insert
  obtain ⟨k1, k2, k3, k4, k5, k6, k7, k8, k9, k10⟩ := ht
  by_cases hst : S'.stall > 0
  · rw [if_pos hst, if_pos (k2 ▸ hst)]
    exact ⟨k1, by simp [k2], k3, k4, k5, k6, k7, k8, k9, k10⟩
  · rw [if_neg hst, if_neg (k2 ▸ hst), ← k1]
    exact vmu_insertLoop_same c _ _ _ ⟨k1, k2, k3, k4, k5, k6, k7, k8, k9, k10⟩

theorem vmu_step_same (c : Cfg) (s o : St) (op : Op) (h : vmu_Same c s o) :
    vmu_Same c (step c s op) (Old.step c o op) := by
  cases op with
  | issue k p =>
    obtain ⟨h1, h2, h3, h4, h5, h6, h7, h8, h9, h10⟩ := h
    exact ⟨by simp [step, Old.step, issue, h1, h7], h2, h3, h4, h5, h6, by simp [step, Old.step, issue, h7], h8, h9, h10⟩
  | cyc t =>
    obtain ⟨h1, h2, h3, h4, h5, h6, h7, h8, h9, h10⟩ := vmu_cycle_same c s o h
    exact ⟨h1, h2, h3, h4, by simp [step, Old.step, take, h5], h6, h7, h8, h9, h10⟩

theorem vmu_run_same (c : Cfg) : ∀ (ops : List Op) (s o : St), vmu_Same c s o →
    vmu_Same c (run c s ops) (Old.run c o ops)
  | [], s, o, h => h
  | op :: ops, s, o, h => by
    simp only [run, Old.run, List.foldl_cons]
    exact vmu_run_same c ops _ _ (vmu_step_same c s o op h)

theorem vmu_init_same (c : Cfg) (hw : c.width = 1) : vmu_Same c (St.init c) (St.init c) := by
  refine ⟨rfl, rfl, rfl, rfl, rfl, rfl, rfl, rfl, ?_, List.replicate c.stages none, by simp [St.init, hw], by simp⟩
  simp [St.init, hw, pipeItems, vmu_laneItems_replicate_none]

/-! ## the storage for transactions set aside is bounded -/

/-- every lane has `n` stages -/
def vmu_ShapeL (n : Nat) (lanes : List (List (Option Nat))) : Prop := ∀ l ∈ lanes, l.length = n

theorem vmu_tick_shape (b n : Nat) : ∀ (lanes : List (List (Option Nat))) (post : List Nat),
    vmu_ShapeL n lanes → vmu_ShapeL n (tick b lanes post).1
  | [], post, _ => by simp [tick, vmu_ShapeL]
  | l :: ls, post, h => by
    intro x hx
    simp only [tick, List.mem_cons] at hx
    rcases hx with rfl | hx
    · rw [(vmu_laneTick_facts b l post).2.1]; exact h l (List.mem_cons_self ..)
    · exact vmu_tick_shape b n ls _ (fun y hy => h y (List.mem_cons_of_mem _ hy)) x hx

theorem vmu_accept_shape (e n : Nat) : ∀ (lanes lanes' : List (List (Option Nat))),
    accept e lanes = some lanes' → vmu_ShapeL n lanes → vmu_ShapeL n lanes'
  | [], lanes', h, _ => by simp [accept] at h
  | [] :: ls, lanes', h, hs => by
    simp only [accept, Option.map_eq_some_iff] at h
    obtain ⟨a, ha, rfl⟩ := h
    intro x hx
    rcases List.mem_cons.mp hx with rfl | hx
    · exact hs _ (List.mem_cons_self ..)
    · exact vmu_accept_shape e n ls a ha (fun y hy => hs y (List.mem_cons_of_mem _ hy)) x hx
  | (none :: tl) :: ls, lanes', h, hs => by
    simp only [accept, Option.some.injEq] at h
    subst h
    intro x hx
    rcases List.mem_cons.mp hx with rfl | hx
    · have := hs (none :: tl) (List.mem_cons_self ..); simpa using this
    · exact hs x (List.mem_cons_of_mem _ hx)
  | (some y :: tl) :: ls, lanes', h, hs => by
    simp only [accept, Option.map_eq_some_iff] at h
    obtain ⟨a, ha, rfl⟩ := h
    intro x hx
    rcases List.mem_cons.mp hx with rfl | hx
    · exact hs _ (List.mem_cons_self ..)
    · exact vmu_accept_shape e n ls a ha (fun y hy => hs y (List.mem_cons_of_mem _ hy)) x hx

theorem vmu_pipeItems_le (n : Nat) : ∀ (lanes : List (List (Option Nat))), vmu_ShapeL n lanes →
    (pipeItems lanes).length ≤ lanes.length * n
  | [], _ => by simp [pipeItems]
  | l :: ls, h => by
    have ih := vmu_pipeItems_le n ls (fun y hy => h y (List.mem_cons_of_mem _ hy))
    have hl := h l (List.mem_cons_self ..)
    have hf : (laneItems l).length ≤ l.length := by
      rw [vmu_laneItems_length]; exact List.length_filter_le _ _
    simp only [pipeItems, List.flatMap_cons, List.length_append, List.length_cons] at ih ⊢
    rw [Nat.add_mul]; omega

theorem vmu_insertLoop_shape (c : Cfg) : ∀ (fuel : Nat) (s : St), vmu_ShapeL c.stages s.lanes →
    vmu_ShapeL c.stages (insertLoop c fuel s).lanes
  | 0, s, h => by simpa [insertLoop] using h
  | fuel + 1, s, h => by
    unfold insertLoop
    split
    · exact h
    · split
      · exact h
      · split
        · split
          · split
            · exact h
            · exact vmu_insertLoop_shape c fuel _ h
          · exact h
        · split
          · exact h
          · rename_i lanes hacc
            have h' := vmu_accept_shape _ c.stages _ _ hacc h
            split
            · exact h'
            · exact vmu_insertLoop_shape c fuel _ h'

theorem vmu_insertLoop_blocked (c : Cfg) (fuel : Nat) (s : St) (h : s.aside ≠ []) : insertLoop c fuel s = s := by
  cases fuel with
  | zero => rfl
  | succ n =>
    unfold insertLoop
    split
    · rfl
    · rw [if_pos h]

/-- lanes × stages, and the bound on `transactionsInOrder` -/
def vmu_BInv (c : Cfg) (s : St) : Prop :=
  s.lanes.length = c.width ∧ vmu_ShapeL c.stages s.lanes ∧ s.inOrder.length ≤ c.buf + c.width * c.stages

theorem vmu_insert_blocked (c : Cfg) (s : St) (h : s.aside ≠ []) : (insert c s).inOrder = s.inOrder := by
  unfold insert
  split
  · rfl
  · rw [vmu_insertLoop_blocked c _ s h]

theorem vmu_cycle_bound (c : Cfg) (s : St) (hg : vmu_GInv c s) (hb : vmu_BInv c s) : vmu_BInv c (cycle c s) := by
  have hgc := vmu_cycle_inv c s hg
  obtain ⟨b1, b2, b3⟩ := hb
  revert hgc
  show vmu_GInv c (insert c { send c c.burst s with
    lanes := (tick c.buf (send c c.burst s).lanes (send c c.burst s).post).1,
    post := (tick c.buf (send c c.burst s).lanes (send c c.burst s).post).2 }) →
    vmu_BInv c (insert c { send c c.burst s with
    lanes := (tick c.buf (send c c.burst s).lanes (send c c.burst s).post).1,
    post := (tick c.buf (send c c.burst s).lanes (send c c.burst s).post).2 })
  obtain ⟨s1, s2, s3, s4, s5, s6, s7, s8, s9⟩ := vmu_send_inv c c.burst s hg.2.1
  generalize send c c.burst s = S at *
  have tshape := vmu_tick_shape c.buf c.stages S.lanes S.post (s3 ▸ b2)
  have tlen := (vmu_tick_facts c.buf S.lanes S.post).2.1
  have tp := vmu_tick_perm c.buf S.lanes S.post
  generalize tick c.buf S.lanes S.post = T at *
  have hp : ({ S with lanes := T.1, post := T.2 } : St).inOrder.Perm (held { S with lanes := T.1, post := T.2 }) := by
    show S.inOrder.Perm (S.aside ++ T.2 ++ pipeItems T.1)
    refine s2.trans ?_
    show (S.aside ++ S.post ++ pipeItems S.lanes).Perm _
    rw [List.append_assoc, List.append_assoc]
    exact tp.symm.append_left _
  obtain ⟨i1, i2, i3, i4, i5, i6, i7, i8⟩ := vmu_insert_inv c { S with lanes := T.1, post := T.2 } hp
  have ishape : vmu_ShapeL c.stages (insert c { S with lanes := T.1, post := T.2 }).lanes := by
    unfold insert
    split
    · exact tshape
    · exact vmu_insertLoop_shape c _ _ tshape
  have hbl : S.aside ≠ [] → (insert c { S with lanes := T.1, post := T.2 }).inOrder = S.inOrder :=
    fun h => vmu_insert_blocked c { S with lanes := T.1, post := T.2 } h
  generalize insert c { S with lanes := T.1, post := T.2 } = I at *
  intro hgc
  have ilen : I.lanes.length = c.width := by
    rw [i7]; show T.1.length = c.width
    rw [tlen, s3, b1]
  refine ⟨ilen, ishape, ?_⟩
  by_cases ha : S.aside = []
  · have hI : I.aside = [] := i8.trans ha
    have hl := hgc.2.1.length_eq
    have hpl := vmu_pipeItems_le c.stages I.lanes ishape
    have hpost := hgc.2.2.1
    simp only [held, hI, List.nil_append, List.length_append] at hl
    rw [ilen] at hpl
    omega
  · rw [hbl ha]; omega

theorem vmu_step_bound (c : Cfg) (s : St) (op : Op) (hg : vmu_GInv c s) (hb : vmu_BInv c s) :
    vmu_BInv c (step c s op) := by
  cases op with
  | issue k p => exact hb
  | cyc t => exact vmu_cycle_bound c s hg hb

theorem vmu_run_bound (c : Cfg) : ∀ (ops : List Op) (s : St), vmu_GInv c s → vmu_BInv c s → vmu_BInv c (run c s ops)
  | [], s, _, h => h
  | op :: ops, s, hg, h => by
    simp only [run, List.foldl_cons]
    exact vmu_run_bound c ops _ (vmu_step_inv c s op hg) (vmu_step_bound c s op hg h)

theorem vmu_init_bound (c : Cfg) : vmu_BInv c (St.init c) := by
  refine ⟨by simp [St.init], ?_, by simp [St.init]⟩
  intro l hl
  simp only [St.init] at hl
  rw [List.eq_of_mem_replicate hl]; simp

/-- the bookkeeping list — hence the storage for transactions set aside — never holds more than
    post-pipeline buffer + lanes × stages transactions -/
theorem vmu_bound (c : Cfg) (ops : List Op) :
    (run c (St.init c) ops).inOrder.length ≤ c.buf + c.width * c.stages ∧
    (run c (St.init c) ops).aside.length ≤ c.buf + c.width * c.stages := by
  have hb := (vmu_run_bound c ops _ (vmu_init_inv c) (vmu_init_bound c)).2.2
  have hc := (vmu_count c ops).2.1
  omega

end C14.Vmu
