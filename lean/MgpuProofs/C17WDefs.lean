import MgpuProofs.C17Sem
/-! C17, every pipeline width: definitions for the model of the repaired component (`WBank`, `WState`, `tickW`, `runW`
in `MgpuModel/C17.lean`) — what is in flight for a bank, in which order, and the invariant that replaces the width-1 FIFO
chain. With several lanes the *position* of an item (lane, stage) says nothing about its age; the order is carried by
`WBank.order` (`bank.inOrder` in Go) and the invariant ties the bag of items to it. -/
namespace C17

/-- every item that entered the bank pipeline and is not yet answered (a bag: the order of this list means nothing) -/
def wItems (b : WBank) : List Item := b.post ++ b.lanes.flatMap laneItems ++ b.early

/-- is some item of the bank committed (storage access done) but not yet answered (the port was full)? -/
def hasC (b : WBank) : Bool := (wItems b).any (·.committed)

/-- the requests of a bank in flight behind the Top port, oldest first: entered the pipeline, then the delay queue -/
def wBankReqs (b : WBank) : List Req := b.order ++ b.dq.map (·.1.req)

/-- … those of them that are not yet committed -/
def wBankUnc (b : WBank) : List Req := (if hasC b then b.order.drop 1 else b.order) ++ b.dq.map (·.1.req)

def wBankChain (bs : List WBank) (k : Nat) : List Req := match bs[k]? with
  | some b => wBankReqs b
  | none => []

def wBankUncAt (bs : List WBank) (k : Nat) : List Req := match bs[k]? with
  | some b => wBankUnc b
  | none => []

/-- everything in flight for bank `k`, oldest first: pipeline/post/set aside (by `order`), delay queue, pending, port -/
def chainW (c : Cfg) (s : WState) (k : Nat) : List Req :=
  wBankChain s.banks k ++ (s.pending ++ s.topIn).filter (inB c k)

/-- the not yet committed requests of bank `k`, oldest first; its head is the request that commits next -/
def uncW (c : Cfg) (s : WState) (k : Nat) : List Req :=
  wBankUncAt s.banks k ++ (s.pending ++ s.topIn).filter (inB c k)

/-- per-bank part of the invariant -/
structure BankOk (c : Cfg) (b : WBank) : Prop where
  /-- the requests of the items in pipeline / post buffer / set aside are exactly `order` (as a bag) -/
  perm : ((wItems b).map (·.req)).Perm b.order
  /-- only the oldest request can be committed-but-unanswered -/
  comm : ∀ it ∈ wItems b, it.committed = true → b.order.head? = some it.req
  /-- what waits in the delay queue is untouched -/
  dqf : ∀ p ∈ b.dq, p.1.committed = false
  /-- the delay queue is only used with row-buffer timing -/
  norow : ¬ rowMode c → b.dq = []

/-- commits of bank `k` followed by its uncommitted in-flight requests = arrivals for bank `k` -/
def IW (c : Cfg) (s : WState) (k : Nat) : Prop :=
  (s.log.filter (inB c k)).reverse ++ uncW c s k = s.arrived.filter (inB c k)

/-- responses for bank `k` followed by what is still in flight = arrivals for bank `k` -/
def RW (c : Cfg) (s : WState) (k : Nat) : Prop :=
  (s.resp.map (·.req)).filter (inB c k) ++ chainW c s k = s.arrived.filter (inB c k)

structure InvW (c : Cfg) (s : WState) : Prop where
  ok : ∀ b ∈ s.banks, BankOk c b
  i : ∀ k, IW c s k
  r : ∀ k, RW c s k
  ids : s.arrived.map (·.id) = List.range s.arrived.length

theorem hasC_iff (b : WBank) : hasC b = true ↔ ∃ it ∈ wItems b, it.committed = true := by
  simp [hasC, List.any_eq_true]

end C17
