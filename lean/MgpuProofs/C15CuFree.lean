import MgpuProofs.C15CuProj
import MgpuProofs.C15CuIds
/-! # C15 ∘ C14 — the part of C14's invariant that does not depend on which request IDs the responses
name, proved for the compute unit of EVERY legal composed run (no `SentNames`)

C14's invariant `C14.Flush.Inv` contains "every response in the port names a request that was sent"
(`ChanOK.inpSent`), which the real ROB can break (`unsent_name_witness`), so it can only be had in
the composition under `SentNames`. But what `rob_discards_only_what_the_cu_saved` needs is less:
the protocol part `PM` (flags, `ToCP` buffers, the command processor's state — control only) and,
of the scalar path, "paused ⇒ nothing queued", "paused and not re-sending ⇒ nothing in flight" and
"every record created is answered, in flight or saved". None of these reads a request ID: a
response under ANY name either removes a record from the in-flight list and appends it to `applied`
or does nothing. `Lite` is that part; it is preserved by every event of the compute unit that is
legal as far as the command processor's protocol and `runPipeline` are concerned (`LegalL`). -/
namespace C15.Cu
open C14.Flush

/-- the ID-independent part of `ChanOK` (`p` = `isPaused`, `q` = `isSending`) -/
structure SL (ch : Chan) (p q : Bool) : Prop where
  unitP : p = true → ch.unit = []
  idle : p = true → q = false → ch.inf = []
  cons : (chanIds ch).Perm ch.issued
  /-- the records saved by the last flush: those already re-sent, then those still waiting, in order -/
  resentEq : ch.resent ++ ids ch.sh = ch.flushed
  /-- the unit runs only when nothing is left in the shadow list -/
  runningSh : p = false → ch.sh = []

/-- inside a tick -/
def LiteM (s : C14.Flush.St) : Prop := PM s ∧ SL s.s s.isPaused s.isSending

/-- between two events -/
def Lite (s : C14.Flush.St) : Prop := LiteM s ∧ s.isFlushing = false

theorem Lite_init : Lite C14.Flush.St.init := by
  refine ⟨⟨?_, ?_⟩, rfl⟩
  · simp [PM, C14.Flush.St.init]
  · exact ⟨fun _ => rfl, fun _ _ => rfl, by simp [chanIds, C14.Flush.St.init, Chan.empty, ids], rfl, fun _ => rfl⟩

/-! ## channel operations -/

theorem respond_issued (ch : Chan) (r : C14.Flush.Req) : (ch.respond r).1.issued = ch.issued := by
  unfold Chan.respond; split <;> rfl

theorem SL.respond {ch : Chan} {p q : Bool} (h : SL ch p q) (r : C14.Flush.Req) : SL (ch.respond r).1 p q := by
  refine ⟨?_, ?_, ?_, ?_, ?_⟩
  rotate_left 3
  · have hk := respond_keeps ch r
    rw [hk.1, hk.2.2.2.1, hk.2.2.2.2.1]; exact h.resentEq
  · intro hp; rw [(respond_keeps ch r).1]; exact h.runningSh hp
  · intro hp; rw [(respond_keeps ch r).2.2.2.2.2]; exact h.unitP hp
  · intro hp hq
    have hi := h.idle hp hq
    unfold Chan.respond
    rw [hi]; simp only [List.find?_nil]; exact hi
  · rw [respond_issued]; exact (chanIds_respond ch r).trans h.cons

theorem SL.setInp {ch : Chan} {p q : Bool} (h : SL ch p q) (l : List C14.Flush.Req) : SL { ch with inp := l } p q :=
  ⟨h.unitP, h.idle, h.cons, h.resentEq, h.runningSh⟩

theorem SL.flush {ch : Chan} {p q : Bool} (h : SL ch p q) : SL ch.flush true false :=
  ⟨fun _ => rfl, fun _ _ => rfl, (chanIds_flush ch).trans h.cons, rfl, fun hp => (by cases hp)⟩

theorem SL.reinsertFlush {ch : Chan} {p q : Bool} (h : SL ch p q) : SL ch.reinsert.flush true false := by
  refine ⟨fun _ => rfl, fun _ _ => rfl, (chanIds_flush ch.reinsert).trans ?_, rfl, fun hp => (by cases hp)⟩
  rw [chanIds_reinsert]; exact h.cons

theorem drain_unit (ch : Chan) (cap : Nat) : (ch.drain cap).unit = ch.unit := by
  unfold Chan.drain
  rcases ch.sh with _ | ⟨e, rest⟩
  · rfl
  · simp only; split <;> rfl

theorem drain_issued (ch : Chan) (cap : Nat) : (ch.drain cap).issued = ch.issued := by
  unfold Chan.drain
  rcases ch.sh with _ | ⟨e, rest⟩
  · rfl
  · simp only; split <;> rfl

theorem SL.drain {ch : Chan} (h : SL ch true true) (cap : Nat) : SL (ch.drain cap) true true := by
  refine ⟨?_, ?_, ?_, ?_, fun hp => (by cases hp)⟩
  · intro hp; rw [drain_unit]; exact h.unitP hp
  · intro _ hq; cases hq
  · rw [drain_issued, chanIds_drain]; exact h.cons
  · have hr := h.resentEq
    unfold Chan.drain
    rcases hsh : ch.sh with _ | ⟨e, rest⟩
    · simp only; rw [hsh]; rw [hsh] at hr; exact hr
    · rw [hsh] at hr
      simp only
      split
      · simpa [ids] using hr
      · simpa [ids] using hr

theorem SL.resume {ch : Chan} {p q : Bool} (h : SL ch p q) (hsh : ch.sh = []) : SL ch false false :=
  ⟨fun hp => (by cases hp), fun hp => (by cases hp), h.cons, h.resentEq, fun _ => hsh⟩

theorem SL.startSending {ch : Chan} {p q : Bool} (h : SL ch p q) : SL ch p true :=
  ⟨h.unitP, fun _ hq => (by cases hq), h.cons, h.resentEq, h.runningSh⟩

theorem SL.issueQ {ch : Chan} {q : Bool} (h : SL ch false q) (es : List Entry) : SL (ch.issueQ es) false q := by
  refine ⟨fun hp => (by cases hp), fun hp => (by cases hp), ?_, h.resentEq, h.runningSh⟩
  show (ch.applied ++ ids (ch.inf ++ es ++ ch.sh)).Perm (ch.issued ++ ids es)
  rw [ids_append, ids_append]
  refine (perm_ins _ _ _ _).trans (List.Perm.append_right _ ?_)
  have := h.cons
  unfold chanIds at this
  rw [ids_append] at this
  exact this

theorem SL.usend {ch : Chan} {p q : Bool} (h : SL ch p q) (cap n : Nat) : SL (ch.usend cap n).1 p q := by
  refine ⟨?_, h.idle, h.cons, h.resentEq, h.runningSh⟩
  intro hp
  show ch.unit.drop _ = []
  rw [h.unitP hp]; simp

theorem SL.deliver {ch : Chan} {p q : Bool} (h : SL ch p q) (cap : Nat) (r : C14.Flush.Req) : SL (ch.deliver cap r).1 p q := by
  unfold Chan.deliver
  split
  · exact ⟨h.unitP, h.idle, h.cons, h.resentEq, h.runningSh⟩
  · exact h

/-! ## the stages of a tick -/

theorem LiteM.of_ctl {s s' : C14.Flush.St} (h : LiteM s) (hctl : ctl s' = ctl s)
    (hs : SL s'.s s.isPaused s.isSending) : LiteM s' := by
  have hf := ctl_flags hctl
  refine ⟨PM_congr hctl h.1, ?_⟩
  rw [hf.1, hf.2]; exact hs

theorem sendToCP_LiteM (c : C14.Flush.Cfg) {s : C14.Flush.St} (h : LiteM s) : LiteM (sendToCP c s) := by
  obtain ⟨hp, hs⟩ := h
  unfold sendToCP
  split
  · rename_i hcond
    refine ⟨?_, hs⟩
    unfold PM at hp ⊢
    obtain ⟨h1, h2, h3, h4, h5⟩ := hp
    refine ⟨h1, h2, h3, h4, ?_⟩
    simp only [hcond.1] at h5
    rcases h5 with h5 | h5 | h5 | h5 | h5 | h5 | h5 | h5 <;> simp_all
  · exact ⟨hp, hs⟩

theorem procF_LiteM {s : C14.Flush.St} (h : LiteM s) : LiteM (procF s) := by
  refine h.of_ctl (ctl_procF s) ?_
  unfold procF
  split
  · exact h.2
  · exact h.2

theorem procS_LiteM {s : C14.Flush.St} (h : LiteM s) : LiteM (procS s) := by
  refine h.of_ctl (ctl_procS s) ?_
  unfold procS
  rcases hinp : s.s.inp with _ | ⟨r, rest⟩
  · exact h.2
  · simp only
    have hr := (h.2.setInp rest).respond r
    rcases hres : ({ s.s with inp := rest } : Chan).respond r with ⟨ch, _ | e⟩ <;> rw [hres] at hr
    · exact hr
    · exact hr

theorem procV1_LiteM {s : C14.Flush.St} (h : LiteM s) : LiteM (procV1 s) := by
  refine h.of_ctl (ctl_procV1 s) ?_
  unfold procV1
  rcases hinp : s.v.inp with _ | ⟨r, rest⟩
  · exact h.2
  · simp only
    rcases ({ s.v with inp := rest } : Chan).respond r with ⟨ch, _ | e⟩
    · exact h.2
    · exact h.2

theorem procV_LiteM (n : Nat) {s : C14.Flush.St} (h : LiteM s) : LiteM (procV n s) := by
  induction n generalizing s with
  | zero => exact h
  | succ n ih => exact ih (procV1_LiteM h)

theorem procCP_LiteM (c : C14.Flush.Cfg) (hcap : 0 < c.capCP) {s : C14.Flush.St} (h : LiteM s) (hnf : s.isFlushing = false) :
    LiteM (procCP c s) := by
  obtain ⟨hp, hs⟩ := h
  unfold procCP
  rcases hin : s.cpIn with _ | ⟨m, rest⟩
  · exact ⟨hp, hs⟩
  · obtain ⟨p1, p2, p3, p4, p5⟩ := hp
    cases m with
    | flush =>
      simp only
      have hcase : s.cp = .flushSent ∧ rest = [] ∧ s.cpOut = [] ∧ s.ackPending = false ∧
          (s.isPaused = true → s.isSending = true) := by
        rcases p5 with h5 | h5 | h5 | h5 | h5 | h5 | h5 | h5 <;> simp_all
      obtain ⟨c1, c2, c3, c4, c5⟩ := hcase
      subst c2
      refine ⟨?_, hs⟩
      refine ⟨p1, p2, rfl, p4, ?_⟩
      exact Or.inr (Or.inr (Or.inl ⟨c1, rfl, c3, c4, rfl, c5⟩))
    | restart =>
      have hcase : s.cp = .restartSent ∧ rest = [] ∧ s.cpOut = [] ∧ s.ackPending = false ∧
          s.isPaused = true ∧ s.isSending = false := by
        rcases p5 with h5 | h5 | h5 | h5 | h5 | h5 | h5 | h5 <;> simp_all
      obtain ⟨c1, c2, c3, c4, c5, c6⟩ := hcase
      subst c2
      have hroom : s.cpOut.length < c.capCP := by rw [c3]; exact hcap
      simp only [hroom, if_true]
      refine ⟨?_, hs.startSending⟩
      refine ⟨p1, p2, p3, fun _ => c5, ?_⟩
      refine Or.inr (Or.inr (Or.inr (Or.inr (Or.inr (Or.inr (Or.inr ⟨c1, rfl, ?_, c4, hnf, fun _ => rfl⟩))))))
      simp [c3]

theorem processInput_LiteM (c : C14.Flush.Cfg) (hcap : 0 < c.capCP) {s : C14.Flush.St} (h : LiteM s)
    (hnf : s.isFlushing = false) : LiteM (processInput c s) := by
  unfold processInput
  refine procCP_LiteM c hcap ?_ ?_
  · split
    · exact procV_LiteM 16 (procS_LiteM (procF_LiteM h))
    · exact h
  · have := ctl_memIn s
    simp only [ctl, Prod.mk.injEq] at this
    rw [this.1]; exact hnf

theorem doFlush_Lite (c : C14.Flush.Cfg) {s : C14.Flush.St} (h : LiteM s) : Lite (doFlush c s) := by
  obtain ⟨hp, hs⟩ := h
  obtain ⟨p1, p2, p3, p4, p5⟩ := hp
  unfold doFlush
  by_cases hfl : s.isFlushing = true
  · have hcase : s.cp = .flushSent ∧ s.cpIn = [] ∧ s.cpOut = [] ∧ s.ackPending = false ∧
        (s.isPaused = true → s.isSending = true) := by
      rcases p5 with h5 | h5 | h5 | h5 | h5 | h5 | h5 | h5 <;> simp_all
    obtain ⟨c1, c2, c3, c4, c5⟩ := hcase
    have hreq : s.flushReq = true := by rw [p3]; exact hfl
    simp only [hfl, if_true]
    by_cases hsd : s.isSending = true
    · simp only [hsd, if_true, flushPipeline, reinsert, hreq, p1, Bool.not_true, Bool.false_eq_true, if_false, c4]
      refine ⟨⟨?_, hs.reinsertFlush⟩, rfl⟩
      refine ⟨rfl, p2, rfl, by simp, ?_⟩
      exact Or.inr (Or.inr (Or.inr (Or.inl ⟨c1, c2, c3, rfl, rfl, rfl, rfl⟩)))
    · have hsd' : s.isSending = false := by simpa using hsd
      simp only [hsd', Bool.false_eq_true, if_false, flushPipeline, hreq, p1, Bool.not_true, c4]
      refine ⟨⟨?_, hs.flush⟩, rfl⟩
      refine ⟨rfl, p2, rfl, by simp, ?_⟩
      exact Or.inr (Or.inr (Or.inr (Or.inl ⟨c1, c2, c3, rfl, rfl, rfl, rfl⟩)))
  · have hfl' : s.isFlushing = false := by simpa using hfl
    simp only [hfl', Bool.false_eq_true, if_false]
    by_cases hsd : s.isSending = true
    · have hpa : s.isPaused = true := p4 hsd
      simp only [hsd, if_true]
      rw [hpa, hsd] at hs
      unfold checkShadow
      split
      · rename_i hz
        refine ⟨⟨?_, hs.resume (List.eq_nil_of_length_eq_zero (by omega))⟩, hfl'⟩
        refine ⟨p1, p2, p3, by simp, ?_⟩
        rcases p5 with h5 | h5 | h5 | h5 | h5 | h5 | h5 | h5 <;> simp_all
      · refine ⟨⟨⟨p1, p2, p3, p4, p5⟩, ?_⟩, hfl'⟩
        show SL (s.s.drain c.capS) s.isPaused s.isSending
        rw [hpa, hsd]; exact hs.drain _
    · have hsd' : s.isSending = false := by simpa using hsd
      simp only [hsd', Bool.false_eq_true, if_false]
      exact ⟨⟨⟨p1, p2, p3, p4, p5⟩, hs⟩, hfl'⟩

theorem tick_Lite (c : C14.Flush.Cfg) (hcap : 0 < c.capCP) {s : C14.Flush.St} (h : Lite s) : Lite (C14.Flush.tick c s) := by
  unfold C14.Flush.tick
  refine doFlush_Lite c (processInput_LiteM c hcap (sendToCP_LiteM c h.1) ?_)
  unfold sendToCP; split <;> exact h.2

/-! ## every event -/

/-- what the environment must respect for `Lite`: `runPipeline` is skipped while the compute unit is
    paused, the command processor sends a flush only when idle and a restart only after the
    acknowledgement. NO condition on the responses. -/
def LegalL (s : C14.Flush.St) : C14.Flush.Op → Prop
  | .issS _ _ => s.isPaused = false
  | .cpFlush => s.cp = .idle
  | .cpRestart => s.cp = .acked
  | _ => True

theorem step_Lite (c : C14.Flush.Cfg) (hcap : 0 < c.capCP) {s : C14.Flush.St} (h : Lite s) (o : C14.Flush.Op) (hl : LegalL s o) :
    Lite (C14.Flush.step c s o) := by
  have hnf : s.fault = false := h.1.1.2.1
  unfold C14.Flush.step
  rw [if_neg (by rw [hnf]; decide)]
  obtain ⟨⟨hpm, hs⟩, hfl⟩ := h
  cases o with
  | issS w n =>
    have hp : s.isPaused = false := hl
    simp only [C14.Flush.issS]
    split
    · exact ⟨⟨hpm, hs⟩, hfl⟩
    · rw [hp] at hs
      refine ⟨LiteM.of_ctl ⟨hpm, ?_⟩ rfl ?_, hfl⟩
      · rw [hp]; exact hs
      · show SL (s.s.issueQ _) s.isPaused s.isSending
        rw [hp]; exact hs.issueQ _
  | issV w n =>
    simp only [C14.Flush.issV]
    split
    · exact ⟨⟨hpm, hs⟩, hfl⟩
    · exact ⟨LiteM.of_ctl ⟨hpm, hs⟩ rfl hs, hfl⟩
  | fetch w =>
    simp only [C14.Flush.fetch]
    split
    · exact ⟨LiteM.of_ctl ⟨hpm, hs⟩ rfl hs, hfl⟩
    · exact ⟨⟨hpm, hs⟩, hfl⟩
  | usendS => exact ⟨LiteM.of_ctl ⟨hpm, hs⟩ rfl (hs.usend _ _), hfl⟩
  | usendV n => exact ⟨LiteM.of_ctl ⟨hpm, hs⟩ rfl hs, hfl⟩
  | deliver k i g =>
    cases k with
    | f => exact ⟨LiteM.of_ctl ⟨hpm, hs⟩ rfl hs, hfl⟩
    | s => exact ⟨LiteM.of_ctl ⟨hpm, hs⟩ rfl (hs.deliver _ _), hfl⟩
    | v => exact ⟨LiteM.of_ctl ⟨hpm, hs⟩ rfl hs, hfl⟩
    | c => exact ⟨⟨hpm, hs⟩, hfl⟩
  | cpFlush =>
    obtain ⟨p1, p2, p3, p4, p5⟩ := hpm
    have hl' : s.cp = .idle := hl
    have hcase : s.cpIn = [] ∧ s.cpOut = [] ∧ s.ackPending = false ∧ (s.isPaused = true → s.isSending = true) := by
      rcases p5 with h5 | h5 | h5 | h5 | h5 | h5 | h5 | h5 <;> simp_all
    obtain ⟨c1, c2, c3, c4⟩ := hcase
    have hroom : s.cpIn.length < c.capCP := by rw [c1]; exact hcap
    simp only [hroom, if_true, hl']
    refine ⟨⟨⟨p1, p2, p3, p4, ?_⟩, hs⟩, hfl⟩
    exact Or.inr (Or.inl ⟨rfl, by simp [c1], c2, c3, hfl, c4⟩)
  | cpRestart =>
    obtain ⟨p1, p2, p3, p4, p5⟩ := hpm
    have hl' : s.cp = .acked := hl
    have hcase : s.cpIn = [] ∧ s.cpOut = [] ∧ s.ackPending = false ∧ s.isPaused = true ∧ s.isSending = false := by
      rcases p5 with h5 | h5 | h5 | h5 | h5 | h5 | h5 | h5 <;> simp_all
    obtain ⟨c1, c2, c3, c4, c5⟩ := hcase
    have hroom : s.cpIn.length < c.capCP := by rw [c1]; exact hcap
    simp only [hroom, if_true, hl']
    refine ⟨⟨⟨p1, p2, p3, p4, ?_⟩, hs⟩, hfl⟩
    exact Or.inr (Or.inr (Or.inr (Or.inr (Or.inr (Or.inr (Or.inl ⟨rfl, by simp [c1], c2, c3, hfl, c4, c5⟩))))))
  | take k n =>
    cases k with
    | f => exact ⟨LiteM.of_ctl ⟨hpm, hs⟩ rfl hs, hfl⟩
    | s => exact ⟨LiteM.of_ctl ⟨hpm, hs⟩ rfl ⟨hs.unitP, hs.idle, hs.cons, hs.resentEq, hs.runningSh⟩, hfl⟩
    | v => exact ⟨LiteM.of_ctl ⟨hpm, hs⟩ rfl hs, hfl⟩
    | c => exact ⟨⟨takeCP_PM n hpm, hs⟩, hfl⟩
  | foreign k n =>
    cases k with
    | f => exact ⟨LiteM.of_ctl ⟨hpm, hs⟩ rfl hs, hfl⟩
    | s => exact ⟨LiteM.of_ctl ⟨hpm, hs⟩ rfl ⟨hs.unitP, hs.idle, hs.cons, hs.resentEq, hs.runningSh⟩, hfl⟩
    | v => exact ⟨LiteM.of_ctl ⟨hpm, hs⟩ rfl hs, hfl⟩
    | c => exact ⟨⟨hpm, hs⟩, hfl⟩
  | tick => exact tick_Lite c hcap ⟨⟨hpm, hs⟩, hfl⟩

/-! ## the composition -/

/-- a legal composed event projects to an event of the compute unit that is legal for `Lite` —
    whatever request ID the response names -/
theorem cuOp_legalL (c : Cfg) (σ : Comp) (e : CEv) (hl : legalB c σ e = true) (o : C14.Flush.Op)
    (ho : cuOp c σ e = some o) : LegalL σ.cu o := by
  cases e with
  | cu o' =>
    simp only [cuOp] at ho
    by_cases hk : isLink o' = true
    · simp [hk] at ho
    · simp only [hk, Bool.false_eq_true, if_false, Option.some.injEq] at ho
      subst ho
      cases o' with
      | issS w n => simp_all [legalB, isLink, LegalL]
      | cpFlush => simp_all [legalB, isLink, LegalL]
      | cpRestart => simp_all [legalB, isLink, LegalL]
      | _ => trivial
  | xfer =>
    simp only [cuOp] at ho
    repeat' split at ho
    all_goals first | (cases ho; trivial) | cases ho
  | back =>
    simp only [cuOp] at ho
    repeat' split at ho
    all_goals first | (cases ho; trivial) | cases ho
  | rob e' => cases ho

theorem cstep_Lite (c : Cfg) (hcap : 0 < c.cu.capCP) (σ : Comp) (e : CEv) (hl : legalB c σ e = true)
    (h : Lite σ.cu) : Lite (cstep c σ e).cu := by
  have hcu := cstep_cu c σ e
  rcases ho : cuOp c σ e with _ | o
  · rw [ho] at hcu; simp only at hcu; rw [hcu]; exact h
  · rw [ho] at hcu; simp only at hcu; rw [hcu]
    exact step_Lite c.cu hcap h o (cuOp_legalL c σ e hl o ho)

theorem cfold_Lite (c : Cfg) (hcap : 0 < c.cu.capCP) (evs : List CEv) (σ : Comp)
    (hl : legalRunB c σ evs = true) (h : Lite σ.cu) : Lite (evs.foldl (cstep c) σ).cu := by
  induction evs generalizing σ with
  | nil => exact h
  | cons e es ih =>
    simp only [legalRunB, Bool.and_eq_true] at hl
    exact ih (cstep c σ e) hl.2 (cstep_Lite c hcap σ e hl.1 h)

/-- **the ID-independent part of C14's invariant holds of the compute unit of every legal composed
    run** — no `SentNames` -/
theorem crun_Lite (c : Cfg) (hcap : 0 < c.cu.capCP) (evs : List CEv) (hl : legalRunB c {} evs = true) :
    Lite (crun c evs).cu :=
  cfold_Lite c hcap evs {} hl Lite_init

end C15.Cu
