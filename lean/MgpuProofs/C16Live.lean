import MgpuProofs.C16WInv
/-! # C16 — the sleep invariant, productive moves, and "never stuck with work pending" -/
namespace C16

/-! ## `Quiet` under the environment's moves that do not wake the component -/

theorem respondQ_congr {c : Cfg} {s s' : St} (h1 : s'.botIn = s.botIn) (h2 : s'.infl = s.infl)
    (h3 : s'.topOut = s.topOut) (h : respondQ c s) : respondQ c s' := by
  unfold respondQ at *; rw [h1, h2, h3]; exact h

theorem parseQ_congr {c : Cfg} {s s' : St} (h1 : s'.txs = s.txs) (h2 : s'.botOut = s.botOut)
    (h3 : s'.trIn = s.trIn) (h : parseQ c s) : parseQ c s' := by
  unfold parseQ at *; rw [h1, h2, h3]; exact h

theorem translateQ_congr {c : Cfg} {s s' : St} (h1 : s'.topIn = s.topIn) (h2 : s'.txs = s.txs)
    (h3 : s'.trOut = s.trOut) (h : translateQ c s) : translateQ c s' := by
  unfold translateQ at *; rw [h1, h2, h3]; exact h

theorem ctlQ_congr {s s' : St} (h1 : s'.ctlIn = s.ctlIn) (h2 : s'.ctlOut = s.ctlOut) (h : ctlQ s) : ctlQ s' := by
  unfold ctlQ at *; rw [h1, h2]; exact h

theorem Quiet.congr {c : Cfg} {s s' : St} (h : Quiet c s) (hf : s'.flushing = s.flushing)
    (hr : respondQ c s → respondQ c s') (hp : parseQ c s → parseQ c s')
    (ht : translateQ c s → translateQ c s') (hk : ctlQ s → ctlQ s') : Quiet c s' :=
  ⟨fun h0 => hr (h.r (hf.symm.trans h0)), hp h.p, fun h0 => ht (h.t (hf.symm.trans h0)), hk h.k⟩

/-- a delivery behind a message that is already waiting changes nothing for the blocked stage -/
theorem respondQ_snoc {c : Cfg} {s s' : St} (x : BRsp) (hne : s.botIn ≠ []) (e1 : s'.botIn = s.botIn ++ [x])
    (e2 : s'.infl = s.infl) (e3 : s'.topOut = s.topOut) (h : respondQ c s) : respondQ c s' := by
  unfold respondQ at *
  rw [e1, e2, e3]
  cases hs : s.botIn with
  | nil => exact absurd hs hne
  | cons r rest => rw [hs] at h; exact h

theorem parseQ_snoc {c : Cfg} {s s' : St} (x : TRsp) (hne : s.trIn ≠ []) (_e1 : s'.trIn = s.trIn ++ [x])
    (e2 : s'.txs = s.txs) (e3 : s'.botOut = s.botOut) (h : parseQ c s) : parseQ c s' := by
  unfold parseQ at *
  rw [e2, e3]
  cases hp : popFirst isDrainable s.txs with
  | some y => rw [hp] at h; exact h
  | none => rw [hp] at h; exact absurd h hne

theorem translateQ_snoc {c : Cfg} {s s' : St} (x : Acc) (hne : s.topIn ≠ []) (e1 : s'.topIn = s.topIn ++ [x])
    (e2 : s'.txs = s.txs) (e3 : s'.trOut = s.trOut) (h : translateQ c s) : translateQ c s' := by
  unfold translateQ at *
  rw [e1, e2, e3]
  cases hs : s.topIn with
  | nil => exact absurd hs hne
  | cons r rest => rw [hs] at h; exact h

/-- taking a message out of an outgoing buffer that was not full cannot unblock anything -/
theorem respondQ_room {c : Cfg} {s s' : St} (hlt : s.topOut.length < c.width) (e1 : s'.botIn = s.botIn)
    (h : respondQ c s) : respondQ c s' := by
  unfold respondQ at *
  rw [e1]
  cases hs : s.botIn with
  | nil => trivial
  | cons r rest => rw [hs] at h; have := h.2; omega

theorem parseQ_room {c : Cfg} {s s' : St} (hlt : s.botOut.length < c.width) (e1 : s'.txs = s.txs)
    (e2 : s'.trIn = s.trIn) (h : parseQ c s) : parseQ c s' := by
  unfold parseQ at *
  rw [e1]
  cases hp : popFirst isDrainable s.txs with
  | some y => rw [hp] at h; have h' : c.width ≤ s.botOut.length := h; omega
  | none => rw [hp] at h; rw [e2]; exact h

theorem translateQ_room {c : Cfg} {s s' : St} (hlt : s.trOut.length < c.width) (e1 : s'.topIn = s.topIn)
    (h : translateQ c s) : translateQ c s' := by
  unfold translateQ at *
  rw [e1]
  cases hs : s.topIn with
  | nil => trivial
  | cons r rest => rw [hs] at h; have := h.2; omega

theorem qinv_step (c : Cfg) (e : Env) (w : CW) (o : HOp) (hw : WInv c e w) (hm : MInv c w.s) (hd : DInv w.s)
    (hb : BInv c w.s) (hwid : 0 < c.width) (hq : w.awake = false → Quiet c w.s) :
    (hstep c e w o).awake = false → Quiet c (hstep c e w o).s := by
  cases o with
  | tick =>
    simp only [hstep]
    split
    · intro ha
      exact tick_false_quiet c w.s hwid hm hd hw.noBad ha
    · exact hq
  | access pid va pl =>
    simp only [hstep]
    intro ha
    simp only [Bool.or_eq_false_iff, Bool.and_eq_false_iff, List.isEmpty_eq_false_iff, decide_eq_false_iff_not] at ha
    obtain ⟨ha1, ha2⟩ := ha
    have hne : w.s.topIn ≠ [] := by
      rcases ha2 with h | h
      · exact h
      · exact absurd hwid h
    simp only [step]
    split
    · exact (hq ha1).congr rfl (respondQ_congr rfl rfl rfl) (parseQ_congr rfl rfl rfl)
        (translateQ_snoc _ hne rfl rfl rfl) (ctlQ_congr rfl rfl)
    · exact (hq ha1).congr rfl (respondQ_congr rfl rfl rfl) (parseQ_congr rfl rfl rfl)
        (translateQ_congr rfl rfl rfl) (ctlQ_congr rfl rfl)
  | ansT j =>
    simp only [hstep]
    split
    · exact hq
    · split
      · rename_i hlt
        intro ha
        simp only [Bool.or_eq_false_iff, List.isEmpty_eq_false_iff] at ha
        simp only [step, hlt, if_true]
        exact (hq ha.1).congr rfl (respondQ_congr rfl rfl rfl) (parseQ_snoc _ ha.2 rfl rfl rfl)
          (translateQ_congr rfl rfl rfl) (ctlQ_congr rfl rfl)
      · exact hq
  | ansM j =>
    simp only [hstep]
    split
    · exact hq
    · split
      · rename_i hlt
        intro ha
        simp only [Bool.or_eq_false_iff, List.isEmpty_eq_false_iff] at ha
        simp only [step, hlt, if_true]
        exact (hq ha.1).congr rfl (respondQ_snoc _ ha.2 rfl rfl rfl) (parseQ_congr rfl rfl rfl)
          (translateQ_congr rfl rfl rfl) (ctlQ_congr rfl rfl)
      · exact hq
  | drainTop =>
    simp only [hstep]
    split
    · exact hq
    · intro ha
      simp only [Bool.or_eq_false_iff, decide_eq_false_iff_not] at ha
      have := hb.top
      exact (hq ha.1).congr rfl (respondQ_room (by omega) rfl) (parseQ_congr rfl rfl rfl)
        (translateQ_congr rfl rfl rfl) (ctlQ_congr rfl rfl)
  | drainBot =>
    simp only [hstep]
    split
    · exact hq
    · intro ha
      simp only [Bool.or_eq_false_iff, decide_eq_false_iff_not] at ha
      have := hb.bot
      exact (hq ha.1).congr rfl (respondQ_congr rfl rfl rfl) (parseQ_room (by omega) rfl rfl)
        (translateQ_congr rfl rfl rfl) (ctlQ_congr rfl rfl)
  | drainTr =>
    simp only [hstep]
    split
    · exact hq
    · intro ha
      simp only [Bool.or_eq_false_iff, decide_eq_false_iff_not] at ha
      have := hb.tr
      exact (hq ha.1).congr rfl (respondQ_congr rfl rfl rfl) (parseQ_congr rfl rfl rfl)
        (translateQ_room (by omega) rfl) (ctlQ_congr rfl rfl)
  | drainCtl =>
    simp only [hstep]
    split
    · rename_i hpos
      intro ha
      simp only [Bool.or_eq_false_iff, decide_eq_false_iff_not] at ha
      have := hb.ctlO
      omega
    · exact hq
  | flush =>
    simp only [hstep]
    intro ha
    simp only [Bool.or_eq_false_iff, List.isEmpty_eq_false_iff] at ha
    have hlen : ¬ w.s.ctlIn.length < 1 := by
      cases hc : w.s.ctlIn with
      | nil => exact absurd hc ha.2
      | cons k ks => simp
    simp only [step, hlen, if_false]
    exact hq ha.1
  | restart =>
    simp only [hstep]
    split
    · intro ha
      simp only [Bool.or_eq_false_iff, List.isEmpty_eq_false_iff] at ha
      have hlen : ¬ w.s.ctlIn.length < 1 := by
        cases hc : w.s.ctlIn with
        | nil => exact absurd hc ha.2
        | cons k ks => simp
      simp only [step, hlen, if_false]
      exact hq ha.1
    · exact hq

/-! ## invariants of reachable worlds -/

theorem reach_winv {c : Cfg} {e : Env} {w : CW} (h : Reach c e w) : WInv c e w := by
  induction h with
  | init => exact winv_init c e
  | step w o hr ih =>
    obtain ⟨ops, hops⟩ := reach_run hr
    exact winv_step c e w o ih (hops ▸ run_minv c ops) (hops ▸ run_uinv c ops) (hops ▸ run_ninv c ops)
      (hops ▸ run_binv c ops)

theorem quiet_init (c : Cfg) : Quiet c {} :=
  ⟨fun _ => trivial, rfl, fun _ => trivial, Or.inl rfl⟩

theorem reach_quiet {c : Cfg} {e : Env} {w : CW} (hwid : 0 < c.width) (h : Reach c e w) :
    w.awake = false → Quiet c w.s := by
  induction h with
  | init => intro _; exact quiet_init c
  | step w o hr ih =>
    obtain ⟨ops, hops⟩ := reach_run hr
    exact qinv_step c e w o (reach_winv hr) (hops ▸ run_minv c ops) (hops ▸ run_dinv c ops)
      (hops ▸ run_binv c ops) hwid ih

/-! ## productive moves -/

/-- a move of the component or of an honest neighbour that brings the world strictly closer to
    completion -/
def Productive (c : Cfg) (e : Env) (w : CW) (o : HOp) : Prop :=
  o.internal = true ∧ wmu (hstep c e w o) < wmu w

theorem prod_drainTop (c : Cfg) (e : Env) (w : CW) (h : w.s.topOut ≠ []) : Productive c e w .drainTop := by
  refine ⟨rfl, ?_⟩
  cases hq : w.s.topOut with
  | nil => exact absurd hq h
  | cons a l => simp [hstep, hq, wmu, smu, mu, step]

theorem prod_drainBot (c : Cfg) (e : Env) (w : CW) (h : w.s.botOut ≠ []) : Productive c e w .drainBot := by
  refine ⟨rfl, ?_⟩
  cases hq : w.s.botOut with
  | nil => exact absurd hq h
  | cons a l => simp [hstep, hq, wmu, smu, mu, step]; omega

theorem prod_drainTr (c : Cfg) (e : Env) (w : CW) (h : w.s.trOut ≠ []) : Productive c e w .drainTr := by
  refine ⟨rfl, ?_⟩
  cases hq : w.s.trOut with
  | nil => exact absurd hq h
  | cons a l => simp [hstep, hq, wmu, smu, mu, step]; omega

theorem prod_drainCtl (c : Cfg) (e : Env) (w : CW) (h : 0 < w.s.ctlOut) : Productive c e w .drainCtl := by
  refine ⟨rfl, ?_⟩
  simp [hstep, h, wmu, smu, mu, step]; omega

theorem prod_ansT (c : Cfg) (e : Env) (w : CW) (h : w.envT ≠ []) (hlt : w.s.trIn.length < c.width) :
    Productive c e w (.ansT 0) := by
  refine ⟨rfl, ?_⟩
  cases hq : w.envT with
  | nil => exact absurd hq h
  | cons a l => simp [hstep, hq, hlt, wmu, smu, mu, step, removeNth]; omega

theorem prod_ansM (c : Cfg) (e : Env) (w : CW) (h : w.envM ≠ []) (hlt : w.s.botIn.length < c.width) :
    Productive c e w (.ansM 0) := by
  refine ⟨rfl, ?_⟩
  cases hq : w.envM with
  | nil => exact absurd hq h
  | cons a l => simp [hstep, hq, hlt, wmu, smu, mu, step, removeNth]; omega

theorem prod_tick (c : Cfg) (e : Env) (w : CW) (ha : w.awake = true) (hf : (tick c w.s).2 = true) :
    Productive c e w .tick := by
  refine ⟨rfl, ?_⟩
  have := (tick_sdec c w.s).2 hf
  simp only [hstep, ha, if_true, wmu]
  omega

/-- every access accepted since the last flush has been answered -/
def AllAnswered (w : CW) : Prop :=
  ∀ p ∈ w.s.received, p.2 = w.s.epoch → ∃ x ∈ w.s.answered, x.top = p.1

/-- all accepted accesses are answered and (unless a flush is waiting for its restart) nothing at
    all is left anywhere in the world -/
def Settled (w : CW) : Prop := AllAnswered w ∧ (w.s.flushing = false → wmu w = 0)

theorem stuck_free {c : Cfg} {e : Env} {w : CW} (hwid : 0 < c.width) (hr : Reach c e w) :
    Settled w ∨ ∃ o, Productive c e w o := by
  obtain ⟨ops, hops⟩ := reach_run hr
  have hm : MInv c w.s := hops ▸ run_minv c ops
  have hd : DInv w.s := hops ▸ run_dinv c ops
  have hn : NInv w.s := hops ▸ run_ninv c ops
  have hw := reach_winv hr
  have hq := reach_quiet hwid hr
  have awake_of : (tick c w.s).2 = true → w.awake = true := by
    intro hf
    cases ha : w.awake with
    | true => rfl
    | false =>
      have := quiet_tick c w.s hw.noBad (hq ha)
      rw [this] at hf
      simp at hf
  by_cases h1 : w.s.topOut = []
  case neg => exact Or.inr ⟨_, prod_drainTop c e w h1⟩
  by_cases h2 : w.s.botOut = []
  case neg => exact Or.inr ⟨_, prod_drainBot c e w h2⟩
  by_cases h3 : w.s.trOut = []
  case neg => exact Or.inr ⟨_, prod_drainTr c e w h3⟩
  by_cases h4 : w.s.ctlOut = 0
  case neg => exact Or.inr ⟨_, prod_drainCtl c e w (by omega)⟩
  by_cases h5 : w.s.ctlIn = []
  case neg =>
    have hf := tick_enabled_ctl c w.s hw.noBad h5 (by omega)
    exact Or.inr ⟨_, prod_tick c e w (awake_of hf) hf⟩
  have hall : w.s.txs = [] → w.s.infl = [] → AllAnswered w := by
    intro e1 e2 p hp he
    rcases hn.nl p hp he with h | h | h
    · rw [e1] at h; simp at h
    · rw [e2] at h; simp at h
    · obtain ⟨x, hx, hxe⟩ := List.mem_map.mp h
      exact ⟨x, hx, hxe⟩
  cases hfl : w.s.flushing with
  | true =>
    obtain ⟨e1, e2⟩ := hn.fl hfl
    exact Or.inl ⟨hall e1 e2, fun h => by simp [hfl] at h⟩
  | false =>
    by_cases hact : w.s.botIn ≠ [] ∨ w.s.trIn ≠ [] ∨ w.s.topIn ≠ [] ∨ ∃ t ∈ w.s.txs, t.done = true
    · have hf := tick_enabled_pipe c w.s hd (fun t ht => (hm.tx t ht).1) hfl hwid
        (by rw [h1]; exact hwid) (by rw [h2]; exact hwid) (by rw [h3]; exact hwid) hact
      exact Or.inr ⟨_, prod_tick c e w (awake_of hf) hf⟩
    · have b1 : w.s.botIn = [] := by
        cases h : w.s.botIn with
        | nil => rfl
        | cons a l => exact absurd (Or.inl (by simp [h])) hact
      have b2 : w.s.trIn = [] := by
        cases h : w.s.trIn with
        | nil => rfl
        | cons a l => exact absurd (Or.inr (Or.inl (by simp [h]))) hact
      have b3 : w.s.topIn = [] := by
        cases h : w.s.topIn with
        | nil => rfl
        | cons a l => exact absurd (Or.inr (Or.inr (Or.inl (by simp [h])))) hact
      have b4 : ∀ t ∈ w.s.txs, t.done = false := by
        intro t ht
        cases h : t.done with
        | false => rfl
        | true => exact absurd (Or.inr (Or.inr (Or.inr ⟨t, ht, h⟩))) hact
      by_cases h6 : w.envT = []
      case neg => exact Or.inr ⟨_, prod_ansT c e w h6 (by rw [b2]; exact hwid)⟩
      by_cases h7 : w.envM = []
      case neg => exact Or.inr ⟨_, prod_ansM c e w h7 (by rw [b1]; exact hwid)⟩
      have e1 : w.s.txs = [] := by
        cases h : w.s.txs with
        | nil => rfl
        | cons t ts =>
          have ht : t ∈ w.s.txs := by rw [h]; exact List.mem_cons_self ..
          rcases hw.t.pt_ t ht (b4 t ht) with k | k | ⟨r, k, _⟩
          · rw [h3] at k; simp at k
          · rw [h6] at k; simp at k
          · rw [b2] at k; simp at k
      have e2 : w.s.infl = [] := by
        cases h : w.s.infl with
        | nil => rfl
        | cons f fs =>
          have hf : f ∈ w.s.infl := by rw [h]; exact List.mem_cons_self ..
          rcases hw.t.pm f hf with k | k | ⟨r, k, _⟩
          · rw [h2] at k; simp at k
          · rw [h7] at k; simp at k
          · rw [b1] at k; simp at k
      refine Or.inl ⟨hall e1 e2, fun _ => ?_⟩
      simp [wmu, smu, mu, h1, h2, h3, h4, h5, h6, h7, b1, b2, b3, e1, e2]

/-! ## runs of productive moves -/

/-- a sequence of moves each of which is productive where it is made -/
def ProdSeq (c : Cfg) (e : Env) : CW → List HOp → Prop
  | _, [] => True
  | w, o :: os => Productive c e w o ∧ ProdSeq c e (hstep c e w o) os

theorem prodseq_len (c : Cfg) (e : Env) : ∀ (os : List HOp) (w : CW), ProdSeq c e w os →
    os.length + wmu (hrun c e w os) ≤ wmu w := by
  intro os
  induction os with
  | nil => intro w _; simp [hrun]
  | cons o os ih =>
    intro w h
    have h1 := ih (hstep c e w o) h.2
    have h2 := h.1.2
    simp only [hrun, List.foldl_cons, List.length_cons] at h1 ⊢
    omega

theorem prodseq_exists {c : Cfg} {e : Env} (hwid : 0 < c.width) : ∀ (n : Nat) (w : CW), Reach c e w → wmu w ≤ n →
    ∃ os, ProdSeq c e w os ∧ Settled (hrun c e w os) := by
  intro n
  induction n with
  | zero =>
    intro w hr hle
    rcases stuck_free hwid hr with h | ⟨o, _, h⟩
    · exact ⟨[], trivial, h⟩
    · omega
  | succ n ih =>
    intro w hr hle
    rcases stuck_free hwid hr with h | ⟨o, ho, h⟩
    · exact ⟨[], trivial, h⟩
    · obtain ⟨os, h1, h2⟩ := ih (hstep c e w o) (Reach.step w o hr) (by omega)
      exact ⟨o :: os, ⟨⟨ho, h⟩, h1⟩, h2⟩

/-! ## the reply-while-bottom-full state: blocked on the bottom port, woken by its `NotifyPortFree` -/

/-- not flushing, a completed transaction at hand and room in the bottom port: the tick makes
    progress whatever the other stages do -/
theorem tick_enabled_done (c : Cfg) (s : St) (hd : DInv s) (hne : ∀ t ∈ s.txs, t.reqs ≠ [])
    (hfl : s.flushing = false) (hw : 0 < c.width) (h2 : s.botOut.length < c.width)
    (hdone : ∃ t ∈ s.txs, t.done = true) : (tick c s).2 = true := by
  obtain ⟨n, hn⟩ : ∃ n, c.width = n + 1 := ⟨c.width - 1, by omega⟩
  have hpipe : (runPipeline c s).2 = true := by
    simp only [runPipeline, Bool.or_eq_true]
    cases ha : (iter (respond c) c.width s).2 with
    | true => exact Or.inl (Or.inl rfl)
    | false =>
      left; right
      rw [hn] at ha ⊢
      obtain ⟨hr1, _⟩ := respond_false c s (iter_succ_flag n s ha)
      rw [iter_idle s hr1 _]
      exact iter_first n s (parse_enabled c s hd hne h2 (Or.inr hdone))
  simp only [tick, hfl, Bool.false_eq_true, if_false, Bool.or_eq_true]
  exact Or.inr hpipe

/-! ## late replies -/

theorem popFirst_eq_none (p : Tx → Bool) : ∀ txs, (∀ t ∈ txs, p t = false) → popFirst p txs = none := by
  intro txs
  induction txs with
  | nil => intro _; rfl
  | cons t ts ih =>
    intro h
    simp only [popFirst, h t (List.mem_cons_self ..), Bool.false_eq_true, if_false]
    rw [ih (fun t' ht' => h t' (List.mem_cons_of_mem _ ht'))]
    rfl

theorem markFirst_eq_self (p : Tx → Bool) (pa : Nat) : ∀ txs, (∀ t ∈ txs, p t = false) → markFirst p pa txs = txs := by
  intro txs
  induction txs with
  | nil => intro _; rfl
  | cons t ts ih =>
    intro h
    simp only [markFirst, h t (List.mem_cons_self ..), Bool.false_eq_true, if_false]
    rw [ih (fun t' ht' => h t' (List.mem_cons_of_mem _ ht'))]

theorem extract_eq_none (bid : Nat) : ∀ l, (∀ f ∈ l, f.breq.bid ≠ bid) → extract bid l = none := by
  intro l
  induction l with
  | nil => intro _; rfl
  | cons f fs ih =>
    intro h
    simp only [extract, h f (List.mem_cons_self ..), if_false]
    rw [ih (fun f' hf' => h f' (List.mem_cons_of_mem _ hf'))]
    rfl

/-- a reply that matches no pending transaction is dropped: only the port's head and the trace change -/
theorem parse_drops (c : Cfg) (s : St) (r : TRsp) (rest : List TRsp) (htr : s.trIn = r :: rest)
    (hp : popFirst isDrainable s.txs = none) (hno : ∀ t ∈ s.txs, t.treq.tid ≠ r.rspTo) :
    parseTranslation c s = ({ s with trIn := rest, ev := s!"X{r.rspTo}" :: s.ev }, true) := by
  have hf : ∀ t ∈ s.txs, hasTid r.rspTo t = false := by
    intro t ht; simpa [hasTid] using hno t ht
  unfold parseTranslation
  rw [hp]
  simp only [htr]
  rw [markFirst_eq_self _ _ _ hf, popFirst_eq_none _ _ hf]

/-- a memory response that matches no in-flight request is dropped likewise -/
theorem respond_drops (c : Cfg) (s : St) (r : BRsp) (rest : List BRsp) (hb : s.botIn = r :: rest)
    (hno : ∀ f ∈ s.infl, f.breq.bid ≠ r.rspTo) :
    respond c s = ({ s with botIn := rest, ev := s!"Y{r.rspTo}" :: s.ev }, true) := by
  unfold respond
  simp only [hb]
  rw [extract_eq_none _ _ hno]

theorem eq_of_nodup_map {α : Type} (f : α → Nat) (l : List α) (h : (l.map f).Nodup) :
    ∀ x ∈ l, ∀ y ∈ l, f x = f y → x = y :=
  eq_of_count_le_one f l (fun i => List.nodup_iff_count.mp h i)

end C16
