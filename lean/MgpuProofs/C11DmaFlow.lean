import MgpuProofs.C11DmaInv
/-! # C11 helper: every in-flight memory transaction is pending exactly once ⇒ no fault -/
namespace C11

/-- ids of the transactions in flight: waiting in `toSendToMem`, in ToMem's outgoing buffer,
    held by the memory side, and answers waiting in ToMem's incoming buffer -/
def fl (s : Dma) (o : List MemReq) : List Nat :=
  s.toMem.map (·.id) ++ s.memOut.map (·.id) ++ o.map (·.id) ++ s.memIn

structure FInv (s : Dma) (o : List MemReq) : Prop where
  nodup : (fl s o).Nodup
  sub : ∀ x ∈ fl s o, x ∈ pendIds s

theorem FInv.perm {s s' : Dma} {o o' : List MemReq} (h : FInv s o) (hp : (fl s' o').Perm (fl s o))
    (hpe : pendIds s' = pendIds s) : FInv s' o' :=
  ⟨hp.nodup_iff.2 h.nodup, fun x hx => hpe ▸ h.sub x (hp.mem_iff.1 hx)⟩

theorem FInv.sendCP {s : Dma} {o : List MemReq} (h : FInv s o) : FInv s.sendCP.1 o := by
  unfold Dma.sendCP
  cases s.toCP with
  | nil => exact h
  | cons r rest => exact h.perm (List.Perm.refl _) rfl

theorem FInv.sendMem {s : Dma} {o : List MemReq} (h : FInv s o) : FInv s.sendMem.1 o := by
  unfold Dma.sendMem
  cases ht : s.toMem with
  | nil => exact h
  | cons r rest =>
    simp only
    split
    · refine h.perm ?_ rfl
      apply List.perm_iff_count.2
      intro a
      simp only [fl, ht, List.map_cons, List.map_append, List.map_nil, List.count_append, List.count_cons,
        List.count_nil]
      omega
    · exact h

theorem FInv.parseFromMem {s : Dma} {o : List MemReq} {n : Nat} {d : List Nat} (h : FInv s o)
    (hd : DInv s n d) : FInv s.parseFromMem.1 o ∧ s.parseFromMem.1.fault = s.fault := by
  rcases parseFromMem_cases s with ⟨_, e⟩ | ⟨id, rest, hm, hc⟩
  · rw [e]; exact ⟨h, rfl⟩
  · have hidp : id ∈ pendIds s := h.sub id (by simp [fl, hm])
    have hnd := h.nodup
    have key : ∀ s' : Dma, s'.toMem = s.toMem → s'.memOut = s.memOut → s'.memIn = rest →
        s'.pending = s.pending.filter (·.id != id) → FInv s' o := by
      intro s' h1 h2 h3 h4
      have hfl : fl s o = (s.toMem.map (·.id) ++ s.memOut.map (·.id) ++ o.map (·.id)) ++ id :: rest := by
        simp [fl, hm]
      have hfl' : fl s' o = (s.toMem.map (·.id) ++ s.memOut.map (·.id) ++ o.map (·.id)) ++ rest := by
        simp [fl, h1, h2, h3]
      rw [hfl] at hnd
      have hsl : (fl s' o).Sublist (fl s o) := by
        rw [hfl, hfl']; exact List.Sublist.append_left (List.sublist_cons_self _ _) _
      refine ⟨hsl.nodup (hfl ▸ hnd), ?_⟩
      intro x hx
      have hpe : pendIds s' = (pendIds s).filter (· != id) := by
        rw [← pendIds_filter, ← h4]; rfl
      rw [hpe, mem_filter_ne]
      refine ⟨h.sub x (hsl.subset hx), ?_⟩
      rintro rfl
      rw [hfl'] at hx
      rw [List.nodup_append] at hnd
      obtain ⟨_, h5, h6⟩ := hnd
      rcases List.mem_append.1 hx with hx | hx
      · exact h6 x hx x (List.mem_cons_self) rfl
      · exact (List.nodup_cons.1 h5).1 hx
    rcases hc with ⟨hn, e⟩ | ⟨hid, hnone, _⟩ | ⟨hid, c', hd', hcnt, e⟩ | ⟨hid, c', hd', hcnt, e⟩
    · exact absurd hidp hn
    · exfalso
      obtain ⟨c0, h0, hin⟩ := hd.coll_exists hid
      exact (decAll_spec s.processing id).2.1 hnone c0 h0 hin
    · rw [e]; exact ⟨key _ rfl rfl rfl rfl, rfl⟩
    · rw [e]; exact ⟨key _ rfl rfl rfl rfl, rfl⟩

theorem FInv.parseFromCP {s : Dma} {o : List MemReq} {n : Nat} {d : List Nat} (h : FInv s o)
    (hd : DInv s n d) : FInv s.parseFromCP.1 o := by
  rcases parseFromCP_cases s with ⟨e, _⟩ | ⟨r, rest, hcp, hlt, e⟩
  · rw [e]; exact h
  · rw [e]
    have hids := subReqs_ids s r
    have hp : (fl { s with
        cpIn := rest, nextId := s.nextId + (subReqs s r).length,
        toMem := s.toMem ++ subReqs s r, pending := s.pending ++ subReqs s r,
        processing := s.processing ++
          [{ sup := r, subs := (subReqs s r).map (·.id), count := (subReqs s r).length }] } o).Perm
        (fl s o ++ List.range' s.nextId (subReqs s r).length) := by
      apply List.perm_iff_count.2
      intro a
      simp only [fl, List.map_append, hids, List.count_append]
      omega
    constructor
    · rw [hp.nodup_iff, List.nodup_append]
      refine ⟨h.nodup, List.nodup_range' .., ?_⟩
      intro a ha b hb e; subst e
      have := hd.pend_lt a (h.sub a ha)
      rw [List.mem_range'_1] at hb; omega
    · intro x hx
      have := hp.mem_iff.1 hx
      simp only [pendIds, List.map_append, List.mem_append]
      rcases List.mem_append.1 this with hx | hx
      · exact .inl (h.sub x hx)
      · right; rw [hids]; exact hx

theorem FInv.tick {s : Dma} {o : List MemReq} {n : Nat} {d : List Nat} (h : FInv s o)
    (hd : DInv s n d) (hf : s.fault = none) : FInv s.tick.1 o ∧ s.tick.1.fault = none := by
  have hf1 : s.sendCP.1.fault = none := by
    unfold Dma.sendCP; cases s.toCP <;> exact hf
  have hf2 : s.sendCP.1.sendMem.1.fault = none := by
    unfold Dma.sendMem
    cases s.sendCP.1.toMem with
    | nil => exact hf1
    | cons r rest => simp only; split <;> exact hf1
  have ⟨h3, hf3⟩ := h.sendCP.sendMem.parseFromMem hd.sendCP.sendMem
  rw [hf2] at hf3
  have hf4 : s.sendCP.1.sendMem.1.parseFromMem.1.parseFromCP.1.fault = none := by
    rcases parseFromCP_cases s.sendCP.1.sendMem.1.parseFromMem.1 with ⟨e, _⟩ | ⟨r, rest, _, _, e⟩
    · rw [e]; exact hf3
    · rw [e]; exact hf3
  unfold Dma.tick
  simp only [hf, Option.isSome_none, Bool.false_eq_true, if_false, hf3]
  exact ⟨h3.parseFromCP hd.sendCP.sendMem.parseFromMem, hf4⟩

/-- in-flight invariant at the environment level -/
structure Env.Flow (e : Env) : Prop where
  f : FInv e.s e.outstanding
  nofault : e.s.fault = none

theorem Env.Flow.step {e : Env} (h : e.Flow) (hi : e.Inv) (op : EnvOp) (hop : op.isInject = false) :
    (e.step op).Flow := by
  cases op with
  | copy k a l => exact ⟨h.f.perm (List.Perm.refl _) rfl, h.nofault⟩
  | tick =>
    have ⟨a, b⟩ := h.f.tick hi.d h.nofault
    exact ⟨a, b⟩
  | take k =>
    refine ⟨h.f.perm ?_ rfl, h.nofault⟩
    have hm : e.s.memOut.map (·.id) = (e.s.memOut.take k).map (·.id) ++ (e.s.memOut.drop k).map (·.id) := by
      rw [← List.map_append, List.take_append_drop]
    apply List.perm_iff_count.2
    intro a
    simp only [fl, Env.step, List.map_append, hm, List.count_append]
    omega
  | respond j =>
    unfold Env.step
    simp only
    split
    · exact h
    · split
      · exact h
      · rename_i r hr
        refine ⟨h.f.perm ?_ rfl, h.nofault⟩
        obtain ⟨hlt, hget⟩ := List.getElem?_eq_some_iff.1 hr
        have ho : e.outstanding.map (·.id) =
            (e.outstanding.take (j % e.outstanding.length)).map (·.id) ++
              r.id :: (e.outstanding.drop (j % e.outstanding.length + 1)).map (·.id) := by
          rw [← List.map_cons (f := fun q : MemReq => q.id), ← List.map_append, ← hget,
            List.getElem_cons_drop, List.take_append_drop]
        apply List.perm_iff_count.2
        intro a
        simp only [fl, List.map_append, ho, List.eraseIdx_eq_take_drop_succ, List.count_append,
          List.count_cons, List.count_nil]
        omega
  | drain => exact ⟨h.f.perm (List.Perm.refl _) rfl, h.nofault⟩
  | inject id => cases hop

theorem Env.init_flow (log2 maxReq memCap : Nat) : (Env.init log2 maxReq memCap).Flow :=
  ⟨⟨by simp [fl, Env.init], by simp [fl, Env.init]⟩, rfl⟩

theorem Env.run_flow {e : Env} (h : e.Flow) (hi : e.Inv) (ops : List EnvOp)
    (hops : ∀ op ∈ ops, op.isInject = false) : (e.run ops).Flow := by
  induction ops generalizing e with
  | nil => exact h
  | cons op ops ih =>
    exact ih (h.step hi op (hops op (List.mem_cons_self))) (hi.step op)
      (fun o ho => hops o (List.mem_cons_of_mem _ ho))

end C11
