import MgpuProofs.C16Quiet
/-! # C16 — the closed world: basic facts

* every reachable world's translator state is `run c ops` for some op sequence, so all state-level
  invariants apply;
* the world measure `wmu` and the moves that decrease it;
* `TInv`: every pending transaction's lookup and every in-flight request is somewhere between the
  translator and its honest neighbour (never lost), and nothing held carries an id from before the
  last flush. -/
namespace C16

/-! ## lists -/

theorem getD_mem {α} (l : List α) (i : Nat) (d : α) (h : i < l.length) : l.getD i d ∈ l := by
  induction l generalizing i with
  | nil => simp at h
  | cons x xs ih =>
    cases i with
    | zero => simp
    | succ i =>
      simp only [List.length_cons] at h
      have := ih i (by omega)
      simp only [List.getD_cons_succ]
      exact List.mem_cons_of_mem _ this

theorem removeNth_subset {α} (l : List α) (i : Nat) : ∀ x ∈ removeNth i l, x ∈ l := by
  induction l generalizing i with
  | nil => intro x hx; simp [removeNth] at hx
  | cons y ys ih =>
    intro x hx
    cases i with
    | zero => simp only [removeNth] at hx; exact List.mem_cons_of_mem _ hx
    | succ i =>
      simp only [removeNth, List.mem_cons] at hx
      rcases hx with rfl | hx
      · exact List.mem_cons_self ..
      · exact List.mem_cons_of_mem _ (ih i x hx)

theorem mem_removeNth {α} (l : List α) (i : Nat) (d : α) (h : i < l.length) :
    ∀ x ∈ l, x = l.getD i d ∨ x ∈ removeNth i l := by
  induction l generalizing i with
  | nil => simp at h
  | cons y ys ih =>
    intro x hx
    cases i with
    | zero =>
      simp only [List.mem_cons] at hx
      rcases hx with rfl | hx
      · left; simp
      · right; simpa [removeNth] using hx
    | succ i =>
      simp only [List.length_cons] at h
      simp only [List.mem_cons] at hx
      rcases hx with rfl | hx
      · right; simp [removeNth]
      · rcases ih i (by omega) x hx with h1 | h1
        · left; simpa using h1
        · right; simp [removeNth, h1]

theorem length_removeNth {α} (l : List α) (i : Nat) (h : i < l.length) :
    (removeNth i l).length + 1 = l.length := by
  induction l generalizing i with
  | nil => simp at h
  | cons y ys ih =>
    cases i with
    | zero => simp [removeNth]
    | succ i =>
      simp only [List.length_cons] at h
      have := ih i (by omega)
      simp [removeNth]; omega

/-! ## reachable worlds run the same `step` -/

theorem run_snoc (c : Cfg) (ops : List Op) (o : Op) : run c (ops ++ [o]) = step c (run c ops) o := by
  simp [run, List.foldl_append]

theorem hstep_core (c : Cfg) (e : Env) (w : CW) (o : HOp) :
    (hstep c e w o).s = w.s ∨ ∃ op, (hstep c e w o).s = step c w.s op := by
  cases o with
  | access pid va pl => exact Or.inr ⟨.access pid va pl, rfl⟩
  | tick =>
    simp only [hstep]
    split
    · exact Or.inr ⟨.tick, rfl⟩
    · exact Or.inl rfl
  | ansT j =>
    simp only [hstep]
    split
    · exact Or.inl rfl
    · split
      · exact Or.inr ⟨.trsp _, rfl⟩
      · exact Or.inl rfl
  | ansM j =>
    simp only [hstep]
    split
    · exact Or.inl rfl
    · split
      · exact Or.inr ⟨.brsp _, rfl⟩
      · exact Or.inl rfl
  | drainTop =>
    simp only [hstep]
    split
    · exact Or.inl rfl
    · exact Or.inr ⟨.drainTop, rfl⟩
  | drainBot =>
    simp only [hstep]
    split
    · exact Or.inl rfl
    · exact Or.inr ⟨.drainBot, rfl⟩
  | drainTr =>
    simp only [hstep]
    split
    · exact Or.inl rfl
    · exact Or.inr ⟨.drainTr, rfl⟩
  | drainCtl =>
    simp only [hstep]
    split
    · exact Or.inr ⟨.drainCtl, rfl⟩
    · exact Or.inl rfl
  | flush => exact Or.inr ⟨.ctl .flush, rfl⟩
  | restart =>
    simp only [hstep]
    split
    · exact Or.inr ⟨.ctl .restart, rfl⟩
    · exact Or.inl rfl

theorem reach_run {c : Cfg} {e : Env} {w : CW} (h : Reach c e w) : ∃ ops, w.s = run c ops := by
  induction h with
  | init => exact ⟨[], rfl⟩
  | step w o _ ih =>
    obtain ⟨ops, hops⟩ := ih
    rcases hstep_core c e w o with h1 | ⟨op, h1⟩
    · exact ⟨ops, h1.trans hops⟩
    · exact ⟨ops ++ [op], by rw [run_snoc, ← hops]; exact h1⟩

theorem reach_hrun {c : Cfg} {e : Env} {w : CW} (h : Reach c e w) (os : List HOp) :
    Reach c e (hrun c e w os) := by
  induction os generalizing w with
  | nil => exact h
  | cons o os ih => exact ih (Reach.step w o h)

/-! ## the ghost logs only grow -/

theorem Grow.refl (s : St) : Grow s s := by grow_tac

theorem Grow.trans {a b d : St} (h1 : Grow a b) (h2 : Grow b d) : Grow a d :=
  ⟨fun x hx => h2.recv x (h1.recv x hx), fun x hx => h2.fwd x (h1.fwd x hx),
   fun x hx => h2.ans x (h1.ans x hx), fun x hx => h2.asked x (h1.asked x hx),
   fun x hx => h2.tdel x (h1.tdel x hx), fun x hx => h2.mdel x (h1.mdel x hx)⟩

theorem translate_grow (c : Cfg) (s : St) : Grow s (translate c s).1 := by
  unfold translate; split
  · grow_tac
  · split
    · grow_tac
    · split <;> grow_tac

theorem parseTranslation_grow (c : Cfg) (s : St) : Grow s (parseTranslation c s).1 := by
  unfold parseTranslation; split
  · split
    · split
      · unfold emit; grow_tac
      · grow_tac
    · grow_tac
  · split
    · grow_tac
    · split
      · grow_tac
      · split
        · grow_tac
        · split
          · unfold emit; grow_tac
          · grow_tac

theorem respond_grow (c : Cfg) (s : St) : Grow s (respond c s).1 := by
  unfold respond; split
  · grow_tac
  · split
    · grow_tac
    · split <;> grow_tac

theorem handleCtrl_grow (s : St) : Grow s (handleCtrl s).1 := by
  unfold handleCtrl; split
  · grow_tac
  · split <;> grow_tac
  · split <;> grow_tac
  · grow_tac

theorem tick_grow (c : Cfg) (s : St) : Grow s (tick c s).1 :=
  tick_pres (P := fun s' => Grow s s') c (fun s' h => h.trans (respond_grow c s'))
    (fun s' h => h.trans (parseTranslation_grow c s')) (fun s' h => h.trans (translate_grow c s'))
    (fun s' h => h.trans (handleCtrl_grow s')) s (Grow.refl s)

theorem handleCtrl_del (s : St) : (handleCtrl s).1.tdel = s.tdel ∧ (handleCtrl s).1.mdel = s.mdel := by
  unfold handleCtrl; split
  · exact ⟨rfl, rfl⟩
  · split <;> exact ⟨rfl, rfl⟩
  · split <;> exact ⟨rfl, rfl⟩
  · exact ⟨rfl, rfl⟩

theorem tick_del (c : Cfg) (s : St) : (tick c s).1.tdel = s.tdel ∧ (tick c s).1.mdel = s.mdel := by
  rw [tick_eq]
  have h1 := handleCtrl_del (pipe c s).1
  have h2 := pipe_same c s
  exact ⟨h1.1.trans h2.2.2.2.2.2.2.1, h1.2.trans h2.2.2.2.2.2.2.2⟩

/-! ## the measure -/

/-- work held by the translator, including its control port -/
def smu (s : St) : Nat := mu s + 2 * s.ctlIn.length + s.ctlOut

/-- work held anywhere in the closed world -/
def wmu (w : CW) : Nat := smu w.s + 2 * w.envT.length + 2 * w.envM.length

theorem handleCtrl_sdec (s : St) :
    smu (handleCtrl s).1 ≤ smu s ∧ ((handleCtrl s).2 = true → smu (handleCtrl s).1 < smu s) := by
  unfold handleCtrl
  split
  · simp
  · rename_i rest hc
    split
    · simp [smu, mu, hc]; omega
    · simp
  · rename_i rest hc
    split
    · simp [smu, mu, hc]; omega
    · simp
  · simp [smu, mu]

theorem pipe_dec (c : Cfg) (s : St) :
    mu (pipe c s).1 ≤ mu s ∧ ((pipe c s).2 = true → mu (pipe c s).1 < mu s) := by
  unfold pipe
  split
  · exact iter_dec (parseTranslation_dec c) c.width s
  · have h1 := iter_dec (respond_dec c) c.width s
    have h2 := iter_dec (parseTranslation_dec c) c.width (iter (respond c) c.width s).1
    have h3 := iter_dec (translate_dec c) c.width
      (iter (parseTranslation c) c.width (iter (respond c) c.width s).1).1
    simp only [runPipeline, Bool.or_eq_true]
    refine ⟨by omega, ?_⟩
    rintro ((h | h) | h)
    · have := h1.2 h; omega
    · have := h2.2 h; omega
    · have := h3.2 h; omega

/-- a tick never increases the measure and strictly decreases it whenever it reports progress —
    with or without a control message pending -/
theorem tick_sdec (c : Cfg) (s : St) :
    smu (tick c s).1 ≤ smu s ∧ ((tick c s).2 = true → smu (tick c s).1 < smu s) := by
  rw [tick_eq]
  have hp := pipe_dec c s
  have hs := pipe_same c s
  have hc := handleCtrl_sdec (pipe c s).1
  have hps : smu (pipe c s).1 ≤ smu s ∧ ((pipe c s).2 = true → smu (pipe c s).1 < smu s) := by
    simp only [smu, hs.1, hs.2.1]
    refine ⟨by omega, fun h => ?_⟩
    have := hp.2 h; omega
  simp only [Bool.or_eq_true]
  refine ⟨by omega, ?_⟩
  rintro (h | h)
  · have := hc.2 h; omega
  · have := hps.2 h; omega

/-- a pending flush / restart is handled as soon as the control port's outgoing buffer has room -/
theorem tick_enabled_ctl (c : Cfg) (s : St) (nb : NoBad s) (h1 : s.ctlIn ≠ []) (h2 : s.ctlOut < 1) :
    (tick c s).2 = true := by
  rw [tick_eq]
  have hs := pipe_same c s
  have : (handleCtrl (pipe c s).1).2 = true := by
    unfold handleCtrl
    split
    · rename_i hc; rw [hs.1] at hc; exact absurd hc h1
    · simp [hs.2.1, h2]
    · simp [hs.2.1, h2]
    · rename_i rest hc
      rw [hs.1] at hc
      exact absurd rfl (nb .bad (by rw [hc]; exact List.mem_cons_self ..))
  simp [this]

/-- not flushing, no control message, room in the three outgoing buffers and anything at hand
    (response, reply, access, completed transaction): the tick reports progress -/
theorem tick_enabled_pipe (c : Cfg) (s : St) (hd : DInv s) (hne : ∀ t ∈ s.txs, t.reqs ≠ [])
    (hfl : s.flushing = false) (hw : 0 < c.width)
    (h1 : s.topOut.length < c.width) (h2 : s.botOut.length < c.width) (h3 : s.trOut.length < c.width)
    (hact : s.botIn ≠ [] ∨ s.trIn ≠ [] ∨ s.topIn ≠ [] ∨ ∃ t ∈ s.txs, t.done = true) :
    (tick c s).2 = true := by
  obtain ⟨n, hn⟩ : ∃ n, c.width = n + 1 := ⟨c.width - 1, by omega⟩
  have hpipe : (runPipeline c s).2 = true := by
    simp only [runPipeline, Bool.or_eq_true]
    by_cases hb : s.botIn = []
    · have ha : iter (respond c) c.width s = (s, false) := iter_idle s (respond_idle c s hb) _
      rw [ha]
      by_cases hp : s.trIn ≠ [] ∨ ∃ t ∈ s.txs, t.done = true
      · left; right
        rw [hn]; exact iter_first n s (parse_enabled c s hd hne h2 hp)
      · have hp1 : s.trIn = [] := by
          cases h : s.trIn with
          | nil => rfl
          | cons a l => exact absurd (Or.inl (by simp [h])) hp
        have hp2 : ∀ t ∈ s.txs, t.done = false := by
          intro t ht
          cases h : t.done with
          | false => rfl
          | true => exact absurd (Or.inr ⟨t, ht, h⟩) hp
        have hbb : iter (parseTranslation c) c.width s = (s, false) :=
          iter_idle s (parse_idle c s hp1 hp2) _
        rw [hbb]
        right
        have htop : s.topIn ≠ [] := by
          rcases hact with h | h | h | ⟨t, ht, h⟩
          · exact absurd hb h
          · exact absurd hp1 h
          · exact h
          · have := hp2 t ht; simp [h] at this
        rw [hn]; exact iter_first n s (translate_enabled c s htop h3)
    · left; left
      rw [hn]; exact iter_first n s (respond_enabled c s hb h1)
  simp only [tick, hfl, Bool.false_eq_true, if_false, Bool.or_eq_true]
  exact Or.inr hpipe

end C16
