import MgpuProofs.C02WfDefs
/-! Helper lemmas for the wavefront simulation theorem of C02: runs, list surgery, ranges. -/
namespace C02.Wf

/-! ## emulator runs -/

theorem ehrun_snoc (P : Prog) : ∀ (n : Nat) (x0 x y : EState × HState),
    ehrun P n x0 = some x → ehstep P x = some y → ehrun P (n + 1) x0 = some y := by
  intro n
  induction n with
  | zero =>
    intro x0 x y h hs
    simp only [ehrun] at h
    cases h
    simp [ehrun, hs]
  | succ n ih =>
    intro x0 x y h hs
    simp only [ehrun] at h
    cases hx : ehstep P x0 with
    | none => simp [hx] at h
    | some z =>
      simp only [hx] at h
      have := ih z x y h hs
      rw [ehrun, hx]
      exact this

theorem ehstep_not_done (P : Prog) (x y : EState × HState) (h : ehstep P x = some y) : x.1.done = false := by
  unfold ehstep at h
  by_cases hd : x.1.done = true
  · simp [hd] at h
  · simpa using hd

/-- a hazard-free terminating run never gets stuck before it is done -/
theorem hfr_next (P : Prog) : ∀ (fuel : Nat) (x0 : EState × HState) (n : Nat) (x : EState × HState),
    hazardFreeRun P fuel x0 = true → ehrun P n x0 = some x → x.1.done = false →
    ∃ y, ehstep P x = some y := by
  intro fuel
  induction fuel with
  | zero =>
    intro x0 n x h hr hd
    simp only [hazardFreeRun] at h
    cases n with
    | zero => simp only [ehrun] at hr; cases hr; simp [h] at hd
    | succ n =>
      simp only [ehrun] at hr
      cases hx : ehstep P x0 with
      | none => simp [hx] at hr
      | some z => have := ehstep_not_done P x0 z hx; simp [h] at this
  | succ fuel ih =>
    intro x0 n x h hr hd
    simp only [hazardFreeRun] at h
    by_cases hd0 : x0.1.done = true
    · cases n with
      | zero => simp only [ehrun] at hr; cases hr; simp [hd0] at hd
      | succ n =>
        simp only [ehrun] at hr
        cases hx : ehstep P x0 with
        | none => simp [hx] at hr
        | some z => have := ehstep_not_done P x0 z hx; simp [hd0] at this
    · simp only [hd0] at h
      cases hx : ehstep P x0 with
      | none => simp [hx] at h
      | some z =>
        simp only [hx] at h
        cases n with
        | zero => simp only [ehrun] at hr; cases hr; exact ⟨z, hx⟩
        | succ n =>
          simp only [ehrun, hx] at hr
          exact ih z n x (by simpa using h) hr hd

theorem ehrun_erun (P : Prog) : ∀ (n : Nat) (x y : EState × HState), ehrun P n x = some y →
    erun P n x.1 = some y.1 := by
  intro n
  induction n with
  | zero => intro x y h; simp only [ehrun] at h; cases h; rfl
  | succ n ih =>
    intro x y h
    simp only [ehrun] at h
    cases hx : ehstep P x with
    | none => simp [hx] at h
    | some z =>
      simp only [hx] at h
      have hz := ih z y h
      unfold ehstep at hx
      split at hx
      · cases hx
      · split at hx
        · cases hx
        · split at hx
          · rename_i H' E' _ he
            split at hx
            · cases hx
              simp only [erun, he]
              exact hz
            · cases hx
          · cases hx


theorem erun_done_unique (P : Prog) : ∀ (n m : Nat) (s E E' : EState), erun P n s = some E → E.done = true →
    erun P m s = some E' → E'.done = true → E = E' := by
  intro n
  induction n with
  | zero =>
    intro m s E E' h hd h' _
    simp only [erun] at h; cases h
    cases m with
    | zero => simp only [erun] at h'; cases h'; rfl
    | succ m => simp only [erun, estep, hd, if_true] at h'; cases h'
  | succ n ih =>
    intro m s E E' h hd h' hd'
    cases m with
    | zero =>
      simp only [erun] at h'; cases h'
      simp only [erun, estep, hd', if_true] at h; cases h
    | succ m =>
      simp only [erun] at h h'
      cases hs : estep P s with
      | none => simp [hs] at h
      | some s1 =>
        simp only [hs] at h h'
        exact ih m s1 E E' h hd h' hd'


/-! ## the driver's re-tabulation is the identity -/

theorem arr_get (f : Nat → Nat) (n x : Nat) (h : x < n) : ((Array.range n).map f)[x]! = f x := by
  rw [getElem!_pos _ _ (by simpa using h)]
  simp

theorem freezeR_eq (r : RF) : (freezeR r).f = r := by
  funext x
  simp only [freezeR, mkRF]
  split
  · rename_i h; exact arr_get r 203 x h
  · split
    · rename_i h; rw [arr_get _ 640 _ (by omega), Nat.add_sub_cancel' h.1]
    · split
      · rename_i h; rw [arr_get _ 1024 _ (by omega), Nat.add_sub_cancel' h.1]
      · rfl

theorem freezeM_eq (m : Mem) : (freezeM m).f = m := by
  funext x
  simp only [freezeM, mkMem]
  split
  · rename_i h; rw [arr_get _ 2048 _ (by omega), Nat.add_sub_cancel' h.1]
  · split
    · rename_i h; rw [arr_get _ 64 _ (by omega), Nat.add_sub_cancel' h.1]
    · rfl

theorem freezeT_eq (s : TState) : { s with regs := (freezeR s.regs).f, mem := (freezeM s.mem).f } = s := by
  rw [freezeR_eq, freezeM_eq]

theorem freezeE_eq (s : EState) : { s with regs := (freezeR s.regs).f, mem := (freezeM s.mem).f } = s := by
  rw [freezeR_eq, freezeM_eq]

/-- the driver's event loop is `trun` -/
theorem trunIdx_go_eq (P : Prog) : ∀ (evs : List Ev) (s : TState) (k : Nat),
    (trunIdx.go P s evs k).2 = none → trun P (fun _ _ => true) s evs = some (trunIdx.go P s evs k).1 := by
  intro evs
  induction evs with
  | nil => intro s k _; rfl
  | cons e es ih =>
    intro s k h
    simp only [trunIdx.go, trun] at h ⊢
    cases hs : tstep P (fun _ _ => true) s e with
    | none => simp [hs] at h
    | some s' =>
      simp only [hs] at h ⊢
      rw [freezeT_eq] at h ⊢
      exact ih s' (k + 1) h

/-- the driver's emulator loop is `erun` -/
theorem erunFuel_eq (P : Prog) : ∀ (n : Nat) (s : EState), (erunFuel P n s).2 = "done" →
    ∃ k, k ≤ n ∧ erun P k s = some (erunFuel P n s).1 ∧ (erunFuel P n s).1.done = true := by
  intro n
  induction n with
  | zero =>
    intro s h
    simp only [erunFuel] at h ⊢
    by_cases hd : s.done = true
    · exact ⟨0, Nat.le_refl _, rfl, hd⟩
    · simp [hd] at h
  | succ n ih =>
    intro s h
    simp only [erunFuel] at h ⊢
    by_cases hd : s.done = true
    · rw [if_pos hd] at h ⊢
      exact ⟨0, Nat.zero_le _, rfl, hd⟩
    · rw [if_neg hd] at h ⊢
      cases hs : estep P s with
      | none => simp [hs] at h
      | some s' =>
        simp only [hs] at h ⊢
        rw [freezeE_eq] at h ⊢
        obtain ⟨k, hk, hr, hdn⟩ := ih s' h
        exact ⟨k + 1, by omega, by simp only [erun, hs]; exact hr, hdn⟩

/-! ## list surgery -/

theorem mem_serveAt (m : Mem) : ∀ (l : List Pend) (k : Nat) (q : Pend), q ∈ serveAt m l k →
    q ∈ l ∨ ∃ p, l[k]? = some p ∧ q = { p with served := some m } := by
  intro l
  induction l with
  | nil => intro k q h; simp [serveAt] at h
  | cons p ps ih =>
    intro k q h
    cases k with
    | zero =>
      simp only [serveAt, List.mem_cons] at h
      rcases h with h | h
      · exact Or.inr ⟨p, by simp, h⟩
      · exact Or.inl (List.mem_cons_of_mem _ h)
    | succ k =>
      simp only [serveAt, List.mem_cons] at h
      rcases h with h | h
      · exact Or.inl (h ▸ List.mem_cons_self ..)
      · rcases ih k q h with h' | ⟨p', hp', hq⟩
        · exact Or.inl (List.mem_cons_of_mem _ h')
        · exact Or.inr ⟨p', by simpa using hp', hq⟩

theorem mem_of_serveAt (m : Mem) : ∀ (l : List Pend) (k : Nat) (p q : Pend), l[k]? = some p → q ∈ l →
    q = p ∨ q ∈ serveAt m l k := by
  intro l
  induction l with
  | nil => intro k p q _ h; simp at h
  | cons a as ih =>
    intro k p q hk hq
    cases k with
    | zero =>
      simp only [List.getElem?_cons_zero, Option.some.injEq] at hk
      simp only [List.mem_cons] at hq
      rcases hq with hq | hq
      · exact Or.inl (hq.trans hk)
      · exact Or.inr (by simp [serveAt, hq])
    | succ k =>
      simp only [List.getElem?_cons_succ] at hk
      simp only [List.mem_cons] at hq
      rcases hq with hq | hq
      · exact Or.inr (by simp [serveAt, hq])
      · rcases ih k p q hk hq with h | h
        · exact Or.inl h
        · exact Or.inr (by simp [serveAt, h])

theorem serveAt_mem_new (m : Mem) : ∀ (l : List Pend) (k : Nat) (p : Pend), l[k]? = some p →
    { p with served := some m } ∈ serveAt m l k := by
  intro l
  induction l with
  | nil => intro k p h; simp at h
  | cons a as ih =>
    intro k p hk
    cases k with
    | zero =>
      simp only [List.getElem?_cons_zero, Option.some.injEq] at hk
      subst hk
      simp [serveAt]
    | succ k =>
      simp only [List.getElem?_cons_succ] at hk
      simp only [serveAt, List.mem_cons]
      exact Or.inr (ih k p hk)

theorem serveAt_length (m : Mem) : ∀ (l : List Pend) (k : Nat), (serveAt m l k).length = l.length := by
  intro l
  induction l with
  | nil => intro k; rfl
  | cons a as ih =>
    intro k
    cases k with
    | zero => rfl
    | succ k => simp [serveAt, ih]

theorem serveAt_map_key (m : Mem) : ∀ (l : List Pend) (k : Nat),
    (serveAt m l k).map Pend.key = l.map Pend.key := by
  intro l
  induction l with
  | nil => intro k; rfl
  | cons a as ih =>
    intro k
    cases k with
    | zero => rfl
    | succ k => simp [serveAt, ih]

theorem mem_of_getElem? {α : Type} : ∀ (l : List α) (k : Nat) (p : α), l[k]? = some p → p ∈ l := by
  intro l k p h
  exact List.mem_of_getElem? h

theorem mem_eraseIdx_or {α : Type} : ∀ (l : List α) (k : Nat) (p q : α), l[k]? = some p → q ∈ l →
    q = p ∨ q ∈ l.eraseIdx k := by
  intro l
  induction l with
  | nil => intro k p q _ h; simp at h
  | cons a as ih =>
    intro k p q hk hq
    cases k with
    | zero =>
      simp only [List.getElem?_cons_zero, Option.some.injEq] at hk
      simp only [List.mem_cons] at hq
      rcases hq with hq | hq
      · exact Or.inl (hq.trans hk)
      · exact Or.inr (by simpa using hq)
    | succ k =>
      simp only [List.getElem?_cons_succ] at hk
      simp only [List.mem_cons] at hq
      rcases hq with hq | hq
      · exact Or.inr (by simp [hq])
      · rcases ih k p q hk hq with h | h
        · exact Or.inl h
        · exact Or.inr (by simp [h])

theorem mem_of_mem_eraseIdx {α : Type} (l : List α) (k : Nat) (q : α) (h : q ∈ l.eraseIdx k) : q ∈ l :=
  (List.eraseIdx_sublist l k).subset h

theorem length_eraseIdx_of_getElem? {α : Type} (l : List α) (k : Nat) (p : α) (h : l[k]? = some p) :
    (l.eraseIdx k).length + 1 = l.length := by
  have hk : k < l.length := by
    rcases Nat.lt_or_ge k l.length with h' | h'
    · exact h'
    · simp [List.getElem?_eq_none h'] at h
  rw [List.length_eraseIdx_of_lt hk]
  omega

/-! ## ranges -/

theorem expand_own (own : Nat → Bool) (rs : Ranges) (h : (expand rs).all own = true) (a : Nat)
    (ha : inRanges rs a = true) : own a = true := by
  simp only [inRanges, List.any_eq_true, decide_eq_true_eq] at ha
  obtain ⟨p, hp, hp1⟩ := ha
  simp only [List.all_eq_true] at h
  apply h
  simp only [expand, List.mem_flatMap, List.mem_range'_1]
  exact ⟨p, hp, hp1.1, by omega⟩


theorem rangesDisjoint_spec (rs rs' : Ranges) (h : rangesDisjoint rs rs' = true) (a : Nat) :
    ¬ (inRanges rs a = true ∧ inRanges rs' a = true) := by
  intro ⟨h1, h2⟩
  simp only [inRanges, List.any_eq_true, decide_eq_true_eq] at h1 h2
  obtain ⟨p, hp, hp1⟩ := h1
  obtain ⟨q, hq, hq1⟩ := h2
  simp only [rangesDisjoint, List.all_eq_true, decide_eq_true_eq] at h
  have := h p hp q hq
  omega

theorem disj_spec (a b : List Nat) (h : disj a b = true) (x : Nat) (hx : x ∈ a) : x ∉ b := by
  simp only [disj, List.all_eq_true, Bool.not_eq_true', List.contains_eq_mem, decide_eq_false_iff_not] at h
  exact h x hx

end C02.Wf
